package main

import (
	"context"
	"database/sql/driver"
	"fmt"
	"net/url"
	"os"
	"regexp"
	"strconv"
	"strings"
	"sync"
	"time"

	"github.com/metrico/qryn/reader/logql/logql_parser"
	"github.com/metrico/qryn/reader/logql/logql_transpiler_v2/clickhouse_planner"
	"github.com/metrico/qryn/reader/logql/logql_transpiler_v2/shared"
	rmodel "github.com/metrico/qryn/reader/model"
	promtr "github.com/metrico/qryn/reader/promql/transpiler"
	rservice "github.com/metrico/qryn/reader/service"
	sql "github.com/metrico/qryn/reader/utils/sql_select"
	"github.com/metrico/qryn/reader/utils/tables"
	"github.com/prometheus/prometheus/model/labels"
	promparser "github.com/prometheus/prometheus/promql/parser"
	"github.com/prometheus/prometheus/storage"
	"verif/harness/fakes"
	"verif/harness/h"
	"verif/harness/sqldump"
)

// ---- the SIGNAL half of C13 -------------------------------------------------------------------------------------------
// Text oracle (no model): every `type IN (…)` list of a statement an API sends names only the API's signal and 0, and the
// statement has at least one such list when it reads a typed table. Applied to the SQL the REAL entry points send (HTTP
// router → controller → service, the tail service), i.e. with the PlannerContext each entry point really builds.

var c13TypeIn = regexp.MustCompile(`\btype\)? IN \(([^)]*)\)`)
var c13TypedTable = regexp.MustCompile(`FROM \(?` + "`?" + `[a-zA-Z0-9_` + "`" + `.]*(samples_v3|metrics_15s|time_series_gin|time_series)(_dist)?\b`)

// c13SignalText judges one statement text; returns false when it violates
func c13SignalText(r *h.Result, api, text string, signal int, c any) bool {
	lists := c13TypeIn.FindAllStringSubmatch(text, -1)
	ok := true
	for _, m := range lists {
		for _, v := range strings.Split(m[1], ",") {
			n, err := strconv.Atoi(strings.TrimSpace(v))
			if err != nil || (n != signal && n != 0) {
				ok = false
				r.Violate("C13/signal/"+api, fmt.Sprintf("%s (signal %d) sends a statement whose type filter reads `type IN (%s)`: rows of the other signal are admitted", api, signal, m[1]),
					map[string]any{"stream": "signal", "api": api, "signal": signal, "case": c, "sql": text})
				break
			}
		}
	}
	if len(lists) == 0 && c13TypedTable.MatchString(text) {
		ok = false
		r.Violate("C13/signal/"+api+"/no-type-filter", fmt.Sprintf("%s (signal %d) reads a table with a type column without any type filter", api, signal),
			map[string]any{"stream": "signal", "api": api, "signal": signal, "case": c, "sql": text})
	}
	r.Count("signal-text:" + api)
	return ok
}

func c13Quiet(f func()) {
	saved := os.Stdout
	if dn, e := os.OpenFile(os.DevNull, os.O_WRONLY, 0); e == nil {
		os.Stdout = dn
		defer func() { os.Stdout = saved; dn.Close() }()
	}
	f()
}

// c13SignalHTTP: every Loki and Prometheus read route of the real router over the scripted database
func c13SignalHTTP(r *h.Result, rng *h.Rng, n int) error {
	r.Stream("signal-http: the real reader router (query_range, instant query, labels, label values, series; Prometheus labels, label values, series with match[], query_range, query) over a scripted database: every `type IN (…)` list of every statement sent names only the signal of the API (1 Loki, 2 Prometheus) and 0 — the PlannerContext is the one the entry point builds")
	rd := newC13Reader()
	logq := []string{`{a="b"}`, `{a="b"} |= "x"`, `{a="b"} | c="d"`, `rate({a="b"}[5s])`, `sum by (a) (count_over_time({a="b"}[10s]))`, `rate({a="b"}[1m])`}
	promq := []string{`up`, `up{job="x"}`, `rate(up{job=~"a.*"}[1m])`, `sum(up) by (job)`, `max_over_time(m{env!="x", job="y"}[5m])`}
	for i := 0; i < n; i++ {
		base := int64(1700000000 + rng.Intn(1000000))
		start, end := base, base+int64(h.Pick(rng, []int{1, 60, 3600, 90000}))
		ns := func(s int64) string { return strconv.FormatInt(s*1e9, 10) }
		sec := func(s int64) string { return strconv.FormatInt(s, 10) }
		type call struct {
			api, path string
			q         url.Values
			signal    int
		}
		lq, pq := h.Pick(rng, logq), h.Pick(rng, promq)
		calls := []call{
			{"loki-query-range", "/loki/api/v1/query_range", url.Values{"query": {lq}, "start": {ns(start)}, "end": {ns(end)}, "limit": {"10"}, "step": {"5"}}, 1},
			{"loki-query", "/loki/api/v1/query", url.Values{"query": {lq}, "time": {ns(end)}, "limit": {"10"}}, 1},
			{"loki-labels", "/loki/api/v1/labels", url.Values{"start": {ns(start)}, "end": {ns(end)}}, 1},
			{"loki-label-values", "/loki/api/v1/label/job/values", url.Values{"start": {ns(start)}, "end": {ns(end)}, "match[]": {`{a="b"}`}}, 1},
			{"loki-series", "/loki/api/v1/series", url.Values{"start": {ns(start)}, "end": {ns(end)}, "match[]": {`{a="b"}`, `{c=~"d.*"}`}}, 1},
			{"prom-labels", "/api/v1/labels", url.Values{"start": {sec(start)}, "end": {sec(end)}}, 2},
			{"prom-labels-match", "/api/v1/labels", url.Values{"start": {sec(start)}, "end": {sec(end)}, "match[]": {`{job="x"}`}}, 2},
			{"prom-label-values", "/api/v1/label/job/values", url.Values{"start": {sec(start)}, "end": {sec(end)}, "match[]": {`{job="x",env!="y"}`, `{a=~"b.+"}`}}, 2},
			{"prom-series", "/api/v1/series", url.Values{"start": {sec(start)}, "end": {sec(end)}, "match[]": {`{job="x"}`}}, 2},
			{"prom-query-range", "/api/v1/query_range", url.Values{"query": {pq}, "start": {sec(start)}, "end": {sec(end)}, "step": {"15"}}, 2},
			{"prom-query", "/api/v1/query", url.Values{"query": {pq}, "time": {sec(end)}}, 2},
		}
		for _, c := range calls {
			var code int
			var sqls []string
			c13Quiet(func() { code, sqls = rd.get(c.path, c.q) })
			r.Count(fmt.Sprintf("signal-http:%s:status=%d", c.api, code))
			typed := 0
			for _, s := range sqls {
				if !c13TypedTable.MatchString(s) {
					continue // bookkeeping statements (settings, SHOW TABLES)
				}
				typed++
				c13SignalText(r, c.api, s, c.signal, map[string]any{"path": c.path, "params": c.q})
			}
			r.Case(fmt.Sprintf("signal-http:%s:%v", c.api, c.q), typed > 0)
			if typed == 0 {
				r.Count("signal-http:" + c.api + ":no-typed-statement")
			}
		}
	}
	return nil
}

// ---- model-promlabels: the Prometheus metadata endpoints, service level, vs Prom.promLabels / promValues / promSeries
type c13plCase struct {
	Stream   string   `json:"stream"`
	Endpoint string   `json:"endpoint"`
	Cluster  bool     `json:"cluster"`
	StartMs  int64    `json:"start_ms"`
	EndMs    int64    `json:"end_ms"`
	Name     string   `json:"name,omitempty"`
	Match    []string `json:"match"`
	SQL      string   `json:"sql"`
}

func c13plSelector(rng *h.Rng) (string, bool) {
	var parts []string
	nonEmpty := false
	for k, nm := 0, rng.Range(1, 3); k < nm; k++ {
		t := h.Pick(rng, []string{"=", "!=", "=~", "!~"})
		name, val := h.Pick(rng, c17Names), h.Pick(rng, c17Regex)
		if k == 0 && rng.Chance(70) {
			t, val = "=", h.Pick(rng, []string{"up", "x", "prod", "a'b"})
		}
		parts = append(parts, name+t+strconv.Quote(val))
	}
	s := "{" + strings.Join(parts, ",") + "}"
	ms, err := promparser.ParseMetricSelector(s)
	if err != nil {
		return s, false
	}
	for _, m := range ms {
		if !m.Matches("") {
			nonEmpty = true
		}
	}
	return s, nonEmpty
}

// what fingerprintsQuery asks the index for one selector: `name:op:val;…~req`
func c13plSelArg(sel string) (string, error) {
	ms, err := promparser.ParseMetricSelector(sel)
	if err != nil {
		return "", err
	}
	mt := map[labels.MatchType]string{labels.MatchEqual: "eq", labels.MatchNotEqual: "neq", labels.MatchRegexp: "re", labels.MatchNotRegexp: "nre"}
	inv := map[labels.MatchType]labels.MatchType{labels.MatchEqual: labels.MatchNotEqual, labels.MatchNotEqual: labels.MatchEqual,
		labels.MatchRegexp: labels.MatchNotRegexp, labels.MatchNotRegexp: labels.MatchRegexp}
	var parts []string
	req := ""
	for _, m := range ms {
		t := m.Type
		if m.Matches("") {
			t = inv[t]
			req += "0"
		} else {
			req += "1"
		}
		val := m.Value
		if t == labels.MatchRegexp || t == labels.MatchNotRegexp {
			val = "^(?:" + val + ")$"
		}
		parts = append(parts, hx(m.Name)+":"+mt[t]+":"+hx(val))
	}
	return strings.Join(parts, ";") + "~" + req, nil
}

var c13plSeq int

func c13ModelPromLabels(r *h.Result, rng *h.Rng, n int) error {
	r.Stream("model-promlabels: the real QueryLabelsService.PromLabels / PromValues / PromSeries (labelsType 2, as the Prometheus controllers pass) over a scripted database, single-node and clustered, 0–3 match[] selectors → the statement sent vs Prom.promLabels / promValues / promSeries .render (byte-equal) + promConfined and promSignal(2) of the model's statement + hypotheses under lokiCfg; text oracle on the real statement: every type list ⊆ {2,0}, as many type filters as selects of typed tables; single-selector compositions rebuilt at planner level are judged on their reflection dump (confinedDeep for the request window, signalDeep for signal 2)")
	c20Setup()
	var ops, impl []string
	var cases []c13mCase
	var tight c13Tight
	var sigOps []string
	var sigCases []any
	for i := 0; i < n; i++ {
		cluster := rng.Chance(40)
		base := int64(1700000000+rng.Intn(30000000)) * 1000
		startMs := base + int64(rng.Intn(1000))
		endMs := startMs + int64(h.Pick(rng, []int{1, 1000, 60000, 3600000, 90000000}))
		if rng.Chance(25) {
			day := (base / 86400000) * 86400000
			startMs, endMs = day+int64(h.Pick(rng, []int{0, 1799000, 1800000, 1801000})), day+7200000
		}
		var match, args []string
		usable := true
		for k, ns := 0, h.Pick(rng, []int{0, 1, 1, 2, 3}); k < ns; k++ {
			s, ok := c13plSelector(rng)
			if !ok {
				usable = false
			}
			match = append(match, s)
			if a, err := c13plSelArg(s); err == nil {
				args = append(args, a)
			} else {
				usable = false
			}
		}
		if !usable {
			r.Count("model-promlabels:selector-refused-by-parser")
			continue
		}
		endpoint := h.Pick(rng, []string{"labels", "values", "series"})
		name := h.Pick(rng, []string{"job", "a", "x'y", "__name__"})
		var mtx sync.Mutex
		var sqls []string
		reg := fakes.NewDBRegistry(&fakes.CallLog{}, func(s string) ([]string, [][]driver.Value, error) {
			if strings.HasPrefix(s, "SELECT argMax(name, inserted_at)") {
				return []string{"_name", "_value"}, nil, nil
			}
			if strings.TrimSpace(s) == "SHOW TABLES" {
				return []string{"name"}, nil, nil
			}
			mtx.Lock()
			sqls = append(sqls, s)
			mtx.Unlock()
			return []string{"x"}, nil, nil
		})
		c13plSeq++
		reg.M.Session = &c13tNamed{DB: reg.M.Session.(*fakes.DB), name: fmt.Sprintf("c13pl-%d", c13plSeq)}
		if cluster {
			reg.M.Config.ClusterName = "c1"
		}
		svc := rservice.NewQueryLabelsService(&rmodel.ServiceData{Session: reg})
		var ch chan string
		var err error
		c13Quiet(func() {
			switch endpoint {
			case "labels":
				ch, err = svc.PromLabels(context.Background(), match, startMs, endMs, 2)
			case "values":
				ch, err = svc.PromValues(context.Background(), name, match, startMs, endMs, 2)
			default:
				ch, err = svc.PromSeries(context.Background(), match, startMs, endMs, 2)
			}
			if err == nil {
				for range ch {
				}
			}
		})
		if err != nil {
			r.Count("model-promlabels:service-error")
			continue
		}
		mtx.Lock()
		got := append([]string{}, sqls...)
		mtx.Unlock()
		if endpoint == "series" && len(match) == 0 {
			if len(got) != 0 {
				r.Disagree("model-promlabels", "series without match[]", "no statement", strings.Join(got, " ; "), nil)
			}
			r.Count("model-promlabels:series-without-selector:no-statement")
			continue
		}
		if len(got) != 1 {
			r.Disagree("model-promlabels", endpoint, "one statement", fmt.Sprintf("%d statements: %q", len(got), got), nil)
			continue
		}
		text := got[0]
		// the context the service builds (tables as PopulateTableNames names them for this connection)
		pc := shared.PlannerContext{IsCluster: cluster}
		tables.PopulateTableNames(&pc, reg.M)
		limit := int64(10000)
		if endpoint == "labels" {
			limit = 0
		}
		gin := pc.TimeSeriesGinTableName
		if endpoint == "values" {
			gin = tables.GetTableName("time_series_gin")
			if cluster {
				gin += "_dist"
			}
		}
		from, to := (startMs/1000)*1e9, (endMs/1000)*1e9
		cser := fmt.Sprintf("%d %d %d 0 2 %d %s %s %s %s", from, to, limit, b2i(cluster), hx(gin), hx(pc.SamplesTableName), hx(pc.TimeSeriesTableName), hx(pc.TimeSeriesDistTableName))
		sa := "-"
		if len(args) > 0 {
			sa = strings.Join(args, "|")
		}
		var op string
		switch endpoint {
		case "labels":
			table := gin
			if len(match) == 0 {
				table = tables.GetTableName("time_series_gin")
				if cluster {
					table = tables.GetTableName("time_series_gin_dist")
				}
			}
			op = fmt.Sprintf("c13plabels 2 %s %s 2 %s", cser, hx(table), sa)
		case "values":
			op = fmt.Sprintf("c13pvalues 2 %s %s %s", cser, hx(name), sa)
		default:
			op = fmt.Sprintf("c13pseries 2 %s %s", cser, sa)
		}
		cs := c13plCase{"model-promlabels", endpoint, cluster, startMs, endMs, name, match, text}
		ops = append(ops, op)
		impl = append(impl, text)
		cases = append(cases, c13mCase{"model-promlabels", endpoint, fmt.Sprintf("match[]=%q start=%d end=%d", match, startMs, endMs), cs, text, ""})
		r.Case(fmt.Sprintf("model-promlabels:%s:%v:%d:%d:%v", endpoint, match, startMs, endMs, cluster), len(match) > 0)
		r.Count(fmt.Sprintf("model-promlabels:%s:selectors=%d:cluster=%v", endpoint, len(match), cluster))
		// text oracle: type lists, and one type filter per select of a typed table
		c13SignalText(r, "prom-"+endpoint+"-service", text, 2, cs)
		if nt, nf := len(c13TypeIn.FindAllString(text, -1)), len(c13TypedTable.FindAllString(text, -1)); nt != nf {
			r.Violate("C13/signal/prom-"+endpoint+"-service/select-without-type-filter",
				fmt.Sprintf("the %s statement has %d selects of typed tables and %d type filters", endpoint, nf, nt), cs)
		}
		// planner level, one selector: the same composition rebuilt from the exported planners, judged on its dump
		if len(match) == 1 && endpoint != "labels" {
			ms, _ := promparser.ParseMetricSelector(match[0])
			fp := &clickhouse_planner.MultiStreamSelectPlanner{Mains: []shared.SQLRequestPlanner{&promtr.StreamSelectPlanner{Matchers: ms}}}
			var p shared.SQLRequestPlanner
			if endpoint == "values" {
				p = clickhouse_planner.NewValuesPlanner(fp, name)
			} else {
				p = clickhouse_planner.NewSeriesPlanner(fp)
			}
			rc := shared.PlannerContext{IsCluster: cluster, From: time.Unix(startMs/1000, 0), To: time.Unix(endMs/1000, 0), Limit: 10000, Type: 2, Ctx: context.Background()}
			tables.PopulateTableNames(&rc, reg.M)
			rc.TimeSeriesGinTableName = gin
			if sel, err := p.Process(&rc); err == nil {
				if t2, err := sel.String(sql.DefaultCtx()); err == nil && t2 != text {
					r.Disagree("model-promlabels", "planner-level composition of "+endpoint, text, t2, cs)
				}
				tight.add("prom-"+endpoint, from, to, 0, true, 2, sel, fmt.Sprintf("%s match[]=%q", endpoint, match), cs)
				sigOps = append(sigOps, "c13signal 2 "+hx(sqldump.Dump(sel)))
				sigCases = append(sigCases, cs)
			}
		}
	}
	ans, err := h.Model(ops)
	if err != nil {
		return err
	}
	for i, a := range ans {
		c13Judge(r, "model-promlabels", ops[i], a, impl[i], cases[i], 1)
	}
	if err := tight.judge(r); err != nil {
		return err
	}
	return c13SignalJudge(r, sigOps, sigCases, "prom-metadata")
}

func c13SignalJudge(r *h.Result, ops []string, cases []any, key string) error {
	ans, err := h.Model(ops)
	if err != nil {
		return err
	}
	for i, a := range ans {
		r.Count("signal-dump:" + key)
		if a != "true" {
			r.Violate("C13/signal/"+key+"/dump", "the real statement has a scan of a typed table that is not restricted to the API's signal: "+a,
				map[string]any{"stream": "signal", "case": cases[i], "verdict": a})
		}
	}
	return nil
}

// c13SignalPlans: the real planners with the context Type the entry points build (regenerated: unset for the Loki entry points,
// 2 for the Prometheus adapter, the controller's labelsType for the label services) → reflection dump → signalDeep for the API's
// signal; the model's own plan is asked too (true by signal_confined_logql / _metric)
func c13SignalPlans(r *h.Result, rng *h.Rng, n int) error {
	r.Stream("signal-plans: real planners (LogQL log + metric through clickhouse_planner.Plan, series / label values, Prometheus raw + rollup) with the Type the entry point builds → reflection dump → signalDeep lokiCfg for the API's signal (1 / 2); the model's verdict on its own plan (c13siglog / c13sigmetric) must be true")
	var ops []string
	var cases []any
	var mops, mimpl []string
	var mcases []any
	for i := 0; i < n; i++ {
		c := genCtx(rng)
		c.Type = 0 // prepareOutput / Tail: the literal leaves Type unset
		query := genLogQuery(rng, 3, 3)
		if i%3 == 0 {
			query = h.Pick(rng, c13LogQL)
		}
		script, err := logql_parser.Parse(query)
		if err != nil {
			continue
		}
		if p, err := clickhouse_planner.Plan(script, true); err == nil {
			if sel, err := p.Process(c.planner()); err == nil {
				t, _ := sel.String(sql.DefaultCtx())
				ops = append(ops, "c13signal 1 "+hx(sqldump.Dump(sel)))
				cases = append(cases, map[string]any{"api": "loki query_range / tail", "query": query, "ctx": c, "sql": t})
				r.Case("signal-plans:logql:"+query+fmt.Sprint(c), true)
				c13SignalText(r, "logql-planner", t, 1, map[string]any{"query": query, "ctx": c})
				if ser, err := serLogQuery(script); err == nil {
					mops = append(mops, "c13siglog 1 "+c.ser()+" "+ser)
					mimpl = append(mimpl, "true")
					mcases = append(mcases, map[string]any{"query": query, "ctx": c})
				}
			}
		}
		// series / label values with the Loki controllers' labelsType
		c.Type = 1
		if i%3 == 0 {
			// a metric query has no top-level stream selector for PlanFingerprints
		} else if fpP, err := clickhouse_planner.PlanFingerprints(script); err == nil {
			for _, p := range []shared.SQLRequestPlanner{clickhouse_planner.NewSeriesPlanner(fpP), clickhouse_planner.NewValuesPlanner(fpP, "job")} {
				if sel, err := p.Process(c.planner()); err == nil {
					t, _ := sel.String(sql.DefaultCtx())
					ops = append(ops, "c13signal 1 "+hx(sqldump.Dump(sel)))
					cases = append(cases, map[string]any{"api": "loki series / label values", "query": query, "ctx": c, "sql": t})
				}
			}
		}
		// Prometheus adapter
		c.Type = 2
		c.From, c.To = c.From/1e6*1e6, c.To/1e6*1e6
		hints := &storage.SelectHints{Start: c.From / 1e6, End: c.To / 1e6, Step: int64(h.Pick(rng, []int{0, 15000, 60000})), Func: h.Pick(rng, c13PromFns)}
		lm, _ := labels.NewMatcher(h.Pick(rng, []labels.MatchType{labels.MatchEqual, labels.MatchNotEqual, labels.MatchRegexp}), h.Pick(rng, c17Names), "u.*")
		if res, err := promtr.TranspileLabelMatchers(hints, c.planner(), lm); err == nil {
			t, _ := res.Query.String(sql.DefaultCtx())
			ops = append(ops, "c13signal 2 "+hx(sqldump.Dump(res.Query)))
			cases = append(cases, map[string]any{"api": "prometheus select (raw)", "hints": *hints, "ctx": c, "sql": t})
		}
		if sel, err := promtr.GetLabelMatchersDownsampleRequest(hints, c.planner(), lm); err == nil {
			t, _ := sel.String(sql.DefaultCtx())
			ops = append(ops, "c13signal 2 "+hx(sqldump.Dump(sel)))
			cases = append(cases, map[string]any{"api": "prometheus select (rollup)", "hints": *hints, "ctx": c, "sql": t})
		}
	}
	if err := c13SignalJudge(r, ops, cases, "planner"); err != nil {
		return err
	}
	return r.Compare("signal-plans", mops, mimpl, mcases)
}

func c13Signal(r *h.Result, rng *h.Rng, tier string) error {
	n := 120
	if tier != "quick" {
		n = 2500
	}
	if err := c13ModelPromLabels(r, rng.Fork(), n); err != nil {
		return err
	}
	if err := c13SignalPlans(r, rng.Fork(), n); err != nil {
		return err
	}
	hn := 8
	if tier != "quick" {
		hn = 100
	}
	if err := c13SignalHTTP(r, rng.Fork(), hn); err != nil {
		return err
	}
	return c13HTTPTempoEnds(r, rng.Fork(), n)
}
