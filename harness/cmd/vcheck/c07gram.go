package main

// C07 — the query generator DERIVED FROM THE GRAMMAR. The participle grammar of logql_parser (struct tags) is read by
// reflection from the compiled types (`harness/ptag`, the same reader the translator uses for `Gen.C07Grammar`); queries
// are produced by walking the rule of every struct: a literal is written, an alternation / option / repetition is a choice,
// `@@` descends into the rule of the field's struct, a captured token is asked from a hook that knows the position (which
// labels are stored, extracted, dropped so far; which operator the value belongs to). A production the grammar gains is
// therefore generated without anyone writing a case for it — and then has to be classified (`grammar_classified`).
//
// What was emitted is MEASURED on the real parser's AST (c07gObserve): per production the contexts it occurred in — the
// pipeline position (before any label-rewriting stage, after a drop, after a parser, after both) and, for the label-filter
// productions, the parenthesis depth (0, 1, ≥ 2). The matrix goes into the evidence (`distribution`, keys `gram:`); a
// production the model classifies as modelled / handed over that was not emitted in a required context is a broken tie
// (`grammar-coverage`), and so is a difference between the grammar as reflected here and the classified list of the model.

import (
	"fmt"
	"reflect"
	"regexp"
	"sort"
	"strconv"
	"strings"

	"github.com/metrico/qryn/reader/logql/logql_parser"
	"verif/harness/h"
	"verif/harness/ptag"
)

// ---- the grammar, by reflection

func c07gStructOf(t reflect.Type, all map[string]ptag.Struct) error {
	if _, ok := all[t.Name()]; ok {
		return nil
	}
	s := ptag.Struct{Name: t.Name()}
	all[t.Name()] = s // placeholder against recursion
	for i := 0; i < t.NumField(); i++ {
		f := t.Field(i)
		pf := ptag.Field{Name: f.Name, Tag: string(f.Tag)}
		ft := f.Type
		switch ft.Kind() {
		case reflect.String:
			pf.Kind = "string"
		case reflect.Ptr:
			if ft.Elem().Kind() != reflect.Struct {
				return fmt.Errorf("%s.%s: pointer to %s", t.Name(), f.Name, ft.Elem().Kind())
			}
			pf.Kind, pf.Elem = "ptr", ft.Elem().Name()
			if err := c07gStructOf(ft.Elem(), all); err != nil {
				return err
			}
		case reflect.Slice:
			if ft.Elem().Kind() != reflect.Struct {
				return fmt.Errorf("%s.%s: slice of %s", t.Name(), f.Name, ft.Elem().Kind())
			}
			pf.Kind, pf.Elem = "slice", ft.Elem().Name()
			if err := c07gStructOf(ft.Elem(), all); err != nil {
				return err
			}
		case reflect.Struct:
			pf.Kind, pf.Elem = "struct", ft.Name()
			if err := c07gStructOf(ft, all); err != nil {
				return err
			}
		default:
			return fmt.Errorf("%s.%s: field kind %s", t.Name(), f.Name, ft.Kind())
		}
		s.Fields = append(s.Fields, pf)
	}
	all[t.Name()] = s
	return nil
}

var c07gCached *ptag.Grammar

func c07gGrammar() (*ptag.Grammar, error) {
	if c07gCached != nil {
		return c07gCached, nil
	}
	all := map[string]ptag.Struct{}
	if err := c07gStructOf(reflect.TypeOf(logql_parser.StrSelector{}), all); err != nil {
		return nil, err
	}
	g, err := ptag.Build(all, "StrSelector")
	if err == nil {
		c07gCached = g
	}
	return g, err
}

// ---- generation

// names the generated databases never store: a filter on one of them reads an absent label, or — after a parser that
// extracts it — a label that exists only as an extracted one
var c07gNeverStored = []string{"n1", "ex", "q_2", "_z"}
var c07gStoredPool = []string{"a", "app", "job", "level", "x", "lvl", "_y"}

func c07gIsNeverStored(n string) bool {
	for _, x := range c07gNeverStored {
		if x == n {
			return true
		}
	}
	return false
}

type c07gCfg struct {
	guide        map[string]int // what was emitted so far, by (choice, position, depth): the rarest alternative is taken next
	stageWeights map[string]int // StrSelectorPipeline field ↦ weight (absent = never)
	maxStages    int
	handoverPct  int // chance that the pipeline contains a stage only the in-process engine has
	refusedPct   int // chance per query of one form the planner refuses
}

// the configurations are values: a run that wants the even filling passes its own `guide` map
var c07gCfgPlain = c07gCfg{stageWeights: map[string]int{"LineFilter": 55, "LabelFilter": 45}, maxStages: 4}
var c07gCfgX = c07gCfg{stageWeights: map[string]int{"LineFilter": 18, "LabelFilter": 34, "Parser": 26, "Drop": 22}, maxStages: 6, handoverPct: 12, refusedPct: 3}

type c07gFrame struct {
	strct, field string // the struct being generated and the field of the parent it fills
	vals         map[string]string
	n            int // planned length of the list the struct holds (Parser / Drop / LabelFormat)
	tail         bool
	op           string
}

type c07gGen struct {
	g      *ptag.Grammar
	r      *h.Rng
	cfg    c07gCfg
	frames []*c07gFrame
	out    []string

	depth     int // parenthesis depth inside the label filter being generated
	target    int // parenthesis depth this label filter is meant to reach (drawn per filter: 0, 1, 2, 3)
	atoms     int // comparisons of the label filter so far
	nStages   int
	handAt    int // index of the in-process-only stage, −1 = none
	stage     int
	extracted map[string]bool
	dropped   map[string]bool
	pendExt   []string
	pendDrop  []string
	sawDrop   bool
	sawParser bool
	pendKind  string
	lead      []string // stage kinds the pipeline starts with (drawn per query: none, a drop, a parser, both in either order)
	refuse    string // the refused form planted in this query ("" = none), planted = done
	planted   bool
	anyRewr   bool
}

func (g *c07gGen) frame(strct string) *c07gFrame {
	for i := len(g.frames) - 1; i >= 0; i-- {
		if g.frames[i].strct == strct {
			return g.frames[i]
		}
	}
	return nil
}

func (g *c07gGen) top() *c07gFrame { return g.frames[len(g.frames)-1] }

func c07gFirstField(n *ptag.Node) string {
	if n.Kind == "sub" || n.Kind == "cap" {
		return n.Field
	}
	for _, k := range n.Kids {
		if f := c07gFirstField(k); f != "" {
			return f
		}
	}
	return ""
}

func (g *c07gGen) weighted(opts []string, w map[string]int) int {
	total := 0
	for _, o := range opts {
		total += w[o]
	}
	if total == 0 {
		return g.r.Intn(len(opts))
	}
	x := g.r.Intn(total)
	for i, o := range opts {
		if x < w[o] {
			return i
		}
		x -= w[o]
	}
	return len(opts) - 1
}

// choose: index of the alternative of an `alt`, 0/1 for an `opt`, the number of repetitions for `star`/`plus`
func (g *c07gGen) choose(s string, n *ptag.Node) int {
	f := c07gFirstField(n)
	fr := g.top()
	switch s + "." + f + ":" + n.Kind {
	case "StrSelector.StrSelCmds:star":
		return []int{0, 0, 0, 1, 1, 2}[g.r.Intn(6)]
	case "StrSelector.Pipelines:star":
		return g.nStages
	case "LabelFilter.Op:opt":
		if fr.op != "" {
			return 1
		}
		return 0
	case "LabelFilter.Tail:opt":
		if fr.tail {
			return 1
		}
		return 0
	case "Parser.ParserParams:opt", "Drop.Params:opt":
		if fr.n >= 1 {
			return 1
		}
		return 0
	case "Parser.ParserParams:star", "Drop.Params:star", "LabelFormat.LabelFormatOps:star":
		if fr.n >= 1 {
			return fr.n - 1
		}
		return 0
	case "ParserParam.Label:opt":
		p := g.frame("Parser")
		if p != nil && p.vals["Fn"] == "json" {
			if g.r.Chance(95) {
				return 1
			}
			return 0
		}
		if g.r.Chance(12) {
			return 1
		}
		return 0
	case "DropParam.Val:opt":
		if g.r.Chance(35) {
			return 1
		}
		return 0
	}
	switch n.Kind {
	case "alt":
		var opts []string
		for _, k := range n.Kids {
			opts = append(opts, c07gFirstField(k))
		}
		switch s {
		case "StrSelectorPipeline":
			if g.handAt == g.stage {
				// a stage only the in-process engine has: line_format, label_format, or a parser without parameters
				return g.weighted(opts, map[string]int{"LineFormat": 30, "LabelFormat": 30, "Parser": 40})
			}
			w := g.cfg.stageWeights
			if g.stage < len(g.lead) {
				// label-rewriting stages first: the filters after them are the ones a push-down must not move
				w = map[string]int{g.lead[g.stage]: 1}
			}
			return g.weighted(opts, w)
		case "Head":
			complexP := 6
			if g.depth < g.target {
				complexP = 65 // every depth has to be reached at every position: the depth is drawn per filter
			}
			if g.depth >= 3 || g.atoms >= 6 {
				complexP = 0
			}
			for i, o := range opts {
				if o == "ComplexHead" && g.r.Chance(complexP) {
					return i
				}
			}
			for i, o := range opts {
				if o == "SimpleHead" {
					return i
				}
			}
		case "SimpleLabelFilter":
			fn := fr.vals["Fn"]
			numeric := fn == "==" || fn == ">" || fn == ">=" || fn == "<" || fn == "<=" || (fn == "!=" && g.r.Chance(40))
			if fn == "=" || fn == "=~" || fn == "!~" {
				numeric = false
			}
			if g.refuse == "value-kind" && !g.planted && fn != "!=" {
				numeric = !numeric // `a > "x"`, `a =~ 5`: refused by makeSimple{Str,Num}SqlCond
				g.planted = true
			}
			for i, o := range opts {
				if (o == "NumVal") == numeric {
					return i
				}
			}
		case "LabelFormatOp":
			return g.r.Intn(len(opts))
		}
		return g.r.Intn(len(n.Kids))
	case "opt":
		return g.r.Intn(2)
	case "star":
		return g.r.Intn(3)
	case "plus":
		return 1 + g.r.Intn(2)
	}
	return 0
}

var c07gNamedGroup = regexp.MustCompile(`\(\?P<([a-zA-Z_][0-9a-zA-Z_]*)>`)

func (g *c07gGen) pickName(pool []string) string { return h.Pick(g.r, pool) }

func c07gKeys(m map[string]bool, keep func(string) bool) []string {
	var res []string
	for k := range m {
		if keep == nil || keep(k) {
			res = append(res, k)
		}
	}
	sort.Strings(res)
	return res
}

// filterLabel: the label a comparison reads — drawn by CLASS (stored / dropped / extracted only / stored and extracted /
// absent), every class that exists at this position with the same chance
func (g *c07gGen) filterLabel() string {
	pools := map[string][]string{"stored": nil}
	for _, n := range c07gStoredPool {
		if !g.dropped[n] && !g.extracted[n] {
			pools["stored"] = append(pools["stored"], n)
		}
	}
	if d := c07gKeys(g.dropped, nil); len(d) > 0 {
		pools["dropped"] = d // the case a push-down past a drop gets wrong
	}
	if e := c07gKeys(g.extracted, c07gIsNeverStored); len(e) > 0 {
		pools["extracted-only"] = e
	}
	if e := c07gKeys(g.extracted, func(n string) bool { return !c07gIsNeverStored(n) }); len(e) > 0 {
		pools["stored+extracted"] = e
	}
	for _, n := range c07gNeverStored {
		if !g.extracted[n] && !g.dropped[n] {
			pools["absent"] = append(pools["absent"], n)
		}
	}
	var classes []string
	for _, c := range []string{"stored", "dropped", "extracted-only", "stored+extracted", "absent"} {
		if len(pools[c]) > 0 {
			classes = append(classes, c)
		}
	}
	if len(classes) == 0 {
		return h.Pick(g.r, c07gStoredPool)
	}
	return h.Pick(g.r, pools[g.rarest("label", classes)])
}

func (g *c07gGen) labelName() string {
	fr := g.top() // the LabelName frame; its parent field tells what the name is for
	parent := g.frames[len(g.frames)-2]
	switch parent.strct + "." + fr.field {
	case "StrSelCmd.Label":
		return g.pickName(lblNames)
	case "SimpleLabelFilter.Label":
		return g.filterLabel()
	case "ParserParam.Label":
		n := g.pickName(append(append([]string{}, c07gStoredPool...), c07gNeverStored...))
		g.pendExt = append(g.pendExt, n)
		return n
	case "DropParam.Label":
		pool := append([]string{}, c07gStoredPool...)
		pool = append(pool, c07gKeys(g.extracted, nil)...)
		if g.r.Chance(10) {
			pool = c07gNeverStored
		}
		n := g.pickName(pool)
		g.pendDrop = append(g.pendDrop, n)
		return n
	}
	return g.pickName(append(append([]string{}, c07gStoredPool...), "n1"))
}

var c07gStoredVals = []string{"b", "d", "5", "5.5", "abc", "Hello", "1", "info", "42", "w1"}

func (g *c07gGen) stringContent() string {
	parent := g.frames[len(g.frames)-2]
	fr := g.top()
	switch parent.strct + "." + fr.field {
	case "StrSelCmd.Val":
		if op := parent.vals["Op"]; op == "=~" || op == "!~" {
			return genRegex(g.r)
		}
		if g.r.Chance(70) {
			return g.r.Ident(4)
		}
		return genStr(g.r)
	case "LineFilter.Val":
		if fn := parent.vals["Fn"]; fn == "|~" || fn == "!~" {
			return genRegex(g.r)
		}
		return genStr(g.r)
	case "SimpleLabelFilter.StrVal":
		if fn := parent.vals["Fn"]; fn == "=~" || fn == "!~" {
			return genRegex(g.r)
		}
		if g.r.Chance(45) {
			return h.Pick(g.r, c07gStoredVals)
		}
		return genStr(g.r)
	case "ParserParam.Val":
		p := g.frame("Parser")
		switch p.vals["Fn"] {
		case "json":
			return c07xGenJSONPath(g.r)
		case "regexp":
			re := c07xGenRegex(g.r)
			for _, m := range c07gNamedGroup.FindAllStringSubmatch(re, -1) {
				g.pendExt = append(g.pendExt, m[1])
			}
			return re
		}
		return g.r.Ident(4)
	case "DropParam.Val":
		if g.r.Chance(50) {
			return h.Pick(g.r, c07gStoredVals)
		}
		return genStr(g.r)
	case "LineFormat.Val":
		return h.Pick(g.r, []string{"{{.a}}", "{{.level}} {{.msg}}", "x"})
	case "LabelFormatOp.ConstVal":
		return h.Pick(g.r, []string{"c", "{{.a}}", ""})
	}
	return genStr(g.r)
}

// quote: the content as a Quoted_string or, where the content allows it, a Ticked_string
func (g *c07gGen) quote(content string, n *ptag.Node) string {
	var forms []string
	var collect func(*ptag.Node)
	collect = func(x *ptag.Node) {
		if x.Kind == "tok" {
			forms = append(forms, x.Text)
		}
		for _, k := range x.Kids {
			collect(k)
		}
	}
	collect(n)
	tickable := !strings.Contains(content, "`") && !strings.HasSuffix(content, "\\")
	for _, c := range content {
		if c < 0x20 {
			tickable = false
		}
	}
	// a raw string keeps backslashes: the content round-trips through Unquote only if it has none
	if strings.Contains(content, "\\") {
		tickable = false
	}
	form := h.Pick(g.r, forms)
	if form == "Ticked_string" && tickable && g.r.Chance(45) {
		return "`" + content + "`"
	}
	return q(content)
}

func (g *c07gGen) number() string {
	num := fmt.Sprint(g.r.Intn(1000))
	if g.r.Chance(40) {
		num += "." + fmt.Sprint(g.r.Intn(1000))
	} else if g.r.Chance(8) {
		num += "." // `Integer "." Integer*` with no digit after the point
	}
	return num
}

// rarest: the alternative emitted least often so far in the current cell (pipeline position × parenthesis depth); ties
// are broken at random. Keeps the matrix of the evidence filled evenly instead of leaving cells to chance.
func (g *c07gGen) rarest(choice string, alts []string) string {
	if g.cfg.guide == nil {
		return h.Pick(g.r, alts)
	}
	cell := choice + "@" + c07gPos(g.sawDrop, g.sawParser) + "/d" + c07gDepthClass(g.depth) + ":"
	best, bestN := []string{}, -1
	for _, a := range alts {
		n := g.cfg.guide[cell+a]
		if bestN < 0 || n < bestN {
			best, bestN = []string{a}, n
		} else if n == bestN {
			best = append(best, a)
		}
	}
	a := h.Pick(g.r, best)
	g.cfg.guide[cell+a]++
	return a
}

func c07gLits(n *ptag.Node) []string {
	var res []string
	var walk func(*ptag.Node)
	walk = func(x *ptag.Node) {
		if x.Kind == "lit" {
			res = append(res, x.Text)
		}
		for _, k := range x.Kids {
			walk(k)
		}
	}
	walk(n)
	return res
}

// capture: the text of `@expr` for field f of struct s
func (g *c07gGen) capture(s, f string, expr *ptag.Node) string {
	if s == "SimpleLabelFilter" && f == "Fn" {
		if lits := c07gLits(expr); len(lits) > 0 {
			return g.rarest("Fn", lits)
		}
	}
	switch s + "." + f {
	case "LabelName.Name":
		return g.labelName()
	case "QuotedString.Str":
		return g.quote(g.stringContent(), expr)
	case "SimpleLabelFilter.NumVal":
		return g.number()
	case "LabelFilter.Op":
		return g.top().op
	}
	// generic: an alternation of literals / token rules, or a sequence of them
	var sb []string
	var walk func(n *ptag.Node)
	walk = func(n *ptag.Node) {
		switch n.Kind {
		case "lit":
			sb = append(sb, n.Text)
		case "tok":
			switch n.Text {
			case "Integer":
				sb = append(sb, fmt.Sprint(g.r.Intn(100)))
			case "Label_name":
				sb = append(sb, g.pickName(c07gStoredPool))
			case "Macros_function":
				sb = append(sb, "_y")
			case "Quoted_string":
				sb = append(sb, q(genStr(g.r)))
			case "Ticked_string":
				sb = append(sb, "`x`")
			default:
				sb = append(sb, "x")
			}
		case "seq":
			for _, k := range n.Kids {
				walk(k)
			}
		case "alt":
			walk(n.Kids[g.r.Intn(len(n.Kids))])
		case "opt":
			if g.r.Bool() {
				walk(n.Kids[0])
			}
		case "star", "plus":
			for i := g.r.Intn(3); i > 0; i-- {
				walk(n.Kids[0])
			}
		}
	}
	walk(expr)
	return strings.Join(sb, "")
}

func (g *c07gGen) node(s string, n *ptag.Node) {
	switch n.Kind {
	case "lit":
		g.out = append(g.out, n.Text)
	case "tok":
		g.out = append(g.out, "x")
	case "seq":
		for _, k := range n.Kids {
			g.node(s, k)
		}
	case "alt":
		g.node(s, n.Kids[g.choose(s, n)])
	case "opt":
		if g.choose(s, n) == 1 {
			g.node(s, n.Kids[0])
		}
	case "star", "plus":
		for i := g.choose(s, n); i > 0; i-- {
			g.node(s, n.Kids[0])
		}
	case "cap":
		txt := g.capture(s, n.Field, n.Kids[0])
		g.top().vals[n.Field] = txt
		g.out = append(g.out, txt)
	case "sub":
		elem := ""
		for _, f := range g.g.Structs[s].Fields {
			if f.Name == n.Field {
				elem = f.Elem
			}
		}
		g.strct(elem, n.Field)
	}
}

// strct: one instance of a struct's rule; the decisions that span several nodes of the rule are taken on entry
func (g *c07gGen) strct(name, field string) {
	fr := &c07gFrame{strct: name, field: field, vals: map[string]string{}}
	g.frames = append(g.frames, fr)
	defer func() { g.frames = g.frames[:len(g.frames)-1] }()
	switch name {
	case "LabelFilter":
		if field == "LabelFilter" { // the filter of a stage (not a Tail / ComplexHead)
			g.depth, g.atoms = 0, 0
			g.target, _ = strconv.Atoi(g.rarest("depth", []string{"0", "1", "2", "3"}))
		}
		if field == "ComplexHead" {
			g.depth++
			defer func() { g.depth-- }()
		}
		tailP := 38
		if g.atoms >= 4 {
			tailP = 0
		}
		if g.r.Chance(tailP) {
			fr.tail = true
			fr.op = g.rarest("Op", []string{"and", "or"})
			if g.refuse == "juxtaposed" && !g.planted {
				fr.op = "" // `a="1" b="2"`: two heads without and/or — `illegal expression`
				g.planted = true
			}
		}
	case "SimpleLabelFilter":
		g.atoms++
	case "Parser":
		g.pendKind = "Parser"
		if g.handAt == g.stage {
			fr.n = 0 // `| json` / `| logfmt` without parameters
		} else {
			fr.n = []int{1, 1, 2, 2, 3}[g.r.Intn(5)]
		}
	case "Drop":
		fr.n = []int{1, 1, 2, 3}[g.r.Intn(4)]
		g.pendKind = "Drop"
	case "LabelFormat":
		fr.n = g.r.Range(1, 2)
	}
	if name == "Parser" {
		// Fn first (it decides the parameters): json or regexp in ClickHouse, json/logfmt without parameters handed over
		g.parserRule(fr)
	} else {
		g.node(name, g.g.Trees[name])
	}
	if name == "StrSelectorPipeline" {
		for _, n := range g.pendExt {
			g.extracted[n] = true
			delete(g.dropped, n)
		}
		for _, n := range g.pendDrop {
			g.dropped[n] = true
			delete(g.extracted, n)
		}
		g.pendExt, g.pendDrop = nil, nil
		switch g.pendKind {
		case "Drop":
			g.sawDrop = true
		case "Parser":
			g.sawParser = true
		}
		g.pendKind = ""
		g.stage++
	}
}

// parserRule: the rule of Parser with the literal of Fn chosen by what the stage is for
func (g *c07gGen) parserRule(fr *c07gFrame) {
	tree := g.g.Trees["Parser"]
	var fnLits []string
	var find func(n *ptag.Node)
	find = func(n *ptag.Node) {
		if n.Kind == "cap" && n.Field == "Fn" {
			var lits func(*ptag.Node)
			lits = func(x *ptag.Node) {
				if x.Kind == "lit" {
					fnLits = append(fnLits, x.Text)
				}
				for _, k := range x.Kids {
					lits(k)
				}
			}
			lits(n)
		}
		for _, k := range n.Kids {
			find(k)
		}
	}
	find(tree)
	var want []string
	if g.handAt == g.stage {
		want = []string{"json", "logfmt"}
	} else {
		want = []string{"json", "json", "regexp", "regexp"}
	}
	// a literal of Fn the generator knows no purpose for is still emitted (new production): 1 in 12
	fn := h.Pick(g.r, want)
	if g.r.Chance(8) {
		fn = h.Pick(g.r, fnLits)
		if fn == "logfmt" && g.handAt != g.stage {
			fn = "json"
		}
	}
	if fn == "regexp" {
		fr.n = []int{1, 1, 1, 2}[g.r.Intn(4)]
		if g.refuse == "regexp-bare" && !g.planted {
			fr.n = 0
			g.planted = true
		}
	}
	fr.vals["Fn"] = fn
	var walk func(n *ptag.Node)
	walk = func(n *ptag.Node) {
		if n.Kind == "cap" && n.Field == "Fn" {
			g.out = append(g.out, fn)
			return
		}
		if n.Kind == "seq" {
			for _, k := range n.Kids {
				walk(k)
			}
			return
		}
		g.node("Parser", n)
	}
	walk(tree)
}

// c07gQuery: one log query from the grammar
func c07gQuery(r *h.Rng, cfg c07gCfg) string {
	gr, err := c07gGrammar()
	if err != nil {
		panic(err)
	}
	g := &c07gGen{g: gr, r: r, cfg: cfg, extracted: map[string]bool{}, dropped: map[string]bool{}, handAt: -1}
	g.nStages = r.Intn(cfg.maxStages + 1)
	if cfg.maxStages > 4 && g.nStages == 0 && r.Chance(70) {
		g.nStages = r.Range(1, cfg.maxStages)
	}
	if cfg.handoverPct > 0 && g.nStages > 0 && r.Chance(cfg.handoverPct) {
		g.handAt = r.Intn(g.nStages)
	}
	if cfg.stageWeights["Drop"] > 0 {
		g.lead = [][]string{nil, nil, nil, {"Drop"}, {"Parser"}, {"Drop", "Parser"}, {"Parser", "Drop"}, {"Drop", "LabelFilter", "Parser"}}[r.Intn(8)]
		if len(g.lead) > 0 && g.nStages < len(g.lead)+1 {
			g.nStages = len(g.lead) + r.Range(1, 3)
		}
		if g.handAt >= 0 && g.handAt < len(g.lead) {
			g.handAt = g.nStages - 1
		}
	}
	if r.Chance(cfg.refusedPct) {
		g.refuse = h.Pick(r, []string{"juxtaposed", "value-kind", "regexp-bare"})
	}
	g.strct("StrSelector", "")
	return strings.Join(g.out, " ")
}

// ---- observation on the real AST

type c07gCtx struct {
	pos   string // sel | stored | after-drop | after-parser | after-both | rest
	depth int    // parenthesis depth inside a label filter (−1 = not inside one)
	owner string // parent struct.field for the wrapper structs
}

func c07gPos(drop, parser bool) string {
	switch {
	case drop && parser:
		return "after-both"
	case drop:
		return "after-drop"
	case parser:
		return "after-parser"
	}
	return "stored"
}

var c07gLexRules []*regexp.Regexp
var c07gLexNames []string

func c07gTokenRule(text string) string {
	if c07gLexRules == nil {
		for _, rule := range logql_parser.LogQLLexerRulesV2 {
			c07gLexRules = append(c07gLexRules, regexp.MustCompile(`^(?:`+rule.Pattern+`)$`))
			c07gLexNames = append(c07gLexNames, rule.Name)
		}
	}
	for i, re := range c07gLexRules {
		if re.MatchString(text) {
			return c07gLexNames[i]
		}
	}
	return ""
}

// c07gClass: the value class of a field value, among the classes the grammar lists for it
func c07gClass(gr *ptag.Grammar, s string, f ptag.Field, v reflect.Value) string {
	has := func(c string) bool {
		for _, p := range gr.Prods {
			if p.Struct == s && p.Field == f.Name && p.Class == c {
				return true
			}
		}
		return false
	}
	switch f.Kind {
	case "ptr":
		if v.IsNil() {
			return "absent"
		}
		return "set"
	case "slice":
		switch v.Len() {
		case 0:
			return "0"
		case 1:
			return "1"
		}
		return "many"
	case "struct":
		if v.IsZero() {
			return "absent"
		}
		return "set"
	case "string":
		t := v.String()
		if t == "" {
			return "absent"
		}
		if has("=" + t) {
			return "=" + t
		}
		if rule := c07gTokenRule(t); rule != "" && has("tok:"+rule) {
			return "tok:" + rule
		}
		for _, p := range gr.Prods {
			if p.Struct == s && p.Field == f.Name && strings.HasPrefix(p.Class, "seq:") {
				return p.Class
			}
		}
		return "unlisted:" + t
	}
	return "unlisted"
}

func c07gDepthClass(d int) string {
	if d >= 2 {
		return "2+"
	}
	return strconv.Itoa(d)
}

func (c c07gCtx) String(s string) string {
	switch s {
	case "QuotedString", "LabelName":
		return "in:" + c.owner
	case "LabelFilter", "Head", "SimpleLabelFilter":
		return c.pos + "/d" + c07gDepthClass(c.depth)
	}
	return c.pos
}

func c07gWalk(gr *ptag.Grammar, s string, v reflect.Value, c c07gCtx, emit func(prod, ctx string)) {
	st := gr.Structs[s]
	for i, f := range st.Fields {
		fv := v.Field(i)
		emit(s+"."+f.Name+" "+c07gClass(gr, s, f, fv), c.String(s))
		sub := c
		sub.owner = s + "." + f.Name
		if s == "Head" && f.Name == "ComplexHead" {
			sub.depth++
		}
		switch f.Kind {
		case "ptr":
			if !fv.IsNil() {
				c07gWalk(gr, f.Elem, fv.Elem(), sub, emit)
			}
		case "struct":
			if !fv.IsZero() {
				c07gWalk(gr, f.Elem, fv, sub, emit)
			}
		case "slice":
			if s == "StrSelector" && f.Name == "Pipelines" {
				continue // walked by c07gObserve with the position of every stage
			}
			for j := 0; j < fv.Len(); j++ {
				c07gWalk(gr, f.Elem, fv.Index(j), sub, emit)
			}
		}
	}
}

// c07gObserve: every (production, context) of a parsed log query; bp = index of the hand-over stage (−1: none)
func c07gObserve(script *logql_parser.LogQLScript, bp int, emit func(prod, ctx string)) {
	gr, err := c07gGrammar()
	if err != nil || script.StrSelector == nil {
		return
	}
	c07gWalk(gr, "StrSelector", reflect.ValueOf(*script.StrSelector), c07gCtx{pos: "sel", depth: 0}, emit)
	drop, parser := false, false
	for i := range script.StrSelector.Pipelines {
		p := &script.StrSelector.Pipelines[i]
		c := c07gCtx{pos: c07gPos(drop, parser), depth: 0}
		if bp >= 0 && i > bp {
			break // after the hand-over: not ClickHouse's (C09)
		}
		c07gWalk(gr, "StrSelectorPipeline", reflect.ValueOf(*p), c, emit)
		if p.Drop != nil {
			drop = true
		}
		if p.Parser != nil {
			parser = true
		}
	}
}

// c07gAtoms: the comparisons of the label filters of the ClickHouse part, by the class of the label they read and by
// whether they stand inside parentheses: "<class>@<pos>/<bare|paren>"
func c07gAtoms(script *logql_parser.LogQLScript, bp int, emit func(string)) {
	extracted, dropped := map[string]bool{}, map[string]bool{}
	drop, parser := false, false
	var walk func(lf *logql_parser.LabelFilter, paren bool, pos string)
	walk = func(lf *logql_parser.LabelFilter, paren bool, pos string) {
		for ; lf != nil; lf = lf.Tail {
			if lf.Head.ComplexHead != nil {
				walk(lf.Head.ComplexHead, true, pos)
			} else if s := lf.Head.SimpleHead; s != nil {
				n := s.Label.Name
				cls := "stored"
				switch {
				case dropped[n]:
					cls = "dropped"
				case extracted[n] && c07gIsNeverStored(n):
					cls = "extracted-only"
				case extracted[n]:
					cls = "stored+extracted"
				case c07gIsNeverStored(n):
					cls = "absent"
				}
				form := "bare"
				if paren {
					form = "paren"
				}
				emit(cls + "@" + pos + "/" + form)
			}
		}
	}
	for i := range script.StrSelector.Pipelines {
		if bp >= 0 && i >= bp {
			return
		}
		p := &script.StrSelector.Pipelines[i]
		switch {
		case p.LabelFilter != nil:
			walk(p.LabelFilter, false, c07gPos(drop, parser))
		case p.Drop != nil:
			drop = true
			for _, dp := range p.Drop.Params {
				dropped[dp.Label.Name] = true
				delete(extracted, dp.Label.Name)
			}
		case p.Parser != nil:
			parser = true
			if p.Parser.Fn == "json" {
				for _, pp := range p.Parser.ParserParams {
					if pp.Label != nil {
						extracted[pp.Label.Name] = true
						delete(dropped, pp.Label.Name)
					}
				}
			} else if p.Parser.Fn == "regexp" && len(p.Parser.ParserParams) > 0 {
				if val, err := p.Parser.ParserParams[0].Val.Unquote(); err == nil {
					for _, m := range c07gNamedGroup.FindAllStringSubmatch(val, -1) {
						extracted[m[1]] = true
						delete(dropped, m[1])
					}
				}
			}
		}
	}
}

// the structs of the fragment without label-rewriting stages (streams text / sem)
var c07gPlainStructs = map[string]bool{"StrSelector": true, "StrSelCmd": true, "LineFilter": true, "LabelFilter": true, "Head": true,
	"SimpleLabelFilter": true}

// c07gRefused: the form of the ClickHouse part of a script the planner has to refuse ("" = none): two heads of a label filter
// without and/or, a comparison whose value kind does not fit its operator, `| regexp` without a pattern, `| drop` without a label
func c07gRefused(script *logql_parser.LogQLScript, bp int) string {
	var lf func(f *logql_parser.LabelFilter) string
	lf = func(f *logql_parser.LabelFilter) string {
		for ; f != nil; f = f.Tail {
			if f.Tail != nil && f.Op == "" {
				return "juxtaposed"
			}
			if f.Head.ComplexHead != nil {
				if x := lf(f.Head.ComplexHead); x != "" {
					return x
				}
			} else if s := f.Head.SimpleHead; s != nil {
				numeric := s.Fn == "==" || s.Fn == ">" || s.Fn == ">=" || s.Fn == "<" || s.Fn == "<=" || (s.Fn == "!=" && s.StrVal == nil)
				if numeric != (s.StrVal == nil) {
					return "value-kind"
				}
			}
		}
		return ""
	}
	for i := range script.StrSelector.Pipelines {
		if bp >= 0 && i >= bp {
			break
		}
		p := &script.StrSelector.Pipelines[i]
		switch {
		case p.LabelFilter != nil:
			if x := lf(p.LabelFilter); x != "" {
				return x
			}
		case p.Parser != nil && p.Parser.Fn == "regexp" && len(p.Parser.ParserParams) == 0:
			return "regexp-bare"
		}
	}
	return ""
}

// c07gTruth: every comparison of the ClickHouse part evaluated on the STORED labels of every stream of the database
// (Go's regexp / strconv), reported as "<operator>:<true|false>": the databases have to make each kind of comparison true
// of some streams and false of others, or the filters decide nothing
func c07gTruth(script *logql_parser.LogQLScript, bp int, docs map[string][][2]string, emit func(string)) {
	var walk func(lf *logql_parser.LabelFilter)
	walk = func(lf *logql_parser.LabelFilter) {
		for ; lf != nil; lf = lf.Tail {
			if lf.Head.ComplexHead != nil {
				walk(lf.Head.ComplexHead)
				continue
			}
			s := lf.Head.SimpleHead
			if s == nil {
				continue
			}
			for _, pairs := range docs {
				val := ""
				for _, p := range pairs {
					if p[0] == s.Label.Name {
						val = p[1]
					}
				}
				var res bool
				if s.StrVal != nil {
					x, err := s.StrVal.Unquote()
					if err != nil {
						continue
					}
					switch s.Fn {
					case "=":
						res = val == x
					case "!=":
						res = val != x
					case "=~", "!~":
						rx, err := regexp.Compile(x)
						if err != nil {
							continue
						}
						res = rx.MatchString(val) == (s.Fn == "=~")
					default:
						continue
					}
				} else {
					lit, err1 := strconv.ParseFloat(s.NumVal, 64)
					f, err2 := strconv.ParseFloat(val, 64)
					if err1 != nil {
						continue
					}
					switch {
					case err2 != nil:
						res = false
					case s.Fn == "==":
						res = f == lit
					case s.Fn == "!=":
						res = f != lit
					case s.Fn == ">":
						res = f > lit
					case s.Fn == ">=":
						res = f >= lit
					case s.Fn == "<":
						res = f < lit
					case s.Fn == "<=":
						res = f <= lit
					default:
						continue
					}
				}
				emit(fmt.Sprintf("%s:%v", s.Fn, res))
			}
		}
	}
	for i := range script.StrSelector.Pipelines {
		if bp >= 0 && i >= bp {
			return
		}
		if p := &script.StrSelector.Pipelines[i]; p.LabelFilter != nil {
			walk(p.LabelFilter)
		}
	}
}

// ---- the classified list of the model, the comparison with the reflected grammar, the coverage obligation

type c07gClassified struct {
	order []string          // production keys in the model's order
	class map[string]string // production key ↦ modelled | handover | outside: …
}

func c07gModelTable() (*c07gClassified, error) {
	ans, err := h.Model([]string{"c07gram"})
	if err != nil {
		return nil, err
	}
	res := &c07gClassified{class: map[string]string{}}
	for _, e := range strings.Split(ans[0], ";") {
		f := strings.Split(e, ":")
		if len(f) != 4 {
			return nil, fmt.Errorf("c07gram answered %q", truncS(ans[0], 120))
		}
		un := func(s string) string {
			if s == "-" {
				return ""
			}
			return string(h.UnHex(s))
		}
		k := un(f[0]) + "." + un(f[1]) + " " + un(f[2])
		res.order = append(res.order, k)
		res.class[k] = un(f[3])
	}
	return res, nil
}

var c07gPositions = []string{"stored", "after-drop", "after-parser", "after-both"}
var c07gDepths = []string{"0", "1", "2+"}

// c07gRequired: the contexts a production that has to be emitted must have been seen in.
//   label-filter productions: every pipeline position × every parenthesis depth (a class that ends a chain or a group
//   exists at every depth; `Head.ComplexHead set` at depth d is what opens depth d+1);
//   stage productions: every pipeline position; a stage that hands the script over: at least once;
//   token forms of the wrappers: under every field that uses the wrapper.
func c07gRequired(gr *ptag.Grammar, prod string, class string, positions []string, only map[string]bool) []string {
	s := prod[:strings.Index(prod, ".")]
	if only != nil && !only[s] {
		return nil
	}
	switch s {
	case "LabelFilter", "Head", "SimpleLabelFilter":
		var res []string
		for _, p := range positions {
			for _, d := range c07gDepths {
				res = append(res, p+"/d"+d)
			}
		}
		return res
	case "StrSelector", "StrSelCmd":
		return []string{"sel"}
	case "QuotedString", "LabelName":
		var res []string
		for _, o := range gr.Order {
			for _, f := range gr.Structs[o].Fields {
				if f.Elem == s && o != "Unwrap" && o != "LineFormat" && o != "LabelFormat" && o != "LabelFormatOp" && (only == nil || only[o]) {
					res = append(res, "in:"+o+"."+f.Name)
				}
			}
		}
		return res
	}
	if class == "handover" {
		return []string{"*"}
	}
	switch s {
	case "LineFormat", "LabelFormat", "LabelFormatOp":
		return []string{"*"}
	}
	return positions
}

type c07gCov struct {
	seen  map[string]map[string]int // production ↦ context ↦ count
	guide map[string]int            // generation-side counts of the streams that fill this matrix
}

// c07gGuided: the configuration with the guide of a coverage matrix (none: plain random choices)
func c07gGuided(cfg c07gCfg, cov *c07gCov) c07gCfg {
	if cov != nil {
		if cov.guide == nil {
			cov.guide = map[string]int{}
		}
		cfg.guide = cov.guide
	}
	return cfg
}

func (c *c07gCov) add(prod, ctx string) {
	if c.seen == nil {
		c.seen = map[string]map[string]int{}
	}
	if c.seen[prod] == nil {
		c.seen[prod] = map[string]int{}
	}
	c.seen[prod][ctx]++
}

// c07gVerdict: compare the reflected grammar with the model's classified list, then the coverage with the obligation
func c07gVerdict(r *h.Result, stream string, cov *c07gCov, atoms map[string]int, positions []string, only map[string]bool) error {
	gr, err := c07gGrammar()
	if err != nil {
		r.Disagree("grammar", "reflect", "logql_parser struct tags", err.Error(), nil)
		return nil
	}
	tab, err := c07gModelTable()
	if err != nil {
		// a driver without the table (the model no longer builds and an older driver stands in): the comparison cannot be
		// made — that is a broken tie, not a reason to stop looking for a failing input
		r.Disagree("grammar", "c07gram", "the grammar as compiled into the parser", "no classified list: "+err.Error(), nil)
		return nil
	}
	var mine []string
	for _, p := range gr.Prods {
		mine = append(mine, p.Key())
	}
	if strings.Join(mine, "\n") != strings.Join(tab.order, "\n") {
		inModel := map[string]bool{}
		for _, k := range tab.order {
			inModel[k] = true
		}
		var extra, missing []string
		inMine := map[string]bool{}
		for _, k := range mine {
			inMine[k] = true
			if !inModel[k] {
				extra = append(extra, k)
			}
		}
		for _, k := range tab.order {
			if !inMine[k] {
				missing = append(missing, k)
			}
		}
		r.Disagree("grammar", "productions", strings.Join(extra, "; "), strings.Join(missing, "; "),
			map[string]any{"what": "the grammar compiled into the parser and the list the model classifies differ", "only_in_grammar": extra, "only_in_model": missing})
	}
	// anything observed that the grammar does not list (c07gClass could not place a value)
	for prod := range cov.seen {
		if strings.Contains(prod, " unlisted") {
			r.Disagree("grammar", "observe", prod, "a class of the production list", nil)
		}
	}
	var holes []string
	minReq, minCell := -1, ""
	for _, k := range mine {
		cl, ok := tab.class[k]
		if !ok {
			holes = append(holes, k+" (not classified)")
			continue
		}
		if cl != "modelled" && cl != "handover" {
			r.CountN("gram:"+stream+":outside:"+k, sum(cov.seen[k]))
			continue
		}
		if only != nil && cl == "handover" {
			continue
		}
		for _, ctx := range c07gRequired(gr, k, cl, positions, only) {
			n := 0
			if ctx == "*" {
				n = sum(cov.seen[k])
			} else {
				n = cov.seen[k][ctx]
			}
			if n == 0 {
				holes = append(holes, k+" @"+ctx)
			}
			if minReq < 0 || n < minReq {
				minReq, minCell = n, k+" @"+ctx
			}
		}
	}
	r.CountN("gram:"+stream+":least-emitted-required-cell: "+minCell, minReq)
	// the matrix itself
	for prod, ctxs := range cov.seen {
		for ctx, n := range ctxs {
			r.CountN("gram:"+stream+":"+prod+" @"+ctx, n)
		}
	}
	// label classes of the comparisons: every class at every position it can occur at, bare and inside parentheses
	minAtom, minAtomCell := -1, ""
	for _, pos := range positions {
		for _, form := range []string{"bare", "paren"} {
			classes := []string{"stored", "absent"}
			if pos == "after-drop" || pos == "after-both" {
				classes = append(classes, "dropped")
			}
			if pos == "after-parser" || pos == "after-both" {
				classes = append(classes, "extracted-only", "stored+extracted")
			}
			for _, cl := range classes {
				k := cl + "@" + pos + "/" + form
				if atoms[k] == 0 {
					holes = append(holes, "comparison on a label that is "+k)
				}
				if minAtom < 0 || atoms[k] < minAtom {
					minAtom, minAtomCell = atoms[k], k
				}
			}
		}
	}
	for k, n := range atoms {
		if strings.HasPrefix(k, "truth:") {
			r.CountN("gram:"+stream+":comparison-on-stored-labels:"+k[6:], n)
			continue
		}
		r.CountN("gram:"+stream+":atom:"+k, n)
	}
	if _, measured := atoms["truth:measured"]; measured {
		for _, p := range gr.Prods {
			if p.Struct == "SimpleLabelFilter" && p.Field == "Fn" && strings.HasPrefix(p.Class, "=") {
				for _, tv := range []string{"true", "false"} {
					if atoms["truth:"+p.Class[1:]+":"+tv] == 0 {
						holes = append(holes, "no stream whose stored labels make a comparison with "+p.Class[1:]+" "+tv)
					}
				}
			}
		}
	}
	r.CountN("gram:"+stream+":least-emitted-label-class: "+minAtomCell, minAtom)
	if len(holes) > 0 {
		sort.Strings(holes)
		r.Disagree("grammar-coverage", stream, fmt.Sprintf("%d productions × contexts not emitted", len(holes)), "every modelled / handed-over production in every required context",
			map[string]any{"not_emitted": holes})
	}
	r.CountN("gram:"+stream+":required-cells-missing", len(holes))
	return nil
}

func sum(m map[string]int) int {
	n := 0
	for _, v := range m {
		n += v
	}
	return n
}
