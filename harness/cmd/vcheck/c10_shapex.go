package main

import (
	"fmt"
	"os"

	"github.com/metrico/qryn/reader/logql/logql_parser"
	lt "github.com/metrico/qryn/reader/logql/logql_transpiler_v2"
	sql "github.com/metrico/qryn/reader/utils/sql_select"
	"verif/harness/h"
)

// ---------------------------------------------------------------------------------------------------- shape-metricx
// Two metric requests of the labelled path (selector with `| json l="p"` / `| regexp` / `| drop` and filters after them,
// quantile_over_time) that differ only in string leaves: real ASTs, every string leaf of the copy replaced in place
// (c10Reshape + by/without label names), both planned by the real logql_transpiler_v2.Plan → ClickHouse request planner →
// Process → String. Model: `sameShapeMX` of the two serialised ASTs must hold (tie of the relation of `same_shape_metricx`);
// oracle: the two REAL statements have equal token kinds.

func c10PlanMetricX(script *logql_parser.LogQLScript, c mctx) (text string, err error) {
	defer func() {
		if e := recover(); e != nil {
			err = fmt.Errorf("panic: %v", e)
		}
	}()
	bp, berr := lt.GetBreakpoint(script)
	if berr != nil {
		return "", fmt.Errorf("breakpoint: %w", berr)
	}
	if bp != lt.BreakpointNo {
		return "", fmt.Errorf("handover")
	}
	chain, perr := lt.Plan(script)
	if perr != nil {
		return "", perr
	}
	if len(chain) != 1 {
		return "", fmt.Errorf("chain of %d", len(chain))
	}
	g := c07xFindGetter(chain[0])
	if g == nil || !g.Matrix {
		return "", fmt.Errorf("no matrix getter in the chain")
	}
	sel, perr := g.ClickhouseRequestPlanner.Process(c.planner())
	if perr != nil {
		return "", perr
	}
	return sel.String(sql.DefaultCtx())
}

func c10ShapeMetricX(r *h.Result, rng *h.Rng, n int) error {
	r.Stream("shape-metricx: a LogQL metric query of the labelled path (| json / | regexp / | drop inside the selector, quantile_over_time) and a copy with every string leaf replaced (selector and stage leaves, by/without label names, unwrap label), both planned by the real logql_transpiler_v2.Plan; model: sameShapeMX of the two serialised ASTs (must hold); oracle: equal token kinds of the two real statements")
	type pair struct {
		q1, q2, t1, t2 string
		ctx            mctx
	}
	var pairs []pair
	var ops []string
	g := c08xDefaultGen(mgen{extraFns: true, ms: true})
	for i := 0; i < n; i++ {
		query := c08xGenQuery(rng, g)
		mk := func() *logql_parser.LogQLScript {
			s, err := logql_parser.Parse(query)
			if err != nil {
				return nil
			}
			return s
		}
		a := mk()
		if a == nil {
			r.Count("shape-metricx:parse-error")
			continue
		}
		serA, err := c08xSer(a)
		if err != nil {
			r.Count("shape-metricx:outside-fragment")
			continue
		}
		seed := rng.Fork()
		mut := func() *logql_parser.LogQLScript {
			s := mk()
			f := *seed
			ra, ag, _ := c08xRangeOf(s)
			tmp := &logql_parser.LogQLScript{StrSelector: ra.sel}
			c10Reshape(tmp, &f)
			ident := func() string { return h.Pick(&f, []string{"g", "by_1", "_w", "Lbl"}) + f.Ident(2) }
			bws := []*logql_parser.ByOrWithout{ra.bp, ra.bs}
			if ag != nil {
				bws = append(bws, ag.ByOrWithoutPrefix, ag.ByOrWithoutSuffix)
			}
			for _, bw := range bws {
				if bw != nil {
					for j := range bw.Labels {
						bw.Labels[j].Name = ident()
					}
				}
			}
			return s
		}
		b := mut()
		serB, err := c08xSer(b)
		if err != nil {
			r.Count("shape-metricx:mutant-outside-fragment")
			if os.Getenv("C10_DUMP") == "shape" {
				fmt.Fprintln(c10Stderr, "MUTANT-MX", err, "|", query)
			}
			continue
		}
		c := genMCtx(rng, scriptDuration(a))
		t1, err1 := c10PlanMetricX(mk(), c)
		t2, err2 := c10PlanMetricX(mut(), c)
		if err1 != nil || err2 != nil {
			r.Count("shape-metricx:impl-error")
			if (err1 == nil) != (err2 == nil) {
				r.Count("shape-metricx:impl-error-one-side")
			}
			continue
		}
		ops = append(ops, "c10sameshapemx "+serA+" | "+serB)
		pairs = append(pairs, pair{query, serB, t1, t2, c})
		r.Case("shape-metricx:"+query+"|"+serB, true)
		c08xCount(r, "shape-metricx", a)
		if i%71 == 0 {
			r.Sample(map[string]any{"stream": "shape-metricx", "query": query, "same_shape_as": serB, "sql": t1, "sql_other": t2})
		}
	}
	ans, err := h.Model(ops)
	if err != nil {
		return err
	}
	var kops []string
	for _, p := range pairs {
		kops = append(kops, "kinds "+h.Hex([]byte(p.t1)), "kinds "+h.Hex([]byte(p.t2)))
	}
	kinds, err := h.Model(kops)
	if err != nil {
		return err
	}
	for i, p := range pairs {
		c := map[string]any{"stream": "shape-metricx", "query": p.q1, "other": p.q2, "ctx": p.ctx}
		if ans[i] != "1" {
			r.Disagree("shape-metricx", ops[i], "1 (the harness replaced string leaves only)", ans[i], c)
			r.Count("shape-metricx:relation-refused")
			continue
		}
		r.Count("shape-metricx:same-shape")
		if kinds[2*i] != kinds[2*i+1] {
			c["sql"], c["sql_other"] = p.t1, p.t2
			r.Violate("C10/shape/logql-metricx", "two metric queries of the labelled path that differ only in string leaves are planned to statements with different token structure", c)
		}
	}
	return nil
}
