package main

// C05 child process: the real writer routes (gorilla/mux router, controllerv1 handlers, unmarshal decoders,
// real insert services) over a fake ClickHouse client, served with httptest. The parent (c05.go) re-executes
// os.Args[0] with the hidden subcommand "c05-child" and talks JSON lines over stdin/stdout, so that a
// process-killing panic (un-recovered goroutine) kills only this child.

import (
	"bufio"
	"bytes"
	"context"
	"encoding/base64"
	"encoding/json"
	"errors"
	"fmt"
	"io"
	"log"
	"net"
	"net/http"
	"net/http/httptest"
	"os"
	"regexp"
	"runtime"
	"sort"
	"strings"
	"sync"
	"time"
	"unsafe"

	ch "github.com/ClickHouse/ch-go"
	"github.com/ClickHouse/ch-go/proto"
	"github.com/ClickHouse/clickhouse-go/v2/lib/driver"
	"github.com/gorilla/mux"
	clconfig "github.com/metrico/cloki-config"
	clcfg "github.com/metrico/cloki-config/config"
	"github.com/metrico/qryn/writer/ch_wrapper"
	"github.com/metrico/qryn/writer/config"
	controllerv1 "github.com/metrico/qryn/writer/controller"
	"github.com/metrico/qryn/writer/model"
	apirouterv1 "github.com/metrico/qryn/writer/router"
	"github.com/metrico/qryn/writer/service"
	"github.com/metrico/qryn/writer/service/impl"
	"github.com/metrico/qryn/writer/service/registry"
	"github.com/metrico/qryn/writer/utils/helpers"
	"github.com/metrico/qryn/writer/utils/logger"
	"github.com/metrico/qryn/writer/utils/numbercache"
	"github.com/metrico/qryn/writer/utils/promise"
)

const c05ChildCmd = "c05-child"

func init() {
	if len(os.Args) > 1 && os.Args[1] == c05ChildCmd {
		c05ChildMain()
		os.Exit(0)
	}
}

// ---- wire protocol
type c05Cmd struct {
	Cmd        string            `json:"cmd"` // req | census | blocks | quit
	ID         int               `json:"id"`
	Method     string            `json:"method,omitempty"`
	Path       string            `json:"path,omitempty"` // path?query
	Headers    map[string]string `json:"headers,omitempty"`
	Body       string            `json:"body,omitempty"` // base64
	DeadlineMs int               `json:"deadline_ms,omitempty"`
}

type c05Ans struct {
	ID         int            `json:"id"`
	Status     int            `json:"status"`            // HTTP status; 0 when none arrived
	Timeout    bool           `json:"timeout,omitempty"` // no response within the deadline
	Aborted    bool           `json:"aborted,omitempty"` // connection closed without a response (net/http recovered a handler panic)
	Err        string         `json:"err,omitempty"`
	Goroutines int            `json:"goroutines,omitempty"`
	Baseline   int            `json:"baseline,omitempty"`
	NonRect    []string       `json:"nonrect,omitempty"` // descriptions of non-rectangular blocks handed to the client since the last call
	Ragged     []string       `json:"ragged,omitempty"`  // request objects with per-row arrays of different lengths handed to svc.Request since the last call
	Requests   int            `json:"requests,omitempty"` // request objects inspected since the last call
	Blocks     int            `json:"blocks,omitempty"`
	Rows       map[string]int `json:"rows,omitempty"` // rows per table since the last call
	ElapsedMs  int            `json:"elapsed_ms,omitempty"`
	// bytes the whole child process allocated on the heap (runtime.MemStats.TotalAlloc) between the moment the
	// request was ready to be written to the socket and the moment its response had been read
	Alloc uint64 `json:"alloc,omitempty"`
}

// ---- fake ClickHouse client: captures the blocks the insert services hand to Do
type c05Capture struct {
	mtx      sync.Mutex
	nonRect  []string
	blocks   int
	rows     map[string]int
	ragged   []string
	requests int
}

// c05CheckSvc sits between doPush and the real insert service: the oracle of `parser_rect_*` on what the real parsers
// emit. Every request object handed to Request() is inspected — `len` of every per-row array field must be equal —
// before it goes on to the real service unchanged.
type c05CheckSvc struct {
	service.IInsertServiceV2
}

func c05RaggedOf(req any) string {
	lens := func(name string, pairs ...any) string {
		first, equal := -1, true
		parts := make([]string, 0, len(pairs)/2)
		for i := 0; i+1 < len(pairs); i += 2 {
			n := pairs[i+1].(int)
			if first < 0 {
				first = n
			} else if n != first {
				equal = false
			}
			parts = append(parts, fmt.Sprintf("%s=%d", pairs[i], n))
		}
		if equal {
			return ""
		}
		return name + ": " + strings.Join(parts, " ")
	}
	switch x := req.(type) {
	case *model.TimeSamplesData:
		if x == nil {
			return ""
		}
		return lens("TimeSamplesData", "MTimestampNS", len(x.MTimestampNS), "MFingerprint", len(x.MFingerprint), "MMessage", len(x.MMessage),
			"MValue", len(x.MValue), "MTTLDays", len(x.MTTLDays), "MType", len(x.MType))
	case *model.TimeSeriesData:
		if x == nil {
			return ""
		}
		return lens("TimeSeriesData", "MDate", len(x.MDate), "MLabels", len(x.MLabels), "MFingerprint", len(x.MFingerprint),
			"MTTLDays", len(x.MTTLDays), "MType", len(x.MType))
	case *model.TempoSamples:
		if x == nil {
			return ""
		}
		return lens("TempoSamples", "MTraceId", len(x.MTraceId), "MSpanId", len(x.MSpanId), "MTimestampNs", len(x.MTimestampNs),
			"MDurationNs", len(x.MDurationNs), "MParentId", len(x.MParentId), "MName", len(x.MName), "MServiceName", len(x.MServiceName),
			"MPayloadType", len(x.MPayloadType), "MPayload", len(x.MPayload))
	case *model.TempoTag:
		if x == nil {
			return ""
		}
		return lens("TempoTag", "MTraceId", len(x.MTraceId), "MSpanId", len(x.MSpanId), "MTimestampNs", len(x.MTimestampNs),
			"MDurationNs", len(x.MDurationNs), "MDate", len(x.MDate), "MKey", len(x.MKey), "MVal", len(x.MVal))
	case *model.ProfileData:
		if x == nil {
			return ""
		}
		return lens("ProfileData", "TimestampNs", len(x.TimestampNs), "Ptype", len(x.Ptype), "ServiceName", len(x.ServiceName),
			"PeriodType", len(x.PeriodType), "PeriodUnit", len(x.PeriodUnit), "DurationNs", len(x.DurationNs),
			"PayloadType", len(x.PayloadType), "Payload", len(x.Payload))
	}
	return fmt.Sprintf("%T: a request type the oracle does not know", req)
}

func (c c05CheckSvc) Request(req helpers.SizeGetter, insertMode int) *promise.Promise[uint32] {
	what := c05RaggedOf(req)
	c05Cap.mtx.Lock()
	c05Cap.requests++
	if what != "" && len(c05Cap.ragged) < 32 {
		c05Cap.ragged = append(c05Cap.ragged, what)
	}
	c05Cap.mtx.Unlock()
	return c.IInsertServiceV2.Request(req, insertMode)
}

var c05Cap = &c05Capture{rows: map[string]int{}}

type c05FakeCh struct{}

var c05TableRe = regexp.MustCompile(`INSERT INTO (\S+)`)

func (c05FakeCh) Ping(ctx context.Context) error { return nil }
func (c05FakeCh) Do(ctx context.Context, q ch.Query) error {
	table := "?"
	if m := c05TableRe.FindStringSubmatch(q.Body); m != nil {
		table = m[1]
	}
	counts := make([]string, 0, len(q.Input))
	rect := true
	first := -1
	var buf proto.Buffer
	for _, c := range q.Input {
		n := c.Data.Rows()
		if first < 0 {
			first = n
		} else if n != first {
			rect = false
		}
		counts = append(counts, fmt.Sprintf("%s=%d", c.Name, n))
		// what the real client does with a column: encode it (a fault here would be a fault in production too)
		buf.Reset()
		c.Data.EncodeColumn(&buf)
	}
	c05Cap.mtx.Lock()
	defer c05Cap.mtx.Unlock()
	c05Cap.blocks++
	if first > 0 {
		c05Cap.rows[table] += first
	}
	if !rect {
		c05Cap.nonRect = append(c05Cap.nonRect, table+": "+strings.Join(counts, " "))
		// ch-go refuses such a block
		return fmt.Errorf("input column row count mismatch: %s", strings.Join(counts, " "))
	}
	return nil
}
func (c05FakeCh) Exec(ctx context.Context, query string, args ...any) error { return nil }
func (c05FakeCh) Scan(ctx context.Context, req string, args []any, dest ...interface{}) error {
	return errors.New("not supported by the fake")
}
func (c05FakeCh) DropIfEmpty(ctx context.Context, name string) error { return nil }
func (c05FakeCh) TableExists(ctx context.Context, name string) (bool, error) {
	return true, nil
}
func (c05FakeCh) GetDBExec(env map[string]string) func(ctx context.Context, query string, args ...[]interface{}) error {
	return func(ctx context.Context, query string, args ...[]interface{}) error { return nil }
}
func (c05FakeCh) GetVersion(ctx context.Context, k uint64) (uint64, error) { return 0, nil }
func (c05FakeCh) GetSetting(ctx context.Context, tp string, name string) (string, error) {
	return "", nil
}
func (c05FakeCh) PutSetting(ctx context.Context, tp string, name string, value string) error {
	return nil
}
func (c05FakeCh) GetFirst(req string, first ...interface{}) error { return errors.New("not supported") }
func (c05FakeCh) GetList(req string) ([]string, error)            { return nil, nil }
func (c05FakeCh) Query(ctx context.Context, query string, args ...interface{}) (driver.Rows, error) {
	return nil, errors.New("not supported")
}
func (c05FakeCh) QueryRow(ctx context.Context, query string, args ...interface{}) driver.Row {
	return nil
}
func (c05FakeCh) Close() error { return nil }

// what net/http's server logs (it reports a recovered handler panic as "http: panic serving …")
type c05LogBuf struct {
	mtx sync.Mutex
	buf bytes.Buffer
}

func (l *c05LogBuf) Write(p []byte) (int, error) {
	l.mtx.Lock()
	defer l.mtx.Unlock()
	if l.buf.Len() < 1<<16 {
		l.buf.Write(p)
	}
	return len(p), nil
}
func (l *c05LogBuf) reset() {
	l.mtx.Lock()
	l.buf.Reset()
	l.mtx.Unlock()
}
func (l *c05LogBuf) panicLine() string {
	l.mtx.Lock()
	defer l.mtx.Unlock()
	for _, line := range strings.Split(l.buf.String(), "\n") {
		if strings.Contains(line, "panic serving") {
			return line
		}
	}
	return ""
}

var c05SrvLog = &c05LogBuf{}

// ---- assembly (mirrors writer/main_dev.go Init + plugin.CreateStaticServiceRegistry, with the fake session)
func c05Assemble() *httptest.Server {
	config.Cloki = clconfig.New(clconfig.CLOKI_WRITER, nil, "", "")
	// keep the retry logic of doPush in play but fast
	config.Cloki.Setting.SYSTEM_SETTINGS.RetryAttempts = 2
	config.Cloki.Setting.SYSTEM_SETTINGS.RetryTimeoutS = 0
	logger.Logger.SetOutput(io.Discard)
	service.CreateColPools(100)

	node := &model.DataDatabasesMap{ClokiBaseDataBase: clcfg.ClokiBaseDataBase{Node: "n1", Name: "db", WriteTimeout: 5}}
	var session ch_wrapper.IChClientFactory = func() (ch_wrapper.IChClient, error) { return c05FakeCh{}, nil }
	factory := &impl.DevInsertServiceFactory{}
	mk := func(f func(model.InsertServiceOpts) service.IInsertServiceV2) map[string]service.IInsertServiceV2 {
		svc := f(model.InsertServiceOpts{Session: session, Node: node, Interval: 5 * time.Millisecond, ParallelNum: 1, MaxQueueSize: 1})
		svc.Init()
		go svc.Run()
		return map[string]service.IInsertServiceV2{"n1": c05CheckSvc{svc}}
	}
	ts := mk(factory.NewTimeSeriesInsertService)
	spl := mk(factory.NewSamplesInsertService)
	mtr := mk(factory.NewMetricsInsertService)
	tempo := mk(factory.NewTempoSamplesInsertService)
	tags := mk(factory.NewTempoTagInsertService)
	prof := mk(factory.NewProfileSamplesInsertService)
	controllerv1.Registry = registry.NewStaticServiceRegistry(ts, spl, mtr, tempo, tags, prof)
	controllerv1.FPCache = numbercache.NewCache[uint64](30*time.Minute, func(val uint64) []byte {
		return unsafe.Slice((*byte)(unsafe.Pointer(&val)), 8)
	}, map[string]*model.DataDatabasesMap{"n1": node})

	router := mux.NewRouter()
	cfg := controllerv1.NewMiddlewareConfig(controllerv1.WithExtraMiddlewareDefault...)
	tempoCfg := controllerv1.NewMiddlewareConfig(controllerv1.WithExtraMiddlewareTempo...)
	apirouterv1.RouteInsertDataApis(router, cfg)
	apirouterv1.RoutePromDataApis(router, cfg)
	apirouterv1.RouteElasticDataApis(router, cfg)
	apirouterv1.RouteInsertTempoApis(router, tempoCfg)
	apirouterv1.RouteProfileDataApis(router, cfg)
	srv := httptest.NewUnstartedServer(router)
	srv.Config.ErrorLog = log.New(c05SrvLog, "", 0)
	srv.Start()
	return srv
}

func c05Settle(baseline int, maxWait time.Duration) int {
	deadline := time.Now().Add(maxWait)
	n := runtime.NumGoroutine()
	for n > baseline && time.Now().Before(deadline) {
		time.Sleep(10 * time.Millisecond)
		n = runtime.NumGoroutine()
	}
	return n
}

func c05ChildMain() {
	// the decoders print diagnostics with fmt.Println: keep the protocol pipe for ourselves
	protoOut := os.Stdout
	if devnull, err := os.OpenFile(os.DevNull, os.O_WRONLY, 0); err == nil {
		os.Stdout = devnull
	}
	srv := c05Assemble()
	out := bufio.NewWriter(protoOut)
	emit := func(a c05Ans) {
		b, _ := json.Marshal(a)
		out.Write(b)
		out.WriteByte('\n')
		out.Flush()
	}
	// settle, then take the census baseline (the insert services' loops, the cache ticker, the server)
	time.Sleep(50 * time.Millisecond)
	baseline := runtime.NumGoroutine()
	for i := 0; i < 5; i++ {
		time.Sleep(20 * time.Millisecond)
		if n := runtime.NumGoroutine(); n > baseline {
			baseline = n
		}
	}
	emit(c05Ans{ID: -1, Baseline: baseline, Goroutines: baseline})

	dec := json.NewDecoder(bufio.NewReaderSize(os.Stdin, 1<<20))
	for {
		var c c05Cmd
		if err := dec.Decode(&c); err != nil {
			return
		}
		switch c.Cmd {
		case "quit":
			return
		case "rebase":
			// the census baseline: the goroutine count once it has been stable for 150 ms (at most 3 s)
			deadline := time.Now().Add(3 * time.Second)
			last, same := runtime.NumGoroutine(), 0
			for same < 15 && time.Now().Before(deadline) {
				time.Sleep(10 * time.Millisecond)
				if n := runtime.NumGoroutine(); n == last {
					same++
				} else {
					last, same = n, 0
				}
			}
			baseline = last
			emit(c05Ans{ID: c.ID, Goroutines: last, Baseline: baseline})
		case "census":
			n := c05Settle(baseline, 3*time.Second)
			emit(c05Ans{ID: c.ID, Goroutines: n, Baseline: baseline})
		case "blocks":
			c05Cap.mtx.Lock()
			a := c05Ans{ID: c.ID, NonRect: c05Cap.nonRect, Blocks: c05Cap.blocks, Rows: c05Cap.rows, Ragged: c05Cap.ragged, Requests: c05Cap.requests}
			c05Cap.ragged = nil
			c05Cap.requests = 0
			c05Cap.nonRect = nil
			c05Cap.blocks = 0
			c05Cap.rows = map[string]int{}
			c05Cap.mtx.Unlock()
			emit(a)
		case "req":
			body, _ := base64.StdEncoding.DecodeString(c.Body)
			req, err := http.NewRequest(c.Method, srv.URL+c.Path, bytes.NewReader(body))
			if err != nil {
				emit(c05Ans{ID: c.ID, Err: "newrequest: " + err.Error()})
				continue
			}
			keys := make([]string, 0, len(c.Headers))
			for k := range c.Headers {
				keys = append(keys, k)
			}
			sort.Strings(keys)
			for _, k := range keys {
				req.Header.Set(k, c.Headers[k])
			}
			dl := time.Duration(c.DeadlineMs) * time.Millisecond
			if dl <= 0 {
				dl = 5 * time.Second
			}
			t0 := time.Now()
			a := c05Ans{ID: c.ID}
			c05SrvLog.reset()
			var ms0, ms1 runtime.MemStats
			runtime.ReadMemStats(&ms0)
			// Raw connection: the request is written while the response is read, so that a server answering
			// before it has consumed a large body (and closing) still yields its status.
			conn, err := net.DialTimeout("tcp", srv.Listener.Addr().String(), dl)
			if err != nil {
				emit(c05Ans{ID: c.ID, Err: "dial: " + err.Error()})
				continue
			}
			conn.SetDeadline(t0.Add(dl))
			req.Close = true
			go func() { req.Write(conn) }()
			resp, err := http.ReadResponse(bufio.NewReader(conn), req)
			if err != nil {
				var ne net.Error
				if errors.As(err, &ne) && ne.Timeout() {
					a.Timeout = true
				} else {
					a.Aborted = true
				}
				a.Err = err.Error()
				if pl := c05SrvLog.panicLine(); pl != "" {
					a.Err += "; " + pl
				}
			} else {
				// the body must also arrive within the deadline
				_, rerr := io.Copy(io.Discard, resp.Body)
				resp.Body.Close()
				a.Status = resp.StatusCode
				var ne net.Error
				if rerr != nil && errors.As(rerr, &ne) && ne.Timeout() {
					a.Timeout = true
					a.Err = rerr.Error()
				}
			}
			conn.Close()
			runtime.ReadMemStats(&ms1)
			a.Alloc = ms1.TotalAlloc - ms0.TotalAlloc
			a.ElapsedMs = int(time.Since(t0) / time.Millisecond)
			emit(a)
		}
	}
}
