package main

import (
	"context"
	"fmt"
	"strings"
	"time"

	clconfig "github.com/metrico/cloki-config/config"
	"github.com/metrico/qryn/reader/logql/logql_parser"
	"github.com/metrico/qryn/reader/logql/logql_transpiler_v2/clickhouse_planner"
	"github.com/metrico/qryn/reader/logql/logql_transpiler_v2/shared"
	"github.com/metrico/qryn/reader/model"
	"github.com/metrico/qryn/reader/prof"
	profparser "github.com/metrico/qryn/reader/prof/parser"
	profshared "github.com/metrico/qryn/reader/prof/shared"
	promtr "github.com/metrico/qryn/reader/promql/transpiler"
	traceql_parser "github.com/metrico/qryn/reader/traceql/parser"
	"github.com/metrico/qryn/reader/traceql/transpiler/clickhouse_transpiler"
	sql "github.com/metrico/qryn/reader/utils/sql_select"
	"github.com/metrico/qryn/reader/utils/tables"
	"github.com/prometheus/prometheus/model/labels"
	"github.com/prometheus/prometheus/storage"
	"verif/harness/h"
	"verif/harness/sqldump"
)

func init() { props["C13"] = c13 }

// one statement built by a real planner for a window
type builtStmt struct {
	planner string
	desc    string
	sel     sql.ISelect
	from    int64
	to      int64
	slack   int64
	need    bool // Loki tables must carry the type filter
	tp      int
}

func fakeDB(cluster bool) *model.DataDatabasesMap {
	cfg := &clconfig.ClokiBaseDataBase{Name: "db"}
	if cluster {
		cfg.ClusterName = "cl"
	}
	return &model.DataDatabasesMap{Config: cfg}
}

func pctx(from, to int64, cluster bool, tp uint8, limit int64) *shared.PlannerContext {
	c := &shared.PlannerContext{From: time.Unix(0, from), To: time.Unix(0, to), Limit: limit, Type: tp, IsCluster: cluster,
		CHSqlCtx: sql.DefaultCtx(), CHFinalize: true, Step: 5 * time.Second, Ctx: context.Background()}
	tables.PopulateTableNames(c, fakeDB(cluster))
	return c
}

var c13LogQL = []string{
	`{a="b"}`, `{a="b", c=~"d.*"} |= "x" != "y"`, `{a="b"} | lbl="v" | x > 5`, `{a="b"} | json x="y.z" | x="1"`,
	`{a="b"} | json | x="1"`, `{a="b"} | logfmt | lbl=~"v.*"`, `{a="b"} | regexp "(?P<x>[0-9]+)" | x > 3`,
	`{a="b"} | drop x, y="z"`, `{a="b"} | line_format "{{.a}}"`, `{a="b"} | label_format x=a`,
	`rate({a="b"}[1m])`, `rate({a="b"}[5s])`, `count_over_time({a="b"} |= "e" [5m])`, `bytes_rate({a="b"}[10s])`,
	`sum by (a) (count_over_time({a="b"} |= "e" [5m]))`, `sum(rate({a="b"}[1m])) by (a) > 2`,
	`sum_over_time({a="b"} | unwrap x [10s]) by (a)`, `avg_over_time({a="b"} | json | unwrap x [30s])`,
	`topk(2, sum by (a) (rate({a="b"}[1m])))`, `max_over_time({a="b"} | unwrap x [1m]) by (a)`,
	`quantile_over_time(0.5, {a="b"} | unwrap x [1m]) by (a)`, `sum(count_over_time({a="b"} | json | x="1" [1m])) by (x)`,
	`{a="b"} |~ "x.+" | c="d" and e!="f"`, `first_over_time({a="b"} | unwrap x [20s])`,
}

func lraDuration(s *logql_parser.LogQLScript) time.Duration {
	l := logql_parser.FindFirst[logql_parser.LRAOrUnwrap](s)
	if l != nil {
		d, _ := time.ParseDuration(l.Time + l.TimeUnit)
		return d
	}
	if q := logql_parser.FindFirst[logql_parser.QuantileOverTime](s); q != nil {
		d, _ := time.ParseDuration(q.Time + q.TimeUnit)
		return d
	}
	return 0
}

func c13Build(rng *h.Rng, r *h.Result) []builtStmt {
	var out []builtStmt
	add := func(planner, desc string, sel sql.ISelect, err error, from, to, slack int64, need bool, tp int) {
		if err != nil || sel == nil {
			r.Count("planner-error:" + planner)
			return
		}
		out = append(out, builtStmt{planner, desc, sel, from, to, slack, need, tp})
	}
	win := func() (int64, int64) {
		c := genCtx(rng)
		if rng.Chance(30) {
			// windows ending shortly after midnight UTC / starting shortly after it
			day := (c.From / 86400e9) * 86400e9
			switch rng.Intn(3) {
			case 0:
				return day - 600e9, day + 600e9
			case 1:
				return day + 60e9, day + 1200e9
			default:
				return day - 3600e9, day + int64(rng.Intn(1800))*1e9 + 1
			}
		}
		return c.From, c.To
	}
	for _, cluster := range []bool{false, true} {
		// LogQL through the full planner
		for _, q := range c13LogQL {
			from, to := win()
			script, err := logql_parser.Parse(q)
			if err != nil {
				r.Count("parse-error:logql")
				continue
			}
			tp := uint8(1 + rng.Intn(2))
			p, err := clickhouse_planner.Plan(script, true)
			if err != nil {
				r.Count("plan-error:logql")
				continue
			}
			sel, err := p.Process(pctx(from, to, cluster, tp, 100))
			slack := int64(0)
			if d := lraDuration(script); d > 0 {
				slack = int64(d)
				if slack < 15e9 {
					slack = 15e9
				}
			}
			add("logql", q, sel, err, from, to, slack, true, int(tp))
		}
		for i := 0; i < 6; i++ {
			q := genLogQuery(rng, 3, 3)
			from, to := win()
			script, err := logql_parser.Parse(q)
			if err != nil {
				continue
			}
			p, _ := clickhouse_planner.Plan(script, true)
			sel, err := p.Process(pctx(from, to, cluster, 1, 10))
			add("logql", q, sel, err, from, to, 0, true, 1)
			// label values / series over the same selector
			fpP, err := clickhouse_planner.PlanFingerprints(script)
			if err == nil {
				sel, err = clickhouse_planner.NewValuesPlanner(fpP, "job").Process(pctx(from, to, cluster, 1, 10))
				add("logql-values", q, sel, err, from, to, 0, true, 1)
				fpP, _ = clickhouse_planner.PlanFingerprints(script)
				sel, err = clickhouse_planner.NewSeriesPlanner(fpP).Process(pctx(from, to, cluster, 1, 10))
				add("logql-series", q, sel, err, from, to, 0, true, 1)
			}
		}
		// Prometheus matchers → raw samples
		for i := 0; i < 6; i++ {
			from, to := win()
			ms := []*labels.Matcher{labels.MustNewMatcher(labels.MatchEqual, "__name__", "up")}
			if rng.Bool() {
				ms = append(ms, labels.MustNewMatcher(labels.MatchRegexp, "job", "a.*"))
			}
			hints := &storage.SelectHints{Start: from / 1e6, End: to / 1e6}
			if rng.Bool() {
				hints.Step = 15000
				hints.Func = h.Pick(rng, []string{"", "rate", "sum_over_time", "abs"})
				hints.Range = 60000
			}
			res, err := promtr.TranspileLabelMatchers(hints, pctx(from, to, cluster, 2, 0), ms...)
			var sel sql.ISelect
			if err == nil {
				sel = res.Query
			}
			add("prom", fmt.Sprintf("hints=%+v matchers=%d", *hints, len(ms)), sel, err, from, to, 0, true, 2)
		}
		// TraceQL
		for _, q := range []string{`{.a="b"}`, `{.a="b" && .c>5}`, `{name="x"} | count() > 2`, `{duration>1s}`, `{.a="b"} && {.c="d"}`, `{.a=~"b.*"} || {resource.x="y"}`, `{}`} {
			from, to := win()
			script, err := traceql_parser.Parse(q)
			if err != nil {
				r.Count("parse-error:traceql")
				continue
			}
			p, err := clickhouse_transpiler.Plan(script)
			if err != nil {
				r.Count("plan-error:traceql")
				continue
			}
			sel, err := p.Process(pctx(from, to, cluster, 0, 20))
			add("traceql", q, sel, err, from, to, 0, false, 0)
		}
		// Pyroscope selectors
		for _, q := range []string{`{}`, `{service_name="x"}`, `{a="b", c=~"d.*"}`} {
			from, to := win()
			script, err := profparser.Parse(q)
			if err != nil {
				r.Count("parse-error:prof")
				continue
			}
			db := fakeDB(cluster)
			tid, _ := profshared.ParseTypeId("process_cpu:cpu:nanoseconds:cpu:nanoseconds")
			f, t := time.Unix(0, from), time.Unix(0, to)
			sel, err := prof.PlanLabelNames(context.Background(), []*profparser.Script{script}, f, t, db)
			add("prof-label-names", q, sel, err, from, to, 0, false, 0)
			sel, err = prof.PlanLabelValues(context.Background(), []*profparser.Script{script}, "x", f, t, db)
			add("prof-label-values", q, sel, err, from, to, 0, false, 0)
			sel, err = prof.PlanMergeTraces(context.Background(), script, &tid, f, t, db)
			add("prof-merge-traces", q, sel, err, from, to, 0, false, 0)
			sel, err = prof.PlanSeries(context.Background(), []*profparser.Script{script}, []string{"a"}, f, t, db)
			add("prof-series", q, sel, err, from, to, 0, false, 0)
		}
	}
	return out
}

// c13Confined: every statement the real planners build is judged by Confine.confined (translation validation)
func c13Confined(r *h.Result, rng *h.Rng, rounds int) error {
	r.Stream("confined: real planners (LogQL log+metric, label values, series, Prometheus matchers, TraceQL, Pyroscope) → reflection dump → Confine.confined in the driver; process zone varied (UTC, −08:00, +14:00)")
	zones := []*time.Location{time.UTC, time.FixedZone("W", -8*3600), time.FixedZone("E", 14*3600)}
	saved := time.Local
	defer func() { time.Local = saved }()
	for round := 0; round < rounds; round++ {
		for _, z := range zones {
			time.Local = z
			stmts := c13Build(rng, r)
			var ops []string
			for _, s := range stmts {
				ops = append(ops, fmt.Sprintf("c13confined %d %d %d %d %d %s", s.from, s.to, s.slack, b2i(s.need), s.tp, hx(sqldump.Dump(s.sel))))
			}
			ans, err := h.Model(ops)
			if err != nil {
				return err
			}
			for i, a := range ans {
				s := stmts[i]
				r.Case(fmt.Sprintf("confined:%s:%s:%d:%d:%s", s.planner, s.desc, s.from, s.to, z), true)
				r.Count("confined:planner:" + s.planner)
				if strings.HasPrefix(a, "true") {
					continue
				}
				text, _ := s.sel.String(sql.DefaultCtx())
				var bad []string
				for _, f := range strings.Fields(a)[1:] {
					if strings.HasSuffix(f, "=false") {
						bad = append(bad, strings.TrimSuffix(f, "=false"))
					}
				}
				r.Violate("C13/unconfined/"+s.planner+"/"+strings.Join(bad, "+"),
					fmt.Sprintf("%s statement for %s window [%d,%d) zone %s has a scan not confined to the window/type: %s", s.planner, s.desc, s.from, s.to, z, strings.Join(bad, ",")),
					map[string]any{"stream": "confined", "planner": s.planner, "query": s.desc, "from": s.from, "to": s.to, "zone": z.String(), "verdict": a, "sql": text})
			}
			if round == 0 && z == time.UTC && len(stmts) > 0 {
				t, _ := stmts[0].sel.String(sql.DefaultCtx())
				r.Sample(map[string]any{"stream": "confined", "planner": stmts[0].planner, "query": stmts[0].desc, "sql": t})
			}
		}
	}
	return nil
}

// c13Dates: the calendar rendering the Lean side uses for date bounds equals time.Format for every day
// from 1678 to 2262 (the whole int64-nanosecond range): exhaustive.
func c13Dates(r *h.Result) error {
	r.Stream("dates: Time.formatDate vs time.Unix(s,0).UTC().Format(\"2006-01-02\") for every day of the int64-nanosecond range (exhaustive) and second-level edges")
	var ops, impl []string
	for day := int64(-106751); day <= 106751; day++ {
		for _, off := range []int64{0, 86399} {
			s := day*86400 + off
			ops = append(ops, fmt.Sprintf("c13date %d", s))
			impl = append(impl, hx(time.Unix(s, 0).UTC().Format("2006-01-02")))
		}
	}
	r.CountN("dates:days", 213503)
	r.Evaluations += len(ops)
	r.Nontrivial["dates:all-days-1678-2262"]++
	return r.Compare("dates", ops, impl, nil)
}

func c13(r *h.Result, rng *h.Rng, tier string, replay string) error {
	r.Rule = "confined: a fixed list of 24 LogQL queries covering every stage kind + generated log queries, label-values/series planners, Prometheus matchers with/without hints, 7 TraceQL scripts, 3 Pyroscope selectors × 4 planners; × single-node/cluster × windows (random, and straddling/just after midnight UTC) × 3 process zones; every case is non-trivial (a real statement with ≥1 base-table scan); distinct by (planner, query, window, zone). dates: exhaustive. model-*: grammar-directed requests of the modelled fragments (C08's metric-query generator, C11's TraceQL generator incl. chains of up to 5 selectors and {}, C07's log-selector generator for series/values, Prometheus matchers × every hint function × steps below/equal/above the range, Pyroscope selectors with pseudo-labels) × windows (random, straddling/just after midnight UTC, bucket-aligned) × single-node/cluster; distinct by (request, context). model-tempo / http-tempo / judge-tempo: legacy Tempo searches — 0–4 tags over 9 keys × 4 operators × 12 values (quotes, backslashes, NUL, non-ASCII), no tags parameter, a tags string without a tag; limits incl. 0 and negative, duration bounds incl. the truncating ones; windows inside a day, across midnight, of several days, sub-second, ending/starting exactly at midnight, with absent/negative ends (text only) — × 12 kinds of version state (no row, value 0, before / at / one second after / inside / after the window, unparsable, signed, overflowing the int64 product, duplicate rows, other names) × table list × single-node/cluster × 3 database names; judge-tempo databases: 12–16 spans per case at the positions named in the stream description, index rows per tag (85 % matching) with the timestamp columns zero for spans older than the recorded tempo_v2 update; non-trivial = a span that carries all tags lies on a boundary day outside the window. model-tempo-legacy: trace by id × start/end given or 0 × 5 ids, tag names, tag values × 10 tag spellings. model-prof-plans: 0–3 selectors (pseudo-labels 40 %) × 4 operators × 13 values (incl. \"\" and .*: key/value selectors that accept the empty value and are asked inverted — see the model-prof-plans:fp:* buckets) × 3 type ids × 9 planner shapes × windows × layouts × 3 zones. model-tail: 5 (15) concurrent tails × 3 (5) ticks × 5 result shapes, single-node and clustered. model-promlabels: 0–3 match[] selectors of 1–2 matchers (4 operators × 5 names × 13 values incl. \"\" and .*: matchers that accept the empty value are asked inverted) × 3 endpoints × windows (ms, across midnight, around the 30-minute date rule) × single-node/cluster. signal-plans: the LogQL list + generated log queries with Type 0 (what prepareOutput / Tail build), series / values with Type 1, Prometheus raw + rollup with Type 2. signal-http: 11 routes × generated windows"
	rounds := 1
	if tier != "quick" {
		rounds = 12
	}
	if err := c13Confined(r, rng.Fork(), rounds); err != nil {
		return err
	}
	if err := c13Dates(r); err != nil {
		return err
	}
	if err := c13Models(r, rng.Fork(), tier); err != nil {
		return err
	}
	n := 150
	if tier != "quick" {
		n = 3000
	}
	if err := c13HTTP(r, rng.Fork(), n); err != nil {
		return err
	}
	// streams added by the c13w extension run last (own forks): the signal half, the Prometheus metadata statements
	return c13Signal(r, rng.Fork(), tier)
}
