package main

// C03: document generators (every random choice from rng) and the shrinker.

import (
	"strings"

	otlpCommon "go.opentelemetry.io/proto/otlp/common/v1"

	"verif/harness/h"
)

var c03TextRunes = []rune("abcxyzABCQ019 _-./:\"\\'{}=,;%é日😀")
var c03PlainRunes = []rune("abcdefghxyzABC0123456789_.-é")

func c03Text(rng *h.Rng, maxLen int, runes []rune) string {
	n := rng.Intn(maxLen + 1)
	var sb strings.Builder
	for i := 0; i < n; i++ {
		sb.WriteRune(runes[rng.Intn(len(runes))])
	}
	return sb.String()
}

// c03Value: label values around the truncation length, with multi-byte runes at the cut
func c03Value(rng *h.Rng) string {
	switch rng.Intn(10) {
	case 0:
		n := h.Pick(rng, []int{98, 99, 100, 101, 102, 103, 150})
		s := strings.Repeat("v", n)
		if rng.Bool() {
			cut := h.Pick(rng, []int{97, 98, 99, 100})
			if cut+3 <= n {
				s = s[:cut] + "日" + s[cut+3:]
			}
		}
		return s
	case 1:
		return ""
	default:
		return c03Text(rng, 12, c03TextRunes)
	}
}

// c03InvalidValue: label values that are not valid UTF-8 (raw bytes, over-long and surrogate encodings, runes cut short,
// runs of invalid bytes across the 100-byte cut). Only for transports that carry them: the Loki label text
// (`\xNN` escapes inside the quoted value, JSON `labels` layout and protobuf) and the Influx line protocol (raw bytes).
// Protobuf string fields and JSON strings cannot carry them.
func c03InvalidValue(rng *h.Rng) string {
	return h.Pick(rng, []string{"x\xffy", "\xff\xfe\xfd", "a\xc0\x80b", "\xed\xa0\x80", "\xf4\x90\x80\x80z", "ok\xe6\x97", "\xe6\x97\xa5\xff\xe6",
		"\x80", "日\xff日\xfe\xfe日", strings.Repeat("v", 99) + "\xff\xfftail", strings.Repeat("v", 98) + "\xf0\x9f\x98\x80", strings.Repeat("v", 100) + "\xff",
		"\xef\xbf\xbd\xff\xef\xbf\xbd"})
}

// style: 0 any text (JSON object key), 1 Go identifier (Loki label text), 2 plain (line protocol)
func c03Name(rng *h.Rng, style int) string {
	ident := func() string {
		first := []rune("abcxyz_AZé日")
		rest := []rune("abcxyz_AZ019é")
		s := string(first[rng.Intn(len(first))])
		for i := rng.Intn(6); i > 0; i-- {
			s += string(rest[rng.Intn(len(rest))])
		}
		return s
	}
	switch style {
	case 1:
		return ident()
	case 2:
		if rng.Chance(70) {
			return ident()
		}
		s := c03Text(rng, 6, c03PlainRunes)
		if s == "" {
			s = "t"
		}
		return s
	}
	switch rng.Intn(8) {
	case 0:
		return h.Pick(rng, []string{"1abc", "a-b", "a.b", "a b", "9", "é1", "日本", "x😀y", "-", "a_b"})
	case 1:
		return c03Text(rng, 6, c03TextRunes)
	default:
		return ident()
	}
}

func c03LabelSet(rng *h.Rng, style int, minLabels int) []c03Label {
	n := rng.Range(minLabels, 4)
	var ls []c03Label
	seen := map[string]bool{}
	for len(ls) < n {
		k := c03Name(rng, style)
		if seen[k] {
			continue
		}
		seen[k] = true
		v := c03Value(rng)
		if style != 0 && rng.Chance(15) {
			v = c03InvalidValue(rng)
		}
		ls = append(ls, c03Label{k, v})
	}
	if style == 2 && rng.Chance(8) && !seen["bad\xffkey"] {
		ls = append(ls, c03Label{h.Pick(rng, []string{"bad\xffkey", "\xe6\x97k", "k\xc0\x80"}), "v"})
	}
	if rng.Chance(12) && !seen["__ttl_days__"] {
		ls = append(ls, c03Label{"__ttl_days__", h.Pick(rng, []string{"7", "0", "abc", "-1", "40000", "+3", "32767", "", "30"})})
		if rng.Bool() && len(ls) > 1 {
			i := rng.Intn(len(ls))
			ls[i], ls[len(ls)-1] = ls[len(ls)-1], ls[i]
		}
	}
	return ls
}

// c03Pool: a few label sets per document so that several streams of a body share an identity
type c03Pool struct {
	sets  [][]c03Label
	style int
	min   int
}

func newPool(rng *h.Rng, style, min int) *c03Pool {
	p := &c03Pool{style: style, min: min}
	for i := rng.Range(1, 3); i > 0; i-- {
		p.sets = append(p.sets, c03LabelSet(rng, style, min))
	}
	return p
}
func (p *c03Pool) pick(rng *h.Rng) []c03Label {
	if rng.Chance(70) {
		return append([]c03Label(nil), p.sets[rng.Intn(len(p.sets))]...)
	}
	return c03LabelSet(rng, p.style, p.min)
}

const c03Day = int64(86400) * 1000000000

func c03TsNs(rng *h.Rng) int64 {
	base := int64(1700000000) * 1000000000
	base -= base % c03Day
	switch rng.Intn(8) {
	case 0:
		return base + int64(rng.Intn(3))*c03Day // exactly midnight
	case 1:
		return base + int64(rng.Intn(3))*c03Day - 1 // last nanosecond of a day
	default:
		return base + int64(rng.Intn(3))*c03Day + int64(rng.U64()%uint64(c03Day))
	}
}

func c03Float(rng *h.Rng) float64 {
	switch rng.Intn(6) {
	case 0:
		return float64(rng.Intn(100))
	case 1:
		return float64(rng.Intn(2000)-1000) / 8
	case 2:
		return h.Pick(rng, []float64{0, mathFromBits(1 << 63), 1e-9, 1e21, -1e21, 5e-324, 1.7976931348623157e308, 0.1, 1.0 / 3})
	default:
		for {
			f := mathFromBits(rng.U64())
			if f == f && f < 1.7e308 && f > -1.7e308 {
				return f
			}
		}
	}
}

func c03Count(rng *h.Rng, max int) int {
	switch rng.Intn(12) {
	case 0:
		return 0
	case 1, 2:
		return 1
	default:
		return rng.Range(1, max)
	}
}

func c03CountStreams(rng *h.Rng, max int) int {
	if rng.Chance(3) {
		return 0
	}
	return rng.Range(1, max)
}

func c03Line(rng *h.Rng, noNewline bool) string {
	s := c03Text(rng, 20, c03TextRunes)
	if !noNewline && rng.Chance(10) {
		s += "\n" + c03Text(rng, 5, c03TextRunes)
	}
	return s
}

func c03GenOtlpValue(rng *h.Rng, depth int) *otlpCommon.AnyValue {
	k := rng.Intn(8)
	if depth > 1 && k >= 6 {
		k = 0
	}
	switch k {
	case 0, 1:
		return &otlpCommon.AnyValue{Value: &otlpCommon.AnyValue_StringValue{StringValue: c03Value(rng)}}
	case 2:
		return &otlpCommon.AnyValue{Value: &otlpCommon.AnyValue_IntValue{IntValue: int64(rng.Intn(2000) - 1000)}}
	case 3:
		return &otlpCommon.AnyValue{Value: &otlpCommon.AnyValue_BoolValue{BoolValue: rng.Bool()}}
	case 4:
		return &otlpCommon.AnyValue{Value: &otlpCommon.AnyValue_DoubleValue{DoubleValue: float64(rng.Intn(2000)-1000) / 8}}
	case 5:
		if rng.Bool() {
			return nil // attribute without value
		}
		return &otlpCommon.AnyValue{Value: &otlpCommon.AnyValue_BytesValue{BytesValue: rng.Bytes(6)}}
	case 6:
		arr := &otlpCommon.ArrayValue{}
		for i := rng.Intn(3); i > 0; i-- {
			if v := c03GenOtlpValue(rng, depth+1); v != nil {
				arr.Values = append(arr.Values, v)
			}
		}
		return &otlpCommon.AnyValue{Value: &otlpCommon.AnyValue_ArrayValue{ArrayValue: arr}}
	default:
		kv := &otlpCommon.KeyValueList{}
		for i := rng.Intn(3); i > 0; i-- {
			if v := c03GenOtlpValue(rng, depth+1); v != nil {
				kv.Values = append(kv.Values, &otlpCommon.KeyValue{Key: c03Name(rng, 0), Value: v})
			}
		}
		return &otlpCommon.AnyValue{Value: &otlpCommon.AnyValue_KvlistValue{KvlistValue: kv}}
	}
}

func c03GenOtlpAttrs(rng *h.Rng, max int) []*otlpCommon.KeyValue {
	var out []*otlpCommon.KeyValue
	for i := rng.Intn(max + 1); i > 0; i-- {
		key := h.Pick(rng, []string{"service.name", "service_name", "host", "a.b", "a_b", "a-b", "1x", "", "level", "k8s.pod", "é", "__ttl_days__"})
		if rng.Chance(30) {
			key = c03Name(rng, 0)
		}
		out = append(out, &otlpCommon.KeyValue{Key: key, Value: c03GenOtlpValue(rng, 0)})
	}
	return out
}

// c03Gen: one document of the protocol; maxStreams/maxEntries bound its shape
func c03Gen(proto string, rng *h.Rng, maxStreams, maxEntries int) *c03Doc {
	d := &c03Doc{Proto: proto}
	ns := c03CountStreams(rng, maxStreams)
	switch proto {
	case "loki":
		pool := newPool(rng, 0, 0)
		for i := 0; i < ns; i++ {
			s := rLokiStream{layout: rng.Intn(4)}
			if s.layout&1 == 1 {
				s.Labels = c03LabelSet(rng, 1, 1) // the label text needs identifiers and at least one pair
				if rng.Chance(60) && i > 0 && d.Loki[0].layout&1 == 1 {
					s.Labels = append([]c03Label(nil), d.Loki[0].Labels...)
				}
			} else {
				s.Labels = pool.pick(rng)
			}
			for j := c03Count(rng, maxEntries); j > 0; j-- {
				e := rLokiEntry{Ts: c03TsNs(rng)}
				line := c03Line(rng, false)
				switch rng.Intn(10) {
				case 0, 1: // line and number
					e.Line = &line
					f := c03Float(rng)
					e.Val = &f
				case 2: // number only (entries layout); in the values layout a number needs a line before it
					f := c03Float(rng)
					e.Val = &f
					if s.layout&2 == 0 {
						e.Line = &line
					}
				case 3: // neither (values layout: ["ts"])
				default:
					e.Line = &line
					e.third = h.Pick(rng, []int{0, 0, 0, 2, 3})
				}
				if s.layout&2 != 0 {
					e.rfc = rng.Chance(40)
					e.zone = h.Pick(rng, []int{0, 0, 60, -300, 330, 765})
					e.tsKey = h.Pick(rng, []string{"ts", "timestamp"})
				}
				s.Entries = append(s.Entries, e)
			}
			d.Loki = append(d.Loki, s)
		}
	case "lokiproto":
		pool := newPool(rng, 1, 1)
		for i := 0; i < ns; i++ {
			s := rProtoStream{Labels: pool.pick(rng)}
			for j := c03Count(rng, maxEntries); j > 0; j-- {
				ts := c03TsNs(rng)
				s.Entries = append(s.Entries, rProtoEntry{ts / 1000000000, int32(ts % 1000000000), c03Line(rng, false)})
			}
			d.Proto2 = append(d.Proto2, s)
		}
	case "prom":
		pool := newPool(rng, 0, 0)
		for i := 0; i < ns; i++ {
			s := rPromSeries{Labels: pool.pick(rng)}
			if rng.Chance(70) {
				s.Labels = append([]c03Label{{"__name__", h.Pick(rng, []string{"up", "http_requests_total", "a:b", "9lives"})}}, s.Labels...)
			}
			for j := c03Count(rng, maxEntries); j > 0; j-- {
				v := c03Float(rng)
				if rng.Chance(5) {
					v = mathFromBits(0x7ff0000000000002) // Prometheus stale marker (a NaN)
				}
				s.Samples = append(s.Samples, rPromSample{c03TsNs(rng) / 1000000, v})
			}
			d.Prom = append(d.Prom, s)
		}
	case "influx":
		pool := newPool(rng, 2, 0)
		for i := 0; i < ns*3; i++ {
			p := rInfluxPoint{Name: c03Name(rng, 2), Ts: c03TsNs(rng)}
			if rng.Chance(60) && i > 0 {
				p.Name = d.Influx[0].Name
			}
			for _, l := range pool.pick(rng) {
				if l.V == "" || l.K == "" || strings.Contains(l.V, `\`) || strings.Contains(l.K, `\`) {
					continue // the line protocol has no empty tag values
				}
				v := l.V
				if strings.ContainsAny(v, "\"\n") {
					v = "q"
				}
				p.Tags = append(p.Tags, c03Label{l.K, v})
			}
			if rng.Chance(40) {
				msg := strings.NewReplacer("\n", " ", `\`, "/").Replace(c03Line(rng, true))
				p.Fields = append(p.Fields, rInfluxField{K: "message", Kind: 's', S: msg})
				if rng.Chance(25) {
					p.Fields = append(p.Fields, rInfluxField{K: "n", Kind: 'i', I: int64(rng.Intn(100))})
				}
			} else {
				nf := 1
				if maxEntries < 100 && rng.Chance(40) {
					nf = rng.Range(1, 4)
				}
				seen := map[string]bool{}
				for len(p.Fields) < nf {
					k := h.Pick(rng, []string{"value", "usage_idle", "9x", "a-b", "cpu.load", "é", "count", "f1", "f2"})
					if seen[k] {
						continue
					}
					seen[k] = true
					f := rInfluxField{K: k}
					switch rng.Intn(8) {
					case 0, 1, 2:
						f.Kind, f.F = 'f', float64(rng.Intn(2000)-1000)/8
					case 3:
						f.Kind, f.F = 'f', c03Float(rng)
					case 4:
						f.Kind, f.I = 'i', int64(rng.U64()>>uint(rng.Intn(64)))-int64(rng.Intn(3))
					case 5:
						f.Kind, f.U = 'u', rng.U64()>>uint(rng.Intn(64))
					case 6:
						f.Kind, f.S = 's', "text"
					default:
						f.Kind, f.B = 'b', rng.Bool()
					}
					p.Fields = append(p.Fields, f)
				}
			}
			d.Influx = append(d.Influx, p)
		}
	case "ddlogs":
		for i := 0; i < ns*3; i++ {
			e := rDDLog{Message: c03Line(rng, false), TsMs: c03TsNs(rng)/1000000 + 1}
			opt := func(vals []string) string {
				if rng.Chance(50) {
					return ""
				}
				return h.Pick(rng, vals)
			}
			e.Source = opt([]string{"nginx", "go", "é"})
			e.Service = opt([]string{"api", "web"})
			e.Hostname = opt([]string{"h1", "h2"})
			e.SourceType = opt([]string{"st", "kube"})
			if rng.Chance(60) {
				var tags []string
				for j := rng.Range(1, 3); j > 0; j-- {
					tags = append(tags, h.Pick(rng, []string{"env:prod", "env:staging", "version:5.1", "a-b:c/d", "é:日", "novalue", "k:v:w", "9x:1", "__ttl_days__:5", "x:" + strings.Repeat("v", 101)}))
				}
				e.DDTags = strings.Join(tags, ",")
				if rng.Chance(20) {
					e.DDTags += ","
				}
			}
			d.DDLogs = append(d.DDLogs, e)
		}
	case "ddseries":
		for i := 0; i < ns; i++ {
			var s rDDSeries
			if rng.Chance(90) {
				m := h.Pick(rng, []string{"system.load.1", "app.requests", "é", ""})
				s.Metric = &m
			}
			if rng.Chance(70) {
				s.Resources = [][]c03Label{}
				for j := rng.Intn(3); j > 0; j-- {
					var r []c03Label
					if rng.Chance(80) {
						r = append(r, c03Label{"name", h.Pick(rng, []string{"host1", "host2"})})
					}
					if rng.Chance(80) {
						r = append(r, c03Label{"type", "host"})
					}
					s.Resources = append(s.Resources, r)
				}
			}
			for j := c03Count(rng, maxEntries); j > 0; j-- {
				s.Points = append(s.Points, rDDPoint{c03TsNs(rng) / 1000000000, c03Float(rng)})
			}
			d.DDSeries = append(d.DDSeries, s)
		}
	case "otlp":
		for i := 0; i < ns; i++ {
			r := rOtlpRes{HasRes: rng.Chance(85)}
			if r.HasRes {
				r.Attrs = c03GenOtlpAttrs(rng, 3)
			}
			for j := rng.Range(0, 2); j > 0; j-- {
				s := rOtlpScope{HasScope: rng.Chance(80)}
				if s.HasScope {
					s.Attrs = c03GenOtlpAttrs(rng, 2)
				}
				for k := c03Count(rng, maxEntries/2+1); k > 0; k-- {
					rec := rOtlpRec{Ts: uint64(c03TsNs(rng)), Attrs: c03GenOtlpAttrs(rng, 2)}
					if rng.Chance(60) {
						rec.Sev = h.Pick(rng, []string{"INFO", "error", "é"})
					}
					switch rng.Intn(10) {
					case 0:
					case 1:
						rec.Body = &otlpCommon.AnyValue{Value: &otlpCommon.AnyValue_IntValue{IntValue: 5}}
					default:
						rec.Body = &otlpCommon.AnyValue{Value: &otlpCommon.AnyValue_StringValue{StringValue: c03Line(rng, false)}}
					}
					s.Recs = append(s.Recs, rec)
				}
				r.Scopes = append(r.Scopes, s)
			}
			d.Otlp = append(d.Otlp, r)
		}
	}
	return d
}

// c03GenBig: a document that crosses the byte threshold (and, for remote write, the point limit several times).
// exact > 0: the first stream is sized so that the builder's byte count after it is exactly `exact`.
func c03GenBig(proto string, rng *h.Rng, exact int) *c03Doc {
	d := &c03Doc{Proto: proto}
	bigLine := func(n int) string {
		b := make([]byte, n)
		for i := range b {
			b[i] = byte('a' + rng.Intn(26))
		}
		return string(b)
	}
	nBig := 150 + rng.Intn(40)
	switch proto {
	case "loki", "lokiproto":
		ls := []c03Label{{"app", "big"}, {"n", c03Text(rng, 5, c03PlainRunes)}}
		var lines []string
		if exact > 0 {
			// bytes after the first stream = Σ(len+26) + 14 + len(label document)
			rest := exact - 14 - c03EncLen(ls)
			n := 130
			per := rest/n - 26
			for i := 0; i < n; i++ {
				lines = append(lines, bigLine(per))
			}
			got := n * (per + 26)
			lines[0] += bigLine(rest - got)
		} else {
			for i := 0; i < nBig; i++ {
				lines = append(lines, bigLine(7000+rng.Intn(2000)))
			}
		}
		ts := c03TsNs(rng) / c03Day * c03Day
		if proto == "loki" {
			s := rLokiStream{Labels: ls, layout: rng.Intn(2) * 2}
			for i, l := range lines {
				l := l
				s.Entries = append(s.Entries, rLokiEntry{Ts: ts + int64(i), Line: &l, tsKey: "ts"})
			}
			l2 := "tail"
			d.Loki = []rLokiStream{s, {Labels: []c03Label{{"app", "small"}}, Entries: []rLokiEntry{{Ts: ts, Line: &l2}}, layout: 0}}
			if exact == 0 {
				d.Loki = append(d.Loki, c03Gen(proto, rng, 3, 10).Loki...)
				d.Loki = append(d.Loki, s)
			}
		} else {
			s := rProtoStream{Labels: ls}
			for i, l := range lines {
				s.Entries = append(s.Entries, rProtoEntry{ts / 1000000000, int32(i), l})
			}
			d.Proto2 = []rProtoStream{s, {Labels: []c03Label{{"app", "small"}}, Entries: []rProtoEntry{{ts / 1000000000, 0, "tail"}}}}
			if exact == 0 {
				d.Proto2 = append(d.Proto2, c03Gen(proto, rng, 3, 10).Proto2...)
				d.Proto2 = append(d.Proto2, s)
			}
		}
	case "prom":
		// 26 bytes per sample: ≥ 40330 samples cross 1 MiB; the point limit is crossed many times, with series
		// boundaries falling before, on and after a multiple of the limit
		ts := c03TsNs(rng) / 1000000
		mk := func(name string, n int) rPromSeries {
			s := rPromSeries{Labels: []c03Label{{"__name__", name}, {"job", "j"}}}
			for i := 0; i < n; i++ {
				s.Samples = append(s.Samples, rPromSample{ts + int64(i), float64(i)})
			}
			return s
		}
		d.Prom = []rPromSeries{mk("a", 600), mk("b", 600), mk("c", 0), mk("d", 799), mk("e", 1), mk("f", 1000), mk("g", 41000+rng.Intn(500)), mk("a", 3), mk("h", 2001)}
	case "influx":
		ts := c03TsNs(rng)
		for i := 0; i < nBig; i++ {
			d.Influx = append(d.Influx, rInfluxPoint{Name: "biglog", Tags: []c03Label{{"host", "h"}}, Ts: ts + int64(i), Fields: []rInfluxField{{K: "message", Kind: 's', S: bigLine(7000 + rng.Intn(2000))}}})
			if i%10 == 0 {
				d.Influx = append(d.Influx, rInfluxPoint{Name: "cpu", Tags: []c03Label{{"host", "h"}}, Ts: ts + int64(i), Fields: []rInfluxField{{K: "idle", Kind: 'f', F: float64(i)}}})
			}
		}
	case "ddlogs":
		ts := c03TsNs(rng)/1000000 + 1
		for i := 0; i < nBig; i++ {
			e := rDDLog{Message: bigLine(7000 + rng.Intn(2000)), TsMs: ts + int64(i), Service: "api"}
			if i%7 == 0 {
				e.SourceType = "st"
			}
			d.DDLogs = append(d.DDLogs, e)
		}
	case "ddseries":
		m := "big.metric"
		s := rDDSeries{Metric: &m}
		ts := c03TsNs(rng) / 1000000000
		for i := 0; i < 41000+rng.Intn(500); i++ {
			s.Points = append(s.Points, rDDPoint{ts + int64(i%100000), float64(i)})
		}
		m2 := "small.metric"
		d.DDSeries = []rDDSeries{{Metric: &m2, Points: []rDDPoint{{ts, 1}}}, s, {Metric: &m2, Points: []rDDPoint{{ts + 1, 2}}}}
	case "otlp":
		ts := uint64(c03TsNs(rng))
		sc := rOtlpScope{HasScope: true}
		for i := 0; i < nBig; i++ {
			sc.Recs = append(sc.Recs, rOtlpRec{Ts: ts + uint64(i), Sev: "INFO", Body: &otlpCommon.AnyValue{Value: &otlpCommon.AnyValue_StringValue{StringValue: bigLine(7000 + rng.Intn(2000))}}})
		}
		d.Otlp = []rOtlpRes{{HasRes: true, Attrs: []*otlpCommon.KeyValue{{Key: "service.name", Value: &otlpCommon.AnyValue{Value: &otlpCommon.AnyValue_StringValue{StringValue: "svc"}}}}, Scopes: []rOtlpScope{sc}}}
	}
	return d
}

// ---- shrinking: drop streams, halve entry lists, while `bad` keeps holding

func (d *c03Doc) clone() *c03Doc {
	c := *d
	c.Loki = append([]rLokiStream(nil), d.Loki...)
	c.Proto2 = append([]rProtoStream(nil), d.Proto2...)
	c.Prom = append([]rPromSeries(nil), d.Prom...)
	c.Influx = append([]rInfluxPoint(nil), d.Influx...)
	c.DDLogs = append([]rDDLog(nil), d.DDLogs...)
	c.DDSeries = append([]rDDSeries(nil), d.DDSeries...)
	c.Otlp = append([]rOtlpRes(nil), d.Otlp...)
	return &c
}

func (d *c03Doc) nStreams() int {
	return len(d.Loki) + len(d.Proto2) + len(d.Prom) + len(d.Influx) + len(d.DDLogs) + len(d.DDSeries) + len(d.Otlp)
}

func cut[T any](s []T, lo, hi int) []T { return append(append([]T(nil), s[:lo]...), s[hi:]...) }

func (d *c03Doc) dropStreams(lo, hi int) *c03Doc {
	c := d.clone()
	switch d.Proto {
	case "loki":
		c.Loki = cut(c.Loki, lo, hi)
	case "lokiproto":
		c.Proto2 = cut(c.Proto2, lo, hi)
	case "prom":
		c.Prom = cut(c.Prom, lo, hi)
	case "influx":
		c.Influx = cut(c.Influx, lo, hi)
	case "ddlogs":
		c.DDLogs = cut(c.DDLogs, lo, hi)
	case "ddseries":
		c.DDSeries = cut(c.DDSeries, lo, hi)
	case "otlp":
		c.Otlp = cut(c.Otlp, lo, hi)
	}
	return c
}

func (d *c03Doc) nEntries(i int) int {
	switch d.Proto {
	case "loki":
		return len(d.Loki[i].Entries)
	case "lokiproto":
		return len(d.Proto2[i].Entries)
	case "prom":
		return len(d.Prom[i].Samples)
	case "ddseries":
		return len(d.DDSeries[i].Points)
	case "influx":
		return len(d.Influx[i].Fields)
	case "otlp":
		return len(d.Otlp[i].Scopes)
	}
	return 0
}

func (d *c03Doc) dropEntries(i, lo, hi int) *c03Doc {
	c := d.clone()
	switch d.Proto {
	case "loki":
		c.Loki[i].Entries = cut(c.Loki[i].Entries, lo, hi)
	case "lokiproto":
		c.Proto2[i].Entries = cut(c.Proto2[i].Entries, lo, hi)
	case "prom":
		c.Prom[i].Samples = cut(c.Prom[i].Samples, lo, hi)
	case "ddseries":
		c.DDSeries[i].Points = cut(c.DDSeries[i].Points, lo, hi)
	case "influx":
		c.Influx[i].Fields = cut(c.Influx[i].Fields, lo, hi)
		if len(c.Influx[i].Fields) == 0 {
			return nil
		}
	case "otlp":
		c.Otlp[i].Scopes = cut(c.Otlp[i].Scopes, lo, hi)
	}
	return c
}

func c03Shrink(d *c03Doc, bad func(*c03Doc) bool) *c03Doc {
	budget := 400
	try := func(c *c03Doc) bool {
		if c == nil || budget <= 0 {
			return false
		}
		budget--
		return bad(c)
	}
	for changed := true; changed && budget > 0; {
		changed = false
		for size := d.nStreams(); size >= 1; size /= 2 {
			for lo := 0; lo+size <= d.nStreams(); {
				if c := d.dropStreams(lo, lo+size); try(c) {
					d, changed = c, true
				} else {
					lo += size
				}
			}
		}
		for i := 0; i < d.nStreams(); i++ {
			for size := d.nEntries(i); size >= 1; size /= 2 {
				for lo := 0; lo+size <= d.nEntries(i); {
					if c := d.dropEntries(i, lo, lo+size); try(c) {
						d, changed = c, true
					} else {
						lo += size
					}
				}
			}
		}
	}
	return d
}
