package main

// C12 correspondence streams: the REAL planners / controllers against the Lean model (driver ops c12*).
// Everything that may fault runs in the child process; the parent computes the model's inputs.

import (
	"context"
	"database/sql/driver"
	"fmt"
	"math"
	"net/url"
	"os"
	"regexp"
	"sort"
	"strconv"
	"strings"
	"time"

	"github.com/metrico/qryn/reader/logql/logql_parser"
	"github.com/metrico/qryn/reader/logql/logql_transpiler_v2"
	"github.com/metrico/qryn/reader/logql/logql_transpiler_v2/internal_planner"
	"github.com/metrico/qryn/reader/logql/logql_transpiler_v2/shared"
	qmodel "github.com/metrico/qryn/reader/model"
	"github.com/metrico/qryn/reader/service"
	sql "github.com/metrico/qryn/reader/utils/sql_select"
	prommodel "github.com/prometheus/common/model"
	fakes "verif/harness/fakes12"
	"verif/harness/h"
)

type c12StageCase struct {
	Kind    string     `json:"kind"` // fix | lra | aggop | limit | scan
	From    int64      `json:"from"`
	To      int64      `json:"to"`
	Step    int64      `json:"step"`
	Dur     int64      `json:"dur"`
	Entries [][3]int64 `json:"entries,omitempty"` // fingerprint, timestamp, value
	Batch   int        `json:"batch,omitempty"`   // entries per incoming batch
	Limit   int64      `json:"limit,omitempty"`
	Sizes   []int      `json:"sizes,omitempty"`
	Events  string     `json:"events,omitempty"`
	// kind "consumer": scanner → exporter → a consumer (the handler's role, played by the harness) that leaves after K chunks
	Fps    []int  `json:"fps,omitempty"`    // fingerprint of each row the database returns
	BadAt  int    `json:"bad_at,omitempty"` // 1-based position of a row that fails to scan (0: none)
	Policy string `json:"policy,omitempty"` // d = keeps draining, c = cancels the context and returns, a = just returns
	K      int    `json:"k,omitempty"`
}

// fakeProc: a RequestProcessor that emits prepared batches and closes
type fakeProc struct {
	batches [][]shared.LogEntry
	matrix  bool
	out     chan []shared.LogEntry // the channel handed out (kind stagedrain releases a blocked sender through it)
	done    chan struct{}          // closed when the sender has sent everything and closed `out`
}

func (f *fakeProc) IsMatrix() bool { return f.matrix }
func (f *fakeProc) Process(ctx *shared.PlannerContext, in chan []shared.LogEntry) (chan []shared.LogEntry, error) {
	out := make(chan []shared.LogEntry)
	f.out, f.done = out, make(chan struct{})
	go func() {
		defer close(f.done)
		defer close(out)
		for _, b := range f.batches {
			out <- b
		}
	}()
	return out, nil
}

func c12Batches(st *c12StageCase) [][]shared.LogEntry {
	var res [][]shared.LogEntry
	n := st.Batch
	if n <= 0 {
		n = 100
	}
	for i := 0; i < len(st.Entries); i += n {
		j := i + n
		if j > len(st.Entries) {
			j = len(st.Entries)
		}
		var b []shared.LogEntry
		for _, e := range st.Entries[i:j] {
			b = append(b, shared.LogEntry{Fingerprint: uint64(e[0]), TimestampNS: e[1], Value: float64(e[2]), Labels: map[string]string{"a": "b"}, Message: "m"})
		}
		res = append(res, b)
	}
	return res
}

type fakeSQLPlanner struct{}

func (fakeSQLPlanner) Process(ctx *shared.PlannerContext) (sql.ISelect, error) {
	return sql.NewSelect().Select(sql.NewRawObject("1")), nil
}

// runStage executes one direct-stage case on the real code and renders the result in the model's line format
func (c *c12Child) runStage(cs *c12Case) c12Outcome {
	o := c12Outcome{ID: cs.ID, Outcome: "answered"}
	st := cs.Stage
	before := c12Census()
	done := make(chan string, 1)
	go func() { done <- c12RunStage(st, c.db) }()
	select {
	case s := <-done:
		o.StageOut = s
	case <-time.After(c.deadline):
		o.Outcome = "hang"
		o.Dump = qrynDump()
		return o
	}
	t0 := time.Now()
	for {
		now := c12Census()
		var leaked []string
		for id, top := range now {
			if _, ok := before[id]; !ok && !c.known[id] {
				leaked = append(leaked, top)
			}
		}
		if len(leaked) == 0 {
			break
		}
		if time.Since(t0) > c.settle {
			sort.Strings(leaked)
			o.Leaked = leaked
			for id := range now {
				c.known[id] = true
			}
			break
		}
		time.Sleep(2 * time.Millisecond)
	}
	return o
}

func c12RunStage(st *c12StageCase, db *fakes.ReaderDB) string {
	ctx := &shared.PlannerContext{From: time.Unix(0, st.From), To: time.Unix(0, st.To), Step: time.Duration(st.Step), Ctx: context.Background()}
	switch st.Kind {
	case "fix":
		pl := &logql_transpiler_v2.FixPeriodPlanner{Main: &fakeProc{batches: c12Batches(st), matrix: true}, Duration: time.Duration(st.Dur)}
		out, err := pl.Process(ctx, nil)
		if err != nil {
			return "refused"
		}
		var series []string
		for b := range out {
			if len(b) == 0 {
				continue
			}
			var pts []string
			for _, e := range b {
				pts = append(pts, fmt.Sprintf("%d=%d", e.TimestampNS, int64(e.Value)))
			}
			series = append(series, fmt.Sprintf("%d@%s", b[0].Fingerprint, strings.Join(pts, ",")))
		}
		if len(series) == 0 {
			return "ok -"
		}
		return "ok " + strings.Join(series, ";")
	case "lra", "aggop":
		var pl shared.RequestProcessor
		agg := internal_planner.AggregatorPlanner{GenericPlanner: internal_planner.GenericPlanner{Main: &fakeProc{batches: c12Batches(st)}}, Duration: time.Duration(st.Dur)}
		if st.Kind == "lra" {
			pl = &internal_planner.LRAPlanner{AggregatorPlanner: agg, Func: "count_over_time"}
		} else {
			pl = &internal_planner.AggOpPlanner{AggregatorPlanner: agg, Func: "count"}
		}
		out, err := pl.Process(ctx, nil)
		if err != nil {
			return "refused"
		}
		streamLen := (st.To - st.From) / st.Dur
		counts := make([]int64, streamLen)
		idx := int64(-1)
		for b := range out {
			for _, e := range b {
				if e.Err != nil {
					s := e.Err.Error()
					for range out {
					}
					return "fault:" + c12ClassOf(s)
				}
				i := (e.TimestampNS - st.From) / st.Dur
				if i >= 0 && i < streamLen {
					counts[i] = int64(e.Value)
					idx = i
				}
			}
		}
		if st.Kind == "aggop" {
			if idx < 0 {
				return "skip"
			}
			return fmt.Sprintf("ok %d", idx*2)
		}
		parts := make([]string, len(counts))
		for i, v := range counts {
			parts[i] = fmt.Sprint(v)
		}
		return "ok " + strings.Join(parts, ",")
	case "limit":
		var batches [][]shared.LogEntry
		for _, n := range st.Sizes {
			batches = append(batches, make([]shared.LogEntry, n))
		}
		cancelled := false
		ctx.Limit = st.Limit
		ctx.CancelCtx = func() { cancelled = true }
		pl := &internal_planner.LimitPlanner{GenericPlanner: internal_planner.GenericPlanner{Main: &fakeProc{batches: batches}}}
		out, err := pl.Process(ctx, nil)
		if err != nil {
			return "refused"
		}
		var ks []string
		for b := range out {
			ks = append(ks, fmt.Sprint(len(b)))
		}
		res := "ok -"
		if len(ks) > 0 {
			res = "ok " + strings.Join(ks, ",")
		}
		if cancelled {
			res += " cancel"
		}
		return res
	case "consumer":
		var rows [][]driver.Value
		for i, fp := range st.Fps {
			if i+1 == st.BadAt {
				rows = append(rows, []driver.Value{"not-a-number", map[string]string{"a": "b"}, "m", int64(5)})
				continue
			}
			rows = append(rows, []driver.Value{uint64(fp), map[string]string{"a": "b"}, "m", st.From + int64(i)})
		}
		db.SetScript(fakes.Script{Answers: []fakes.Answer{fakes.Rows(nil, rows...)}, Tables: []string{"samples_v3", "time_series"}})
		svc := service.NewQueryRangeService(&qmodel.ServiceData{Session: db.Registry(false)})
		cctx, cancel := context.WithCancel(context.Background())
		defer cancel()
		before := c12Census()
		ch, err := svc.QueryRange(cctx, `{a="b"}`, st.From, st.To, 1000, 0, true)
		if err != nil {
			return "refused " + err.Error()
		}
		delivered, closed := 0, false
	recv:
		for delivered < st.K {
			select {
			case _, ok := <-ch:
				if !ok {
					closed = true
					break recv
				}
				delivered++
			case <-time.After(c12Slow * 2 * time.Second):
				return fmt.Sprintf("producer-stuck %d", delivered)
			}
		}
		if !closed {
			switch st.Policy {
			case "d":
				for range ch {
				}
			case "c":
				cancel()
			}
		}
		// do the goroutines of the request end?
		pending := func() int {
			n := 0
			for id := range c12Census() {
				if _, ok := before[id]; !ok {
					n++
				}
			}
			return n
		}
		// "blocked" = after 500 ms every remaining goroutine of the request is parked in a wait that only another goroutine
		// can end, twice in a row; goroutines that are merely late (busy machine) get up to 2 s (x the slow factor)
		verdict := "final"
		parkedTwice := 0
		for t0 := time.Now(); pending() > 0; time.Sleep(2 * time.Millisecond) {
			if time.Since(t0) > 500*time.Millisecond {
				if n, parked := c12PendingStates(before); n > 0 && parked {
					parkedTwice++
				} else {
					parkedTwice = 0
				}
				if parkedTwice >= 2 || time.Since(t0) > c12Slow*2*time.Second {
					verdict = "blocked"
					break
				}
				time.Sleep(50 * time.Millisecond)
			}
		}
		if verdict == "blocked" {
			// the comparison is made; now let them go (the outer census must find the child clean)
			go func() {
				for range ch {
				}
			}()
			for t0 := time.Now(); pending() > 0 && time.Since(t0) < c12Slow*10*time.Second; time.Sleep(2 * time.Millisecond) {
			}
		}
		return fmt.Sprintf("%s %d", verdict, delivered)
	case "stagedrain":
		// fake upstream → the REAL aggregator stage (LRAPlanner over GenericPlanner.WrapProcess) → read its output to the end.
		// Sizes = entries per upstream batch; BadAt (1-based) = the batch whose last entry is an error entry: the stage stops
		// there. Does the upstream's sender still finish?
		var batches [][]shared.LogEntry
		for bi, n := range st.Sizes {
			b := make([]shared.LogEntry, 0, n+1)
			for k := 0; k < n; k++ {
				b = append(b, shared.LogEntry{Fingerprint: 7, TimestampNS: st.From + int64(k), Labels: map[string]string{"a": "b"}, Message: "m"})
			}
			if bi+1 == st.BadAt {
				b = append(b, shared.LogEntry{Err: fmt.Errorf("scripted upstream error")})
			}
			batches = append(batches, b)
		}
		up := &fakeProc{batches: batches}
		agg := internal_planner.AggregatorPlanner{GenericPlanner: internal_planner.GenericPlanner{Main: up}, Duration: time.Duration(st.Dur)}
		pl := &internal_planner.LRAPlanner{AggregatorPlanner: agg, Func: "count_over_time"}
		before := c12Census()
		out, err := pl.Process(ctx, nil)
		if err != nil {
			return "refused"
		}
		for range out {
		}
		_ = before
		// the stage's output is closed: its goroutine is on its way out. The upstream's sender (a goroutine of the harness,
		// not in the census) has either finished or is parked in a send nobody will receive. A clock decides: 600 ms
		// (x the slow factor of a confirmation run)
		verdict := "final"
		select {
		case <-up.done:
		case <-time.After(c12Slow * 600 * time.Millisecond):
			verdict = "blocked"
		}
		if verdict == "blocked" {
			// the comparison is made; release the sender so that the child stays clean
			go func() {
				for range up.out {
				}
			}()
			<-up.done
		}
		return verdict
	case "scan":
		var rows [][]driver.Value
		for _, ev := range st.Events {
			switch ev {
			case 'r':
				rows = append(rows, []driver.Value{uint64(1), map[string]string{"a": "b"}, "m", int64(5)})
			case 'e':
				rows = append(rows, []driver.Value{"not-a-number", map[string]string{"a": "b"}, "m", int64(5)})
			}
		}
		db.SetScript(fakes.Script{Answers: []fakes.Answer{fakes.Rows(nil, rows...)}})
		ctx.CHDb, ctx.CHSqlCtx = db.Session(), sql.DefaultCtx()
		pl := &shared.ClickhouseGetterPlanner{ClickhouseRequestPlanner: fakeSQLPlanner{}, Matrix: false}
		out, err := pl.Process(ctx, nil)
		if err != nil {
			return "refused"
		}
		var ks []string
		for b := range out {
			ks = append(ks, fmt.Sprint(len(b)))
		}
		return "ok " + strings.Join(ks, ",")
	}
	return "bad-kind"
}

// ---- parent side

func c12i64s(xs []int64) string {
	if len(xs) == 0 {
		return "-"
	}
	p := make([]string, len(xs))
	for i, x := range xs {
		p[i] = fmt.Sprint(x)
	}
	return strings.Join(p, ",")
}

func c12EntriesArg(es [][3]int64) string {
	if len(es) == 0 {
		return "-"
	}
	p := make([]string, len(es))
	for i, e := range es {
		p[i] = fmt.Sprintf("%d:%d:%d", e[0], e[1], e[2])
	}
	return strings.Join(p, ",")
}

// boundary-biased int64
func c12Big(r *h.Rng) int64 {
	return h.Pick(r, []int64{0, 1, -1, 1000000000, 60000000000, 9223372036854775807, -9223372036854775808, 9223372036000000000, -9223372036000000000, 4611686018427387904, 1 << 62, 1700000000000000000})
}

func c12GenFix(r *h.Rng) *c12StageCase {
	st := &c12StageCase{Kind: "fix", Batch: h.Pick(r, []int{1, 2, 100})}
	unit := int64(1000000000)
	st.From = c12Base * unit
	span := h.Pick(r, []int64{0, 1, 30, 59, 60, 61, 300, 3600}) * unit
	st.To = st.From + span
	st.Step = h.Pick(r, []int64{1, 5, 15, 30, 60, 7}) * unit
	st.Dur = h.Pick(r, []int64{1, 5, 15, 60, 90, 7}) * unit
	switch r.Intn(12) {
	case 0:
		st.Step = h.Pick(r, []int64{0, -1, -15 * unit})
	case 1:
		st.Dur = h.Pick(r, []int64{0, -1, -60 * unit})
	case 2:
		st.From, st.To = st.To+unit, st.From
	case 3:
		st.From, st.To, st.Step, st.Dur = c12Big(r), c12Big(r), c12Big(r), c12Big(r)
	case 4:
		// int64 overflow of the bucket range (the witness of the inversion defect) and its neighbours
		st.From, st.To, st.Step, st.Dur = -9223372036000000000, 0, 9223372036000000000+int64(r.Intn(3))-1, 9223372036854775807-int64(r.Intn(2))
	case 5:
		st.Step = 1 // many points: around the cap
		st.To = st.From + h.Pick(r, []int64{9999998, 9999999, 10000000, 10000001})
	}
	n := h.Pick(r, []int{0, 1, 2, 5, 12})
	if st.Step == 1 {
		n = 0 // only the refusal boundary: a 10^7-point series would be printed point by point
	}
	fp := int64(r.Intn(3)) // fingerprint 0 first happens
	for i := 0; i < n; i++ {
		if r.Chance(30) {
			fp = int64(r.Intn(4))
		}
		var ts int64
		switch r.Intn(8) {
		case 0:
			ts = st.From - 1
		case 1:
			ts = st.To
		case 2:
			ts = st.From
		case 3:
			ts = c12Big(r)
		default:
			if st.To > st.From && st.To-st.From > 0 {
				ts = st.From + int64(r.U64()%uint64(st.To-st.From))
			} else {
				ts = st.From + int64(r.Intn(100))
			}
		}
		st.Entries = append(st.Entries, [3]int64{fp, ts, int64(r.Intn(4))})
	}
	return st
}

func c12GenAgg(r *h.Rng, kind string) *c12StageCase {
	unit := int64(1000000000)
	st := &c12StageCase{Kind: kind, Batch: 100, From: c12Base * unit}
	st.Dur = h.Pick(r, []int64{1, 5, 10, 60, 7}) * unit
	st.To = st.From + int64(r.Range(0, 12))*st.Dur + int64(r.Intn(2))*int64(r.Intn(int(st.Dur/unit)))*unit
	n := r.Range(1, 8)
	if kind == "aggop" {
		n = 1
	}
	for i := 0; i < n; i++ {
		var ts int64
		switch r.Intn(8) {
		case 0:
			ts = st.To
		case 1:
			ts = st.To - 1
		case 2:
			ts = st.From - 1
		case 3:
			ts = st.From - st.Dur
		case 4:
			ts = st.To + st.Dur
		case 5:
			ts = c12Big(r)
		default:
			ts = st.From + int64(r.U64()%uint64(st.To-st.From+1))
		}
		st.Entries = append(st.Entries, [3]int64{7, ts, 1})
	}
	return st
}

func c12StageOp(st *c12StageCase) string {
	if st.Kind == "stagedrain" {
		bs := make([]string, len(st.Sizes))
		for i := range st.Sizes {
			bs[i] = c12b01(i+1 == st.BadAt)
		}
		if len(bs) == 0 {
			return "c12sdrain -"
		}
		return "c12sdrain " + strings.Join(bs, ",")
	}
	switch st.Kind {
	case "fix":
		return fmt.Sprintf("c12fix %d %d %d %d %s", st.From, st.To, st.Step, st.Dur, c12EntriesArg(st.Entries))
	case "lra":
		var tss []int64
		for _, e := range st.Entries {
			tss = append(tss, e[1])
		}
		return fmt.Sprintf("c12lra %d %d %d %s", st.From, st.Dur, 2*((st.To-st.From)/st.Dur), c12i64s(tss))
	case "aggop":
		return fmt.Sprintf("c12aggop %d %d %d %d", st.From, st.Dur, 2*((st.To-st.From)/st.Dur), st.Entries[0][1])
	case "limit":
		var ns []int64
		for _, n := range st.Sizes {
			ns = append(ns, int64(n))
		}
		return fmt.Sprintf("c12limit %d %s", st.Limit, c12i64s(ns))
	case "consumer":
		// what the exporter sends per batch the scanner hands it (100 entries per batch; the last one carries the EOF or
		// the error entry): one chunk per log line, one more when the fingerprint changes, the opening chunk with the
		// first batch; an error entry → the error chunk and nothing after it
		var batches []string
		cnt, inBatch, lastFp, any := 1, 0, 0, false
		end := ""
		for i, fp := range st.Fps {
			if i+1 == st.BadAt {
				cnt++
				end = "e"
				break
			}
			if any && fp != lastFp {
				cnt++
			}
			cnt++
			lastFp, any = fp, true
			inBatch++
			if inBatch == 100 {
				batches = append(batches, fmt.Sprint(cnt))
				cnt, inBatch = 0, 0
			}
		}
		batches = append(batches, fmt.Sprint(cnt)+end)
		return fmt.Sprintf("c12hstop %s %d %s", st.Policy, st.K, strings.Join(batches, ","))
	case "scan":
		if st.Events == "" {
			return "c12scan 100"
		}
		ev := st.Events
		if i := strings.IndexByte(ev, 'e'); i >= 0 {
			ev = ev[:i+1] // the scanner returns at the first scan error
		}
		return "c12scan 100 " + ev
	}
	return "bad"
}

// ---- parameter ties (HTTP through the child, model fed with what the stdlib parsers make of the strings)

func c12ParsedFloatI64(s string) string {
	if s == "" {
		return "a"
	}
	f, err := strconv.ParseFloat(s, 64)
	if err != nil {
		return "i"
	}
	return fmt.Sprint(int64(f))
}

// c12StepMs: what getRequiredDuration + int64(step*1000) make of the step string ("" → absent)
func c12StepMs(s string) string {
	if s == "" {
		return "a"
	}
	var d time.Duration
	if f, err := strconv.ParseFloat(s, 64); err == nil {
		ts := f * float64(time.Second)
		if ts > float64(math.MaxInt64) || ts < float64(math.MinInt64) {
			return "i"
		}
		d = time.Duration(ts)
	} else if md, err := prommodel.ParseDuration(s); err == nil {
		d = time.Duration(md)
	} else {
		return "i"
	}
	step := float64(d.Nanoseconds()) / 1e9
	return fmt.Sprint(int64(step * 1000))
}

type c12PlanFacts struct {
	parseOk, matrix bool
	rangeDur        int64
	aggDur          string
}

func c12Plan(query string) c12PlanFacts {
	f := c12PlanFacts{aggDur: "-"}
	script, err := logql_parser.Parse(query)
	if err != nil {
		return f
	}
	chain, err := logql_transpiler_v2.Plan(script)
	if err != nil {
		return f
	}
	f.parseOk, f.matrix = true, chain[0].IsMatrix()
	// Plan mutates the script (breakScript): parse again for the facts
	script, _ = logql_parser.Parse(query)
	d, _ := shared.GetDuration(script)
	f.rangeDur = d.Nanoseconds()
	bp, _ := logql_transpiler_v2.GetBreakpoint(script)
	if f.matrix && bp != logql_transpiler_v2.BreakpointNo {
		f.aggDur = fmt.Sprint(f.rangeDur)
	}
	return f
}

var c12TieQueries = []string{`{a="b"}`, `rate({a="b"}[1m])`, `rate({a="b"}[0s])`, `count_over_time({a="b"} | json [5s])`,
	`sum by (a) (count_over_time({a="b"} | json [5s]))`, `count_over_time({a="b"} | json [0s])`, `bad query(`, `{a="b"} | json`, `count_over_time({a="b"} | logfmt [1ms])`,
	`rate({a="b"}[9223372036854775807ns])`}

func c12b01(b bool) string {
	if b {
		return "1"
	}
	return "0"
}

func c12GenQR(r *h.Rng, id int, instant bool) (*c12Case, string) {
	query := h.Pick(r, c12TieQueries)
	if r.Chance(4) {
		query = ""
	}
	pf := c12Plan(query)
	w := c12Window(r)
	if pf.aggDur != "-" && pf.rangeDur > 0 && pf.rangeDur < 1000000000 && (w.to-w.from > 300 || w.to < w.from) {
		w.to = w.from + 300 // keep the aggregator's slice small (memory is outside the model; see KNOWN_FINDINGS)
	}
	step, _ := c12Step(r)
	if pf.rangeDur > 3600000000000 && pf.matrix {
		// one row fills the whole window: keep the response small (millions of points per series are slow, not wrong)
		step = h.Pick(r, []string{"", "0", "-1", "15", "60", "1m", "abc"})
	}
	mainFails := r.Chance(10)
	nrows := h.Pick(r, []int{0, 1, 3})
	cs := &c12Case{ID: id, Method: "GET", Abort: -1, Query: query, From: w.from * 1e9, To: w.to * 1e9,
		Answers: []c12Answer{{Shape: "auto", N: nrows, Seed: r.U64(), QueryErr: mainFails}}}
	v := url.Values{}
	if query != "" {
		v.Set("query", query)
	}
	if step != "" {
		v.Set("step", step)
	}
	rows := "-"
	if nrows > 0 {
		rows = "7:0:1" // rows only matter through `rows ≠ []` (first row allocates the aggregator's slice)
	}
	var op string
	if !instant {
		cs.Endpoint = "loki/query_range"
		start, end := c12TimeStr(r, w.from, 1e9, w.class), c12TimeStr(r, w.to, 1e9, w.class)
		if r.Chance(5) {
			start = ""
		}
		if start != "" {
			v.Set("start", start)
		}
		if end != "" {
			v.Set("end", end)
		}
		cs.Path = "/loki/api/v1/query_range?" + v.Encode()
		op = fmt.Sprintf("c12qr %s %s %s %s %s %s %d %s 0 %s %s", c12b01(query == ""), c12ParsedFloatI64(start), c12ParsedFloatI64(end), c12StepMs(step),
			c12b01(pf.parseOk), c12b01(pf.matrix), pf.rangeDur, pf.aggDur, c12b01(mainFails), rows)
	} else {
		cs.Endpoint = "loki/query"
		t := h.Pick(r, []string{"", "0", fmt.Sprint(c12Base * 1e9), "1", "-1", "abc", "1.5", "9223372036854775807", "300000000000", "299999999999"})
		if t != "" {
			v.Set("time", t)
		}
		cs.Path = "/loki/api/v1/query?" + v.Encode()
		tp := "a"
		if t != "" {
			if n, err := strconv.ParseInt(t, 10, 64); err == nil {
				tp = fmt.Sprint(n)
			} else {
				tp = "i"
			}
		}
		// time absent or 0 → time.Now(): the model gets an instant of the same kind (a present-day timestamp)
		op = fmt.Sprintf("c12qi %s %s %d %s %s %s %d %s 0 %s %s", c12b01(query == ""), tp, time.Now().UnixNano(), c12StepMs(step),
			c12b01(pf.parseOk), c12b01(pf.matrix), pf.rangeDur, pf.aggDur, c12b01(mainFails), rows)
	}
	cs.Class = "tie"
	return cs, op
}

func c12GenTrace(r *h.Rng, id int) (*c12Case, string) {
	n := h.Pick(r, []int{1, 2, 15, 16, 31, 32, 33, 63, 64, 65, 66, 67, 128, 200})
	b := []byte(strings.Repeat("a", n))
	bad := "-"
	if r.Chance(40) {
		i := r.Intn(n)
		b[i] = 'z'
		bad = fmt.Sprint(i / 2)
	}
	qf := r.Chance(15)
	cs := &c12Case{ID: id, Endpoint: "tempo/trace", Method: "GET", Abort: -1, Path: "/api/traces/" + string(b), Class: "tie",
		Answers: []c12Answer{{Shape: "spans", N: 1, Seed: r.U64(), QueryErr: qf}}}
	return cs, fmt.Sprintf("c12trace %d %s %s", n, bad, c12b01(qf))
}

var c12NumRe = regexp.MustCompile("^[0-9.]+$")

// c12PromTime: ParseTimeSecOrRFC (controller/utils.go) on the raw string; ok=false → 400
func c12PromTime(raw string, def time.Time) (time.Time, bool) {
	if raw == "" {
		return def, true
	}
	if c12NumRe.MatchString(raw) {
		t, _ := strconv.ParseFloat(raw, 64)
		return time.Unix(int64(t), 0), true
	}
	t, err := time.Parse(time.RFC3339, raw)
	return t, err == nil
}

// c12GenPromQR: Prometheus query_range with a query the engine accepts; the model decides everything up to the engine
func c12GenPromQR(r *h.Rng) (*c12Case, string) {
	w := c12Window(r)
	start := c12TimeStr(r, w.from, 1, w.class)
	end := c12TimeStr(r, w.to, 1, w.class)
	step, _ := c12Step(r)
	v := url.Values{"query": {"up"}}
	if start != "" {
		v.Set("start", start)
	}
	if end != "" {
		v.Set("end", end)
	}
	if step != "" {
		v.Set("step", step)
	}
	cs := &c12Case{Endpoint: "prom/query_range", Method: "GET", Abort: -1, Path: "/api/v1/query_range?" + v.Encode(), Class: "tie", Query: "up",
		From: w.from * 1e9, To: w.to * 1e9, Answers: []c12Answer{{Shape: "auto", N: 2, Seed: r.U64()}, {Shape: "auto", N: 1, Seed: r.U64()}}}
	now := time.Now()
	ts, ok1 := c12PromTime(start, now.Add(-6*time.Hour))
	te, ok2 := c12PromTime(end, now)
	ok := ok1 && ok2
	var stepNs int64
	if ok {
		if f, err := strconv.ParseFloat(step, 64); err == nil {
			x := f * float64(time.Second)
			if x > float64(math.MaxInt64) || x < float64(math.MinInt64) {
				ok = false
			} else {
				stepNs = int64(time.Duration(x))
			}
		} else if md, err := prommodel.ParseDuration(step); err == nil {
			stepNs = int64(time.Duration(md))
		} else {
			ok = false
		}
	}
	return cs, fmt.Sprintf("c12promqr %s %d %d %d 1 1", c12b01(ok), ts.Unix(), te.Unix(), stepNs)
}

func c12Stages(r *h.Result, rng *h.Rng, tier string) error {
	n := 150
	if tier != "quick" {
		n = 3000
	}
	r.Stream("fix: real FixPeriodPlanner.Process (fake upstream) vs Read.fixProcess — refusal, exported (fingerprint, timestamp, value) series")
	r.Stream("agg: real LRAPlanner(count_over_time) / AggOpPlanner(count) bucket counts vs Read.lraCount / aggOpAddValue")
	r.Stream("limit: real LimitPlanner batch sizes + cancel vs Read.limitRun; scan: real ClickhouseGetterPlanner.Scan batch sizes vs Read.scanLoop")
	r.Stream("consumer: real ClickhouseGetterPlanner.Scan → real QueryRangeService exporter (QueryRange on a stream selector) → a consumer that leaves after k chunks and then drains / cancels the context / just returns; verdict (all goroutines of the request returned | some blocked for ever) and chunks handed over vs the executable schedule of ReadSide/PipelineHExec.lean (consumer_schedule_sound: its verdicts are statements about the transition system)")
	r.Stream("status: real routers (Loki query_range / query, Tempo trace, Prometheus query_range up to the engine) HTTP status class vs Read.lokiQueryRange / lokiQueryInstant / tempoTrace / promQueryRange fed with the stdlib parsers' outcomes and the real planner's facts")
	var cases []*c12Case
	var ops, streams []string
	add := func(stream string, cs *c12Case, op string) {
		cs.ID = len(cases)
		cases = append(cases, cs)
		ops = append(ops, op)
		streams = append(streams, stream)
	}
	stage := func(stream string, st *c12StageCase) {
		add(stream, &c12Case{Kind: "stage", Endpoint: "stage-" + st.Kind, Stage: st, Abort: -1, Class: "tie"}, c12StageOp(st))
	}
	fr := rng.Fork()
	for i := 0; i < 2*n; i++ {
		stage("fix", c12GenFix(fr))
	}
	for i := 0; i < n; i++ {
		stage("agg", c12GenAgg(fr, "lra"))
		stage("agg", c12GenAgg(fr, "aggop"))
		lim := &c12StageCase{Kind: "limit", Limit: h.Pick(fr, []int64{0, 1, 2, 5, 100, 101, -1, 9223372036854775807, -9223372036854775808})}
		for k := fr.Intn(5); k > 0; k-- {
			lim.Sizes = append(lim.Sizes, h.Pick(fr, []int{0, 1, 2, 3, 99, 100, 101}))
		}
		stage("limit", lim)
		if i%3 == 0 {
			ev := strings.Repeat("r", h.Pick(fr, []int{0, 1, 99, 100, 101, 199, 200, 250}))
			if fr.Chance(30) {
				ev += "e" + strings.Repeat("r", fr.Intn(3))
			}
			stage("scan", &c12StageCase{Kind: "scan", Events: ev})
		}
	}
	// consumer: the real scanner and exporter against a consumer that leaves after k chunks
	nc := 60
	if tier != "quick" {
		nc = 1200
	}
	for i := 0; i < nc; i++ {
		rowsN := h.Pick(fr, []int{0, 1, 2, 3, 7, 99, 100, 101, 150, 200, 230})
		st := &c12StageCase{Kind: "consumer", From: c12Base * 1e9, To: (c12Base + 3600) * 1e9, Policy: h.Pick(fr, []string{"d", "a", "a", "c"})}
		fp, nfp := 1, 1+fr.Intn(4)
		for j := 0; j < rowsN; j++ {
			if rowsN > 0 && fr.Intn(rowsN/nfp+1) == 0 {
				fp++
			}
			st.Fps = append(st.Fps, fp)
		}
		if rowsN > 0 && fr.Chance(25) {
			st.BadAt = 1 + fr.Intn(rowsN)
		}
		total := rowsN + 8
		st.K = h.Pick(fr, []int{0, 1, 2, 3, fr.Intn(total + 1), fr.Intn(total + 1), total + 50})
		stage("consumer", st)
	}
	// stagedrain: the real aggregator stage stops at an error entry of batch BadAt; does the upstream's sender finish?
	r.Stream("stagedrain: fake upstream (1–6 batches, one of them ending with an error entry) → the real LRAPlanner stage over GenericPlanner.WrapProcess → a consumer that reads to the end; verdict (all goroutines returned | upstream sender blocked for ever) vs the executable schedule over the REGENERATED code of the WrapProcess loop (StageExec.stageRun; stage_schedule_sound)")
	nd := 40
	if tier != "quick" {
		nd = 600
	}
	for i := 0; i < nd; i++ {
		st := &c12StageCase{Kind: "stagedrain", From: c12Base * 1e9, To: (c12Base + 60) * 1e9, Dur: 5e9}
		for k := 1 + fr.Intn(6); k > 0; k-- {
			st.Sizes = append(st.Sizes, h.Pick(fr, []int{0, 1, 2, 100}))
		}
		if fr.Chance(70) {
			st.BadAt = 1 + fr.Intn(len(st.Sizes))
			if fr.Chance(60) && len(st.Sizes) > 1 {
				st.BadAt = 1 + fr.Intn(len(st.Sizes)-1) // not the last batch: something is still on its way
			}
		}
		stage("stagedrain", st)
	}
	for i := 0; i < 2*n; i++ {
		cs, op := c12GenQR(fr, 0, i%3 == 2)
		add("status", cs, op)
		if i%4 == 0 {
			cs, op := c12GenTrace(fr, 0)
			add("status", cs, op)
			cs, op = c12GenPromQR(fr)
			add("status-prom", cs, op)
		}
	}
	// the remaining controllers (c12status.go)
	r.Stream("status-all: real routers, every other registered read handler (Loki labels / label values / series / tail up to the upgrade, Prometheus labels / label values / series / metadata / instant query, Tempo search / tags v1,v2 / tag values v1,v2 / echo, Pyroscope ProfileTypes / LabelNames / LabelValues / SelectMergeStacktraces / SelectSeries / SelectMergeProfile / Series / GetProfileStats / Settings / render-diff, static answers): HTTP status class vs the step models of ReadSide/Controllers.lean fed with the stdlib parsers' outcomes (ParseInt, Atoi, ParseDuration, RFC3339-or-seconds, form + schema decoding), the real query / selector parsers' verdicts and the database script")
	sgens := c12StatusGens()
	per := 12
	if tier != "quick" {
		per = 250
	}
	if os.Getenv("C12_ONLY") == "status-all" {
		cases, ops, streams = nil, nil, nil
		per *= 4
	}
	for _, g := range sgens {
		gr := fr.Fork()
		for i := 0; i < per; i++ {
			cs, op := g.gen(gr)
			cs.Class = "tie"
			add("status-all", cs, op)
		}
	}
	js, err := c12RunCases(cases, tier, 4)
	if err != nil {
		return err
	}
	if f := os.Getenv("C12_DUMP_OPS"); f != "" {
		os.WriteFile(f, []byte(strings.Join(ops, "\n")+"\n"), 0o644)
	}
	model, err := h.Model(ops)
	if err != nil {
		return err
	}
	drainLeakReported := false
	for i, j := range js {
		r.Case("tie:"+ops[i], true)
		r.Count("tie:" + streams[i])
		c12Judge(r, j, tier, true)
		if j.o == nil || j.o.Outcome == "hang" || j.o.Outcome == "memory" {
			continue // already a violation; there is no answer to compare
		}
		mod := model[i]
		if streams[i] == "status" || streams[i] == "status-prom" || streams[i] == "status-all" {
			mod = strings.TrimSuffix(mod, "e") // a stream error keeps the 200 already sent
		}
		implOf := func(o *c12Outcome) string {
			impl := o.StageOut
			if streams[i] == "status" || streams[i] == "status-prom" || streams[i] == "status-all" {
				impl = fmt.Sprintf("%d", o.Status/100*100)
			}
			if streams[i] == "status-prom" && mod == "200" && impl == "500" {
				impl = "200" // the model stops at the engine call: beyond it Prometheus' engine decides between 200 and 500
			}
			return impl
		}
		impl := implOf(j.o)
		r.Count("tie:" + streams[i] + ":" + strings.SplitN(mod, " ", 2)[0])
		if impl != mod {
			// some answers ("blocked", "producer-stuck") rest on a clock: a disagreement counts when the case ALONE, with 10x
			// the time, disagrees again (a deterministic difference does; one caused by a busy machine does not)
			if j2 := c12ConfirmSlow(j.cs, tier, 10); j2.cr == nil && j2.o != nil && j2.o.Outcome != "hang" && j2.o.Outcome != "memory" && implOf(j2.o) == mod {
				r.Count("tie:disagreement-not-reproduced-alone-with-10x-time")
				impl = mod
			}
		}
		if impl != mod {
			r.Disagree(streams[i], ops[i], impl, mod, j.cs)
		}
		if streams[i] == "stagedrain" && impl == "blocked" && !drainLeakReported {
			// the oracle of this stream, independent of the model: the real stage has stopped reading and the sender feeding it
			// never finishes — a goroutine of the request that does not terminate. Clock-based: only when the case alone, with
			// 10x the time, shows it again.
			if j2 := c12ConfirmSlow(j.cs, tier, 10); j2.cr == nil && j2.o != nil && j2.o.StageOut == "blocked" {
				drainLeakReported = true // one confirmed witness is enough (each confirmation costs seconds)
				r.Count("outcome:leak")
				r.Violate("C12/leak/stage-drain", fmt.Sprintf("the in-process stage (LRAPlanner over GenericPlanner.WrapProcess) stops at the error entry of upstream batch %d of %d and never reads its input again: the upstream sender stays blocked in its send for ever (the stage's output was read to the end; confirmed alone with 10x the time)", j.cs.Stage.BadAt, len(j.cs.Stage.Sizes)),
					map[string]any{"case": j.cs, "how": "vcheck C12 -replay <this file>"})
			}
		}
		if i%97 == 0 {
			r.Sample(map[string]any{"stream": streams[i], "op": ops[i], "impl": impl, "model": mod})
		}
	}
	return nil
}
