package main

import "verif/harness/h"

type c12StageCase struct {
	Kind string `json:"kind"`
}

func (c *c12Child) runStage(cs *c12Case) c12Outcome { return c12Outcome{ID: cs.ID, Outcome: "answered"} }

func c12Stages(r *h.Result, rng *h.Rng, tier string) error { return nil }
