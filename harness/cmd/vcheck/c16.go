package main

// C16 — profile call trees conserve weight from ingest to flame graph.
//
// Real code run in-process: unmarshal.UnmarshalProfileProtoV2 / UnmarshalBinaryStreamProfileProtoV2 (→ postProcessProf,
// getNodeId) on profiles built with github.com/google/pprof/profile, and the reader's service.NewTree / MergeTrie /
// BFS / Total / MaxSelf on the emitted rows. Model: Qryn.Prof (lean/Qryn/Prof/Tree.lean) through the driver.
// Oracle: the numeric laws of the property, computed here from the implementation's output only.

import (
	"bytes"
	"context"
	"encoding/json"
	"fmt"
	"mime/multipart"
	"os"
	"sort"
	"strconv"
	"strings"

	"github.com/go-faster/city"
	"github.com/google/pprof/profile"
	clconfig "github.com/metrico/cloki-config"
	rsvc "github.com/metrico/qryn/reader/service"
	"github.com/metrico/qryn/writer/config"
	wmodel "github.com/metrico/qryn/writer/model"
	"github.com/metrico/qryn/writer/utils/unmarshal"
	"verif/harness/h"
)

func init() { props["C16"] = c16 }

// ---- case description (also the replay format)

type c16Sample struct {
	Locs []int   `json:"locs"` // indices into Profile.Locs, leaf first (pprof order)
	Vals []int64 `json:"vals"`
}
type c16Profile struct {
	Types   [][2]string `json:"types"` // (type, unit)
	Locs    [][]string  `json:"locs"`  // location table: function names of the location's lines (none = no line info)
	Samples []c16Sample `json:"samples"`
	Mode    string      `json:"mode"` // bin | bin-raw | mime
}
type c16Merge struct {
	Profiles []c16Profile `json:"profiles"`
	Type     int          `json:"type"`
	Orders   [][]int      `json:"orders"`   // each: a permutation of profile indices
	RowSeeds []uint64     `json:"rowseeds"` // per order: seed of the row shuffle inside each profile (0 = stored order)
	Split    []bool       `json:"split"`    // per order: one MergeTrie call per profile (true) or one call with all rows
}

// ---- running the writer

type c16Row struct {
	Parent, Fn, Node uint64
	Self, Total      []int64
}

type c16Stored struct {
	Rows  []c16Row
	Types []string // "type:unit" per value position, from the first row (or from SamplesTypesUnits)
	Fns   map[uint64]string
	FnSeq []uint64
	Agg   []int64
	Err   string
}

var c16ConfigDone bool

func c16Encode(p c16Profile, rng *h.Rng) ([]byte, string, error) {
	pp := &profile.Profile{PeriodType: &profile.ValueType{Type: "cpu", Unit: "nanoseconds"}, Period: 1}
	for _, t := range p.Types {
		pp.SampleType = append(pp.SampleType, &profile.ValueType{Type: t[0], Unit: t[1]})
	}
	fns := map[string]*profile.Function{}
	for i, lines := range p.Locs {
		loc := &profile.Location{ID: uint64(i + 1)}
		for _, name := range lines {
			f := fns[name]
			if f == nil {
				f = &profile.Function{ID: uint64(len(fns) + 1), Name: name, SystemName: name}
				fns[name] = f
				pp.Function = append(pp.Function, f)
			}
			loc.Line = append(loc.Line, profile.Line{Function: f, Line: int64(i + 1)})
		}
		pp.Location = append(pp.Location, loc)
	}
	for _, s := range p.Samples {
		ps := &profile.Sample{Value: append([]int64{}, s.Vals...)}
		for _, li := range s.Locs {
			ps.Location = append(ps.Location, pp.Location[li])
		}
		pp.Sample = append(pp.Sample, ps)
	}
	var raw bytes.Buffer
	var err error
	if p.Mode == "bin-raw" {
		err = pp.WriteUncompressed(&raw)
	} else {
		err = pp.Write(&raw)
	}
	if err != nil {
		return nil, "", err
	}
	if p.Mode != "mime" {
		return raw.Bytes(), "", nil
	}
	var body bytes.Buffer
	w := multipart.NewWriter(&body)
	if err := w.SetBoundary("b" + strconv.FormatUint(rng.U64(), 16)); err != nil {
		return nil, "", err
	}
	fw, err := w.CreateFormFile("profile", "profile.pprof")
	if err != nil {
		return nil, "", err
	}
	fw.Write(raw.Bytes())
	w.Close()
	return body.Bytes(), w.Boundary(), nil
}

func c16Ingest(p c16Profile, rng *h.Rng) c16Stored {
	if !c16ConfigDone {
		config.Cloki = clconfig.New(clconfig.CLOKI_WRITER, nil, "", "")
		c16ConfigDone = true
	}
	var st c16Stored
	body, _, err := c16Encode(p, rng)
	if err != nil {
		st.Err = "encode: " + err.Error()
		return st
	}
	fn := unmarshal.UnmarshalBinaryStreamProfileProtoV2
	if p.Mode == "mime" {
		fn = unmarshal.UnmarshalProfileProtoV2
	}
	ctx := context.WithValue(context.Background(), "from", "1700000000")
	ctx = context.WithValue(ctx, "until", "1700000010")
	ctx = context.WithValue(ctx, "name", "app{a=b}")
	// silence the parser's own prints
	n := 0
	for resp := range fn(ctx, bytes.NewReader(body), nil) {
		if resp.Error != nil {
			st.Err = resp.Error.Error()
			continue
		}
		pd, ok := resp.ProfileRequest.(*wmodel.ProfileData)
		if !ok || pd == nil {
			st.Err = "response without a profile"
			continue
		}
		n++
		for _, tu := range pd.SamplesTypesUnits {
			st.Types = append(st.Types, tu.Str1+":"+tu.Str2)
		}
		st.Fns = map[uint64]string{}
		for _, f := range pd.Function {
			st.Fns[f.ValueInt64] = f.ValueStr
			st.FnSeq = append(st.FnSeq, f.ValueInt64)
		}
		for _, a := range pd.ValuesAgg {
			st.Agg = append(st.Agg, a.ValueInt64)
		}
		for _, t := range pd.Tree {
			row := c16Row{Parent: t.Field1, Fn: t.Field2, Node: t.Field3}
			for i, v := range t.ValueArrTuple {
				if i >= len(st.Types) || v.ValueStr != st.Types[i] {
					st.Err = fmt.Sprintf("row value %d is named %q, the profile's type %d is %v", i, v.ValueStr, i, st.Types)
				}
				row.Self = append(row.Self, v.FirstValueInt64)
				row.Total = append(row.Total, v.SecondValueInt64)
			}
			st.Rows = append(st.Rows, row)
		}
	}
	if n != 1 && st.Err == "" {
		st.Err = fmt.Sprintf("%d profile responses", n)
	}
	return st
}

// function id of each location as postProcessProf derives it: first line's function name, "n/a" without lines
func c16LocFn(lines []string) uint64 {
	name := "n/a"
	if len(lines) > 0 {
		name = lines[0]
	}
	return city.CH64([]byte(name))
}

func c16SampleWords(p c16Profile) []string {
	var ws []string
	for _, s := range p.Samples {
		var ls, vs []string
		for _, li := range s.Locs {
			ls = append(ls, strconv.FormatUint(c16LocFn(p.Locs[li]), 10))
		}
		for _, v := range s.Vals {
			vs = append(vs, strconv.FormatInt(v, 10))
		}
		a, b := "-", "-"
		if len(ls) > 0 {
			a = strings.Join(ls, ",")
		}
		if len(vs) > 0 {
			b = strings.Join(vs, ",")
		}
		ws = append(ws, a+":"+b)
	}
	return ws
}

func c16RowsString(rows []c16Row) string {
	if len(rows) == 0 {
		return "-"
	}
	var out []string
	for _, r := range rows {
		f := []string{strconv.FormatUint(r.Parent, 10), strconv.FormatUint(r.Fn, 10), strconv.FormatUint(r.Node, 10)}
		for j := range r.Self {
			f = append(f, strconv.FormatInt(r.Self[j], 10), strconv.FormatInt(r.Total[j], 10))
		}
		out = append(out, strings.Join(f, ","))
	}
	return strings.Join(out, " ")
}

// ---- oracle 1: a stored tree, judged from the input profile and the emitted rows only

type c16PathAgg struct {
	self, total []int64
}

func c16Expected(p c16Profile) (map[string]*c16PathAgg, []int64, []int64) {
	nt := len(p.Types)
	exp := map[string]*c16PathAgg{}
	sumAll := make([]int64, nt)
	sumStack := make([]int64, nt)
	for _, s := range p.Samples {
		for j := 0; j < nt; j++ {
			sumAll[j] += s.Vals[j]
			if len(s.Locs) > 0 {
				sumStack[j] += s.Vals[j]
			}
		}
		path := ""
		for i := len(s.Locs) - 1; i >= 0; i-- {
			path += "/" + strconv.FormatUint(c16LocFn(p.Locs[s.Locs[i]]), 10)
			a := exp[path]
			if a == nil {
				a = &c16PathAgg{make([]int64, nt), make([]int64, nt)}
				exp[path] = a
			}
			for j := 0; j < nt; j++ {
				a.total[j] += s.Vals[j]
				if i == 0 {
					a.self[j] += s.Vals[j]
				}
			}
		}
	}
	return exp, sumAll, sumStack
}

func c16OracleStored(r *h.Result, p c16Profile, st c16Stored) {
	nt := len(p.Types)
	viol := func(key, what string) {
		r.Violate("C16/"+key, what, map[string]any{"stream": "stored", "profile": p})
	}
	byNode := map[uint64]*c16Row{}
	kids := map[uint64][]*c16Row{}
	for i := range st.Rows {
		row := &st.Rows[i]
		if len(row.Self) != nt {
			viol("row-arity", fmt.Sprintf("row of node %d carries %d values for %d sample types", row.Node, len(row.Self), nt))
			return
		}
		if byNode[row.Node] != nil {
			viol("node-id-twice", fmt.Sprintf("node id %d appears in two rows", row.Node))
			return
		}
		byNode[row.Node] = row
		kids[row.Parent] = append(kids[row.Parent], row)
		if name, ok := st.Fns[row.Fn]; !ok {
			viol("function-missing", fmt.Sprintf("row of node %d names function id %d which the function table lacks", row.Node, row.Fn))
		} else if city.CH64([]byte(name)) != row.Fn {
			viol("function-id", fmt.Sprintf("function table maps %d to %q whose id is %d", row.Fn, name, city.CH64([]byte(name))))
		}
	}
	for _, row := range st.Rows {
		if row.Parent != 0 && byNode[row.Parent] == nil {
			viol("orphan", fmt.Sprintf("node %d has parent %d which has no row", row.Node, row.Parent))
		}
		for j := 0; j < nt; j++ {
			sum := row.Self[j]
			for _, c := range kids[row.Node] {
				sum += c.Total[j]
			}
			if sum != row.Total[j] {
				viol("node-conservation", fmt.Sprintf("node %d type %s: total %d ≠ self %d + children totals (= %d)", row.Node, st.Types[j], row.Total[j], row.Self[j], sum))
			}
		}
	}
	exp, sumAll, sumStack := c16Expected(p)
	for j := 0; j < nt; j++ {
		var roots int64
		for _, c := range kids[0] {
			roots += c.Total[j]
		}
		if j < len(st.Agg) && st.Agg[j] != sumAll[j] {
			viol("values-agg", fmt.Sprintf("type %s: stored value sum %d ≠ sum of the sample values %d", st.Types[j], st.Agg[j], sumAll[j]))
		}
		if roots != sumAll[j] {
			viol("root-total", fmt.Sprintf("type %s: root totals add up to %d, the profile's sample values to %d (samples without a stack are left out of the tree)", st.Types[j], roots, sumAll[j]))
		}
	}
	// the rows are exactly the trie of the stacks: descend every expected path through (parent id, function id)
	type pf struct{ p, f uint64 }
	child := map[pf]*c16Row{}
	for i := range st.Rows {
		row := &st.Rows[i]
		k := pf{row.Parent, row.Fn}
		if child[k] != nil {
			viol("sibling-function-twice", fmt.Sprintf("two children of %d for function %d", row.Parent, row.Fn))
		}
		child[k] = row
	}
	seen := 0
	naPath := "/" + strconv.FormatUint(city.CH64([]byte("n/a")), 10)
	emptyW := make([]int64, nt)
	for j := 0; j < nt; j++ {
		emptyW[j] = sumAll[j] - sumStack[j]
	}
	for path, a := range exp {
		parent := uint64(0)
		var row *c16Row
		for _, w := range strings.Split(path, "/")[1:] {
			f, _ := strconv.ParseUint(w, 10, 64)
			row = child[pf{parent, f}]
			if row == nil {
				break
			}
			parent = row.Node
		}
		if row == nil {
			viol("path-missing", fmt.Sprintf("call path %s has no row", path))
			continue
		}
		seen++
		for j := 0; j < nt; j++ {
			if path == naPath && row.Self[j] == a.self[j]+emptyW[j] && row.Total[j] == a.total[j]+emptyW[j] {
				continue // the weight of the samples without a stack kept under one root frame without line info
			}
			if row.Self[j] != a.self[j] || row.Total[j] != a.total[j] {
				viol("path-weight", fmt.Sprintf("call path %s type %s: row has self %d total %d, the samples give self %d total %d", path, st.Types[j], row.Self[j], row.Total[j], a.self[j], a.total[j]))
			}
		}
	}
	// rows not explained by a call path: only the frame standing for samples without a stack is allowed
	extra := len(st.Rows) - len(exp)
	if extra != 0 {
		na := child[pf{0, city.CH64([]byte("n/a"))}]
		hasEmpty := false
		for _, s := range p.Samples {
			if len(s.Locs) == 0 {
				hasEmpty = true
			}
		}
		if !(extra == 1 && hasEmpty && na != nil && exp["/"+strconv.FormatUint(na.Fn, 10)] == nil) {
			viol("row-count", fmt.Sprintf("%d rows for %d distinct call paths", len(st.Rows), len(exp)))
		}
	}
}

// ---- reader side

type c16Flat struct {
	Parent, Fn, Node uint64
	Self, Total      int64
}

func c16TypeRows(st c16Stored, name string) []c16Flat {
	// arrayFirst(y -> y.1 == name, x.4): the first value with that name
	j := -1
	for i, t := range st.Types {
		if t == name {
			j = i
			break
		}
	}
	var out []c16Flat
	for _, row := range st.Rows {
		f := c16Flat{Parent: row.Parent, Fn: row.Fn, Node: row.Node}
		if j >= 0 {
			f.Self, f.Total = row.Self[j], row.Total[j]
		}
		out = append(out, f)
	}
	return out
}

func c16Any(rows []c16Flat) [][]any {
	var out [][]any
	for _, f := range rows {
		out = append(out, []any{f.Parent, f.Fn, f.Node, f.Self, f.Total})
	}
	return out
}

func c16FlatWords(rows []c16Flat) []string {
	var ws []string
	for _, f := range rows {
		ws = append(ws, fmt.Sprintf("%d,%d,%d,%d,%d", f.Parent, f.Fn, f.Node, f.Self, f.Total))
	}
	return ws
}

func c16TreeString(t *rsvc.Tree) string {
	var parents []uint64
	for p := range t.Nodes {
		parents = append(parents, p)
	}
	sort.Slice(parents, func(i, j int) bool { return parents[i] < parents[j] })
	var out []string
	for _, p := range parents {
		for _, c := range t.Nodes[p] {
			out = append(out, fmt.Sprintf("%d,%d,%d,%d,%d", p, c.FnID, c.NodeID, c.Self[0], c.Total[0]))
		}
	}
	if len(out) == 0 {
		return "-"
	}
	return strings.Join(out, " ")
}

func c16Ints(v []int64) string {
	if len(v) == 0 {
		return "-"
	}
	s := make([]string, len(v))
	for i, x := range v {
		s[i] = strconv.FormatInt(x, 10)
	}
	return strings.Join(s, ",")
}

// canonical form of a merged tree: entries sorted by (parent, node)
func c16Canon(t *rsvc.Tree) string {
	var out []string
	for p, cs := range t.Nodes {
		for _, c := range cs {
			out = append(out, fmt.Sprintf("%020d,%020d,%d,%d,%d", p, c.NodeID, c.FnID, c.Self[0], c.Total[0]))
		}
	}
	sort.Strings(out)
	return strings.Join(out, " ")
}

// oracle 2: a merged tree and its flame-graph levels, judged from the input rows and the implementation's output
func c16OracleFlame(r *h.Result, t *rsvc.Tree, levels [][]int64, input []c16Flat, wantTotal int64, nonneg bool, replay any) {
	viol := func(key, what string) { r.Violate("C16/"+key, what, replay) }
	type pn struct{ p, n uint64 }
	sumSelf, sumTotal := map[pn]int64{}, map[pn]int64{}
	for _, f := range input {
		sumSelf[pn{f.Parent, f.Node}] += f.Self
		sumTotal[pn{f.Parent, f.Node}] += f.Total
	}
	nodes := 0
	for p, cs := range t.Nodes {
		seen := map[uint64]bool{}
		for _, c := range cs {
			nodes++
			k := pn{p, c.NodeID}
			if seen[c.NodeID] {
				viol("merge-duplicate-child", fmt.Sprintf("parent %d has two children with node id %d", p, c.NodeID))
			}
			seen[c.NodeID] = true
			if _, ok := sumTotal[k]; !ok {
				viol("merge-invented-node", fmt.Sprintf("merged node %d under %d is in no input", c.NodeID, p))
				continue
			}
			if c.Total[0] != sumTotal[k] || c.Self[0] != sumSelf[k] {
				viol("merge-sums", fmt.Sprintf("merged node %d under %d: self %d total %d, the inputs add up to self %d total %d", c.NodeID, p, c.Self[0], c.Total[0], sumSelf[k], sumTotal[k]))
			}
			kidsum := c.Self[0]
			for _, g := range t.Nodes[c.NodeID] {
				kidsum += g.Total[0]
			}
			if kidsum != c.Total[0] {
				viol("merged-conservation", fmt.Sprintf("merged node %d: total %d ≠ self %d + children totals (= %d)", c.NodeID, c.Total[0], c.Self[0], kidsum))
			}
		}
	}
	if nodes != len(sumTotal) {
		viol("merge-lost-node", fmt.Sprintf("merged tree has %d nodes, the inputs %d distinct (parent, node) pairs", nodes, len(sumTotal)))
	}
	if got := t.Total()[0]; got != wantTotal {
		viol("merged-root-total", fmt.Sprintf("merged root total %d ≠ sum of the inputs' sample values %d", got, wantTotal))
	}
	// levels: walk them the way a flame-graph client does (offsets relative to the previous bar's end)
	if len(levels) == 0 || len(levels[0]) != 4 || levels[0][0] != 0 || levels[0][1] != wantTotal {
		var l0 []int64
		if len(levels) > 0 {
			l0 = levels[0]
		}
		viol("level0", fmt.Sprintf("level 0 is %v, expected one bar [0 %d 0 0]", l0, wantTotal))
		return
	}
	type bar struct {
		id     uint64
		lo, hi int64
		self   int64
	}
	cur := []bar{{0, 0, levels[0][1], 0}}
	bars := 0
	for k := 1; k < len(levels); k++ {
		vals := levels[k]
		if len(vals)%4 != 0 {
			viol("level-shape", fmt.Sprintf("level %d has %d values", k, len(vals)))
			return
		}
		var next []bar
		x := int64(0)
		i := 0
		for _, par := range cur {
			cs := t.Nodes[par.id]
			prevEnd := par.lo
			for ci, c := range cs {
				if i+4 > len(vals) {
					viol("level-short", fmt.Sprintf("level %d ends before the children of node %d", k, par.id))
					return
				}
				lo := x + vals[i]
				hi := lo + vals[i+1]
				if vals[i+1] != c.Total[0] || vals[i+2] != c.Self[0] {
					viol("level-bar-values", fmt.Sprintf("level %d bar %d: total %d self %d, the merged node %d has total %d self %d", k, i/4, vals[i+1], vals[i+2], c.NodeID, c.Total[0], c.Self[0]))
				}
				wantName := int64(t.NamesMap[c.FnID])
				if vals[i+3] != wantName {
					viol("level-bar-name", fmt.Sprintf("level %d bar %d names index %d, the node's function has index %d", k, i/4, vals[i+3], wantName))
				}
				// layout law (any sign): a parent's children are laid out contiguously from the parent's offset
				if lo != prevEnd {
					viol("level-offset", fmt.Sprintf("level %d: child %d of node %d starts at %d, expected %d (parent span [%d,%d))", k, ci, par.id, lo, prevEnd, par.lo, par.hi))
				}
				if nonneg && (lo < par.lo || hi > par.hi) {
					viol("level-nesting", fmt.Sprintf("level %d: bar of node %d spans [%d,%d) outside its parent's [%d,%d)", k, c.NodeID, lo, hi, par.lo, par.hi))
				}
				if nonneg && lo < x {
					viol("level-overlap", fmt.Sprintf("level %d: bar of node %d starts at %d before the previous bar's end %d", k, c.NodeID, lo, x))
				}
				prevEnd = hi
				x = hi
				next = append(next, bar{c.NodeID, lo, hi, c.Self[0]})
				i += 4
				bars++
			}
		}
		if i != len(vals) {
			viol("level-long", fmt.Sprintf("level %d has %d bars more than the children of level %d", k, (len(vals)-i)/4, k-1))
			return
		}
		cur = next
	}
	if len(cur) != 0 {
		viol("levels-truncated", fmt.Sprintf("the last level still has %d bars with children not laid out", len(cur)))
	}
	if bars != nodes {
		viol("levels-incomplete", fmt.Sprintf("%d bars laid out for %d merged nodes", bars, nodes))
	}
}

// ---- generators

var c16TypePool = [][2]string{{"samples", "count"}, {"cpu", "nanoseconds"}, {"alloc_space", "bytes"}, {"inuse_objects", "count"}}

func c16Value(rng *h.Rng, kind int) int64 {
	switch kind {
	case 0: // small non-negative, zeros common
		if rng.Chance(20) {
			return 0
		}
		return int64(rng.Intn(50))
	case 1: // large non-negative
		return int64(rng.U64() >> uint(24+rng.Intn(30)))
	default: // signed (pprof carries int64 values; diff profiles are negative)
		return int64(rng.Intn(2001)) - 1000
	}
}

func c16GenProfile(rng *h.Rng, types [][2]string, fnPool []string, maxSamples, maxDepth int, kind int, emptyPct int) c16Profile {
	p := c16Profile{Types: types, Mode: h.Pick(rng, []string{"bin", "bin-raw", "mime"})}
	// location table: one plain location per function, plus a few without line info / with inlined lines
	for _, f := range fnPool {
		p.Locs = append(p.Locs, []string{f})
	}
	p.Locs = append(p.Locs, nil) // no line info → "n/a"
	if rng.Bool() {
		p.Locs = append(p.Locs, nil) // a second location without line info: same frame name
	}
	for i := 0; i < 2; i++ {
		p.Locs = append(p.Locs, []string{h.Pick(rng, fnPool), h.Pick(rng, fnPool)}) // inlined: only the first line counts
	}
	ns := rng.Range(0, maxSamples)
	var prev []int
	for i := 0; i < ns; i++ {
		var locs []int // root first while building
		switch {
		case rng.Chance(emptyPct):
			// no stack
		case len(prev) > 0 && rng.Chance(45):
			// shared prefix with the previous stack, then diverge / extend / stop
			keep := rng.Range(0, len(prev))
			locs = append(locs, prev[:keep]...)
			for len(locs) < maxDepth && rng.Chance(60) {
				locs = append(locs, rng.Intn(len(p.Locs)))
			}
		case rng.Chance(25):
			// recursion: the same function at several depths
			f := rng.Intn(len(p.Locs))
			d := rng.Range(1, maxDepth)
			for k := 0; k < d; k++ {
				if rng.Chance(70) {
					locs = append(locs, f)
				} else {
					locs = append(locs, rng.Intn(len(p.Locs)))
				}
			}
		default:
			d := rng.Range(1, maxDepth)
			if rng.Chance(2) {
				// very deep stacks around the depth at which getNodeId clamps its level (511)
				d = h.Pick(rng, []int{509, 510, 511, 512, 513, 640})
			}
			for k := 0; k < d; k++ {
				locs = append(locs, rng.Intn(len(p.Locs)))
			}
		}
		if len(locs) > 0 && len(locs) <= maxDepth {
			prev = locs
		}
		s := c16Sample{}
		for k := len(locs) - 1; k >= 0; k-- { // pprof order: leaf first
			s.Locs = append(s.Locs, locs[k])
		}
		for range types {
			s.Vals = append(s.Vals, c16Value(rng, kind))
		}
		p.Samples = append(p.Samples, s)
	}
	return p
}

func c16Types(rng *h.Rng) [][2]string {
	n := rng.Range(1, 3)
	perm := []int{0, 1, 2, 3}
	for i := len(perm) - 1; i > 0; i-- {
		j := rng.Intn(i + 1)
		perm[i], perm[j] = perm[j], perm[i]
	}
	var ts [][2]string
	for i := 0; i < n; i++ {
		ts = append(ts, c16TypePool[perm[i]])
	}
	return ts
}

func c16FnPool(rng *h.Rng) []string {
	n := rng.Range(1, 7)
	var fs []string
	for i := 0; i < n; i++ {
		fs = append(fs, "pkg.fn"+strconv.Itoa(i))
	}
	if rng.Chance(15) {
		fs = append(fs, "n/a") // a real function carrying the placeholder's name
	}
	if rng.Chance(10) {
		fs = append(fs, "")
	}
	return fs
}

// ---- streams

func c16StoredCase(r *h.Result, rng *h.Rng, p c16Profile, ops, impl *[]string, cases *[]any) c16Stored {
	st := c16Ingest(p, rng)
	nt := len(p.Types)
	depth, empty, rec := 0, 0, false
	for _, s := range p.Samples {
		if len(s.Locs) > depth {
			depth = len(s.Locs)
		}
		if len(s.Locs) == 0 {
			empty++
		}
		seen := map[uint64]bool{}
		for _, li := range s.Locs {
			f := c16LocFn(p.Locs[li])
			if seen[f] {
				rec = true
			}
			seen[f] = true
		}
	}
	r.Count(fmt.Sprintf("stored:types=%d", nt))
	r.Count("stored:mode=" + p.Mode)
	r.Count(fmt.Sprintf("stored:samples<=%d", (len(p.Samples)+9)/10*10))
	r.Count(fmt.Sprintf("stored:depth<=%d", (depth+3)/4*4))
	if empty > 0 {
		r.Count("stored:with-stackless-sample")
	}
	if rec {
		r.Count("stored:with-recursion")
	}
	r.Count(fmt.Sprintf("stored:rows<=%d", (len(st.Rows)+19)/20*20))
	words := c16SampleWords(p)
	key := fmt.Sprintf("%d %s", nt, strings.Join(words, " "))
	r.Case(fmt.Sprintf("stored:%016x", city.CH64([]byte(key))), len(st.Rows) >= 2)
	if st.Err != "" {
		r.Count("stored:parser-error")
		r.Violate("C16/parser-error", "the profile parser answered an error for a valid profile: "+st.Err, map[string]any{"stream": "stored", "profile": p})
		return st
	}
	*ops = append(*ops, "c16rows "+c16KeepEmpty(rng)+" "+key)
	*impl = append(*impl, c16RowsString(st.Rows))
	*cases = append(*cases, p)
	*ops = append(*ops, "c16sums "+key)
	*impl = append(*impl, c16Ints(st.Agg))
	*cases = append(*cases, p)
	c16OracleStored(r, p, st)
	return st
}

func c16Shuffle(rng *h.Rng, n int) []int {
	perm := make([]int, n)
	for i := range perm {
		perm[i] = i
	}
	for i := n - 1; i > 0; i-- {
		j := rng.Intn(i + 1)
		perm[i], perm[j] = perm[j], perm[i]
	}
	return perm
}

func c16MergeCase(r *h.Result, m c16Merge, stored []c16Stored, ops, impl *[]string, cases *[]any) {
	if len(m.Profiles) == 0 {
		return
	}
	types := m.Profiles[0].Types
	tname := types[m.Type][0] + ":" + types[m.Type][1]
	nonneg := true
	var want int64
	for _, p := range m.Profiles {
		for _, s := range p.Samples {
			want += s.Vals[m.Type]
			for _, v := range s.Vals {
				if v < 0 {
					nonneg = false
				}
			}
		}
	}
	var canon0 string
	for oi, order := range m.Orders {
		var all []c16Flat
		var fnWords []string
		tr := rsvc.NewTree()
		tr.SampleTypes = []string{tname}
		var callRows [][]c16Flat
		var callFns [][][]any
		for _, pi := range order {
			rows := c16TypeRows(stored[pi], tname)
			if m.RowSeeds[oi] != 0 {
				rg := h.NewRng(m.RowSeeds[oi] + uint64(pi))
				perm := c16Shuffle(rg, len(rows))
				sh := make([]c16Flat, len(rows))
				for i, k := range perm {
					sh[i] = rows[k]
				}
				rows = sh
			}
			var fns [][]any
			for _, id := range stored[pi].FnSeq {
				fns = append(fns, []any{id, stored[pi].Fns[id]})
				fnWords = append(fnWords, strconv.FormatUint(id, 10))
			}
			callRows = append(callRows, rows)
			callFns = append(callFns, fns)
			all = append(all, rows...)
		}
		if m.Split[oi] {
			for i := range callRows {
				tr.MergeTrie(c16Any(callRows[i]), callFns[i], tname)
			}
		} else {
			var fns [][]any
			for _, f := range callFns {
				fns = append(fns, f...)
			}
			tr.MergeTrie(c16Any(all), fns, tname)
		}
		lv := tr.BFS(tname)
		var levels [][]int64
		var lw []string
		for _, l := range lv {
			levels = append(levels, l.Values)
			lw = append(lw, c16Ints(l.Values))
		}
		fw := "-"
		if len(fnWords) > 0 {
			fw = strings.Join(fnWords, ",")
		}
		op := "c16flame " + fw
		if len(all) > 0 {
			op += " " + strings.Join(c16FlatWords(all), " ")
		}
		lws := "-"
		if len(lw) > 0 {
			lws = strings.Join(lw, " ")
		}
		got := c16TreeString(tr) + ";" + lws + ";" + strconv.FormatInt(tr.Total()[0], 10) + ";" + strconv.FormatInt(tr.MaxSelf()[0], 10)
		*ops = append(*ops, op)
		*impl = append(*impl, got)
		*cases = append(*cases, m)
		r.Case(fmt.Sprintf("merge:%016x", city.CH64([]byte(op))), len(all) >= 2)
		replay := map[string]any{"stream": "merge", "merge": m, "order": oi}
		c16OracleFlame(r, tr, levels, all, want, nonneg, replay)
		c := c16Canon(tr)
		if oi == 0 {
			canon0 = c
		} else if c != canon0 {
			r.Violate("C16/merge-order", fmt.Sprintf("merging the same stored trees in order %v gives a different tree than in order %v", order, m.Orders[0]), replay)
		}
	}
	r.Count(fmt.Sprintf("merge:profiles=%d", len(m.Profiles)))
	if nonneg {
		r.Count("merge:non-negative")
	} else {
		r.Count("merge:with-negative-values")
	}
}

func c16GenMerge(rng *h.Rng, maxProfiles, nOrders, maxSamples, maxDepth int) c16Merge {
	types := c16Types(rng)
	pool := c16FnPool(rng)
	k := rng.Range(1, maxProfiles)
	kind := 0
	switch {
	case rng.Chance(20):
		kind = 1
	case rng.Chance(20):
		kind = 2
	}
	m := c16Merge{Type: rng.Intn(len(types))}
	for i := 0; i < k; i++ {
		m.Profiles = append(m.Profiles, c16GenProfile(rng, types, pool, maxSamples, maxDepth, kind, 6))
	}
	if rng.Chance(30) && k >= 2 { // the same profile ingested twice
		m.Profiles[k-1] = m.Profiles[0]
	}
	id := make([]int, k)
	for i := range id {
		id[i] = i
	}
	m.Orders = append(m.Orders, id)
	m.RowSeeds = append(m.RowSeeds, 0)
	m.Split = append(m.Split, true)
	for o := 1; o < nOrders; o++ {
		m.Orders = append(m.Orders, c16Shuffle(rng, k))
		m.RowSeeds = append(m.RowSeeds, rng.U64()|1)
		m.Split = append(m.Split, rng.Bool())
	}
	return m
}

func c16RunMerge(r *h.Result, rng *h.Rng, m c16Merge, ops, impl *[]string, cases *[]any) {
	var stored []c16Stored
	for _, p := range m.Profiles {
		st := c16StoredCase(r, rng, p, ops, impl, cases)
		if st.Err != "" {
			return
		}
		stored = append(stored, st)
	}
	c16MergeCase(r, m, stored, ops, impl, cases)
}

func c16(r *h.Result, rng *h.Rng, tier string, replay string) error {
	// the parsers print diagnostics to stdout; keep the harness' own line readable
	devnull, _ := os.OpenFile(os.DevNull, os.O_WRONLY, 0)
	realStdout := os.Stdout
	os.Stdout = devnull
	defer func() { os.Stdout = realStdout }()

	r.Rule = "stored: pprof profiles (1–3 sample types, ≤40 samples, depth ≤12, 1–8 functions so that prefixes are shared, recursion, locations without line info and with inlined lines, stackless samples, zero/large/negative values) through both exported profile parsers (gzip, raw, multipart); non-trivial = ≥2 tree rows, distinct by (types, stacks, values). merge: 1–5 such profiles (thorough: ≤20) of one type set, merged by the reader's Tree in several profile orders and row orders, one MergeTrie call per profile or one for all; non-trivial = ≥2 input rows, distinct by the row sequence"
	r.Stream("stored: unmarshal.Unmarshal{BinaryStream,}ProfileProtoV2 tree rows and values_agg vs Prof.storedRows / valueSum; oracle: per-node conservation, root totals = sample sums, rows = trie of the stacks")
	r.Stream("merge: service.Tree MergeTrie/BFS/Total/MaxSelf on the emitted rows vs Prof.mergeTrieCap / bfs / rootTotal / maxSelf; oracle: merged sums, merged conservation, order independence, level offsets and nesting")
	var ops, impl []string
	var cases []any
	if replay != "" {
		b, err := os.ReadFile(replay)
		if err != nil {
			return err
		}
		var f struct {
			Replay struct {
				Stream  string     `json:"stream"`
				Profile c16Profile `json:"profile"`
				Merge   c16Merge   `json:"merge"`
				Diff    c16DiffCase `json:"diff"`
			} `json:"replay"`
		}
		if err := json.Unmarshal(b, &f); err != nil {
			return err
		}
		if f.Replay.Stream == "stored" {
			c16StoredCase(r, rng, f.Replay.Profile, &ops, &impl, &cases)
		} else if f.Replay.Stream == "diff" {
			c16DiffCaseRun(r, f.Replay.Diff, &ops, &impl, &cases)
		} else if c16ReplayExt(r, rng, f.Replay.Stream, b, &ops, &impl, &cases) {
		} else {
			c16RunMerge(r, rng, f.Replay.Merge, &ops, &impl, &cases)
		}
		return c16Compare(r, ops, impl, cases)
	}
	nMerges, maxProfiles, nOrders, nSingles := 200, 5, 3, 300
	switch tier {
	case "thorough":
		nMerges, maxProfiles, nOrders, nSingles = 1500, 20, 20, 5000
	case "search":
		nMerges, maxProfiles, nOrders, nSingles = 400, 6, 4, 3000
	}
	// fixed corpus first
	corpus := []c16Profile{
		{Types: [][2]string{{"samples", "count"}}, Locs: [][]string{{"a"}}, Mode: "bin"},
		{Types: [][2]string{{"samples", "count"}}, Locs: [][]string{{"a"}}, Samples: []c16Sample{{nil, []int64{5}}}, Mode: "bin"},
		{Types: [][2]string{{"samples", "count"}, {"cpu", "nanoseconds"}}, Locs: [][]string{{"a"}, {"b"}, nil},
			Samples: []c16Sample{{[]int{1, 0}, []int64{1, 10}}, {[]int{0}, []int64{2, 20}}, {[]int{2, 0}, []int64{3, 5}}, {nil, []int64{7, 70}}}, Mode: "mime"},
		{Types: [][2]string{{"samples", "count"}}, Locs: [][]string{{"a"}}, Samples: []c16Sample{{[]int{0, 0, 0, 0}, []int64{1}}, {[]int{0, 0}, []int64{2}}}, Mode: "bin-raw"},
	}
	for _, p := range corpus {
		c16StoredCase(r, rng, p, &ops, &impl, &cases)
	}
	sr := rng.Fork()
	for i := 0; i < nSingles; i++ {
		kind := 0
		if i%5 == 3 {
			kind = 1
		} else if i%5 == 4 {
			kind = 2
		}
		emptyPct := 6
		if tier == "search" {
			emptyPct = 15
		}
		p := c16GenProfile(sr, c16Types(sr), c16FnPool(sr), 40, 12, kind, emptyPct)
		c16StoredCase(r, sr, p, &ops, &impl, &cases)
		if i%50 == 0 {
			r.Sample(map[string]any{"stream": "stored", "types": p.Types, "samples": len(p.Samples), "mode": p.Mode})
		}
		if i%1000 == 999 {
			if err := c16Flush(r, &ops, &impl, &cases); err != nil {
				return err
			}
		}
	}
	mr := rng.Fork()
	for i := 0; i < nMerges; i++ {
		mp := maxProfiles
		if tier == "thorough" && i%10 != 0 {
			mp = 6
		}
		ms, md := 40, 12
		if mp > 6 {
			ms, md = 15, 8
		}
		m := c16GenMerge(mr, mp, nOrders, ms, md)
		c16RunMerge(r, mr, m, &ops, &impl, &cases)
		if i%40 == 0 {
			r.Sample(map[string]any{"stream": "merge", "profiles": len(m.Profiles), "type": m.Profiles[0].Types[m.Type], "orders": m.Orders})
		}
		if i%100 == 99 {
			if err := c16Flush(r, &ops, &impl, &cases); err != nil {
				return err
			}
		}
	}
	if err := c16Flush(r, &ops, &impl, &cases); err != nil {
		return err
	}
	if err := c16Ext(r, rng, tier, &ops, &impl, &cases); err != nil {
		return err
	}
	// run the model in chunks (one driver process per chunk)
	return c16Compare(r, ops, impl, cases)
}

// compare what has been collected so far and drop it (the operations of a thorough run do not fit in memory together)
func c16Flush(r *h.Result, ops, impl *[]string, cases *[]any) error {
	err := c16Compare(r, *ops, *impl, *cases)
	*ops, *impl, *cases = nil, nil, nil
	return err
}

// run the model in chunks (one driver process per chunk), disagreements attributed to the stream of the operation
func c16Compare(r *h.Result, ops, impl []string, cases []any) error {
	const chunk = 300
	for i := 0; i < len(ops); i += chunk {
		j := i + chunk
		if j > len(ops) {
			j = len(ops)
		}
		model, err := h.Model(ops[i:j])
		if err != nil {
			return err
		}
		for k := i; k < j; k++ {
			if strings.HasPrefix(ops[k], "c16capflame") {
				model[k-i] = c16CapModelAnswer(model[k-i])
			}
			if impl[k] != model[k-i] {
				stream := "stored"
				if strings.HasPrefix(ops[k], "c16flame") {
					stream = "merge"
				} else if s := c16ExtStream(ops[k]); s != "" {
					stream = s
				}
				op := ops[k]
				if len(op) > 2000 {
					op = op[:2000] + "…"
				}
				r.Disagree(stream, op, impl[k], model[k-i], cases[k])
			}
		}
	}
	return nil
}

// whether the tree builder keeps a sample without a stack: observed once on a probe profile and passed to the
// model (the theorems use the value the translator reads from the source, Gen.ProfTreeShape.emptyStackFrame;
// the oracle judges root totals independently of both)
var c16Keep string

func c16KeepEmpty(rng *h.Rng) string {
	if c16Keep == "" {
		st := c16Ingest(c16Profile{Types: [][2]string{{"samples", "count"}}, Locs: [][]string{{"a"}},
			Samples: []c16Sample{{nil, []int64{1}}}, Mode: "bin"}, rng)
		c16Keep = "0"
		if len(st.Rows) > 0 {
			c16Keep = "1"
		}
	}
	return c16Keep
}
