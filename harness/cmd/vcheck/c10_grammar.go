package main

// C10 `grammar` stream: every field of the query-language grammars that captures token text (Gen.GrammarFields,
// regenerated from the participle structs) must be covered by taint positions of c10_positions.go — string tokens
// (Quoted_string / Ticked_string / QStr / TStr) and identifier tokens (Label_name, Macros_function, Ident) by
// positions that put hostile text there, number tokens by positions that require that text there never reaches SQL.
// A grammar field the table does not know, a table entry that is no longer in the grammar and a named position that
// does not exist are disagreements: a new string-carrying grammar field cannot be added without a taint case.

import (
	"fmt"
	"sort"
	"strings"

	"verif/harness/h"
)

const (
	gLQ = "loki/query_range/logql/"
	gTQ = "tempo/search-q/traceql/"
	gPF = "prof/label-names-json/selector/"
)

// field → positions (keys without the C10/taint/ prefix); "=" entries: not a carrier of request text, with the reason
var c10GrammarCover = map[string][]string{
	"logql|StrSelCmd|Label":            {gLQ + "matcher-name"},
	"logql|StrSelCmd|Val":              {gLQ + "matcher-value-eq@log", gLQ + "matcher-value-ticked@log", gLQ + "matcher-regex@log", gLQ + "matcher-value-eq@topk"},
	"logql|LabelName|Name":             {"=wrapper: covered at its uses"},
	"logql|QuotedString|Str":           {"=wrapper: covered at its uses"},
	"logql|LineFilter|Val":             {gLQ + "line-filter-contains@log", gLQ + "line-filter-regex@log", gLQ + "line-filter-regex-literal@log"},
	"logql|SimpleLabelFilter|Label":    {gLQ + "label-filter-name", gLQ + "label-filter-name-num", gLQ + "label-filter-name-after-json"},
	"logql|SimpleLabelFilter|StrVal":   {gLQ + "label-filter-eq@log", gLQ + "label-filter-regex@log", gLQ + "label-filter-after-json@log"},
	"logql|SimpleLabelFilter|NumVal":   {gLQ + "num/label-filter"},
	"logql|ParserParam|Label":          {gLQ + "json-label-name", gLQ + "unwrap-name-after-json"},
	"logql|ParserParam|Val":            {gLQ + "json-path-bracket@log", gLQ + "json-path-quoted-first@log", gLQ + "json-path-quoted-last@log", gLQ + "json-path-quoted-second-param@log", gLQ + "json-path-outer-ticked@log", gLQ + "json-path-ident", gLQ + "regexp-pattern@log", gLQ + "regexp-group-name", gLQ + "logfmt-param@log"},
	"logql|LineFormat|Val":             {gLQ + "line-format@log"},
	"logql|LabelFormatOp|Label":        {gLQ + "label-format-name"},
	"logql|LabelFormatOp|LabelVal":     {gLQ + "label-format-src"},
	"logql|LabelFormatOp|ConstVal":     {gLQ + "label-format-const@log"},
	"logql|Unwrap|Label":               {gLQ + "unwrap-name", gLQ + "unwrap-name-stream-label"},
	"logql|DropParam|Label":            {gLQ + "drop-name", gLQ + "drop-name-value"},
	"logql|DropParam|Val":              {gLQ + "drop-value@log"},
	"logql|LRAOrUnwrap|Time":           {gLQ + "num/range-time"},
	"logql|Comparison|Val":             {gLQ + "num/comparison"},
	"logql|ByOrWithout|Labels":         {gLQ + "by-name", gLQ + "without-name", gLQ + "by-name-lra", gLQ + "by-name-quantile"},
	"logql|MacrosOp|Name":              {gLQ + "macro-name"},
	"logql|MacrosOp|Params":            {gLQ + "macro-param"},
	"logql|TopK|Param":                 {gLQ + "num/topk-param"},
	"logql|QuantileOverTime|Param":     {gLQ + "num/quantile-param"},
	"logql|QuantileOverTime|Time":      {gLQ + "num/quantile-time"},
	"traceql|TraceQLScript|AndOr":      {"=operator tokens && / ||", gTQ + "attr-value-second-selector", gTQ + "attr-value-or-selector"},
	"traceql|AttrSelectorExp|AndOr":    {"=operator tokens && / ||"},
	"traceql|Aggregator|Attr":          {gTQ + "aggregator-attr"},
	"traceql|Aggregator|Num":           {gTQ + "num/aggregator"},
	"traceql|AttrSelector|Label":       {gTQ + "attr-name", gTQ + "attr-name-span", gTQ + "attr-name-num"},
	"traceql|Value|TimeVal":            {gTQ + "num/duration"},
	"traceql|Value|FVal":               {gTQ + "num/number"},
	"traceql|Value|StrVal":             {gTQ + "attr-value-eq", gTQ + "attr-value-regex", gTQ + "attr-value-ticked", gTQ + "name-value"},
	"traceql|QuotedString|Str":         {"=wrapper: covered at its uses"},
	"prof|Selector|Name":               {gPF + "selector-label-name", gPF + "selector-name-pseudo"},
	"prof|Selector|Val":                {gPF + "selector-value-eq", gPF + "selector-value-regex", gPF + "selector-value-ticked", gPF + "selector-profile-type"},
	"prof|Str|Str":                     {"=wrapper: covered at its uses"},
	"jsonpath|jsonPathPart|Ident":      {gLQ + "json-path-ident"},
	"jsonpath|jsonPathPart|Field":      {gLQ + "json-path-bracket@log", gLQ + "json-path-quoted-first@log", gLQ + "json-path-quoted-last@log", gLQ + "json-path-ticked-field@log"},
	"jsonpath|jsonPathPart|Idx":        {gLQ + "num/json-path-index"},
}

// token rules that capture free text / identifier text / numbers and punctuation
var c10TokClass = map[string]string{
	"Quoted_string": "string", "Ticked_string": "string", "QStr": "string", "TStr": "string",
	"Label_name": "ident", "Macros_function": "ident", "Ident": "ident",
	"Integer": "number", "Int": "number", "Dot": "number", "Minus": "number",
	"And": "operator", "Or": "operator",
}

func c10Grammar(r *h.Result, positions []c10Pos) error {
	r.Stream("grammar: Gen.GrammarFields (token-capturing fields of the LogQL / TraceQL / profile-selector / json-path grammars) vs the harness' table field → taint positions")
	ans, err := h.Model([]string{"c10grammar"})
	if err != nil {
		return err
	}
	have := map[string]*c10Pos{}
	for i := range positions {
		have[positions[i].Endpoint+"/"+positions[i].Pos] = &positions[i]
	}
	gen := map[string]bool{}
	for _, e := range strings.Split(ans[0], ";") {
		f := strings.Split(e, "|")
		if len(f) < 5 {
			return fmt.Errorf("c10grammar: entry %q", e)
		}
		lang, st, fld, kind, toks := f[0], f[1], f[2], f[3], strings.Join(f[4:], "|")
		if kind == "enum" {
			r.Count("grammar:enum")
			continue
		}
		key := lang + "|" + st + "|" + fld
		gen[key] = true
		r.Case("grammar:"+key, true)
		cover, ok := c10GrammarCover[key]
		if !ok {
			r.Disagree("grammar", "c10grammar", "no taint position for this grammar field", key+" ("+kind+" "+toks+")", map[string]string{"field": key})
			r.Count("grammar:unknown-to-harness")
			continue
		}
		class := ""
		for _, t := range strings.Split(toks, "|") {
			c, known := c10TokClass[t]
			if !known {
				r.Disagree("grammar", "c10grammar", "token rule of unknown class", key+" captures "+t, map[string]string{"field": key})
				c = "string"
			}
			if class == "" || c == "string" || c == "ident" && class != "string" {
				class = c
			}
		}
		npos := 0
		for _, c := range cover {
			if strings.HasPrefix(c, "=") {
				continue
			}
			p := have[c]
			if p == nil {
				r.Disagree("grammar", "c10grammar", c, "no such taint position", map[string]string{"field": key})
				continue
			}
			npos++
			// a string/identifier field needs a position whose marker is meant to arrive; a number field one that must not
			if (class == "number") != (p.Reach == reachNever) && !(st == "MacrosOp") {
				r.Disagree("grammar", "c10grammar", c, fmt.Sprintf("position reach %d does not fit token class %s", p.Reach, class), map[string]string{"field": key})
			}
		}
		if npos == 0 && (class == "string" || class == "ident" || class == "number") && kind != "wrapper" {
			r.Disagree("grammar", "c10grammar", "only a reason, no position", key, map[string]string{"field": key})
		}
		r.Count("grammar:covered:" + class)
	}
	var stale []string
	for k := range c10GrammarCover {
		if !gen[k] {
			stale = append(stale, k)
		}
	}
	sort.Strings(stale)
	for _, k := range stale {
		r.Disagree("grammar", "c10grammar", k, "not in Gen.GrammarFields", map[string]string{"field": k})
	}
	return nil
}
