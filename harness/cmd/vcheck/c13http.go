package main

import (
	"database/sql/driver"
	"fmt"
	"net/http/httptest"
	"net/url"
	"regexp"
	"strconv"
	"strings"
	"sync"

	"github.com/gorilla/mux"
	rconfig "github.com/metrico/qryn/reader/config"
	rmodel "github.com/metrico/qryn/reader/model"
	rrouter "github.com/metrico/qryn/reader/router"
	"verif/harness/fakes"
	"verif/harness/h"
)

// reader routes over the scripted database; every SQL text is collected
type c13Reader struct {
	app *mux.Router
	mtx sync.Mutex
	sql []string
}

func newC13Reader() *c13Reader {
	c20Setup()
	rd := &c13Reader{app: mux.NewRouter()}
	log := &fakes.CallLog{}
	var reg rmodel.IDBRegistry = fakes.NewDBRegistry(log, func(q string) ([]string, [][]driver.Value, error) {
		rd.mtx.Lock()
		rd.sql = append(rd.sql, q)
		rd.mtx.Unlock()
		return nil, nil, nil
	})
	rrouter.RouteQueryRangeApis(rd.app, reg)
	rrouter.RouteSelectLabels(rd.app, reg)
	rrouter.RouteSelectPrometheusLabels(rd.app, reg)
	rrouter.RoutePrometheusQueryRange(rd.app, reg, rconfig.Cloki.Setting.SYSTEM_SETTINGS.QueryStats)
	rrouter.RouteTempo(rd.app, reg)
	return rd
}

func (rd *c13Reader) get(path string, q url.Values) (int, []string) {
	rd.mtx.Lock()
	rd.sql = nil
	rd.mtx.Unlock()
	req := httptest.NewRequest("GET", path+"?"+q.Encode(), nil)
	w := httptest.NewRecorder()
	rd.app.ServeHTTP(w, req)
	rd.mtx.Lock()
	defer rd.mtx.Unlock()
	return w.Code, append([]string{}, rd.sql...)
}

var tsLower = regexp.MustCompile(`timestamp_ns\) >=? \((\d{16,19})\)`)
var tsUpper = regexp.MustCompile(`timestamp_ns\) <=? \((\d{16,19})\)`)

// c13HTTP: the window a request asks for reaches the data-table scans unshrunk: the lower timestamp bound of
// every statement is not after `start`, the upper bound not before `end` (and neither is widened beyond the slack).
func c13HTTP(r *h.Result, rng *h.Rng, n int) error {
	r.Stream("http-window: real Loki query_range handler over a scripted database: timestamp bounds of the SQL vs the requested start/end (sub-second and second-aligned windows)")
	rd := newC13Reader()
	queries := []string{`{a="b"}`, `{a="b"} |= "x"`, `{a="b"} | c="d"`, `rate({a="b"}[5s])`, `sum by (a) (count_over_time({a="b"}[10s]))`}
	for i := 0; i < n; i++ {
		base := int64(1700000000+rng.Intn(1000000)) * 1e9
		start := base + int64(h.Pick(rng, []int{0, 1, 250000000, 999999999}))
		end := start + int64(h.Pick(rng, []int64{1, 500000000, 1000000000, 1500000000, 60000000000, 3600000000001}))
		q := h.Pick(rng, queries)
		v := url.Values{"query": {q}, "start": {strconv.FormatInt(start, 10)}, "end": {strconv.FormatInt(end, 10)}, "limit": {"10"}, "step": {"5"}}
		code, sqls := rd.get("/loki/api/v1/query_range", v)
		slack := int64(0)
		if strings.Contains(q, "[") {
			slack = 15e9 // metric queries may widen to the range bucket / the 15 s storage step
			if strings.Contains(q, "[10s]") {
				slack = 15e9
			}
		}
		// float64 parsing of the nanosecond parameters loses up to 128 ns: tolerated here, recorded in DESIGN.md
		const fp = 256
		r.Case(fmt.Sprintf("http-window:%s:%d:%d", q, start, end), start%1e9 != 0 || end%1e9 != 0)
		r.Count(fmt.Sprintf("http-window:status=%d", code))
		seen := false
		for _, s := range sqls {
			for _, m := range tsLower.FindAllStringSubmatch(s, -1) {
				seen = true
				lo, _ := strconv.ParseInt(m[1], 10, 64)
				if lo > start+fp || lo < start-slack-1e9-fp {
					r.Violate("C13/http-window/loki-query-range/lower", fmt.Sprintf("query_range start=%d: the samples scan starts at %d", start, lo),
						map[string]any{"stream": "http-window", "query": q, "start": start, "end": end, "sql": s})
				}
			}
			for _, m := range tsUpper.FindAllStringSubmatch(s, -1) {
				hi, _ := strconv.ParseInt(m[1], 10, 64)
				if hi < end-fp-slack || hi > end+slack+fp {
					r.Violate("C13/http-window/loki-query-range/upper", fmt.Sprintf("query_range end=%d: the samples scan ends at %d (entries in the last %d ns of the window are cut off)", end, hi, end-hi),
						map[string]any{"stream": "http-window", "query": q, "start": start, "end": end, "sql": s})
				}
			}
		}
		if !seen {
			r.Count("http-window:no-sql")
		}
		if i%50 == 0 && len(sqls) > 0 {
			r.Sample(map[string]any{"stream": "http-window", "query": q, "start": start, "end": end, "status": code, "sql": truncS(sqls[len(sqls)-1], 400)})
		}
	}
	return nil
}
