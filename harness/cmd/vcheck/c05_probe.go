package main

// C05 "declared-size probes": bodies that DECLARE large sizes or depths without carrying them — protobuf length
// prefixes of 2^31−1 … 2^63−1 (top level, nested, in a packed field), unterminated groups, deep nesting of
// messages / JSON arrays / JSON objects, huge JSON numbers and string escapes, multipart boundaries and part headers —
// on every route, plain, snappy-wrapped (where the route unsnaps) and gzip-wrapped. No model: liveness oracle and the
// allocation oracle of c05_alloc.go (a parser that pre-allocates from a declared count or recurses without a
// bound shows up as C05/alloc-amplification/<route>, C05/crash or C05/hang). Deterministic, the same in every tier.

import (
	"bytes"
	"fmt"
	"strings"

	"github.com/golang/snappy"
)

type c05Probe struct {
	shape string
	body  []byte
}

func c05ProtoProbes() []c05Probe {
	lenPrefix := func(tag byte, v uint64) []byte { return append([]byte{tag}, c05Uvarint(v)...) }
	var out []c05Probe
	for _, v := range []uint64{1<<31 - 1, 1<<32 - 1, 1 << 40, 1<<63 - 1, 1<<64 - 1} {
		for _, tag := range []byte{0x0a, 0x12, 0x1a, 0x22, 0x2a} { // fields 1..5, wire type LEN
			out = append(out, c05Probe{fmt.Sprintf("proto-field-%d-declares-%d", tag>>3, v), append(lenPrefix(tag, v), 'a', 'b', 'c')})
		}
		// nested: field 1 { field 1 { LEN v } }, with honest outer lengths
		inner := append(lenPrefix(0x0a, v), 'x')
		mid := append(lenPrefix(0x0a, uint64(len(inner))), inner...)
		outer := append(lenPrefix(0x0a, uint64(len(mid))), mid...)
		out = append(out, c05Probe{fmt.Sprintf("proto-nested-declares-%d", v), outer})
	}
	// deep nesting of field 1 / field 2 / field 5 messages (honest lengths), below and above protobuf-go's recursion limit
	for _, depth := range []int{100, 5000, 9999, 10001, 100000} {
		for _, tag := range []byte{0x0a, 0x12, 0x2a} {
			b := []byte{}
			for i := 0; i < depth; i++ {
				b = append(lenPrefix(tag, uint64(len(b))), b...)
				if len(b) > 4<<20 {
					break
				}
			}
			out = append(out, c05Probe{fmt.Sprintf("proto-depth-%d-field-%d", depth, tag>>3), b})
		}
	}
	out = append(out, c05Probe{"proto-group-starts", bytes.Repeat([]byte{0x0b}, 20000)})
	out = append(out, c05Probe{"proto-varint-flood", bytes.Repeat([]byte{0x08, 0xff, 0xff, 0xff, 0xff, 0xff, 0xff, 0xff, 0xff, 0xff, 0x01}, 2000)})
	return out
}

func c05JsonProbes() []c05Probe {
	deep := func(open, close string, n int) []byte { return []byte(strings.Repeat(open, n) + strings.Repeat(close, n)) }
	return []c05Probe{
		{"json-array-depth-100000", deep("[", "]", 100000)},
		{"json-array-depth-100000-open", []byte(strings.Repeat("[", 100000))},
		{"json-object-depth-50000", []byte(strings.Repeat(`{"a":`, 50000) + "1" + strings.Repeat("}", 50000))},
		{"json-streams-depth", []byte(`{"streams":` + strings.Repeat("[", 50000))},
		{"json-streams-values-depth", []byte(`{"streams":[{"stream":{"a":"b"},"values":` + strings.Repeat("[", 50000))},
		{"json-number-1e6-digits", []byte(`{"streams":[{"stream":{"a":"b"},"values":[["` + strings.Repeat("9", 1000000) + `","x"]]}]}`)},
		{"json-exponent", []byte(`[{"traceId":"1","id":"1","timestamp":1e999999999,"duration":1E-999999999}]`)},
		{"json-unicode-escapes", []byte(`{"streams":[{"stream":{"a":"` + strings.Repeat(`\ud800`, 50000) + `"},"values":[["1700000000000000000","x"]]}]}`)},
		{"json-key-1MiB", []byte(`{"` + strings.Repeat("k", 1<<20) + `":1}`)},
		{"ndjson-line-4MiB", []byte(`{"id":"` + strings.Repeat("a", 4<<20) + `"}` + "\n")},
	}
}

type c05ProbeRoute struct {
	name, path, ct string
	kind           string // proto | json | profile
	unsnaps        bool
}

var c05ProbeRoutes = []c05ProbeRoute{
	{"prom-write", "/api/v1/prom/remote/write", "application/x-protobuf", "proto", true},
	{"loki-proto", "/loki/api/v1/push", "application/x-protobuf", "proto", true},
	{"otlp-logs", "/v1/logs", "application/x-protobuf", "proto", false},
	{"otlp-traces", "/v1/traces", "application/x-protobuf", "proto", false},
	{"ingest-profile", "/ingest?name=app&from=1700000000&until=1700000010", "binary/octet-stream", "proto", false},
	{"loki-json", "/loki/api/v1/push", "application/json", "json", false},
	{"elastic-doc", "/idx/_doc", "application/json", "json", false},
	{"elastic-bulk", "/_bulk", "application/x-ndjson", "json", false},
	{"tempo-spans", "/tempo/spans", "application/json", "json", false},
	{"tempo-spans-ndjson", "/api/v2/spans", "ndjson", "json", false},
	{"datadog-logs", "/api/v2/logs", "application/json", "json", false},
	{"datadog-series", "/api/v2/series", "application/json", "json", false},
	{"datadog-cf", "/cf/v1/insert", "application/json", "json", false},
	{"influx", "/influx/api/v2/write", "text/plain", "json", false},
}

func (c *c05Run) probeStream(batchSize int) error {
	r := c.r
	r.Stream("declared-size probes (no model; liveness and allocation oracles): protobuf length prefixes 2^31−1 … 2^64−1 at every level, nesting depth up to 100000 (protobuf, JSON arrays/objects), group floods, 10^6-digit numbers, multipart boundaries and part headers, on every ingest route, plain / snappy-wrapped / gzip-wrapped")
	protos, jsons := c05ProtoProbes(), c05JsonProbes()
	n := 0
	send := func(rt c05ProbeRoute, shape string, body []byte, hdr map[string]string) error {
		out, err := c.send("probe", rt.name, shape, c05Request{"POST", rt.path, hdr, body}, "")
		if err != nil {
			return err
		}
		r.Case(fmt.Sprintf("probe:%s:%s:%s", rt.name, shape, out), true)
		n++
		if n%batchSize == 0 {
			return c.postBatch()
		}
		return nil
	}
	for _, rt := range c05ProbeRoutes {
		probes := jsons
		if rt.kind == "proto" {
			probes = protos
		}
		for _, p := range probes {
			hdr := map[string]string{"Content-Type": rt.ct}
			if err := send(rt, p.shape, p.body, hdr); err != nil {
				return err
			}
			if rt.unsnaps {
				if err := send(rt, p.shape+"+snappy", snappy.Encode(nil, p.body), hdr); err != nil {
					return err
				}
			}
			if rt.name == "ingest-profile" {
				// the binary profile route expects a gzip-compressed pprof
				if err := send(rt, p.shape+"+gzip-payload", c05GzipBytes(p.body), hdr); err != nil {
					return err
				}
			}
			if len(p.body) > 1000 {
				gh := map[string]string{"Content-Type": rt.ct, "Content-Encoding": "gzip"}
				body := p.body
				if rt.unsnaps {
					body = snappy.Encode(nil, body)
				}
				if err := send(rt, p.shape+"+gzip", c05GzipBytes(body), gh); err != nil {
					return err
				}
			}
		}
	}
	// multipart profile route: boundaries and part headers
	mp := c05ProbeRoute{"ingest-profile", "/ingest?name=app&from=1700000000&until=1700000010", "", "profile", false}
	for _, p := range []struct{ shape, ct, body string }{
		{"multipart-boundary-70", "multipart/form-data; boundary=" + strings.Repeat("b", 70), "--" + strings.Repeat("b", 70) + "\r\nContent-Disposition: form-data; name=\"profile\"; filename=\"p\"\r\n\r\nxx\r\n--" + strings.Repeat("b", 70) + "--\r\n"},
		{"multipart-boundary-100000", "multipart/form-data; boundary=" + strings.Repeat("b", 100000), "--x\r\n"},
		{"multipart-part-header-1MiB", "multipart/form-data; boundary=x", "--x\r\nContent-Disposition: form-data; name=\"" + strings.Repeat("n", 1<<20) + "\"\r\n\r\nxx\r\n--x--\r\n"},
		{"multipart-10000-parts", "multipart/form-data; boundary=x", strings.Repeat("--x\r\nContent-Disposition: form-data; name=\"a\"\r\n\r\n1\r\n", 10000) + "--x--\r\n"},
		{"multipart-10000-headers", "multipart/form-data; boundary=x", "--x\r\n" + strings.Repeat("X-H: v\r\n", 10000) + "\r\nxx\r\n--x--\r\n"},
		{"multipart-never-closed", "multipart/form-data; boundary=x", "--x\r\nContent-Disposition: form-data; name=\"profile\"; filename=\"p\"\r\n\r\n" + strings.Repeat("z", 1<<20)},
	} {
		if err := send(mp, p.shape, []byte(p.body), map[string]string{"Content-Type": p.ct}); err != nil {
			return err
		}
	}
	r.CountN("probes-sent", n)
	return c.postBatch()
}
