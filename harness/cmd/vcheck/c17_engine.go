package main

import (
	"context"
	"database/sql/driver"
	"encoding/json"
	"fmt"
	"sort"
	"strings"
	"time"

	"github.com/metrico/qryn/reader/model"
	"github.com/metrico/qryn/reader/service"
	"github.com/prometheus/prometheus/model/labels"
	"github.com/prometheus/prometheus/promql"
	"github.com/prometheus/prometheus/promql/parser"
	"github.com/prometheus/prometheus/storage"
	"github.com/prometheus/prometheus/tsdb/chunkenc"
	fakes "verif/harness/fakes17"
	"verif/harness/h"
)

// ---------------------------------------------------------------------------------------------------
// Stream 6: Prometheus' own engine. The same instant PromQL query is evaluated by promql.Engine (a) over the
// real qryn storage adapter (CLokiQueriable → Select → SQL → reference interpreter → row loop → seriesIt, driven
// by the engine's own Seek/Next pattern) and (b) over an in-memory reference storage holding the same series.
// "A PromQL query over raw samples returns what Prometheus returns for the same samples." Exploration only.

type c17EngCase struct {
	Stream string         `json:"stream"`
	Query  string         `json:"query"`
	At     int64          `json:"at"` // evaluation time, ms
	Series []c17E2ESeries `json:"series"`
	Got    string         `json:"got,omitempty"`
	Want   string         `json:"want,omitempty"`
}

type refSample struct {
	t int64
	v float64
}
type refIt struct {
	s   []refSample
	idx int
}

func (it *refIt) Next() bool { it.idx++; return it.idx < len(it.s) }
func (it *refIt) Seek(t int64) bool {
	if it.idx < 0 {
		it.idx = 0
	}
	for it.idx < len(it.s) && it.s[it.idx].t < t {
		it.idx++
	}
	return it.idx < len(it.s)
}
func (it *refIt) At() (int64, float64) { return it.s[it.idx].t, it.s[it.idx].v }
func (it *refIt) Err() error           { return nil }

type refSeries struct {
	l labels.Labels
	s []refSample
}

func (s refSeries) Labels() labels.Labels       { return s.l }
func (s refSeries) Iterator() chunkenc.Iterator { return &refIt{s: s.s, idx: -1} }

type refSet struct {
	s   []refSeries
	idx int
}

func (s *refSet) Next() bool                 { s.idx++; return s.idx < len(s.s) }
func (s *refSet) At() storage.Series         { return s.s[s.idx] }
func (s *refSet) Err() error                 { return nil }
func (s *refSet) Warnings() storage.Warnings { return nil }

type refStore struct{ series []c17E2ESeries }

func (r refStore) Querier(ctx context.Context, mint, maxt int64) (storage.Querier, error) {
	return refQuerier{r.series, mint, maxt}, nil
}

type refQuerier struct {
	series     []c17E2ESeries
	mint, maxt int64
}

func (q refQuerier) Select(sortSeries bool, hints *storage.SelectHints, ms ...*labels.Matcher) storage.SeriesSet {
	var out []refSeries
	for _, s := range q.series {
		if s.Type != 2 && s.Type != 0 {
			continue
		}
		var ls labels.Labels
		for _, kv := range s.Labels {
			ls = append(ls, labels.Label{Name: kv[0], Value: kv[1]})
		}
		sort.Sort(ls)
		ok := true
		for _, m := range ms {
			if !m.Matches(ls.Get(m.Name)) {
				ok = false
			}
		}
		if !ok {
			continue
		}
		sm := append([][2]int64(nil), s.Samples...)
		sort.SliceStable(sm, func(i, j int) bool { return sm[i][0] < sm[j][0] })
		rs := refSeries{l: ls}
		for _, x := range sm {
			if x[0] >= q.mint && x[0] <= q.maxt {
				rs.s = append(rs.s, refSample{x[0], float64(x[1])})
			}
		}
		if len(rs.s) > 0 {
			out = append(out, rs)
		}
	}
	sort.Slice(out, func(i, j int) bool { return labels.Compare(out[i].l, out[j].l) < 0 })
	return &refSet{s: out, idx: -1}
}
func (q refQuerier) LabelValues(string, ...*labels.Matcher) ([]string, storage.Warnings, error) {
	return nil, nil, nil
}
func (q refQuerier) LabelNames(...*labels.Matcher) ([]string, storage.Warnings, error) {
	return nil, nil, nil
}
func (q refQuerier) Close() error { return nil }

func c17ResultCanon(res *promql.Result) string {
	if res.Err != nil {
		return "err: " + res.Err.Error()
	}
	var lines []string
	switch v := res.Value.(type) {
	case promql.Vector:
		for _, s := range v {
			lines = append(lines, fmt.Sprintf("%s => %v @%d", s.Metric, s.V, s.T))
		}
	case promql.Matrix:
		for _, s := range v {
			lines = append(lines, fmt.Sprintf("%s => %v", s.Metric, s.Points))
		}
	case promql.Scalar:
		lines = append(lines, fmt.Sprintf("scalar %v @%d", v.V, v.T))
	default:
		lines = append(lines, res.Value.String())
	}
	sort.Strings(lines)
	return strings.Join(lines, "\n")
}

var c17Engine = promql.NewEngine(promql.EngineOpts{MaxSamples: 10000000, Timeout: 30 * time.Second})

func c17RunEngine(r *h.Result, sc *fakes.Script, c *c17EngCase) error {
	e2e := &c17E2ECase{Series: c.Series}
	db := c17BuildDB(e2e)
	var execErr error
	sc.SetResponder(func(qs string) ([]string, [][]driver.Value, error) {
		if strings.Contains(qs, "FROM settings") || strings.HasPrefix(strings.TrimSpace(qs), "SHOW TABLES") {
			return []string{"a", "b"}, nil, nil
		}
		cols, rows, err := db.Exec(qs)
		if err != nil {
			execErr = fmt.Errorf("%v in: %s", err, qs)
			return nil, nil, err
		}
		return cols, fakes.DriverRows(rows), nil
	})
	ctx := context.Background()
	adapter := (&service.CLokiQueriable{ServiceData: model.ServiceData{Session: sc.Registry("c17-engine", "")}}).SetOidAndDB(ctx)
	at := time.UnixMilli(c.At)
	run := func(q storage.Queryable) (string, error) {
		qry, err := c17Engine.NewInstantQuery(q, nil, c.Query, at)
		if err != nil {
			return "", err
		}
		defer qry.Close()
		return c17ResultCanon(qry.Exec(ctx)), nil
	}
	got, err := run(adapter)
	if err != nil {
		return fmt.Errorf("generator made an invalid query %q: %v", c.Query, err)
	}
	if execErr != nil {
		return fmt.Errorf("reference interpreter: %v", execErr)
	}
	want, err := run(refStore{c.Series})
	if err != nil {
		return err
	}
	if got == want {
		return nil
	}
	c.Got, c.Want = got, want
	// does the recorded finding (a matcher accepting the empty value on an absent label) explain it?
	key := "C17/engine-result-differs"
	if expr, err := parser.ParseExpr(c.Query); err == nil {
		parser.Inspect(expr, func(n parser.Node, _ []parser.Node) error {
			if vs, ok := n.(*parser.VectorSelector); ok {
				for _, s := range c.Series {
					if s.Type != 2 && s.Type != 0 {
						continue
					}
					var ls labels.Labels
					for _, kv := range s.Labels {
						ls = append(ls, labels.Label{Name: kv[0], Value: kv[1]})
					}
					all := true
					for _, m := range vs.LabelMatchers {
						if !m.Matches(ls.Get(m.Name)) {
							all = false
						}
					}
					if all && !c17IdxSel(s, vs.LabelMatchers, true) {
						key = "C17/select-matcher-on-absent-label"
					}
				}
			}
			return nil
		})
	}
	r.Violate(key, fmt.Sprintf("%q at %d: the engine over the qryn adapter returns\n%s\nover the reference storage\n%s", c.Query, c.At, got, want), *c)
	return nil
}

func c17GenEngine(rng *h.Rng) c17EngCase {
	c := c17EngCase{Stream: "engine", At: c17Base + int64(rng.Intn(4))*15000 + int64(rng.Intn(3))*7}
	nser := rng.Range(1, 6)
	seen := map[string]bool{}
	fp := uint64(rng.Range(1, 50))
	for i := 0; i < nser; i++ {
		s := c17E2ESeries{Fp: fp, Type: 2}
		fp += uint64(rng.Range(1, 1000))
		for _, n := range c17Names {
			if n == "__name__" {
				s.Labels = append(s.Labels, [2]string{n, h.Pick(rng, []string{"m", "m", "up"})})
			} else if n != "a" && rng.Chance(60) {
				s.Labels = append(s.Labels, [2]string{n, h.Pick(rng, c17Vals[n])})
			}
		}
		key := fmt.Sprint(s.Labels)
		if seen[key] {
			continue
		}
		seen[key] = true
		// samples: a run ending around the evaluation time, irregular spacing, some exactly on window edges
		ns := rng.Range(0, 40)
		ts := c.At - int64(rng.Range(0, 400000))
		val := int64(rng.Intn(50))
		for j := 0; j < ns; j++ {
			s.Samples = append(s.Samples, [2]int64{ts, val})
			switch rng.Intn(6) {
			case 0:
				ts += 1
			case 1:
				ts += 15000
			case 2:
				ts += int64(rng.Range(2, 60000))
			default:
				ts += 5000
			}
			val += int64(rng.Range(0, 5))
			if rng.Chance(5) {
				val = 0 // counter reset
			}
		}
		for _, edge := range []int64{c.At, c.At - 300000, c.At - 60000, c.At - 30000} {
			if rng.Chance(15) {
				dup := false
				for _, x := range s.Samples {
					if x[0] == edge {
						dup = true
					}
				}
				if !dup {
					s.Samples = append(s.Samples, [2]int64{edge, val})
				}
			}
		}
		c.Series = append(c.Series, s)
	}
	sel := h.Pick(rng, []string{"m", "up", `{__name__=~"m|up"}`, `m{job="x"}`, `m{job=~"x.*"}`, `m{job!="",env=~"p.*"}`, `m{instance=~"i[12]"}`, `{__name__="m",job=~"x|y"}`, `m{job!~"x",job!=""}`})
	rngSel := h.Pick(rng, []string{"30s", "1m", "5m", "45s", "15s"})
	switch rng.Intn(12) {
	case 0, 1:
		c.Query = sel
	case 2:
		c.Query = sel + "[" + rngSel + "]"
	case 3:
		c.Query = "rate(" + sel + "[" + rngSel + "])"
	case 4:
		c.Query = h.Pick(rng, []string{"sum_over_time", "count_over_time", "max_over_time", "min_over_time", "avg_over_time", "last_over_time"}) + "(" + sel + "[" + rngSel + "])"
	case 5:
		c.Query = "sum(" + sel + ")"
	case 6:
		c.Query = "sum by (job) (rate(" + sel + "[" + rngSel + "]))"
	case 7:
		c.Query = sel + " offset " + h.Pick(rng, []string{"10s", "1m", "30s"})
	case 8:
		c.Query = "timestamp(" + sel + ")"
	case 9:
		c.Query = "increase(" + sel + "[" + rngSel + "])"
	case 10:
		c.Query = "count(" + sel + ") by (env)"
	default:
		c.Query = "delta(" + sel + "[" + rngSel + "]) + 0"
	}
	return c
}

func c17EngineStream(r *h.Result, rng *h.Rng, n int) error {
	r.Stream("engine: promql.Engine instant queries over the real adapter (CLokiQueriable → Select → SQL → reference interpreter → row loop → seriesIt under the engine's own Seek/Next pattern) vs the same engine over an in-memory reference storage with the same series")
	sc := fakes.NewScript(nil)
	defer sc.Close()
	for i := 0; i < n; i++ {
		c := c17GenEngine(rng)
		if err := c17RunEngine(r, sc, &c); err != nil {
			return err
		}
		b, _ := json.Marshal(c.Series)
		r.Case("engine:"+c.Query+string(b), strings.ContainsAny(c.Query, "[("))
		switch {
		case strings.Contains(c.Query, "["):
			r.Count("engine:range-selector")
		default:
			r.Count("engine:instant-selector")
		}
		if i%53 == 0 {
			c.Series = nil
			r.Sample(c)
		}
	}
	return nil
}

func init() {
	c17Streams = append(c17Streams, func(r *h.Result, rng *h.Rng, tier string) error {
		n := 150
		if tier != "quick" {
			n = 5000
		}
		r.Rule += "; engine: 1..6 metric series (names m/up, labels job/env/instance), 0..40 samples at irregular spacing (1 ms … 60 s) ending near the evaluation time plus samples exactly at t, t−30s, t−1m, t−5m; instant evaluation of selectors, range selectors, rate/increase/delta/*_over_time, sum/count by, offset, timestamp; non-trivial = a function or range selector"
		return c17EngineStream(r, rng, n)
	})
	c17ReplayMore["engine"] = func(r *h.Result, raw json.RawMessage) error {
		var c c17EngCase
		if err := json.Unmarshal(raw, &c); err != nil {
			return err
		}
		sc := fakes.NewScript(nil)
		defer sc.Close()
		r.Case("replay", true)
		return c17RunEngine(r, sc, &c)
	}
}
