package main

// C04 zones stream: the date a series row is stored under and the date bounds the readers put into their
// SQL, observed in child processes running with TZ=<zone>.

import (
	"encoding/json"
	"fmt"
	"os"
	"os/exec"
	"regexp"
	"strconv"
	"time"

	"github.com/ClickHouse/ch-go/proto"
	"github.com/metrico/qryn/reader/logql/logql_transpiler_v2/clickhouse_planner"
	"github.com/metrico/qryn/reader/logql/logql_transpiler_v2/shared"
	sql "github.com/metrico/qryn/reader/utils/sql_select"
	"github.com/metrico/qryn/writer/utils/unmarshal"
	"verif/harness/h"
)

// c04ToDate: what impl.NewTimeSeriesInsertService.ProcessRequest stores for MDate: `acquirer.Date.Data.Append(d)`
func c04ToDate(t time.Time) uint16 {
	var col proto.ColDate
	col.Append(t)
	return uint16(col[0])
}

type c04ZCase struct {
	Ts   int64 `json:"ts_ns"`
	From int64 `json:"from_ns"`
	To   int64 `json:"to_ns"`
}
type c04ZOut struct {
	Off         int    `json:"off"`    // zone offset of the process at ts
	OffTo       int    `json:"off_to"` // … at `to`
	Stored      uint16 `json:"stored"`
	MDate       string `json:"mdate"`
	Lower       string `json:"lower"`
	UpperSeries string `json:"upper_series"`
	UpperValues string `json:"upper_values"`
	Err         string `json:"err,omitempty"`
}
type c04ZFile struct {
	Zone  string     `json:"zone"`
	Cases []c04ZCase `json:"cases"`
	Out   []c04ZOut  `json:"out,omitempty"`
}

type c04FpPlanner struct{}

func (c04FpPlanner) Process(ctx *shared.PlannerContext) (sql.ISelect, error) {
	return sql.NewSelect().Select(sql.NewRawObject("fingerprint")).From(sql.NewRawObject("time_series_gin")), nil
}

var c04GeRe = regexp.MustCompile(`date\)?\s*>=\s*\(?'([^']*)'`)
var c04LeRe = regexp.MustCompile(`date\)?\s*<=\s*\(?'([^']*)'`)

func c04Bounds(p shared.SQLRequestPlanner, from, to int64) (string, string, error) {
	ctx := &shared.PlannerContext{From: time.Unix(0, from), To: time.Unix(0, to), TimeSeriesTableName: "time_series",
		TimeSeriesDistTableName: "time_series_dist", TimeSeriesGinTableName: "time_series_gin", Type: 1}
	sel, err := p.Process(ctx)
	if err != nil {
		return "", "", err
	}
	s, err := sel.String(sql.DefaultCtx())
	if err != nil {
		return "", "", err
	}
	ge := c04GeRe.FindStringSubmatch(s)
	le := c04LeRe.FindStringSubmatch(s)
	if ge == nil || le == nil {
		return "", "", fmt.Errorf("date bounds not found in %q", s)
	}
	return ge[1], le[1], nil
}

// c04ZoneChild runs in a process started with TZ=<zone>: `vcheck C04zone -replay <cases file>`; writes <file>.out
func c04ZoneChild(r *h.Result, rng *h.Rng, tier string, replay string) error {
	c04Setup()
	b, err := os.ReadFile(replay)
	if err != nil {
		return err
	}
	var f c04ZFile
	if err := json.Unmarshal(b, &f); err != nil {
		return err
	}
	if time.Local.String() != f.Zone && !(f.Zone == "UTC" && time.Local.String() == "UTC") {
		return fmt.Errorf("child runs in zone %q, wanted %q (zone data missing?)", time.Local.String(), f.Zone)
	}
	series := clickhouse_planner.NewSeriesPlanner(c04FpPlanner{})
	values := clickhouse_planner.NewValuesPlanner(c04FpPlanner{}, "k")
	for _, c := range f.Cases {
		var o c04ZOut
		_, o.Off = time.Unix(0, c.Ts).Zone()
		_, o.OffTo = time.Unix(0, c.To).Zone()
		body := []byte(fmt.Sprintf(`{"streams":[{"stream":{"a":"b"},"values":[["%d","l"]]}]}`, c.Ts))
		out := c04Run(unmarshal.DecodePushRequestStringV2, body, newC04Cache())
		if out.Err != "" || len(out.Series) != 1 {
			o.Err = fmt.Sprintf("parser: err=%q series=%d", out.Err, len(out.Series))
		} else {
			o.Stored = out.Series[0].Stored
			o.MDate = time.Unix(out.Series[0].Date, 0).String()
		}
		lo, up, err := c04Bounds(series, c.From, c.To)
		if err != nil {
			o.Err += " series planner: " + err.Error()
		}
		lo2, up2, err := c04Bounds(values, c.From, c.To)
		if err != nil {
			o.Err += " values planner: " + err.Error()
		}
		if lo != lo2 {
			o.Err += fmt.Sprintf(" lower bounds differ: %s %s", lo, lo2)
		}
		if lo3 := clickhouse_planner.FormatFromDate(time.Unix(0, c.From)); lo3 != lo {
			o.Err += fmt.Sprintf(" FormatFromDate=%s but the planner wrote %s", lo3, lo)
		}
		o.Lower, o.UpperSeries, o.UpperValues = lo, up, up2
		f.Out = append(f.Out, o)
	}
	ob, _ := json.Marshal(f)
	return os.WriteFile(replay+".out", ob, 0o644)
}

func c04DayOf(date string) (int64, error) {
	t, err := time.ParseInLocation("2006-01-02", date, time.UTC)
	if err != nil {
		return 0, err
	}
	u := t.Unix()
	if u < 0 {
		return -((-u + 86399) / 86400), nil
	}
	return u / 86400, nil
}

type c04ZoneReplay struct {
	Stream string `json:"stream"`
	WZone  string `json:"writer_zone"`
	RZone  string `json:"reader_zone"`
	c04ZCase
}

func c04ZoneCases(rng *h.Rng, zones []string, tier string) ([]c04ZCase, error) {
	dates := [][3]int{{1970, 1, 1}, {2024, 1, 2}, {2024, 3, 10}, {2024, 11, 3}, {2024, 3, 31}, {2024, 1, 1}, {2038, 1, 19}}
	var tss []int64
	add := func(t int64) {
		if t >= 0 {
			tss = append(tss, t)
		}
	}
	for _, d := range dates {
		u := time.Date(d[0], time.Month(d[1]), d[2], 0, 0, 0, 0, time.UTC).UnixNano()
		add(u - 1)
		add(u)
		add(u + 1)
		add(u + 12*3600*1e9)
		for _, z := range zones {
			loc, err := time.LoadLocation(z)
			if err != nil {
				return nil, fmt.Errorf("zone %s: %v", z, err)
			}
			l := time.Date(d[0], time.Month(d[1]), d[2], 0, 0, 0, 0, loc).UnixNano()
			add(l - 1)
			add(l)
			add(l + 1)
		}
	}
	nRand := 20
	if tier != "quick" {
		nRand = 400
	}
	for i := 0; i < nRand; i++ {
		add(int64(rng.Intn(2100000000))*1e9 + int64(rng.Intn(1e9)))
	}
	const sec, min30, day = int64(1e9), int64(1800e9), int64(86400e9)
	margins := [][2]int64{{0, 0}, {1, 1}, {sec, 0}, {0, sec}, {min30 - sec, sec}, {min30 + sec, 0}, {day, day}}
	var cases []c04ZCase
	for _, t := range tss {
		for _, m := range margins {
			cases = append(cases, c04ZCase{Ts: t, From: t - m[0], To: t + m[1]})
		}
	}
	return cases, nil
}

func c04ZoneStream(r *h.Result, rng *h.Rng, zones []string, tier string, only *c04ZoneReplay) error {
	r.Stream("zones: child processes with TZ=<zone>: real parser → MDate → ch-go ColDate.Append (stored date) vs SeriesIndex.seriesDate; real SeriesPlanner/ValuesPlanner SQL date bounds vs readerLower/readerUpper; oracle: for every (writer zone, reader zone) and ts ∈ [from, to]: lower ≤ stored ≤ upper")
	var cases []c04ZCase
	if only != nil {
		zones = []string{only.WZone}
		if only.RZone != only.WZone {
			zones = append(zones, only.RZone)
		}
		cases = []c04ZCase{only.c04ZCase}
	} else {
		var err error
		if cases, err = c04ZoneCases(rng, zones, tier); err != nil {
			return err
		}
	}
	dir, err := os.MkdirTemp("", "c04zone")
	if err != nil {
		return err
	}
	defer os.RemoveAll(dir)
	outs := map[string][]c04ZOut{}
	for _, z := range zones {
		f := c04ZFile{Zone: z, Cases: cases}
		b, _ := json.Marshal(f)
		path := fmt.Sprintf("%s/%d.json", dir, len(outs))
		if err := os.WriteFile(path, b, 0o644); err != nil {
			return err
		}
		cmd := exec.Command(os.Args[0], "C04zone", "-replay", path, "-driver", h.DriverPath)
		cmd.Env = append(os.Environ(), "TZ="+z)
		if o, err := cmd.CombinedOutput(); err != nil {
			return fmt.Errorf("zone child %s: %v: %s", z, err, o)
		}
		ob, err := os.ReadFile(path + ".out")
		if err != nil {
			return err
		}
		var of c04ZFile
		if err := json.Unmarshal(ob, &of); err != nil {
			return err
		}
		if len(of.Out) != len(cases) {
			return fmt.Errorf("zone child %s answered %d of %d cases", z, len(of.Out), len(cases))
		}
		outs[z] = of.Out
		r.Count("zones:child:" + z)
	}
	// ---- model
	var ops, impl []string
	var cs []any
	for _, z := range zones {
		for i, c := range cases {
			o := outs[z][i]
			rep := c04ZoneReplay{"zones", z, z, c}
			if o.Err != "" {
				r.Violate("C04/zone-child-error", fmt.Sprintf("TZ=%s: %s", z, o.Err), rep)
				continue
			}
			lo, err1 := c04DayOf(o.Lower)
			up, err2 := c04DayOf(o.UpperSeries)
			if err1 != nil || err2 != nil {
				return fmt.Errorf("bad date from the planner: %q %q", o.Lower, o.UpperSeries)
			}
			if o.UpperSeries != o.UpperValues {
				r.Disagree("zones/upper", "series vs values planner", o.UpperSeries, o.UpperValues, rep)
			}
			ops = append(ops, fmt.Sprintf("c04date %d %d", o.Off, c.Ts), fmt.Sprintf("c04bounds %d %d %d", o.OffTo, c.From, c.To))
			impl = append(impl, strconv.Itoa(int(o.Stored)), fmt.Sprintf("%d %d", lo, up))
			cs = append(cs, rep, rep)
			near := false
			for _, off := range []int64{0, int64(o.Off)} {
				m := ((c.Ts/1e9+off)%86400 + 86400) % 86400
				if m <= 1 || m >= 86399 {
					near = true
				}
			}
			r.Case(fmt.Sprintf("zones:%s:%d:%d:%d", z, c.Ts, c.From, c.To), near)
			if near {
				r.Count("zones:near-midnight")
			} else {
				r.Count("zones:mid-day")
			}
		}
	}
	if err := r.Compare("zones", ops, impl, cs); err != nil {
		return err
	}
	// ---- oracle over all (writer zone, reader zone) pairs
	for _, wz := range zones {
		for _, rz := range zones {
			for i, c := range cases {
				w, rd := outs[wz][i], outs[rz][i]
				if w.Err != "" || rd.Err != "" || !(c.From <= c.Ts && c.Ts <= c.To) {
					continue
				}
				lo, _ := c04DayOf(rd.Lower)
				rep := c04ZoneReplay{"zones", wz, rz, c}
				if int64(w.Stored) < lo {
					r.Violate("C04/series-date-before-reader-lower-bound", fmt.Sprintf("writer TZ=%s stores the series row of a sample at %s under date %s (%d); reader TZ=%s asks date >= '%s' for the window [%s, %s]",
						wz, time.Unix(0, c.Ts).UTC().Format(time.RFC3339Nano), proto.Date(w.Stored), w.Stored, rz, rd.Lower, time.Unix(0, c.From).UTC().Format(time.RFC3339Nano), time.Unix(0, c.To).UTC().Format(time.RFC3339Nano)), rep)
				}
				for _, ups := range []string{rd.UpperSeries, rd.UpperValues} {
					up, _ := c04DayOf(ups)
					if int64(w.Stored) > up {
						r.Violate("C04/series-date-after-reader-upper-bound", fmt.Sprintf("writer TZ=%s stores the series row of a sample at %s under date %s (%d); reader TZ=%s asks date <= '%s' for the window [%s, %s]",
							wz, time.Unix(0, c.Ts).UTC().Format(time.RFC3339Nano), proto.Date(w.Stored), w.Stored, rz, ups, time.Unix(0, c.From).UTC().Format(time.RFC3339Nano), time.Unix(0, c.To).UTC().Format(time.RFC3339Nano)), rep)
					}
				}
			}
		}
	}
	if only == nil {
		r.Sample(map[string]any{"stream": "zones", "zones": zones, "cases_per_zone": len(cases)})
	}
	return nil
}
