package main

import (
	"fmt"
	"reflect"
	"strconv"
	"strings"

	"github.com/metrico/qryn/reader/logql/logql_parser"
	"github.com/metrico/qryn/reader/logql/logql_transpiler_v2/clickhouse_planner"
	"github.com/metrico/qryn/reader/logql/logql_transpiler_v2/shared"
	"verif/harness/h"
)

// The planner object clickhouse_planner.Plan returns is a chain of exported planner structs linked by their
// `Main` fields. Walking it shows which stages were planned and in which order, on the real code.

func fieldIface(v reflect.Value, name string) any {
	f := v.FieldByName(name)
	if !f.IsValid() || !f.CanInterface() {
		return nil
	}
	if (f.Kind() == reflect.Interface || f.Kind() == reflect.Ptr) && f.IsNil() {
		return nil
	}
	return f.Interface()
}

func strField(v reflect.Value, name string) string {
	f := v.FieldByName(name)
	if !f.IsValid() {
		return "?"
	}
	return fmt.Sprint(f.Interface())
}

// chainOf: planner names from the innermost to the outermost, and the fingerprint planner of the innermost
func chainOf(p any) (names []string, fp any, err error) {
	for p != nil {
		v := reflect.ValueOf(p)
		if v.Kind() == reflect.Ptr {
			v = v.Elem()
		}
		if v.Kind() != reflect.Struct {
			return nil, nil, fmt.Errorf("planner of kind %s", v.Kind())
		}
		t := v.Type().Name()
		name := t
		switch t {
		case "LRAPlanner", "UnwrapFunctionPlanner", "AggOpPlanner":
			name += "(" + strField(v, "Func") + ")"
		case "Metrics15ShortcutPlanner":
			name += "(" + strField(v, "Function") + ")"
		case "ComparisonPlanner":
			name += "(" + strField(v, "Fn") + ")"
		case "ByWithoutPlanner":
			name += "(" + strField(v, "By") + ":" + strings.Join(v.FieldByName("Labels").Interface().([]string), ",") + ")"
		case "TopKPlanner":
			name += "(" + strField(v, "IsTop") + "," + strField(v, "Len") + ")"
		case "LineFilterPlanner":
			name += "(" + strField(v, "Op") + ")"
		case "UnwrapPlanner":
			name += "(" + strField(v, "Label") + ")"
		case "ParserPlanner":
			name += "(" + strField(v, "Op") + ")"
		case "PlannerDrop":
			name += "(" + strings.Join(v.FieldByName("Labels").Interface().([]string), ",") + ")"
		case "QuantilePlanner":
			name += "(" + strconv.FormatFloat(v.FieldByName("Param").Float(), 'g', -1, 64) + ")"
		}
		names = append([]string{name}, names...)
		next := fieldIface(v, "Main")
		if t == "FingerprintFilterPlanner" {
			fp = fieldIface(v, "FingerprintsSelectPlanner")
			next = fieldIface(v, "MainRequestPlanner")
		}
		if t == "SqlMainInitPlanner" || t == "Metrics15ShortcutPlanner" {
			next = nil
		}
		p = next
	}
	return names, fp, nil
}

func fpChainOf(p any) (n int, err error) {
	for p != nil {
		v := reflect.ValueOf(p)
		if v.Kind() == reflect.Ptr {
			v = v.Elem()
		}
		switch v.Type().Name() {
		case "SimpleLabelFilterPlanner":
			n++
			p = fieldIface(v, "FPSel")
		case "StreamSelectPlanner":
			return n, nil
		default:
			return 0, fmt.Errorf("fingerprint planner %s", v.Type().Name())
		}
	}
	return n, nil
}

func groupingName(bs ...*logql_parser.ByOrWithout) string {
	var g *logql_parser.ByOrWithout
	for _, b := range bs {
		if b != nil {
			g = b
		}
	}
	if g == nil {
		return ""
	}
	return fmt.Sprintf("ByWithoutPlanner(%v:%s)", strings.ToLower(g.Fn) == "by", strings.Join(g.LabelNames(), ","))
}

// writtenStages: what the query text says, innermost first — the oracle's expectation, read off the real AST
func writtenStages(s *logql_parser.LogQLScript, shortcut bool) (matrix []string, lineFilters []string, labelFilters int, unwrap string) {
	ra := rangeOf(s)
	for _, p := range ra.StrSel.Pipelines {
		switch {
		case p.LineFilter != nil:
			v, _ := p.LineFilter.Val.Unquote()
			trivial := v == "" && (p.LineFilter.Fn == "|=" || p.LineFilter.Fn == "|~")
			if !(shortcut && trivial) { // a filter that passes every line may be skipped by the shortcut
				lineFilters = append(lineFilters, "LineFilterPlanner("+p.LineFilter.Fn+")")
			}
		case p.LabelFilter != nil:
			labelFilters++
		case p.Unwrap != nil:
			unwrap = p.Unwrap.Label.Name
		}
	}
	cmp := func(c *logql_parser.Comparison) {
		if c != nil {
			matrix = append(matrix, "ComparisonPlanner("+c.Fn+")")
		}
	}
	switch {
	case unwrap != "":
		if g := groupingName(ra.ByOrWithoutPrefix, ra.ByOrWithoutSuffix); g != "" {
			matrix = append(matrix, g)
		}
		matrix = append(matrix, "UnwrapFunctionPlanner("+ra.Fn+")")
	case shortcut:
		matrix = append(matrix, "Metrics15ShortcutPlanner("+ra.Fn+")")
	default:
		matrix = append(matrix, "LRAPlanner("+ra.Fn+")")
	}
	cmp(ra.Comparison)
	var agg *logql_parser.AggOperator
	if s.AggOperator != nil {
		agg = s.AggOperator
	}
	if s.TopK != nil {
		agg = s.TopK.AggOperator
	}
	if agg != nil {
		if g := groupingName(agg.ByOrWithoutPrefix, agg.ByOrWithoutSuffix); g != "" {
			matrix = append(matrix, g)
		} else {
			// no grouping clause = by (): everything into the series of the empty label set
			matrix = append(matrix, "ByWithoutPlanner(true:)")
		}
		matrix = append(matrix, "AggOpPlanner("+agg.Fn+")")
		cmp(agg.Comparison)
	}
	if s.TopK != nil {
		k, _ := strconv.Atoi(s.TopK.Param)
		matrix = append(matrix, fmt.Sprintf("TopKPlanner(%v,%d)", s.TopK.Fn == "topk", k))
		cmp(s.TopK.Comparison)
	}
	return
}

var matrixPlanners = map[string]bool{"LRAPlanner": true, "UnwrapFunctionPlanner": true, "Metrics15ShortcutPlanner": true,
	"ComparisonPlanner": true, "ByWithoutPlanner": true, "AggOpPlanner": true, "TopKPlanner": true}

func baseName(n string) string {
	if i := strings.Index(n, "("); i >= 0 {
		return n[:i]
	}
	return n
}

// c08Chain: the planner chain of the real Plan vs the model's planSteps, and the stage oracle
func c08Chain(r *h.Result, rng *h.Rng, n int, g mgen) error {
	r.Stream("chain: logql_parser.Parse → clickhouse_planner.Plan → planner chain read by reflection (stages planned, order, fingerprint-side label filters) vs LogQL.planSteps/takesShortcut")
	var ops, impl []string
	var cases []any
	for i := 0; i < n; i++ {
		query := genMetricQuery(rng, g)
		script, err := logql_parser.Parse(query)
		if err != nil {
			continue
		}
		ser, err := serMetric(script)
		if err != nil {
			continue
		}
		op, im, cs, err := chainCase(r, query, script, ser, i%101 == 0)
		if err != nil {
			return err
		}
		if op != "" {
			ops, impl, cases = append(ops, op), append(impl, im), append(cases, cs)
		}
	}
	return r.Compare("chain", ops, impl, cases)
}

// chainCase: stage oracle on the planner chain of one query; returns the model op and the implementation's answer
func chainCase(r *h.Result, query string, script *logql_parser.LogQLScript, ser string, sample bool) (string, string, any, error) {
	{
		var p shared.SQLRequestPlanner
		p, err := clickhouse_planner.Plan(script, true)
		if err != nil {
			r.Violate("C08/fragment-query-not-planned", "a metric query of the modelled fragment is rejected by Plan: "+err.Error(), map[string]any{"query": query})
			return "", "", nil, nil
		}
		names, fp, err := chainOf(p)
		if err != nil {
			return "", "", nil, fmt.Errorf("chain of %q: %w", query, err)
		}
		nLabel, err := fpChainOf(fp)
		if err != nil {
			return "", "", nil, fmt.Errorf("fingerprint chain of %q: %w", query, err)
		}
		shortcut := clickhouse_planner.AnalyzeMetrics15sShortcut(script)
		// ---- the oracle: every stage written in the query is planned exactly once, in the order of the text
		wantMatrix, wantLines, wantLabels, unwrap := writtenStages(script, shortcut)
		var gotMatrix, gotLines []string
		gotUnwrap := ""
		for _, nm := range names {
			switch {
			case matrixPlanners[baseName(nm)]:
				gotMatrix = append(gotMatrix, nm)
			case baseName(nm) == "LineFilterPlanner":
				gotLines = append(gotLines, nm)
			case baseName(nm) == "UnwrapPlanner":
				gotUnwrap = strings.TrimSuffix(strings.TrimPrefix(nm, "UnwrapPlanner("), ")")
			}
		}
		rep := map[string]any{"query": query, "planned": names, "label_filters_planned": nLabel, "shortcut": shortcut}
		if strings.Join(gotMatrix, " ") != strings.Join(wantMatrix, " ") {
			r.Violate("C08/matrix-stages-not-planned-in-query-order", fmt.Sprintf("written: %v, planned: %v", wantMatrix, gotMatrix), rep)
		}
		if strings.Join(gotLines, " ") != strings.Join(wantLines, " ") {
			r.Violate("C08/line-filter-not-planned", fmt.Sprintf("line filters written (that can reject a line): %v, planned: %v", wantLines, gotLines), rep)
		}
		if nLabel != wantLabels {
			r.Violate("C08/label-filter-not-planned", fmt.Sprintf("%d label filters written, %d planned", wantLabels, nLabel), rep)
		}
		if gotUnwrap != unwrap {
			r.Violate("C08/unwrap-not-planned", fmt.Sprintf("unwrap %q written, %q planned", unwrap, gotUnwrap), rep)
		}
		// ---- correspondence with the model
		kind := "plain"
		if shortcut {
			kind = "shortcut"
		}
		var steps []string
		for _, nm := range gotMatrix {
			switch baseName(nm) {
			case "LRAPlanner":
				steps = append(steps, "lra")
			case "Metrics15ShortcutPlanner":
				steps = append(steps, "shortcut")
			case "UnwrapFunctionPlanner":
				steps = append(steps, "unwrapFn")
			case "AggOpPlanner":
				steps = append(steps, "agg")
			case "TopKPlanner":
				steps = append(steps, "topk")
			case "ComparisonPlanner":
				steps = append(steps, "cmp")
			case "ByWithoutPlanner":
				steps = append(steps, "by")
			}
		}
		r.Case("chain:"+query, true)
		if shortcut {
			r.Count("chain:shortcut")
			if wantLabels > 0 {
				r.Count("chain:shortcut-with-label-filter")
			}
		}
		if sample {
			r.Sample(map[string]any{"stream": "chain", "query": query, "planned": names, "label_filters": nLabel})
		}
		return "c08order " + ser, fmt.Sprintf("%s:%s;labels=%d;lines=%d", kind, strings.Join(steps, ","), nLabel, len(gotLines)),
			map[string]any{"query": query, "planned": names}, nil
	}
}
