package main

// C05 parent side of the child process: spawn, send one request, detect crash (EOF on the pipe + exit
// status + stderr tail) and hang (no answer within the deadline), respawn.

import (
	"bufio"
	"bytes"
	"encoding/base64"
	"encoding/json"
	"fmt"
	"os"
	"os/exec"
	"strings"
	"sync"
	"time"
)

type c05Proc struct {
	cmd      *exec.Cmd
	in       *bufio.Writer
	inCloser interface{ Close() error }
	out      *bufio.Reader
	stderr   *c05Tail
	Baseline int
	nextID   int
	Spawns   int
}

// c05Tail keeps the first lines of a panic report and the last bytes of stderr
type c05Tail struct {
	mtx sync.Mutex
	buf bytes.Buffer
}

func (t *c05Tail) Write(p []byte) (int, error) {
	t.mtx.Lock()
	defer t.mtx.Unlock()
	if t.buf.Len() < 1<<16 {
		t.buf.Write(p)
	}
	return len(p), nil
}
func (t *c05Tail) String() string {
	t.mtx.Lock()
	defer t.mtx.Unlock()
	return t.buf.String()
}

// panicLine extracts "panic: ..." / "fatal error: ..." and the first qryn frame from a Go crash report.
func c05PanicLine(stderr string) (msg, frame string) {
	for _, l := range strings.Split(stderr, "\n") {
		if msg == "" && (strings.HasPrefix(l, "panic:") || strings.HasPrefix(l, "fatal error:")) {
			msg = strings.TrimSpace(l)
		}
		if msg != "" && frame == "" && strings.Contains(l, "github.com/metrico/qryn/") && strings.Contains(l, "(") {
			frame = strings.TrimSpace(l)
			if i := strings.Index(frame, "("); i > 0 {
				frame = frame[:i]
			}
			frame = strings.TrimPrefix(frame, "github.com/metrico/qryn/")
		}
	}
	return
}

func c05Spawn() (*c05Proc, error) {
	cmd := exec.Command(os.Args[0], c05ChildCmd)
	cmd.Env = append(os.Environ(), "GOTRACEBACK=single")
	stdin, err := cmd.StdinPipe()
	if err != nil {
		return nil, err
	}
	stdout, err := cmd.StdoutPipe()
	if err != nil {
		return nil, err
	}
	tail := &c05Tail{}
	cmd.Stderr = tail
	if err := cmd.Start(); err != nil {
		return nil, err
	}
	p := &c05Proc{cmd: cmd, in: bufio.NewWriterSize(stdin, 1<<20), inCloser: stdin, out: bufio.NewReaderSize(stdout, 1<<20), stderr: tail}
	a, err := p.read(20 * time.Second)
	if err != nil {
		p.Kill()
		return nil, fmt.Errorf("child did not start: %v; stderr: %s", err, tail.String())
	}
	p.Baseline = a.Baseline
	return p, nil
}

type c05ReadRes struct {
	a   c05Ans
	err error
}

func (p *c05Proc) read(d time.Duration) (c05Ans, error) {
	ch := make(chan c05ReadRes, 1)
	go func() {
		line, err := p.out.ReadBytes('\n')
		if err != nil {
			ch <- c05ReadRes{err: err}
			return
		}
		var a c05Ans
		err = json.Unmarshal(line, &a)
		ch <- c05ReadRes{a: a, err: err}
	}()
	select {
	case r := <-ch:
		return r.a, r.err
	case <-time.After(d):
		return c05Ans{}, errC05ChildStuck
	}
}

var errC05ChildStuck = fmt.Errorf("child did not answer")

func (p *c05Proc) send(c c05Cmd) error {
	b, _ := json.Marshal(c)
	if _, err := p.in.Write(append(b, '\n')); err != nil {
		return err
	}
	return p.in.Flush()
}

// Kill terminates the child and reaps it.
func (p *c05Proc) Kill() {
	if p.cmd.Process != nil {
		p.cmd.Process.Kill()
	}
	p.cmd.Wait()
}

// Quit asks the child to exit and returns its exit code.
func (p *c05Proc) Quit() int {
	p.send(c05Cmd{Cmd: "quit"})
	p.inCloser.Close()
	done := make(chan struct{})
	go func() { p.cmd.Wait(); close(done) }()
	select {
	case <-done:
	case <-time.After(5 * time.Second):
		p.cmd.Process.Kill()
		<-done
		return -1
	}
	return p.cmd.ProcessState.ExitCode()
}

// outcome of one request as seen from outside the process
type c05Outcome struct {
	Class   string // "2xx" "4xx" "5xx" "other:<n>" "abort" "hang" "crash"
	Status  int
	Detail  string // panic line / error text
	Frame   string // first qryn frame of a crash
	Elapsed int
	Alloc   uint64 // TotalAlloc delta of the child over the request (0 when the child died)
}

func c05Class(status int) string {
	switch {
	case status >= 200 && status < 300:
		return "2xx"
	case status >= 400 && status < 500:
		return "4xx"
	case status >= 500 && status < 600:
		return "5xx"
	}
	return fmt.Sprintf("other:%d", status)
}

type c05Request struct {
	Method  string            `json:"method"`
	Path    string            `json:"path"`
	Headers map[string]string `json:"headers,omitempty"`
	Body    []byte            `json:"body"`
}

// Do sends one request. dead=true means the child is gone (crashed or killed after a hang) and must be respawned.
func (p *c05Proc) Do(rq c05Request, deadlineMs int) (o c05Outcome, dead bool) {
	p.nextID++
	err := p.send(c05Cmd{Cmd: "req", ID: p.nextID, Method: rq.Method, Path: rq.Path, Headers: rq.Headers,
		Body: base64.StdEncoding.EncodeToString(rq.Body), DeadlineMs: deadlineMs})
	var a c05Ans
	if err == nil {
		a, err = p.read(time.Duration(deadlineMs)*time.Millisecond + 10*time.Second)
	}
	if err == errC05ChildStuck {
		p.Kill()
		return c05Outcome{Class: "hang", Detail: "the child process itself stopped answering"}, true
	}
	if err != nil {
		// pipe closed: the process died (give it a moment to be reaped, then make sure it is gone)
		done := make(chan struct{})
		go func() { p.cmd.Wait(); close(done) }()
		select {
		case <-done:
		case <-time.After(3 * time.Second):
			p.cmd.Process.Kill()
			<-done
		}
		msg, frame := c05PanicLine(p.stderr.String())
		if msg == "" {
			msg = fmt.Sprintf("child exited (%v) without a Go crash report: %v", p.cmd.ProcessState, err)
		}
		return c05Outcome{Class: "crash", Detail: msg, Frame: frame}, true
	}
	switch {
	case a.Timeout:
		p.Kill()
		return c05Outcome{Class: "hang", Detail: a.Err, Elapsed: a.ElapsedMs, Alloc: a.Alloc}, true
	case a.Aborted:
		return c05Outcome{Class: "abort", Detail: a.Err, Elapsed: a.ElapsedMs, Alloc: a.Alloc}, false
	}
	return c05Outcome{Class: c05Class(a.Status), Status: a.Status, Elapsed: a.ElapsedMs, Alloc: a.Alloc}, false
}

func (p *c05Proc) Census() (c05Ans, error) {
	p.nextID++
	if err := p.send(c05Cmd{Cmd: "census", ID: p.nextID}); err != nil {
		return c05Ans{}, err
	}
	return p.read(15 * time.Second)
}

func (p *c05Proc) Rebase() (c05Ans, error) {
	p.nextID++
	if err := p.send(c05Cmd{Cmd: "rebase", ID: p.nextID}); err != nil {
		return c05Ans{}, err
	}
	a, err := p.read(15 * time.Second)
	if err == nil {
		p.Baseline = a.Baseline
	}
	return a, err
}

func (p *c05Proc) Blocks() (c05Ans, error) {
	p.nextID++
	if err := p.send(c05Cmd{Cmd: "blocks", ID: p.nextID}); err != nil {
		return c05Ans{}, err
	}
	return p.read(15 * time.Second)
}
