package main

import (
	"fmt"
	"time"

	rsvc "github.com/metrico/qryn/reader/service"
)

func main() {
	t0 := time.Now()
	tr := rsvc.NewTree()
	tr.SampleTypes = []string{"a:b"}
	const P = 20001
	const K = 100
	chunk := make([][]any, 0, 50000)
	flush := func() {
		tr.MergeTrie(chunk, nil, "a:b")
		chunk = chunk[:0]
	}
	for i := uint64(1); i <= P; i++ {
		chunk = append(chunk, []any{uint64(0), uint64(7), i, int64(0), int64(K)})
		if len(chunk) == cap(chunk) {
			flush()
		}
	}
	flush()
	fmt.Println("roots", time.Since(t0), tr.NodesNum)
	for i := uint64(1); i <= P; i++ {
		for j := uint64(0); j < K; j++ {
			chunk = append(chunk, []any{i, uint64(8), 100000 + i*K + j, int64(1), int64(1)})
			if len(chunk) == cap(chunk) {
				flush()
			}
		}
	}
	flush()
	fmt.Println("all", time.Since(t0), tr.NodesNum, tr.Total())
	lv := tr.BFS("a:b")
	fmt.Println("bfs", time.Since(t0), len(lv), len(lv[1].Values), len(lv[2].Values))
	// names cap
	t1 := time.Now()
	tr2 := rsvc.NewTree()
	tr2.SampleTypes = []string{"a:b"}
	fns := make([][]any, 0, 2000005)
	for i := uint64(1); i <= 2000003; i++ {
		fns = append(fns, []any{i, "f"})
	}
	tr2.MergeTrie(nil, fns, "a:b")
	fmt.Println("names", time.Since(t1), len(tr2.Names), len(tr2.NamesMap))
}
