// tracedump: prints the SQL the real TraceQL clickhouse transpiler renders for the queries given as arguments
// (Plan → Process → String), and the text of a second Process of the same plan.
package main

import (
	"fmt"
	"os"
	"time"

	"github.com/metrico/qryn/reader/logql/logql_transpiler_v2/shared"
	traceql_parser "github.com/metrico/qryn/reader/traceql/parser"
	"github.com/metrico/qryn/reader/traceql/transpiler/clickhouse_transpiler"
	sql "github.com/metrico/qryn/reader/utils/sql_select"
)

func Ctx() *shared.PlannerContext {
	return &shared.PlannerContext{
		From: time.Unix(1700000000, 0).UTC(), To: time.Unix(1700003600, 0).UTC(), Limit: 20,
		TracesAttrsTable: "tempo_traces_attrs_gin", TracesAttrsDistTable: "tempo_traces_attrs_gin_dist",
		TracesTable: "tempo_traces", TracesDistTable: "tempo_traces_dist", TracesKVDistTable: "tempo_traces_kv_dist",
		VersionInfo: map[string]int64{},
	}
}

func main() {
	for _, q := range os.Args[1:] {
		one(q)
	}
}

func one(q string) {
	defer func() {
		if r := recover(); r != nil {
			fmt.Println("PANIC", r)
		}
	}()
	for range []int{0} {
		fmt.Println("Q:", q)
		s, err := traceql_parser.Parse(q)
		if err != nil {
			fmt.Println("PARSE-ERR", err)
			continue
		}
		p, err := clickhouse_transpiler.Plan(s)
		if err != nil {
			fmt.Println("PLAN-ERR", err)
			continue
		}
		for i := 0; i < 2; i++ {
			sel, err := p.Process(Ctx())
			if err != nil {
				fmt.Println("PROCESS-ERR", err)
				break
			}
			str, err := sel.String(sql.DefaultCtx())
			fmt.Printf("SQL%d: %s %v\n", i+1, str, err)
		}
		if p, err := clickhouse_transpiler.PlanTagsV2(s); err == nil {
			if sel, err := p.Process(Ctx()); err == nil {
				str, err := sel.String(sql.DefaultCtx())
				fmt.Println("TAGS:", str, err)
			} else {
				fmt.Println("TAGS-PROCESS-ERR", err)
			}
		} else {
			fmt.Println("TAGS-PLAN-ERR", err)
		}
		if p, err := clickhouse_transpiler.PlanValuesV2(s, "k'ey"); err == nil {
			if sel, err := p.Process(Ctx()); err == nil {
				str, err := sel.String(sql.DefaultCtx())
				fmt.Println("VALUES:", str, err)
			} else {
				fmt.Println("VALUES-PROCESS-ERR", err)
			}
		} else {
			fmt.Println("VALUES-PLAN-ERR", err)
		}
	}
}
