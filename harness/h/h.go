// Package h: shared plumbing of the correspondence harness — PRNG, model driver, result file.
package h

import (
	"bufio"
	"bytes"
	"encoding/hex"
	"encoding/json"
	"fmt"
	"os"
	"os/exec"
	"sort"
	"strings"
	"sync/atomic"
)

// ---- splitmix64: every random choice of a run derives from one state
type Rng struct{ s uint64 }

func NewRng(seed uint64) *Rng { return &Rng{s: seed*0x9E3779B97F4A7C15 + 0x1234567} }
func (r *Rng) U64() uint64 {
	r.s += 0x9E3779B97F4A7C15
	z := r.s
	z = (z ^ (z >> 30)) * 0xBF58476D1CE4E5B9
	z = (z ^ (z >> 27)) * 0x94D049BB133111EB
	return z ^ (z >> 31)
}
func (r *Rng) Intn(n int) int {
	if n <= 0 {
		return 0
	}
	return int(r.U64() % uint64(n))
}
func (r *Rng) Bool() bool          { return r.U64()&1 == 1 }
func (r *Rng) Chance(pct int) bool { return r.Intn(100) < pct }
func (r *Rng) Fork() *Rng          { return NewRng(r.U64()) }
func Pick[T any](r *Rng, xs []T) T { return xs[r.Intn(len(xs))] }
func (r *Rng) Range(lo, hi int) int {
	if hi <= lo {
		return lo
	}
	return lo + r.Intn(hi-lo+1)
}

// Bytes: adversarial byte strings (all 256 values, SQL/JSON/LIKE metacharacters over-represented)
var hot = []byte{'\'', '\\', 0, '\n', '\r', '\b', '\t', 0x1a, '%', '_', '"', '`', '-', '/', '*', ';', '(', ')', ',', ' ', 'x', '1', 'a', 0x7f, 0x80, 0xff, '{', '}', '=', '$', '.'}

func (r *Rng) Bytes(maxLen int) []byte {
	n := r.Intn(maxLen + 1)
	b := make([]byte, n)
	for i := range b {
		switch r.Intn(4) {
		case 0:
			b[i] = byte(r.Intn(256))
		case 1, 2:
			b[i] = hot[r.Intn(len(hot))]
		default:
			b[i] = byte('a' + r.Intn(26))
		}
	}
	return b
}

// Ident: a plain identifier-like string
func (r *Rng) Ident(maxLen int) string {
	n := 1 + r.Intn(maxLen)
	b := make([]byte, n)
	for i := range b {
		b[i] = byte('a' + r.Intn(26))
	}
	return string(b)
}

func Hex(b []byte) string {
	if len(b) == 0 {
		return "-"
	}
	return hex.EncodeToString(b)
}
func UnHex(s string) []byte {
	if s == "-" {
		return nil
	}
	b, err := hex.DecodeString(s)
	if err != nil {
		panic("bad hex from model: " + s)
	}
	return b
}

// ---- model driver (compiled Lean executable speaking the line protocol)
var DriverPath = "/verif/lean/.lake/build/bin/driver" // overridden by -driver

// Model runs the driver over the given operation lines and returns one answer per line.
func Model(lines []string) ([]string, error) {
	if len(lines) == 0 {
		return nil, nil
	}
	cmd := exec.Command(DriverPath)
	cmd.Stdin = strings.NewReader(strings.Join(lines, "\n") + "\n")
	var out, errb bytes.Buffer
	cmd.Stdout = &out
	cmd.Stderr = &errb
	if err := cmd.Run(); err != nil {
		return nil, fmt.Errorf("driver: %v: %s", err, errb.String())
	}
	var res []string
	sc := bufio.NewScanner(&out)
	sc.Buffer(make([]byte, 1<<20), 1<<28)
	for sc.Scan() {
		res = append(res, sc.Text())
	}
	if len(res) != len(lines) {
		return nil, fmt.Errorf("driver answered %d lines for %d operations", len(res), len(lines))
	}
	return res, nil
}

// ---- result file
type Disagreement struct {
	Stream string `json:"stream"`
	Op     string `json:"op"`
	Impl   string `json:"impl"`
	Model  string `json:"model"`
	Case   any    `json:"case,omitempty"`
}
type Violation struct {
	Key    string `json:"key"`  // normalised identity, matched against KNOWN_FINDINGS.txt
	What   string `json:"what"` // one line
	Replay any    `json:"replay"`
}
type Result struct {
	Property      string         `json:"property"`
	Tier          string         `json:"tier"`
	Seed          uint64         `json:"seed"`
	Evaluations   int            `json:"evaluations"`
	Nontrivial    map[string]int `json:"-"`
	DistinctNT    int            `json:"distinct_nontrivial"`
	Rule          string         `json:"rule"`
	Samples       []any          `json:"samples"`
	Distribution  map[string]int `json:"distribution"`
	Streams       []string       `json:"streams"`
	Disagreements []Disagreement `json:"disagreements"`
	Violations    []Violation    `json:"violations"`
	Exhaustive    bool           `json:"exhaustive"`
	Notes         []string       `json:"notes,omitempty"`
	Searched      int            `json:"searched"` // extra cases run by the search after a broken tie
}

func NewResult(prop, tier string, seed uint64) *Result {
	return &Result{Property: prop, Tier: tier, Seed: seed, Nontrivial: map[string]int{}, Distribution: map[string]int{}}
}
func (r *Result) Count(k string)         { r.Distribution[k]++ }
func (r *Result) CountN(k string, n int) { r.Distribution[k] += n }

// Case records one evaluated case; key identifies it for the distinct count; nontrivial by the stream's rule.
// Progress counts the cases judged so far (read by the stall watchdog of cmd/vcheck)
var Progress int64

// Tick tells the watchdog that the harness is alive (for long waits that judge no case)
func Tick() { atomic.AddInt64(&Progress, 1) }

func (r *Result) Case(key string, nontrivial bool) {
	atomic.AddInt64(&Progress, 1)
	r.Evaluations++
	if nontrivial {
		r.Nontrivial[key]++
	}
}
func (r *Result) Sample(s any) {
	if len(r.Samples) < 6 {
		r.Samples = append(r.Samples, s)
	}
}
func (r *Result) Disagree(stream, op, impl, model string, c any) {
	if len(r.Disagreements) < 50 {
		r.Disagreements = append(r.Disagreements, Disagreement{stream, op, impl, model, c})
	}
	r.Count("disagreement:" + stream)
}
func (r *Result) Violate(key, what string, replay any) {
	for _, v := range r.Violations {
		if v.Key == key {
			r.Count("violation-repeat:" + key)
			return
		}
	}
	r.Violations = append(r.Violations, Violation{key, what, replay})
}
func (r *Result) Stream(s string) { r.Streams = append(r.Streams, s) }
func (r *Result) Write(path string) error {
	r.DistinctNT = len(r.Nontrivial)
	sort.Strings(r.Streams)
	b, err := json.MarshalIndent(r, "", " ")
	if err != nil {
		return err
	}
	return os.WriteFile(path, b, 0o644)
}

// Compare runs the model over ops and records disagreements with impl answers.
func (r *Result) Compare(stream string, ops, impl []string, cases []any) error {
	model, err := Model(ops)
	if err != nil {
		return err
	}
	for i := range ops {
		if impl[i] != model[i] {
			var c any
			if cases != nil {
				c = cases[i]
			}
			r.Disagree(stream, ops[i], impl[i], model[i], c)
		}
	}
	return nil
}
