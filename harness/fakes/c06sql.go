// Package fakes: test doubles shared by the harness. This file (C06): a scripted database/sql driver and a
// reader registry on top of it, so that stored rows can be replayed into the real trace read path.
package fakes

import (
	"context"
	"database/sql"
	"database/sql/driver"
	"fmt"
	"io"
	"sync"

	"github.com/metrico/cloki-config/config"
	"github.com/metrico/qryn/reader/model"
)

// C06Script answers every query of the connection: it receives the SQL text and returns column names and rows.
type C06Script struct {
	mtx  sync.Mutex
	Log  []string
	Resp func(q string) ([]string, [][]driver.Value, error)
}

func (s *C06Script) Queries() []string {
	s.mtx.Lock()
	defer s.mtx.Unlock()
	return append([]string{}, s.Log...)
}

var (
	c06Mtx     sync.Mutex
	c06Scripts = map[string]*C06Script{}
	c06Seq     int
)

type c06Driver struct{}
type c06Conn struct{ s *C06Script }
type c06Rows struct {
	cols []string
	rows [][]driver.Value
	i    int
}

func (c06Driver) Open(name string) (driver.Conn, error) {
	c06Mtx.Lock()
	defer c06Mtx.Unlock()
	s, ok := c06Scripts[name]
	if !ok {
		return nil, fmt.Errorf("c06 scripted driver: unknown script %q", name)
	}
	return c06Conn{s}, nil
}
func (c06Conn) Prepare(q string) (driver.Stmt, error) { return nil, fmt.Errorf("c06 scripted driver: no prepare") }
func (c06Conn) Close() error                          { return nil }
func (c06Conn) Begin() (driver.Tx, error)             { return nil, fmt.Errorf("c06 scripted driver: no tx") }
func (c c06Conn) QueryContext(ctx context.Context, q string, args []driver.NamedValue) (driver.Rows, error) {
	c.s.mtx.Lock()
	c.s.Log = append(c.s.Log, q)
	c.s.mtx.Unlock()
	cols, rows, err := c.s.Resp(q)
	if err != nil {
		return nil, err
	}
	return &c06Rows{cols: cols, rows: rows}, nil
}
func (r *c06Rows) Columns() []string { return r.cols }
func (r *c06Rows) Close() error      { return nil }
func (r *c06Rows) Next(dest []driver.Value) error {
	if r.i >= len(r.rows) {
		return io.EOF
	}
	copy(dest, r.rows[r.i])
	r.i++
	return nil
}

func init() { sql.Register("c06scripted", c06Driver{}) }

type c06Sqlx struct{ db *sql.DB }

func (s *c06Sqlx) GetName() string { return "c06fake" }
func (s *c06Sqlx) QueryCtx(ctx context.Context, q string, args ...any) (*sql.Rows, error) {
	return s.db.QueryContext(ctx, q, args...)
}
func (s *c06Sqlx) ExecCtx(ctx context.Context, q string, args ...any) error { return nil }
func (s *c06Sqlx) Conn(ctx context.Context) (*sql.Conn, error)             { return s.db.Conn(ctx) }
func (s *c06Sqlx) Begin() (*sql.Tx, error)                                 { return s.db.Begin() }
func (s *c06Sqlx) Close()                                                  {}

// C06Registry is a model.IDBRegistry with one database whose session is the scripted connection.
type C06Registry struct{ m *model.DataDatabasesMap }

func (r *C06Registry) GetDB(ctx context.Context) (*model.DataDatabasesMap, error) { return r.m, nil }
func (r *C06Registry) Run()                                                     {}
func (r *C06Registry) Stop()                                                    {}
func (r *C06Registry) Ping() error                                              { return nil }

// C06NewRegistry registers the script under a fresh name and returns a registry that talks to it.
func C06NewRegistry(s *C06Script) (*C06Registry, error) {
	c06Mtx.Lock()
	c06Seq++
	name := fmt.Sprintf("c06-%d", c06Seq)
	c06Scripts[name] = s
	c06Mtx.Unlock()
	db, err := sql.Open("c06scripted", name)
	if err != nil {
		return nil, err
	}
	return &C06Registry{m: &model.DataDatabasesMap{
		Config:  &config.ClokiBaseDataBase{Name: "c06"},
		Session: &c06Sqlx{db: db},
	}}, nil
}
