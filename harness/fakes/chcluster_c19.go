package fakes

import (
	"context"
	"fmt"
	"strings"

	"github.com/ClickHouse/clickhouse-go/v2/lib/driver"
)

// C19Cluster: N ClickHouse nodes for the retention code (ctrl/qryn/maintenance/rotate.go).
//
//   - every node has its own tables: TTL expression and storage policy per table and node;
//   - `settings` is a local table: INSERT INTO settings stores the row on the connected node; all rows are kept in one
//     list in global insertion order with their home node (the nodes' clocks agree: argMax(value, inserted_at) = last row);
//   - the settings read FROM settings_dist sees the rows of all nodes, FROM settings those of the connected node;
//   - an ALTER whose text carries ON CLUSTER is executed by every node, any other by the connected node;
//   - a scripted failure: statement number At of the run reports an error after taking effect on the nodes of Sel only.
//
// Same semantics as Qryn.Ctrl.RotateCluster (Lean).
type C19CRow struct {
	Home            int
	Fp              uint64
	Tp, Name, Value string
}

type C19Cluster struct {
	N      int
	Rows   []C19CRow
	TTL    []map[string]string
	Policy []map[string]string
}

type C19CFault struct {
	At  int   `json:"at"`
	Sel []int `json:"sel"`
}

func NewC19Cluster(n int, tables []string, initTTL, initPolicy string) *C19Cluster {
	c := &C19Cluster{N: n}
	for i := 0; i < n; i++ {
		t, p := map[string]string{}, map[string]string{}
		for _, x := range tables {
			t[x], p[x] = initTTL, initPolicy
		}
		c.TTL, c.Policy = append(c.TTL, t), append(c.Policy, p)
	}
	return c
}

func (c *C19Cluster) Clone() *C19Cluster {
	d := &C19Cluster{N: c.N, Rows: append([]C19CRow(nil), c.Rows...)}
	for i := 0; i < c.N; i++ {
		t, p := map[string]string{}, map[string]string{}
		for k, v := range c.TTL[i] {
			t[k] = v
		}
		for k, v := range c.Policy[i] {
			p[k] = v
		}
		d.TTL, d.Policy = append(d.TTL, t), append(d.Policy, p)
	}
	return d
}

// Marker: what a settings read connected to node sees for a fingerprint (dist: settings_dist).
func (c *C19Cluster) Marker(dist bool, node int, fp uint64) (string, bool) {
	for i := len(c.Rows) - 1; i >= 0; i-- {
		r := c.Rows[i]
		if r.Fp == fp && (dist || r.Home == node) {
			if r.Name == "" {
				return "", false
			}
			return r.Value, true
		}
	}
	return "", false
}

type C19ClusterConn struct {
	C         *C19Cluster
	Node      int
	Fault     *C19CFault
	Log       []C19Stmt
	n         int
	AfterStmt func(cc *C19ClusterConn, s C19Stmt)
}

func (c *C19Cluster) Connect(node int, f *C19CFault) *C19ClusterConn {
	return &C19ClusterConn{C: c, Node: node, Fault: f}
}

var c19parser = &C19Conn{}

func (cc *C19ClusterConn) step(s C19Stmt) error {
	if cc.Node < 0 || cc.Node >= cc.C.N {
		return ErrNoRoute // nothing answers: the statement reaches no node and is not counted
	}
	idx := cc.n
	cc.n++
	faulted := cc.Fault != nil && cc.Fault.At == idx
	sel := func(i int) bool {
		if !faulted {
			return true
		}
		for _, x := range cc.Fault.Sel {
			if x == i {
				return true
			}
		}
		return false
	}
	var err error
	if s.Kind == "X" {
		err = fmt.Errorf("c19: statement not recognised: %q", s.Value)
	} else {
		switch s.Kind {
		case "P":
			if sel(cc.Node) {
				cc.C.Rows = append(cc.C.Rows, C19CRow{cc.Node, s.Fp, s.Tp, s.Name, s.Value})
			}
		case "AP", "AT", "AS":
			for i := 0; i < cc.C.N; i++ {
				if (s.Cluster != "" || i == cc.Node) && sel(i) {
					switch s.Kind {
					case "AP":
						cc.C.Policy[i][s.Table] = s.Value
					case "AT":
						cc.C.TTL[i][s.Table] = s.Value
					}
				}
			}
		}
		if faulted {
			err = ErrC19Injected
		}
	}
	s.Failed = err != nil
	cc.Log = append(cc.Log, s)
	if cc.AfterStmt != nil {
		cc.AfterStmt(cc, s)
	}
	return err
}

func (cc *C19ClusterConn) Exec(ctx context.Context, query string, args ...any) error {
	return cc.step(c19parser.parseExec(query, args))
}

func (cc *C19ClusterConn) Query(ctx context.Context, query string, args ...any) (driver.Rows, error) {
	s := C19Stmt{Kind: "X", Value: query}
	if strings.HasPrefix(query, c19SelA) && strings.HasSuffix(query, c19SelB) && len(args) == 1 {
		tbl := query[len(c19SelA) : len(query)-len(c19SelB)]
		if fp, ok := c19fp(args[0]); ok && (tbl == "settings" || tbl == "settings_dist") {
			s = C19Stmt{Kind: "R", Dist: tbl == "settings_dist", Fp: fp}
		}
	}
	val, present := "", false
	if s.Kind == "R" && cc.Node >= 0 && cc.Node < cc.C.N {
		val, present = cc.C.Marker(s.Dist, cc.Node, s.Fp)
	}
	if err := cc.step(s); err != nil {
		return nil, err
	}
	r := &c19Rows{}
	if present {
		r.vals = []string{val}
	}
	return r, nil
}

func (cc *C19ClusterConn) Contributors() []string                        { return nil }
func (cc *C19ClusterConn) ServerVersion() (*driver.ServerVersion, error) { return nil, errC19NI }
func (cc *C19ClusterConn) Select(ctx context.Context, dest any, query string, args ...any) error {
	return cc.step(C19Stmt{Kind: "X", Value: "Select: " + query})
}
func (cc *C19ClusterConn) QueryRow(ctx context.Context, query string, args ...any) driver.Row {
	return c19Row{cc.step(C19Stmt{Kind: "X", Value: "QueryRow: " + query})}
}
func (cc *C19ClusterConn) PrepareBatch(ctx context.Context, query string, opts ...driver.PrepareBatchOption) (driver.Batch, error) {
	return nil, cc.step(C19Stmt{Kind: "X", Value: "PrepareBatch: " + query})
}
func (cc *C19ClusterConn) AsyncInsert(ctx context.Context, query string, wait bool, args ...any) error {
	return cc.step(C19Stmt{Kind: "X", Value: "AsyncInsert: " + query})
}
func (cc *C19ClusterConn) Ping(context.Context) error { return nil }
func (cc *C19ClusterConn) Stats() driver.Stats        { return driver.Stats{} }
func (cc *C19ClusterConn) Close() error               { return nil }
