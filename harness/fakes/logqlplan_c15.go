package fakes

import (
	"fmt"
	"regexp"
	"strconv"
	"sync"

	"github.com/metrico/qryn/reader/logql/logql_parser"
	"github.com/metrico/qryn/reader/logql/logql_transpiler_v2/shared"
	"github.com/metrico/qryn/reader/plugins"
)

// ScriptedBatches: a LogQL planner plugin (plugins.RegisterLogQLPlannerPlugin) that answers queries whose
// selector contains  qrynfake="<id>"  with a request processor delivering pre-registered batches of
// shared.LogEntry on the output channel — exactly the interface between the planners and the response
// encoders of QueryRangeService (QueryRange / QueryInstant / Tail). Every other query falls through to the
// real planner (the plugin returns an error for it).

type BatchCase struct {
	Matrix  bool
	Batches [][]shared.LogEntry
}

var (
	batchCases    sync.Map // id -> *BatchCase
	batchCaseSeq  int64
	batchCaseMtx  sync.Mutex
	batchPlugOnce sync.Once
	batchCaseRe   = regexp.MustCompile(`qrynfake="(\d+)"`)
)

// RegisterBatchCase stores a case and returns the LogQL query that selects it.
func RegisterBatchCase(c *BatchCase) (query string, release func()) {
	batchPlugOnce.Do(func() { plugins.RegisterLogQLPlannerPlugin("qrynfake", batchPlugin{}) })
	batchCaseMtx.Lock()
	batchCaseSeq++
	id := batchCaseSeq
	batchCaseMtx.Unlock()
	batchCases.Store(id, c)
	return fmt.Sprintf(`{qrynfake="%d"}`, id), func() { batchCases.Delete(id) }
}

type batchPlugin struct{}

func (batchPlugin) Plan(script *logql_parser.LogQLScript) (shared.RequestProcessorChain, error) {
	m := batchCaseRe.FindStringSubmatch(script.String())
	if m == nil {
		return nil, plugins.ErrPluginNotApplicable
	}
	id, _ := strconv.ParseInt(m[1], 10, 64)
	c, ok := batchCases.Load(id)
	if !ok {
		return nil, fmt.Errorf("qrynfake: unknown case %d", id)
	}
	return shared.RequestProcessorChain{&batchProc{c.(*BatchCase)}}, nil
}

type batchProc struct{ c *BatchCase }

func (p *batchProc) IsMatrix() bool { return p.c.Matrix }
func (p *batchProc) Process(ctx *shared.PlannerContext, in chan []shared.LogEntry) (chan []shared.LogEntry, error) {
	out := make(chan []shared.LogEntry)
	go func() {
		defer close(out)
		for _, b := range p.c.Batches {
			// a fresh copy: a consumer may keep or modify what it received
			cp := make([]shared.LogEntry, len(b))
			copy(cp, b)
			select {
			case out <- cp:
			case <-ctx.Ctx.Done():
				return
			}
		}
	}()
	return out, nil
}
