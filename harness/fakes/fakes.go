// Package fakes: reusable in-process stand-ins for qryn's back ends, all recording into a CallLog —
// a scripted database/sql driver behind a reader model.IDBRegistry, and a writer service registry
// whose insert services acknowledge every request.
package fakes

import (
	"context"
	"database/sql"
	"database/sql/driver"
	"fmt"
	"io"
	"sync"
	"sync/atomic"
	"time"

	clconfig "github.com/metrico/cloki-config/config"
	rmodel "github.com/metrico/qryn/reader/model"
	"github.com/metrico/qryn/writer/service"
	"github.com/metrico/qryn/writer/service/registry"
	"github.com/metrico/qryn/writer/utils/helpers"
	"github.com/metrico/qryn/writer/utils/promise"
)

// ---- call log
type CallLog struct {
	mtx   sync.Mutex
	calls []string
}

func (l *CallLog) Add(s string) {
	l.mtx.Lock()
	l.calls = append(l.calls, s)
	l.mtx.Unlock()
}

// Take returns the calls recorded so far and clears the log.
func (l *CallLog) Take() []string {
	l.mtx.Lock()
	defer l.mtx.Unlock()
	res := l.calls
	l.calls = nil
	return res
}

// ---- scripted database/sql driver. A Script answers every query; unanswered → empty result set.
type Script struct {
	Log  *CallLog
	Resp func(q string) (cols []string, rows [][]driver.Value, err error)
}

var scripts sync.Map // dsn -> *Script
var scriptSeq atomic.Int64

type sDriver struct{}
type sConn struct{ s *Script }
type sRows struct {
	cols []string
	rows [][]driver.Value
	i    int
}
type sTx struct{}

func (sTx) Commit() error   { return nil }
func (sTx) Rollback() error { return nil }

func (sDriver) Open(name string) (driver.Conn, error) {
	s, ok := scripts.Load(name)
	if !ok {
		return nil, fmt.Errorf("fakes: no script %q", name)
	}
	s.(*Script).Log.Add("db:connect")
	return &sConn{s.(*Script)}, nil
}
func (c *sConn) Prepare(q string) (driver.Stmt, error) { return nil, fmt.Errorf("fakes: no prepare") }
func (c *sConn) Close() error                          { return nil }
func (c *sConn) Begin() (driver.Tx, error)             { c.s.Log.Add("db:begin"); return sTx{}, nil }
func (c *sConn) Ping(ctx context.Context) error        { c.s.Log.Add("db:ping"); return nil }
func (c *sConn) QueryContext(ctx context.Context, q string, args []driver.NamedValue) (driver.Rows, error) {
	c.s.Log.Add("db:query:" + q)
	var cols []string
	var rows [][]driver.Value
	var err error
	if c.s.Resp != nil {
		cols, rows, err = c.s.Resp(q)
	}
	if err != nil {
		return nil, err
	}
	if cols == nil {
		cols = []string{"c"}
	}
	return &sRows{cols: cols, rows: rows}, nil
}
func (c *sConn) ExecContext(ctx context.Context, q string, args []driver.NamedValue) (driver.Result, error) {
	c.s.Log.Add("db:exec:" + q)
	return driver.RowsAffected(0), nil
}
func (r *sRows) Columns() []string { return r.cols }
func (r *sRows) Close() error      { return nil }
func (r *sRows) Next(dest []driver.Value) error {
	if r.i >= len(r.rows) {
		return io.EOF
	}
	copy(dest, r.rows[r.i])
	r.i++
	return nil
}

func init() { sql.Register("qryn-verif-scripted", sDriver{}) }

// DB implements reader model.ISqlxDB over the scripted driver.
type DB struct {
	db  *sql.DB
	log *CallLog
}

func NewDB(s *Script) *DB {
	name := fmt.Sprintf("script-%d", scriptSeq.Add(1))
	scripts.Store(name, s)
	db, err := sql.Open("qryn-verif-scripted", name)
	if err != nil {
		panic(err)
	}
	return &DB{db: db, log: s.Log}
}
func (s *DB) GetName() string { return "fake" }
func (s *DB) QueryCtx(ctx context.Context, q string, args ...any) (*sql.Rows, error) {
	return s.db.QueryContext(ctx, q, args...)
}
func (s *DB) ExecCtx(ctx context.Context, q string, args ...any) error {
	_, err := s.db.ExecContext(ctx, q, args...)
	return err
}
func (s *DB) Conn(ctx context.Context) (*sql.Conn, error) { return s.db.Conn(ctx) }
func (s *DB) Begin() (*sql.Tx, error)                     { return s.db.Begin() }
func (s *DB) Close()                                      {}

// DBRegistry implements reader model.IDBRegistry.
type DBRegistry struct {
	M   *rmodel.DataDatabasesMap
	Log *CallLog
}

func NewDBRegistry(log *CallLog, resp func(q string) ([]string, [][]driver.Value, error)) *DBRegistry {
	db := NewDB(&Script{Log: log, Resp: resp})
	return &DBRegistry{Log: log, M: &rmodel.DataDatabasesMap{
		Config:  &clconfig.ClokiBaseDataBase{Name: "qryn", Node: "fake", TTLDays: 7},
		DSN:     "fake",
		Session: db,
	}}
}
func (r *DBRegistry) GetDB(ctx context.Context) (*rmodel.DataDatabasesMap, error) {
	r.Log.Add("dbregistry:GetDB")
	return r.M, nil
}
func (r *DBRegistry) Run()        {}
func (r *DBRegistry) Stop()       {}
func (r *DBRegistry) Ping() error { r.Log.Add("dbregistry:Ping"); return nil }

// ---- writer side
type InsertSvc struct {
	Name string
	Log  *CallLog
}

func (s *InsertSvc) Run()  {}
func (s *InsertSvc) Stop() {}
func (s *InsertSvc) Request(req helpers.SizeGetter, insertMode int) *promise.Promise[uint32] {
	s.Log.Add("insert:" + s.Name + ":Request")
	return promise.Fulfilled[uint32](nil, 1)
}
func (s *InsertSvc) Ping() (time.Time, error) {
	s.Log.Add("insert:" + s.Name + ":Ping")
	return time.Now(), nil
}
func (s *InsertSvc) GetState(insertMode int) int { return 0 }
func (s *InsertSvc) GetNodeName() string         { return "fake" }
func (s *InsertSvc) Init()                       {}
func (s *InsertSvc) PlanFlush()                  {}

var _ service.IInsertServiceV2 = (*InsertSvc)(nil)

// ServiceRegistry implements writer registry.IServiceRegistry.
type ServiceRegistry struct{ Log *CallLog }

func (r *ServiceRegistry) get(kind string) (service.IInsertServiceV2, error) {
	r.Log.Add("svcregistry:" + kind)
	return &InsertSvc{Name: kind, Log: r.Log}, nil
}
func (r *ServiceRegistry) GetTimeSeriesService(id string) (service.IInsertServiceV2, error) {
	return r.get("timeseries")
}
func (r *ServiceRegistry) GetSamplesService(id string) (service.IInsertServiceV2, error) {
	return r.get("samples")
}
func (r *ServiceRegistry) GetMetricsService(id string) (service.IInsertServiceV2, error) {
	return r.get("metrics")
}
func (r *ServiceRegistry) GetSpansService(id string) (service.IInsertServiceV2, error) {
	return r.get("spans")
}
func (r *ServiceRegistry) GetSpansSeriesService(id string) (service.IInsertServiceV2, error) {
	return r.get("spanattrs")
}
func (r *ServiceRegistry) GetProfileInsertService(id string) (service.IInsertServiceV2, error) {
	return r.get("profiles")
}
func (r *ServiceRegistry) Run()  {}
func (r *ServiceRegistry) Stop() {}

var _ registry.IServiceRegistry = (*ServiceRegistry)(nil)
var _ rmodel.IDBRegistry = (*DBRegistry)(nil)
var _ rmodel.ISqlxDB = (*DB)(nil)
