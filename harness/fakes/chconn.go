// Package fakes: in-memory stand-ins for qryn's back ends.
//
// CHConn implements github.com/ClickHouse/clickhouse-go/v2's Conn (lib/driver.Conn) for the control plane:
// it keeps a catalogue (ddl.Catalog: ClickHouse's documented DDL outcomes for the statement shapes qryn
// issues), the rows inserted into the `ver` table, a log of every call, and it fails on schedule.
package fakes

import (
	"context"
	"errors"
	"fmt"
	"reflect"
	"regexp"
	"strings"

	"github.com/ClickHouse/clickhouse-go/v2/lib/driver"

	"verif/harness/ddl"
)

var ErrInjected = errors.New("injected failure")

// Fault: call number N (0-based, counted per attempt over Exec and Query) does not succeed.
// Applied=false: no effect. Applied=true: the effect is applied, the caller still gets an error.
type Fault struct {
	N       int
	Applied bool
}

type LogEntry struct {
	Kind  string // exec | query
	SQL   string
	Canon string // exec:<stmt> | query:<k> | record:<k>:<v>
	Err   string // "" | injected | injected-applied | <ddl error canon> | other
}

type parsed struct {
	st  ddl.Stmt
	err error
}

type CHConn struct {
	DB    string
	Cat   *ddl.Catalog
	Vers  [][2]uint64
	Calls int
	Fault *Fault
	Log   []LogEntry
	cache map[string]parsed
}

func NewCHConn(db string) *CHConn {
	return &CHConn{DB: db, Cat: &ddl.Catalog{}, cache: map[string]parsed{}}
}

// Clone copies the database state (not the log); the parse cache is shared.
func (c *CHConn) Clone() *CHConn {
	return &CHConn{DB: c.DB, Cat: c.Cat.Clone(), Vers: append([][2]uint64(nil), c.Vers...), cache: c.cache}
}

// Begin starts a new attempt (a new process start): call counter and log are reset.
func (c *CHConn) Begin(f *Fault) {
	c.Calls = 0
	c.Fault = f
	c.Log = nil
}

func (c *CHConn) StateCanon() string {
	var vs []string
	for _, r := range c.Vers {
		vs = append(vs, fmt.Sprintf("%d:%d", r[0], r[1]))
	}
	return "vers=" + strings.Join(vs, ",") + " " + c.Cat.Canon()
}

func (c *CHConn) MaxVer(k uint64) uint64 {
	var m uint64
	for _, r := range c.Vers {
		if r[0] == k && r[1] > m {
			m = r[1]
		}
	}
	return m
}

func (c *CHConn) parse(q string) (ddl.Stmt, error) {
	if p, ok := c.cache[q]; ok {
		return p.st, p.err
	}
	st, err := ddl.Parse(q, c.DB)
	c.cache[q] = parsed{st, err}
	return st, err
}

func toU64(v any) (uint64, bool) {
	rv := reflect.ValueOf(v)
	switch rv.Kind() {
	case reflect.Int, reflect.Int8, reflect.Int16, reflect.Int32, reflect.Int64:
		if rv.Int() < 0 {
			return 0, false
		}
		return uint64(rv.Int()), true
	case reflect.Uint, reflect.Uint8, reflect.Uint16, reflect.Uint32, reflect.Uint64:
		return rv.Uint(), true
	}
	return 0, false
}

// call wraps one database call with the failure schedule; do applies the call's effect.
func (c *CHConn) call(kind, sql string, do func(e *LogEntry) error) error {
	n := c.Calls
	c.Calls++
	e := LogEntry{Kind: kind, SQL: sql}
	defer func() { c.Log = append(c.Log, e) }()
	if c.Fault != nil && c.Fault.N == n && !c.Fault.Applied {
		e.Err = "injected"
		return ErrInjected
	}
	if err := do(&e); err != nil {
		var de *ddl.Err
		if errors.As(err, &de) {
			e.Err = de.Canon()
		} else {
			e.Err = "other:" + err.Error()
		}
		return err
	}
	if c.Fault != nil && c.Fault.N == n && c.Fault.Applied {
		e.Err = "injected-applied"
		return ErrInjected
	}
	return nil
}

func (c *CHConn) Exec(ctx context.Context, query string, args ...any) error {
	return c.call("exec", query, func(e *LogEntry) error {
		st, err := c.parse(query)
		if err != nil {
			return fmt.Errorf("fake clickhouse: %v", err)
		}
		if st.Op == "insert" && st.Name == "ver" && len(args) == 2 {
			k, ok1 := toU64(args[0])
			v, ok2 := toU64(args[1])
			if !ok1 || !ok2 {
				return fmt.Errorf("fake clickhouse: INSERT INTO ver with non-integer arguments")
			}
			e.Canon = fmt.Sprintf("record:%d:%d", k, v)
			if derr := c.Cat.Exec(st); derr != nil {
				return derr
			}
			c.Vers = append(c.Vers, [2]uint64{k, v})
			return nil
		}
		if len(args) != 0 {
			return fmt.Errorf("fake clickhouse: unexpected bound arguments for %.40q", query)
		}
		e.Canon = "exec:" + st.Canon()
		if derr := c.Cat.Exec(st); derr != nil {
			return derr
		}
		return nil
	})
}

var reMaxVer = regexp.MustCompile(`^SELECT max\(ver\) as ver FROM (\w+) WHERE k = \$1 FORMAT JSON$`)

func (c *CHConn) Query(ctx context.Context, query string, args ...any) (driver.Rows, error) {
	var rows *fakeRows
	err := c.call("query", query, func(e *LogEntry) error {
		if m := reMaxVer.FindStringSubmatch(query); m != nil && len(args) == 1 {
			k, ok := toU64(args[0])
			if !ok {
				return fmt.Errorf("fake clickhouse: version query with a non-integer key")
			}
			e.Canon = fmt.Sprintf("query:%d", k)
			if !c.Cat.DB {
				return &ddl.Err{Code: "noDatabase"}
			}
			if !c.Cat.Has(m[1]) {
				return &ddl.Err{Code: "missing", Name: m[1]}
			}
			if m[1] != "ver" && m[1] != "ver_dist" {
				return fmt.Errorf("fake clickhouse: version query on %s", m[1])
			}
			rows = &fakeRows{cols: []string{"ver"}, data: [][]any{{c.MaxVer(k)}}}
			return nil
		}
		if query == "SHOW TABLES" {
			e.Canon = "show-tables"
			rows = &fakeRows{cols: []string{"name"}}
			for _, o := range c.Cat.Objs {
				rows.data = append(rows.data, []any{o.Name})
			}
			return nil
		}
		return fmt.Errorf("fake clickhouse: unsupported query %.60q", query)
	})
	if err != nil {
		return nil, err
	}
	return rows, nil
}

type fakeRows struct {
	cols []string
	data [][]any
	i    int
}

func (r *fakeRows) Next() bool { r.i++; return r.i <= len(r.data) }
func (r *fakeRows) Scan(dest ...any) error {
	if r.i < 1 || r.i > len(r.data) {
		return errors.New("fake rows: Scan without Next")
	}
	row := r.data[r.i-1]
	if len(dest) != len(row) {
		return fmt.Errorf("fake rows: %d destinations for %d columns", len(dest), len(row))
	}
	for i, d := range dest {
		switch p := d.(type) {
		case *uint64:
			v, ok := row[i].(uint64)
			if !ok {
				return fmt.Errorf("fake rows: column %d is not UInt64", i)
			}
			*p = v
		case *string:
			v, ok := row[i].(string)
			if !ok {
				return fmt.Errorf("fake rows: column %d is not String", i)
			}
			*p = v
		default:
			return fmt.Errorf("fake rows: unsupported destination %T", d)
		}
	}
	return nil
}
func (r *fakeRows) ScanStruct(dest any) error        { return errors.New("fake rows: ScanStruct unsupported") }
func (r *fakeRows) ColumnTypes() []driver.ColumnType { return nil }
func (r *fakeRows) Totals(dest ...any) error         { return errors.New("fake rows: Totals unsupported") }
func (r *fakeRows) Columns() []string                { return r.cols }
func (r *fakeRows) Close() error                     { return nil }
func (r *fakeRows) Err() error                       { return nil }

type errRow struct{ err error }

func (r errRow) Err() error                { return r.err }
func (r errRow) Scan(dest ...any) error    { return r.err }
func (r errRow) ScanStruct(dest any) error { return r.err }

func (c *CHConn) Contributors() []string { return nil }
func (c *CHConn) ServerVersion() (*driver.ServerVersion, error) {
	return nil, errors.New("fake clickhouse: ServerVersion unsupported")
}
func (c *CHConn) Select(ctx context.Context, dest any, query string, args ...any) error {
	return errors.New("fake clickhouse: Select unsupported")
}
func (c *CHConn) QueryRow(ctx context.Context, query string, args ...any) driver.Row {
	return errRow{errors.New("fake clickhouse: QueryRow unsupported")}
}
func (c *CHConn) PrepareBatch(ctx context.Context, query string, opts ...driver.PrepareBatchOption) (driver.Batch, error) {
	return nil, errors.New("fake clickhouse: PrepareBatch unsupported")
}
func (c *CHConn) AsyncInsert(ctx context.Context, query string, wait bool, args ...any) error {
	return errors.New("fake clickhouse: AsyncInsert unsupported")
}
func (c *CHConn) Ping(context.Context) error { return nil }
func (c *CHConn) Stats() driver.Stats        { return driver.Stats{} }
func (c *CHConn) Close() error               { return nil }
