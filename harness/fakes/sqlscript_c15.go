// Package fakes: reusable test doubles for running qryn's reader code in-process.
// This file: a scripted database/sql driver ("rowscript") + model.ISqlxDB + model.IDBRegistry over it.
// Every query text the code sends is logged and answered by a responder function with column names and rows;
// a column value may be any driver.Value accepted by database/sql, and also a map[string]string (Scan into a
// *map[string]string works through convertAssign's reflection path).
package fakes

import (
	"context"
	"database/sql"
	"database/sql/driver"
	"fmt"
	"io"
	"strings"
	"sync"
	"sync/atomic"

	clconfig "github.com/metrico/cloki-config/config"
	"github.com/metrico/qryn/reader/model"
)

// RowResponder answers one query text.
type RowResponder func(query string) (cols []string, rows [][]driver.Value, err error)

// RowScript is the shared state of one scripted database.
type RowScript struct {
	mtx  sync.Mutex
	log  []string
	resp RowResponder
}

func (s *RowScript) SetResponder(r RowResponder) { s.mtx.Lock(); s.resp = r; s.mtx.Unlock() }
func (s *RowScript) Queries() []string {
	s.mtx.Lock()
	defer s.mtx.Unlock()
	return append([]string(nil), s.log...)
}
func (s *RowScript) ResetLog() { s.mtx.Lock(); s.log = nil; s.mtx.Unlock() }

var (
	rowScripts   sync.Map // dsn -> *RowScript
	rowScriptSeq int64
)

type rowScriptDriver struct{}
type rowScriptConn struct{ s *RowScript }
type rowScriptRows struct {
	cols []string
	rows [][]driver.Value
	i    int
}

func (rowScriptDriver) Open(name string) (driver.Conn, error) {
	s, ok := rowScripts.Load(name)
	if !ok {
		return nil, fmt.Errorf("rowscript: unknown dsn %q", name)
	}
	return rowScriptConn{s.(*RowScript)}, nil
}
func (rowScriptConn) Prepare(q string) (driver.Stmt, error) { return nil, fmt.Errorf("rowscript: no prepare") }
func (rowScriptConn) Close() error                          { return nil }
func (rowScriptConn) Begin() (driver.Tx, error)             { return nil, fmt.Errorf("rowscript: no tx") }

// CheckNamedValue lets non-standard argument/column types through untouched.
func (rowScriptConn) CheckNamedValue(*driver.NamedValue) error { return nil }

func (c rowScriptConn) QueryContext(ctx context.Context, q string, args []driver.NamedValue) (driver.Rows, error) {
	c.s.mtx.Lock()
	c.s.log = append(c.s.log, q)
	resp := c.s.resp
	c.s.mtx.Unlock()
	if resp == nil {
		return nil, fmt.Errorf("rowscript: no responder")
	}
	cols, rows, err := resp(q)
	if err != nil {
		return nil, err
	}
	return &rowScriptRows{cols: cols, rows: rows}, nil
}
func (r *rowScriptRows) Columns() []string { return r.cols }
func (r *rowScriptRows) Close() error      { return nil }
func (r *rowScriptRows) Next(dest []driver.Value) error {
	if r.i >= len(r.rows) {
		return io.EOF
	}
	copy(dest, r.rows[r.i])
	r.i++
	return nil
}

func init() { sql.Register("rowscript", rowScriptDriver{}) }

// RowScriptDB implements model.ISqlxDB over the scripted driver.
type RowScriptDB struct {
	Name string
	DB   *sql.DB
}

func (s *RowScriptDB) GetName() string { return s.Name }
func (s *RowScriptDB) QueryCtx(ctx context.Context, q string, args ...any) (*sql.Rows, error) {
	return s.DB.QueryContext(ctx, q, args...)
}
func (s *RowScriptDB) ExecCtx(ctx context.Context, q string, args ...any) error { return nil }
func (s *RowScriptDB) Conn(ctx context.Context) (*sql.Conn, error)             { return s.DB.Conn(ctx) }
func (s *RowScriptDB) Begin() (*sql.Tx, error)                                 { return s.DB.Begin() }
func (s *RowScriptDB) Close()                                                  {}

// RowScriptRegistry implements model.IDBRegistry: always the same scripted database.
type RowScriptRegistry struct {
	Map    *model.DataDatabasesMap
	Script *RowScript
}

func (r *RowScriptRegistry) GetDB(ctx context.Context) (*model.DataDatabasesMap, error) { return r.Map, nil }
func (r *RowScriptRegistry) Run()                                                       {}
func (r *RowScriptRegistry) Stop()                                                      {}
func (r *RowScriptRegistry) Ping() error                                                { return nil }

// NewRowScriptRegistry makes a registry over a fresh scripted database (single node unless cluster != "").
func NewRowScriptRegistry(cluster string) *RowScriptRegistry {
	id := fmt.Sprintf("rowscript-%d", atomic.AddInt64(&rowScriptSeq, 1))
	sc := &RowScript{}
	rowScripts.Store(id, sc)
	db, err := sql.Open("rowscript", id)
	if err != nil {
		panic(err)
	}
	return &RowScriptRegistry{
		Script: sc,
		Map: &model.DataDatabasesMap{
			Config:  &clconfig.ClokiBaseDataBase{Name: "qryn", ClusterName: cluster},
			DSN:     id,
			Session: &RowScriptDB{Name: id, DB: db},
		},
	}
}

// AnswerVersionQueries handles the two bookkeeping queries of dbVersion.GetVersionInfo; ok=false for anything else.
func AnswerVersionQueries(q string) (cols []string, rows [][]driver.Value, ok bool) {
	if strings.Contains(q, "type='update'") {
		return []string{"_name", "_value"}, nil, true
	}
	if strings.HasPrefix(strings.TrimSpace(q), "SHOW TABLES") {
		return []string{"name"}, [][]driver.Value{{"time_series"}, {"samples_v3"}}, true
	}
	return nil, nil, false
}
