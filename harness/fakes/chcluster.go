package fakes

import (
	"context"
	"errors"
	"fmt"
	"regexp"
	"sort"
	"strings"

	"github.com/ClickHouse/clickhouse-go/v2/lib/driver"

	"verif/harness/ddl"
)

// CHCluster: N ClickHouse nodes, each with its own catalogue and its own local `ver` table, and connections to them.
//
//   - a statement whose text carries ON CLUSTER is executed by EVERY node independently (a node on which it fails keeps
//     its catalogue, the others apply it); the initiator gets the error of the first node (in node order) that failed;
//   - any other statement is executed by the node the connection goes to;
//   - INSERT INTO ver stores the row on the connected node; SELECT max(ver) FROM ver_dist reads the rows of all nodes
//     (it needs ver_dist on the connected node and ver on every node), FROM ver those of the connected node;
//   - SHOW CREATE DATABASE fails with UNKNOWN_DATABASE when the connected node does not have the database;
//   - a scripted failure: call number N of the attempt takes effect on the nodes of Sel only (of those it is sent to),
//     then either the process is killed (the call panics with ErrKilled) or the call returns ErrInjected.
//
// The same semantics as Qryn.Ctrl.MigrateCluster (Lean).
type CHCluster struct {
	DB    string
	Nodes []*ddl.Catalog
	Vers  [][][2]uint64 // per node: rows of its `ver` table in insertion order
	cache map[string]parsed
}

var ErrKilled = errors.New("process killed")
var ErrNoRoute = errors.New("dial tcp: no route to host")

type ClusterFault struct {
	N    int   `json:"n"`
	Sel  []int `json:"sel"`
	Kill bool  `json:"kill"`
}

func NewCHCluster(db string, n int, dbExists bool) *CHCluster {
	c := &CHCluster{DB: db, cache: map[string]parsed{}}
	for i := 0; i < n; i++ {
		c.Nodes = append(c.Nodes, &ddl.Catalog{DB: dbExists})
		c.Vers = append(c.Vers, nil)
	}
	return c
}

func (c *CHCluster) Clone() *CHCluster {
	n := &CHCluster{DB: c.DB, cache: c.cache}
	for i := range c.Nodes {
		n.Nodes = append(n.Nodes, c.Nodes[i].Clone())
		n.Vers = append(n.Vers, append([][2]uint64(nil), c.Vers[i]...))
	}
	return n
}

// StateCanon: per node `n<i>{vers=<k:v,…> <catalogue>}`.
func (c *CHCluster) StateCanon() string {
	var parts []string
	for i := range c.Nodes {
		var vs []string
		for _, r := range c.Vers[i] {
			vs = append(vs, fmt.Sprintf("%d:%d", r[0], r[1]))
		}
		parts = append(parts, fmt.Sprintf("n%d{vers=%s %s}", i, strings.Join(vs, ","), c.Nodes[i].Canon()))
	}
	return strings.Join(parts, " ")
}

// MaxVer over the rows of all nodes.
func (c *CHCluster) MaxVer(k uint64) uint64 {
	var m uint64
	for i := range c.Vers {
		for _, r := range c.Vers[i] {
			if r[0] == k && r[1] > m {
				m = r[1]
			}
		}
	}
	return m
}

func (c *CHCluster) MaxVerNode(node int, k uint64) uint64 {
	var m uint64
	for _, r := range c.Vers[node] {
		if r[0] == k && r[1] > m {
			m = r[1]
		}
	}
	return m
}

func (c *CHCluster) parse(q string) (ddl.Stmt, error) {
	if p, ok := c.cache[q]; ok {
		return p.st, p.err
	}
	st, err := ddl.Parse(q, c.DB)
	c.cache[q] = parsed{st, err}
	return st, err
}

// ClusterConn: one process attempt's view of the cluster: every connection it opens goes to node Node.
type ClusterConn struct {
	C     *CHCluster
	Node  int
	Calls int
	Fault *ClusterFault
	Log   []LogEntry
	// OnCluster flags of the statements sent (exec calls that parsed), in order
	OcLog []bool
}

// Connect starts a new attempt connected to node (node >= len(Nodes): nothing answers, every call fails).
func (c *CHCluster) Connect(node int, f *ClusterFault) *ClusterConn {
	return &ClusterConn{C: c, Node: node, Fault: f}
}

func (cc *ClusterConn) sel(i int) bool {
	for _, x := range cc.Fault.Sel {
		if x == i {
			return true
		}
	}
	return false
}

// call: one database call under the failure schedule. targets: the nodes the call is sent to; do applies the call
// on one node.
func (cc *ClusterConn) call(kind, sql string, canon func(e *LogEntry) error, targets func() []int, do func(node int) error) error {
	e := LogEntry{Kind: kind, SQL: sql}
	defer func() { cc.Log = append(cc.Log, e) }()
	if cc.Node < 0 || cc.Node >= len(cc.C.Nodes) {
		e.Err = "other:no route to host" // the call reaches no node and is not counted
		return ErrNoRoute
	}
	n := cc.Calls
	cc.Calls++
	if err := canon(&e); err != nil {
		e.Err = "other:" + err.Error()
		return err
	}
	faulted := cc.Fault != nil && cc.Fault.N == n
	var first error
	for _, t := range targets() {
		if faulted && !cc.sel(t) {
			continue
		}
		if err := do(t); err != nil && first == nil {
			first = err
		}
	}
	if faulted {
		if cc.Fault.Kill {
			e.Err = "killed"
			panic(ErrKilled)
		}
		e.Err = "injected"
		return ErrInjected
	}
	if first != nil {
		var de *ddl.Err
		if errors.As(first, &de) {
			e.Err = de.Canon()
		} else {
			e.Err = "other:" + first.Error()
		}
		return first
	}
	return nil
}

func (cc *ClusterConn) all() []int {
	r := make([]int, len(cc.C.Nodes))
	for i := range r {
		r[i] = i
	}
	return r
}

func (cc *ClusterConn) Exec(ctx context.Context, query string, args ...any) error {
	var st ddl.Stmt
	isRecord := false
	var rk, rv uint64
	return cc.call("exec", query,
		func(e *LogEntry) error {
			var err error
			st, err = cc.C.parse(query)
			if err != nil {
				return fmt.Errorf("fake clickhouse: %v", err)
			}
			if st.Op == "insert" && st.Name == "ver" && len(args) == 2 {
				k, ok1 := toU64(args[0])
				v, ok2 := toU64(args[1])
				if !ok1 || !ok2 {
					return fmt.Errorf("fake clickhouse: INSERT INTO ver with non-integer arguments")
				}
				isRecord, rk, rv = true, k, v
				e.Canon = fmt.Sprintf("record:%d:%d", k, v)
				return nil
			}
			if len(args) != 0 {
				return fmt.Errorf("fake clickhouse: unexpected bound arguments for %.40q", query)
			}
			e.Canon = "exec:" + st.Canon()
			cc.OcLog = append(cc.OcLog, st.OnCluster)
			return nil
		},
		func() []int {
			if st.OnCluster {
				return cc.all()
			}
			return []int{cc.Node}
		},
		func(node int) error {
			if derr := cc.C.Nodes[node].Exec(st); derr != nil {
				return derr
			}
			if isRecord {
				cc.C.Vers[node] = append(cc.C.Vers[node], [2]uint64{rk, rv})
			}
			return nil
		})
}

var reShowCreateDB = regexp.MustCompile("^SHOW CREATE DATABASE `([^`]*)`$")

func (cc *ClusterConn) Query(ctx context.Context, query string, args ...any) (driver.Rows, error) {
	var rows *fakeRows
	var run func() error
	err := cc.call("query", query,
		func(e *LogEntry) error {
			if m := reMaxVer.FindStringSubmatch(query); m != nil && len(args) == 1 {
				k, ok := toU64(args[0])
				if !ok {
					return fmt.Errorf("fake clickhouse: version query with a non-integer key")
				}
				e.Canon = fmt.Sprintf("query:%d", k)
				run = func() error {
					self := cc.C.Nodes[cc.Node]
					if !self.DB {
						return &ddl.Err{Code: "noDatabase"}
					}
					if !self.Has(m[1]) {
						return &ddl.Err{Code: "missing", Name: m[1]}
					}
					switch m[1] {
					case "ver":
						rows = &fakeRows{cols: []string{"ver"}, data: [][]any{{cc.C.MaxVerNode(cc.Node, k)}}}
					case "ver_dist":
						for _, nd := range cc.C.Nodes {
							if !nd.DB {
								return &ddl.Err{Code: "noDatabase"}
							}
							if !nd.Has("ver") {
								return &ddl.Err{Code: "missing", Name: "ver"}
							}
						}
						rows = &fakeRows{cols: []string{"ver"}, data: [][]any{{cc.C.MaxVer(k)}}}
					default:
						return fmt.Errorf("fake clickhouse: version query on %s", m[1])
					}
					return nil
				}
				return nil
			}
			if m := reShowCreateDB.FindStringSubmatch(query); m != nil && len(args) == 0 {
				e.Canon = "show-create-database"
				run = func() error {
					if m[1] != cc.C.DB {
						return fmt.Errorf("fake clickhouse: SHOW CREATE DATABASE %s (configured: %s)", m[1], cc.C.DB)
					}
					if !cc.C.Nodes[cc.Node].DB {
						return &ddl.Err{Code: "noDatabase"}
					}
					rows = &fakeRows{cols: []string{"statement"}, data: [][]any{{"CREATE DATABASE " + m[1] + " ENGINE = Atomic"}}}
					return nil
				}
				return nil
			}
			return fmt.Errorf("fake clickhouse: unsupported query %.60q", query)
		},
		func() []int { return []int{cc.Node} },
		func(node int) error { return run() })
	if err != nil {
		return nil, err
	}
	return rows, nil
}

func (cc *ClusterConn) Contributors() []string { return nil }
func (cc *ClusterConn) ServerVersion() (*driver.ServerVersion, error) {
	return nil, errors.New("fake clickhouse: ServerVersion unsupported")
}
func (cc *ClusterConn) Select(ctx context.Context, dest any, query string, args ...any) error {
	return errors.New("fake clickhouse: Select unsupported")
}
func (cc *ClusterConn) QueryRow(ctx context.Context, query string, args ...any) driver.Row {
	return errRow{errors.New("fake clickhouse: QueryRow unsupported")}
}
func (cc *ClusterConn) PrepareBatch(ctx context.Context, query string, opts ...driver.PrepareBatchOption) (driver.Batch, error) {
	return nil, errors.New("fake clickhouse: PrepareBatch unsupported")
}
func (cc *ClusterConn) AsyncInsert(ctx context.Context, query string, wait bool, args ...any) error {
	return errors.New("fake clickhouse: AsyncInsert unsupported")
}
func (cc *ClusterConn) Ping(context.Context) error { return nil }
func (cc *ClusterConn) Stats() driver.Stats        { return driver.Stats{} }
func (cc *ClusterConn) Close() error               { return nil }

// NodeCats: the canonical catalogue of every node.
func (c *CHCluster) NodeCats() []string {
	r := make([]string, len(c.Nodes))
	for i := range c.Nodes {
		r[i] = c.Nodes[i].Canon()
	}
	return r
}

func SortedInts(xs []int) []int {
	r := append([]int(nil), xs...)
	sort.Ints(r)
	return r
}

// OneStringRow: a result set of one row with one String column.
func OneStringRow(col, val string) driver.Rows {
	return &fakeRows{cols: []string{col}, data: [][]any{{val}}}
}
