// Package fakes: in-memory stand-ins for the external systems the qryn code talks to.
//
// chconn_c19.go: a minimal clickhouse.Conn (clickhouse-go/v2 driver.Conn) for the retention code
// (ctrl/qryn/maintenance/rotate.go). It understands exactly the statements that code sends:
//   - the settings read (`SELECT argMax(value, inserted_at) ... FROM settings[_dist] WHERE fingerprint = $1 ...`),
//   - the settings write (`INSERT INTO settings (fingerprint, type, name, value, inserted_at) VALUES ($1..$4, <now>)`),
//   - `ALTER TABLE t [ON CLUSTER `c`] MODIFY TTL <expr>`,
//   - `ALTER TABLE t [ON CLUSTER `c`] MODIFY SETTING storage_policy=$1`,
//   - `ALTER TABLE t [ON CLUSTER `c`] MODIFY SETTING ttl_only_drop_parts = 1, ...` (no modelled effect).
//
// It keeps {settings rows, TTL per table, storage policy per table}, logs every statement in a parsed form and
// fails the statement with a chosen index (with or without applying its effect first). settings_dist is a
// Distributed table over settings: both names read the same rows.
package fakes

import (
	"context"
	"errors"
	"fmt"
	"reflect"
	"strings"

	"github.com/ClickHouse/clickhouse-go/v2/lib/driver"
)

// C19Stmt is one statement in parsed form. Kind: R (settings read), P (settings write), AP (storage policy),
// AS (MODIFY SETTING ttl_only_drop_parts...), AT (MODIFY TTL), X (not recognised; Value = raw text).
type C19Stmt struct {
	Kind    string
	Dist    bool   // R: read from settings_dist
	Fp      uint64 // R, P
	Tp      string // P
	Name    string // P
	Table   string // A*
	Cluster string // A*: name inside ON CLUSTER `...`, "" when absent
	Value   string // P: value; AP: policy; AT: TTL expression; X: raw statement
	Failed  bool   // the statement returned an error to the caller
}

func (s C19Stmt) IsAlter() bool { return s.Kind == "AP" || s.Kind == "AS" || s.Kind == "AT" }

type C19Row struct{ Tp, Name, Value string }

type C19Conn struct {
	Settings map[uint64][]C19Row // fingerprint -> rows in insertion order (the last one has the greatest inserted_at)
	TTL      map[string]string
	Policy   map[string]string
	Log      []C19Stmt
	// fault schedule: the statement with index FailAt (0-based, counting reads and writes of this connection
	// since the last ResetRun) returns an error; FailApplied = its effect is applied first
	FailAt      int
	FailApplied bool
	n           int
	// AfterStmt, if set, is called after every statement (the oracle looks at the state at every point)
	AfterStmt func(c *C19Conn, s C19Stmt)
}

var ErrC19Injected = errors.New("c19: injected failure")

func NewC19Conn(tables []string, initTTL, initPolicy string) *C19Conn {
	c := &C19Conn{Settings: map[uint64][]C19Row{}, TTL: map[string]string{}, Policy: map[string]string{}, FailAt: -1}
	for _, t := range tables {
		c.TTL[t] = initTTL
		c.Policy[t] = initPolicy
	}
	return c
}

// ResetRun starts a new run: empty log, statement counter 0, given fault (-1 = none).
func (c *C19Conn) ResetRun(failAt int, applied bool) {
	c.Log = nil
	c.n = 0
	c.FailAt = failAt
	c.FailApplied = applied
}

func (c *C19Conn) Clone() *C19Conn {
	d := &C19Conn{Settings: map[uint64][]C19Row{}, TTL: map[string]string{}, Policy: map[string]string{}, FailAt: -1}
	for k, v := range c.Settings {
		d.Settings[k] = append([]C19Row(nil), v...)
	}
	for k, v := range c.TTL {
		d.TTL[k] = v
	}
	for k, v := range c.Policy {
		d.Policy[k] = v
	}
	return d
}

// Marker: what the settings read returns for a fingerprint ("" when there is no row or the latest name is empty).
func (c *C19Conn) Marker(fp uint64) (string, bool) {
	rows := c.Settings[fp]
	if len(rows) == 0 || rows[len(rows)-1].Name == "" {
		return "", false
	}
	return rows[len(rows)-1].Value, true
}

func c19fp(v any) (uint64, bool) {
	rv := reflect.ValueOf(v)
	switch rv.Kind() {
	case reflect.Uint, reflect.Uint8, reflect.Uint16, reflect.Uint32, reflect.Uint64:
		return rv.Uint(), true
	case reflect.Int, reflect.Int8, reflect.Int16, reflect.Int32, reflect.Int64:
		return uint64(rv.Int()), true
	}
	return 0, false
}

// parseAlterHead parses "ALTER TABLE <t> [ ON CLUSTER `c` ] <rest>" in the exact spacing fmt.Sprintf("ALTER TABLE %s %s<sep>...")
// produces (onCluster = "" or " ON CLUSTER `c` "). Returns table, cluster, rest (leading white space trimmed).
func parseAlterHead(q string) (table, cluster, rest string, ok bool) {
	const p = "ALTER TABLE "
	if !strings.HasPrefix(q, p) {
		return
	}
	q = q[len(p):]
	i := strings.IndexByte(q, ' ')
	if i <= 0 {
		return
	}
	table, q = q[:i], q[i+1:]
	const oc = " ON CLUSTER `"
	if strings.HasPrefix(q, oc) {
		q = q[len(oc):]
		j := strings.Index(q, "` ")
		if j < 0 {
			return
		}
		cluster, q = q[:j], q[j+2:]
	}
	rest = strings.TrimLeft(q, " \n")
	return table, cluster, rest, true
}

func (c *C19Conn) parseExec(q string, args []any) C19Stmt {
	bad := C19Stmt{Kind: "X", Value: q}
	if strings.HasPrefix(q, "INSERT INTO settings (fingerprint, type, name, value, inserted_at)\nVALUES ($1, $2, $3, $4, ") {
		tail := q[strings.LastIndex(q, ", ")+2:]
		if tail != "NOW())" && tail != "now64(9))" && tail != "now64())" {
			return bad
		}
		if len(args) != 4 {
			return bad
		}
		fp, ok := c19fp(args[0])
		tp, ok1 := args[1].(string)
		nm, ok2 := args[2].(string)
		val, ok3 := args[3].(string)
		if !ok || !ok1 || !ok2 || !ok3 {
			return bad
		}
		return C19Stmt{Kind: "P", Fp: fp, Tp: tp, Name: nm, Value: val}
	}
	table, cluster, rest, ok := parseAlterHead(q)
	if !ok {
		return bad
	}
	switch {
	case rest == "MODIFY SETTING ttl_only_drop_parts = 1, merge_with_ttl_timeout = 3600, index_granularity = 8192" && len(args) == 0:
		return C19Stmt{Kind: "AS", Table: table, Cluster: cluster}
	case rest == "MODIFY SETTING storage_policy=$1" && len(args) == 1:
		p, ok := args[0].(string)
		if !ok {
			return bad
		}
		return C19Stmt{Kind: "AP", Table: table, Cluster: cluster, Value: p}
	case strings.HasPrefix(rest, "MODIFY TTL ") && len(args) == 0:
		return C19Stmt{Kind: "AT", Table: table, Cluster: cluster, Value: rest[len("MODIFY TTL "):]}
	}
	return bad
}

func (c *C19Conn) apply(s C19Stmt) {
	switch s.Kind {
	case "P":
		c.Settings[s.Fp] = append(c.Settings[s.Fp], C19Row{s.Tp, s.Name, s.Value})
	case "AP":
		c.Policy[s.Table] = s.Value
	case "AT":
		c.TTL[s.Table] = s.Value
	}
}

// step: bookkeeping common to reads and writes. Returns the error the statement reports.
func (c *C19Conn) step(s C19Stmt) error {
	idx := c.n
	c.n++
	var err error
	if s.Kind == "X" {
		err = fmt.Errorf("c19: statement not recognised: %q", s.Value)
	} else if idx == c.FailAt {
		err = ErrC19Injected
		if c.FailApplied {
			c.apply(s)
		}
	} else {
		c.apply(s)
	}
	s.Failed = err != nil
	c.Log = append(c.Log, s)
	if c.AfterStmt != nil {
		c.AfterStmt(c, s)
	}
	return err
}

func (c *C19Conn) Exec(ctx context.Context, query string, args ...any) error {
	return c.step(c.parseExec(query, args))
}

const c19SelA = "SELECT argMax(value, inserted_at) as _value FROM "
const c19SelB = " WHERE fingerprint = $1 \nGROUP BY fingerprint HAVING argMax(name, inserted_at) != ''"

func (c *C19Conn) Query(ctx context.Context, query string, args ...any) (driver.Rows, error) {
	s := C19Stmt{Kind: "X", Value: query}
	if strings.HasPrefix(query, c19SelA) && strings.HasSuffix(query, c19SelB) && len(args) == 1 {
		tbl := query[len(c19SelA) : len(query)-len(c19SelB)]
		if fp, ok := c19fp(args[0]); ok && (tbl == "settings" || tbl == "settings_dist") {
			s = C19Stmt{Kind: "R", Dist: tbl == "settings_dist", Fp: fp}
		}
	}
	// the value is read before the statement is accounted (a read has no effect)
	val, present := "", false
	if s.Kind == "R" {
		val, present = c.Marker(s.Fp)
	}
	if err := c.step(s); err != nil {
		return nil, err
	}
	r := &c19Rows{}
	if present {
		r.vals = []string{val}
	}
	return r, nil
}

type c19Rows struct {
	vals []string
	i    int
}

func (r *c19Rows) Next() bool { r.i++; return r.i <= len(r.vals) }
func (r *c19Rows) Scan(dest ...any) error {
	if len(dest) != 1 || r.i < 1 || r.i > len(r.vals) {
		return errors.New("c19: bad Scan")
	}
	p, ok := dest[0].(*string)
	if !ok {
		return errors.New("c19: Scan into non *string")
	}
	*p = r.vals[r.i-1]
	return nil
}
func (r *c19Rows) ScanStruct(dest any) error        { return errors.New("c19: not implemented") }
func (r *c19Rows) ColumnTypes() []driver.ColumnType { return nil }
func (r *c19Rows) Totals(dest ...any) error         { return errors.New("c19: not implemented") }
func (r *c19Rows) Columns() []string                { return []string{"_value"} }
func (r *c19Rows) Close() error                     { return nil }
func (r *c19Rows) Err() error                       { return nil }

type c19Row struct{ err error }

func (r c19Row) Err() error                { return r.err }
func (r c19Row) Scan(dest ...any) error    { return r.err }
func (r c19Row) ScanStruct(dest any) error { return r.err }

var errC19NI = errors.New("c19: not implemented by the fake connection")

func (c *C19Conn) Contributors() []string                        { return nil }
func (c *C19Conn) ServerVersion() (*driver.ServerVersion, error) { return nil, errC19NI }
func (c *C19Conn) Select(ctx context.Context, dest any, query string, args ...any) error {
	return c.step(C19Stmt{Kind: "X", Value: "Select: " + query})
}
func (c *C19Conn) QueryRow(ctx context.Context, query string, args ...any) driver.Row {
	return c19Row{c.step(C19Stmt{Kind: "X", Value: "QueryRow: " + query})}
}
func (c *C19Conn) PrepareBatch(ctx context.Context, query string, opts ...driver.PrepareBatchOption) (driver.Batch, error) {
	return nil, c.step(C19Stmt{Kind: "X", Value: "PrepareBatch: " + query})
}
func (c *C19Conn) AsyncInsert(ctx context.Context, query string, wait bool, args ...any) error {
	return c.step(C19Stmt{Kind: "X", Value: "AsyncInsert: " + query})
}
func (c *C19Conn) Ping(context.Context) error { return nil }
func (c *C19Conn) Stats() driver.Stats        { return driver.Stats{} }
func (c *C19Conn) Close() error               { return nil }
