package fakes

import (
	"context"
	"time"

	"github.com/metrico/qryn/reader/model"
)

// ScriptedTempo implements model.ITempoService from in-memory lists (for controllerv1.TempoController).
type ScriptedTempo struct {
	Strings      []string              // Tags, Values, TagsV2, ValuesV2
	Spans        []*model.SpanResponse // Query
	Traces       []*model.TraceResponse
	TraceBatches [][]model.TraceInfo // SearchTraceQL
}

func (f *ScriptedTempo) strings() (chan string, error) {
	c := make(chan string)
	go func() {
		defer close(c)
		for _, t := range f.Strings {
			c <- t
		}
	}()
	return c, nil
}
func (f *ScriptedTempo) Query(ctx context.Context, startNS int64, endNS int64, traceId []byte, binIds bool) (chan *model.SpanResponse, error) {
	c := make(chan *model.SpanResponse)
	go func() {
		defer close(c)
		for _, s := range f.Spans {
			c <- s
		}
	}()
	return c, nil
}
func (f *ScriptedTempo) Tags(ctx context.Context) (chan string, error)               { return f.strings() }
func (f *ScriptedTempo) Values(ctx context.Context, tag string) (chan string, error) { return f.strings() }
func (f *ScriptedTempo) ValuesV2(ctx context.Context, key string, query string, from time.Time, to time.Time, limit int) (chan string, error) {
	return f.strings()
}
func (f *ScriptedTempo) TagsV2(ctx context.Context, query string, from time.Time, to time.Time, limit int) (chan string, error) {
	return f.strings()
}
func (f *ScriptedTempo) Search(ctx context.Context, tags string, minDurationNS int64, maxDurationNS int64, limit int, fromNS int64, toNS int64) (chan *model.TraceResponse, error) {
	c := make(chan *model.TraceResponse)
	go func() {
		defer close(c)
		for _, s := range f.Traces {
			c <- s
		}
	}()
	return c, nil
}
func (f *ScriptedTempo) SearchTraceQL(ctx context.Context, q string, limit int, from time.Time, to time.Time) (chan []model.TraceInfo, error) {
	c := make(chan []model.TraceInfo)
	go func() {
		defer close(c)
		for _, s := range f.TraceBatches {
			c <- s
		}
	}()
	return c, nil
}
