// Package sqldump serialises a real sql_select object tree (and the planner-specific nodes hanging off it)
// by reflection, including unexported fields, into a compact s-expression the Lean driver can read:
//
//	node  := "(" TypeName { field "=" value } ")"
//	value := node | "[" { value } "]" | "h:" hex | "i:" int | "b:" 0|1 | "f:" text | "nil" | "func"
//
// Strings are hex-encoded ("h:-" = empty). A WithRef is dumped as its alias only (the With it points to is
// listed where it is defined), which keeps the dump a tree of linear size.
package sqldump

import (
	"encoding/hex"
	"fmt"
	"reflect"
	"sort"
	"strconv"
	"strings"
	"unsafe"
)

func hx(s string) string {
	if s == "" {
		return "h:-"
	}
	return "h:" + hex.EncodeToString([]byte(s))
}

// Dump serialises v (any value reachable from an ISelect).
func Dump(v any) string {
	var sb strings.Builder
	d := &dumper{}
	d.dump(&sb, reflect.ValueOf(v), 0)
	return sb.String()
}

type dumper struct {
	inWith int // > 0 while dumping the query of a With: its own (already hoisted) WITH list is given as aliases only
}

func access(v reflect.Value) reflect.Value {
	if v.CanInterface() {
		return v
	}
	if v.CanAddr() {
		return reflect.NewAt(v.Type(), unsafe.Pointer(v.UnsafeAddr())).Elem()
	}
	return v
}

func (d *dumper) dump(sb *strings.Builder, v reflect.Value, depth int) {
	if depth > 200 {
		sb.WriteString("nil")
		return
	}
	if !v.IsValid() {
		sb.WriteString("nil")
		return
	}
	switch v.Kind() {
	case reflect.Interface, reflect.Ptr:
		if v.IsNil() {
			sb.WriteString("nil")
			return
		}
		e := v.Elem()
		if v.Kind() == reflect.Ptr && e.Kind() == reflect.Struct && e.Type().Name() == "WithRef" {
			// alias of the referenced With only
			ref := access(e.FieldByName("ref"))
			alias := ""
			if ref.IsValid() && !ref.IsNil() {
				alias = access(ref.Elem().FieldByName("alias")).String()
			}
			sb.WriteString("(WithRef alias=" + hx(alias) + ")")
			return
		}
		d.dump(sb, e, depth+1)
	case reflect.Struct:
		// addressable copy so that unexported fields can be read
		if !v.CanAddr() {
			c := reflect.New(v.Type()).Elem()
			c.Set(v)
			v = c
		}
		sb.WriteString("(" + v.Type().Name())
		isWith := v.Type().Name() == "With"
		if n := v.Type().Name(); n == "intersect" || n == "union" || n == "UnionAll" || n == "unionAll" {
			// set operations render each operand with its own WITH list: dump them in full
			saved := d.inWith
			d.inWith = 0
			defer func() { d.inWith = saved }()
		}
		for i := 0; i < v.NumField(); i++ {
			f := v.Type().Field(i)
			sb.WriteString(" " + f.Name + "=")
			fv := access(v.Field(i))
			if v.Type().Name() == "Select" && f.Name == "withs" && d.inWith > 0 {
				sb.WriteString("[")
				for j := 0; j < fv.Len(); j++ {
					if j > 0 {
						sb.WriteString(" ")
					}
					w := access(fv.Index(j))
					if !w.IsNil() {
						sb.WriteString(hx(access(w.Elem().FieldByName("alias")).String()))
					}
				}
				sb.WriteString("]")
				continue
			}
			if isWith && f.Name == "query" {
				d.inWith++
				d.dump(sb, fv, depth+1)
				d.inWith--
				continue
			}
			d.dump(sb, fv, depth+1)
		}
		sb.WriteString(")")
	case reflect.Slice, reflect.Array:
		if v.Kind() == reflect.Slice && v.IsNil() {
			sb.WriteString("[]")
			return
		}
		sb.WriteString("[")
		for i := 0; i < v.Len(); i++ {
			if i > 0 {
				sb.WriteString(" ")
			}
			d.dump(sb, access(v.Index(i)), depth+1)
		}
		sb.WriteString("]")
	case reflect.Map:
		// deterministic: sorted by key text
		keys := v.MapKeys()
		sort.Slice(keys, func(i, j int) bool { return fmt.Sprint(keys[i]) < fmt.Sprint(keys[j]) })
		sb.WriteString("[")
		for i, k := range keys {
			if i > 0 {
				sb.WriteString(" ")
			}
			sb.WriteString("(KV k=")
			d.dump(sb, k, depth+1)
			sb.WriteString(" v=")
			d.dump(sb, v.MapIndex(k), depth+1)
			sb.WriteString(")")
		}
		sb.WriteString("]")
	case reflect.String:
		sb.WriteString(hx(v.String()))
	case reflect.Int, reflect.Int8, reflect.Int16, reflect.Int32, reflect.Int64:
		sb.WriteString("i:" + strconv.FormatInt(v.Int(), 10))
	case reflect.Uint, reflect.Uint8, reflect.Uint16, reflect.Uint32, reflect.Uint64:
		sb.WriteString("i:" + strconv.FormatUint(v.Uint(), 10))
	case reflect.Bool:
		if v.Bool() {
			sb.WriteString("b:1")
		} else {
			sb.WriteString("b:0")
		}
	case reflect.Float32, reflect.Float64:
		sb.WriteString("f:" + fmt.Sprintf("%f", v.Float()))
	case reflect.Func:
		if v.IsNil() {
			sb.WriteString("nil")
		} else {
			sb.WriteString("func")
		}
	default:
		sb.WriteString("nil")
	}
}
