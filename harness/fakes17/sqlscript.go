// Package fakes: in-process stand-ins for the database side of the reader.
//
// sqlscript.go — a scripted database/sql driver ("scripted"): every query text is logged and answered by a
// Go function, so that reader services (which want real *sql.Rows) can be driven without ClickHouse. A
// Script also gives the reader's model.ISqlxDB and model.IDBRegistry views of itself.
package fakes17

import (
	"context"
	"database/sql"
	"database/sql/driver"
	"fmt"
	"io"
	"sync"
	"sync/atomic"

	"github.com/metrico/cloki-config/config"
	"github.com/metrico/qryn/reader/model"
)

// Responder answers one query text: column names and rows (a column value may be any Go value the
// destination of Rows.Scan accepts: uint64, int64, float64, string, map[string]string, [][]interface{} …).
type Responder func(q string) (cols []string, rows [][]driver.Value, err error)

type Script struct {
	mtx  sync.Mutex
	log  []string
	resp Responder
	dsn  string
	db   *sql.DB
}

var (
	scripts   sync.Map // dsn -> *Script
	scriptSeq int64
	regOnce   sync.Once
)

// NewScript registers a new scripted database answering with resp.
func NewScript(resp Responder) *Script {
	regOnce.Do(func() { sql.Register("scripted", sDriver{}) })
	s := &Script{resp: resp, dsn: fmt.Sprintf("script-%d", atomic.AddInt64(&scriptSeq, 1))}
	scripts.Store(s.dsn, s)
	db, err := sql.Open("scripted", s.dsn)
	if err != nil {
		panic(err)
	}
	s.db = db
	return s
}

func (s *Script) SetResponder(resp Responder) { s.mtx.Lock(); s.resp = resp; s.mtx.Unlock() }

// Queries returns the query texts seen so far, in order.
func (s *Script) Queries() []string {
	s.mtx.Lock()
	defer s.mtx.Unlock()
	return append([]string(nil), s.log...)
}
func (s *Script) Reset()      { s.mtx.Lock(); s.log = nil; s.mtx.Unlock() }
func (s *Script) DB() *sql.DB { return s.db }
func (s *Script) Close()      { s.db.Close(); scripts.Delete(s.dsn) }

type sDriver struct{}
type sConn struct{ s *Script }
type sRows struct {
	cols []string
	rows [][]driver.Value
	i    int
}

func (sDriver) Open(name string) (driver.Conn, error) {
	v, ok := scripts.Load(name)
	if !ok {
		return nil, fmt.Errorf("scripted: unknown script %q", name)
	}
	return sConn{v.(*Script)}, nil
}
func (sConn) Prepare(q string) (driver.Stmt, error) { return nil, fmt.Errorf("scripted: no prepare") }
func (sConn) Close() error                           { return nil }
func (sConn) Begin() (driver.Tx, error)              { return nil, fmt.Errorf("scripted: no tx") }
func (c sConn) QueryContext(ctx context.Context, q string, args []driver.NamedValue) (driver.Rows, error) {
	c.s.mtx.Lock()
	c.s.log = append(c.s.log, q)
	resp := c.s.resp
	c.s.mtx.Unlock()
	cols, rows, err := resp(q)
	if err != nil {
		return nil, err
	}
	return &sRows{cols: cols, rows: rows}, nil
}
func (c sConn) ExecContext(ctx context.Context, q string, args []driver.NamedValue) (driver.Result, error) {
	c.s.mtx.Lock()
	c.s.log = append(c.s.log, q)
	c.s.mtx.Unlock()
	return driver.RowsAffected(0), nil
}
func (r *sRows) Columns() []string { return r.cols }
func (r *sRows) Close() error      { return nil }
func (r *sRows) Next(dest []driver.Value) error {
	if r.i >= len(r.rows) {
		return io.EOF
	}
	copy(dest, r.rows[r.i])
	r.i++
	return nil
}

// ---- model.ISqlxDB over the script
type Sqlx struct {
	S    *Script
	Name string
}

func (s *Sqlx) GetName() string { return s.Name }
func (s *Sqlx) QueryCtx(ctx context.Context, q string, args ...any) (*sql.Rows, error) {
	return s.S.db.QueryContext(ctx, q, args...)
}
func (s *Sqlx) ExecCtx(ctx context.Context, q string, args ...any) error {
	_, err := s.S.db.ExecContext(ctx, q, args...)
	return err
}
func (s *Sqlx) Conn(ctx context.Context) (*sql.Conn, error) { return s.S.db.Conn(ctx) }
func (s *Sqlx) Begin() (*sql.Tx, error)                     { return s.S.db.Begin() }
func (s *Sqlx) Close()                                      {}

// ---- model.IDBRegistry over the script
type Registry struct{ M *model.DataDatabasesMap }

func (r *Registry) GetDB(ctx context.Context) (*model.DataDatabasesMap, error) { return r.M, nil }
func (r *Registry) Run()                                                     {}
func (r *Registry) Stop()                                                    {}
func (r *Registry) Ping() error                                              { return nil }

// Registry returns a registry whose only database is this script. clusterName "" = single node.
func (s *Script) Registry(name, clusterName string) *Registry {
	return &Registry{M: &model.DataDatabasesMap{
		Config:  &config.ClokiBaseDataBase{Name: "qryn", ClusterName: clusterName},
		DSN:     s.dsn,
		Session: &Sqlx{S: s, Name: name},
	}}
}
