package fakes17

// minich.go — a reference interpreter for the small SELECT subset the reader's selector planners emit
// (WITH sub-queries, SELECT DISTINCT, UNION ALL, WHERE/GROUP BY/HAVING/ORDER BY/LIMIT, comparisons, and/or, IN lists and IN (with-name),
// match(), bitShiftLeft(), groupBitOr(), toUInt64(), intDiv(), %, +, -, *, /, the aggregates argMax, argMaxMerge,
// countMerge, count, min, max, sum; array subscripts, splitByChar, format, (expr as name), arrayExists(x -> …, arr) with
// tuple access x.1), over in-memory tables.
// It is an oracle device: the text the real planner produced is executed on a generated database and the
// rows go back to the real reader code through the scripted database/sql driver.
//
// ClickHouse semantics that matter here are reproduced deliberately:
//   - a comparison / and / or yields UInt8;
//   - bitShiftLeft(a, n) has the type of a: bits shifted out of that width are lost;
//   - a + b is computed in a wider type (no wrap-around for the sums that occur);
//   - match(haystack, pattern) is an unanchored RE2 search;
//   - select aliases are visible in WHERE, GROUP BY and ORDER BY, and an unqualified name that is an alias means the
//     aliased expression even when the source has a column of that name (`tbl.col` is the column);
//   - string literals use backslash escapes.
// Anything outside the subset is an error (fail closed), never a guess.

import (
	"database/sql/driver"
	"fmt"
	"math/big"
	"regexp"
	"sort"
	"strconv"
	"strings"
)

// ---- values
type VKind int

const (
	VInt VKind = iota
	VStr
	VFloat
	VRaw
)

type Value struct {
	Kind VKind
	I    *big.Int
	Bits int // width of the integer type (8 for UInt8 … 64); 0 = 64
	S    string
	F    float64
	Raw  any
}

func Int(i int64) Value     { return Value{Kind: VInt, I: big.NewInt(i), Bits: 64} }
func Uint(u uint64) Value   { return Value{Kind: VInt, I: new(big.Int).SetUint64(u), Bits: 64} }
func Str(s string) Value    { return Value{Kind: VStr, S: s} }
func Float(f float64) Value { return Value{Kind: VFloat, F: f} }
func RawValue(x any) Value  { return Value{Kind: VRaw, Raw: x} }
func u8(b bool) Value {
	if b {
		return Value{Kind: VInt, I: big.NewInt(1), Bits: 8}
	}
	return Value{Kind: VInt, I: big.NewInt(0), Bits: 8}
}
func (v Value) truthy() (bool, error) {
	if v.Kind != VInt {
		return false, fmt.Errorf("minich: condition is not an integer")
	}
	return v.I.Sign() != 0, nil
}
func (v Value) key() string {
	switch v.Kind {
	case VInt:
		return "i" + v.I.String()
	case VStr:
		return "s" + v.S
	case VFloat:
		return fmt.Sprintf("f%v", v.F)
	}
	return fmt.Sprintf("r%v", v.Raw)
}
func (v Value) Driver() driver.Value {
	switch v.Kind {
	case VInt:
		if v.I.IsInt64() {
			return v.I.Int64()
		}
		return v.I.Uint64()
	case VStr:
		return v.S
	case VFloat:
		return v.F
	}
	return v.Raw
}

func compare(a, b Value) (int, error) {
	switch {
	case a.Kind == VInt && b.Kind == VInt:
		return a.I.Cmp(b.I), nil
	case a.Kind == VStr && b.Kind == VStr:
		return strings.Compare(a.S, b.S), nil
	case a.Kind == VFloat && b.Kind == VFloat:
		switch {
		case a.F < b.F:
			return -1, nil
		case a.F > b.F:
			return 1, nil
		}
		return 0, nil
	}
	return 0, fmt.Errorf("minich: comparison of different types")
}

// ---- lexer
type tok struct {
	k string // "id", "num", "str", "sym", "eof"
	s string
}

func lexSQL(q string) ([]tok, error) {
	var res []tok
	i := 0
	for i < len(q) {
		c := q[i]
		switch {
		case c == ' ' || c == '\n' || c == '\t' || c == '\r':
			i++
		case c == '\'':
			var b strings.Builder
			i++
			closed := false
			for i < len(q) {
				if q[i] == '\\' && i+1 < len(q) {
					i++
					switch q[i] {
					case 'n':
						b.WriteByte('\n')
					case 'r':
						b.WriteByte('\r')
					case 't':
						b.WriteByte('\t')
					case 'b':
						b.WriteByte('\b')
					case '0':
						b.WriteByte(0)
					case 'x':
						if i+2 < len(q) {
							var x byte
							fmt.Sscanf(q[i+1:i+3], "%02x", &x)
							b.WriteByte(x)
							i += 2
						}
					default:
						b.WriteByte(q[i])
					}
					i++
					continue
				}
				if q[i] == '\'' {
					if i+1 < len(q) && q[i+1] == '\'' {
						b.WriteByte('\'')
						i += 2
						continue
					}
					closed = true
					i++
					break
				}
				b.WriteByte(q[i])
				i++
			}
			if !closed {
				return nil, fmt.Errorf("minich: unterminated string literal")
			}
			res = append(res, tok{"str", b.String()})
		case c >= '0' && c <= '9':
			j := i
			for j < len(q) && q[j] >= '0' && q[j] <= '9' {
				j++
			}
			res = append(res, tok{"num", q[i:j]})
			i = j
		case c == '`':
			j := strings.IndexByte(q[i+1:], '`')
			if j < 0 {
				return nil, fmt.Errorf("minich: unterminated identifier")
			}
			name := q[i+1 : i+1+j]
			i += j + 2
			// `db`.table → keep only the table part
			if i < len(q) && q[i] == '.' {
				i++
				continue
			}
			res = append(res, tok{"id", name})
		case c == '_' || (c >= 'a' && c <= 'z') || (c >= 'A' && c <= 'Z'):
			j := i
			for j < len(q) && (q[j] == '_' || q[j] == '.' || (q[j] >= 'a' && q[j] <= 'z') || (q[j] >= 'A' && q[j] <= 'Z') || (q[j] >= '0' && q[j] <= '9')) {
				j++
			}
			res = append(res, tok{"id", q[i:j]})
			i = j
		default:
			for _, s := range []string{"->", "==", "!=", ">=", "<=", "<>", "(", ")", "[", "]", ",", "+", "-", "*", "/", "%", "=", ">", "<"} {
				if strings.HasPrefix(q[i:], s) {
					res = append(res, tok{"sym", s})
					i += len(s)
					goto next
				}
			}
			return nil, fmt.Errorf("minich: unexpected character %q", c)
		next:
		}
	}
	return append(res, tok{"eof", ""}), nil
}

// ---- AST
type Node struct {
	Kind string // num str id call bin in not
	S    string
	V    Value
	Args []*Node
}

type selItem struct {
	e     *Node
	alias string
}
type orderItem struct {
	e    *Node
	desc bool
}
type Select struct {
	with     map[string]*Select
	distinct bool      // SELECT DISTINCT: equal output rows are returned once (first occurrence kept)
	unionAll []*Select // sel UNION ALL sel …: the rows of the operands one after the other
	cols     []selItem
	from     string
	alias    string
	where    *Node
	groupBy  []*Node
	having   *Node
	orderBy  []orderItem
	limit    *Node
}

type parser struct {
	t []tok
	i int
}

func (p *parser) peek() tok { return p.t[p.i] }
func (p *parser) kw(s string) bool {
	return p.t[p.i].k == "id" && strings.EqualFold(p.t[p.i].s, s)
}
func (p *parser) sym(s string) bool { return p.t[p.i].k == "sym" && p.t[p.i].s == s }
func (p *parser) eat(s string) error {
	if p.sym(s) || p.kw(s) {
		p.i++
		return nil
	}
	return fmt.Errorf("minich: expected %q, found %q", s, p.t[p.i].s)
}

var stopWords = map[string]bool{"from": true, "where": true, "group": true, "having": true, "order": true, "limit": true,
	"as": true, "asc": true, "desc": true, "and": true, "or": true, "in": true, "not": true, "by": true, "select": true, "with": true}

func ParseSelect(q string) (*Select, error) {
	t, err := lexSQL(q)
	if err != nil {
		return nil, err
	}
	p := &parser{t: t}
	s, err := p.selectStmt()
	if err != nil {
		return nil, err
	}
	if p.peek().k != "eof" {
		return nil, fmt.Errorf("minich: trailing %q", p.peek().s)
	}
	return s, nil
}

// selectStmt: one select, or several joined by UNION ALL (as the multi-selector planner renders them inside a WITH body)
func (p *parser) selectStmt() (*Select, error) {
	s, err := p.selectOne()
	if err != nil {
		return nil, err
	}
	for p.kw("union") {
		p.i++
		if err := p.eat("all"); err != nil {
			return nil, err
		}
		o, err := p.selectOne()
		if err != nil {
			return nil, err
		}
		s.unionAll = append(s.unionAll, o)
	}
	return s, nil
}

func (p *parser) selectOne() (*Select, error) {
	s := &Select{with: map[string]*Select{}}
	if p.kw("with") {
		p.i++
		for {
			if p.peek().k != "id" {
				return nil, fmt.Errorf("minich: WITH name expected")
			}
			name := p.peek().s
			p.i++
			if err := p.eat("as"); err != nil {
				return nil, err
			}
			if err := p.eat("("); err != nil {
				return nil, err
			}
			sub, err := p.selectStmt()
			if err != nil {
				return nil, err
			}
			if err := p.eat(")"); err != nil {
				return nil, err
			}
			s.with[name] = sub
			if p.sym(",") {
				p.i++
				continue
			}
			break
		}
	}
	if err := p.eat("select"); err != nil {
		return nil, err
	}
	if p.kw("distinct") {
		p.i++
		s.distinct = true
	}
	for {
		e, err := p.expr(0)
		if err != nil {
			return nil, err
		}
		it := selItem{e: e}
		if p.kw("as") {
			p.i++
			it.alias = p.peek().s
			p.i++
		} else if e.Kind == "id" {
			it.alias = e.S
			if j := strings.LastIndexByte(it.alias, '.'); j >= 0 {
				it.alias = it.alias[j+1:]
			}
		}
		s.cols = append(s.cols, it)
		if p.sym(",") {
			p.i++
			continue
		}
		break
	}
	if err := p.eat("from"); err != nil {
		return nil, err
	}
	if p.peek().k != "id" {
		return nil, fmt.Errorf("minich: table name expected")
	}
	s.from = p.peek().s
	s.alias = s.from
	p.i++
	if p.kw("as") {
		p.i++
		s.alias = p.peek().s
		p.i++
	}
	var err error
	if p.kw("where") {
		p.i++
		if s.where, err = p.expr(0); err != nil {
			return nil, err
		}
	}
	if p.kw("group") {
		p.i++
		if err := p.eat("by"); err != nil {
			return nil, err
		}
		for {
			e, err := p.expr(0)
			if err != nil {
				return nil, err
			}
			s.groupBy = append(s.groupBy, e)
			if p.sym(",") {
				p.i++
				continue
			}
			break
		}
	}
	if p.kw("having") {
		p.i++
		if s.having, err = p.expr(0); err != nil {
			return nil, err
		}
	}
	if p.kw("order") {
		p.i++
		if err := p.eat("by"); err != nil {
			return nil, err
		}
		for {
			e, err := p.expr(0)
			if err != nil {
				return nil, err
			}
			it := orderItem{e: e}
			if p.kw("asc") {
				p.i++
			} else if p.kw("desc") {
				p.i++
				it.desc = true
			}
			s.orderBy = append(s.orderBy, it)
			if p.sym(",") {
				p.i++
				continue
			}
			break
		}
	}
	if p.kw("limit") {
		p.i++
		if s.limit, err = p.expr(0); err != nil {
			return nil, err
		}
	}
	return s, nil
}

// precedence climbing: or 1, and 2, comparison/IN 4, + - 5, * / % 6
func (p *parser) binPrec() (string, int) {
	t := p.peek()
	if t.k == "id" {
		switch strings.ToLower(t.s) {
		case "or":
			return "or", 1
		case "and":
			return "and", 2
		case "in":
			return "in", 4
		}
		return "", 0
	}
	if t.k == "sym" {
		switch t.s {
		case "==", "=", "!=", "<>", ">=", "<=", ">", "<":
			return t.s, 4
		case "+", "-":
			return t.s, 5
		case "*", "/", "%":
			return t.s, 6
		}
	}
	return "", 0
}

func (p *parser) expr(min int) (*Node, error) {
	lhs, err := p.unary()
	if err != nil {
		return nil, err
	}
	for {
		op, prec := p.binPrec()
		if op == "" || prec <= min {
			return lhs, nil
		}
		p.i++
		if op == "in" {
			if err := p.eat("("); err != nil {
				return nil, err
			}
			n := &Node{Kind: "in", Args: []*Node{lhs}}
			for !p.sym(")") {
				e, err := p.expr(0)
				if err != nil {
					return nil, err
				}
				n.Args = append(n.Args, e)
				if p.sym(",") {
					p.i++
				}
			}
			p.i++
			lhs = n
			continue
		}
		rhs, err := p.expr(prec)
		if err != nil {
			return nil, err
		}
		lhs = &Node{Kind: "bin", S: op, Args: []*Node{lhs, rhs}}
	}
}

// unary = primary followed by any number of [index] (ClickHouse array subscript, 1-based)
func (p *parser) unary() (*Node, error) {
	n, err := p.primary()
	if err != nil {
		return nil, err
	}
	for p.sym("[") {
		p.i++
		idx, err := p.expr(0)
		if err != nil {
			return nil, err
		}
		if err := p.eat("]"); err != nil {
			return nil, err
		}
		n = &Node{Kind: "index", Args: []*Node{n, idx}}
	}
	return n, nil
}

func (p *parser) primary() (*Node, error) {
	t := p.peek()
	switch {
	case t.k == "sym" && t.s == "-":
		p.i++
		e, err := p.unary()
		if err != nil {
			return nil, err
		}
		return &Node{Kind: "bin", S: "-", Args: []*Node{{Kind: "num", V: Int(0)}, e}}, nil
	case t.k == "id" && strings.EqualFold(t.s, "not"):
		p.i++
		e, err := p.expr(3)
		if err != nil {
			return nil, err
		}
		return &Node{Kind: "not", Args: []*Node{e}}, nil
	case t.k == "num":
		p.i++
		n, _ := new(big.Int).SetString(t.s, 10)
		return &Node{Kind: "num", V: Value{Kind: VInt, I: n, Bits: 64}}, nil
	case t.k == "str":
		p.i++
		return &Node{Kind: "str", V: Str(t.s)}, nil
	case t.k == "sym" && t.s == "(":
		p.i++
		e, err := p.expr(0)
		if err != nil {
			return nil, err
		}
		if p.kw("as") { // (expr as name): an alias defined inside an expression
			p.i++
			if p.peek().k != "id" {
				return nil, fmt.Errorf("minich: alias name expected")
			}
			e = &Node{Kind: "alias", S: p.peek().s, Args: []*Node{e}}
			p.i++
		}
		return e, p.eat(")")
	case t.k == "id":
		if stopWords[strings.ToLower(t.s)] {
			return nil, fmt.Errorf("minich: unexpected keyword %q", t.s)
		}
		p.i++
		if p.sym("->") { // lambda: x -> body (only as a function argument)
			p.i++
			body, err := p.expr(0)
			if err != nil {
				return nil, err
			}
			return &Node{Kind: "lambda", S: t.s, Args: []*Node{body}}, nil
		}
		if p.sym("(") {
			p.i++
			n := &Node{Kind: "call", S: t.s}
			for !p.sym(")") {
				e, err := p.expr(0)
				if err != nil {
					return nil, err
				}
				n.Args = append(n.Args, e)
				if p.sym(",") {
					p.i++
				}
			}
			p.i++
			return n, nil
		}
		return &Node{Kind: "id", S: t.s}, nil
	}
	return nil, fmt.Errorf("minich: unexpected token %q", t.s)
}

// ---- evaluation
type Row map[string]Value
type DB struct {
	Tables map[string][]Row
	Funcs  map[string]func(args []Value) (Value, error) // extra scalar functions (e.g. JSONExtractKeysAndValues)
}

type env struct {
	db        *DB
	sel       *Select
	row       Row   // current source row (nil for a group)
	group     []Row // rows of the current group (aggregates)
	out       Row   // already computed output columns (ORDER BY)
	subs      map[string][]Value
	depth     int
	bind      map[string]Value // lambda variables and (expr as name) aliases
	aliasBusy map[string]bool  // aliases being expanded (an alias whose expression names itself unqualified is the column)
}

func (e *env) col(name string) (Value, error) {
	if v, ok := e.bind[name]; ok {
		return v, nil
	}
	if j := strings.IndexByte(name, '.'); j > 0 { // x.1: element of the tuple bound to a lambda variable
		if tv, ok := e.bind[name[:j]]; ok {
			elems, ok := tv.Raw.([]Value)
			k, err := strconv.Atoi(name[j+1:])
			if tv.Kind != VRaw || !ok || err != nil || k < 1 || k > len(elems) {
				return Value{}, fmt.Errorf("minich: bad tuple access %s", name)
			}
			return elems[k-1], nil
		}
	}
	if e.out != nil {
		if v, ok := e.out[name]; ok {
			return v, nil
		}
	}
	short := name
	if j := strings.IndexByte(name, '.'); j >= 0 && (name[:j] == e.sel.alias || name[:j] == e.sel.from) {
		short = name[j+1:]
	} else if j < 0 && e.depth < 4 {
		// ClickHouse (prefer_column_name_to_alias = 0): an unqualified name that is a select alias stands for the
		// aliased expression, also when the source has a column of that name; `tbl.col` is the source column.
		for _, it := range e.sel.cols {
			if it.alias == name && !(it.e.Kind == "id" && it.e.S == name) && !e.aliasBusy[name] {
				if e.aliasBusy == nil {
					e.aliasBusy = map[string]bool{}
				}
				e.aliasBusy[name] = true
				e.depth++
				v, err := e.eval(it.e)
				e.depth--
				delete(e.aliasBusy, name)
				return v, err
			}
		}
	}
	row := e.row
	if row == nil && len(e.group) > 0 {
		row = e.group[0]
	}
	if row != nil {
		if v, ok := row[short]; ok {
			return v, nil
		}
	}
	// select alias visible in WHERE / HAVING / ORDER BY
	if e.depth < 4 {
		for _, it := range e.sel.cols {
			if it.alias == name && !(it.e.Kind == "id" && it.e.S == name) {
				e.depth++
				v, err := e.eval(it.e)
				e.depth--
				return v, err
			}
		}
	}
	return Value{}, fmt.Errorf("minich: unknown column %q", name)
}

func widen(a, b Value) int {
	m := a.Bits
	if b.Bits > m {
		m = b.Bits
	}
	if m == 0 || m >= 64 {
		return 64
	}
	return m * 2
}

func (e *env) eval(n *Node) (Value, error) {
	switch n.Kind {
	case "num", "str":
		return n.V, nil
	case "id":
		return e.col(n.S)
	case "not":
		v, err := e.eval(n.Args[0])
		if err != nil {
			return v, err
		}
		b, err := v.truthy()
		return u8(!b), err
	case "in":
		l, err := e.eval(n.Args[0])
		if err != nil {
			return l, err
		}
		if len(n.Args) == 2 && n.Args[1].Kind == "id" {
			if sub, ok := e.sel.with[n.Args[1].S]; ok {
				vals, ok := e.subs[n.Args[1].S]
				if !ok {
					_, rows, err := e.db.exec(sub, e.sel.with)
					if err != nil {
						return Value{}, err
					}
					for _, r := range rows {
						vals = append(vals, r[0])
					}
					e.subs[n.Args[1].S] = vals
				}
				for _, v := range vals {
					if c, err := compare(l, v); err == nil && c == 0 {
						return u8(true), nil
					}
				}
				return u8(false), nil
			}
		}
		for _, a := range n.Args[1:] {
			v, err := e.eval(a)
			if err != nil {
				return v, err
			}
			c, err := compare(l, v)
			if err != nil {
				return Value{}, err
			}
			if c == 0 {
				return u8(true), nil
			}
		}
		return u8(false), nil
	case "bin":
		switch n.S {
		case "and", "or":
			a, err := e.eval(n.Args[0])
			if err != nil {
				return a, err
			}
			b, err := e.eval(n.Args[1])
			if err != nil {
				return b, err
			}
			x, err1 := a.truthy()
			y, err2 := b.truthy()
			if err1 != nil || err2 != nil {
				return Value{}, fmt.Errorf("minich: %s of non-integers", n.S)
			}
			if n.S == "and" {
				return u8(x && y), nil
			}
			return u8(x || y), nil
		}
		a, err := e.eval(n.Args[0])
		if err != nil {
			return a, err
		}
		b, err := e.eval(n.Args[1])
		if err != nil {
			return b, err
		}
		switch n.S {
		case "==", "=", "!=", "<>", ">=", "<=", ">", "<":
			c, err := compare(a, b)
			if err != nil {
				return Value{}, err
			}
			switch n.S {
			case "==", "=":
				return u8(c == 0), nil
			case "!=", "<>":
				return u8(c != 0), nil
			case ">=":
				return u8(c >= 0), nil
			case "<=":
				return u8(c <= 0), nil
			case ">":
				return u8(c > 0), nil
			}
			return u8(c < 0), nil
		}
		if (a.Kind == VFloat || b.Kind == VFloat) && (a.Kind == VFloat || a.Kind == VInt) && (b.Kind == VFloat || b.Kind == VInt) {
			x, y := toF(a), toF(b)
			switch n.S {
			case "+":
				return Float(x + y), nil
			case "-":
				return Float(x - y), nil
			case "*":
				return Float(x * y), nil
			case "/":
				return Float(x / y), nil
			}
			return Value{}, fmt.Errorf("minich: %s on floats", n.S)
		}
		if a.Kind != VInt || b.Kind != VInt {
			return Value{}, fmt.Errorf("minich: arithmetic on non-integers")
		}
		r := new(big.Int)
		switch n.S {
		case "+":
			r.Add(a.I, b.I)
		case "-":
			r.Sub(a.I, b.I)
		case "*":
			r.Mul(a.I, b.I)
		case "/", "%":
			if b.I.Sign() == 0 {
				return Value{}, fmt.Errorf("minich: division by zero")
			}
			if n.S == "/" {
				r.Quo(a.I, b.I)
			} else {
				r.Rem(a.I, b.I)
			}
		}
		return Value{Kind: VInt, I: r, Bits: widen(a, b)}, nil
	case "call":
		return e.call(n)
	case "alias":
		v, err := e.eval(n.Args[0])
		if err != nil {
			return v, err
		}
		if e.bind == nil {
			e.bind = map[string]Value{}
		}
		e.bind[n.S] = v
		return v, nil
	case "index":
		a, err := e.eval(n.Args[0])
		if err != nil {
			return a, err
		}
		k, err := e.eval(n.Args[1])
		if err != nil {
			return k, err
		}
		elems, ok := a.Raw.([]Value)
		if a.Kind != VRaw || !ok || k.Kind != VInt {
			return Value{}, fmt.Errorf("minich: subscript of a non-array")
		}
		i := int(k.I.Int64())
		if i < 1 || i > len(elems) {
			return Str(""), nil // a subscript past the end of an Array(String) gives the default value ''
		}
		return elems[i-1], nil
	}
	return Value{}, fmt.Errorf("minich: cannot evaluate %s", n.Kind)
}

func (e *env) call(n *Node) (Value, error) {
	name := n.S
	switch name {
	case "groupBitOr":
		if e.group == nil || len(n.Args) != 1 {
			return Value{}, fmt.Errorf("minich: groupBitOr outside GROUP BY")
		}
		acc := new(big.Int)
		bits := 8
		for _, r := range e.group {
			sub := &env{db: e.db, sel: e.sel, row: r, subs: e.subs}
			v, err := sub.eval(n.Args[0])
			if err != nil {
				return v, err
			}
			if v.Kind != VInt {
				return Value{}, fmt.Errorf("minich: groupBitOr of a non-integer")
			}
			acc.Or(acc, v.I)
			if v.Bits > bits {
				bits = v.Bits
			}
		}
		return Value{Kind: VInt, I: acc, Bits: bits}, nil
	}
	if aggregates[name] {
		return e.aggregate(n)
	}
	if name == "arrayExists" {
		if len(n.Args) != 2 || n.Args[0].Kind != "lambda" {
			return Value{}, fmt.Errorf("minich: arrayExists(x -> cond, array) expected")
		}
		arr, err := e.eval(n.Args[1])
		if err != nil {
			return arr, err
		}
		elems, ok := arr.Raw.([]Value)
		if arr.Kind != VRaw || !ok {
			return Value{}, fmt.Errorf("minich: arrayExists over a non-array")
		}
		for _, el := range elems {
			sub := &env{db: e.db, sel: e.sel, row: e.row, group: e.group, subs: e.subs, bind: map[string]Value{}}
			for k, v := range e.bind {
				sub.bind[k] = v
			}
			sub.bind[n.Args[0].S] = el
			v, err := sub.eval(n.Args[0].Args[0])
			if err != nil {
				return v, err
			}
			ok, err := v.truthy()
			if err != nil {
				return Value{}, err
			}
			if ok {
				return u8(true), nil
			}
		}
		return u8(false), nil
	}
	args := make([]Value, len(n.Args))
	for i, a := range n.Args {
		v, err := e.eval(a)
		if err != nil {
			return v, err
		}
		args[i] = v
	}
	switch name {
	case "match":
		if len(args) != 2 || args[0].Kind != VStr || args[1].Kind != VStr {
			return Value{}, fmt.Errorf("minich: match(String, String) expected")
		}
		re, err := regexp.Compile(args[1].S)
		if err != nil {
			return Value{}, fmt.Errorf("minich: match: %v", err)
		}
		return u8(re.MatchString(args[0].S)), nil
	case "bitShiftLeft":
		if len(args) != 2 || args[0].Kind != VInt || args[1].Kind != VInt {
			return Value{}, fmt.Errorf("minich: bitShiftLeft(int, int) expected")
		}
		bits := args[0].Bits
		if bits == 0 {
			bits = 64
		}
		r := new(big.Int).Lsh(args[0].I, uint(args[1].I.Uint64()))
		mask := new(big.Int).Sub(new(big.Int).Lsh(big.NewInt(1), uint(bits)), big.NewInt(1))
		return Value{Kind: VInt, I: r.And(r, mask), Bits: bits}, nil // result type = type of the first argument
	case "splitByChar":
		if len(args) != 2 || args[0].Kind != VStr || args[1].Kind != VStr || len(args[0].S) != 1 {
			return Value{}, fmt.Errorf("minich: splitByChar(char, String) expected")
		}
		var parts []Value
		for _, p := range strings.Split(args[1].S, args[0].S) {
			parts = append(parts, Str(p))
		}
		return RawValue(parts), nil
	case "format":
		if len(args) < 1 || args[0].Kind != VStr {
			return Value{}, fmt.Errorf("minich: format(pattern, …) expected")
		}
		pieces := strings.Split(args[0].S, "{}")
		if len(pieces) != len(args) {
			return Value{}, fmt.Errorf("minich: format: %d placeholders, %d arguments", len(pieces)-1, len(args)-1)
		}
		var b strings.Builder
		for i, p := range pieces {
			b.WriteString(p)
			if i+1 < len(args) {
				if args[i+1].Kind != VStr {
					return Value{}, fmt.Errorf("minich: format of a non-string")
				}
				b.WriteString(args[i+1].S)
			}
		}
		return Str(b.String()), nil
	case "toUInt64":
		if len(args) != 1 || args[0].Kind != VInt {
			return Value{}, fmt.Errorf("minich: toUInt64(int) expected")
		}
		return Value{Kind: VInt, I: args[0].I, Bits: 64}, nil
	case "intDiv":
		if len(args) != 2 || args[0].Kind != VInt || args[1].Kind != VInt || args[1].I.Sign() == 0 {
			return Value{}, fmt.Errorf("minich: intDiv(int, nonzero int) expected")
		}
		// ClickHouse intDiv truncates toward zero for signed operands… floor for the unsigned timestamps used here
		q := new(big.Int)
		q.Div(args[0].I, args[1].I) // Euclidean; equals floor for a positive divisor
		return Value{Kind: VInt, I: q, Bits: 64}, nil
	}
	if f, ok := e.db.Funcs[name]; ok {
		return f(args)
	}
	return Value{}, fmt.Errorf("minich: unknown function %s", name)
}

var aggregates = map[string]bool{"argMax": true, "argMaxMerge": true, "min": true, "max": true, "sum": true, "countMerge": true, "count": true}

// ArgMaxState is the state of argMaxState(value, ts): the value seen with the greatest ts.
type ArgMaxState struct {
	Val float64
	Ts  int64
}

func toF(v Value) float64 {
	if v.Kind == VFloat {
		return v.F
	}
	f, _ := new(big.Float).SetInt(v.I).Float64()
	return f
}

// aggregate functions over the rows of the current group. argMax(a, b): the a of the first row (in source order)
// whose b is the greatest (ClickHouse replaces the kept pair only for a strictly greater b); argMaxMerge(state): the
// same over states; countMerge(state) = sum of the partial counts; min/max/sum over floats or integers.
func (e *env) aggregate(n *Node) (Value, error) {
	if e.group == nil || e.row != nil {
		return Value{}, fmt.Errorf("minich: aggregate %s outside GROUP BY", n.S)
	}
	var per [][]Value
	for _, r := range e.group {
		sub := &env{db: e.db, sel: e.sel, row: r, subs: e.subs}
		vals := make([]Value, len(n.Args))
		for i, a := range n.Args {
			v, err := sub.eval(a)
			if err != nil {
				return v, err
			}
			vals[i] = v
		}
		per = append(per, vals)
	}
	want := func(k int) error {
		if len(n.Args) != k {
			return fmt.Errorf("minich: %s takes %d argument(s)", n.S, k)
		}
		return nil
	}
	switch n.S {
	case "count":
		return Uint(uint64(len(per))), nil
	case "argMax":
		if err := want(2); err != nil {
			return Value{}, err
		}
		best := per[0]
		for _, p := range per[1:] {
			c, err := compare(p[1], best[1])
			if err != nil {
				return Value{}, err
			}
			if c > 0 {
				best = p
			}
		}
		return best[0], nil
	case "argMaxMerge":
		if err := want(1); err != nil {
			return Value{}, err
		}
		var best *ArgMaxState
		for _, p := range per {
			st, ok := p[0].Raw.(ArgMaxState)
			if p[0].Kind != VRaw || !ok {
				return Value{}, fmt.Errorf("minich: argMaxMerge of a non-state")
			}
			if best == nil || st.Ts > best.Ts {
				x := st
				best = &x
			}
		}
		return Float(best.Val), nil
	case "countMerge":
		if err := want(1); err != nil {
			return Value{}, err
		}
		acc := new(big.Int)
		for _, p := range per {
			if p[0].Kind != VInt {
				return Value{}, fmt.Errorf("minich: countMerge of a non-state")
			}
			acc.Add(acc, p[0].I)
		}
		return Value{Kind: VInt, I: acc, Bits: 64}, nil
	case "min", "max", "sum":
		if err := want(1); err != nil {
			return Value{}, err
		}
		acc := per[0][0]
		if acc.Kind != VFloat && acc.Kind != VInt {
			return Value{}, fmt.Errorf("minich: %s of a non-number", n.S)
		}
		for _, p := range per[1:] {
			v := p[0]
			if v.Kind != acc.Kind {
				return Value{}, fmt.Errorf("minich: %s over mixed types", n.S)
			}
			switch n.S {
			case "sum":
				if v.Kind == VFloat {
					acc = Float(acc.F + v.F)
				} else {
					acc = Value{Kind: VInt, I: new(big.Int).Add(acc.I, v.I), Bits: 64}
				}
			default:
				c, _ := compare(v, acc)
				if (n.S == "min" && c < 0) || (n.S == "max" && c > 0) {
					acc = v
				}
			}
		}
		return acc, nil
	}
	return Value{}, fmt.Errorf("minich: unknown aggregate %s", n.S)
}

// Exec parses and runs one SELECT; returns column names and rows.
func (db *DB) Exec(q string) ([]string, [][]Value, error) {
	s, err := ParseSelect(q)
	if err != nil {
		return nil, nil, err
	}
	return db.exec(s, nil)
}

func (db *DB) exec(s *Select, outer map[string]*Select) ([]string, [][]Value, error) {
	if len(s.unionAll) > 0 {
		first := *s
		first.unionAll = nil
		cols, rows, err := db.exec(&first, outer)
		if err != nil {
			return nil, nil, err
		}
		for _, o := range s.unionAll {
			c2, r2, err := db.exec(o, outer)
			if err != nil {
				return nil, nil, err
			}
			if len(c2) != len(cols) {
				return nil, nil, fmt.Errorf("minich: UNION ALL of selects with %d and %d columns", len(cols), len(c2))
			}
			rows = append(rows, r2...)
		}
		return cols, rows, nil
	}
	// WITH names of the enclosing statement stay visible
	if outer != nil {
		merged := map[string]*Select{}
		for k, v := range outer {
			merged[k] = v
		}
		for k, v := range s.with {
			merged[k] = v
		}
		s = &Select{with: merged, distinct: s.distinct, cols: s.cols, from: s.from, alias: s.alias, where: s.where, groupBy: s.groupBy, having: s.having, orderBy: s.orderBy, limit: s.limit}
	}
	var src []Row
	if sub, ok := s.with[s.from]; ok {
		cols, rows, err := db.exec(sub, s.with)
		if err != nil {
			return nil, nil, err
		}
		for _, r := range rows {
			m := Row{}
			for i, c := range cols {
				m[c] = r[i]
			}
			src = append(src, m)
		}
	} else if t, ok := db.Tables[s.from]; ok {
		src = t
	} else {
		return nil, nil, fmt.Errorf("minich: unknown table %q", s.from)
	}
	subs := map[string][]Value{}
	var kept []Row
	for _, r := range src {
		if s.where != nil {
			e := &env{db: db, sel: s, row: r, subs: subs}
			v, err := e.eval(s.where)
			if err != nil {
				return nil, nil, err
			}
			ok, err := v.truthy()
			if err != nil {
				return nil, nil, err
			}
			if !ok {
				continue
			}
		}
		kept = append(kept, r)
	}
	cols := make([]string, len(s.cols))
	for i, c := range s.cols {
		cols[i] = c.alias
	}
	type outRow struct {
		vals []Value
		env  *env
	}
	var outs []outRow
	emit := func(e *env) error {
		vals := make([]Value, len(s.cols))
		for i, c := range s.cols {
			v, err := e.eval(c.e)
			if err != nil {
				return err
			}
			vals[i] = v
		}
		o := Row{}
		for i, c := range cols {
			if c != "" {
				o[c] = vals[i]
			}
		}
		e.out = o
		outs = append(outs, outRow{vals, e})
		return nil
	}
	if len(s.groupBy) > 0 {
		var order []string
		groups := map[string][]Row{}
		for _, r := range kept {
			e := &env{db: db, sel: s, row: r, subs: subs}
			var k strings.Builder
			for _, g := range s.groupBy {
				v, err := e.eval(g)
				if err != nil {
					return nil, nil, err
				}
				k.WriteString(v.key())
				k.WriteByte(0)
			}
			if _, ok := groups[k.String()]; !ok {
				order = append(order, k.String())
			}
			groups[k.String()] = append(groups[k.String()], r)
		}
		for _, k := range order {
			e := &env{db: db, sel: s, group: groups[k], subs: subs}
			if s.having != nil {
				v, err := e.eval(s.having)
				if err != nil {
					return nil, nil, err
				}
				ok, err := v.truthy()
				if err != nil {
					return nil, nil, err
				}
				if !ok {
					continue
				}
			}
			if err := emit(e); err != nil {
				return nil, nil, err
			}
		}
	} else {
		if s.having != nil {
			return nil, nil, fmt.Errorf("minich: HAVING without GROUP BY")
		}
		for _, r := range kept {
			if err := emit(&env{db: db, sel: s, row: r, subs: subs}); err != nil {
				return nil, nil, err
			}
		}
	}
	if len(s.orderBy) > 0 {
		keys := make([][]Value, len(outs))
		for i, o := range outs {
			for _, ob := range s.orderBy {
				v, err := o.env.eval(ob.e)
				if err != nil {
					return nil, nil, err
				}
				keys[i] = append(keys[i], v)
			}
		}
		idx := make([]int, len(outs))
		for i := range idx {
			idx[i] = i
		}
		var serr error
		sort.SliceStable(idx, func(a, b int) bool {
			for k, ob := range s.orderBy {
				c, err := compare(keys[idx[a]][k], keys[idx[b]][k])
				if err != nil {
					serr = err
					return false
				}
				if c != 0 {
					if ob.desc {
						return c > 0
					}
					return c < 0
				}
			}
			return false
		})
		if serr != nil {
			return nil, nil, serr
		}
		sorted := make([]outRow, len(outs))
		for i, j := range idx {
			sorted[i] = outs[j]
		}
		outs = sorted
	}
	if s.distinct {
		seen := map[string]bool{}
		var uniq []outRow
		for _, o := range outs {
			var k strings.Builder
			for _, v := range o.vals {
				k.WriteString(v.key())
				k.WriteByte(0)
			}
			if !seen[k.String()] {
				seen[k.String()] = true
				uniq = append(uniq, o)
			}
		}
		outs = uniq
	}
	if s.limit != nil {
		v, err := (&env{db: db, sel: s, subs: subs}).eval(s.limit)
		if err != nil || v.Kind != VInt {
			return nil, nil, fmt.Errorf("minich: bad LIMIT")
		}
		if n := int(v.I.Int64()); n < len(outs) {
			outs = outs[:n]
		}
	}
	res := make([][]Value, len(outs))
	for i, o := range outs {
		res[i] = o.vals
	}
	return cols, res, nil
}

// DriverRows converts interpreter rows for the scripted driver.
func DriverRows(rows [][]Value) [][]driver.Value {
	out := make([][]driver.Value, len(rows))
	for i, r := range rows {
		out[i] = make([]driver.Value, len(r))
		for j, v := range r {
			out[i][j] = v.Driver()
		}
	}
	return out
}
