#!/bin/bash
# Build the framework offline from files on disk: harness module, translator, Gen facts, Lean project, driver.
set -e
cd /verif
export GOFLAGS=-mod=mod GOPROXY=off
unset GOTOOLCHAIN GOSUMDB
scripts/gen_gomod.sh
mkdir -p harness/bin evidence replays
(cd harness && go build -o bin/extract ./extract && go build -tags verif -o bin/vcheck ./cmd/vcheck)
harness/bin/extract /verif/lean/Qryn/Gen /repo || true
(cd lean && lake build Qryn driver)
echo "setup done"
