#!/bin/bash
# Build the framework offline from files on disk: harness module, translator, Gen facts, Lean project, driver.
set -e
cd "$(dirname "$0")"
V=$(pwd)
REPO=${VERIF_REPO:-/repo}
export GOFLAGS=-mod=mod GOPROXY=off
unset GOTOOLCHAIN GOSUMDB
scripts/gen_gomod.sh
mkdir -p harness/bin evidence replays
(cd harness && go build -o bin/extract ./extract && go build -tags verif -o bin/vcheck ./cmd/vcheck)
scripts/gen_handlers.sh
harness/bin/extract "$V/lean/Qryn/Gen" "$REPO" || true
(cd lean && lake build Qryn driver)
echo "setup done"
