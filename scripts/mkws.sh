#!/bin/bash
# scripts/mkws.sh <name>: scratch workspace for building one property in isolation:
#   /tmp/v-<name>  git worktree of /verif on branch wip-<name>   (own lake build dir, own harness/bin)
#   /tmp/r-<name>  git worktree of /repo  on branch fix-<name>   (for candidate fix: commits)
set -e
n=$1
git -C /verif worktree add -q -B wip-$n /tmp/v-$n HEAD
git -C /repo worktree add -q -B fix-$n /tmp/r-$n HEAD
mkdir -p /tmp/v-$n/lean/.lake && cp -r /verif/lean/.lake/build /tmp/v-$n/lean/.lake/build
cp -r /verif/lean/Qryn/Gen /tmp/v-$n/lean/Qryn/Gen 2>/dev/null || true
(cd /tmp/v-$n && VERIF_REPO=/tmp/r-$n ./setup.sh >/dev/null 2>&1) || echo "setup failed"
echo "workspace /tmp/v-$n (verif) /tmp/r-$n (repo); use: export VERIF_REPO=/tmp/r-$n"
