#!/bin/bash
# scripts/seed_eval.sh <Cxx> <n> [extra check ids...]: confirm a seeded change (builds, suite unchanged, demo fails with /
# passes without) in the scratch worktree /tmp/seed-<Cxx>, then apply it to /repo, run the checks, undo it.
# Keeps the change under /verif/seeded/<Cxx>-<n>/ with the outcome in meta.json.
P=$1; N=$2; shift 2; EXTRA="$@"
S=/tmp/seed-$P; O=/tmp/seed-$P-out/$N; D=/verif/seeded/$P-$N
export GOFLAGS=-mod=mod GOPROXY=off
set -o pipefail
cd $S && git checkout -q -- . && git clean -qfd
# 1. patch applies, builds, suite has the same ok-set as the unchanged tree
base_ok=$(go test -vet=off -count=1 ./... 2>&1 | grep -c '^ok')
git apply $O/patch.diff || { echo "PATCH DOES NOT APPLY"; exit 2; }
build=$(go build . ./reader/... ./writer/... ./ctrl/... 2>&1 | grep -v 'reader/utils/unmarshal/legacy\|writer/http\|^#' | head -5)
with_ok=$(go test -vet=off -count=1 ./... 2>&1 | grep -c '^ok')
git checkout -q -- . && git clean -qfd
echo "build-errors-with-change: [${build}]  suite ok-packages: unchanged=$base_ok with-change=$with_ok"
# 2. the demonstration, exactly as its RUN.md says (first fenced block)
awk '/^```/{f=!f; if(!f) exit; next} f' $O/demo/RUN.md > /tmp/seed-run-$P-$N.sh
(bash /tmp/seed-run-$P-$N.sh 2>&1 | grep -E '^(ok|FAIL|--- FAIL|PASS|panic|exit status)' | head -12) || true
git -C $S checkout -q -- . ; git -C $S clean -qfd
# 3. our checks against /repo with the change applied
cd /repo && git status --short | grep -v '^??' | head -3
git apply $O/patch.diff || { echo "PATCH DOES NOT APPLY TO /repo"; exit 2; }
res=""
for c in $P $EXTRA; do
  out=$(cd /verif && ./check $c quick 2>&1 | grep -E '^VIOLATION|^check ' | head -4)
  echo "[$c quick] $out"
  if ! echo "$out" | grep -q VIOLATION; then
    out=$(cd /verif && timeout 3000 ./check $c thorough 2>&1 | grep -E '^VIOLATION|^check ' | head -4)
    echo "[$c thorough] $out"
  fi
  res="$res
[$c] $out"
done
git -C /repo checkout -- . ; git -C /repo clean -qfd >/dev/null
# the evidence written by a run against a changed tree is not evidence of the unchanged tree
for c in $P $EXTRA $CH; do git -C /verif checkout -q -- evidence/$c.json 2>/dev/null; done
mkdir -p $D && cp $O/patch.diff $D/ && cp -r $O/demo $D/ 2>/dev/null
python3 - "$O/meta.json" "$D/meta.json" "$base_ok" "$with_ok" "$res" <<'PY'
import json,sys
m=json.load(open(sys.argv[1]))
m['confirmed']={'suite_ok_packages_unchanged':int(sys.argv[3]),'suite_ok_packages_with_change':int(sys.argv[4]),
  'ran':'scripts/seed_eval.sh: patch applied in a scratch worktree (build + go test ./...), demo/RUN.md commands executed both ways, then patch applied to /repo, ./check quick (thorough if quick was silent), patch undone'}
m['check_results']=sys.argv[5].strip().splitlines()
m['caught']=any('VIOLATION' in l for l in m['check_results'])
m['caught_with_concrete_replay']=any('VIOLATION' in l and 'no-failing-input-found' not in l for l in m['check_results'])
json.dump(m,open(sys.argv[2],'w'),indent=1)
print("caught:",m['caught'],"concrete:",m['caught_with_concrete_replay'])
PY
