#!/usr/bin/env python3
"""Re-pin lean/Qryn/Ingest/BuilderCallsPinned.lean from the current Gen.BuilderCalls (C05).

Usage: harness/bin/extract lean/Qryn/Gen $VERIF_REPO && scripts/c05_builder_pin.py

`C05.builder_calls_pinned` compares the regenerated lists — every call of a builder callback (onEntries / onSpan /
onProfile) with its argument texts, every assignment to a variable or field passed as a slice argument, every assignment
to a field of parserDoer's open request objects — with the copy pinned here. When it fails, look at `git diff` after
running this script: every changed line is a statement the rectangularity argument (`parser_rect_*`, `callRect` in
Qryn/Ingest/BuilderCallsReview.lean) has to be re-read against; only then commit the new pin.
"""
import os, re
V = os.path.dirname(os.path.dirname(os.path.abspath(__file__)))
gen = open(os.path.join(V, "lean/Qryn/Gen/BuilderCalls.lean")).read()
body = gen[gen.index("namespace Qryn.Gen.BuilderCalls") + len("namespace Qryn.Gen.BuilderCalls"):gen.index("end Qryn.Gen.BuilderCalls")]
out = """/-! C05: the builder-callback call sites, argument writes and builder writes the rectangularity argument was read
    against. Written by scripts/c05_builder_pin.py from Gen.BuilderCalls; do not edit by hand. -/
namespace Qryn.BuilderCallsPinned""" + body + "end Qryn.BuilderCallsPinned\n"
open(os.path.join(V, "lean/Qryn/Ingest/BuilderCallsPinned.lean"), "w").write(out)
print("pinned", len(re.findall(r'^\s+[\[(]?\("', body, re.M)), "entries")
