"""Review decisions for C10's raw-SQL site table, applied on top of the draft rules of rawsql_draft.py.
Each decision was taken by reading the function in the pinned source; the reason is the note that ends up in the table."""

CHP = "logql/logql_transpiler_v2/clickhouse_planner/"
TQT = "traceql/transpiler/clickhouse_transpiler/"


def apply(ov):
    # ---- LogQL planner
    ov(CHP + "planner_drop.go", "mapDropFilter.String", "sprintf", "mapFilter(%s, %s)", "sql", ["rendered", "rendered"],
       "fn = text of genFilterFn (the next two sites), str = the patched column")
    for fn in ("LabelFilterPlanner.makeSimpleStrSqlCond", "LabelFilterPlanner.makeSimpleNumSqlCond"):
        ov(CHP + "planner_label_filter.go", fn, "sprintf", "labels['%s']", "sql", ["identQ"],
           "expr.Label.Name is a LabelName token (Label_name | Macros_function): C10.ident_safe / labelGetterMap_text")
    ov(CHP + "planner_line_filter.go", "LineFilterPlanner.doLike", "concat", "%%%s%%", "notSql", None,
       "the LIKE pattern before escaping; it goes through enquoteStr = NewStringVal(..).String on the next line (model: likeLiteral)")
    ov(CHP + "planner_line_filter.go", "LineFilterPlanner.doLike", "sprintf", "%s(samples.string, %s)", "sql", ["codeText", "escaped"],
       "likeOp is one of like/notLike/ilike/notILike chosen in Process")
    ov(CHP + "planner_line_format.go", "LineFormatPlanner.textNode", "append", None, "notSql", None,
       "template text appended to formatStr, which sqlFormat.String writes through NewStringVal (model: tplFormat)")
    ov(CHP + "planner_line_format.go", "LineFormatPlanner.fieldNode", "append", None, "notSql", None,
       "`{n}` appended to formatStr (escaped later)")
    ov(CHP + "planner_line_format.go", "LineFormatPlanner.fieldNode", "sprintf", "{%d}", "notSql", None, "part of formatStr (escaped later)")
    ov(CHP + "planner_line_format.go", "LineFormatPlanner.ProcessTpl", "sprintf", "tpl%d", "notSql", None, "name of the text/template")
    for fn in ("MainFinalizerPlanner.Process", "MainFinalizerPlanner.processMatrix"):
        ov(CHP + "planner_main_finalizer.go", fn, "simplecol", None, "sql", ["alias", "codeText"], "m.Alias is \"prefinal\" unless a planner sets a constant")
    ov(CHP + "planner_main_order_by.go", "MainOrderByPlanner.Process", "raw", None, "sql", ["codeText"],
       "m.Cols is the literal []string{\"timestamp_ns\"} of planner.go")
    ov(CHP + "planner_parser_regexp.go", "regexPart.String", "concat", None, "notSql", None,
       "text of the pattern without ?P<name>; regexMap.String writes it through NewStringVal")
    ov(CHP + "planner_simple_label_filter.go", "SimpleLabelFilterPlanner.Process", "sprintf", "JSONExtractString(labels, '%s')", "sql", ["identQ"],
       "s is a LabelName token handed by makeSqlCond: C10.ident_safe")
    ov(CHP + "planner_stream_select.go", "SqlBitSetAnd.String", "sprintf", "bitShiftLeft(toUInt64(%s), %d)", "sql", ["rendered", "number"], "")
    ov(CHP + "sql_misc.go", "patchCol", "colalias", None, "sql", ["codeText"], "callers pass the literals labels / fingerprint / string")
    ov(CHP + "sql_misc.go", "sqlMapInit.String", "sprintf", None, "sql", ["rendered", "rendered", "codeText"], "TypeName is the literal Map(String, String)")
    # ---- Pyroscope
    ov("prof/transpiler/planner_label_generic.go", "GenericLabelsPlanner._process", "raw", None, "sql", ["codeText", ], "returnCol is the literal key / val")
    ov("prof/transpiler/planner_merge_raw.go", "MergeRawPlanner.Process", "concat", "%s:%s", "notSql", None, "sample type id, wrapped in NewStringVal on the same line")
    ov("prof/transpiler/planner_select_series.go", "SelectSeriesPlanner.Process", "sprintf", "%s:%s", "notSql", None, "sample type id, wrapped in NewStringVal on the next line")
    ov("prof/transpiler/planner_selector.go", "StreamSelectorPlanner.getMatchers", "concat", "^(?:%s)$", "notSql", None, "anchored regex, a NewStringVal leaf afterwards (model: Prof.PCond)")
    ov("promql/transpiler/shared.go", "fingerprintsQuery", "concat", "^(?:%s)$", "notSql", None, "anchored regex, a NewStringVal leaf afterwards (model: Prom.Cond)")
    ov("promql/transpiler/hints_downsample_planner.go", "DownsampleHintsPlanner.Process", "simplecol", "", "sql", ["codeText", "codeText"],
       "getValueMerge returns one of the constants of its table (or panics)", nth=0)
    for f in ("ProfService.ProfileTypes", "ProfService.MergeStackTraces", "ProfService.TimeSeries", "ProfService.getTree"):
        ov("service/profService.go", f, "sprintf", None, "notSql", None, "profile type id: response text / a value handed to NewStringVal by the planner")
    ov("service/profService.go", "ProfService.ProfileStats", "sprintf", "`%s`.%s_dist", "sql", ["configBq", "config"], "")
    ov("service/profService.go", "ProfService.detachTypeId", "concat", None, "notSql", None, "selector text handed to the profile-selector parser")
    ov("service/promQueryable.go", "CLokiQuerier.ReshuffleSeries", "write", None, "notSql", None, "key of the series map")
    ov("service/promQueryable.go", "labelsGetter.Get", "sprintf", None, "notSql", None, "log line")
    ov("service/queryLabelsService.go", "QueryLabelsService.Prom2LogqlMatch", "sprintf", None, "notSql", None, "LogQL text handed to the LogQL parser")
    ov("service/tempoService.go", "parseZipkinJSON", "concat", None, "notSql", None, "JSON field names of the response")
    # ---- legacy Tempo
    ov("tempo/sqlIndexQuery.go", "SQLIndexQuery.String", "concat", "`%s`.tempo_traces_attrs_gin", "sql", ["configBq"], "")
    ov("tempo/sqlIndexQuery.go", "SQLIndexQuery.String", "raw", None, "sql", None, "")
    ov("tempo/sqlIndexQuery.go", "SQLIndexQuery.String", "sprintf", "toDate('%s')", "sql", ["dateQ"], "")
    # ---- TraceQL
    ov(TQT + "attr_condition.go", "AttrConditionPlanner.Process", "sprintf", "unhex('%s')", "sql", ["dbHexQ"],
       "cached trace ids: hex text read from the database (hypothesis CtxOK.cached of plan_closed_traceql)")
    ov(TQT + "attr_condition.go", "AttrConditionPlanner.getCond", "raw", None, "sql", ["alias"], "a.alias is the literal bsCond")
    ov(TQT + "attr_condition.go", "groupBitOr.String", "sprintf", "%s as %s", "sql", ["nested", "alias"], "")
    ov("traceql/transpiler/reqest_processor.go", "TraceQLRequestProcessor.Process", "sprintf", None, "notSql", None, "response text")
    ov(TQT + "planner.go", "planner.getPrefix", "sprintf", "_%d", "sql", ["number"], "the alias prefix of a sub-expression")
    ov("utils/dbVersion/version.go", "GetVersionInfo", "sprintf", "SHOW TABLES", "sql", [], "")
    ov("utils/dbVersion/version.go", "GetVersionInfo", "sprintf", None, "sql", ["config"], "settings / settings_dist")
    ov("utils/tables/tables.go", "PopulateTableNames", "sprintf", None, "sql", ["configBq", "config"], "")
    # ---- the library
    ov("utils/sql_select/condition.go", "LogicalOp.String", "concat", " %s ", "sql", ["codeText"], "op.fn: and / or / == … set by the constructors of condition.go; NewGenericLogicalOp call sites are entries")
    ov("utils/sql_select/objects.go", "With.String", "sprintf", None, "sql", ["alias", "rendered"], "")
    ov("utils/sql_select/objects.go", "WithRef.String", "concat", " as %s", "sql", ["alias"], "")
    ov("utils/sql_select/objects.go", "StringVal.String", "concat", "'%s'", "escape", ["other"], "the escaping routine: Sql.quote, C10.stringval_single_literal")
    ov("utils/sql_select/objects.go", "IntVal.String", "sprintf", None, "sql", ["number"], "")
    ov("utils/sql_select/objects.go", "FloatVal.String", "sprintf", None, "sql", ["number"], "")
    ov("utils/sql_select/objects.go", "Col.String", "sprintf", "%s as %s", "sql", ["rendered", "alias"], "")
    ov("utils/sql_select/objects.go", "NewSimpleCol", "raw", None, "sql", ["param"], "")
    ov("utils/sql_select/objects.go", "Join.String", "sprintf", None, "sql", ["rendered", "nested"], "on = \"\" or \"ON \" ++ the rendered condition (the concat site above)")
    ov("utils/sql_select/select.go", "Select.String", "sprintf", " %s JOIN ", "sql", ["codeText"], "join type: NewJoin call sites are entries")
    for nth in range(0, 20):
        pass
