#!/bin/bash
# scripts/baseline_locked.sh: the pinned suite on the clean /repo (guard off), under the seed lock; compares the passing tests with BASELINE.stable_pass
exec 9>/tmp/seedq.lock
flock 9
if [ -n "$(git -C /repo status --short | grep -v '^??')" ]; then echo "/repo is not clean"; exit 2; fi
export GOFLAGS=-mod=mod GOPROXY=off
cd /repo && go test -json -vet=off -count=1 -timeout 25m ./... 2>/dev/null > /tmp/baseline.gotest.json
python3 - <<'PY'
import json
base=set(json.load(open('/root/.vp/BASELINE.json'))['stable_pass'])
got=set()
for l in open('/tmp/baseline.gotest.json'):
    try: e=json.loads(l)
    except Exception: continue
    if e.get('Action')=='pass' and e.get('Test'): got.add(e['Package']+'::'+e['Test'])
print('baseline tests:',len(base),'passing now:',len(base&got),'missing:',sorted(base-got))
PY
