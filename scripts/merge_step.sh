#!/bin/bash
# scripts/merge_step.sh NAME Cxx...: merge_locked.sh with its output in /tmp/merge-NAME.log; exit status passed on
n=$1; shift
cd /verif
scripts/merge_locked.sh $n "$@" > /tmp/merge-$n.log 2>&1; rc=$?
if [ $rc != 0 ]; then echo "MERGE $n FAILED rc=$rc"; tail -8 /tmp/merge-$n.log | cut -c1-250; exit 1; fi
echo "MERGE $n ok"; grep '^check' /tmp/merge-$n.log | cut -c1-160
