#!/usr/bin/env python3
"""Re-emit lean/Qryn/Ingest/FaultCensusTable.lean (the REVIEW of the ingest fault-site census, C05) from the current
Gen.IngestCensus.

Usage: harness/bin/extract lean/Qryn/Gen $VERIF_REPO && scripts/c05_census_table.py [--write]

Every site that is already classified (same function, kind, source text; n-th occurrence) keeps its classification,
every library call its reason. A site that is new — the reason `ingest_fault_site_census` fails after a change of the
ingest side — gets `.TODO_review` with its guards (this does not compile): look at the site in /repo, decide whether it
can fault on input (then it must become a placed site of lean/Qryn/Ingest/Faults.lean and be listed in `modelSites`
of FaultCensus.lean) or why it cannot, and replace the marker by a `Why`. A new library call gets the reason "TODO".
Without --write the new file is printed to stdout.
"""
import ast, os, re, sys
V = os.path.dirname(os.path.dirname(os.path.abspath(__file__)))
GEN = os.path.join(V, "lean/Qryn/Gen/IngestCensus.lean")
TAB = os.path.join(V, "lean/Qryn/Ingest/FaultCensusTable.lean")
gen = open(GEN).read()
fs = ast.literal_eval(re.search(r"def functions .*?:=\n(.*?)\n\n/--", gen, re.S).group(1).strip())
ex = ast.literal_eval(re.search(r"def externsUnion .*?:=\n(.*?)\n\n/--", gen, re.S).group(1).strip())
tab = open(TAB).read()
head = tab[:tab.index("def reviewed : List (String × List Entry) :=")]
head = head[:head.rindex("/--")]
strlit = r'"((?:[^"\\]|\\.)*)"'
body = tab[tab.index("def reviewed"):tab.index("def reviewedExterns")]
old, cur = {}, None
for m in re.finditer(r'^\s*\(' + strlit + r',\s*$|⟨' + strlit + r', ' + strlit + r',\s*\n\s*(\.[^\n]*?)⟩', body, re.M):
    if m.group(1) is not None:
        cur = m.group(1)
        continue
    old.setdefault((cur, m.group(2), m.group(3)), []).append(m.group(4))
oldex = {}
for m in re.finditer(r'⟨' + strlit + r', ' + strlit + r', ' + strlit + r'⟩', tab[tab.index("def reviewedExterns"):]):
    oldex[m.group(1)] = (m.group(2), m.group(3))


def esc(s):
    return s.replace("\\", "\\\\").replace('"', '\\"')


def L(s):
    return '"' + esc(s) + '"'


out, todo = [], 0
for name, sites in fs:
    rows, seen = [], {}
    for kind, text, guards in sites:
        key = (esc(name), esc(kind), esc(text))
        i = seen.get(key, 0)
        seen[key] = i + 1
        whys = old.get(key, [])
        why = whys[i] if i < len(whys) else (whys[-1] if whys else None)
        if why is None:
            why = ".TODO_review  -- guards: " + "; ".join(guards)
            todo += 1
        rows.append("    ⟨%s, %s,\n      %s⟩" % (L(kind), L(text), why))
    out.append("  (%s,\n   [%s])" % (L(name), (",\n".join(rows)).lstrip()))
exrows = []
for x in ex:
    site, reason = oldex.get(esc(x), ("", "TODO"))
    if reason == "TODO":
        todo += 1
    exrows.append('   ⟨%s, "%s", "%s"⟩' % (L(x), site, reason))
res = head + """/-- the review, function by function, in the translator's order -/
def reviewed : List (String × List Entry) :=
 [
""" + ",\n".join(out) + """
 ]

/-- every library function / method called on the stack of one of the goroutines, with the reason it is trusted not
    to panic (the boundary of the census: nothing behind these names is analysed) -/
def reviewedExterns : List Extern :=
  [
""" + ",\n".join(exrows) + """
  ]

end Qryn.IngestCensus
"""
if "--write" in sys.argv:
    open(TAB, "w").write(res)
else:
    sys.stdout.write(res)
print("-- %d site(s) / library call(s) to review" % todo, file=sys.stderr)
