#!/bin/bash
# scripts/clean_run.sh [tier] Cxx...: run checks on the UNCHANGED /repo under the seed lock (no seeded change applied meanwhile)
tier=quick; case "$1" in quick|thorough) tier=$1; shift;; esac
exec 9>/tmp/seedq.lock
flock 9
if [ -n "$(git -C /repo status --short | grep -v '^??')" ]; then echo "/repo is not clean"; exit 2; fi
for c in "$@"; do (cd /verif && ./check $c $tier 2>&1 | grep -E '^VIOLATION|^KNOWN-FINDING|^check ' | cut -c1-300); done
