#!/bin/bash
# Regenerate harness/go.mod from /repo/go.mod: same go/toolchain lines and require/replace blocks,
# plus a replace of the qryn module by /repo's working tree.
set -e
REPO=${VERIF_REPO:-/repo}
V=$(cd "$(dirname "$0")/.." && pwd)
H=$V/harness
tmp=$(mktemp)
{
  sed -e 's|^module github.com/metrico/qryn$|module verif/harness|' "$REPO/go.mod"
  echo
  echo "require github.com/metrico/qryn v0.0.0"
  echo "replace github.com/metrico/qryn => $REPO"
} > "$tmp"
if ! cmp -s "$tmp" "$H/go.mod"; then cp "$tmp" "$H/go.mod"; fi
rm -f "$tmp"
if ! cmp -s "$REPO/go.sum" "$H/go.sum"; then cp "$REPO/go.sum" "$H/go.sum"; fi
