#!/bin/bash
# scripts/merge_locked.sh NAME Cxx...: merge_ws.sh under the seed lock (no seeded change applied to /repo, no check running
# from the queue), whole-project build (harness + Lean), then the quick checks of the named properties on the clean tree,
# evidence committed only when every one of them is green.
n=$1; shift
exec 9>/tmp/seedq.lock
flock 9
cd /verif
if [ -n "$(git -C /repo status --short | grep -v '^??')" ]; then echo "/repo is not clean"; exit 2; fi
if [ "$n" != "-" ]; then scripts/merge_ws.sh $n || exit 1; fi
export GOFLAGS=-mod=mod GOPROXY=off
scripts/gen_gomod.sh >/dev/null 2>&1; scripts/gen_handlers.sh >/dev/null 2>&1
(cd harness && go build -o bin/extract ./extract && go build -tags verif -o /tmp/vcheck.mergetest ./cmd/vcheck) 2>&1 | head -5 > /tmp/merge-$n.gobuild
if [ -s /tmp/merge-$n.gobuild ]; then echo "HARNESS BUILD BROKEN after merging $n"; cat /tmp/merge-$n.gobuild; exit 3; fi
harness/bin/extract /verif/lean/Qryn/Gen /repo > /tmp/merge-$n.extract 2>&1
(cd lean && lake build Qryn driver 2>&1 | grep -E '^error|: error' | head -8) > /tmp/merge-$n.lakebuild
if [ -s /tmp/merge-$n.lakebuild ]; then echo "LEAN BUILD BROKEN after merging $n"; cat /tmp/merge-$n.lakebuild; exit 3; fi
bad=0
for c in "$@"; do ./check $c quick 2>&1 | grep -E '^VIOLATION|^KNOWN-FINDING|^check ' | cut -c1-300 > /tmp/merge-$n.$c; cat /tmp/merge-$n.$c; grep -q '^VIOLATION' /tmp/merge-$n.$c && bad=1; done
if [ $bad = 1 ]; then echo "NOT GREEN after merging $n"; for c in "$@"; do git checkout -q -- evidence/$c.json; done; exit 4; fi
git add -A evidence MANIFEST.json; git commit -qm "evidence: clean quick runs after merging $n ($*)" || true
