#!/bin/bash
# scripts/merge_locked.sh NAME Cxx...: merge_ws.sh under the seed lock (no seeded change applied to /repo, no check running
# from the queue), then the quick checks of the named properties on the clean tree, evidence committed.
n=$1; shift
exec 9>/tmp/seedq.lock
flock 9
cd /verif
if [ -n "$(git -C /repo status --short | grep -v '^??')" ]; then echo "/repo is not clean"; exit 2; fi
scripts/merge_ws.sh $n || exit 1
for c in "$@"; do ./check $c quick 2>&1 | grep -E '^VIOLATION|^KNOWN-FINDING|^check ' | cut -c1-300; done
git add -A evidence MANIFEST.json; git commit -qm "evidence: clean quick runs after merging $n ($*)" || true
