#!/bin/bash
# scripts/seed_recheck.sh <Cxx-n> [check ids...]: re-run the checks against an already confirmed seeded change kept
# under /verif/seeded/<Cxx-n>/ (apply to /repo, ./check quick [thorough if silent], undo) and update its meta.json.
S=$1; shift; P=${S%%-*}; CH="${@:-$P}"
D=/verif/seeded/$S
cd /repo && git status --short | grep -v '^??' | head -3
git apply $D/patch.diff || { echo "PATCH DOES NOT APPLY TO /repo (main has moved?)"; exit 2; }
res=""
for c in $CH; do
  out=$(cd /verif && ./check $c quick 2>&1 | grep -E '^VIOLATION|^check ' | head -4)
  echo "[$c quick] $out"
  if ! echo "$out" | grep -q VIOLATION; then
    out=$(cd /verif && timeout 3000 ./check $c thorough 2>&1 | grep -E '^VIOLATION|^check ' | head -4)
    echo "[$c thorough] $out"
  fi
  res="$res
[$c] $out"
done
git -C /repo checkout -- . ; git -C /repo clean -qfd >/dev/null
# the evidence written by a run against a changed tree is not evidence of the unchanged tree
for c in $P $EXTRA $CH; do git -C /verif checkout -q -- evidence/$c.json 2>/dev/null; done
python3 - "$D/meta.json" "$res" <<'PY'
import json,sys
m=json.load(open(sys.argv[1]))
m.setdefault('history',[]).append({'check_results':m.get('check_results'),'caught':m.get('caught'),'caught_with_concrete_replay':m.get('caught_with_concrete_replay')})
m['check_results']=sys.argv[2].strip().splitlines()
m['caught']=any('VIOLATION' in l for l in m['check_results'])
m['caught_with_concrete_replay']=any('VIOLATION' in l and 'no-failing-input-found' not in l for l in m['check_results'])
json.dump(m,open(sys.argv[1],'w'),indent=1)
print("caught:",m['caught'],"concrete:",m['caught_with_concrete_replay'])
PY
