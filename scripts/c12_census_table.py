#!/usr/bin/env python3
"""Regenerate the `reviewed` table of lean/Qryn/ReadSide/Census.lean from the current Gen.ReadGoroutines.

Usage: scripts/c12_census_table.py            (prints the new table body to stdout)

Every site that is already classified in Census.lean (same goroutine, kind, function, source text; n-th occurrence)
keeps its classification. A site that is new — the reason `fault_site_census` fails after a change of the read side —
gets `.TODO_review`, which does not compile: look at the site in /repo, decide why it cannot bring the process down
(or fix the code), and replace it by a `Why`. Then paste the output between `def reviewed … := [` and the closing ` ]`.
Run the extractor first: harness/bin/extract lean/Qryn/Gen $VERIF_REPO
"""
import ast, os, re, sys
V = os.path.dirname(os.path.dirname(os.path.abspath(__file__)))
gen = open(os.path.join(V, "lean/Qryn/Gen/ReadGoroutines.lean")).read()
m = re.search(r"def goroutines .*?:=\n(.*?)\n\n/--", gen, re.S)
gs = ast.literal_eval(m.group(1).replace("true,", "True,").replace("false,", "False,").strip())
cen = open(os.path.join(V, "lean/Qryn/ReadSide/Census.lean")).read()
body = cen[cen.index("def reviewed"):cen.index("def reviewedExterns")]
old = {}
cur = None
strlit = r'"((?:[^"\\]|\\.)*)"'
for line in re.finditer(r'^\s*\(' + strlit + r',\s*$|⟨' + strlit + r', ' + strlit + r', ' + strlit + r',\s*\n\s*(\.[^\n]*?)⟩', body, re.M):
    if line.group(1) is not None:
        cur = line.group(1)
        continue
    key = (cur, line.group(2), line.group(3), line.group(4))
    old.setdefault(key, []).append(line.group(5))
def L(s):
    return '"' + s.replace("\\", "\\\\").replace('"', '\\"') + '"'
def esc(s):  # the form the text has inside the Lean file
    return s.replace("\\", "\\\\").replace('"', '\\"')
out, todo = [], 0
for name, shape, rec, sites, ext in gs:
    if rec:
        continue
    rows, seen = [], {}
    for kind, fn, text, guards in sites:
        key = (esc(name), esc(kind), esc(fn), esc(text))
        i = seen.get(key, 0)
        seen[key] = i + 1
        whys = old.get(key, [])
        why = whys[i] if i < len(whys) else (whys[-1] if whys else None)
        if why is None:
            why = ".TODO_review  -- guards: " + "; ".join(guards)
            todo += 1
        rows.append("    ⟨%s, %s, %s,\n      %s⟩" % (L(kind), L(fn), L(text), why))
    out.append("  (%s,\n   [%s])" % (L(name), (",\n".join(rows)).lstrip()))
print(",\n".join(out))
print("-- %d site(s) to review" % todo, file=sys.stderr)
