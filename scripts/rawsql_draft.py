#!/usr/bin/env python3
"""Maintenance aid for C10's reviewed table of raw-SQL construction sites (lean/Qryn/Read/RawSqlTable.lean).

    RAWSQL_JSON=/tmp/rawsql.json harness/bin/extract lean/Qryn/Gen $VERIF_REPO     # dump of Gen.RawSqlSites
    python3 scripts/rawsql_draft.py /tmp/rawsql.json list                          # proposal, one line per site
    python3 scripts/rawsql_draft.py /tmp/rawsql.json lean > lean/Qryn/Read/RawSqlTable.lean

The classification rules below are a DRAFT generator: the emitted table is committed, reviewed by hand, and is what the
theorem `raw_sql_census` compares the regenerated inventory with. The check never runs this script.
"""
import json, re, sys

NOT_SQL_FILES = ("controller/", "dbRegistry/", "logql/logql_parser/", "main.go", "utils/logger/", "utils/unmarshal/",
                 "service/profMerge_v1.go", "logql/logql_transpiler_v2/internal_planner/", "logql/logql_transpiler_v2/shared/",
                 "service/queryRangeService.go")
NOT_SQL_FMT = re.compile(r"not supported|illegal expression|no condition|Warning:|Invalid |Missing ")
UNCALLED = set(["FmtRawObject", "hashLabels", "hashLabelsMap", "trimLabels", "trimLabelsExperimental"])
UNCONSTRUCTED = set(["LabelFormatPlanner", "PlannerDropSimple", "UnionSelect", "UnionPlanner"])

# (file suffix, fn, kind, fmt-or-None, ordinal among equal keys or None) -> (role, classes or None, note)
OVERRIDE = {}

def ov(file, fn, kind, fmt, role, classes=None, note="", nth=None):
    OVERRIDE[(file, fn, kind, fmt, nth)] = (role, classes, note)

def classify_arg(a, site):
    t, o = a["Text"], a["Origin"]
    if t.startswith("fmt.Sprintf("):
        return "nested"
    if "s.Database" in o or "s.settings" in o:
        return "config"
    if o.startswith("fmt.Sprintf(") and "NewStringVal" not in o:
        return "nested"
    if "NewStringVal(" in o and ".String(" in o or "enquoteStr(" in o:
        return "escaped"
    if ".String(ctx" in o or ".String(ctx" in t:
        return "rendered"
    if t.startswith("strings.Join("):
        return "rendered"
    if t == "ctx.Id()" or o == "ctx.Id()" or o.startswith("range#0") or t.startswith("len("):
        return "number"
    if re.search(r"Nanoseconds\(\)|Milliseconds\(\)|hints\.(Step|Start|Range)|s\.Step|t\.Len|\.Limit|p\.Param|RandomFilter\.Max|FormatUint|p\.prefix", t):
        return "number"
    if re.search(r"Table(Name)?\b", t) or "GetTableName" in o or re.search(r"ctx\.\w*Table\w*", o) or t in ("table", "tracesTable", "tableName") and ("ctx." in o or "param" in o):
        return "config"
    if ".GetAlias()" in t or t in ("m.Alias", "w.Alias") or "Prefix" in t or "subsel_" in o or t == "alias + \".trace_id\"" or t == "alias + \".span_id\"":
        return "alias"
    if o == "const":
        return "codeText"
    if t.startswith("fmt.Sprintf("):
        return "nested"
    if o and all(p.strip().startswith('"') or p.strip().startswith('+= "') for p in o.split(" | ")):
        return "codeText"
    return "TODO"

def classify(site, nth):
    f, fn, kind, fmt = site["File"], site["Fn"], site["Kind"], site["Fmt"]
    for key in ((f, fn, kind, fmt, nth), (f, fn, kind, fmt, None), (f, fn, kind, None, None), (f, fn, None, None, None)):
        if key in OVERRIDE:
            role, classes, note = OVERRIDE[key]
            if classes is None:
                classes = [classify_arg(a, site) for a in site["Args"]]
                if role in ("notSql", "marker"):
                    classes = ["other"] * len(site["Args"])
            return role, classes, note
    bare = fn.split(".")[-1]
    ty = fn.split(".")[0] if "." in fn else ""
    if kind in ("customcol", "stringer", "ctxparam"):
        return "marker", ["other"] * len(site["Args"]), ""
    if fn in UNCALLED or bare in UNCALLED or ty in UNCONSTRUCTED:
        return "dead", ["other"] * len(site["Args"]), ""
    if f.startswith(NOT_SQL_FILES) or NOT_SQL_FMT.search(fmt):
        return "notSql", ["other"] * len(site["Args"]), ""
    return "sql", [classify_arg(a, site) for a in site["Args"]], ""

def lean_str(s):
    out = ['"']
    for ch in s:
        if ch == '"': out.append('\\"')
        elif ch == '\\': out.append('\\\\')
        elif ch == '\n': out.append('\\n')
        elif ch == '\t': out.append('\\t')
        elif ch == '\r': out.append('\\r')
        elif ord(ch) < 32 or ord(ch) == 127: out.append('\\x%02x' % ord(ch))
        else: out.append(ch)
    out.append('"')
    return "".join(out)

def defname(file):
    return "f_" + re.sub(r"[^a-zA-Z0-9]", "_", file[:-3] if file.endswith(".go") else file)

def main():
    sites = json.load(open(sys.argv[1]))
    for s in sites:
        s["Args"] = s["Args"] or []
    mode = sys.argv[2]
    try:
        import rawsql_review  # noqa: the reviewed overrides (scripts/rawsql_review.py)
        rawsql_review.apply(ov)
    except ImportError:
        pass
    seen = {}
    rows = []
    for s in sites:
        k = (s["File"], s["Fn"], s["Kind"], s["Fmt"])
        nth = seen.get(k, 0)
        seen[k] = nth + 1
        role, classes, note = classify(s, nth)
        rows.append((s, role, classes, note))
    if mode == "list":
        for i, (s, role, classes, note) in enumerate(rows):
            args = "; ".join("%s «%s»" % (a["Text"][:70], a["Origin"][:90]) for a in s["Args"])
            print("%3d %-7s %-28s %s | %s | %s | %r | %s" % (i, role, ",".join(classes), s["File"].split("/")[-1], s["Fn"], s["Kind"], s["Fmt"][:110], args))
        return
    byfile = {}
    order = []
    for r in rows:
        f = r[0]["File"]
        if f not in byfile:
            byfile[f] = []
            order.append(f)
        byfile[f].append(r)
    print("import Qryn.Read.RawSqlCensus")
    print("/-! The REVIEWED table of raw-SQL construction sites (C10): one entry per site of the regenerated inventory")
    print("    `Gen.RawSqlSites`, identified by the site's hash (file, function, kind, format string, every argument with its")
    print("    origin — written out in the comment in front of the entry), with its role and the class of each argument.")
    print("    Drafted by scripts/rawsql_draft.py + scripts/rawsql_review.py, reviewed against the source, committed;")
    print("    `raw_sql_census` demands that the regenerated inventory has exactly these hashes, file by file, in order. -/")
    print("namespace Qryn.RawSql.Table")
    print("open Qryn.RawSql Qryn.RawSql.Cls Qryn.RawSql.Role\n")
    for f in order:
        print("/-! ### %s -/" % f)
        print("def %s : List Entry := [" % defname(f))
        n = len(byfile[f])
        for k, (s, role, classes, note) in enumerate(byfile[f]):
            args = "; ".join("%s «%s»" % (a["Text"], a["Origin"]) for a in s["Args"])
            cm = ("%s | %s | %s | %s" % (s["Fn"], s["Kind"], s["Fmt"], args)).replace("-/", "- /").replace("/-", "/ -").replace("\n", "\\n")
            print("  -- %s" % cm)
            print("  ⟨%d, %s, [%s], %s⟩%s" % (s["Hash"], role, ", ".join(classes), lean_str(note), "," if k < n - 1 else ""))
        print("]")
    print("\ndef files : List (String × List Entry) := [%s]" % ", ".join("(%s, %s)" % (lean_str(f), defname(f)) for f in order))
    print("def entries : List Entry := files.flatMap (·.2)")
    print("end Qryn.RawSql.Table")

main()
