#!/usr/bin/env python3
"""Regenerate the tables of lean/Qryn/ReadSide/CensusTyped.lean from the current Gen.ReadGoroutines (typed part).

Usage: scripts/c12_typed_table.py            (rewrites the three generated blocks of CensusTyped.lean in place)

Every site that is already classified (same function, kind, source text; n-th occurrence) keeps its classification;
a site without one is seeded from the syntactic review (Census.lean: same kind and text) and otherwise gets
`.TODO_review`, which does not compile: look at the site in /repo, decide why it cannot bring the process down (or fix the
code) and replace it by a `Why`. Library names without a reason get "TODO". Run the extractor first:
harness/bin/extract lean/Qryn/Gen $VERIF_REPO
"""
import ast, os, re, sys
V = os.path.dirname(os.path.dirname(os.path.abspath(__file__)))
gen = open(os.path.join(V, "lean/Qryn/Gen/ReadGoroutines.lean")).read()

def lit(name, nxt):
    i = gen.index("def " + name)
    i = gen.index(":=\n", i) + 3
    j = gen.index(nxt, i)
    txt = gen[i:j].strip()
    txt = re.sub(r"\btrue\b", "True", txt)
    txt = re.sub(r"\bfalse\b", "False", txt)
    return ast.literal_eval(txt)

roots = lit("typedRoots", "/-- the functions of the expanded roots")
funcs = lit("typedFunctions", "\n/-- every call that leaves the module")

path = os.path.join(V, "lean/Qryn/ReadSide/CensusTyped.lean")
cen = open(path).read() if os.path.exists(path) else ""
strlit = r'"((?:[^"\\]|\\.)*)"'
old, oldext = {}, {}
cur = None
if "def reviewedTyped " in cen:
    body = cen[cen.index("def reviewedTyped "):cen.index("-- END reviewedTyped")]
    for m in re.finditer(r'^\s*\(' + strlit + r',\s*$|⟨' + strlit + r', ' + strlit + r',\s*\n\s*(\.[^\n]*?)⟩', body, re.M):
        if m.group(1) is not None:
            cur = m.group(1)
            continue
        old.setdefault((cur, m.group(2), m.group(3)), []).append(m.group(4))
    body = cen[cen.index("def reviewedTypedExterns"):cen.index("-- END reviewedTypedExterns")]
    for m in re.finditer(r'\(' + strlit + r', ' + strlit + r'\)', body):
        oldext[m.group(1)] = m.group(2)
# seeds from the syntactic review
seed = {}
syn = open(os.path.join(V, "lean/Qryn/ReadSide/Census.lean")).read()
sbody = syn[syn.index("def reviewed"):syn.index("def reviewedExterns")]
for m in re.finditer(r'⟨' + strlit + r', ' + strlit + r', ' + strlit + r',\s*\n\s*(\.[^\n]*?)⟩', sbody):
    k = m.group(1)
    k = {"store": "index"}.get(k, k)
    seed.setdefault((k, m.group(3)), m.group(4))
synext = {}
for m in re.finditer(r'\(' + strlit + r', ' + strlit + r'\)', syn[syn.index("def reviewedExterns"):]):
    synext[m.group(1)] = m.group(2)

def L(s):
    return '"' + s.replace("\\", "\\\\").replace('"', '\\"') + '"'
def esc(s):
    return s.replace("\\", "\\\\").replace('"', '\\"')

todo = 0
out = []
allext = set()
for name, sites, ext in funcs:
    rows, seen = [], {}
    allext.update(ext)
    for kind, text, guards in sites:
        key = (esc(name), esc(kind), esc(text))
        i = seen.get(key, 0)
        seen[key] = i + 1
        whys = old.get(key, [])
        why = whys[i] if i < len(whys) else (whys[-1] if whys else None)
        if why is None:
            why = seed.get((esc(kind), esc(text)))
            if why is not None and why.startswith(".guarded"):
                why = None
        if why is None:
            why = ".TODO_review  -- guards: " + "; ".join(guards)
            todo += 1
        rows.append("    ⟨%s, %s,\n      %s⟩" % (L(kind), L(text), why))
    out.append("  (%s,\n   [%s])" % (L(name), (",\n".join(rows)).lstrip()))
tbl = "def reviewedTyped : List (String × List TEntry) :=\n [\n" + ",\n".join(out) + "\n ]\n"

rts = []
for name, kind, rec, wide, fns in roots:
    rts.append("   (%s, %s, %s, %s)" % (L(name), L(kind), str(rec).lower(), str(wide).lower()))
rtbl = "def reviewedRoots : List (String × String × Bool × Bool) :=\n  [\n" + ",\n".join(rts) + "\n  ]\n"

exts = []
for e in sorted(allext):
    why = oldext.get(esc(e))
    if why is None:
        short = e
        m = re.match(r"\(\*?(?:[\w./-]+/)?(\w+)\.(\w+)\)\.(\w+)$", e)
        if m:
            short = "(%s.%s).%s" % (m.group(1), m.group(2), m.group(3))
        why = synext.get(short) or synext.get(e.split("/")[-1]) or synext.get("?." + e.split(".")[-1]) or "TODO"
        if why == "TODO":
            todo += 1
    exts.append("   (%s, \"%s\")" % (L(e), why))
etbl = "def reviewedTypedExterns : List (String × String) :=\n  [\n" + ",\n".join(exts) + "\n  ]\n"

def put(src, start, end, new):
    i = src.index(start)
    j = src.index(end)
    return src[:i] + new + src[j:]
if cen:
    cen = put(cen, "def reviewedTyped ", "-- END reviewedTyped", tbl)
    cen = put(cen, "def reviewedRoots", "-- END reviewedRoots", rtbl)
    cen = put(cen, "def reviewedTypedExterns", "-- END reviewedTypedExterns", etbl)
    open(path, "w").write(cen)
else:
    print(tbl + "-- END reviewedTyped\n\n" + rtbl + "-- END reviewedRoots\n\n" + etbl + "-- END reviewedTypedExterns\n")
print("-- %d item(s) to review" % todo, file=sys.stderr)
