#!/bin/bash
# scripts/clean_run_par.sh [tier] [-j N] Cxx...: like clean_run.sh but N checks at a time (lake builds are serialised by ./check itself)
tier=quick; case "$1" in quick|thorough) tier=$1; shift;; esac
j=6; if [ "$1" = "-j" ]; then j=$2; shift 2; fi
exec 9>/tmp/seedq.lock
flock 9
if [ -n "$(git -C /repo status --short | grep -v '^??')" ]; then echo "/repo is not clean"; exit 2; fi
printf '%s\n' "$@" | xargs -P $j -I{} bash -c "cd /verif && s=\$(date +%s); ./check {} $tier 2>&1 | grep -E '^VIOLATION|^KNOWN-FINDING|^check ' | cut -c1-300 | sed 's/^/[{}] /'; echo \"[{}] took \$((\$(date +%s)-s))s\""
