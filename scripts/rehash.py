#!/usr/bin/env python3
"""Rewrite the commit hashes in `fixed:` lines of KNOWN_FINDINGS.txt (and notes/) to the hashes the same
commits (matched by subject) have on /repo's main branch after cherry-picking from fix-* branches."""
import re, subprocess, sys
def git(*a): return subprocess.run(["git","-C","/repo",*a],capture_output=True,text=True).stdout
main = {}
for l in git("log","--format=%h %s","main").splitlines():
    h, s = l.split(" ",1); main.setdefault(s, h)
def subject(h):
    out = git("log","-1","--format=%s",h).strip()
    return out
p="/verif/KNOWN_FINDINGS.txt"
lines=open(p).read().splitlines()
out=[]
for l in lines:
    m=re.match(r"(fixed: property=\S+ )([0-9a-f]{7,40})( .*)",l)
    if m:
        h=m.group(2); s=subject(h)
        if s and s in main and not main[s].startswith(h[:7]):
            print("rehash",h,"->",main[s],s[:60]); l=m.group(1)+main[s]+m.group(3)
        elif not s: print("unknown commit",h)
    out.append(l)
open(p,"w").write("\n".join(out)+"\n")
