#!/bin/bash
# scripts/seed_recheck_q.sh <Cxx-n> [check ids...]: seed_recheck.sh under the seed lock
exec 9>/tmp/seedq.lock
flock 9
/verif/scripts/seed_recheck.sh "$@" > /tmp/seed-recheck-$1.log 2>&1
