#!/usr/bin/env python3
"""Regenerates MANIFEST.json from scripts/manifest_src.json (claimed checks) + properties.jsonl (ids)."""
import json, os
V = os.path.dirname(os.path.dirname(os.path.abspath(__file__)))
src = json.load(open(f"{V}/scripts/manifest_src.json"))
import glob
for f in sorted(glob.glob(f"{V}/scripts/manifest.d/*.json")):
    src["claimed"][os.path.basename(f)[:-5]] = json.load(open(f))
ids = [json.loads(l)["id"] for l in open(f"{V}/properties.jsonl")]
claimed = src["claimed"]
checks = []
for pid in ids:
    if pid not in claimed:
        continue
    c = claimed[pid]
    checks.append({
        "property_id": pid,
        "quick_cmd": f"./check {pid} quick",
        "thorough_cmd": f"./check {pid} thorough",
        "evidence_file": f"/verif/evidence/{pid}.json",
        "replay_cmd_template": f"./check {pid} --replay {{path}}",
        "engine": "lean-proof+correspondence",
        "level_claimed": {"category": "proof", "text": c["text"], "design_ref": c.get("design_ref", f"DESIGN.md §6 {pid}")},
        "level_note": c["note"],
        "technique": c["technique"],
    })
na = [{"property_id": pid, "reason": src["not_applicable"].get(pid, "check not built yet in this round; no claim is made")} for pid in ids if pid not in claimed]
m = {
    "version": 1,
    "setup_cmd": "./setup.sh",
    "hooks": src["hooks"],
    "engines": [{"name": "lean-proof+correspondence", "path": "/verif/check", "serves_properties": [c["property_id"] for c in checks],
                 "kind_free_text": "Lean 4 theorems about an executable model (lean/Qryn), tied to /repo by a go/ast translator (harness/extract -> lean/Qryn/Gen) and by differential execution of the real Go code against the compiled Lean driver (harness/cmd/vcheck)"}],
    "checks": checks,
    "not_applicable": na,
    "notes": src.get("notes", ""),
}
json.dump(m, open(f"{V}/MANIFEST.json", "w"), indent=1)
print("claimed:", [c["property_id"] for c in checks], "not claimed:", [n["property_id"] for n in na])
