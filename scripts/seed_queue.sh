#!/bin/bash
# scripts/seed_queue.sh <Cxx> <n> [extra checks]: seed_eval.sh serialised by a lock (one change applied to /repo at a time)
exec 9>/tmp/seedq.lock
flock 9
/verif/scripts/seed_eval.sh "$@" > /tmp/seed-eval-$1-$2.log 2>&1
