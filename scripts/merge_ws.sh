#!/bin/bash
# scripts/merge_ws.sh NAME [check ids...]: merge branch wip-NAME into /verif, cherry-pick fix-NAME onto /repo main,
# rewrite hashes in KNOWN_FINDINGS.txt, regenerate the manifest.
set -e
n=$1; shift
cd /verif
if [ -n "$(git status --short | grep -v '^??')" ]; then echo "working tree is not clean: commit or undo first"; git status --short | grep -v '^??' | head -5; exit 1; fi
git merge --no-edit wip-$n || {
  # evidence files and the generated manifest are rewritten after the merge anyway: take the branch's side
  for f in $(git diff --name-only --diff-filter=U | grep -E '^evidence/|^MANIFEST.json$|^seeded/README.md$' || true); do git checkout --theirs -- $f; git add $f; done
  others=$(git diff --name-only --diff-filter=U | grep -v '^KNOWN_FINDINGS.txt$' || true)
  if [ -n "$others" ]; then echo "MERGE CONFLICT in: $others  (resolve by hand, then commit)"; exit 1; fi
  if git diff --name-only --diff-filter=U | grep -q '^KNOWN_FINDINGS.txt$'; then sed -i '/^<<<<<<< /d; /^=======$/d; /^>>>>>>> /d' KNOWN_FINDINGS.txt; fi
  git add -u; git commit -qm "Merge wip-$n"; }
base=$(git -C /repo merge-base main fix-$n)
commits=$(git -C /repo rev-list --reverse $base..fix-$n)
for c in $commits; do
  subj=$(git -C /repo log -1 --format=%s $c)
  if git -C /repo log --format=%s main | grep -qxF "$subj"; then echo "already on main: $subj"; continue; fi
  git -C /repo cherry-pick $c >/dev/null || { echo "CHERRY-PICK CONFLICT at $c: $subj"; exit 1; }
  echo "picked: $subj"
done
python3 scripts/rehash.py
python3 scripts/mkmanifest.py
git add -u; git commit -qm "merge_ws $n: fix hashes of /repo main in KNOWN_FINDINGS.txt, manifest regenerated" || true
