import Lean
/-! `lake env lean --run Audit.lean Qryn.Props.C10`
    Lists every theorem declared in the given module with the axioms it depends on, one per line:
    `THEOREM <name> AXIOMS <a1,a2,...>`. The compiled .olean is loaded; the dependency walk is our own
    (transitive closure over the constants used by type and value), independent of `#print axioms`. -/
open Lean

partial def walk (env : Environment) (c : Name) : StateM (NameSet × NameSet) Unit := do
  let (seen, _) ← get
  if seen.contains c then return
  modify fun (s, a) => (s.insert c, a)
  let go (e : Expr) : StateM (NameSet × NameSet) Unit := e.getUsedConstants.forM (walk env)
  match env.find? c with
  | some (.axiomInfo v)  => modify (fun (s, a) => (s, a.insert c)); go v.type
  | some (.defnInfo v)   => go v.type; go v.value
  | some (.thmInfo v)    => go v.type; go v.value
  | some (.opaqueInfo v) => go v.type; go v.value
  | some (.quotInfo _)   => pure ()
  | some (.ctorInfo v)   => go v.type
  | some (.recInfo v)    => go v.type
  | some (.inductInfo v) => go v.type; v.ctors.forM (walk env)
  | none                 => pure ()

def main (args : List String) : IO UInt32 := do
  let modName := args.head!.toName
  let ns := (args.getD 1 "Qryn").toName
  initSearchPath (← findSysroot)
  let env ← importModules #[{ module := modName }] {} (trustLevel := 0) (loadExts := false)
  let some idx := env.getModuleIdx? modName | do IO.eprintln s!"module {modName} not found"; return 1
  let mut n := 0
  let names := env.header.moduleData[idx.toNat]!.constNames
  for c in names do
    match env.find? c with
    | some (.thmInfo _) =>
      if c.isInternal || !ns.isPrefixOf c then continue
      -- auto-generated equation / matcher / proof constants are not stated theorems
      let last := match c with | .str _ s => s | _ => ""
      if last.startsWith "eq_" || last.startsWith "match_" || last.startsWith "proof_" || last == "sizeOf_spec" || last.startsWith "_" then continue
      let (_, (_, axs)) := (walk env c).run ({}, {})
      let axs := axs.toList.map toString
      IO.println s!"THEOREM {c} AXIOMS {",".intercalate axs}"
      n := n + 1
    | _ => pure ()
  IO.println s!"COUNT {n}"
  return 0
