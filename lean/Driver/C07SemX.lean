import Driver.C07Sem
import Driver.C07X
import Qryn.LogQL.SemX
import Qryn.Sql.DumpX
/-! `c07semx`: like `c07sem` for the extended fragment — (a) the statement the REAL planner built (reflection dump →
    `Sel`, regexMap ids assigned in rendering order) and (b) the model's plan, both evaluated with `Sql.evalSelX`, against
    (c) the direct reading `LogQL.evalScript`. JSON path extraction and RE2 capture groups come as finite tables computed
    by the Go side; CityHash64 is instantiated by a fixed polynomial hash (any function serves: it is shared). -/
namespace Driver.C07SemX
open Qryn Qryn.Sql Qryn.LogQL Driver.C07 Driver.C07Sem Driver.C07X

def polyHash (m : List (Bytes × Bytes)) : Int :=
  let step (h : Nat) (c : Nat) : Nat := (h * 1000003 + c + 1) % 2305843009213693951
  let bytes (h : Nat) (s : Bytes) : Nat := step (s.foldl (fun a c => step a c.toNat) h) 300
  (m.foldl (fun h p => bytes (bytes h p.1) p.2) 7 : Nat)

def path? (s : String) : Option (List JArg) := if s = "-" then some [] else (s.splitOn "/").mapM jarg?

def jf? (s : String) : Option ((Bytes × List JArg) × Bytes) :=
  match s.splitOn ":" with
  | [l, p, v] => do some ((← ofHex l, ← path? p), ← ofHex v)
  | _ => none

def rc? (s : String) : Option ((Bytes × Bytes) × List Bytes) :=
  match s.splitOn ":" with
  | [re, l, vs] => do some ((← ofHex re, ← ofHex l), ← commaList? ofHex vs)
  | _ => none

def sem (dbg : Bool) (args : List String) : Option String := do
    let (c, rest) ← ctx? args
    match rest with
    | [ms, st, gin, ts, smp, re, js, num, cmp, low, jf, rc, dump] => do
      let matchers ← list? matcher? ms
      let stages ← list? scriptStage? st
      let d : LokiDb := ⟨← (parts gin ";").mapM ginRow?, ← (parts ts ";").mapM tsRow?, ← (parts smp ";").mapM sample?⟩
      let t : Tables := ⟨← (parts re ";").mapM re?, ← (parts js ";").mapM js?, ← (parts num ";").mapM num?,
                         ← (parts cmp ";").mapM cmp?, ← (parts low ";").mapM low?⟩
      let jft ← (parts jf ";").mapM jf?
      let rct ← (parts rc ";").mapM rc?
      let o : Oracles := { t.oracles with
        jsonField := fun l p => (jft.lookup (l, p)).getD [],
        reCaps := fun r l => (rct.lookup (r, l)).getD [],
        cityHash := polyHash }
      let spec := evalScript o c d matchers stages
      let modelT := evalSelX o (d.toDb c) (planScript c matchers stages)
      let implT ← if dump = "-" then some modelT else do
        let txt ← Driver.C00Sql.dumpText dump
        (Dump.selOfDumpX txt).map (evalSelX o (d.toDb c))
      if dbg then some s!"SPEC {"|".intercalate (spec.map rowStr)} MODEL {"|".intercalate (modelT.map rowStr)} IMPL {"|".intercalate (implT.map rowStr)}"
      else some s!"impl:{firstDiff implT spec} model:{firstDiff modelT spec} rows:{spec.length}"
    | _ => none
def handle : List String → Option String
  | "c07semx" :: args => sem false args
  | "c07semxdbg" :: args => sem true args
  | ["sqlrenderx", h] => do
    let t ← Driver.C00Sql.dumpText h
    match Dump.selOfDumpX t with
    | some s => some (hexOut (renderSel s))
    | none => some "dump-parse-error"
  | _ => none
end Driver.C07SemX
