import Qryn.Prof.Diff
import Qryn.Prof.TypeSel
import Qryn.Base.Bytes
import Driver.C16
/-! Line protocol for the DIFF view of the C16 model.
    `c16diff fnsL fnsR nL rowL*nL rowR*`  → `names;levels;total;left;right;maxself` or `not-positive`
        fns = `-` or comma list of `id:hexname` in table order, row = `p,f,n,self,total` (as for `c16flame`);
        each side goes through `mergeTrieCap`/`mergeNameTab` with the caps of the source, then `renderDiff`
    `c16names cap fns`                    → the name table `MergeTrie` builds under the name cap `cap`: `id:hexname,…`
    `c16capflame cap row*`                → `tree;levels;total` like `c16flame` but with the node cap `cap`
    `c16first name names`                 → position of the first sample type called `name` (hex words, comma list) -/
namespace Driver.C16Diff
open Qryn.Prof Driver.C16

def bytesToName (b : List UInt8) : String := String.ofList (b.map (fun c => Char.ofNat c.toNat))
def nameToHex (s : String) : String := Qryn.hexOut (s.toList.map (fun c => UInt8.ofNat c.toNat))

def parseFn (w : String) : Option (Nat × String) :=
  match w.splitOn ":" with
  | [a, b] => do pure (← a.toNat?, bytesToName (← Qryn.ofHex b))
  | _ => none

def parseFns (s : String) : Option (List (Nat × String)) :=
  if s = "-" then some [] else (s.splitOn ",").mapM parseFn

def showFns (nt : NameTab) : String := join "," (nt.map (fun p => toString p.1 ++ ":" ++ nameToHex p.2))

def showDiff (d : DiffOut) : String :=
  join "," (d.names.map nameToHex) ++ ";" ++ join " " (d.levels.map showLevel) ++ ";" ++ toString d.total ++ ";"
    ++ toString d.leftTicks ++ ";" ++ toString d.rightTicks ++ ";" ++ toString d.maxSelf

def handle : List String → Option String
  | "c16diff" :: fl :: fr :: nl :: rs => do
    let fl ← parseFns fl
    let fr ← parseFns fr
    let nl ← nl.toNat?
    let rows ← rs.mapM parseRow
    let T1 := mergeTrieCap Qryn.Gen.ProfTree.maxNodes [] 0 (rows.take nl)
    let T2 := mergeTrieCap Qryn.Gen.ProfTree.maxNodes [] 0 (rows.drop nl)
    let n1 := mergeNameTab Qryn.Gen.ProfTree.maxNames [] fl
    let n2 := mergeNameTab Qryn.Gen.ProfTree.maxNames [] fr
    match renderDiff T1 T2 n1 n2 with
    | none => pure "not-positive"
    | some d => pure (showDiff d)
  | ["c16names", cap, fns] => do
    pure (showFns (mergeNameTab (← cap.toNat?) [] (← parseFns fns)))
  | "c16capflame" :: cap :: rs => do
    let cap ← cap.toNat?
    let rows ← rs.mapM parseRow
    let T := mergeTrieCap cap [] 0 rows
    let lv := bfs T
    let tree := (T.mergeSort (fun a b => decide (a.parent ≤ b.parent))).map showRow
    let levels := match lv with
      | [] => []
      | _ :: rest => showLevel [0, rootTotal T, 0, 0] :: rest.map (fun l => showLevel (levelValues [] l))
    pure (join " " tree ++ ";" ++ join " " levels ++ ";" ++ toString (rootTotal T))
  | ["c16first", name, names] => do
    pure (toString (firstIdx (names.splitOn ",") name))
  | _ => none
end Driver.C16Diff
