import Qryn.Ingest.SpanCfg
import Qryn.Ingest.SpanJson
/-! Line protocol of the span model (C06). See harness/cmd/vcheck/c06.go for the grammar. -/
namespace Driver.C06
open Qryn Qryn.Span

abbrev P := StateT (List String) Option

def tok : P String := fun s => match s with | [] => none | t :: r => some (t, r)
def pNat : P Nat := do let t ← tok; (t.toNat? : Option Nat)
def pInt : P Int := do let t ← tok; (t.toInt? : Option Int)
def pHex : P Bytes := do let t ← tok; (ofHex t : Option Bytes)
def hexOf (t : String) : Option Bytes := ofHex t

def many {α} (p : P α) : Nat → P (List α)
  | 0 => pure []
  | n + 1 => do let x ← p; let xs ← many p n; pure (x :: xs)

partial def pVal : P AnyValue := do
  let t ← tok
  match t with
  | "s" => do pure (.str (← pHex))
  | "b" => do let v ← tok; pure (.bool (v == "1"))
  | "i" => do pure (.int (← pInt))
  | "d" => do pure (.dbl (← pNat))
  | "y" => do pure (.bytes (← pHex))
  | "u" => pure .unset
  | "N" => pure .nilp
  | "a" => do let n ← pNat; pure (.arr (← many pVal n))
  | "m" => do
    let n ← pNat
    pure (.kvl (← many (do let k ← pHex; let v ← pVal; pure (k, v)) n))
  | _ => failure

def pKV : P KV := do let k ← pHex; let v ← pVal; pure (k, v)
def pKVs : P (List KV) := do let n ← pNat; many pKV n

def pOSpan : P OSpan := do
  let tid ← pHex; let sid ← pHex; let pid ← pHex; let name ← pHex
  let kind ← pNat; let st ← pNat; let en ← pNat
  let s ← tok
  let status ← match s with
    | "N" => pure none
    | "T" => do let c ← pNat; let m ← pHex; pure (some (c, m))
    | _ => failure
  let attrs ← pKVs
  let ne ← pNat
  let events ← many (do let t ← pNat; let n ← pHex; pure (t, n)) ne
  pure ⟨tid, sid, pid, name, kind, st, en, attrs, status, events⟩

def pTraces : P TracesData := do
  let n ← pNat
  many (do
    let ra ← pKVs
    let ns ← pNat
    let scopes ← many (do let k ← pNat; many pOSpan k) ns
    pure (⟨ra, scopes⟩ : ResourceSpans)) n

def pJStr : P JStr := do let t ← tok; if t == "~" then pure none else pure (some (← (hexOf t : Option Bytes)))

def pZTime : P ZTime := do
  let t ← tok
  if t == "x" then pure .bad
  else if t.startsWith "n" then pure (.num (← ((t.drop 1).toString.toInt? : Option Int)))
  else if t.startsWith "s" then pure (.str (← (hexOf (t.drop 1).toString : Option Bytes)))
  else failure

def pOptStr : P (Option Str) := do let t ← tok; if t == "~" then pure none else pure (some (← (hexOf t : Option Bytes)))

def pEndpoint : P (Option Endpoint) := do
  let t ← tok
  match t with
  | "~" => pure none
  | "e" => do
    let sn ← tok
    let svcs : List (Option Str) ← if sn == "a" then pure [] else if sn == "x" then pure [none]
      else if sn.startsWith "s" then pure [some (← (hexOf (sn.drop 1).toString : Option Bytes))] else failure
    let v4 ← pOptStr; let v6 ← pOptStr; let port ← pInt
    pure (some ⟨svcs, v4, v6, port⟩)
  | _ => failure

def pZField : P ZField := do
  let t ← tok
  match t with
  | "T" => do pure (.traceId (← pJStr))
  | "I" => do pure (.id (← pJStr))
  | "P" => do pure (.parentId (← pJStr))
  | "N" => do pure (.name (← pJStr))
  | "K" => do pure (.kind (← pJStr))
  | "t" => do pure (.timestamp (← pZTime))
  | "u" => do pure (.duration (← pZTime))
  | "L" => do pure (.localEndpoint (← pEndpoint))
  | "R" => do pure (.remoteEndpoint (← pEndpoint))
  | "G" => do
    let t ← tok
    if t == "~" then pure (.tags none)
    else do
      let n ← (t.toNat? : Option Nat)
      pure (.tags (some (← many (do let k ← pHex; let v ← pJStr; pure (k, v)) n)))
  | "A" => do
    let t ← tok
    if t == "~" then pure (.annotations none)
    else do
      let n ← (t.toNat? : Option Nat)
      pure (.annotations (some (← many (do let ts ← pNat; let v ← pHex; pure (ts, v)) n)))
  | "O" => pure .other
  | _ => failure

/-- a span and its serial number (the harness's name for the span text) -/
def pZSpan : P (ZSpan × Nat) := do
  let serial ← pNat; let rawLen ← pNat; let n ← pNat
  let fs ← many pZField n
  -- the serial number is carried in `rawLen`'s place for rendering: rawLen is kept in the document
  pure ({ fields := fs, rawLen := rawLen }, serial)

/-! rendering -/

partial def rVal : AnyValue → List String
  | .str s => ["s", hexOut s]
  | .bool b => ["b", if b then "1" else "0"]
  | .int i => ["i", toString i]
  | .dbl b => ["d", toString b]
  | .bytes b => ["y", hexOut b]
  | .unset => ["u"]
  | .nilp => ["N"]
  | .arr vs => ["a", toString vs.length] ++ vs.flatMap rVal
  | .kvl kvs => ["m", toString kvs.length] ++ kvs.flatMap (fun kv => hexOut kv.1 :: rVal kv.2)

def rKV (kv : KV) : String := ",".intercalate (hexOut kv.1 :: rVal kv.2)

def rOSpan (s : OSpan) : String :=
  ",".intercalate ([hexOut s.traceId, hexOut s.spanId, hexOut s.parentSpanId, hexOut s.name, toString s.kind,
    toString s.startNs, toString s.endNs] ++
    (match s.status with | none => ["N"] | some (c, m) => ["T", toString c, hexOut m]) ++
    [toString s.attrs.length] ++ s.attrs.map rKV ++
    [toString s.events.length] ++ s.events.flatMap (fun e => [toString e.1, hexOut e.2]))

def sortStrings (l : List String) : List String := (l.toArray.qsort (· < ·)).toList

/-- `serials`: the spans of the request with their serial numbers (to name a Zipkin payload) -/
def rPayload (serials : List (ZSpan × Nat)) : Payload → String
  | .empty => "E"
  | .otlp lead s => "O" ++ toString lead ++ "," ++ rOSpan s
  | .otlpJson _ => "J"
  | .zipkin d => match serials.find? (fun p => p.1 == d) with
    | some p => "Z" ++ toString p.2
    | none => "Z?"

def rTrace (serials : List (ZSpan × Nat)) (r : TraceRow) : String :=
  ":".intercalate ["T", hexOut r.traceId, hexOut r.spanId, hexOut r.parentId, hexOut r.name, toString r.ts, toString r.dur,
    hexOut r.svc, toString r.ptype, rPayload serials r.payload]

def rTag (r : TagRow) : String :=
  ":".intercalate ["G", hexOut r.traceId, hexOut r.spanId, toString r.ts, toString r.dur, toString r.dateSec, hexOut r.key, hexOut r.val]

def rOutcome (serials : List (ZSpan × Nat)) (sortTags : Bool) (o : Outcome) : String :=
  if !o.ok then "rej"
  else
    let tags := o.tags.map rTag
    "|".intercalate ("ok" :: o.traces.map (rTrace serials) ++ (if sortTags then sortStrings tags else tags))

def rRSpan (sortAttrs : Bool) : Option RSpan → String
  | none => "NIL"
  | some s =>
    let attrs := s.attrs.map rKV
    ":".intercalate ["S", hexOut s.traceId, hexOut s.spanId, hexOut s.parentSpanId, hexOut s.name, toString s.kind,
      toString s.startNs, toString s.endNs, toString s.status.1, hexOut s.status.2, hexOut s.serviceName,
      ";".intercalate (if sortAttrs then sortStrings attrs else attrs),
      ";".intercalate (s.events.map (fun e => toString e.1 ++ "," ++ hexOut e.2))]

def rRead (sortAttrs : Bool) (r : List (Option RSpan) × ReadEnd) : String :=
  -- a panic in the goroutine of `OutputQuery` is recovered there: the stream ends as after an error
  "|".intercalate ((match r.2 with | .done => "done" | .stopped => "stopped" | .crashed => "stopped") :: r.1.map (rRSpan sortAttrs))

def noLen : OSpan → Nat := fun _ => 0

def run {α} (p : P α) (args : List String) : Option α :=
  match p args with
  | some (x, []) => some x
  | _ => none

def pZip : P (Framing × List (ZSpan × Nat)) := do
  let f ← tok
  let f ← if f == "a" then pure Framing.array else if f == "n" then pure Framing.ndjson else failure
  let n ← pNat
  pure (f, ← many pZSpan n)


/-! JSON trees: `z` null, `t`/`f`, `n<hexraw>[:<f64 bits>]`, `s<hex>`, `a <n> TREE*`, `o <n> (<hexkey> TREE)*` -/
partial def pJVal : P JVal := do
  let t ← tok
  if t == "z" then pure .null
  else if t == "t" then pure (.bool true)
  else if t == "f" then pure (.bool false)
  else if t == "a" then do let n ← pNat; pure (.arr (← many pJVal n))
  else if t == "o" then do
    let n ← pNat
    pure (.obj (← many (do let k ← pHex; let v ← pJVal; pure (k, v)) n))
  else if t.startsWith "n" then
    match (t.drop 1).toString.splitOn ":" with
    | [h] => do pure (.num (← (hexOf h : Option Bytes)) 0)
    | [h, b] => do pure (.num (← (hexOf h : Option Bytes)) (← (b.toNat? : Option Nat)))
    | _ => failure
  else if t.startsWith "s" then do pure (.str (← (hexOf (t.drop 1).toString : Option Bytes)))
  else failure

/-- a span text: `<serial> <len> <tailhex> WT RT`, WT = `!` | TREE, RT = `=` (same tree) | `!` | TREE -/
def pZText : P (ZText × Nat) := do
  let serial ← pNat; let len ← pNat; let tail ← pHex
  let w ← tok
  let wt ← if w == "!" then pure none else (fun st => (pJVal (w :: st)).map (fun (v, r) => (some v, r)))
  let r ← tok
  let rt ← if r == "=" then pure wt else if r == "!" then pure none
    else (fun st => (pJVal (r :: st)).map (fun (v, r) => (some v, r)))
  pure (⟨len, wt, tail, rt⟩, serial)

/-- legacy OTLP/JSON payload: `<raw: ! | o ..> <nattrs> (<hexkey> 0|1)* <hexname> <kind> <nev> (<time> <hexname>)* (N | T code hexmsg)` -/
def pOJson : P OJsonDoc := do
  let w ← tok
  let raw ← if w == "!" then pure none else do
    let v ← (fun st => pJVal (w :: st))
    match v with
    | .obj ms => pure (some ms)
    | _ => failure
  let na ← pNat
  let sAttrs ← many (do let k ← pHex; let b ← tok; pure (k, b == "1")) na
  let name ← pHex; let kind ← pNat
  let ne ← pNat
  let ev ← many (do let t ← pNat; let n ← pHex; pure (t, n)) ne
  let s ← tok
  let status ← match s with
    | "N" => pure none
    | "T" => do let c ← pNat; let m ← pHex; pure (some (c, m))
    | _ => failure
  pure { raw := raw, sAttrs := sAttrs, sName := name, sKind := kind, sEvents := ev, sStatus := status }

/-- `strconv.ParseFloat` is outside the model: the rows that need it carry a table -/
def noF : Bytes → Nat := fun _ => 0

/-- a stored row given directly (foreign rows): `<ptype> <tid> <sid> <ts> <dur> <payload: E | Z span | O span>` -/
def pRow : P (TraceRow × List (ZSpan × Nat)) := do
  let pt ← pInt; let tid ← pHex; let sid ← pHex; let ts ← pInt; let dur ← pInt
  let k ← tok
  match k with
  | "E" => pure (⟨tid, sid, [], [], ts, dur, [], pt, .empty⟩, [])
  | "Z" => do let (d, n) ← pZSpan; pure (⟨tid, sid, [], [], ts, dur, [], pt, .zipkin d⟩, [(d, n)])
  | "O" => do let lead ← pNat; let s ← pOSpan; pure (⟨tid, sid, [], [], ts, dur, [], pt, .otlp (UInt8.ofNat lead) s⟩, [])
  | "J" => do let d ← pOJson; pure (⟨tid, sid, [], [], ts, dur, [], pt, .otlpJson d⟩, [])
  | _ => failure


def pZipJ : P (Framing × Bool × List (ZText × Nat)) := do
  let f ← tok
  let f ← if f == "a" then pure Framing.array else if f == "n" then pure Framing.ndjson else failure
  let ok ← tok
  let n ← pNat
  pure (f, ok == "1", ← many pZText n)

def serialsOf (texts : List (ZText × Nat)) : List (ZSpan × Nat) :=
  texts.filterMap (fun p => (docOfTrees p.1).map (fun z => (z, p.2)))

/-- one push of the mixed-trace stream: `Z a|n <ok> <n> TEXT*` or `O TRACES` -/
def pPush : P (Outcome × List (ZSpan × Nat)) := do
  let k ← tok
  match k with
  | "Z" => do
    let (f, ok, texts) ← pZipJ
    pure (writeZipkinJ cfg f (texts.map (·.1)) ok, serialsOf texts)
  | "O" => do
    let td ← pTraces
    pure (writeOTLP cfg noLen td, [])
  | _ => failure

def isNaNBits (b : Nat) : Bool := b / 2^52 % 2048 == 2047 && b % 2^52 != 0

def rJAttr : Str × JAttr → String
  | (k, .text s) => hexOut k ++ ",x" ++ hexOut s
  | (k, .float b) => hexOut k ++ ",g" ++ (if isNaNBits b then "NaN" else toString b)
  | (k, .json _) => hexOut k ++ ",j"

def rJSpan : Option JSpan → String
  | none => "FAULT"
  | some j => ":".intercalate ["J", hexOut j.traceId, hexOut j.spanId, hexOut j.name, toString j.startNs, toString j.endNs,
      hexOut j.parentSpanId, hexOut j.serviceName, ";".intercalate (sortStrings (j.attrs.map rJAttr)),
      ";".intercalate (j.events.map (fun e => toString e.1 ++ "," ++ hexOut e.2)), toString j.status.1, hexOut j.status.2]

def rJsonViews (r : List (Option RSpan) × ReadEnd) : String :=
  "|".intercalate ((match r.2 with | .done => "done" | .stopped => "stopped" | .crashed => "stopped") :: r.1.map (fun s => rJSpan (jsonView s)))

def pFTab : P (Bytes → Nat) := do
  let n ← pNat
  let tab ← many (do let k ← pHex; let b ← pNat; pure (k, b)) n
  pure (fun s => ((tab.find? (fun e => e.1 == s)).map (·.2)).getD 0)

def handle : List String → Option String
  | "c06otlp" :: args => do
    let td ← run pTraces args
    some (rOutcome [] true (writeOTLP cfg noLen td))
  | "c06otlprt" :: args => do
    let td ← run pTraces args
    let o := writeOTLP cfg noLen td
    some (if o.ok then rRead true (readRows cfg noF o.traces) else "rej")
  | "c06zip" :: args => do
    let (f, spans) ← run pZip args
    some (rOutcome spans false (writeZipkin cfg f (spans.map (·.1))))
  | "c06ziprt" :: args => do
    let (f, spans) ← run pZip args
    let o := writeZipkin cfg f (spans.map (·.1))
    some (if o.ok then rRead false (readRows cfg noF o.traces) else "rej")
  | "c06readrows" :: n :: args => do
    let n ← n.toNat?
    let rows ← run (many pRow n) args
    some (rRead true (readRows cfg noF (rows.map (·.1))))
  | "c06zipj" :: args => do
    let (f, ok, texts) ← run pZipJ args
    some (rOutcome (serialsOf texts) false (writeZipkinJ cfg f (texts.map (·.1)) ok))
  | "c06zipjrt" :: args => do
    let (f, ok, texts) ← run pZipJ args
    let o := writeZipkinJ cfg f (texts.map (·.1)) ok
    some (if o.ok then rRead false (readRows cfg noF o.traces) else "rej")
  | "c06zipjview" :: args => do
    let (f, ok, texts) ← run pZipJ args
    let o := writeZipkinJ cfg f (texts.map (·.1)) ok
    some (if o.ok then rJsonViews (readRows cfg noF o.traces) else "rej")
  | "c06otlpview" :: args => do
    let td ← run pTraces args
    let o := writeOTLP cfg noLen td
    some (if o.ok then rJsonViews (readRows cfg noF o.traces) else "rej")
  | "c06trace" :: tid :: st :: en :: n :: args => do
    let tid ← ofHex tid
    let st ← st.toInt?
    let en ← en.toInt?
    let n ← n.toNat?
    let pushes ← run (many pPush n) args
    let tbl := pushes.flatMap (fun p => if p.1.ok then p.1.traces else [])
    some (rRead true (readTrace cfg noF tbl tid st en))
  | "c06readrowsf" :: args => do
    -- rows with a ParseFloat table: `<ntab> (<hex> <bits>)* <nrows> ROW*`
    let (fb, rows) ← run (do let fb ← pFTab; let n ← pNat; let rows ← many pRow n; pure (fb, rows)) args
    some (rRead true (readRows cfg fb (rows.map (·.1))))
  | "c06viewrows" :: n :: args => do
    let n ← n.toNat?
    let rows ← run (many pRow n) args
    some (rJsonViews (readRows cfg noF (rows.map (·.1))))
  | ["c06scan", h] => do
    some (",".intercalate ((scanLines (← ofHex h)).map hexOut))
  | ["c06jxint", h] => do
    match jxInt64 (← ofHex h) with
    | some v => some (toString v)
    | none => some "rej"
  | ["c06fjint", h] => do some (toString (fjInt64 (← ofHex h)))
  | ["c06fjuint", h] => do some (toString (fjUint64 (← ofHex h)))
  | ["c06b64", h] => do
    match B64.decodeOk (← ofHex h) with
    | some v => some (hexOut v)
    | none => some "rej"
  | ["c06hexenc", h] => do some (hexOut (hexEnc (← ofHex h)))
  | ["c06fmtf", b] => do some (hexOut (fmtF (← b.toNat?)))
  | ["c06hex", h, w] => do
    match decodeHexStr (← ofHex h) (← w.toNat?) with
    | .ok r => some (hexOut r)
    | .error _ => some "rej"
  | ["c06parseint", h] => do
    match parseInt64 (← ofHex h) with
    | some v => some (toString v)
    | none => some "rej"
  | _ => none
end Driver.C06
