import Driver.C19
import Qryn.Ctrl.RotateCluster
/-! Line protocol for the cluster model of C19 (`Qryn.Ctrl.RotateCluster`):
    `c19cchain <N> <step> <step> …`   a chain of runs from the fresh cluster of N nodes (no settings rows, TTL "init",
                                      storage policy "default" everywhere)
    `c19cchainv <N> <step> …`         the same, full texts
      step   = `<cfg>/<conn>/<fault>`, cfg as in `c19chain`, conn = node the run is connected to,
               fault = `n` | `f<k>:<i>+<j>+…` (statement k reports an error after taking effect on the listed nodes)
      answer = per step `ok:nStatements:fnv(log text):fnv(state text)`; state text = for every node `N <i>` followed by the
               state text of what a process connected to that node reads from its LOCAL settings table and its tables -/
namespace Driver.C19Cluster
open Qryn Qryn.Ctrl.Rotate Driver.C19

def freshC (n : Nat) : CSt := ⟨n, [], fun _ _ => asc "init", fun _ _ => asc "default"⟩

def parseCFault (s : String) : Option (Option CFault) :=
  if s = "n" then some none
  else match s.toList with
    | 'f' :: r =>
      match (String.ofList r).splitOn ":" with
      | [k, sel] => do
        let k ← k.toNat?
        let l ← if sel == "" then some [] else (sel.splitOn "+").mapM (·.toNat?)
        pure (some ⟨k, l⟩)
      | _ => none
    | _ => none

def parseCStep (s : String) : Option (Cfg × Nat × Option CFault) :=
  match s.splitOn "/" with
  | [c, conn, f] => do
    let (cfg, _) ← parseStep (c ++ "/n")
    let k ← conn.toNat?
    let ft ← parseCFault f
    pure (cfg, k, ft)
  | _ => none

def cstateText (cs : CSt) : ByteArray :=
  (List.range cs.n).foldl (fun b i => pushStr b s!"N {i}\n" ++ stateText (cview false cs i)) ByteArray.empty

def cchain (verbose : Bool) (n : Nat) (steps : List (Cfg × Nat × Option CFault)) : String :=
  let rec go (cs : CSt) : List (Cfg × Nat × Option CFault) → List String
    | [] => []
    | (c, conn, f) :: rest =>
      let o := crun defs c conn f cs
      let line :=
        if verbose then s!"{if o.ok then 1 else 0}|{hexOut (logText o.log).toList}|{hexOut (cstateText o.cs).toList}"
        else s!"{if o.ok then 1 else 0}:{o.log.length}:{(fnv (logText o.log)).toNat}:{(fnv (cstateText o.cs)).toNat}"
      line :: go o.cs rest
  " ".intercalate (go (freshC n) steps)

def handle : List String → Option String
  | "c19cchain" :: n :: steps => do
    let n ← n.toNat?
    let ss ← steps.mapM parseCStep
    some (cchain false n ss)
  | "c19cchainv" :: n :: steps => do
    let n ← n.toNat?
    let ss ← steps.mapM parseCStep
    some (cchain true n ss)
  | _ => none
end Driver.C19Cluster
