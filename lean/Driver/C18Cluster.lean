import Driver.C18
import Qryn.Ctrl.MigrateCluster
/-! Line protocol for the cluster model of C18 (`Qryn.Ctrl.MigrateCluster` over `Qryn.Gen.Migrations.cprog`):
    `c18cprog <mode>`                 `oc` flags of what a start sends: `createDb:<0|1> boot:<bits> <file>:<bits> …`
    `c18cluster <mode> <skip> <N> <bodies> <prefix> <starts> <d|f>`
        skip    = `1`: the database is `default` (InitDB returns at once; the database exists on every node), else `0`
        N       = number of nodes
        bodies  = `-` or `a:b,…` — the parameter instance: text identity `a` (default parameters) becomes `b`
        prefix  = `-` or six script counts: first an uninterrupted start, connected to node 0, of the program cut to
                  these counts (an older release's files)
        starts  = comma list of `<conn>/<fault>`; fault = `c` (none) or `<n><k|e>:<i>+<j>+…` — call `n` of the start is
                  killed (`k`) / returns an error (`e`) after taking effect on the listed nodes (`:` alone = on none)
        answer  = per start `status/ncalls/state` joined by ` ; `; state = digest (`d`) or canonical text (`f`):
                  per node `n<i>{vers=<k:v,…> <catalogue>}` -/
namespace Driver.C18Cluster
open Qryn.Ctrl.Migrate Qryn.Gen.Migrations Driver.C18

def nodeStr (cl : Cluster) (i : Nat) : String :=
  let rows := (cl.rows.filter (·.1 == i)).map (·.2)
  "n" ++ toString i ++ "{vers=" ++ ",".intercalate (rows.map fun p => toString p.1 ++ ":" ++ toString p.2) ++ " " ++
    catStr (cl.cat i) ++ "}"

def clusterStr (cl : Cluster) : String := " ".intercalate ((List.range cl.n).map (nodeStr cl))

def parseSel (s : String) : Option (List Nat) :=
  if s == "" then some [] else (s.splitOn "+").mapM (·.toNat?)

def parseCFault (s : String) : Option (Option CFault) :=
  if s == "c" then some none else
  match s.splitOn ":" with
  | [a, sel] =>
    let kill := a.endsWith "k"
    if !(kill || a.endsWith "e") then none else
    match (a.dropEnd 1).toString.toNat?, parseSel sel with
    | some n, some l => some (some ⟨n, l, kill⟩)
    | _, _ => none
  | _ => none

def parseStart (s : String) : Option (Nat × Option CFault) :=
  match s.splitOn "/" with
  | [c, f] => match c.toNat?, parseCFault f with
    | some c, some f => some (c, f)
    | _, _ => none
  | _ => none

def parseBodies (s : String) : Option (List (Nat × Nat)) :=
  if s == "-" then some [] else
  (s.splitOn ",").mapM fun p => match p.splitOn ":" with
    | [a, b] => match a.toNat?, b.toNat? with
      | some a, some b => some (a, b)
      | _, _ => none
    | _ => none

def ctruncate (P : CProg) (ns : List (Nat × Nat)) : CProg :=
  { P with phases := P.phases.map fun ph => match ph.scripts with
    | none => ph
    | some (k, ss) => match ns.find? (·.1 == k) with
      | some (_, n) => { ph with scripts := some (k, ss.take n) }
      | none => ph }

def coutStr (P : CProg) (cl : Cluster) (conn : Nat) (f : Option CFault) (detail : String) : String × Cluster :=
  let o := cstart P cl conn f
  let cl' := memo o.cl
  let st := if detail == "d" then toString (fnv64 (clusterStr cl')) else clusterStr cl'
  (statusStr o.status ++ "/" ++ toString o.ncalls ++ "/" ++ st, cl')

def runCSched (P : CProg) (detail : String) : Cluster → List (Nat × Option CFault) → List String
  | _, [] => []
  | cl, (c, f) :: r => let (s, cl') := coutStr P cl c f detail; s :: runCSched P detail cl' r

def bits (l : List Bool) : String := String.join (l.map b01)

def ocOf (P : CProg) : String :=
  "createDb:" ++ b01 P.createDb.oc ++ " " ++ " ".intercalate (P.phases.map fun ph =>
    "boot:" ++ bits (ph.boot.map (·.oc)) ++ " " ++ (match ph.scripts with
      | none => "-"
      | some (k, ss) => toString k ++ ":" ++ bits (ss.map (·.oc))))

def handle : List String → Option String
  | ["c18cprog", m] => do
    let mode ← modeOf m
    some (ocOf (cprog mode false))
  | ["c18cluster", m, skip, n, bodies, prefix_, starts, detail] => do
    let mode ← modeOf m
    let N ← n.toNat?
    let bt ← parseBodies bodies
    let ss ← (starts.splitOn ",").mapM parseStart
    let sk := skip == "1"
    let P := (cprog mode sk).mapBody (bodyTable bt)
    -- with `default` the database exists on every node before anything runs
    let cl0 : Cluster := memo ⟨N, fun _ => ⟨sk, []⟩, []⟩
    if prefix_ == "-" then
      some (" ; ".intercalate (runCSched P detail cl0 ss))
    else
      let ns ← (prefix_.splitOn ",").mapM (·.toNat?)
      if ns.length != streams.length then none else
      let P0 := ctruncate P ((streams.map (·.1)).zip ns)
      let (s0, cl1) := coutStr P0 cl0 0 none detail
      some (" ; ".intercalate (s0 :: runCSched P detail cl1 ss))
  | _ => none
end Driver.C18Cluster
