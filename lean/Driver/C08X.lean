import Driver.C08
import Driver.C07X
import Qryn.LogQL.PlannerMetricX
import Qryn.LogQL.SemMetricX
import Qryn.LogQL.SupportedX
/-! line protocol for the metric planner model of the labelled path (`LogQL.planMetricX`): selectors with `| json l="p"`,
    `| regexp`, `| drop`, filters after them, and `quantile_over_time`. -/
namespace Driver.C08X
open Qryn Qryn.Sql Qryn.LogQL Driver.C07 Driver.C07X Driver.C08

/-- `<int>:<frac digits or ->` -/
def numLit? (s : String) : Option NumLit :=
  match s.splitOn ":" with
  | [i, f] => do some ⟨← i.toNat?, ← digits? f⟩
  | _ => none

/-- `<L|U|Q> <fn | φ> <unwrap label hex|-> <durNs> <byPrefix> <bySuffix> <cmp> <matchers> <stages (C07X syntax)>` -/
def rangeX? : List String → Option (RangeAggX × List String)
  | kind :: fn :: lbl :: dur :: bp :: bs :: cm :: ms :: st :: rest => do
    let k ← if kind = "L" then (rangeFn? fn).map RangeKindX.lra
            else if kind = "U" then do some (RangeKindX.unwrap (← unwrapFn? fn) (← str? lbl))
            else if kind = "Q" then do some (RangeKindX.quantile (← numLit? fn) (← str? lbl)) else none
    let stages ← list? stageX? st
    let sp := splitPre stages
    some (⟨k, ⟨← list? matcher? ms, sp.1⟩, sp.2, ← dur.toNat?, ← grouping? bp, ← grouping? bs, ← cmp? cm⟩, rest)
  | _ => none

/-- `<range> <agg fn|-> <byPrefix> <bySuffix> <cmp> <topk: -|0|1> <k> <cmp>` -/
def queryX? (args : List String) : Option (MetricQueryX × List String) := do
  let (r, rest) ← rangeX? args
  match rest with
  | afn :: bp :: bs :: cm :: top :: k :: tcm :: rest' => do
    let agg ← if afn = "-" then some none else do some (some (⟨← aggFn? afn, ← grouping? bp, ← grouping? bs, ← cmp? cm⟩ : VecOp))
    let topk ← if top = "-" then some none else do some (some (⟨top = "1", ← k.toNat?, ← cmp? tcm⟩ : TopOp))
    some (⟨r, agg, topk⟩, rest')
  | _ => none

/-! ### concrete oracles of the semantic search for the new stages (any fixed functions do: both sides use the same ones).
    Lines are read as blank-separated `name=value` tokens: the "document" field at a path is the value of the token named
    by the path's text; the i-th capture group of any pattern captures the value of the i-th token. -/
def bytesStr (bs : Bytes) : String := String.ofList (bs.map (fun c => Char.ofNat c.toNat))

def tokens (line : Bytes) : List (String × Bytes) :=
  ((bytesStr line).splitOn " ").filterMap (fun t => match t.splitOn "=" with
    | [k, v] => some (k, v.toUTF8.toList)
    | _ => none)

def pathText (p : List JArg) : String :=
  ".".intercalate (p.map (fun a => match a with | .key k => bytesStr k | .idx i => s!"[{i}]"))

/-- linear interpolation between the closest ranks of the sorted values (φ clamped to [0,1]) -/
def quantileLin (phi : Rat) (vs : List Rat) : Rat :=
  let s := (vs.toArray.qsort (fun a b => a < b)).toList
  match s with
  | [] => 0
  | x :: _ =>
    let n := s.length
    let p := if phi < 0 then 0 else if 1 < phi then 1 else phi
    let rank := p * ((n - 1 : Nat) : Int)
    let lo := rank.floor.toNat
    let a := s.getD lo x
    let b := s.getD (lo + 1) a
    a + (b - a) * (rank - (lo : Int))

def oraclesX : Oracles := { oracles with
  jsonField := fun line p => ((tokens line).lookup (pathText p)).getD []
  reCaps := fun _ line => (tokens line).map (·.2)
  quantile := quantileLin }

def handle : List String → Option String
  | "c08semx" :: args => do
    let (c, rest) ← mctx? args
    let (q, rest') ← queryX? rest
    let d ← db? rest'
    let plan := (evalSelA oraclesX (d.toDbM c) (planMetricX c q)).map normRow
    let spec := evalMetricX oraclesX c d q
    let cls := s!"{planClassX q} {stageCountX c q}"
    if plan == spec then some s!"ok {plan.length} {cls}"
    else some s!"diff {showTable plan} {showTable spec} {cls}"
  | "c08planx" :: args => do
    let (c, rest) ← mctx? args
    let (q, rest') ← queryX? rest
    if rest'.isEmpty then some (hexOut (renderSel (planMetricX c q))) else none
  | _ => none
end Driver.C08X
