import Driver.C08
import Driver.C07X
import Qryn.LogQL.PlannerMetricX
/-! line protocol for the metric planner model of the labelled path (`LogQL.planMetricX`): selectors with `| json l="p"`,
    `| regexp`, `| drop`, filters after them, and `quantile_over_time`. -/
namespace Driver.C08X
open Qryn Qryn.Sql Qryn.LogQL Driver.C07 Driver.C07X Driver.C08

/-- `<int>:<frac digits or ->` -/
def numLit? (s : String) : Option NumLit :=
  match s.splitOn ":" with
  | [i, f] => do some ⟨← i.toNat?, ← digits? f⟩
  | _ => none

/-- `<L|U|Q> <fn | φ> <unwrap label hex|-> <durNs> <byPrefix> <bySuffix> <cmp> <matchers> <stages (C07X syntax)>` -/
def rangeX? : List String → Option (RangeAggX × List String)
  | kind :: fn :: lbl :: dur :: bp :: bs :: cm :: ms :: st :: rest => do
    let k ← if kind = "L" then (rangeFn? fn).map RangeKindX.lra
            else if kind = "U" then do some (RangeKindX.unwrap (← unwrapFn? fn) (← str? lbl))
            else if kind = "Q" then do some (RangeKindX.quantile (← numLit? fn) (← str? lbl)) else none
    let stages ← list? stageX? st
    let sp := splitPre stages
    some (⟨k, ⟨← list? matcher? ms, sp.1⟩, sp.2, ← dur.toNat?, ← grouping? bp, ← grouping? bs, ← cmp? cm⟩, rest)
  | _ => none

/-- `<range> <agg fn|-> <byPrefix> <bySuffix> <cmp> <topk: -|0|1> <k> <cmp>` -/
def queryX? (args : List String) : Option (MetricQueryX × List String) := do
  let (r, rest) ← rangeX? args
  match rest with
  | afn :: bp :: bs :: cm :: top :: k :: tcm :: rest' => do
    let agg ← if afn = "-" then some none else do some (some (⟨← aggFn? afn, ← grouping? bp, ← grouping? bs, ← cmp? cm⟩ : VecOp))
    let topk ← if top = "-" then some none else do some (some (⟨top = "1", ← k.toNat?, ← cmp? tcm⟩ : TopOp))
    some (⟨r, agg, topk⟩, rest')
  | _ => none

def handle : List String → Option String
  | "c08planx" :: args => do
    let (c, rest) ← mctx? args
    let (q, rest') ← queryX? rest
    if rest'.isEmpty then some (hexOut (renderSel (planMetricX c q))) else none
  | _ => none
end Driver.C08X
