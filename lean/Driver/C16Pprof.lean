import Qryn.Prof.PprofMerge
import Driver.C16
/-! Line protocol for the pprof payload merge of the C16 model.
    `c16pmerge profile*`  → the merged profile in the same encoding, or `err:nil-period-type` / `err:incompatible`
    `c16psan profile`     → `sanitizeProfile` of one profile
    profile = `strings|sampleTypes|periodType|samples|mappings|locations|functions|header`
      strings      `h1,h2,…`  hex of each string, `-` = empty string; the field `~` = no strings
      sampleTypes  `t.u,t.u,…` or `~`
      periodType   `t.u` or `~` (nil)
      samples      `locs.vals.labels/…` with locs `a:b:c` or `_`, vals `a:b` or `_`, labels `k:s:n:u+k:s:n:u` or `_`; `~` = none
      mappings     `id.start.limit.offset.filename.buildid.flags/…` or `~`
      locations    `id.mapping.address.folded.lines/…`, lines `fn:line:col+…` or `_`; `~` = none
      functions    `id.name.sysname.filename.startline/…` or `~`
      header       `dropFrames.keepFrames.timeNanos.durationNanos.period.defaultSampleType.comments`, comments `a:b` or `_` -/
namespace Driver.C16Pprof
open Qryn.Prof.Pprof

def splitOrEmpty (s : String) (sep : String) (empty : String) : List String :=
  if s = empty then [] else s.splitOn sep

def ints (s : String) : Option (List Int) := (splitOrEmpty s ":" "_").mapM String.toInt?
def nats (s : String) : Option (List Nat) := (splitOrEmpty s ":" "_").mapM String.toNat?

def parseVT (w : String) : Option VT :=
  match w.splitOn "." with
  | [a, b] => do pure ⟨← a.toInt?, ← b.toInt?⟩
  | _ => none

def parseLabel (w : String) : Option PLabel :=
  match w.splitOn ":" with
  | [a, b, c, d] => do pure ⟨← a.toInt?, ← b.toInt?, ← c.toInt?, ← d.toInt?⟩
  | _ => none

def parseSample (w : String) : Option PSample :=
  match w.splitOn "." with
  | [a, b, c] => do pure ⟨← nats a, ← ints b, ← (splitOrEmpty c "+" "_").mapM parseLabel⟩
  | _ => none

def parseMapping (w : String) : Option PMapping :=
  match w.splitOn "." with
  | [a, b, c, d, e, f, g] => do pure ⟨← a.toNat?, ← b.toNat?, ← c.toNat?, ← d.toNat?, ← e.toInt?, ← f.toInt?, ← g.toNat?⟩
  | _ => none

def parseLine (w : String) : Option PLine :=
  match w.splitOn ":" with
  | [a, b, c] => do pure ⟨← a.toNat?, ← b.toNat?, ← c.toInt?⟩
  | _ => none

def parseLocation (w : String) : Option PLocation :=
  match w.splitOn "." with
  | [a, b, c, d, e] => do pure ⟨← a.toNat?, ← b.toNat?, ← c.toNat?, ← (splitOrEmpty e "+" "_").mapM parseLine, d == "1"⟩
  | _ => none

def parseFunction (w : String) : Option PFunction :=
  match w.splitOn "." with
  | [a, b, c, d, e] => do pure ⟨← a.toNat?, ← b.toInt?, ← c.toInt?, ← d.toInt?, ← e.toInt?⟩
  | _ => none

def parseProfile (w : String) : Option PProfile :=
  match w.splitOn "|" with
  | [ss, sts, pt, sams, maps, locs, fns, hd] => do
    let strings := (splitOrEmpty ss "," "~").map (fun h => if h = "-" then "" else h)
    let sts ← (splitOrEmpty sts "," "~").mapM parseVT
    let pt ← if pt = "~" then some none else (parseVT pt).map some
    let sams ← (splitOrEmpty sams "/" "~").mapM parseSample
    let maps ← (splitOrEmpty maps "/" "~").mapM parseMapping
    let locs ← (splitOrEmpty locs "/" "~").mapM parseLocation
    let fns ← (splitOrEmpty fns "/" "~").mapM parseFunction
    match hd.splitOn "." with
    | [a, b, c, d, e, f, g] =>
      pure { strings := strings, sampleTypes := sts, periodType := pt, samples := sams, mappings := maps,
             locations := locs, functions := fns, dropFrames := ← a.toInt?, keepFrames := ← b.toInt?,
             timeNanos := ← c.toInt?, durationNanos := ← d.toInt?, period := ← e.toInt?,
             defaultSampleType := ← f.toInt?, comments := ← ints g }
    | _ => none
  | _ => none

def joinOr (sep empty : String) (xs : List String) : String := if xs.isEmpty then empty else sep.intercalate xs

def showVT (v : VT) : String := toString v.type ++ "." ++ toString v.unit
def showLabel (l : PLabel) : String := ":".intercalate [toString l.key, toString l.str, toString l.num, toString l.numUnit]
def showSample (s : PSample) : String :=
  joinOr ":" "_" (s.locs.map toString) ++ "." ++ joinOr ":" "_" (s.vals.map toString) ++ "." ++ joinOr "+" "_" (s.labels.map showLabel)
def showMapping (m : PMapping) : String :=
  ".".intercalate [toString m.id, toString m.start, toString m.limit, toString m.offset, toString m.filename, toString m.buildId, toString m.flags]
def showLine (l : PLine) : String := ":".intercalate [toString l.fn, toString l.line, toString l.column]
def showLocation (l : PLocation) : String :=
  ".".intercalate [toString l.id, toString l.mapping, toString l.address, if l.folded then "1" else "0", joinOr "+" "_" (l.lines.map showLine)]
def showFunction (f : PFunction) : String :=
  ".".intercalate [toString f.id, toString f.name, toString f.sysName, toString f.filename, toString f.startLine]

def showProfile (p : PProfile) : String :=
  "|".intercalate [
    joinOr "," "~" (p.strings.map (fun s => if s = "" then "-" else s)),
    joinOr "," "~" (p.sampleTypes.map showVT),
    (match p.periodType with | none => "~" | some v => showVT v),
    joinOr "/" "~" (p.samples.map showSample),
    joinOr "/" "~" (p.mappings.map showMapping),
    joinOr "/" "~" (p.locations.map showLocation),
    joinOr "/" "~" (p.functions.map showFunction),
    ".".intercalate [toString p.dropFrames, toString p.keepFrames, toString p.timeNanos, toString p.durationNanos,
      toString p.period, toString p.defaultSampleType, joinOr ":" "_" (p.comments.map toString)]]

def handle : List String → Option String
  | "c16pmerge" :: ps => do
    let ps ← ps.mapM parseProfile
    match mergeAll MState.empty ps with
    | .ok st => pure (showProfile (result st))
    | .error .nilPeriodType => pure "err:nil-period-type"
    | .error .incompatible => pure "err:incompatible"
  | ["c16psan", p] => do
    pure (showProfile (sanitize (← parseProfile p)))
  | _ => none
end Driver.C16Pprof
