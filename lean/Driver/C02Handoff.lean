import Qryn.Ingest.Handoff
import Qryn.Gen.ChunkReset
/-! Line protocol for the C02 hand-off machine (`Qryn.Ingest.Handoff`), reset behaviour from `Gen.ChunkReset`.

`c02handoff <ptype> <attempts> <op>;<op>;…` → `<sub>;<sub>;…#<chunks>#<push>;<push>;…`
  ops:   a:<field>:<grow 0|1>:<cells>   cur.F = append(cur.F, cells...)      g:<field>:<cells>   cur.F = cells
         f  flush      r  reset      s:<j>  push j calls Request      d:<j>:<0|1>  its promise fails / succeeds
  cells  `-` (none) or `1,2,3`
  sub    <id>/<chunk>/<field>=<cells>|<field>=<cells>…      push  <chunk>,<left>,<waiting>,<done>
`c02handoffcfg <ptype>` → `<newObj|sameObj> <field>=<fresh|reslice>,…` -/
namespace Driver.C02Handoff
open Qryn.Ingest.Handoff Qryn.Ingest.Batcher

def nat? (s : String) : Option Nat := s.toNat?

def cells? (s : String) : Option (List Nat) :=
  if s = "-" || s.isEmpty then some [] else (s.splitOn ",").mapM nat?

def bool? : String → Option Bool
  | "0" => some false | "1" => some true | _ => none

def ptype? : String → Option PType
  | "timeSamplesData" => some .timeSamplesData | "timeSeriesData" => some .timeSeriesData
  | "tempoSamples" => some .tempoSamples | "tempoTag" => some .tempoTag | "profileData" => some .profileData
  | _ => none

def op? (s : String) : Option HOp :=
  match s.splitOn ":" with
  | ["a", f, g, cs] => do pure (.append f (← cells? cs) (← bool? g))
  | ["g", f, cs] => do pure (.assign f (← cells? cs))
  | ["f"] => some .flush
  | ["r"] => some .reset
  | ["s", j] => do pure (.submit (← nat? j))
  | ["d", j, b] => do pure (.result (← nat? j) (← bool? b))
  | _ => none

def showCells (cs : List Nat) : String := if cs.isEmpty then "-" else ",".intercalate (cs.map toString)

def showRows (r : Rows) : String := "|".intercalate (r.map (fun p => p.1 ++ "=" ++ showCells p.2))

def b01 (b : Bool) : String := if b then "1" else "0"

def showRun (s : St) : String :=
  ";".intercalate (s.subs.map (fun sub => s!"{sub.id}/{sub.chunk}/{showRows sub.read}")) ++ "#" ++
  toString s.chunks.length ++ "#" ++
  ";".intercalate (s.pushes.map (fun p => s!"{p.chunk},{p.left},{b01 p.waiting},{b01 p.done}"))

def showCfg (c : Cfg) : String :=
  (match c.obj with | .newObj => "newObj" | .sameObj => "sameObj") ++ " " ++
  ",".intercalate (c.fields.map (fun p => p.1 ++ "=" ++ (match p.2 with | .fresh => "fresh" | .reslice => "reslice")))

def handle : List String → Option String
  | ["c02handoff", pt, attempts, ops] => do
    let pt ← ptype? pt; let a ← nat? attempts
    let ops ← (ops.splitOn ";").mapM op?
    pure (showRun (run (Qryn.Gen.ChunkReset.cfgOf pt) a ops))
  | ["c02handoffcfg", pt] => do
    let pt ← ptype? pt
    pure (showCfg (Qryn.Gen.ChunkReset.cfgOf pt))
  | _ => none
end Driver.C02Handoff
