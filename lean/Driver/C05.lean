import Qryn.Ingest.Faults
import Qryn.Ingest.PreRequest
import Qryn.Ingest.IngestParams
import Qryn.Base.Bytes
/-! Line protocol for C05.
    `c05ingest <fixes: 0 = pinned | 1 = fixed> <route 0..10> <encoding 0..3> <tree tokens…>` → `s<status>|crash|hang r<0|1>`
      (outcome, and whether the shared columns are rectangular afterwards, starting from empty ones)
    `c05stale` → `-` or `key|group,key|group,…` (functions whose body hash differs from the placement's)
    `c05pre <route 0..10> <Content-Encoding hex|-> <bodyLen> <bodyHead hex|-> <gzipHeaderOk 0|1> <streamLen>
            <streamHead hex|-> <streamEof 0|1> <decodeOk 0|1> <decodedLen> <streamIsDoc 0|1> <decodedIsDoc 0|1> <tree…>`
      the pre-request chain (`Qryn.PreRequest.preRequest`) composed with `ingest`: the results of the third-party
      calls on THIS request are the arguments (gzip/snappy-framing stream over the body: length, first bytes, how it
      ends; `snappy.Decode` of the buffered stream: ok?, length); the block header is parsed by the model itself
      (`refDecodedLen` on the first bytes). `…IsDoc`: those bytes are the document `tree` (1) or do not unmarshal (0).
      → `reject|asSent|decoded s<status> alloc=<bytes> dec=<bytes Decode allocates>`
    `c05limit` → the limit of withUnsnappyRequest as generated (`Gen.PreRequest.unsnappyLimit`)
    `c05declen <hex|->` → `ok <n>` | `err` (`refDecodedLen`, compared with `snappy.DecodedLen`)
    `c05ttl <X-Ttl-Days hex|->` → the TTL the overall middleware stores (`IngestParams.ttlDays`)
    `c05async <X-Async-Insert hex|->` → the insert mode it stores (`IngestParams.asyncMode`)
    `c05head <handler constructor> <Content-Encoding known 0|1> <Content-Type hex|-> <precision hex|-> <from hex|->
             <name hex|-> <until hex|->` → `reject <status>` | `parser <key hex|->` (`IngestParams.headOf`)
    (header values are valid UTF-8 in these three ops)
    A document is a tree of naturals written with `(` `)` as separate tokens. -/
namespace Driver.C05
open Qryn.IngestFaults

inductive Tree | n (v : Nat) | l (xs : List Tree)

/-- parse one tree from the tokens; fuel = number of tokens -/
def parseTree : Nat → List String → Option (Tree × List String)
  | 0, _ => none
  | fuel + 1, toks =>
    match toks with
    | "(" :: rest => parseList fuel rest []
    | t :: rest => (t.toNat?).map (fun v => (Tree.n v, rest))
    | [] => none
where
  parseList : Nat → List String → List Tree → Option (Tree × List String)
    | 0, _, _ => none
    | fuel + 1, toks, acc =>
      match toks with
      | ")" :: rest => some (Tree.l acc.reverse, rest)
      | "(" :: rest =>
        match parseList fuel rest [] with
        | some (t, rest') => parseList fuel rest' (t :: acc)
        | none => none
      | t :: rest =>
        match t.toNat? with
        | some v => parseList fuel rest (Tree.n v :: acc)
        | none => none
      | [] => none

def nat? : Tree → Option Nat | .n v => some v | _ => none
def bool? : Tree → Option Bool | .n 0 => some false | .n 1 => some true | _ => none
def list? : Tree → Option (List Tree) | .l xs => some xs | _ => none

def label? : Tree → Option LabelShape
  | .l [.n 0, .n k] => some (.pairs k)
  | .l [.n 1] => some .unknownInput
  | .l [.n 2] => some .badQuote
  | _ => none

def entry? : Tree → Option EntryShape
  | .l [.n 0, a, b, .n len] => do some (.good (← bool? a) (← bool? b) len)
  | .l [.n 1] => some .bad
  | _ => none

def lokiStream? : Tree → Option LokiStream
  | .l [lab, .l es] => do some ⟨← label? lab, ← es.mapM entry?⟩
  | _ => none

def protoStream? : Tree → Option (LabelShape × Nat)
  | .l [lab, .n k] => do some (← label? lab, k)
  | _ => none

def fieldKind? : Nat → Option FieldKind
  | 1 => some .str | 2 => some .int | 3 => some .float | 4 => some .other | 5 => some .uint | _ => none

def influxLine? : Tree → Option InfluxLine
  | .l [.n 0] => some .bad
  | .l [.n 2] => some .danglingEscape
  | .l (.n 1 :: .n m :: others) => do
    let os ← others.mapM (fun t => do fieldKind? (← nat? t))
    if m = 0 then some (.point none os) else some (.point (some (← fieldKind? m)) os)
  | _ => none

partial def anyv? : Tree → Option AnyV
  | .n 0 => some .absent
  | .n 1 => some .scalar
  | .l (.n 2 :: xs) => do some (.arr (← xs.mapM anyv?))
  | .l (.n 3 :: xs) => do some (.kvl (← xs.mapM anyv?))
  | _ => none

def optAttrs? : Tree → Option (Option (List AnyV))
  | .l [.n 0] => some none
  | .l (.n 1 :: xs) => do some (some (← xs.mapM anyv?))
  | _ => none

def scopeLogs? : Tree → Option OtlpScopeLogs
  | .l [sc, .l recs] => do
    some ⟨← optAttrs? sc, ← recs.mapM (fun r => do (← list? r).mapM anyv?)⟩
  | _ => none

def resourceLogs? : Tree → Option OtlpResourceLogs
  | .l [res, .l scopes] => do some ⟨← optAttrs? res, ← scopes.mapM scopeLogs?⟩
  | _ => none

def bulkLine? : Tree → Option BulkLine
  | .n 0 => some .bad | .n 1 => some .empty | .l [.n 2, .n k] => some (.create k) | .n 3 => some .del
  | .n 4 => some .plain | _ => none

def idShape? : Nat → Option IdShape
  | 0 => some .missing | 1 => some .zero | 2 => some .badHex | 3 => some .ok | _ => none

def zspan? : Tree → Option ZSpan
  | .n 0 => some .notObject
  | .n 1 => some .bad
  | .l [.n 2, .n t, .n s, .n tags, .n size] => do some (.span (← idShape? t) (← idShape? s) tags size)
  | _ => none

def okv? : Tree → Option OKV
  | .l [.n k, v, st] => do some ⟨k, ← anyv? v, ← bool? st⟩
  | _ => none

def optKvs? : Tree → Option (Option (List OKV))
  | .l [.n 0] => some none
  | .l (.n 1 :: xs) => do some (some (← xs.mapM okv?))
  | _ => none

def ospan? : Tree → Option OSpan
  | .l [.n t, .n s, .l kvs] => do some ⟨t, s, ← kvs.mapM okv?⟩
  | _ => none

def resourceSpans? : Tree → Option OtlpResourceSpans
  | .l [res, .l scopes] => do
    some ⟨← optKvs? res, ← scopes.mapM (fun sc => do (← list? sc).mapM ospan?)⟩
  | _ => none

def optNat? : Tree → Option (Option (Option Nat))
  | .n 0 => some none
  | .n 1 => some (some none)
  | .l [.n 2, .n v] => some (some (some v))
  | _ => none

def profName? : Tree → Option (Option ProfName)
  | .n 0 => some none
  | .l [.n 1, .n pre] => some (some ⟨pre, none⟩)
  | .l (.n 2 :: .n pre :: cs) => do some (some ⟨pre, some (← cs.mapM nat?)⟩)
  | _ => none

def psample? : Tree → Option PSample
  | .l [.n vals, .l locs] => do some ⟨vals, ← locs.mapM (fun l => do (← list? l).mapM bool?)⟩
  | _ => none

def rawProfile? : Tree → Option RawProfile
  | .l [.n types, pt, .n typeBytes, .l samples] => do some ⟨types, ← bool? pt, ← samples.mapM psample?, typeBytes⟩
  | _ => none

def body? : Tree → Option Body
  | .l [.n 0, t, .l ss] => do some (.lokiJson (← ss.mapM lokiStream?) (← bool? t))
  | .l [.n 1, ok, .l ss] => do some (.lokiProto (← bool? ok) (← ss.mapM protoStream?))
  | .l [.n 2, ok, .l ls] => do some (.influx (← bool? ok) (← ls.mapM influxLine?))
  | .l [.n 3, ok, .l rs] => do some (.otlpLogs (← bool? ok) (← rs.mapM resourceLogs?))
  | .l [.n 4, ok, .l ns] => do some (.promWrite (← bool? ok) (← ns.mapM nat?))
  | .l [.n 5, hasId] => do some (.elasticDoc (← bool? hasId))
  | .l [.n 6, .l ls] => do some (.elasticBulk (← ls.mapM bulkLine?))
  | .l [.n 7, t, .l ss] => do some (.zipkin (← ss.mapM zspan?) (← bool? t))
  | .l [.n 8, ok, .l rs] => do some (.otlpTraces (← bool? ok) (← rs.mapM resourceSpans?))
  | .l [.n 9, ct, f, u, nm, mp, bok, prof] => do
    some (.profile (← bool? ct) ⟨← optNat? f, ← optNat? u, ← profName? nm, ← bool? mp, ← bool? bok, ← rawProfile? prof⟩)
  | .l [.n 10] => some .garbage
  | _ => none

def route? : Nat → Option Route
  | 0 => some .lokiJson | 1 => some .lokiProto | 2 => some .influx | 3 => some .otlpLogs | 4 => some .promWrite
  | 5 => some .elasticDoc | 6 => some .elasticBulk | 7 => some .zipkinJson | 8 => some .zipkinNd
  | 9 => some .otlpTraces | 10 => some .profile | _ => none

def enc? : Nat → Option Encoding
  | 0 => some .plain | 1 => some .gzipOk | 2 => some .gzipBadHeader | 3 => some .unsupported | _ => none

def showOutcome : Outcome → String
  | .status n => "s" ++ toString n
  | .crash => "crash"
  | .hang => "hang"

/-- a byte buffer as the driver sees it: length and first bytes -/
structure Buf where
  len : Nat
  head : List UInt8

def bit? : String → Option Bool | "0" => some false | "1" => some true | _ => none

def garbageBody : Route → Body
  | .lokiProto => .lokiProto false []
  | .promWrite => .promWrite false []
  | .otlpTraces => .otlpTraces false []
  | .otlpLogs => .otlpLogs false []
  | _ => .garbage

def kindOf : Route → Qryn.PreRequest.Kind
  | .promWrite => .unsnappy
  | .lokiProto => .unsnappy
  | .otlpTraces => .buffered
  | _ => .streamed

def pre (route : Route) (ce : String) (body stream : Buf) (gzOk eof decOk : Bool) (decLen : Nat)
    (streamIsDoc decodedIsDoc : Bool) (doc : Body) : String :=
  let L : Qryn.PreRequest.Lib Buf := {
    len := (·.len)
    decodedLen := fun b => Qryn.PreRequest.refDecodedLen b.head
    decode := fun b =>
      match Qryn.PreRequest.refDecodedLen b.head with
      | .error e => .error e
      | .ok _ => if decOk then .ok ⟨decLen, []⟩ else .error .corrupt
    gzipHeaderOk := fun _ => gzOk
    gunzip := fun _ => ⟨stream, eof⟩
    unframe := fun _ => ⟨stream, eof⟩ }
  let res := Qryn.PreRequest.preRequest L (kindOf route) ce body
  let dec := match (kindOf route), Qryn.PreRequest.contentEncoding L ce body with
    | .unsnappy, .ok s => if s.eof then (Qryn.PreRequest.unsnappy L s.data).alloc else 0
    | _, _ => 0
  let tail := " alloc=" ++ toString res.alloc ++ " dec=" ++ toString dec
  match res.outcome with
  | .reject st => "reject s" ++ toString st ++ tail
  | .parser s src =>
    let isDoc := match src with | .asSent => streamIsDoc | .decoded => decodedIsDoc
    let b := if isDoc then doc else garbageBody route
    let st := if s.eof then showOutcome (ingestFull fixed flushThreshold ⟨true⟩ route ⟨.plain, b⟩ .empty).1 else "s?"
    (match src with | .asSent => "asSent " | .decoded => "decoded ") ++ st ++ tail

/-- a header / query value: hex of valid UTF-8 -/
def str? (hx : String) : Option String := do
  String.fromUTF8? (ByteArray.mk (← Qryn.ofHex hx).toArray)

def handle : List String → Option String
  | "c05pre" :: r :: ce :: bl :: bh :: gz :: sl :: shd :: eof :: dok :: dl :: sd :: dd :: toks => do
    let route ← route? (← r.toNat?)
    let ceB ← Qryn.ofHex ce
    let ceS ← String.fromUTF8? (ByteArray.mk ceB.toArray)
    let (t, rest) ← parseTree (toks.length + 1) toks
    if !rest.isEmpty then none
    let doc ← body? t
    some (pre route ceS ⟨← bl.toNat?, ← Qryn.ofHex bh⟩ ⟨← sl.toNat?, ← Qryn.ofHex shd⟩ (← bit? gz) (← bit? eof)
      (← bit? dok) (← dl.toNat?) (← bit? sd) (← bit? dd) doc)
  | ["c05ttl", hx] => do some (toString (Qryn.IngestParams.ttlDays (← str? hx)))
  | ["c05async", hx] => do some (toString (Qryn.IngestParams.asyncMode (← str? hx)))
  | ["c05head", handler, ce, ct, prec, fromV, nameV, untilV] => do
    let ctS ← str? ct
    let p ← str? prec
    let f ← str? fromV
    let n ← str? nameV
    let u ← str? untilV
    let q : String → String := fun k => if k == "precision" then p else if k == "from" then f else if k == "name" then n
      else if k == "until" then u else ""
    match Qryn.IngestParams.headOf handler (← bit? ce) ctS q with
    | .reject st => some s!"reject {st}"
    | .parser k => some s!"parser {Qryn.hexOut k.toUTF8.toList}"
  | ["c05limit"] => some (toString Qryn.Gen.PreRequest.unsnappyLimit)
  | ["c05declen", hx] => do
    match Qryn.PreRequest.refDecodedLen (← Qryn.ofHex hx) with
    | .ok n => some ("ok " ++ toString n)
    | .error _ => some "err"
  | "c05ingest" :: fx :: r :: e :: toks => do
    let fixes ← (match fx with | "0" => some pinned | "1" => some fixed | _ => none)
    let route ← route? (← r.toNat?)
    let enc ← enc? (← e.toNat?)
    let (t, rest) ← parseTree (toks.length + 1) toks
    if !rest.isEmpty then none
    let body ← body? t
    let res := ingestFull fixes flushThreshold ⟨true⟩ route ⟨enc, body⟩ .empty
    some (showOutcome res.1 ++ " r" ++ (if res.2.rect then "1" else "0"))
  | ["c05stale"] =>
    some (match stalePlacements with
      | [] => "-"
      | xs => ",".intercalate (xs.map (fun p => p.1 ++ "|" ++ p.2)))
  | _ => none

end Driver.C05
