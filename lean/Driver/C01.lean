import Qryn.Ingest.Batcher
import Qryn.Ingest.PromDecoder
import Qryn.Ingest.ErrorHandler
import Qryn.Ingest.PromiseModel
import Qryn.Base.Bytes
/-! Line protocol for C01/C02: one *scenario* per line (the batcher is stateful, the driver is not).

`c01run <kind> <maxQueue> <svcNum> <op>;<op>;…` → `<event>;<event>;…#<state of each sub-service>`
  ops:    q:<mode>:<pick>:<id>:<ptype>:<size>:<arrays>:<scalars>   Multimodal.Request
          t:<i>  c:<i>:<0|1>  w:<i>  d:<i>:<0|1>  p:<i>:<0|1>  s:<i>   inside sub-service i
          f                                                            Multimodal.PlanFlush
  arrays  `-` or `Field=1,2,3|Field=` ; scalars `-` or `Field=7|…`
  events: r:<id>:<ok|err>   i:<ok|err>:<col=v,v|col=…>   x (crash)
`c01push <attempts> <hasReq> <hasSvc> <outcomes 0/1 …>` → `<ok|err> <attempts made>`
`c01parse <attempts> <chunk>;<chunk>…` chunk = `E` or pushes `hasReq,hasSvc,outcomes|…` → `success|failure`
`c01retrytext <hex,hex,…|none>` → hex of retry-go's `Error.Error()` for these per-attempt texts
`c01classify <errval> ` errval = `u/<hex>` untyped, `m<code>/<hex>` *UnMarshalError, `q<code>/<hex>` *QrynError → `silent|status n|fault`
`c01answer <attempts> <okStatus> <pre> <chunks>` pre = `-` or errval; chunks `-` or `;`-separated: `E:<errval>` or pushes
          `hasReq,hasSvc,<att>.<att>…|…` with att = `o` (ok) `f<hex>` (failed with this text) `p<hex>` (panicked) → `silent|status n|fault`
`c01promise <thread,thread,…> <sched>` thread = `d<res>.<err>` (a Done call) | `g` (a Get call); sched = `seq` (every goroutine runs to
          completion, in order) or comma-separated goroutine indices, one per statement → `ok|fault` then per Get `r/e` or `blocked`
`c02prom <limit> <byBuffer 0/1> <points> <len,len,…>` → calls `rows/types;…` for series of the given lengths -/
namespace Driver.C01
open Qryn.Ingest.Batcher Qryn.Ingest

def nat? (s : String) : Option Nat := s.toNat?

def natList? (s : String) : Option (List Nat) :=
  if s.isEmpty then some [] else (s.splitOn ",").mapM nat?

def kind? : String → Option Kind
  | "samples" => some .samples | "timeSeries" => some .timeSeries | "metrics" => some .metrics
  | "tempoSamples" => some .tempoSamples | "tempoTags" => some .tempoTags | "profile" => some .profile
  | _ => none

def ptype? : String → Option PType
  | "timeSamplesData" => some .timeSamplesData | "timeSeriesData" => some .timeSeriesData
  | "tempoSamples" => some .tempoSamples | "tempoTag" => some .tempoTag | "profileData" => some .profileData
  | _ => none

def mode? : String → Option Mode
  | "default" => some .default | "sync" => some .sync | "async" => some .async | _ => none

def bool? : String → Option Bool
  | "0" => some false | "1" => some true | _ => none

def arrays? (s : String) : Option (List (String × List Cell)) :=
  if s = "-" then some [] else
  (s.splitOn "|").mapM (fun kv => match kv.splitOn "=" with
    | [k, v] => (natList? v).map (fun l => (k, l))
    | _ => none)

def scalars? (s : String) : Option (List (String × Cell)) :=
  if s = "-" then some [] else
  (s.splitOn "|").mapM (fun kv => match kv.splitOn "=" with
    | [k, v] => (nat? v).map (fun n => (k, n))
    | _ => none)

def outcomeOf (b : Bool) : Outcome := if b then .ok else .err

def op? (s : String) : Option SysOp :=
  match s.splitOn ":" with
  | ["q", m, pick, id, pt, size, arrs, scs] => do
    let m ← mode? m; let pick ← nat? pick; let id ← nat? id; let pt ← ptype? pt; let size ← nat? size
    let arrs ← arrays? arrs; let scs ← scalars? scs
    pure (.request m pick { id := id, ptype := pt, arrays := arrs, scalars := scs, size := size })
  | ["t", i] => do pure (.sub (← nat? i) (.trigger .forced))
  | ["c", i, b] => do pure (.sub (← nat? i) (.connect (← bool? b)))
  | ["w", i] => do pure (.sub (← nat? i) .swap)
  | ["d", i, b] => do pure (.sub (← nat? i) (.doResult (outcomeOf (← bool? b))))
  | ["p", i, b] => do pure (.sub (← nat? i) (.ping (← bool? b)))
  | ["s", i] => do pure (.sub (← nat? i) .stop)
  | ["f"] => some .planFlush
  | _ => none

def showOutcome : Outcome → String | .ok => "ok" | .err => "err"

def showCols (cs : Columns) : String :=
  "|".intercalate (cs.map (fun (c : Col) => c.1 ++ "=" ++ ",".intercalate (c.2.map toString)))

def showEvent : Event → String
  | .resolved id o => s!"r:{id}:{showOutcome o}"
  | .insert b _ o => s!"i:{showOutcome o}:{showCols b}"
  | .crash => "x"

def b01 (b : Bool) : String := if b then "1" else "0"

def showState (s : Svc) : String :=
  let rows := match s.cols with
    | none => "nil"
    | some cs => ".".intercalate (cs.map (fun (c : Col) => toString c.2.length))
  s!"{s.pending.length},{s.size},{b01 s.client},{b01 s.running},{b01 s.flushPlanned},{b01 s.inflight.isSome},{rows}"

def runScenario (k : Kind) (mq n : Nat) (ops : List SysOp) : String :=
  let r := (Multi.init (planOf k) mq n).run ops
  let evs := ";".intercalate (r.2.map showEvent)
  if r.1.subs.any (·.crashed) then evs ++ "#crashed"
  else evs ++ "#" ++ ";".intercalate (r.1.subs.map showState)

def outFn (outs : List Bool) (k : Nat) : Outcome := outcomeOf (outs.getD k false)

def push? (s : String) : Option Push :=
  match s.splitOn "," with
  | [r, v, outs] => do
    let r ← bool? r; let v ← bool? v
    let outs ← (outs.toList.map (fun c => String.singleton c)).mapM bool?
    pure ⟨r, v, outFn outs⟩
  | _ => none

def chunk? (s : String) : Option Chunk :=
  if s = "E" then some .error else ((s.splitOn "|").mapM push?).map .response

def showStatus : List Status → String
  | [.success] => "success" | [.failure] => "failure" | _ => "malformed"


/-! ### ErrorHandler -/
section eh
open Qryn.Ingest.ErrorHandler

def errval? (s : String) : Option ErrVal :=
  match s.splitOn "/" with
  | [k, hx] => do
    let t ← Qryn.ofHex hx
    if k = "u" then pure { as := [], text := t }
    else if k.startsWith "m" then do
      let c ← (k.drop 1).toNat?
      pure { as := [("*customErrors.UnMarshalError", c), ("customErrors.IQrynError", c)], text := t }
    else if k.startsWith "q" then do
      let c ← (k.drop 1).toNat?
      pure { as := [("customErrors.IQrynError", c)], text := t }
    else none
  | _ => none

def attempt? (s : String) : Option Attempt :=
  if s = "o" then some .ok
  else if s.startsWith "f" then (Qryn.ofHex (s.drop 1).toString).map .fail
  else if s.startsWith "p" then (Qryn.ofHex (s.drop 1).toString).map .panic
  else none

def pushT? (s : String) : Option PushT :=
  match s.splitOn "," with
  | [r, v, outs] => do
    let r ← bool? r; let v ← bool? v
    let outs ← if outs = "" then some [] else (outs.splitOn ".").mapM attempt?
    pure ⟨r, v, fun k => outs.getD k (.fail [])⟩
  | _ => none

def chunkT? (s : String) : Option ChunkT :=
  if s.startsWith "E:" then (errval? (s.drop 2).toString).map .error
  else ((s.splitOn "|").mapM pushT?).map .response

def showAnswer : Answer → String
  | .silent => "silent" | .status c => s!"status {c}" | .fault => "fault"

def handleEH : List String → Option String
  | ["c01retrytext", ts] => do
    let errs ← if ts = "none" then some [] else (ts.splitOn ",").mapM Qryn.ofHex
    pure (Qryn.hexOut (retryText retryFmt errs))
  | ["c01classify", ev] => do
    let e ← errval? ev
    pure (showAnswer (classify rules e))
  | ["c01answer", attempts, okStatus, pre, chunks] => do
    let a ← nat? attempts; let ok ← nat? okStatus
    let pre ← if pre = "-" then some none else (errval? pre).map some
    let cs ← if chunks = "-" then some [] else (chunks.splitOn ";").mapM chunkT?
    pure (showAnswer (handlerT rules retryFmt a pre ok cs))
  | _ => none
end eh

/-! ### promise.Promise -/
section pm
open Qryn.Ingest.PromiseModel

def th? (s : String) : Option Th :=
  if s = "g" then some (.get .wait 0 0)
  else if s.startsWith "d" then
    match (s.drop 1).toString.splitOn "." with
    | [r, e] => do pure (.done (← nat? r) (← nat? e) .cas)
    | _ => none
  else none

def showTh : Th → Option String
  | .get .ret r e => some s!"{r}/{e}"
  | .get _ _ _ => some "blocked"
  | .done _ _ _ => none

def handlePM : List String → Option String
  | ["c01promise", ths, sched] => do
    let ths ← (ths.splitOn ",").mapM th?
    let sched ← if sched = "seq" then some ((List.range ths.length).flatMap (fun i => List.replicate 4 i))
                else (sched.splitOn ",").mapM nat?
    let s := Qryn.Ingest.PromiseModel.run (init ths) sched
    pure (" ".intercalate ((if s.c.fault then "fault" else "ok") :: s.ths.filterMap showTh))
  | _ => none
end pm

def handle : List String → Option String
  | ["c01run", k, mq, n, ops] => do
    let k ← kind? k; let mq ← nat? mq; let n ← nat? n
    let ops ← (ops.splitOn ";").mapM op?
    pure (runScenario k mq n ops)
  | ["c01run", k, mq, n] => do
    let k ← kind? k; let mq ← nat? mq; let n ← nat? n
    pure (runScenario k mq n [])
  | ["c01push", attempts, r, v, outs] => do
    let a ← nat? attempts; let r ← bool? r; let v ← bool? v
    let outs ← (outs.toList.map (fun c => String.singleton c)).mapM bool?
    let res := doPush a ⟨r, v, outFn outs⟩
    pure s!"{showOutcome res.1} {res.2}"
  | ["c01parse", attempts, pre, chunks] => do
    let a ← nat? attempts; let pre ← bool? pre
    let cs ← if chunks = "-" then some [] else (chunks.splitOn ";").mapM chunk?
    pure (showStatus (handler a pre cs))
  | ["c02prom", limit, bb, points, lens] => do
    let limit ← nat? limit; let bb ← bool? bb; let points ← nat? points; let lens ← natList? lens
    let series := lens.map (fun n => List.range n)
    let calls := PromDecoder.decode limit bb series points
    pure (if calls.isEmpty then "-" else ";".intercalate (calls.map (fun c => s!"{c.rows.length}/{c.types}")))
  | ["c02promsum", limit, bb, points, lens] => do
    let limit ← nat? limit; let bb ← bool? bb; let points ← nat? points; let lens ← natList? lens
    let series := lens.map (fun n => List.range n)
    let calls := PromDecoder.decode limit bb series points
    pure s!"{(calls.map (fun c => c.rows.length)).sum} {(calls.map (·.types)).sum} {calls.length}"
  | ws => (handleEH ws).orElse (fun _ => handlePM ws)
end Driver.C01
