import Qryn.Prof.Tree
/-! Line protocol for the C16 model (profile call trees).
    `c16nid p f d`                      → getNodeId
    `c16rows keep ntypes sample*`       → stored rows (keep = 1: a stackless sample is walked as one n/a frame), `p,f,n,s0,t0,s1,t1,…` per row, descending node id
                                          sample = `locs:vals` (comma lists, `-` = empty), locs leaf first
    `c16sums ntypes sample*`            → per-type value sums (values_agg)
    `c16flame fns row*`                 → `tree;levels;total;maxself` for MergeTrie+BFS over the rows
                                          fns = comma list of function ids in table order, row = `p,f,n,self,total` -/
namespace Driver.C16
open Qryn.Prof

def commaNats (s : String) : Option (List Nat) :=
  if s = "-" then some [] else (s.splitOn ",").mapM String.toNat?

def commaInts (s : String) : Option (List Int) :=
  if s = "-" then some [] else (s.splitOn ",").mapM String.toInt?

def parseSample (w : String) : Option Sample :=
  match w.splitOn ":" with
  | [a, b] => do
    let locs ← commaNats a
    let vals ← commaInts b
    pure ⟨locs, vals⟩
  | _ => none

def parseRow (w : String) : Option Row :=
  match w.splitOn "," with
  | [p, f, n, s, t] => do
    pure ⟨← p.toNat?, ← f.toNat?, ← n.toNat?, ← s.toInt?, ← t.toInt?⟩
  | _ => none

def join (sep : String) (xs : List String) : String := if xs.isEmpty then "-" else sep.intercalate xs

def showNode (n : Node) : String :=
  ",".intercalate ([toString n.parent, toString n.fn, toString n.node] ++ n.vals.flatMap (fun st => [toString st.1, toString st.2]))

def showRow (r : Row) : String :=
  ",".intercalate [toString r.parent, toString r.fn, toString r.node, toString r.self, toString r.total]

def showLevel (vals : List Int) : String := join "," (vals.map toString)

def handle : List String → Option String
  | ["c16nid", p, f, d] => do
    pure (toString (getNodeId (← p.toNat?) (← f.toNat?) (← d.toNat?)))
  | "c16rows" :: keep :: nt :: ss => do
    let keep := keep == "1"
    let nt ← nt.toNat?
    let ss ← ss.mapM parseSample
    let rows := storedRows getNodeId keep Qryn.Gen.ProfTree.naFnId ⟨nt, ss⟩
    pure (join " " (rows.map showNode))
  | "c16sums" :: nt :: ss => do
    let nt ← nt.toNat?
    let ss ← ss.mapM parseSample
    pure (join "," ((List.range nt).map (fun j => toString (valueSum ⟨nt, ss⟩ j))))
  | "c16flame" :: fns :: rs => do
    let fns ← commaNats fns
    let rows ← rs.mapM parseRow
    let T := mergeTrieCap Qryn.Gen.ProfTree.maxNodes [] 0 rows
    let names := mergeNames [] fns
    let lv := bfs T
    let tree := (T.mergeSort (fun a b => decide (a.parent ≤ b.parent))).map showRow
    let levels := match lv with
      | [] => []
      | _ :: rest => showLevel [0, rootTotal T, 0, 0] :: rest.map (fun l => showLevel (levelValues names l))
    pure (join " " tree ++ ";" ++ join " " levels ++ ";" ++ toString (rootTotal T) ++ ";" ++ toString (maxSelf 0 rows))
  | _ => none
end Driver.C16
