import Driver.C07
import Driver.C00Sql
import Qryn.LogQL.Sem
import Qryn.Sql.Dump
/-! `c07sem`: evaluates (a) the statement the REAL planner built (reflection dump → `Sel`) and (b) the
    model's plan with `Sql.evalSel`, and (c) the direct reading `LogQL.evalLog`, on a small database, with
    the uninterpreted oracles (RE2, label documents, number parsing, case folding) given as finite tables
    computed by the Go side with the real libraries. Answers `ok` or the first difference. -/
namespace Driver.C07Sem
open Qryn Qryn.Sql Qryn.LogQL Driver.C07

def parts (s : String) (sep : String) : List String := if s = "-" then [] else s.splitOn sep

def ginRow? (s : String) : Option GinRow :=
  match s.splitOn ":" with
  | [d, k, v, tp, fp] => do some ⟨← ofHex d, ← ofHex k, ← ofHex v, ← tp.toInt?, ← fp.toInt?⟩
  | _ => none
def tsRow? (s : String) : Option TsRow :=
  match s.splitOn ":" with
  | [d, fp, l, tp] => do some ⟨← ofHex d, ← fp.toInt?, ← ofHex l, ← tp.toInt?⟩
  | _ => none
def sample? (s : String) : Option Sample :=
  match s.splitOn ":" with
  | [fp, ts, l, tp] => do some ⟨← fp.toInt?, ← ts.toInt?, ← ofHex l, ← tp.toInt?⟩
  | _ => none

structure Tables where
  re : List ((Bytes × Bytes) × Bool) := []
  js : List (Bytes × List (Bytes × Bytes)) := []
  num : List (Bytes × Bool) := []
  cmp : List ((String × Bytes × String) × Bool) := []
  low : List (Bytes × Bytes) := []

def Tables.oracles (t : Tables) : Oracles where
  reMatch p s := (t.re.lookup (p, s)).getD false
  jsonLabels d := (t.js.lookup d).getD []
  isNum s := (t.num.lookup s).getD false
  numCmp op s l := (t.cmp.lookup (op, s, l)).getD false
  lower s := (t.low.lookup s).getD s

def re? (s : String) : Option ((Bytes × Bytes) × Bool) :=
  match s.splitOn ":" with
  | [p, x, r] => do some ((← ofHex p, ← ofHex x), r = "1")
  | _ => none
def kv? (s : String) : Option (Bytes × Bytes) :=
  match s.splitOn "=" with
  | [k, v] => do some (← ofHex k, ← ofHex v)
  | _ => none
def js? (s : String) : Option (Bytes × List (Bytes × Bytes)) :=
  match s.splitOn ":" with
  | [d, kvs] => do some (← ofHex d, ← (parts kvs ",").mapM kv?)
  | _ => none
def num? (s : String) : Option (Bytes × Bool) :=
  match s.splitOn ":" with
  | [v, r] => do some (← ofHex v, r = "1")
  | _ => none
def cmp? (s : String) : Option ((String × Bytes × String) × Bool) :=
  match s.splitOn ":" with
  | [op, v, l, r] => do some ((← str? op, ← ofHex v, ← str? l), r = "1")
  | _ => none
def low? (s : String) : Option (Bytes × Bytes) :=
  match s.splitOn ":" with
  | [a, b] => do some (← ofHex a, ← ofHex b)
  | _ => none

def valStr : Val → String
  | .int i => "i" ++ toString i
  | .str s => "s" ++ hexOut s
  | .null => "null"
  | .map m => "m{" ++ ",".intercalate (m.map (fun (k, v) => hexOut k ++ "=" ++ hexOut v)) ++ "}"
  | .num s => "n" ++ hexOut s
  | .numLit s => "l" ++ s
  | _ => "?"
def rowStr (r : Row) : String := " ".intercalate (r.map (fun (k, v) => k ++ ":" ++ valStr v))

def firstDiff (a b : Table) (i : Nat := 0) : String :=
  match a, b with
  | [], [] => "ok"
  | x :: xs, y :: ys => if x == y then firstDiff xs ys (i + 1) else s!"row{i}:[{rowStr x}]vs[{rowStr y}]"
  | x :: _, [] => s!"row{i}:[{rowStr x}]vs-none"
  | [], y :: _ => s!"row{i}:none-vs[{rowStr y}]"

def handle : List String → Option String
  | "c07sem" :: args => do
    let (c, rest) ← ctx? args
    match rest with
    | [ms, st, gin, ts, smp, re, js, num, cmp, low, dump] => do
      let q : LogQuery := ⟨← list? matcher? ms, ← list? stage? st⟩
      let d : LokiDb := ⟨← (parts gin ";").mapM ginRow?, ← (parts ts ";").mapM tsRow?, ← (parts smp ";").mapM sample?⟩
      let t : Tables := ⟨← (parts re ";").mapM re?, ← (parts js ";").mapM js?, ← (parts num ";").mapM num?,
                         ← (parts cmp ";").mapM cmp?, ← (parts low ";").mapM low?⟩
      let o := t.oracles
      let spec := evalLog o c d q
      let modelT := evalSel o (d.toDb c) (planLog c q)
      let implT ← if dump = "-" then some modelT else do
        let txt ← Driver.C00Sql.dumpText dump
        (Dump.selOfDump txt).map (evalSel o (d.toDb c))
      some s!"impl:{firstDiff implT spec} model:{firstDiff modelT spec} rows:{spec.length}"
    | _ => none
  | _ => none
end Driver.C07Sem
