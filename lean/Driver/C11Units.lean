import Qryn.TraceQL.Units
import Qryn.TraceQL.ComplexHeap
/-! line protocol of the C11 extension c11y: duration literals (`c11dur`) and the pointer algorithm of `planComplex` (`c11heap`) -/
namespace Driver.C11Units
open Qryn Qryn.TraceQL

def digits? (s : String) : Option (List Nat) :=
  if s = "-" then some [] else s.toList.mapM (fun c => if c.isDigit then some (c.toNat - 48) else none)

def unit? : String → Option (Option TUnit)
  | "-" => some none
  | "ns" => some (some .ns) | "us" => some (some .us) | "ms" => some (some .ms) | "s" => some (some .s) | "m" => some (some .m)
  | "h" => some (some .h) | "d" => some (some .d) | _ => none

def sop? : String → Option ScriptOp
  | "and" => some .and | "or" => some .or | "none" => some .none | _ => none

def handle : List String → Option String
  | ["c11dur", neg, i, dot, f, u] => do
    let n : Num := ⟨neg = "1", ← digits? i, dot = "1", ← digits? f⟩
    match Units.goParseDuration n (← unit? u) with
    | .ok ns => some ("OK " ++ toString ns ++ " " ++ Units.f64Text ns)
    | .error .invalid => some "ERR invalid"
    | .error .missingUnit => some "ERR missing-unit"
    | .error .unknownUnit => some "ERR unknown-unit"
  | ["c11heap", ops] => do
    -- the operators written after each selector, e.g. `and,or,none`; selectors are opaque to planComplex
    let os ← (ops.splitOn ",").mapM sop?
    let script : Script := os.map (fun o => (⟨none, none⟩, o))
    some (ComplexHeap.shapeText (ComplexHeap.planShape script) ++ " " ++ ComplexHeap.shapeText (ComplexHeap.closedShape script))
  | _ => none
end Driver.C11Units
