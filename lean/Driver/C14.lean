import Qryn.LogQL.Process
import Driver.C07
namespace Driver.C14
open Qryn Qryn.Sql Qryn.LogQL Driver.C07

def ctxs? : Nat → List String → Option (List Ctx × List String)
  | 0, rest => some ([], rest)
  | n + 1, toks => do
    let (c, rest) ← ctx? toks
    let (cs, rest') ← ctxs? n rest
    some (c :: cs, rest')

def handle : List String → Option String
  | "c14run" :: n :: args => do
    let k ← n.toNat?
    let (cs, rest) ← ctxs? k args
    match rest with
    | [ms, st] => do
      let q : LogQuery := ⟨← list? matcher? ms, ← list? stage? st⟩
      some (",".intercalate ((runs {} q cs).map (fun s => hexOut (renderSel s))))
    | _ => none
  | _ => none
end Driver.C14
