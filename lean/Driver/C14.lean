import Qryn.LogQL.Process
import Driver.C07
import Driver.C11
import Driver.C08
import Qryn.LogQL.ProcessMetric
import Qryn.LogQL.ProcessFormat
import Qryn.TraceQL.Process
namespace Driver.C14
open Qryn Qryn.Sql Qryn.LogQL Driver.C07

def ctxs? : Nat → List String → Option (List Ctx × List String)
  | 0, rest => some ([], rest)
  | n + 1, toks => do
    let (c, rest) ← ctx? toks
    let (cs, rest') ← ctxs? n rest
    some (c :: cs, rest')

/-! ### TraceQL: one prepared plan processed k times -/
def tctxs? : Nat → List String → Option (List Qryn.TraceQL.Ctx × List String)
  | 0, rest => some ([], rest)
  | n + 1, toks => do
    let (c, rest) ← Driver.C11.ctx? toks
    let (cs, rest') ← tctxs? n rest
    some (c :: cs, rest')

/-- garbage in every field the theorems allow to hold anything (`isAliased` stays reset) -/
def garbageTree : Qryn.TraceQL.PTree → Qryn.TraceQL.PTree
  | .simple sc pfx _ _ =>
    .simple sc pfx ⟨[.raw "GARBAGE", .raw "MORE"], [.raw "GARBAGE"], false, "garbage"⟩ ⟨"424242.000000"⟩
  | .complex a k l r => .complex a k (garbageTree l) (garbageTree r)

/-- `runsT`, optionally putting garbage into the planner fields before every execution after the first -/
def runsTDirty (dirty : Bool) (p : Qryn.TraceQL.PTree) : List Qryn.TraceQL.Ctx → List (Qryn.TraceQL.PlanM Sel)
  | [] => []
  | c :: cs =>
    let r := Qryn.TraceQL.processPlan p c
    r.2 :: runsTDirty dirty (if dirty then garbageTree r.1 else r.1) cs

/-! ### LineFormatPlanner.ProcessTpl called k times on one object -/
def tplNode? (s : String) : Option TplNode :=
  match s.splitOn ":" with
  | ["T", h] => do some (.text (← ofHex h))
  | ["F", h] => do some (.field (← ofHex h))
  | _ => none

def tpl? (s : String) : Option (Option (List TplNode)) :=
  if s = "ERR" then some none
  else if s = "-" then some (some [])
  else do some (some (← (s.splitOn ";").mapM tplNode?))

def showFmt : Option (Bytes × List Bytes) → String
  | none => "ERR"
  | some (f, args) => hexOut f ++ ":" ++ (if args.isEmpty then "-" else ".".intercalate (args.map hexOut))

def garbageFmt : FmtState := ⟨[71, 65, 82, 66, 65, 71, 69], [[71], [77]]⟩

/-- `runsTpl processTpl`, optionally with garbage in the fields before every call after the first -/
def runsTplDirty (dirty : Bool) (st : FmtState) (tpl : Option (List TplNode)) : Nat → List (Option (Bytes × List Bytes))
  | 0 => []
  | n + 1 =>
    let r := processTpl st tpl
    (if r.2 then some r.1.out else none) :: runsTplDirty dirty (if dirty then garbageFmt else r.1) tpl n

/-! ### metric LogQL: one prepared plan processed k times -/
def mctxs? : Nat → List String → Option (List MCtx × List String)
  | 0, rest => some ([], rest)
  | n + 1, toks => do
    let (c, rest) ← Driver.C08.mctx? toks
    let (cs, rest') ← mctxs? n rest
    some (c :: cs, rest')

def handle : List String → Option String
  | ["c14fmt", dirty, n, t] => do
    let k ← n.toNat?
    let tpl ← tpl? t
    some (",".intercalate ((runsTplDirty (dirty = "1") {} tpl k).map showFmt))
  | "c14runm" :: n :: args => do
    let k ← n.toNat?
    let (cs, rest) ← mctxs? k args
    let (q, _) ← Driver.C08.query? rest
    some (",".intercalate ((runsMetric {} q cs).map (fun s => hexOut (renderSel s))))
  | "c14runt" :: dirty :: n :: args => do
    let k ← n.toNat?
    let (cs, rest) ← tctxs? k args
    match rest with
    | [sc] => do
      let script ← Driver.C11.parseScript sc
      match Qryn.TraceQL.prepare script with
      | .error _ => some (",".intercalate (cs.map (fun _ => "ERR")))
      | .ok p => some (",".intercalate ((runsTDirty (dirty = "1") p cs).map Driver.C11.out))
    | _ => none
  | "c14run" :: n :: args => do
    let k ← n.toNat?
    let (cs, rest) ← ctxs? k args
    match rest with
    | [ms, st] => do
      let q : LogQuery := ⟨← list? matcher? ms, ← list? stage? st⟩
      some (",".intercalate ((runs {} q cs).map (fun s => hexOut (renderSel s))))
    | _ => none
  | _ => none
end Driver.C14
