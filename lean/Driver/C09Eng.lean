import Driver.C07SemX
import Driver.C08
import Qryn.Read.EngineClass
/-! `c09rows`: the statement the REAL ClickHouse planner built (reflection dump → `Sel`), evaluated by the reference
    interpreter `Sql.evalSelX` (C07's semantics of the SQL subset, SELECT aliases visible) on a small database, with the
    oracles (RE2, label documents, number parsing, JSON path extraction, capture groups) given as finite tables the Go
    side computed with the real libraries. The rows come back as the ClickHouse getter would scan them
    (`fingerprint, labels, string, timestamp_ns`): the Go side feeds them to the real in-process stage and compares with the
    rows of the statement that contains the stage (`engines` stream of C09). -/
namespace Driver.C09Eng
open Qryn Qryn.Sql Qryn.LogQL Driver.C07 Driver.C07Sem Driver.C07X Driver.C07SemX

def labelsOut : Val → String
  | .map m => if m.isEmpty then "-" else "&".intercalate (m.map (fun (k, v) => hexOut k ++ "=" ++ hexOut v))
  | .null => "-"
  | _ => "?"

def intOut : Val → String
  | .int i => toString i
  | _ => "?"

def strOut : Val → String
  | .str s => hexOut s
  | _ => "?"

/-- one scanned row: `fp:labels:line:ts` -/
def rowOut (r : Row) : String :=
  intOut (r.get "fingerprint") ++ ":" ++ labelsOut (r.get "labels") ++ ":" ++ strOut (r.get "string") ++ ":" ++
    intOut (r.get "timestamp_ns")

def rows (args : List String) : Option String := do
  let (c, rest) ← ctx? args
  match rest with
  | [gin, ts, smp, re, js, num, cmp, low, jf, rc, dump] => do
    let d : LokiDb := ⟨← (parts gin ";").mapM ginRow?, ← (parts ts ";").mapM tsRow?, ← (parts smp ";").mapM sample?⟩
    let t : Tables := ⟨← (parts re ";").mapM re?, ← (parts js ";").mapM js?, ← (parts num ";").mapM num?,
                       ← (parts cmp ";").mapM cmp?, ← (parts low ";").mapM low?⟩
    let jft ← (parts jf ";").mapM jf?
    let rct ← (parts rc ";").mapM rc?
    let o : Oracles := { t.oracles with
      jsonField := fun l p => (jft.lookup (l, p)).getD [],
      reCaps := fun r l => (rct.lookup (r, l)).getD [],
      cityHash := polyHash }
    let txt ← Driver.C00Sql.dumpText dump
    match Dump.selOfDumpX txt with
    | none => some "dump-parse-error"
    | some sel =>
      let out := evalSelX o (d.toDb c) sel
      some ("rows " ++ (if out.isEmpty then "-" else ";".intercalate (out.map rowOut)))
  | _ => none

/-! ### metric queries (C08's model, oracles and database format): the matrix the statement of the whole query returns, and
    the log rows the statement of its selector returns when the script is handed over -/
def ratOut : Val → String
  | .rat q => s!"{q.num}/{q.den}"
  | .int i => s!"{i}/1"
  | _ => "?"

def fpOut : Val → String
  | .int i => toString i
  | .null => "null"
  | _ => "?"

/-- one matrix row: `fp:labels:ts:num/den` -/
def mrowOut (r : Row) : String :=
  fpOut (r.get "fingerprint") ++ ":" ++ labelsOut (r.get "labels") ++ ":" ++ intOut (r.get "timestamp_ns") ++ ":" ++
    ratOut (r.get "value")

def matrix (args : List String) : Option String := do
  let (c, rest) ← Driver.C08.mctx? args
  let (q, rest') ← Driver.C08.query? rest
  let d ← Driver.C08.db? rest'
  let plan := (evalSelA Driver.C08.oracles (d.toDbM c) (planMetric c q)).map normRow
  let sel := q.rangeAgg.sel
  let logRows := evalSelX Driver.C08.oracles (d.toDb c.toCtx) (planLogX c.toCtx false ⟨sel.matchers, sel.stages.map .fl⟩)
  some ("matrix " ++ (if plan.isEmpty then "-" else ";".intercalate (plan.map mrowOut)) ++ " rows " ++
    (if logRows.isEmpty then "-" else ";".intercalate (logRows.map rowOut)))

/-- the theorem class of a case of the `engines-metric` stream (`Read.engineClass`) -/
def klass (args : List String) : Option String := do
  let (c, rest) ← Driver.C08.mctx? args
  let (q, _) ← Driver.C08.query? rest
  some (Qryn.Read.engineClass c q)

def handle : List String → Option String
  | "c09class" :: args => klass args
  | "c09rows" :: args => rows args
  | "c09matrix" :: args => matrix args
  | _ => none
end Driver.C09Eng
