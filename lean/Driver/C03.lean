import Qryn.Ingest.Decode
/-! Line protocol for the C03 model:
    `c03 <proto> <ctxTtl> <now> <table> <doc>` → the chunk sequence `Body.run` produces with today's thresholds
    (`Gen.Thresholds`). `<table>` gives the values of the abstract `fp`/`encLen` on the (sorted) label sets of the
    document; `<doc>` is the decoded document as a nested list `(a,b,(c,d))`, atoms hex (`-` empty, `~` absent) or decimal. -/
namespace Driver.C03
open Qryn Qryn.Ingest

inductive Tree
  | atom (cs : List Char)
  | node (l : List Tree)

/-- iterative reader (no recursion depth in the length of the line) -/
partial def parseGo (cs : List Char) (cur : List Char) (stack : List (List Tree)) (done : Option Tree) : Option Tree :=
  match cs with
  | [] =>
    match done, stack, cur with
    | some t, [], [] => some t
    | none, [], _ :: _ => some (.atom cur.reverse)
    | _, _, _ => none
  | c :: rest =>
    if done.isSome then none
    else if c = '(' then
      if cur.isEmpty then parseGo rest [] ([] :: stack) none else none
    else if c = ',' || c = ')' then
      match stack with
      | [] => none
      | top :: below =>
        let top := if cur.isEmpty then top else Tree.atom cur.reverse :: top
        if c = ',' then parseGo rest [] (top :: below) none
        else
          let nd := Tree.node top.reverse
          match below with
          | [] => parseGo rest [] [] (some nd)
          | up :: more => parseGo rest [] ((nd :: up) :: more) none
    else parseGo rest (c :: cur) stack none

def parseTree (s : String) : Option Tree := parseGo s.toList [] [] none

def Tree.items : Tree → Option (List Tree)
  | .node l => some l
  | .atom _ => none

def Tree.hex : Tree → Option Bytes
  | .atom ['-'] => some []
  | .atom cs => ofHexChars cs
  | .node _ => none

def Tree.optHex : Tree → Option (Option Bytes)
  | .atom ['~'] => some none
  | t => t.hex.map some

def Tree.int : Tree → Option Int
  | .atom cs => (String.ofList cs).toInt?
  | .node _ => none

def Tree.nat : Tree → Option Nat
  | .atom cs => (String.ofList cs).toNat?
  | .node _ => none

def Tree.u64 (t : Tree) : Option UInt64 := t.nat.map UInt64.ofNat

def Tree.optU64 : Tree → Option (Option UInt64)
  | .atom ['~'] => some none
  | t => t.u64.map some

def Tree.list {α} (f : Tree → Option α) (t : Tree) : Option (List α) := do (← t.items).mapM f

def label? (t : Tree) : Option Label :=
  match t with
  | .node [k, v] => do some (← k.hex, ← v.hex)
  | _ => none

def labels? : Tree → Option Labels := Tree.list label?

/-! documents -/

def lokiEntry? : Tree → Option LokiEntry
  | .node [ts, line, val] => do some ⟨← ts.int, ← line.optHex, ← val.optU64⟩
  | _ => none
def lokiStream? : Tree → Option LokiStream
  | .node [ls, es] => do some ⟨← labels? ls, ← es.list lokiEntry?⟩
  | _ => none
def protoEntry? : Tree → Option ProtoEntry
  | .node [s, n, l] => do some ⟨← s.int, ← n.int, ← l.hex⟩
  | _ => none
def protoStream? : Tree → Option ProtoStream
  | .node [ls, es] => do some ⟨← labels? ls, ← es.list protoEntry?⟩
  | _ => none
def promSample? : Tree → Option PromSample
  | .node [t, v] => do some ⟨← t.int, ← v.u64⟩
  | _ => none
def promSeries? : Tree → Option PromSeries
  | .node [ls, es] => do some ⟨← labels? ls, ← es.list promSample?⟩
  | _ => none
def influxField? : Tree → Option (Bytes × Option UInt64)
  | .node [k, v] => do some (← k.hex, ← v.optU64)
  | _ => none
def influxPoint? : Tree → Option InfluxPoint
  | .node [name, tags, ts, .atom ['L'], line] => do some ⟨← name.hex, ← labels? tags, ← ts.int, .log (← line.hex)⟩
  | .node [name, tags, ts, .atom ['M'], fs] => do some ⟨← name.hex, ← labels? tags, ← ts.int, .metric (← fs.list influxField?)⟩
  | _ => none
def ddLog? : Tree → Option DDLog
  | .node [tags, src, svc, host, st, msg, ts] => do
    some ⟨← labels? tags, ← src.hex, ← svc.hex, ← host.hex, ← st.hex, ← msg.hex, ← ts.int⟩
  | _ => none
def ddPoint? : Tree → Option DDPoint
  | .node [t, v] => do some ⟨← t.int, ← v.u64⟩
  | _ => none
def ddSeries? : Tree → Option DDSeriesItem
  | .node [m, rs, ps] => do some ⟨← m.optHex, ← rs.list labels?, ← ps.list ddPoint?⟩
  | _ => none
def otlpRec? : Tree → Option OtlpRecord
  | .node [attrs, sev, body, ts] => do some ⟨← labels? attrs, ← sev.hex, ← body.hex, ← ts.nat⟩
  | _ => none
def otlpScope? : Tree → Option OtlpScope
  | .node [attrs, recs] => do some ⟨← labels? attrs, ← recs.list otlpRec?⟩
  | _ => none
def otlpRes? : Tree → Option OtlpResource
  | .node [attrs, scopes] => do some ⟨← labels? attrs, ← scopes.list otlpScope?⟩
  | _ => none

def body? (proto : String) (t : Tree) : Option Body :=
  match proto with
  | "loki" => (t.list lokiStream?).map .loki
  | "lokiproto" => (t.list protoStream?).map .lokiProto
  | "prom" => (t.list promSeries?).map .prom
  | "influx" => (t.list influxPoint?).map .influx
  | "ddlogs" => (t.list ddLog?).map .ddLogs
  | "ddseries" => (t.list ddSeries?).map .ddSeries
  | "otlp" => (t.list otlpRes?).map .otlp
  | _ => none

/-! the abstract functions, given as a table keyed by the sorted label set -/

def bytesCmp : Bytes → Bytes → Ordering
  | [], [] => .eq
  | [], _ :: _ => .lt
  | _ :: _, [] => .gt
  | a :: as, b :: bs => if a < b then .lt else if a > b then .gt else bytesCmp as bs

def labelLe (a b : Label) : Bool :=
  match bytesCmp a.1 b.1 with
  | .lt => true
  | .gt => false
  | .eq => bytesCmp a.2 b.2 != .gt

def insertLabel (x : Label) : Labels → Labels
  | [] => [x]
  | y :: ys => if labelLe x y then x :: y :: ys else y :: insertLabel x ys

def sortLabels (ls : Labels) : Labels := ls.foldr insertLabel []

def tableRow? : Tree → Option (Labels × UInt64 × Nat)
  | .node [ls, fp, n] => do some (← labels? ls, ← fp.u64, ← n.nat)
  | _ => none

def lookup (tbl : List (Labels × UInt64 × Nat)) (ls : Labels) : UInt64 × Nat :=
  let key := sortLabels ls
  match tbl.find? (fun r => r.1 == key) with
  | some r => r.2
  | none => (0, 0)

/-! answers -/

def showLabels (ls : Labels) : String :=
  if ls.isEmpty then "-" else "+".intercalate ((sortLabels ls).map (fun l => hexOut l.1 ++ "=" ++ hexOut l.2))

def showRow (r : Row) : String :=
  s!"{r.fp.toNat}:{r.ts}:{hexOut r.line}:{r.val.toNat}:{r.tp}:{r.ttl}"

def showSeries (r : SeriesRow) : String :=
  s!"{r.date}:{r.fp.toNat}:{showLabels r.labels}:{r.tp}:{r.ttl}"

def joinOr (sep : String) (l : List String) : String := if l.isEmpty then "-" else sep.intercalate l

def showChunk (c : Chunk) : String :=
  let sr := ((c.ts.rows.map showSeries).toArray.qsort (· < ·)).toList
  s!"{c.spl.size}/{c.ts.size}/{joinOr "," (c.spl.rows.map showRow)}/{joinOr "," sr}" ++
    (if c.spl.mTp.length = c.spl.mTs.length && c.spl.mMsg.length = c.spl.mTs.length && c.spl.mVal.length = c.spl.mTs.length then "" else "/nonrect")

def handle : List String → Option String
  | ["c03", proto, ctxTtl, now, table, doc] => do
    let tbl ← (← parseTree table).list tableRow?
    let body ← body? proto (← parseTree doc)
    let env := Env.ofGen (fun ls => (lookup tbl ls).1) (fun ls => (lookup tbl ls).2) (← ctxTtl.toNat?)
    match body.run env Gen.pointsHit (← now.toInt?) with
    | .error _ => some "fault"
    | .ok chunks => some ("|".intercalate (chunks.map showChunk))
  | _ => none
end Driver.C03
