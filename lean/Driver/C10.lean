import Qryn.Sql.Segs
import Qryn.Gen.Params
import Qryn.Gen.GrammarFields
import Qryn.LogQL.JsonParserSegs
import Qryn.LogQL.FormatSegs
import Qryn.LogQL.SameShapeDec
import Qryn.Tempo.SearchSegs
import Qryn.Read.RawSqlTable
import Driver.C07X
import Driver.C08
import Qryn.LogQL.SameShapeMetric
import Driver.C08X
import Qryn.LogQL.SameShapeMetricX
import Qryn.TraceQL.SameShape
import Qryn.Prof.PlannersSegs
import Driver.C11
import Driver.C13Prof
namespace Driver.C10
open Qryn Qryn.Lex Qryn.Sql

def tokStr : Tok → String
  | .str s => "S:" ++ hexOut s
  | .word s => "W:" ++ hexOut s
  | .quoted q s => "Q" ++ toString q.toNat ++ ":" ++ hexOut s
  | .punct c => "P:" ++ toHex [c]
  | .err => "E"

/-- comma list of hex byte strings (`-` = empty list, `.` = an empty string inside a list) -/
def hexList (s : String) : Option (List Bytes) :=
  if s = "-" then some [] else (s.splitOn ",").mapM (fun x => if x = "." then some [] else ofHex x)

/-- template nodes: `,`-separated `T<hex>` (text) / `F<hex>` (field); `~` = none -/
def tplNodes? (s : String) : Option (List LogQL.TplNode) :=
  if s = "~" then some [] else (s.splitOn ",").mapM (fun x =>
    if x.startsWith "T" then (if x.length = 1 then some (.text []) else (ofHex (x.drop 1).toString).map .text)
    else if x.startsWith "F" then (if x.length = 1 then some (.field []) else (ofHex (x.drop 1).toString).map .field)
    else none)

def hexOrEmpty? (s : String) : Option Bytes := if s = "." then some [] else ofHex s

def lfOp? (s : String) : Option LogQL.LFOp :=
  match s.splitOn ":" with
  | ["R", n, src] => do some (.rename (← hexOrEmpty? n) (← hexOrEmpty? src))
  | ["T", n, nodes] => do some (.tmpl (← hexOrEmpty? n) (← tplNodes? nodes))
  | _ => none

def tagOp? : String → Option TempoSegs.TagOp
  | "eq" => some .eq | "neq" => some .neq | "re" => some .re | "nre" => some .nre | _ => none

def tag? (s : String) : Option TempoSegs.Tag :=
  match s.splitOn ":" with
  | [n, op, v] => do some ⟨← hexOrEmpty? n, ← tagOp? op, ← hexOrEmpty? v⟩
  | _ => none

def handle : List String → Option String
  | ["c10linefmt", nodes] => (tplNodes? nodes).map (fun t => hexOut (LogQL.lineFormatText t))
  | ["c10labelfmt", col, ops] => do
    let c ← Driver.C07.str? col
    let os ← if ops = "-" then some [] else (ops.splitOn ";").mapM lfOp?
    some (hexOut (LogQL.labelFormatText c os))
  | ["c10sameshape", ms1, st1, ms2, st2] => do
    let m1 ← Driver.C07.list? Driver.C07.matcher? ms1
    let s1 ← Driver.C07.list? Driver.C07X.scriptStage? st1
    let m2 ← Driver.C07.list? Driver.C07.matcher? ms2
    let s2 ← Driver.C07.list? Driver.C07X.scriptStage? st2
    some (if decide (LogQL.sameScript m1 m2 s1 s2) then "1" else "0")
  | "c10sameshapem" :: rest => do
    -- two serialised metric queries separated by the token `|`
    let a := rest.takeWhile (· != "|")
    let b := (rest.dropWhile (· != "|")).drop 1
    let (q1, r1) ← Driver.C08.query? a
    let (q2, r2) ← Driver.C08.query? b
    if !r1.isEmpty || !r2.isEmpty then none else
    some (if decide (LogQL.sameShapeM q1 q2) then "1" else "0")
  | "c10sameshapemx" :: rest => do
    -- two serialised metric queries of the labelled path (C08X syntax) separated by the token `|`
    let a := rest.takeWhile (· != "|")
    let b := (rest.dropWhile (· != "|")).drop 1
    let (q1, r1) ← Driver.C08X.queryX? a
    let (q2, r2) ← Driver.C08X.queryX? b
    if !r1.isEmpty || !r2.isEmpty then none else
    some (if decide (LogQL.sameShapeMX q1 q2) then "1" else "0")
  | ["c10sameshapet", s1, s2] => do
    -- two serialised TraceQL scripts (C11 syntax)
    let a ← Driver.C11.parseScript s1
    let b ← Driver.C11.parseScript s2
    some (if decide (TraceQL.sameShapeT a b) then "1" else "0")
  | "c10profsegs" :: kind :: args => do
    -- the text of the C10 segment view of a Pyroscope statement; arguments as `c13profplan`
    let (c, rest) ← Driver.C13Prof.ctx? args
    let conds? := Driver.C13Prof.conds?
    match kind, rest with
    | "mergeprofiles", [fp, main] => do
      some (hexOut (renderSegs (Prof.mergeProfilesSegs c (← conds? fp) (← conds? main).globals)))
    | "mergetraces", [tu, fp, main] => do
      some (hexOut (renderSegs (Prof.mergeTracesSegs c (← ofHex tu) (← conds? fp) (← conds? main).globals)))
    | "selectseries", [tu, avg, step, gb, fp, main] => do
      some (hexOut (renderSegs (Prof.selectSeriesSegs c (← ofHex tu) (avg = "1") (← step.toInt?) (← Driver.C13Prof.bytesList? gb)
        (← conds? fp) (← conds? main).globals)))
    | "series", [labels, sl] => do
      let ls ← Driver.C13Prof.bytesList? labels
      if sl = "NOSEL" then some (hexOut (renderSegs (Prof.planSeriesSegs c ls none)))
      else do some (hexOut (renderSegs (Prof.planSeriesSegs c ls (some (← conds? sl)))))
    | "labelsunion", [col, label, scripts] => do
      let l : Option Bytes ← if label = "NONE" then some none else (hexOrEmpty? label).map some
      let ps ← (scripts.splitOn "|").mapM conds?
      some (hexOut (renderSegs (Prof.labelsUnionSegs c (← Driver.C07.str? col) l ps)))
    | "seriesunion", [labels, scripts] => do
      let ps ← (scripts.splitOn "|").mapM conds?
      some (hexOut (renderSegs (Prof.seriesUnionSegs c (← Driver.C13Prof.bytesList? labels) ps)))
    | "analyze", [sl] => do some (hexOut (renderSegs (Prof.analyzeQuerySegs c (← conds? sl))))
    | "labelnames", [] => some (hexOut (renderSegs (Prof.labelsNoSelSegs c "key" none)))
    | "labelvalues", [l] => do some (hexOut (renderSegs (Prof.labelsNoSelSegs c "val" (some (← hexOrEmpty? l)))))
    | _, _ => none
  | ["c10tempo", fromNs, toNs, minDur, maxDur, limit, v2, idxTable, tracesTable, tags] => do
    let f ← fromNs.toInt?
    let t ← toNs.toInt?
    let mn ← minDur.toInt?
    let mx ← maxDur.toInt?
    let l ← limit.toInt?
    let ts ← if tags = "-" then some [] else (tags.splitOn ";").mapM tag?
    some (hexOut (TempoSegs.searchText ⟨← ofHex tracesTable, l, f, t, mn, mx⟩ ⟨← ofHex idxTable, f, t, mn, mx, l, v2 = "1"⟩ ts))
  | ["c10tempotrace", table, id, s, e] => do
    some (hexOut (renderSel (TempoSegs.traceSel (← Driver.C07.str? table) (← hexOrEmpty? id) (← s.toInt?) (← e.toInt?))))
  | ["c10tempovalues", table, tag] => do
    some (hexOut (renderSel (TempoSegs.tagValuesSel (← Driver.C07.str? table) (← hexOrEmpty? tag))))
  | ["c10census"] =>
    let es := RawSql.Table.entries
    some s!"sites={Gen.RawSqlSites.sites.length} const={Gen.RawSqlSites.constSites} sql={(es.filter (·.role == .sql)).length}       request-carrying={(es.filter RawSql.carriesRequestText).length} marker={(es.filter (·.role == .marker)).length}       notSql={(es.filter (·.role == .notSql)).length} dead={(es.filter (·.role == .dead)).length}"
  | ["quote", h] => (ofHex h).map (fun b => hexOut (quote b))
  | ["like", h] => (ofHex h).map (fun b => hexOut (likeLiteral b))
  | ["lex", h] => (ofHex h).map (fun b => " ".intercalate ((lex b).map tokStr))
  | ["c10params"] => some (";".intercalate (Gen.params.map (fun (f, h, k, n) => f ++ "|" ++ h ++ "|" ++ k ++ "|" ++ n)))
  | ["c10grammar"] => some (";".intercalate (Gen.grammarFields.map (fun (l, s, f, k, t) => l ++ "|" ++ s ++ "|" ++ f ++ "|" ++ k ++ "|" ++ t)))
  | ["c10json", labels, paths] => do
    -- labels: comma list of hex; paths: `;`-separated, one per label, parts comma-separated: hex = name part, `#n` = index n
    let ls ← hexList labels
    let part : String → Option Qryn.Sql.JArg := fun p =>
      if p.startsWith "#" then (p.drop 1).toString.toInt?.map .idx else (ofHex p).map .key
    let ps ← if paths = "-" then some [] else (paths.splitOn ";").mapM (fun p =>
      if p = "." then some [] else (p.splitOn ",").mapM part)
    if ls.length ≠ ps.length then none else
    some (hexOut (LogQL.jsonParserText (ls.zip ps)))
  | ["kinds", h] => (ofHex h).map (fun b => " ".intercalate ((kinds b).map tokStr))
  | _ => none
end Driver.C10
