import Qryn.Sql.Segs
import Qryn.Gen.Params
import Qryn.Gen.GrammarFields
import Qryn.LogQL.JsonParserSegs
namespace Driver.C10
open Qryn Qryn.Lex Qryn.Sql

def tokStr : Tok → String
  | .str s => "S:" ++ hexOut s
  | .word s => "W:" ++ hexOut s
  | .quoted q s => "Q" ++ toString q.toNat ++ ":" ++ hexOut s
  | .punct c => "P:" ++ toHex [c]
  | .err => "E"

/-- comma list of hex byte strings (`-` = empty list, `.` = an empty string inside a list) -/
def hexList (s : String) : Option (List Bytes) :=
  if s = "-" then some [] else (s.splitOn ",").mapM (fun x => if x = "." then some [] else ofHex x)

def handle : List String → Option String
  | ["quote", h] => (ofHex h).map (fun b => hexOut (quote b))
  | ["like", h] => (ofHex h).map (fun b => hexOut (likeLiteral b))
  | ["lex", h] => (ofHex h).map (fun b => " ".intercalate ((lex b).map tokStr))
  | ["c10params"] => some (";".intercalate (Gen.params.map (fun (f, h, k, n) => f ++ "|" ++ h ++ "|" ++ k ++ "|" ++ n)))
  | ["c10grammar"] => some (";".intercalate (Gen.grammarFields.map (fun (l, s, f, k, t) => l ++ "|" ++ s ++ "|" ++ f ++ "|" ++ k ++ "|" ++ t)))
  | ["c10json", col, id, labels, paths] => do
    let c ← ofHex col
    let ls ← hexList labels
    let ps ← if paths = "-" then some [] else (paths.splitOn ";").mapM hexList
    some (hexOut (LogQL.jsonParserText c (← id.toNat?) ls ps))
  | ["kinds", h] => (ofHex h).map (fun b => " ".intercalate ((kinds b).map tokStr))
  | _ => none
end Driver.C10
