import Qryn.Sql.Segs
import Qryn.Gen.Params
import Qryn.Gen.GrammarFields
namespace Driver.C10
open Qryn Qryn.Lex Qryn.Sql

def tokStr : Tok → String
  | .str s => "S:" ++ hexOut s
  | .word s => "W:" ++ hexOut s
  | .quoted q s => "Q" ++ toString q.toNat ++ ":" ++ hexOut s
  | .punct c => "P:" ++ toHex [c]
  | .err => "E"

def handle : List String → Option String
  | ["quote", h] => (ofHex h).map (fun b => hexOut (quote b))
  | ["like", h] => (ofHex h).map (fun b => hexOut (likeLiteral b))
  | ["lex", h] => (ofHex h).map (fun b => " ".intercalate ((lex b).map tokStr))
  | ["c10params"] => some (";".intercalate (Gen.params.map (fun (f, h, k, n) => f ++ "|" ++ h ++ "|" ++ k ++ "|" ++ n)))
  | ["c10grammar"] => some (";".intercalate (Gen.grammarFields.map (fun (l, s, f, k, t) => l ++ "|" ++ s ++ "|" ++ f ++ "|" ++ k ++ "|" ++ t)))
  | ["kinds", h] => (ofHex h).map (fun b => " ".intercalate ((kinds b).map tokStr))
  | _ => none
end Driver.C10
