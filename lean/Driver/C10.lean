import Qryn.Sql.Segs
import Qryn.Gen.Params
import Qryn.Gen.GrammarFields
import Qryn.LogQL.JsonParserSegs
namespace Driver.C10
open Qryn Qryn.Lex Qryn.Sql

def tokStr : Tok → String
  | .str s => "S:" ++ hexOut s
  | .word s => "W:" ++ hexOut s
  | .quoted q s => "Q" ++ toString q.toNat ++ ":" ++ hexOut s
  | .punct c => "P:" ++ toHex [c]
  | .err => "E"

/-- comma list of hex byte strings (`-` = empty list, `.` = an empty string inside a list) -/
def hexList (s : String) : Option (List Bytes) :=
  if s = "-" then some [] else (s.splitOn ",").mapM (fun x => if x = "." then some [] else ofHex x)

def handle : List String → Option String
  | ["quote", h] => (ofHex h).map (fun b => hexOut (quote b))
  | ["like", h] => (ofHex h).map (fun b => hexOut (likeLiteral b))
  | ["lex", h] => (ofHex h).map (fun b => " ".intercalate ((lex b).map tokStr))
  | ["c10params"] => some (";".intercalate (Gen.params.map (fun (f, h, k, n) => f ++ "|" ++ h ++ "|" ++ k ++ "|" ++ n)))
  | ["c10grammar"] => some (";".intercalate (Gen.grammarFields.map (fun (l, s, f, k, t) => l ++ "|" ++ s ++ "|" ++ f ++ "|" ++ k ++ "|" ++ t)))
  | ["c10json", labels, paths] => do
    -- labels: comma list of hex; paths: `;`-separated, one per label, parts comma-separated: hex = name part, `#n` = index n
    let ls ← hexList labels
    let part : String → Option Qryn.Sql.JArg := fun p =>
      if p.startsWith "#" then (p.drop 1).toString.toInt?.map .idx else (ofHex p).map .key
    let ps ← if paths = "-" then some [] else (paths.splitOn ";").mapM (fun p =>
      if p = "." then some [] else (p.splitOn ",").mapM part)
    if ls.length ≠ ps.length then none else
    some (hexOut (LogQL.jsonParserText (ls.zip ps)))
  | ["kinds", h] => (ofHex h).map (fun b => " ".intercalate ((kinds b).map tokStr))
  | _ => none
end Driver.C10
