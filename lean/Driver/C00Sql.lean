import Qryn.Sql.Dump
namespace Driver.C00Sql
open Qryn Qryn.Sql

def dumpText (h : String) : Option String := do
  let b ← ofHex h
  String.fromUTF8? (ByteArray.mk b.toArray)

def handle : List String → Option String
  | ["sqlrender", h] => do
    let t ← dumpText h
    match Dump.selOfDump t with
    | some s => some (hexOut (renderSel s))
    | none => some "dump-parse-error"
  | _ => none
end Driver.C00Sql
