import Qryn.Tempo.Search
import Driver.C07
namespace Driver.C13Tempo
open Qryn Qryn.Sql Qryn.Tempo

def tagOp? : String → Option TagOp
  | "eq" => some .eq | "ne" => some .ne | "re" => some .re | "nre" => some .nre | _ => none

def tag? (s : String) : Option Tag :=
  match s.splitOn ":" with
  | [k, op, v] => do some ⟨← ofHex k, ← tagOp? op, ← ofHex v⟩
  | _ => none

/-- `NONE` (tags == ""), `-` (a tags string holding no tag) or `k:op:v;…` -/
def tags? (s : String) : Option (Option (List Tag)) :=
  if s = "NONE" then some none else (Driver.C07.list? tag? s).map some

def req? : List String → Option (SearchReq × List String)
  | tags :: minD :: maxD :: limit :: fromNs :: toNs :: cl :: db :: tt :: ttd :: idxDist :: rest => do
    some (⟨← tags? tags, ← minD.toInt?, ← maxD.toInt?, ← limit.toInt?, ← fromNs.toInt?, ← toNs.toInt?, cl = "1",
           ← Driver.C07.str? db, ← Driver.C07.str? tt, ← Driver.C07.str? ttd, idxDist = "1"⟩, rest)
  | _ => none

def verRow? (s : String) : Option (Bytes × Bytes) :=
  match s.splitOn ":" with
  | [n, v] => do some (← ofHex n, ← ofHex v)
  | _ => none

/-- the version state as the database presents it: rows of the settings query, names of SHOW TABLES -/
def ver? : List String → Option (VersionInfo × List String)
  | rows :: tables :: rest => do
    let rs ← Driver.C07.list? verRow? rows
    let ts ← Driver.C07.list? ofHex tables
    some (versionInfo rs ts, rest)
  | _ => none

def handle : List String → Option String
  | "c13tsearch" :: args => do
    let (r, rest) ← req? args
    let (v, rest') ← ver? rest
    if !rest'.isEmpty then none
    some (hexOut (planSearch r v).render)
  | ["c13tver", rows, tables, ver, fromNs] => do
    let (v, _) ← ver? [rows, tables]
    some (toString (isVersionSupported v (← ofHex ver) (← fromNs.toInt?)))
  | _ => none
end Driver.C13Tempo
