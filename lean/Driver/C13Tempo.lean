import Qryn.Tempo.SearchParse
import Qryn.Tempo.Legacy
import Qryn.Read.Tail
import Qryn.Proofs.ConfineTempo
import Qryn.Read.ConfineSearch
import Qryn.Read.Tables
import Driver.C07
import Driver.C11
namespace Driver.C13Tempo
open Qryn Qryn.Sql Qryn.Tempo Qryn.Confine

def tagOp? : String → Option TagOp
  | "eq" => some .eq | "ne" => some .ne | "re" => some .re | "nre" => some .nre | _ => none

def tag? (s : String) : Option Tag :=
  match s.splitOn ":" with
  | [k, op, v] => do some ⟨← ofHex k, ← tagOp? op, ← ofHex v⟩
  | _ => none

/-- `NONE` (tags == ""), `-` (a tags string holding no tag) or `k:op:v;…` -/
def tags? (s : String) : Option (Option (List Tag)) :=
  if s = "NONE" then some none else (Driver.C07.list? tag? s).map some

def req? : List String → Option (SearchReq × List String)
  | tags :: minD :: maxD :: limit :: fromNs :: toNs :: cl :: db :: tt :: ttd :: idxDist :: rest => do
    some (⟨← tags? tags, ← minD.toInt?, ← maxD.toInt?, ← limit.toInt?, ← fromNs.toInt?, ← toNs.toInt?, cl = "1",
           ← Driver.C07.str? db, ← Driver.C07.str? tt, ← Driver.C07.str? ttd, idxDist = "1"⟩, rest)
  | _ => none

def verRow? (s : String) : Option (Bytes × Bytes) :=
  match s.splitOn ":" with
  | [n, v] => do some (← ofHex n, ← ofHex v)
  | _ => none

/-- the version state as the database presents it: rows of the settings query, names of SHOW TABLES -/
def ver? : List String → Option (VersionInfo × List String)
  | rows :: tables :: rest => do
    let rs ← Driver.C07.list? verRow? rows
    let ts ← Driver.C07.list? ofHex tables
    some (versionInfo rs ts, rest)
  | _ => none

/-- the hypotheses of `tempo_search_confined` on the table classification, for `lokiCfg` -/
def searchOk (r : SearchReq) : Bool :=
  lokiCfg.kind r.tracesTable == .data && lokiCfg.kind r.tracesDistTable == .data && lokiCfg.kind (attrsTable r) == .index

def spanRow? (s : String) : Option Row :=
  match s.splitOn ":" with
  | [t, sp, svc, nm, ts, du] => do
    some [("trace_id", .str (← ofHex t)), ("span_id", .str (← ofHex sp)), ("service_name", .str (← ofHex svc)),
          ("name", .str (← ofHex nm)), ("timestamp_ns", .int (← ts.toInt?)), ("duration_ns", .int (← du.toInt?))]
  | _ => none

def attrRow? (s : String) : Option Row :=
  match s.splitOn ":" with
  | [d, k, v, t, sp, ts, du] => do
    some [("date", .str (← ofHex d)), ("key", .str (← ofHex k)), ("val", .str (← ofHex v)), ("trace_id", .str (← ofHex t)),
          ("span_id", .str (← ofHex sp)), ("timestamp_ns", .int (← ts.toInt?)), ("duration", .int (← du.toInt?))]
  | _ => none

def valHex : Val → String
  | .str s => hexOut s
  | .int i => toString i
  | _ => "?"

def rowOut (r : Row) : String := valHex (r.get "trace_id") ++ ":" ++ valHex (r.get "span_id") ++ ":" ++ valHex (r.get "timestamp_ns")

def rowsOut (t : Table) : String := if t.isEmpty then "-" else ",".intercalate (t.map rowOut)

def handle : List String → Option String
  -- the model's statement, the verdict of `searchConfined` on it (true by `tempo_search_confined` when 0 < from, to), whether
  -- `lokiCfg` meets the theorem's hypotheses, and whether the text reads back as the plan
  | "c13tsearch" :: args => do
    let (r, rest) ← req? args
    let (v, rest') ← ver? rest
    if !rest'.isEmpty then none
    let st := planSearch r v
    let text := st.render
    some s!"{hexOut text} {searchConfined lokiCfg (winSearch r) st || !(decide (0 < r.fromNs) && decide (0 < r.toNs))} {searchOk r} {(Parse.parseSearch text).isSome}"
  -- the statement the REAL code sent: read back (byte-equal re-rendering or `unparsed`), judged structurally for the window,
  -- and executed on a span / index database
  | ["c13tjudge", fromNs, toNs, text, spans, attrs] => do
    let w : Window := ⟨← fromNs.toInt?, ← toNs.toInt?, 0, false, 0⟩
    let db : SearchDb := ⟨← Driver.C07.list? spanRow? spans, ← Driver.C07.list? attrRow? attrs⟩
    match Parse.parseSearch (← ofHex text) with
    | none => some "unparsed"
    | some st =>
      some s!"parsed {searchConfined lokiCfg w st} table={lokiCfg.kind st.table == .data} dates={st.idxs.all (idxDatesOk lokiCfg w)} span={spanBounded w st} idx={st.idxs.any (idxBounded w)} {rowsOut (searchRows Driver.C11.orc db st)}"
  | ["c13tquery", startNs, endNs, tid, cl, tt, ttd] => do
    let q : QueryReq := ⟨← startNs.toInt?, ← endNs.toInt?, ← ofHex tid, cl = "1", ← Driver.C07.str? tt, ← Driver.C07.str? ttd⟩
    let s := queryRequest q
    some s!"{hexOut (renderSel s)} {confined lokiCfg (winQuery q) s || q.startNs == 0 || q.endNs == 0} {lokiCfg.kind q.tracesTable == .data && lokiCfg.kind q.tracesDistTable == .data}"
  | ["c13ttagsreq", kv] => do some (hexOut (renderSel (tagsRequest (← Driver.C07.str? kv))))
  | ["c13tvaluesreq", kv, tag] => do some (hexOut (renderSel (valuesRequest (← Driver.C07.str? kv) (valuesTag (← ofHex tag)))))
  -- the `From` of every tail tick: `c13tail <from0> <ts,ts;ts,…>` (`-` = a tick without entries)
  | ["c13tail", from0, results] => do
    let rs ← (results.splitOn ";").mapM (fun r => if r = "-" then some [] else (r.splitOn ",").mapM String.toInt?)
    some (" ".intercalate ((Qryn.Tail.froms (← from0.toInt?) rs).map toString))
  | ["c13tver", rows, tables, ver, fromNs] => do
    let (v, _) ← ver? [rows, tables]
    some (toString (isVersionSupported v (← ofHex ver) (← fromNs.toInt?)))
  | _ => none
end Driver.C13Tempo
