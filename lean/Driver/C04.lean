import Qryn.Ingest.Labels
import Qryn.Ingest.SeriesIndex
import Qryn.Ingest.LabelPipeline
/-! Line protocol of the C04 model.

    labels  L := `-` | nameHex:valueHex[,nameHex:valueHex…]        (hex as in Qryn.ofHex, `-` = empty)
    table   T := `-` | bytesHex=decimal[,…]                          (values of city.CH64 supplied by the harness)

    c04acc L T            → hex of the 24 bytes `unsafe.Slice(&determs[0], 24)`
    c04fp L T             → decimal `fingerprintLabels` (T must also map the 24 bytes)
    c04enc L              → hex of `encodeLabels`
    c04parse docHex       → `none` | L of `parseObject`
    c04date loc tsNs      → stored `time_series.date` (day number)
    c04bounds loc from to → `lower upper` day numbers of the reader's date bounds
    c04hist loc op…       → per op: `-` (cache reset) | `a<0|1>:rows/rows…` (rows of each chunk, sorted,
                            `date.fp.tp` comma separated, `-` for none), then `T=` the sorted series table
       op := `R` | `P:chunk/chunk…:dropped`, chunk := `<seriesOk><samplesOk>~call+call…`,
       call := `fp@ts` `t` `tp`[,…], dropped := `n` | `e` | call+call…
    c04pipe decoderType ctxTtl L L → `unknown-decoder` | `none` | `F=L D=docHex`: the list the pipeline of the code
                            (decoder's sanitising per Gen.LabelPipeline.decoders, then the regenerated order of onEntries)
                            fingerprints, and the stored document; 1st L = labels the decoder collected, 2nd L = labels
                            appended after sanitising whose value goes through the name rule (Influx `__name__`)
    c04valid hex          → `0|1 hex hex`: utf8.Valid, strings.ToValidUTF8(s, U+FFFD), encoding/json's coercion
    c04trunc hex          → hex of the stored form of a value: ToValidUTF8 of the truncation
    c04san hex            → hex of the sanitised label name
    c04key day fp tp      → hex of the 17 bytes maybeAddFp hashes                                        -/
namespace Driver.C04
open Qryn Qryn.Fp Qryn.SeriesIndex

def parseBytes (s : String) : Option Bytes := ofHex s

def parseLabel (s : String) : Option Label :=
  match s.splitOn ":" with
  | [a, b] => do let x ← parseBytes a; let y ← parseBytes b; pure (x, y)
  | _ => none

def parseLabels (s : String) : Option (List Label) :=
  if s = "-" then some [] else (s.splitOn ",").mapM parseLabel

def parseTable (s : String) : Option (List (Bytes × W)) :=
  if s = "-" then some [] else
    (s.splitOn ",").mapM (fun e =>
      match e.splitOn "=" with
      | [a, b] => do let x ← parseBytes a; let y ← b.toNat?; pure (x, BitVec.ofNat 64 y)
      | _ => none)

def tableFn (t : List (Bytes × W)) (b : Bytes) : W := (t.lookup b).getD 0

def showLabels (ls : List Label) : String :=
  if ls.isEmpty then "-" else ",".intercalate (ls.map (fun l => hexOut l.1 ++ ":" ++ hexOut l.2))

def rowLe (a b : Row) : Bool :=
  a.date < b.date || (a.date == b.date && (a.fp < b.fp || (a.fp == b.fp && a.tp ≤ b.tp)))

def showRows (rs : List Row) : String :=
  if rs.isEmpty then "-" else
    ",".intercalate ((rs.mergeSort rowLe).map (fun r => s!"{r.date}.{r.fp}.{r.tp}"))

def parseEntry (s : String) : Option (Int × Nat) :=
  match s.splitOn "t" with
  | [a, b] => do let x ← a.toInt?; let y ← b.toNat?; pure (x, y)
  | _ => none

def parseCall (s : String) : Option Call :=
  match s.splitOn "@" with
  | [a, b] => do
    let fp ← a.toNat?
    let es ← if b = "" then some [] else (b.splitOn ",").mapM parseEntry
    pure ⟨fp, es⟩
  | _ => none

def parseCalls (s : String) : Option (List Call) :=
  if s = "" then some [] else (s.splitOn "+").mapM parseCall

def parseChunk (s : String) : Option Chunk :=
  match s.splitOn "~" with
  | [f, cs] =>
    match f.toList with
    | [a, b] => do let calls ← parseCalls cs; pure ⟨calls, a = '1', b = '1'⟩
    | _ => none
  | _ => none

def parseOp (s : String) : Option Op :=
  if s = "R" then some .cacheReset else
  match s.splitOn ":" with
  | ["P", cs, d] => do
    let chunks ← if cs = "" then some [] else (cs.splitOn "/").mapM parseChunk
    let dropped ← if d = "n" then some none else if d = "e" then some (some []) else (parseCalls d).map some
    pure (.push ⟨chunks, dropped⟩)
  | _ => none

/-- what one push emits, seen from outside: acknowledged?, rows of each chunk -/
def pushView (loc : Int) (st : St Cand) (r : Req) : String :=
  let e := emitChunks id loc st.cache [] r.chunks
  let a := if reqAcked r then "a1:" else "a0:"
  a ++ (if e.2.isEmpty then "-" else "/".intercalate (e.2.map showRows))

def runHist (loc : Int) (ops : List Op) : String :=
  let (st, out) := ops.foldl (fun (acc : St Cand × List String) op =>
    let v := match op with
      | .cacheReset => "-"
      | .push r => pushView loc acc.1 r
    (step id loc acc.1 op, v :: acc.2)) (St.init, [])
  " ".intercalate (out.reverse ++ ["T=" ++ showRows st.series])

def handle : List String → Option String
  | ["c04acc", l, t] => do
    let ls ← parseLabels l; let tb ← parseTable t
    pure (hexOut (accBytes (determs (ls.map (labelHash (tableFn tb))))))
  | ["c04fp", l, t] => do
    let ls ← parseLabels l; let tb ← parseTable t
    pure (toString (fingerprintLabels (tableFn tb) ls).toNat)
  | ["c04enc", l] => do
    let ls ← parseLabels l
    pure (hexOut (encodeLabels ls))
  | ["c04parse", d] => do
    let doc ← parseBytes d
    pure (match JsonStr.parseObject doc with
      | none => "none"
      | some ls => showLabels ls)
  | ["c04date", loc, ts] => do
    let l ← loc.toInt?; let t ← ts.toInt?
    pure (toString (seriesDate l t))
  | ["c04bounds", loc, f, t] => do
    let l ← loc.toInt?; let a ← f.toInt?; let b ← t.toInt?
    pure s!"{readerLower a} {readerUpper l b}"
  | ["c04pipe", typ, ttl, pre, post] => do
    let t ← ttl.toNat?; let a ← parseLabels pre; let b ← parseLabels post
    pure (match Pipeline.decoderSanitises typ with
      | none => "unknown-decoder"
      | some sn =>
        match Pipeline.onEntriesLabels t (Pipeline.decoderLabels sn a b) with
        | none => "none"
        | some (f, d) => "F=" ++ showLabels f ++ " D=" ++ hexOut (encodeLabels d))
  | ["c04valid", x] => do
    let b ← parseBytes x
    pure ((if Ingest.validUTF8 b then "1 " else "0 ") ++ hexOut (Ingest.toValidUTF8 b) ++ " " ++ hexOut (Pipeline.coerceUTF8 b))
  | ["c04trunc", x] => do
    let b ← parseBytes x
    pure (hexOut (Ingest.toValidUTF8 (Ingest.truncValue b)))
  | ["c04san", x] => do
    let b ← parseBytes x
    pure (hexOut (Ingest.sanitizeName b))
  | ["c04key", d, f, t] => do
    let dd ← d.toInt?; let ff ← f.toNat?; let tt ← t.toNat?
    pure (hexOut (Pipeline.keyBytes (BitVec.ofInt 64 dd) (BitVec.ofNat 64 ff) (UInt8.ofNat tt)))
  | "c04hist" :: loc :: ops => do
    let l ← loc.toInt?
    let os ← ops.mapM parseOp
    pure (runHist l os)
  | _ => none

end Driver.C04
