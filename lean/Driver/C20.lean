import Qryn.Http.MainOrder
import Qryn.Http.AuthConfig
import Qryn.Http.Exposure
import Qryn.Gen.Routes
import Qryn.Gen.AuthConfig
import Qryn.Gen.Exposure
namespace Driver.C20
open Qryn Qryn.Http

def optHex (s : String) : Option (Option Bytes) :=
  if s = "none" then some none else (ofHex s).map some

def b01 (b : Bool) : String := if b then "1" else "0"

/-- driver instantiation of the gzip stream: magic ++ payload; bare header = magic -/
def gzMagic : Bytes := [0x1f, 0x8b]
def gzD (b : Bytes) : Bytes := gzMagic ++ b

def parseOp (s : String) : Option WOp :=
  match s.toList with
  | 'h' :: r => (String.ofList r).toNat?.map .writeHeader
  | 'w' :: r => (ofHex (String.ofList r)).map .write
  | ['s'] => some (.setHeader "X-Test" "1")
  | ['d'] => some (.delHeader "X-Test")
  | _ => none

def parseOps (s : String) : Option (List WOp) :=
  if s = "-" then some [] else (s.splitOn ",").mapM parseOp

def mwOf (c : Char) : Option Middleware :=
  match c with
  | 'g' => some (gzipMw gzD gzMagic)
  | 'c' => some (corsMw "")
  | 'o' => some (corsMw "https://x.example")
  | 'l' => some loggingMw
  | _ => none

def hdr (r : Resp) (k : String) : Option String := (r.headers.find? (·.1 = k)).map (·.2)

def showResp (r : Resp) : String :=
  s!"{r.status} ce={(hdr r "Content-Encoding").getD "-"} cl={b01 (hdr r "Content-Length").isSome} " ++
  s!"cors={(hdr r "Access-Control-Allow-Origin").getD "-"} x={(hdr r "X-Test").getD "-"} body={hexOut r.body}"

def stub (i : Nat) : Handler := fun _ => ⟨[.writeHeader 200, .write [111, 107]], [.handler i]⟩

/-- the routes the `view` build adds (any method; the last one a catch-all prefix), for the 'v' variant -/
def viewSpecs : List RouteSpec :=
  let l (s : String) : Part := .lit s.toUTF8.toList
  [⟨false, [l "/v/"], "/v/", [], "view", true⟩,
   ⟨false, [l "/v/plugins"], "/v/plugins", [], "view", true⟩,
   ⟨false, [l "/v/users"], "/v/users", [], "view", true⟩,
   ⟨false, [l "/v/datasources"], "/v/datasources", [], "view", true⟩,
   ⟨false, [l "/v/datasources/", .var], "/v/datasources/{ds}", [], "view", true⟩,
   ⟨true, [l "/"], "/", [], "view", true⟩]

/-- `NAME:hex` (set, `-` = empty) or `NAME:none` (unset), comma separated; `-` = no variable at all -/
def parseEnv (s : String) : Option (List (String × Option Bytes)) :=
  if s = "-" then some [] else
  (s.splitOn ",").mapM (fun kv => match kv.splitOn ":" with
    | [k, v] => (optHex v).map (fun x => (k, x))
    | _ => none)

def showInst : Option (Bytes × Bytes) → String
  | none => "none"
  | some (u, p) => s!"{hexOut u},{hexOut p}"

def reached (r : Resp) : Option Nat :=
  r.effects.findSome? (fun e => match e with | .handler i => some i | _ => none)

def handle : List String → Option String
  | ["c20b64", h] => (ofHex h).map (fun b => let r := B64.decode false b; s!"{hexOut r.1} {b01 r.2}")
  | ["c20b64s", h] => (ofHex h).map (fun b => let r := B64.decode true b; s!"{hexOut r.1} {b01 r.2}")
  | ["c20enc", h] => (ofHex h).map (fun b => hexOut (B64.encode b))
  | ["c20routes"] =>
    some (";".intercalate (Qryn.Gen.Routes.routes.map (fun r => s!"{r.tpl}|{",".intercalate r.methods}|{b01 r.pathPrefix}")))
  | ["c20auth", l, p, h] => do
    let l ← ofHex l; let p ← ofHex p; let h ← optHex h
    let r := respond (authMw l p (stub 0) ⟨"GET", [47], h, [], none⟩)
    pure s!"{r.status} www={b01 (hdr r "WWW-Authenticate").isSome} reached={b01 (reached r).isSome} body={hexOut r.body}"
  | ["c20mw", mws, ae, ops] => do
    let ms ← (if mws = "-" then some [] else mws.toList.mapM mwOf)
    let ae ← ofHex ae
    let ops ← parseOps ops
    let h : Handler := fun _ => ⟨ops, [.handler 7]⟩
    let r := respond (chain ms h ⟨"GET", [47], none, ae, none⟩)
    pure (showResp r ++ s!" reached={b01 (reached r).isSome}")
  | ["c20serve", cfg, l, p, method, path, h, ae, origin] => do
    let l ← ofHex l; let p ← ofHex p
    let path ← ofHex path; let h ← optHex h; let ae ← ofHex ae; let origin ← optHex origin
    let cs := cfg.toList
    -- 'r': MODE=reader — main() skips writer.Init
    let base := if cs.contains 'r' then routesIn Qryn.Gen.Exposure.modeGuards "reader" Qryn.Gen.Routes.routes else Qryn.Gen.Routes.routes
    let specs := base ++ (if cs.contains 'v' then viewSpecs else [])
    let mws := (if cs.contains 'a' then [authMw l p] else []) ++ [gzipMw gzD gzMagic] ++
      (if cs.contains 'c' then [corsMw ""] else []) ++ [loggingMw]
    let R : Router := ⟨tableOf specs stub, mws, isCleanPath⟩
    let r := serve R ⟨method, path, h, ae, origin⟩
    match reached r with
    | some i => pure (if cs.contains 'b' then "reached" else s!"reached {i} cors={b01 (hdr r "Access-Control-Allow-Origin").isSome}")
    | none => pure s!"{r.status} ce={b01 (hdr r "Content-Encoding").isSome} cors={b01 (hdr r "Access-Control-Allow-Origin").isSome} www={b01 (hdr r "WWW-Authenticate").isSome}"
  -- the configuration path: the regenerated plan of portEnv interpreted on (file credentials, environment)
  | ["c20eff", fu, fp, env] => do
    let fu ← ofHex fu; let fp ← ofHex fp; let e ← parseEnv env
    let eff := AuthConfig.runPlan (AuthConfig.Env.ofList e) Qryn.Gen.AuthConfig.plan ⟨fu, fp⟩
    pure s!"{hexOut eff.user},{hexOut eff.pass}"
  -- … followed by main()'s guard: which BasicAuthMiddleware(login, pass) is installed, if any
  | ["c20inst", fu, fp, env] => do
    let fu ← ofHex fu; let fp ← ofHex fp; let e ← parseEnv env
    pure (showInst (AuthConfig.installed Qryn.Gen.AuthConfig.plan Qryn.Gen.AuthConfig.install (AuthConfig.Env.ofList e) ⟨fu, fp⟩))
  -- the whole path: configuration → installed middleware → the route table of the MODE → one request
  | ["c20servemode", mode, fu, fp, env, method, path, h] => do
    let mode ← ofHex mode; let fu ← ofHex fu; let fp ← ofHex fp; let e ← parseEnv env
    let path ← ofHex path; let h ← optHex h
    let inst := AuthConfig.installed Qryn.Gen.AuthConfig.plan Qryn.Gen.AuthConfig.install (AuthConfig.Env.ofList e) ⟨fu, fp⟩
    let specs := routesIn Qryn.Gen.Exposure.modeGuards (String.ofList (mode.map (fun b => Char.ofNat b.toNat))) Qryn.Gen.Routes.routes
    let R : Router := ⟨tableOf specs stub, AuthConfig.mainChain inst [gzipMw gzD gzMagic, loggingMw], isCleanPath⟩
    let r := serve R ⟨method, path, h, [], none⟩
    match reached r with
    | some _ => pure "reached"
    | none => pure s!"{r.status}"
  | _ => none
end Driver.C20
