import Qryn.ReadSide.Params
import Qryn.ReadSide.Controllers
import Qryn.Gen.ReadSide
import Qryn.ReadSide.PipelineHExec
import Qryn.ReadSide.StageExec
namespace Driver.C12
open Qryn.ReadSide Qryn.Gen

def list? {α} (f : String → Option α) (s : String) : Option (List α) :=
  if s = "-" then some [] else (s.splitOn ",").mapM f

def entry? (s : String) : Option Entry :=
  match s.splitOn ":" with
  | [fp, ts, v] => do some ⟨← fp.toNat?, ← ts.toInt?, ← v.toInt?⟩
  | _ => none

def parsed? (s : String) : Option (Parsed Int) :=
  if s = "a" then some .absent else if s = "i" then some .invalid else s.toInt?.map .ok

def bool? (s : String) : Option Bool := if s = "1" then some true else if s = "0" then some false else none

def out? (s : String) : Option Out :=
  if s = "o" then some .ok else if s = "e" then some .err else if s = "f" then some .fault else none

def fault (f : Fault) : String := "fault:" ++ f.name

def showSeries (out : List (Nat × List (Int × Int))) : String :=
  if out.isEmpty then "ok -" else
  "ok " ++ ";".intercalate (out.map (fun s => toString s.1 ++ "@" ++ ",".intercalate (s.2.map (fun p => toString p.1 ++ "=" ++ toString p.2))))

def code : Code := ⟨FixCode.fixed, AggCode.fixed, ReadSide.maxFixPeriodPoints, ReadSide.aggStreamCap⟩

def batch? (s : String) : Option (Nat × Bool) :=
  if s.endsWith "e" then (s.dropRight 1).toNat?.map (·, true) else s.toNat?.map (·, false)

def onStop? (s : String) : Option Pipe.OnStop :=
  if s = "d" then some .drain else if s = "c" then some .cancel else if s = "a" then some .abandon else none

def handle : List String → Option String
  | ["c12hstop", pol, k, bs] => do
    let r := Pipe.exporterRun (← list? batch? bs) (← onStop? pol) (← k.toNat?)
    some (r.1 ++ " " ++ toString r.2)
  | ["c12fix", f, t, st, d, es] => do
    let p : FixParams := ⟨← f.toInt?, ← t.toInt?, ← st.toInt?, ← d.toInt?⟩
    let es ← list? entry? es
    match fixProcess FixCode.fixed ReadSide.maxFixPeriodPoints p es with
    | none => some "refused"
    | some (.error e) => some (fault e)
    | some (.ok out) => some (showSeries out)
  | ["c12lra", f, d, len, tss] => do
    let len ← len.toNat?
    match lraCount AggCode.fixed (← f.toInt?) (← d.toInt?) len (← list? String.toInt? tss) (List.replicate (len / 2) 0) with
    | .error e => some (fault e)
    | .ok acc => some ("ok " ++ ",".intercalate (acc.map toString))
  | ["c12aggop", f, d, len, ts] => do
    match aggOpAddValue AggCode.fixed (← f.toInt?) (← d.toInt?) (← ts.toInt?) (← len.toNat?) with
    | .error e => some (fault e)
    | .ok none => some "skip"
    | .ok (some i) => some ("ok " ++ toString i)
  | ["c12agglen", f, t, d] => do
    match aggProcess ReadSide.aggStreamCap (← f.toInt?) (← t.toInt?) (← d.toInt?) with
    | .error e => some (fault e)
    | .ok none => some "refused"
    | .ok (some n) => some ("ok " ++ toString n)
  | ["c12limit", limit, ns] => do
    match limitRun (← limit.toInt?) 0 (← list? String.toNat? ns) with
    | .error e => some (fault e)
    | .ok (ks, c) => some ("ok " ++ (if ks.isEmpty then "-" else ",".intercalate (ks.map toString)) ++ (if c then " cancel" else ""))
  | ["c12scan", buf, evs] => do
    let evs ← evs.toList.mapM (fun c => if c = 'r' then some RowEv.row else if c = 'e' then some RowEv.scanErr else if c = 'c' then some RowEv.ctxDone else if c = '-' then none else none)
    match scanLoop (← buf.toNat?) 0 evs with
    | .error e => some (fault e)
    | .ok bs => some ("ok " ++ ",".intercalate (bs.map toString))
  | ["c12scan", buf] => do
    match scanLoop (← buf.toNat?) 0 [] with
    | .error e => some (fault e)
    | .ok bs => some ("ok " ++ ",".intercalate (bs.map toString))
  | ["c12qr", qe, s, e, st, pok, mx, rd, ad, vf, mf, rows] => do
    let q : QRParams := ⟨← bool? qe, ← parsed? s, ← parsed? e, ← parsed? st⟩
    let ad ← if ad = "-" then some none else ad.toInt?.map some
    let pl : Plan := ⟨← bool? pok, ← bool? mx, ← rd.toInt?, ad⟩
    let db : DbScript := ⟨← bool? vf, ← bool? mf, ← list? entry? rows⟩
    some (lokiQueryRange code q pl db).name
  | ["c12qi", qe, t, now, st, pok, mx, rd, ad, vf, mf, rows] => do
    let q : QIParams := ⟨← bool? qe, ← parsed? t, ← now.toInt?, ← parsed? st⟩
    let ad ← if ad = "-" then some none else ad.toInt?.map some
    let pl : Plan := ⟨← bool? pok, ← bool? mx, ← rd.toInt?, ad⟩
    let db : DbScript := ⟨← bool? vf, ← bool? mf, ← list? entry? rows⟩
    some (lokiQueryInstant code q pl db).name
  | ["c12promqr", pok, s, e, st, nq, eng] => do
    some (promQueryRange ⟨← bool? pok, ← s.toInt?, ← e.toInt?, ← st.toInt?, ← bool? nq, ← bool? eng⟩).name
  | ["c12trace", idLen, bad, qf] => do
    let bad ← if bad = "-" then some none else bad.toNat?.map some
    some (tempoTrace ⟨← idLen.toNat?, bad, true, true, ← bool? qf⟩).name
  | ["c12sdrain", bs] => do
    some (Pipe.stageRun Pipe.wrapProcessCode (← list? bool? bs))
  -- the remaining controllers (Controllers.lean): `c12ctl <endpoint> <step outcomes / parsed parameters …>`
  | ["c12ctl", "lokiLabels", pl, fo, s, e, sv] => do
    some (lokiLabels (← out? pl) (← out? fo) (← parsed? s) (← parsed? e) (← out? sv)).name
  | ["c12ctl", "lokiValues", pl, fo, s, e, ne, sv] => do
    some (lokiValues (← out? pl) (← out? fo) (← parsed? s) (← parsed? e) (← bool? ne) (← out? sv)).name
  | ["c12ctl", "lokiSeries", pl, fo, s, e, nm, sv] => do
    some (lokiSeries (← out? pl) (← out? fo) (← parsed? s) (← parsed? e) (← bool? nm) (← out? sv)).name
  | ["c12ctl", "lokiTail", pl, qe, sv, up] => do
    some (lokiTail (← out? pl) (← bool? qe) (← out? sv) (← bool? up)).name
  | ["c12ctl", "promLabels", pl, fo, f2, sv] => do
    some (promLabels (← out? pl) (← out? fo) (← out? f2) (← out? sv)).name
  | ["c12ctl", "promLabelValues", pl, pa, ne, sv, s0] => do
    some (promLabelValues (← out? pl) (← out? pa) (← bool? ne) (← out? sv) (← out? s0)).name
  | ["c12ctl", "promSeries", pl, fo, f2, sv] => do
    some (promSeries (← out? pl) (← out? fo) (← out? f2) (← out? sv)).name
  | ["c12ctl", "promMetadata", pl] => do
    some (promMetadata (← out? pl)).name
  | ["c12ctl", "promInstant", pl, fo, t, qe, nq, ex, wr] => do
    some (promQueryInstant (← out? pl) (← out? fo) (← parsed? t) (← bool? qe) (← out? nq) (← out? ex) (← out? wr)).name
  | ["c12ctl", "tempoTagsV1", pl, sv] => do
    some (tempoTagsV1 (← out? pl) (← out? sv)).name
  | ["c12ctl", "tempoTagsV2", pl, s, e, v1, v2, m] => do
    some (tempoTagsV2 (← out? pl) (← parsed? s) (← parsed? e) (← out? v1) (← out? v2) (← out? m)).name
  | ["c12ctl", "tempoSearch", pl, mi, ma, li, s, e, hq, ql, tg] => do
    some (tempoSearch (← out? pl) (← parsed? mi) (← parsed? ma) (← parsed? li) (← parsed? s) (← parsed? e) (← bool? hq) (← out? ql) (← out? tg)).name
  | ["c12ctl", "static"] => some staticAnswer.name
  | ["c12ctl", "prof", pa, sv, ma] => do
    some (profEndpoint (← out? pa) (← out? sv) (← out? ma)).name
  | ["c12ctl", "profNoBody", sv, ma] => do
    some (profNoBody (← out? sv) (← out? ma)).name
  | ["c12ctl", "profRenderDiff", mi, a, b, c, d, sv] => do
    some (profRenderDiff (← bool? mi) (← parsed? a) (← parsed? b) (← parsed? c) (← parsed? d) (← out? sv)).name
  | _ => none
end Driver.C12
