import Qryn.LogQL.SemStages
import Qryn.Read.JsonPathSyntax
import Qryn.Read.InternalAggPlan
import Driver.C07
import Std.Data.HashMap
/-! Line protocol for C09. Ops:
    `c09run <mode> <ctx: from to limit flushAt maxSeries orderAsc> <plan> <regexes> <templates> <json> <logfmt> <batches>`  mode = model | spec
    `c09bp <tags> <absent>`
    The abstract functions of the model are instantiated here: float64 = Lean `Float` with a decimal parser,
    RE2 = a small backtracking matcher over the AST the harness got from regexp/syntax, templates = the token
    list of the generated sublanguage, JSON/logfmt decoding = tables computed by the harness with jx and
    kr/logfmt, CityHash64 = FNV-1a (fingerprint values are not compared, only the grouping they induce). -/
namespace Driver.C09
open Qryn Qryn.Sql Qryn.LogQL Qryn.Read

def tail1 (s : String) : String := (s.drop 1).toString

/-! ### float64 -/
def digitVal? (c : UInt8) : Option Nat := if 48 ≤ c && c ≤ 57 then some (c.toNat - 48) else none

def takeDigits : Bytes → Nat → Nat → (Nat × Nat × Bytes)   -- value, count, rest
  | [], v, n => (v, n, [])
  | c :: cs, v, n => match digitVal? c with
    | some d => takeDigits cs (v * 10 + d) (n + 1)
    | none => (v, n, c :: cs)

def lowerB (b : Bytes) : Bytes := b.map (fun c => if 65 ≤ c && c ≤ 90 then c + 32 else c)

/-- `strconv.ParseFloat(s, 64)` for decimal syntax, inf and nan (no hex floats, no underscores) -/
def parseFloat (s : Bytes) : Option Float :=
  let (neg, r) := match s with
    | 45 :: r => (true, r)
    | 43 :: r => (false, r)
    | r => (false, r)
  let sign (x : Float) : Float := if neg then -x else x
  let lr := lowerB r
  if lr = "inf".toUTF8.toList || lr = "infinity".toUTF8.toList then some (sign (1.0 / 0.0))
  else if lr = "nan".toUTF8.toList then (if s.length = 3 then some (0.0 / 0.0) else none)
  else
    let (iv, ic, r1) := takeDigits r 0 0
    let (fv, fc, r2) := match r1 with
      | 46 :: r' => takeDigits r' iv 0
      | _ => (iv, 0, r1)
    if ic + fc = 0 then none else
    let finish (e : Int) : Option Float :=
      let e10 := e - fc
      if e10.natAbs > 400 then (if fv = 0 then some (sign 0.0) else if e10 > 0 then some (sign (1.0 / 0.0)) else some (sign 0.0))
      else some (sign (Float.ofScientific fv (e10 < 0) e10.natAbs))
    match r2 with
    | [] => finish 0
    | c :: r3 =>
      if c = 101 || c = 69 then
        let (eneg, r4) := match r3 with
          | 45 :: r' => (true, r')
          | 43 :: r' => (false, r')
          | r' => (false, r')
        let (ev, ec, r5) := takeDigits r4 0 0
        if ec = 0 || !r5.isEmpty then none else finish (if eneg then -(ev : Int) else ev)
      else none

def floatOps : NumOps Float where
  zero := 0.0
  one := 1.0
  add := (· + ·)
  div := (· / ·)
  lt a b := a < b
  le a b := a ≤ b
  eq a b := a == b
  ofNat := Float.ofNat
  parse := parseFloat
  durSeconds d := Float.ofInt d / 1000000000.0   -- float64(Duration.Nanoseconds()) / 1e9 (since the fix of the ms truncation)

/-! ### RE2 subset -/
inductive Re
  | lit (c : UInt8)
  | cls (ranges : List (UInt8 × UInt8))
  | cat (a b : Re)
  | alt (a b : Re)
  | star (a : Re)
  | plus (a : Re)
  | quest (a : Re)
  | bol | eol | empty | fail

/-- continuation matcher; `fuel` bounds the nesting of star iterations -/
def reM : Nat → Re → Array UInt8 → Nat → (Nat → Bool) → Bool
  | 0, _, _, _, _ => false
  | fuel + 1, r, s, pos, k =>
    match r with
    | .lit c => if h : pos < s.size then s[pos] == c && k (pos + 1) else false
    | .cls rs => if h : pos < s.size then rs.any (fun lh => lh.1 ≤ s[pos] && s[pos] ≤ lh.2) && k (pos + 1) else false
    | .cat a b => reM fuel a s pos (fun p => reM fuel b s p k)
    | .alt a b => reM fuel a s pos k || reM fuel b s pos k
    | .star a => k pos || reM fuel a s pos (fun p => p > pos && reM fuel (.star a) s p k)
    | .plus a => reM fuel a s pos (fun p => reM fuel (.star a) s p k)
    | .quest a => k pos || reM fuel a s pos k
    | .bol => pos == 0 && k pos
    | .eol => pos == s.size && k pos
    | .empty => k pos
    | .fail => false

def reSearch (r : Re) (s : Bytes) : Bool :=
  let a := s.toArray
  (List.range (a.size + 1)).any (fun i => reM (4 * a.size + 64) r a i (fun _ => true))

/-- prefix notation, `,`-separated: L<hexbyte> C<lo-hi.lo-hi> . | * + ? ^ $ E X -/
def re? : Nat → List String → Option (Re × List String)
  | 0, _ => none
  | fuel + 1, toks =>
    match toks with
    | [] => none
    | t :: rest =>
      if t = "." then do
        let (a, r1) ← re? fuel rest
        let (b, r2) ← re? fuel r1
        some (.cat a b, r2)
      else if t = "|" then do
        let (a, r1) ← re? fuel rest
        let (b, r2) ← re? fuel r1
        some (.alt a b, r2)
      else if t = "*" then do let (a, r1) ← re? fuel rest; some (.star a, r1)
      else if t = "+" then do let (a, r1) ← re? fuel rest; some (.plus a, r1)
      else if t = "?" then do let (a, r1) ← re? fuel rest; some (.quest a, r1)
      else if t = "^" then some (.bol, rest)
      else if t = "$" then some (.eol, rest)
      else if t = "E" then some (.empty, rest)
      else if t = "X" then some (.fail, rest)
      else if t.startsWith "L" then do
        let n ← (tail1 t).toNat?
        some (.lit (UInt8.ofNat n), rest)
      else if t.startsWith "C" then do
        let body := tail1 t
        let rs ← (if body = "" then some [] else (body.splitOn ".").mapM (fun p => match p.splitOn "-" with
          | [lo, hi] => do some (UInt8.ofNat (← lo.toNat?), UInt8.ofNat (← hi.toNat?))
          | _ => none))
        some (.cls rs, rest)
      else none

/-! ### parsing the protocol line -/
def hexKey (b : Bytes) : String := hexOut b

def table? {α} (f : String → Option α) (s : String) : Option (Std.HashMap String α) :=
  if s = "-" then some {} else
  (s.splitOn ";").foldlM (fun m kv => match kv.splitOn "=" with
    | [k, v] => do some (m.insert k (← f v))
    | _ => none) {}

inductive TplTok
  | lit (s : Bytes)
  | field (name : Bytes)
  | errIf (name val : Bytes)

def tplTok? (s : String) : Option TplTok :=
  match s.splitOn "." with
  | ["l", x] => do some (.lit (← ofHex x))
  | ["f", x] => do some (.field (← ofHex x))
  | ["e", x, y] => do some (.errIf (← ofHex x) (← ofHex y))
  | _ => none

def tplEval (toks : List TplTok) (data : Labels) : Option Bytes :=
  toks.foldlM (fun out t => match t with
    | .lit s => some (out ++ s)
    | .field n => some (out ++ data.get n)
    | .errIf n v => if data.get n = v then none else some out) []

/- JSON tree, prefix tokens: O<hex source text> k<hex> <val> ... E | A<hex source text> <val> ... E | S<hex> | R<hex> | B;
   the document is preceded by V1 / V0: `jx.Valid` of the whole line -/
mutual
def jval? : Nat → List String → Option (JVal × List String)
  | 0, _ => none
  | fuel + 1, toks =>
    match toks with
    | [] => none
    | t :: rest =>
      if t.startsWith "O" then do let (kvs, r) ← jkvs? fuel rest; some (.obj (← ofHex (tail1 t)) kvs, r)
      else if t.startsWith "A" then do let (xs, r) ← jlist? fuel rest; some (.arr (← ofHex (tail1 t)) xs, r)
      else if t = "B" then some (.bad, rest)
      else if t.startsWith "S" then do some (.str (← ofHex (tail1 t)), rest)
      else if t.startsWith "R" then do some (.raw (← ofHex (tail1 t)), rest)
      else none
def jkvs? : Nat → List String → Option (JKvs × List String)
  | 0, _ => none
  | fuel + 1, toks =>
    match toks with
    | [] => none
    | t :: rest =>
      if t = "E" then some (.nil, rest)
      else if t.startsWith "k" then do
        let k ← ofHex (tail1 t)
        let (v, r1) ← jval? fuel rest
        let (more, r2) ← jkvs? fuel r1
        some (.cons k v more, r2)
      else none
def jlist? : Nat → List String → Option (JList × List String)
  | 0, _ => none
  | fuel + 1, toks =>
    match toks with
    | [] => none
    | t :: rest =>
      if t = "E" then some (.nil, rest)
      else do
        let (v, r1) ← jval? fuel (t :: rest)
        let (more, r2) ← jlist? fuel r1
        some (.cons v more, r2)
end

def jdoc? (s : String) : Option (Bool × JVal) :=
  match s.splitOn "," with
  | v :: toks =>
    if v != "V1" && v != "V0" then none else
    match jval? (toks.length + 2) toks with
    | some (d, []) => some (v = "V1", d)
    | _ => none
  | [] => none

def pairs? (s : String) : Option (List (Bytes × Bytes)) :=
  if s = "" || s = "_" then some [] else
  (s.splitOn ",").mapM (fun kv => match kv.splitOn ":" with
    | [k, v] => do some (← ofHex k, ← ofHex v)
    | _ => none)

def hexList? (s : String) : Option (List Bytes) :=
  if s = "_" then some [] else (s.splitOn ",").mapM ofHex

def lineOp? := Driver.C07.lineOp?
def cmpOp? := Driver.C07.cmpOp?

def seg? (s : String) : Option PathSeg :=
  if s.startsWith "k" then do some (.key (← ofHex (tail1 s)))
  else if s.startsWith "i" then do some (.idx (← (tail1 s).toNat?))
  else none

/-- `<name>=<typed path>[=<path text>]`: the typed path is what `shared.JsonPathParamToTypedArray` returned; when the
    text is given and lies in the fragment `Read.parsePath` models, the two have to agree (else the op is refused) -/
def ahead? (s : String) : Option Ahead :=
  match s.splitOn "=" with
  | [l, p] => do
    let segs ← if p = "_" then some [] else (p.splitOn "/").mapM seg?
    some (← ofHex l, segs)
  | [l, p, t] => do
    let segs ← if p = "_" then some [] else (p.splitOn "/").mapM seg?
    match parsePath (← ofHex t) with
    | .outside => some (← ofHex l, segs)
    | .ok p' => if p' = segs then some (← ofHex l, segs) else none
    | .err => none
  | _ => none

def segText : PathSeg → String
  | .key k => "k" ++ hexOut k
  | .idx i => "i" ++ toString i

def num? (s : String) : Option Float := do parseFloat (← ofHex s)

def stageK? (s : String) : Option (StageK Float) :=
  match s.splitOn ":" with
  | ["L", op, v] => do some (.line (← lineOp? op) (← ofHex v))
  | ["F", e] => do
    let toks := e.splitOn ","
    let (c, rest) ← Driver.C07.cond? (toks.length + 1) toks
    if rest.isEmpty then some (.labelFilter c) else none
  | ["P", "json"] => do some (.parser (← planParser .json []))
  | ["P", "logfmt"] => do some (.parser (← planParser .logfmt []))
  | ["P", "jsonp", ps] => do some (.parser (← planParser .json (← (ps.splitOn ",").mapM ahead?)))
  | ["P", "logfmtp", ps] => do some (.parser (← planParser .logfmt (← (ps.splitOn ",").mapM ahead?)))
  | ["LF", ops] => do
    some (.labelFormat (← (ops.splitOn ",").mapM (fun o => match o.splitOn "." with
      | ["c", l, v] => do some (FormatOp.const (← ofHex l) (← ofHex v))
      | ["y", l, v] => do some (FormatOp.copy (← ofHex l) (← ofHex v))
      | _ => none)))
  | ["T", t] => do some (.lineFormat (← ofHex t))
  | ["D", ps] => do
    let nv ← pairs? (ps.replace "=" ":")
    some (.drop (nv.map (·.1)) (nv.map (·.2)))
  | ["U", l] => do some (.unwrap (← ofHex l))
  | _ => none

def rangeFn? : String → Option RangeFn
  | "rate" => some .rate | "count_over_time" => some .countOverTime | "bytes_rate" => some .bytesRate
  | "bytes_over_time" => some .bytesOverTime | _ => some .other
def unwrapFn? : String → Option UnwrapFn
  | "rate" => some .rate | "sum_over_time" => some .sumOverTime | "avg_over_time" => some .avgOverTime
  | "max_over_time" => some .maxOverTime | "min_over_time" => some .minOverTime
  | "first_over_time" => some .firstOverTime | "last_over_time" => some .lastOverTime | _ => some .other
def vecFn? : String → Option VecFn
  | "sum" => some .sum | "min" => some .min | "max" => some .max | "avg" => some .avg | "count" => some .count | _ => none

def byWithout? (s : String) : Option (Option ByWithout) :=
  if s = "-" then some none else
  match s.splitOn "." with
  | ["by", ns] => do some (some ⟨true, ← hexList? ns⟩)
  | ["wo", ns] => do some (some ⟨false, ← hexList? ns⟩)
  | _ => none

def cmp? (s : String) : Option (Option (CmpOp × Float)) :=
  if s = "-" then some none else
  match s.splitOn "." with
  | [op, v] => do some (some (← cmpOp? op, ← num? v))
  | _ => none

def plan? (st agg aggBy aggCmp vec : String) : Option (Plan Float) := do
  let stages ← if st = "-" then some [] else (st.splitOn ";").mapM stageK?
  let a ← if agg = "-" then some none else
    match agg.splitOn "." with
    | ["R", fn, d] => do some (some (AggK.range (← rangeFn? fn), ← d.toInt?))
    | ["W", fn, d] => do some (some (AggK.unwrap (← unwrapFn? fn), ← d.toInt?))
    | _ => none
  let v ← if vec = "-" then some none else
    match vec.splitOn "/" with
    | [fn, bw, c] => do some (some (← vecFn? fn, planVecGrouping (← byWithout? bw), ← cmp? c))
    | _ => none
  some ⟨stages, a, ← byWithout? aggBy, ← cmp? aggCmp, v⟩

def labels? (s : String) : Option Labels :=
  if s = "-" then some [] else
  (s.splitOn "&").mapM (fun kv => match kv.splitOn "=" with
    | [k, v] => do some (← ofHex k, ← ofHex v)
    | _ => none)

def err? (s : String) : Option (Option Err) :=
  if s = "n" then some none
  else if s = "eof" then some (some .eof)
  else if s.startsWith "u" then do some (some (.upstream (← (tail1 s).toNat?)))
  else none

def sortLabels (l : Labels) : Labels := l.foldl (fun acc kv => acc.set kv.1 kv.2) []

def entry? (s : String) : Option (Entry Float) :=
  match s.splitOn ":" with
  | [ts, fp, ls, msg, v, e] => do
    some ⟨← ts.toInt?, UInt64.ofNat (← fp.toNat?), sortLabels (← labels? ls), ← ofHex msg, ← num? v, ← err? e⟩
  | _ => none

def batches? (s : String) : Option (Batches Float) :=
  if s = "-" then some [] else
  (s.splitOn "|").mapM (fun b => if b = "_" then some [] else (b.splitOn ",").mapM entry?)

def fnv1a (b : Bytes) : UInt64 := b.foldl (fun h c => (h ^^^ c.toUInt64) * 1099511628211) 14695981039346656037

structure Tables where
  regexes : Std.HashMap String Re
  templates : Std.HashMap String (List TplTok)
  json : Std.HashMap String (Bool × JVal)
  logfmt : Std.HashMap String (List (Bytes × Bytes))

def numCmpF (fn : String) (x : Bytes) (lit : String) : Bool :=
  match parseFloat x, parseFloat lit.toUTF8.toList with
  | some a, some b =>
    (match fn with
     | "==" => a == b | "!=" => a != b | ">" => a > b | ">=" => a ≥ b | "<" => a < b | "<=" => a ≤ b | _ => false)
  | _, _ => false

def envOf (t : Tables) : Env Float where
  o := { reMatch := fun pat s => match t.regexes[hexKey pat]? with | some r => reSearch r s | none => false,
         jsonLabels := fun _ => [], isNum := fun x => (parseFloat x).isSome, numCmp := numCmpF, lower := lowerB }
  num := floatOps
  jsonDecode := fun m => ((t.json[hexKey m]?).map (·.2)).getD .bad
  jsonValid := fun m => ((t.json[hexKey m]?).map (·.1)).getD false
  logfmtDecode := fun m => (t.logfmt[hexKey m]?).getD []
  tpl := fun tp data => match t.templates[hexKey tp]? with | some toks => tplEval toks data | none => none
  hash := fnv1a

/-- messages that reach a parser stage and are missing from its table -/
def needs (E : Env Float) (t : Tables) (ss : List (StageK Float)) (bs : Batches Float) : List String :=
  (List.range ss.length).flatMap (fun i =>
    match (ss[i]? : Option (StageK Float)) with
    | some (StageK.parser k) =>
      let msgs := ((runStages E (ss.take i) bs).flatten.filter (·.err.isNone)).map (fun e => hexKey e.msg)
      let isJson := match k with | .json | .jsonParams _ => true | _ => false
      msgs.filter (fun m => if isJson then !t.json.contains m else !t.logfmt.contains m)
    | _ => [])

/-! ### canonical output -/
def floatText (x : Float) : String := if x.isNaN then "nan" else if x == 0.0 then "0" else toString x.toBits   -- the sign of a zero is not compared (c9FloatText)

def labelsText (l : Labels) : String :=
  if l.isEmpty then "-" else "&".intercalate ((sortLabels l).map (fun kv => hexOut kv.1 ++ "=" ++ hexOut kv.2))

def entryText (e : Entry Float) : String :=
  s!"{e.ts}:{labelsText e.labels}:{hexOut e.msg}:{floatText e.val}"

def errText : Err → String
  | .eof => "eof" | .upstream n => s!"upstream{n}" | .tooManySeries => "too-many-series"

def groupByFp (es : List (Entry Float)) : List (UInt64 × List (Entry Float)) :=
  es.foldl groupAdd []

/-- first error other than EOF wins; else entries grouped by fingerprint (order inside a group kept),
    groups sorted by their text -/
def canon (out : Batches Float) : String :=
  let flat := out.flatten
  match flat.find? (fun e => match e.err with | some .eof => false | some _ => true | none => false) with
  | some e => "ERR:" ++ (match e.err with | some x => errText x | none => "")
  | none =>
    let groups := (groupByFp (flat.filter (·.err.isNone))).map (fun g => ",".intercalate (g.2.map entryText))
    let sorted := (groups.toArray.qsort (· < ·)).toList
    if sorted.isEmpty then "-" else "|".intercalate sorted

def tag? : String → Option StageTag
  | "line" => some .line | "labelFilter" => some .labelFilter | "jsonNoParams" => some .jsonNoParams
  | "jsonParams" => some .jsonParams | "logfmt" => some .logfmt | "regexp" => some .regexp
  | "lineFormat" => some .lineFormat | "labelFormat" => some .labelFormat | "unwrap" => some .unwrap
  | "drop" => some .drop | _ => none

def handle : List String → Option String
  | ["c09run", mode, fromNs, toNs, limit, flushAt, maxSeries, asc, st, agg, aggBy, aggCmp, vec, res, tps, js, lf, bs] => do
    let c : Read.Ctx := ⟨← fromNs.toInt?, ← toNs.toInt?, ← limit.toInt?, ← flushAt.toNat?, ← maxSeries.toNat?, asc = "1"⟩
    let p ← plan? st agg aggBy aggCmp vec
    let t : Tables := ⟨← table? (fun s => do
        let toks := s.splitOn ","
        let (r, rest) ← re? (toks.length + 2) toks
        if rest.isEmpty then some r else none) res,
      ← table? (fun s => if s = "_" then some [] else (s.splitOn ",").mapM tplTok?) tps,
      ← table? jdoc? js, ← table? pairs? lf⟩
    let E := envOf t
    let batches ← batches? bs
    let missing := needs E t p.stages batches
    if !missing.isEmpty then some ("NEED:" ++ ",".intercalate missing.eraseDups)
    else if mode = "model" then some (canon (runPlan E c p batches))
    else if mode = "spec" then some (canon (Qryn.LogQL.Stages.evalPlan E c p (batches.flatten.filter (·.err.isNone))))
    else none
  | ["c09path", t] => do
    match parsePath (← ofHex t) with
    | .outside => some "outside"
    | .err => some "err"
    | .ok p => some ("ok:" ++ (if p.isEmpty then "_" else "/".intercalate (p.map segText)))
  | ["c09tags", st] => do
    -- what GetBreakpoint sees of the modelled stages, and where splitting them again would cut
    let stages ← if st = "-" then some [] else (st.splitOn ";").mapM stageK?
    let name : StageTag → String
      | .line => "line" | .labelFilter => "labelFilter" | .jsonNoParams => "jsonNoParams" | .jsonParams => "jsonParams"
      | .logfmt => "logfmt" | .regexp => "regexp" | .lineFormat => "lineFormat" | .labelFormat => "labelFormat"
      | .unwrap => "unwrap" | .drop => "drop"
    let (ch, internal) := splitPipeline stages
    some (",".intercalate (stages.map (fun s => name s.tag)) ++ s!"|{ch.length}|{match internal with | some l => toString l.length | none => "none"}")
  | ["c09bp", tags, absent] => do
    let ts ← if tags = "-" then some [] else (tags.splitOn ",").mapM tag?
    let bp := getBreakpoint ts (absent = "1")
    let (ch, internal) := breakScript bp ts
    some s!"{bp}|{ch.length}|{match internal with | some l => toString l.length | none => "none"}"
  | _ => none

end Driver.C09
