import Qryn.Ingest.BatcherAlias
import Qryn.Gen.BatcherAlias
import Driver.C01
/-! Line protocol for the heap model of the promise arrays (C01/C02, stream `inflight`).

`c02alias <kind> <maxQueue> <op>;<op>;…` → `<event>;…#<state>` for ONE sub-service, under `Gen.BatcherAlias.cfg`
  ops: q:<id>:<ptype>:<size>:<arrays>:<scalars>:<grow 0|1>   Request (grow: `append` reallocated)
       t   c:<0|1>   w (swapBuffers)   b (insertBegin: client.Do entered)   d:<0|1> (insertEnd)   p:<0|1>   s
`c02aliascfg` → the regenerated configuration -/
namespace Driver.C02Alias
open Qryn.Ingest.Batcher Qryn.Ingest.BatcherAlias Driver.C01

def op? (s : String) : Option AOp :=
  match s.splitOn ":" with
  | ["q", id, pt, size, arrs, scs, g] => do
    let id ← nat? id; let pt ← ptype? pt; let size ← nat? size
    let arrs ← arrays? arrs; let scs ← scalars? scs; let g ← bool? g
    pure (.request { id := id, ptype := pt, arrays := arrs, scalars := scs, size := size } g)
  | ["t"] => some (.trigger .forced)
  | ["c", b] => do pure (.connect (← bool? b))
  | ["w"] => some .swap
  | ["b"] => some .insertBegin
  | ["d", b] => do pure (.insertEnd (outcomeOf (← bool? b)))
  | ["p", b] => do pure (.ping (← bool? b))
  | ["s"] => some .stop
  | _ => none

def runAlias (k : Kind) (mq : Nat) (ops : List AOp) : String :=
  let r := arun Qryn.Gen.BatcherAlias.cfg (ASvc.init (planOf k) mq) ops
  let evs := ";".intercalate (r.2.map showEvent)
  if r.1.s.crashed then evs ++ "#crashed" else evs ++ "#" ++ showState (view r.1)

def showCfg (c : Cfg) : String :=
  (match c.afterSwap with | .nil => "nil" | .fresh => "fresh" | .reslice => "reslice") ++ " " ++
  (match c.portionRes with | .moved => "moved" | .copied => "copied") ++ " " ++
  (match c.release with | .copy => "copy" | .portion => "portion")

def handle : List String → Option String
  | ["c02alias", k, mq, ops] => do
    let k ← kind? k; let mq ← nat? mq
    let ops ← (ops.splitOn ";").mapM op?
    pure (runAlias k mq ops)
  | ["c02aliascfg"] => some (showCfg Qryn.Gen.BatcherAlias.cfg)
  | _ => none
end Driver.C02Alias
