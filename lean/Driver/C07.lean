import Qryn.LogQL.Planner
namespace Driver.C07
open Qryn Qryn.Sql Qryn.LogQL

def matchOp? : String → Option MatchOp
  | "eq" => some .eq | "neq" => some .neq | "re" => some .re | "nre" => some .nre | _ => none
def lineOp? : String → Option LineOp
  | "contains" => some .contains | "notContains" => some .notContains | "re" => some .re | "nre" => some .nre | _ => none
def cmpOp? : String → Option CmpOp
  | "eq" => some .eq | "neq" => some .neq | "gt" => some .gt | "ge" => some .ge | "lt" => some .lt | "le" => some .le | _ => none

def str? (h : String) : Option String := do String.fromUTF8? (ByteArray.mk (← ofHex h).toArray)

def matcher? (s : String) : Option Matcher :=
  match s.splitOn ":" with
  | [l, op, v] => do some ⟨← ofHex l, ← matchOp? op, ← ofHex v⟩
  | _ => none

def digits? (s : String) : Option (List Nat) :=
  if s = "-" then some [] else s.toList.mapM (fun c => if c.isDigit then some (c.toNat - 48) else none)

/-- prefix-notation label condition; returns the rest of the token list -/
def cond? : Nat → List String → Option (LabelCond × List String)
  | 0, _ => none
  | fuel + 1, toks =>
    match toks with
    | "S" :: l :: op :: v :: rest => do some (.str (← str? l) (← matchOp? op) (← ofHex v), rest)
    | "N" :: l :: op :: i :: f :: rest => do some (.num (← str? l) (← cmpOp? op) ⟨← i.toNat?, ← digits? f⟩, rest)
    | "A" :: rest => do
      let (x, r1) ← cond? fuel rest
      let (y, r2) ← cond? fuel r1
      some (.and x y, r2)
    | "O" :: rest => do
      let (x, r1) ← cond? fuel rest
      let (y, r2) ← cond? fuel r1
      some (.or x y, r2)
    | _ => none

def stage? (s : String) : Option Stage :=
  match s.splitOn ":" with
  | ["L", op, v, lk, ins] => do
    let like ← if lk = "~" then some none else (ofHex lk).map (fun l => some (LikeInfo.mk l (ins = "1")))
    some (.line ⟨← lineOp? op, ← ofHex v, like⟩)
  | ["F", e] => do
    let toks := e.splitOn ","
    let (c, rest) ← cond? (toks.length + 1) toks
    if rest.isEmpty then some (.label c) else none
  | _ => none

def list? {α} (f : String → Option α) (s : String) : Option (List α) :=
  if s = "-" then some [] else (s.splitOn ";").mapM f

def ctx? : List String → Option (Ctx × List String)
  | fromNs :: toNs :: limit :: asc :: tp :: cl :: gin :: smp :: ts :: tsd :: rest => do
    some (⟨← fromNs.toInt?, ← toNs.toInt?, ← limit.toInt?, asc = "1", ← tp.toNat?, cl = "1",
           ← str? gin, ← str? smp, ← str? ts, ← str? tsd⟩, rest)
  | _ => none

def handle : List String → Option String
  | "c07plan" :: args => do
    let (c, rest) ← ctx? args
    match rest with
    | [ms, st] => do
      let q : LogQuery := ⟨← list? matcher? ms, ← list? stage? st⟩
      some (hexOut (renderSel (planLog c q)))
    | _ => none
  | _ => none
end Driver.C07
