import Qryn.Proofs.Encode
import Qryn.Read.EncodeMore
import Qryn.Gen.C15Batch
/-! Line protocol for C15. Words:
    entry  = `<n|e|f>:<fp>:<ts>:<msg hex>:<val hex>:<labels>`, labels = `khex=vhex;…` or `-`
    batches = entries, a word `B` starts the next batch
    answers: chunk lists as comma-joined hex; documents in the dump syntax of `dump`.
    `c15consts` = the values of `Gen.C15Batch.consts` (batching constants regenerated from the source), comma-joined.
    item lists (`c15search`, `c15searchql` with `B`, `c15trace`): hex element texts; answer = hex body.
    `c15promvector` / `c15prommatrix`: words `<labels>:<ttok hex>=<val hex>;…` (labels as for entries). -/
namespace Driver.C15
open Qryn Qryn.Json Qryn.Encode

mutual
def dump : JVal → String
  | .null => "n"
  | .bool true => "t"
  | .bool false => "f"
  | .num t => "#" ++ hexOut t
  | .str s => "$" ++ hexOut s
  | .arr xs => "[" ++ dumpList xs ++ "]"
  | .obj kvs => "{" ++ dumpMembers kvs ++ "}"
def dumpList : List JVal → String
  | [] => ""
  | [x] => dump x
  | x :: y :: r => dump x ++ "," ++ dumpList (y :: r)
def dumpMembers : List (Bytes × JVal) → String
  | [] => ""
  | [(k, v)] => hexOut k ++ ":" ++ dump v
  | (k, v) :: y :: r => hexOut k ++ ":" ++ dump v ++ "," ++ dumpMembers (y :: r)
end

def chunksOut (cs : List Bytes) : String := ",".intercalate (cs.map hexOut)

def parseLabels (s : String) : Option (List (Bytes × Bytes)) :=
  if s = "-" then some []
  else (s.splitOn ";").mapM fun kv =>
    match kv.splitOn "=" with
    | [k, v] => do let k' ← ofHex k; let v' ← ofHex v; pure (k', v')
    | _ => none

def parseEntry (w : String) : Option Entry :=
  match w.splitOn ":" with
  | [k, fp, ts, msg, val, lbl] => do
    let err ← (if k = "n" then some Err.none else if k = "e" then some Err.eof else if k = "f" then some Err.fail else none)
    let fp' ← fp.toNat?
    let ts' ← ts.toInt?
    let m ← ofHex msg
    let v ← ofHex val
    let l ← parseLabels lbl
    pure ⟨err, fp', l, ts', m, v⟩
  | _ => none

/-- words → batches; every `B` closes the current batch -/
def parseBatches (ws : List String) : Option (List (List Entry)) :=
  let rec goB (cur : List Entry) (acc : List (List Entry)) : List String → Option (List (List Entry))
    | [] => some (acc ++ [cur])
    | w :: r =>
      if w = "B" then goB [] (acc ++ [cur]) r
      else match parseEntry w with
        | some e => goB (cur ++ [e]) acc r
        | none => none
  goB [] [] ws

def parseRows (ws : List String) : Option (List Bytes) := ws.mapM ofHex

def parseOrder (s : String) : Option (List Nat) :=
  if s = "-" then some [] else (s.splitOn ",").mapM (·.toNat?)

/-- words → batches of byte strings; `B` closes the current batch -/
def parseItemBatches (ws : List String) : Option (List (List Bytes)) :=
  let rec goB (cur : List Bytes) (acc : List (List Bytes)) : List String → Option (List (List Bytes))
    | [] => some (acc ++ [cur])
    | w :: r =>
      if w = "B" then goB [] (acc ++ [cur]) r
      else match ofHex w with
        | some e => goB (cur ++ [e]) acc r
        | none => none
  goB [] [] ws

def parsePoint (s : String) : Option (Bytes × Bytes) :=
  match s.splitOn "=" with
  | [t, v] => do let t' ← ofHex t; let v' ← ofHex v; pure (t', v')
  | _ => none

def parsePromSeries (w : String) : Option PromSeries :=
  match w.splitOn ":" with
  | [lbl, pts] => do
    let l ← parseLabels lbl
    let ps ← (if pts = "" then some [] else (pts.splitOn ";").mapM parsePoint)
    pure ⟨l, ps⟩
  | _ => none

def parsePromSample (w : String) : Option PromSample := do
  let s ← parsePromSeries w
  match s.points with
  | [p] => pure ⟨s.labels, p.1, p.2⟩
  | _ => none

def parseOut (r : Option (JVal × Bytes)) : String :=
  match r with
  | none => "none"
  | some (v, rest) => dump v ++ "|" ++ hexOut rest

def handle : List String → Option String
  | ["c15escj", h] => (ofHex h).map (fun b => hexOut (escJ b))
  | ["c15escstd", h] => (ofHex h).map (fun b => hexOut (escStd b))
  | ["c15sanitize", h] => (ofHex h).map (fun b => hexOut (sanitize b))
  | ["c15validutf8", h] => (ofHex h).map (fun b => if validUtf8 b then "1" else "0")
  | ["c15parse", h] => (ofHex h).map (fun b => parseOut (parse b))
  | ["c15doc", h] => (ofHex h).map (fun b => match parseDoc b with | some v => dump v | none => "none")
  | ["c15tsf6", t] => t.toInt?.map (fun t => hexOut (tsF6 t))
  | ["c15msf6", t] => t.toInt?.map (fun t => hexOut (msF6 t))
  | ["c15trim", h] => (ofHex h).map (fun b => hexOut (trimVal b))
  | "c15streams" :: ws => (parseBatches ws).map (fun b => chunksOut (streamsChunks b))
  | "c15matrix" :: ws => (parseBatches ws).map (fun b => chunksOut (matrixChunks b))
  | "c15tail" :: ws => (parseBatches ws).map (fun b => hexOut (tailFrame b))
  | "c15vector" :: o :: ws => do
    let ord ← parseOrder o
    let b ← parseBatches ws
    pure (chunksOut (vectorChunks ord b))
  | "c15streamsdoc" :: ws => (parseBatches ws).map (fun b => dump (seriesDoc kStreamsRT streamsShape (rowsOf b.flatten)))
  | "c15matrixdoc" :: ws => (parseBatches ws).map (fun b => dump (seriesDoc kMatrix matrixShape (b.flatMap cutEof)))
  | "c15taildoc" :: ws => (parseBatches ws).map (fun b =>
      dump (.obj [(kStreamsRT, .arr ((runs (rowsOf b.flatten)).map (seriesObj streamsShape)))]))
  | "c15vectordoc" :: o :: ws => do
    let ord ← parseOrder o
    let b ← parseBatches ws
    pure (dump (vectorDoc (ord.filterMap (fun fp => lookupFp fp (lastValues (vectorRows b))))))
  | "c15labels" :: ws => (parseRows ws).map (fun r => chunksOut (labelsChunks r))
  | "c15series" :: ws => (parseRows ws).map (fun r => chunksOut (seriesChunks r))
  | "c15tags" :: ws => (parseRows ws).map (fun r => chunksOut (tagsChunks r))
  | "c15tagvalues" :: ws => (parseRows ws).map (fun r => chunksOut (tagValuesChunks r))
  | ["c15scalar", t, v] => do
    let t' ← t.toInt?
    let v' ← ofHex v
    pure (chunksOut (scalarChunks t' v'))
  | ["c15getterbatch"] => some (toString Gen.C15Batch.getterBatch)
  | ["c15consts"] => some (",".intercalate (Gen.C15Batch.consts.map (fun c => toString c.2.2.2)))
  | "c15search" :: ws => (parseRows ws).map (fun r => hexOut (searchBody r))
  | "c15trace" :: ws => (parseRows ws).map (fun r => hexOut (traceBody r))
  | "c15searchql" :: ws => (parseItemBatches ws).map (fun b => hexOut (searchQLBody b))
  | "c15promvector" :: ws => (ws.mapM parsePromSample).map (fun ss => hexOut (promVectorBody ss))
  | "c15prommatrix" :: ws => (ws.mapM parsePromSeries).map (fun ss => hexOut (promMatrixBody ss))
  | ["c15promerror", h] => (ofHex h).map (fun m => hexOut (print (promErrorDoc m)))
  | ["c15buildinfo", h] => (ofHex h).map (fun v => hexOut (print (buildinfoDoc v)))
  | ["c15queryconst", t] => t.toInt?.map (fun t => hexOut (print (queryConstDoc t)))
  | "c15labelsbuf" :: n :: ws => do
    let n' ← n.toNat?
    let b ← parseItemBatches ws
    pure (chunksOut (listBuffered labelsPre (Qryn.SepEnc.everyN n') (b.map (·.map stdstr))))
  | _ => none
end Driver.C15
