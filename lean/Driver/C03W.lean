import Driver.C03
import Qryn.Ingest.WireDecode
/-! Line protocol for the decoder models over intermediate values (`Qryn.Ingest.Wire`):

    `c03wids <proto> <ctxTtl> <now> <aux> <iv>` → `error`, or the label lists the decoder model hands to the builder,
       after the `__ttl_days__` preamble and `validUTF8Labels` (the arguments of the abstract `fp` / `encLen`), `;`-separated;
    `c03w <proto> <ctxTtl> <now> <table> <aux> <iv>` → `error`, or the chunk sequence (same text as `c03`).

    `<iv>` is the canonical s-expression of the third-party library's output on the body (see `harness/cmd/vcheck/c03wire.go`);
    `<aux>` the values of the abstract library functions on the strings of the body: the `text/scanner` tokens of every label
    text (Loki), the matches of the Datadog tag pattern (Datadog logs); `-` otherwise. -/
namespace Driver.C03W
open Qryn Qryn.Ingest Qryn.Ingest.Wire Driver.C03

def optInt : Tree → Option (Option Int)
  | .atom ['~'] => some none
  | t => t.int.map some

partial def json? : Tree → Option Json
  | .atom ['n'] => some .null
  | .atom ['t'] => some (.bool true)
  | .atom ['f'] => some (.bool false)
  | .node [.atom ['N'], text, f, i] => do some (.num (← text.hex) (← f.optU64) (← optInt i))
  | .node [.atom ['S'], s] => do some (.str (← s.hex))
  | .node (.atom ['A'] :: items) => do some (.arr (← items.mapM json?))
  | .node (.atom ['O'] :: ms) => do
    some (.obj (← ms.mapM (fun m => match m with
      | .node [k, v] => do some (← k.hex, ← json? v)
      | _ => none)))
  | _ => none

def tok? : Tree → Option Tok
  | .node [.atom ['I'], t] => do some (.ident (← t.hex))
  | .node [.atom ['S'], t] => do some (.str (← t.optHex))
  | .node [.atom ['C'], c] => do some (.ch (← c.nat))
  | .atom ['X'] => some .other
  | _ => none

def scanRow? : Tree → Option (Bytes × List Tok)
  | .node [s, toks] => do some (← s.hex, ← toks.list tok?)
  | _ => none

def tagRow? : Tree → Option (Bytes × Labels)
  | .node [s, ls] => do some (← s.hex, ← labels? ls)
  | _ => none

def auxList {α} (f : Tree → Option α) : Tree → Option (List α)
  | .atom ['-'] => some []
  | t => t.list f

def tableFn {β} (tbl : List (Bytes × β)) (dflt : β) (s : Bytes) : β :=
  match tbl.find? (fun r => r.1 == s) with
  | some r => r.2
  | none => dflt

partial def anyVal? : Tree → Option AnyVal
  | .atom ['u'] => some .unset
  | .node [.atom ['S'], s] => do some (.str (← s.hex))
  | .node [.atom ['B'], b] => do some (.bool ((← b.nat) != 0))
  | .node [.atom ['I'], i] => do some (.int (← i.int))
  | .node [.atom ['D'], bits, shown] => do some (.double (← bits.u64) (← shown.hex))
  | .node [.atom ['Y'], raw, b64] => do some (.bytes (← raw.hex) (← b64.hex))
  | .node (.atom ['A'] :: items) => do some (.arr (← items.mapM anyVal?))
  | .node (.atom ['K'] :: ms) => do
    some (.kvl (← ms.mapM (fun m => match m with
      | .node [k, v] => do some (← k.hex, ← anyVal? v)
      | _ => none)))
  | _ => none

def attr? : Tree → Option (Bytes × AnyVal)
  | .node [k, v] => do some (← k.hex, ← anyVal? v)
  | _ => none

def pbRec? : Tree → Option PbLogRecord
  | .node [attrs, sev, body, ts] => do some ⟨← attrs.list attr?, ← sev.hex, ← anyVal? body, ← ts.nat⟩
  | _ => none
def pbScope? : Tree → Option PbScopeLogs
  | .node [attrs, recs] => do some ⟨← attrs.list attr?, ← recs.list pbRec?⟩
  | _ => none
def pbRes? : Tree → Option PbResourceLogs
  | .node [attrs, scopes] => do some ⟨← attrs.list attr?, ← scopes.list pbScope?⟩
  | _ => none

def pbEntry? : Tree → Option PbEntry
  | .node [s, n, l] => do some ⟨← s.int, ← n.int, ← l.hex⟩
  | _ => none
def pbStream? : Tree → Option PbStream
  | .node [ls, es] => do some ⟨← ls.hex, ← es.list pbEntry?⟩
  | _ => none

def field? : Tree → Option Field
  | .node [k, .atom ['I'], v, kv] => do some ⟨← k.hex, .int (← v.int), ← kv.optHex⟩
  | .node [k, .atom ['U'], v, kv] => do some ⟨← k.hex, .uint (← v.nat), ← kv.optHex⟩
  | .node [k, .atom ['F'], v, kv] => do some ⟨← k.hex, .float (← v.u64), ← kv.optHex⟩
  | .node [k, .atom ['B'], v, kv] => do some ⟨← k.hex, .bool ((← v.nat) != 0), ← kv.optHex⟩
  | .node [k, .atom ['S'], v, kv] => do some ⟨← k.hex, .str (← v.hex), ← kv.optHex⟩
  | _ => none
def metric? : Tree → Option Metric
  | .node [name, tags, fields, time] => do some ⟨← name.hex, ← labels? tags, ← fields.list field?, ← time.int⟩
  | _ => none

/-- the decoder model of a protocol on an intermediate value: outer `none` = malformed operation,
    inner `none` = `Decode` returns an error -/
def calls? (proto : String) (now : Int) (aux iv : Tree) : Option (Option (List Call)) :=
  match proto with
  | "loki" => do
    let tbl ← auxList scanRow? aux
    some (lokiJsonDecode (tableFn tbl []) (← json? iv))
  | "lokiproto" => do
    let tbl ← auxList scanRow? aux
    some (lokiProtoDecode (tableFn tbl []) (← iv.list pbStream?))
  | "prom" => do some (some (decodeProm Gen.pointsHit (← iv.list promSeries?)))
  | "influx" => do some (influxDecode (← iv.list metric?))
  | "ddlogs" => do
    let tbl ← auxList tagRow? aux
    some (ddLogsDecode (tableFn tbl []) now (← json? iv))
  | "ddseries" => do some (ddSeriesDecode now (← json? iv))
  | "otlp" => do some (some (otlpDecode (← iv.list pbRes?)))
  | _ => none

def showIdent (ls : Labels) : String :=
  if ls.isEmpty then "@" else "+".intercalate (ls.map (fun l => hexOut l.1 ++ "=" ++ hexOut l.2))

def handle : List String → Option String
  | ["c03wids", proto, ctxTtl, now, aux, iv] => do
    let ttl ← ctxTtl.toNat?
    match ← calls? proto (← now.toInt?) (← parseTree aux) (← parseTree iv) with
    | none => some "error"
    | some calls => some (joinOr ";" (calls.map (fun c => showIdent (identOf ttl c.labels))))
  | ["c03w", proto, ctxTtl, now, table, aux, iv] => do
    let tbl ← (← parseTree table).list tableRow?
    let env := Env.ofGen (fun ls => (lookup tbl ls).1) (fun ls => (lookup tbl ls).2) (← ctxTtl.toNat?)
    match ← calls? proto (← now.toInt?) (← parseTree aux) (← parseTree iv) with
    | none => some "error"
    | some calls =>
      match parse env calls with
      | .error _ => some "fault"
      | .ok chunks => some ("|".intercalate (chunks.map showChunk))
  | _ => none
end Driver.C03W
