import Driver.C07
import Qryn.LogQL.PlannerX
import Qryn.LogQL.GrammarC07
/-! line protocol for the extended LogQL log-query planner model (`LogQL.planLogX`) -/
namespace Driver.C07X
open Qryn Qryn.Sql Qryn.LogQL Driver.C07

def jarg? (s : String) : Option JArg :=
  if s.startsWith "k" then (ofHex (s.drop 1).toString).map .key
  else if s.startsWith "i" then (s.drop 1).toString.toInt?.map .idx
  else none

def jparam? (s : String) : Option (Bytes × List JArg) :=
  match s.splitOn "=" with
  | [l, p] => do some (← ofHex l, ← (if p = "-" then some [] else (p.splitOn "/").mapM jarg?))
  | _ => none

def dparam? (s : String) : Option (Bytes × Bytes) :=
  match s.splitOn "=" with
  | [l, v] => do some (← ofHex l, ← ofHex v)
  | _ => none

def commaList? {α} (f : String → Option α) (s : String) : Option (List α) :=
  if s = "~" then some [] else (s.splitOn ",").mapM f

def stageX? (s : String) : Option StageX :=
  match s.splitOn ":" with
  | ["J", ps] => do some (.ch (.json (← commaList? jparam? ps)))
  | ["R", names, re] => do some (.ch (.regexp (← commaList? ofHex names) (← ofHex re)))
  | ["D", ps] => do some (.ch (.drop (← commaList? dparam? ps)))
  | _ => (stage? s).map .fl

def scriptStage? (s : String) : Option ScriptStage :=
  match s.splitOn ":" with
  | ["I", tag] => some (.inproc tag)
  | _ => (stageX? s).map .sql

def handle : List String → Option String
  | "c07planx" :: args => do
    let (c, rest) ← ctx? args
    match rest with
    | [ms, st] => do
      some (hexOut (renderSel (planScript c (← list? matcher? ms) (← list? scriptStage? st))))
    | _ => none
  -- the classification of the grammar's productions (struct:field:class:what-the-model-makes-of-it, hex)
  | ["c07gram"] =>
    let hx (s : String) : String := hexOut s.toUTF8.toList
    some (";".intercalate (GrammarC07.classTable.map (fun e => s!"{hx e.1.1}:{hx e.1.2.1}:{hx e.1.2.2}:{hx e.2}")))
  -- the analysis of a pipeline: marks of `simpleOps` and `labelsJoinIdx`
  | ["c07analyze", st] => do
    let ss ← list? stageX? st
    let marks := String.join ((simpleOps ss).map (fun b => if b then "1" else "0"))
    some s!"{if marks = "" then "-" else marks} {match labelsJoinIdx ss with | some j => toString j | none => "-1"}"
  | _ => none
end Driver.C07X
