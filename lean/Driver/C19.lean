import Qryn.Ctrl.Rotate
import Qryn.Gen.Rotate
/-! Line protocol for C19 (retention):
    `c19fp <hex>`                      → decimal DJB fingerprint
    `c19keys`                          → `<fp> <fp> …|<tableHex> …` the order in which the state is printed
    `c19chain <step> <step> …`         → per step `ok:nStatements:fnv(log text):fnv(state text)`
    `c19chainv <step> …`               → per step `ok|hex(log text)|hex(state text)`
    step = `<clusterHex>,<dist 0/1>,<policyHex>,<days>,<tiers>/<fault>`, tiers = `_` or `<ns>:<diskHex>;…`,
    fault = `n` | `b<k>` (statement k fails without effect) | `a<k>` (fails after taking effect).
    A chain starts from the fresh database (no settings rows, TTL "init", storage policy "default"). -/
namespace Driver.C19
open Qryn Qryn.Ctrl.Rotate

def defs : List GroupDef := ofGen Qryn.Gen.Rotate.groups

def keyFps : List Nat := (defs.map GroupDef.fp).eraseDups
def keyTables : List Bytes := (defs.flatMap (·.tables)).eraseDups

def fresh : St := ⟨fun _ => [], fun _ => asc "init", fun _ => asc "default"⟩

def parseTier (s : String) : Option Tier :=
  match s.splitOn ":" with
  | [n, d] => do let ns ← n.toInt?; let disk ← ofHex d; pure ⟨ns, disk⟩
  | _ => none

def parseTiers (s : String) : Option (List Tier) :=
  if s = "_" then some [] else (s.splitOn ";").mapM parseTier

def parseFault (s : String) : Option (Option Fault) :=
  if s = "n" then some none
  else match s.toList with
    | 'b' :: r => (String.ofList r).toNat?.map (fun k => some ⟨k, false⟩)
    | 'a' :: r => (String.ofList r).toNat?.map (fun k => some ⟨k, true⟩)
    | _ => none

def parseStep (s : String) : Option (Cfg × Option Fault) :=
  match s.splitOn "/" with
  | [c, f] =>
    match c.splitOn "," with
    | [cl, d, p, days, ts] => do
      let cluster ← ofHex cl
      let policy ← ofHex p
      let dn ← days.toInt?
      let tiers ← parseTiers ts
      let ft ← parseFault f
      pure (⟨cluster, d = "1", policy, dn, tiers⟩, ft)
    | _ => none
  | _ => none

def pushBytes (b : ByteArray) (x : Bytes) : ByteArray := x.foldl ByteArray.push b
def pushStr (b : ByteArray) (s : String) : ByteArray := b ++ s.toUTF8
/-- a byte string in the canonical text: decimal length, `:`, the bytes -/
def pushVal (b : ByteArray) (x : Bytes) : ByteArray := pushBytes (pushStr b s!"{x.length}:") x

def pushStmt (b : ByteArray) : Stmt → ByteArray
  | .read d fp => pushStr b s!"R {if d then 1 else 0} {fp}\n"
  | .put fp tp nm v => pushStr (pushVal (pushStr (pushVal (pushStr (pushVal (pushStr b s!"P {fp} ") tp) " ") nm) " ") v) "\n"
  | .alterPolicy t c p => pushStr (pushVal (pushStr (pushVal (pushStr (pushVal (pushStr b "AP ") t) " ") c) " ") p) "\n"
  | .alterTune t c => pushStr (pushVal (pushStr (pushVal (pushStr b "AS ") t) " ") c) "\n"
  | .alterTTL t c e => pushStr (pushVal (pushStr (pushVal (pushStr (pushVal (pushStr b "AT ") t) " ") c) " ") e) "\n"

def logText (l : List Stmt) : ByteArray := l.foldl pushStmt ByteArray.empty

def stateText (s : St) : ByteArray :=
  let b := keyFps.foldl (fun b fp => pushStr (pushVal (pushStr b s!"M {fp} ") (s.marker fp)) "\n") ByteArray.empty
  let b := keyTables.foldl (fun b t => pushStr (pushVal (pushStr (pushVal (pushStr b "T ") t) " ") (s.ttl t)) "\n") b
  keyTables.foldl (fun b t => pushStr (pushVal (pushStr (pushVal (pushStr b "S ") t) " ") (s.policy t)) "\n") b

def fnv (s : ByteArray) : UInt64 :=
  s.foldl (fun (x : UInt64) (b : UInt8) => (x ^^^ b.toUInt64) * 0x100000001b3) 0xcbf29ce484222325

def chain (verbose : Bool) (steps : List (Cfg × Option Fault)) : String :=
  let rec go (s : St) : List (Cfg × Option Fault) → List String
    | [] => []
    | (c, f) :: rest =>
      let o := run defs c f s
      let line :=
        if verbose then s!"{if o.ok then 1 else 0}|{hexOut (logText o.log).toList}|{hexOut (stateText o.st).toList}"
        else s!"{if o.ok then 1 else 0}:{o.log.length}:{(fnv (logText o.log)).toNat}:{(fnv (stateText o.st)).toNat}"
      line :: go o.st rest
  " ".intercalate (go fresh steps)

def handle : List String → Option String
  | ["c19fp", h] => (ofHex h).map (fun b => toString (djb b).toNat)
  | ["c19keys"] => some (" ".intercalate (keyFps.map toString) ++ "|" ++ " ".intercalate (keyTables.map hexOut))
  | "c19chain" :: steps => (steps.mapM parseStep).map (chain false)
  | "c19chainv" :: steps => (steps.mapM parseStep).map (chain true)
  | _ => none
end Driver.C19
