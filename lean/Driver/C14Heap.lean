import Qryn.Sql.PlanHeap
/-! Line protocol for `Sql/PlanHeap.lean` (C14, stream `heap-model`): programs over lists of naturals.
    `c14heap <globals> <tokens…>`: globals `d.d.d@cap/…` or `-`; programs separated by `;`; instructions
    `L:dst:spare:xs` `P:dst:g` `S:plan:src` `G:dst:plan` `W:r:i:v` `M:r:k` `A:dst:src:v:spare` `C:dst:src` `E:plan`,
    `IF:r:k … ELSE … END` (continuation style). Answer: the rendered lists of each translation (`|` between lists, `;`
    between translations), `#`, the package-level arrays afterwards. -/
namespace Driver.C14Heap
open Qryn.PlanHeap

def nats? (s : String) : Option (List Nat) :=
  if s = "-" then some [] else (s.splitOn ".").mapM String.toNat?

def showList (xs : List Nat) : String := if xs.isEmpty then "-" else ".".intercalate (xs.map toString)

/-- the in-place patch of the `M` instruction: even elements move by `k` (as `LRAPlanner` renames one alias) -/
def patch (k x : Nat) : Nat := if x % 2 = 0 then x + k else x

def instr? (tok : String) : Option (Instr Nat) :=
  match tok.splitOn ":" with
  | ["L", d, sp, xs] => do some (.lit (← d.toNat?) (← nats? xs) (← sp.toNat?))
  | ["P", d, g] => do some (.pkg (← d.toNat?) (← g.toNat?))
  | ["S", p, s] => do some (.store (← p.toNat?) (← s.toNat?))
  | ["G", d, p] => do some (.load (← d.toNat?) (← p.toNat?))
  | ["W", r, i, v] => do some (.setAt (← r.toNat?) (← i.toNat?) (← v.toNat?))
  | ["M", r, k] => do
    let k ← k.toNat?
    some (.mapAt (← r.toNat?) (patch k))
  | ["A", d, s, v, sp] => do some (.append (← d.toNat?) (← s.toNat?) (← v.toNat?) (← sp.toNat?))
  | ["C", d, s] => do some (.copy (← d.toNat?) (← s.toNat?))
  | ["E", p] => do some (.emit (← p.toNat?))
  | _ => none

def prog? : Nat → List String → Option (Prog Nat × List String)
  | 0, _ => none
  | _, [] => some (.done, [])
  | fuel + 1, tok :: rest =>
    if tok = "ELSE" || tok = "END" || tok = ";" then some (.done, tok :: rest)
    else
      match tok.splitOn ":" with
      | ["IF", r, k] => do
        let r ← r.toNat?
        let k ← k.toNat?
        let (t, rest1) ← prog? fuel rest
        match rest1 with
        | "ELSE" :: rest2 => do
          let (e, rest3) ← prog? fuel rest2
          match rest3 with
          | "END" :: rest4 => some (.branch r (fun xs => xs.contains k) t e, rest4)
          | _ => none
        | _ => none
      | _ => do
        let i ← instr? tok
        let (k, rest') ← prog? fuel rest
        some (.step i k, rest')

def progs? : Nat → List String → Option (List (Prog Nat))
  | 0, _ => none
  | _, [] => some []
  | fuel + 1, toks => do
    let (p, rest) ← prog? (toks.length + 1) toks
    match rest with
    | [] => some [p]
    | ";" :: rest' => do some (p :: (← progs? fuel rest'))
    | _ => none

def global? (s : String) : Option (Cell Nat) :=
  match s.splitOn "@" with
  | [d, c] => do some ⟨← nats? d, ← c.toNat?⟩
  | _ => none

def heapOf (cells : List (Cell Nat)) : Heap Nat := ⟨fun a => cells.getD a ⟨[], 0⟩, cells.length⟩

def handle : List String → Option String
  | "c14heap" :: gs :: toks => do
    let cells ← if gs = "-" then some [] else (gs.splitOn "/").mapM global?
    let ps ← progs? (toks.length + 1) toks
    let G : List Slice := (List.range cells.length).map (fun i => ⟨i, (cells.getD i ⟨[], 0⟩).data.length⟩)
    let h0 := heapOf cells
    let outs := runSeq G h0 ps
    let hN := heapAfter G h0 ps
    let showT (o : List (List Nat)) : String := if o.isEmpty then "_" else "|".intercalate (o.map showList)
    some (";".intercalate (outs.map showT) ++ "#" ++
      "/".intercalate ((List.range cells.length).map (fun i => showList (hN.cell i).data)))
  | _ => none
end Driver.C14Heap
