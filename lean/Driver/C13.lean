import Qryn.Read.Tables
import Qryn.Proofs.ConfineRead
import Qryn.Prof.SelectorCtx
import Driver.C00Sql
import Driver.C08
import Driver.C11
import Driver.C17
namespace Driver.C13
open Qryn Qryn.Sql Qryn.Confine

def withReport (cfg : Cfg) (w : Window) : List Alias → List (Alias × Sel) → List String
  | _, [] => []
  | ok, (a, s) :: rest =>
    (a.text ++ "=" ++ toString (bodyConfined cfg w ok s)) :: withReport cfg w (if yieldsOk cfg 64 ok s then a :: ok else ok) rest

/-- the hypotheses of the `all_scans_confined_*` theorems on the table classification, for `lokiCfg` -/
def lokiOk (c : LogQL.Ctx) : Bool :=
  lokiCfg.kind c.samplesTable == .data && lokiCfg.kind c.ginTable == .index && lokiCfg.kind c.tsTable == .index &&
    lokiCfg.kind c.tsDistTable == .index
def traceOk (c : TraceQL.Ctx) : Bool :=
  lokiCfg.kind c.attrsTable == .index && lokiCfg.kind c.attrsDistTable == .index && lokiCfg.kind c.tracesTable == .data &&
    lokiCfg.kind c.tracesDistTable == .data && lokiCfg.byId c.tracesTable && lokiCfg.byId c.tracesDistTable

def traceOut (c : TraceQL.Ctx) (r : TraceQL.PlanM Sel) : String :=
  match r with
  | .ok s => s!"{hexOut (renderSel s)} {confinedDeep lokiCfg (winT c) 64 s} {traceOk c}"
  | .error _ => "ERR"

def matchers? (s : String) : Option (List LogQL.Matcher) := Driver.C07.list? Driver.C07.matcher? s

def handle : List String → Option String
  | ["c13confined", fromNs, toNs, slack, needType, tp, dump] => do
    let w : Window := ⟨← fromNs.toInt?, ← toNs.toInt?, ← slack.toInt?, needType = "1", ← tp.toInt?⟩
    let txt ← Driver.C00Sql.dumpText dump
    match Dump.selOfDump txt with
    | none => some "dump-parse-error"
    | some s =>
      let r := confinedDeep lokiCfg w 64 s
      match s with
      | .mk ws _ _ _ _ _ _ _ _ _ _ =>
        some (toString r ++ " " ++ " ".intercalate (withReport lokiCfg w [] ws) ++ " main=" ++
          toString (bodyConfined lokiCfg w (okDeep lokiCfg 64 [] ws) s))
  | ["c13classified"] => some (toString allClassified)
  | ["c13date", sec] => do some (hexOut (Time.formatDate (← sec.toInt?)))
  -- the planner models the `all_scans_confined_*` theorems are about: text, the window's slack, the verdict of the
  -- predicate on the model's own plan (true by the theorem) and whether `lokiCfg` satisfies the theorem's hypotheses
  | "c13metric" :: args => do
    let (c, rest) ← Driver.C08.mctx? args
    let (q, rest') ← Driver.C08.query? rest
    if !rest'.isEmpty then none
    let s := LogQL.planMetric c q
    let w := winMetric c q
    some s!"{hexOut (renderSel s)} {w.slackNs} {w.tp} {confined lokiCfg w s} {lokiOk c.toCtx && lokiCfg.kind c.metrics15Table == .data}"
  | "c13trace" :: args => do
    let (c, rest) ← Driver.C11.ctx? args
    match rest with
    | [sc] => do some (traceOut c (TraceQL.plan c (← Driver.C11.parseScript sc)))
    | _ => none
  | "c13tags" :: args => do
    let (c, rest) ← Driver.C11.ctx? args
    match rest with
    | [sc] => do some (traceOut c (TraceQL.planTags c "tempo_traces_kv_dist" (← Driver.C11.parseScript sc)))
    | _ => none
  | "c13tvalues" :: args => do
    let (c, rest) ← Driver.C11.ctx? args
    match rest with
    | [kv, key, sc] => do
      let kvt ← Driver.C07.str? kv
      let r := traceOut c (TraceQL.planValues c kvt (← ofHex key) (← Driver.C11.parseScript sc))
      some (if r = "ERR" then r else r ++ s!" {lokiCfg.kind kvt == .index}")
    | _ => none
  | "c13series" :: args => do
    let (c, rest) ← Driver.C07.ctx? args
    match rest with
    | [ms, _] => do
      let s := LogQL.planSeries c (← matchers? ms)
      some s!"{hexOut (renderSel s)} {confined lokiCfg (winOf c) s} {lokiOk c}"
    | _ => none
  | "c13values" :: args => do
    let (c, rest) ← Driver.C07.ctx? args
    match rest with
    | [key, ms, _] => do
      let q : Option (List LogQL.Matcher) ← if ms = "NOSEL" then some none else (matchers? ms).map some
      let s := LogQL.planValues c (← ofHex key) q
      some s!"{hexOut (renderSel s)} {confined lokiCfg (winOf c) s} {lokiOk c}"
    | _ => none
  | "c13prom" :: kind :: args => do
    let (c, rest) ← Driver.C07.ctx? args
    match rest with
    | [m15, start, end_, step, range, fn, ms] => do
      let h : Prom.Hints := ⟨← start.toInt?, ← end_.toInt?, ← step.toInt?, ← range.toInt?, ← Driver.C07.str? fn⟩
      let m15 ← Driver.C07.str? m15
      let mss ← matchers? ms
      let s := if kind = "raw" then Prom.transpileRaw c h mss else Prom.transpileDown c m15 h mss
      some s!"{hexOut (renderSel s)} {confined lokiCfg (winOf c) s} {lokiOk c && lokiCfg.kind m15 == .data}"
    | _ => none
  | ["c13prof", table, fromNs, toNs, sels] => do
    let sels ← Driver.C17.allSome ((Driver.C17.parseList sels).map Driver.C17.parseSelector)
    match Prof.profSelector (← Driver.C07.str? table) (← fromNs.toInt?) (← toNs.toInt?) sels with
    | none => some "unsupported"
    | some q => some (hexOut q.render)
  | _ => none
end Driver.C13
