import Qryn.Read.Tables
import Driver.C00Sql
namespace Driver.C13
open Qryn Qryn.Sql Qryn.Confine

def withReport (cfg : Cfg) (w : Window) : List Alias → List (Alias × Sel) → List String
  | _, [] => []
  | ok, (a, s) :: rest =>
    (a.text ++ "=" ++ toString (bodyConfined cfg w ok s)) :: withReport cfg w (if yieldsOk cfg 64 ok s then a :: ok else ok) rest

def handle : List String → Option String
  | ["c13confined", fromNs, toNs, slack, needType, tp, dump] => do
    let w : Window := ⟨← fromNs.toInt?, ← toNs.toInt?, ← slack.toInt?, needType = "1", ← tp.toInt?⟩
    let txt ← Driver.C00Sql.dumpText dump
    match Dump.selOfDump txt with
    | none => some "dump-parse-error"
    | some s =>
      let r := confinedDeep lokiCfg w 64 s
      match s with
      | .mk ws _ _ _ _ _ _ _ _ _ _ =>
        some (toString r ++ " " ++ " ".intercalate (withReport lokiCfg w [] ws) ++ " main=" ++
          toString (bodyConfined lokiCfg w (okDeep lokiCfg 64 [] ws) s))
  | ["c13classified"] => some (toString allClassified)
  | ["c13date", sec] => do some (hexOut (Time.formatDate (← sec.toInt?)))
  | _ => none
end Driver.C13
