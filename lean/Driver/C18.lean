import Qryn.Ctrl.Migrate
import Qryn.Gen.Migrations
/-! Line protocol for C18 (the executable definitions of `Qryn.Ctrl.Migrate` over `Qryn.Gen.Migrations`):
    `c18names`                                    names table
    `c18streams`                                  `k:file:clusterOnly,…` in the order of `Update`
    `c18sched <mode> <prefix> <attempts> <d|f|l>` a sequence of starts from an empty server.
        prefix   = `-` or six comma-separated script counts (in `c18streams` order): first a clean start of
                   the program truncated to these counts (an older release's files)
        attempts = comma list: `c` clean start, `<n>` call n fails without effect, `<n>a` call n is applied
                   and then reported as failed
        answer   = per start `status/ncalls/state[/calls]` joined by ` ; `; state is a digest (`d`) or the
                   canonical rendering (`f`, `l`); `l` adds the call log of the start -/
namespace Driver.C18
open Qryn.Ctrl.Migrate Qryn.Gen.Migrations

def nm (i : Nat) : String := names.getD i ("?" ++ toString i)
def nms (l : List Nat) : String := ",".intercalate (l.map nm)
def b01 (b : Bool) : String := if b then "1" else "0"

def kindStr : Kind → String
  | .table => "table" | .view => "view" | .mview => "mview"

def opStr : AlterOp → String
  | .addColumn c g => "add:" ++ nm c ++ ":" ++ b01 g
  | .modifyOrderBy h => "order:" ++ toString h

def stmtStr : Stmt → String
  | .createDatabase g => "createDatabase/" ++ b01 g
  | .create k n g cols body needs =>
    "create/" ++ kindStr k ++ "/" ++ nm n ++ "/" ++ b01 g ++ "/" ++ nms cols ++ "/" ++ toString body ++ "/" ++ nms needs
  | .drop n g => "drop/" ++ nm n ++ "/" ++ b01 g
  | .rename a b g => "rename/" ++ nm a ++ "/" ++ nm b ++ "/" ++ b01 g
  | .alter n ops => "alter/" ++ nm n ++ "/" ++ ",".intercalate (ops.map opStr)
  | .insert n => "insert/" ++ nm n

def errStr : Err → String
  | .noDatabase => "noDatabase"
  | .databaseExists => "databaseExists"
  | .exists_ n => "exists:" ++ nm n
  | .missing n => "missing:" ++ nm n
  | .dupColumn t c => "dupColumn:" ++ nm t ++ ":" ++ nm c
  | .notTable n => "notTable:" ++ nm n

def objStr (o : Obj) : String :=
  kindStr o.kind ++ ":" ++ nm o.name ++ "(" ++ nms o.cols ++ ")#" ++ toString o.body ++ "#" ++ toString o.order

def catStr (c : Cat) : String :=
  let parts := ((c.objs.map objStr).toArray.qsort (· < ·)).toList
  (if c.db then "db1" else "db0") ++ " " ++ " ".intercalate parts

def stateStr (d : Db) : String :=
  "vers=" ++ ",".intercalate (d.vers.map (fun p => toString p.1 ++ ":" ++ toString p.2)) ++ " " ++ catStr d.cat

def fnv64 (s : String) : UInt64 :=
  s.toUTF8.foldl (fun h b => (h ^^^ b.toUInt64) * 1099511628211) 14695981039346656037

def callStr : Call → String
  | .boot s => "exec:" ++ stmtStr s
  | .query k => "query:" ++ toString k
  | .script _ _ s => "exec:" ++ stmtStr s
  | .record k v => "record:" ++ toString k ++ ":" ++ toString v

def statusStr : Status → String
  | .done => "done"
  | .died => "died"
  | .failed e => "failed:" ++ errStr e

def modeOf : String → Option Mode
  | "single" => some .single
  | "replicated" => some .replicated
  | "clustered" => some .clustered
  | "clustered_replicated" => some .clusteredReplicated
  | _ => none

def parseFault (s : String) : Option (Option Fault) :=
  if s == "c" then some none
  else if s.endsWith "a" then (s.dropEnd 1).toString.toNat?.map (fun n => some ⟨n, true⟩)
  else s.toNat?.map (fun n => some ⟨n, false⟩)

/-- the program of an older release: each stream's file cut to its first `n` scripts -/
def truncate (P : List Phase) (ns : List (Nat × Nat)) : List Phase :=
  P.map fun ph => match ph.scripts with
    | none => ph
    | some (k, ss) => match ns.find? (·.1 == k) with
      | some (_, n) => { ph with scripts := some (k, ss.take n) }
      | none => ph

def outStr (P : List Phase) (db : Db) (f : Option Fault) (detail : String) : String × Db :=
  let o := attempt P db f
  let st := if detail == "d" then toString (fnv64 (stateStr o.db)) else stateStr o.db
  let log := if detail == "l" then "/" ++ " ".intercalate (((calls P db).take o.ncalls).map callStr) else ""
  (statusStr o.status ++ "/" ++ toString o.ncalls ++ "/" ++ st ++ log, o.db)

def runSched (P : List Phase) (detail : String) : Db → List (Option Fault) → List String
  | _, [] => []
  | db, f :: r => let (s, db') := outStr P db f detail; s :: runSched P detail db' r

def handle : List String → Option String
  | ["c18names"] => some (",".intercalate names)
  | ["c18streams"] => some (",".intercalate (streams.map fun (k, f, d) => toString k ++ ":" ++ f ++ ":" ++ b01 d))
  | ["c18sched", m, prefix_, atts, detail] => do
    let mode ← modeOf m
    let fs ← (atts.splitOn ",").mapM parseFault
    let P := prog mode
    if prefix_ == "-" then
      some (" ; ".intercalate (runSched P detail emptyDb fs))
    else
      let ns ← (prefix_.splitOn ",").mapM (·.toNat?)
      if ns.length != streams.length then none else
      let P0 := truncate P ((streams.map (·.1)).zip ns)
      let (s0, db0) := outStr P0 emptyDb none detail
      some (" ; ".intercalate (s0 :: runSched P detail db0 fs))
  | _ => none
end Driver.C18
