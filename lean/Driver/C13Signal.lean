import Driver.C13
import Qryn.Read.ConfinePromLabels
import Qryn.LogQL.PlannerMetric
import Qryn.Read.TailInline
import Qryn.Tempo.SearchCtl
/-! line protocol of C13's signal half and of the Prometheus metadata statements -/
namespace Driver.C13Signal
open Qryn Qryn.Sql Qryn.Confine Qryn.Prom

/-- `ms~req|ms~req` (`ms` as for `c13prom`: `name:op:val;…`; `req` one character per matcher); `-` = no selector -/
def sels? (s : String) : Option (List PromSel) :=
  if s = "-" then some []
  else (s.splitOn "|").mapM (fun x =>
    match x.splitOn "~" with
    | [ms, req] => do some ⟨← Driver.C13.matchers? ms, if req = "-" then [] else req.toList.map (· == '1')⟩
    | _ => none)

def stmtOut (c : LogQL.Ctx) (tp : Int) (extra : Bool) (st : PromStmt) : String :=
  s!"{hexOut st.render} {promConfined lokiCfg (winOf c) st} {promSignal lokiCfg tp st} {Driver.C13.lokiOk c && extra}"

def handle : List String → Option String
  -- the Prometheus metadata statements: text, `promConfined` and `promSignal` (for the API signal given) of the model's statement,
  -- the theorem's hypotheses under `lokiCfg`
  | "c13plabels" :: sig :: args => do
    let (c, rest) ← Driver.C07.ctx? args
    match rest with
    | [table, lt, ss] => do
      let t ← Driver.C07.str? table
      some (stmtOut c (← sig.toInt?) (lokiCfg.kind t == .index) (promLabels c t (← lt.toInt?) (← sels? ss)))
    | _ => none
  | "c13pvalues" :: sig :: args => do
    let (c, rest) ← Driver.C07.ctx? args
    match rest with
    | [key, ss] => do some (stmtOut c (← sig.toInt?) true (promValues c (← ofHex key) (← sels? ss)))
    | _ => none
  | "c13pseries" :: sig :: args => do
    let (c, rest) ← Driver.C07.ctx? args
    match rest with
    | [ss] => do some (stmtOut c (← sig.toInt?) true (promSeries c (← sels? ss)))
    | _ => none
  -- the signal predicate on the reflection dump of a REAL statement
  | ["c13signal", tp, dump] => do
    let txt ← Driver.C00Sql.dumpText dump
    match Dump.selOfDump txt with
    | none => some "dump-parse-error"
    | some s => some (toString (signalDeep lokiCfg (← tp.toInt?) 64 s))
  -- … and on the model's own plans (true by `signal_confined_logql` / `_metric` for the entry contexts)
  | "c13siglog" :: sig :: args => do
    let (c, rest) ← Driver.C07.ctx? args
    match rest with
    | [ms, st] => do
      let q : LogQL.LogQuery := ⟨← Driver.C07.list? Driver.C07.matcher? ms, ← Driver.C07.list? Driver.C07.stage? st⟩
      some (toString (signalConfined lokiCfg (← sig.toInt?) (LogQL.planLog c q)))
    | _ => none
  -- the cluster rendering (`STRING_OPT_INLINE_WITH`) of the log planner's statement
  | "c13planinline" :: args => do
    let (c, rest) ← Driver.C07.ctx? args
    match rest with
    | [ms, st] => do
      let q : LogQL.LogQuery := ⟨← Driver.C07.list? Driver.C07.matcher? ms, ← Driver.C07.list? Driver.C07.stage? st⟩
      some (hexOut (renderSelInline (LogQL.planLog c q)))
    | _ => none
  -- `parseTraceSearchParams`: what `start` / `end` (seconds) become
  | ["c13tctl", s, e] => do
    let show_ : Tempo.CtlEnd → String := fun | .refused => "refused" | .default_ => "default" | .ns n => toString n
    match Tempo.ctlSecond (← s.toInt?), Tempo.ctlSecond (← e.toInt?) with
    | .refused, _ => some "refused"
    | _, .refused => some "refused"
    | a, c => some (show_ a ++ " " ++ show_ c)
  | "c13sigmetric" :: sig :: args => do
    let (c, rest) ← Driver.C08.mctx? args
    let (q, rest') ← Driver.C08.query? rest
    if !rest'.isEmpty then none
    some (toString (signalConfined lokiCfg (← sig.toInt?) (LogQL.planMetric c q)))
  | _ => none
end Driver.C13Signal
