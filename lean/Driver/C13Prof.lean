import Qryn.Prof.Planners
import Qryn.Proofs.ConfineProf
import Qryn.Read.Tables
import Driver.C07
import Driver.C17
namespace Driver.C13Prof
open Qryn Qryn.Sql Qryn.Prof Qryn.Confine

def sels? (s : String) : Option (List (Selector × Bool)) :=
  Driver.C17.allSome ((Driver.C17.parseList s).map Driver.C17.parseSelector)

/-- what `getMatchers` makes of a selector list (global conditions, key/value conditions, `kvRequired`); the selectors come
    as `eq|ne|re|nre:<hex name>:<hex value>[:e]`, `:e` = Go's `regexp` finds the anchored pattern in the empty string (the
    answer `acceptsEmpty` gets; `Driver.C17.greOf` makes the `gre` of `Prof.plan` of these flags) -/
def conds? (s : String) : Option PQuery := do
  let ss ← sels? s
  Prof.plan (Driver.C17.greOf ss) "" [] [] (ss.map (·.1))

def bytesList? (s : String) : Option (List Bytes) := (Driver.C17.parseList s).mapM ofHex

def ctx? : List String → Option (PCtx × List String)
  | fromNs :: toNs :: limit :: gin :: gind :: ser :: serd :: prof :: rest => do
    some (⟨← fromNs.toInt?, ← toNs.toInt?, ← limit.toInt?, ← Driver.C07.str? gin, ← Driver.C07.str? gind, ← Driver.C07.str? ser,
           ← Driver.C07.str? serd, ← Driver.C07.str? prof⟩, rest)
  | _ => none

/-- the hypotheses of the `prof_*_confined` theorems on the table classification, for `lokiCfg` -/
def profOk (c : PCtx) : Bool :=
  lokiCfg.kind c.ginTable == .index && lokiCfg.kind c.ginDistTable == .index && lokiCfg.kind c.seriesTable == .index &&
    lokiCfg.kind c.seriesDistTable == .index && lokiCfg.kind c.profilesDistTable == .data

def out (c : PCtx) (s : Sel) : String := s!"{hexOut (renderSel s)} {confined lokiCfg (winProf c) s} {profOk c}"

def handle : List String → Option String
  | "c13profplan" :: kind :: args => do
    let (c, rest) ← ctx? args
    match kind, rest with
    | "mergeprofiles", [fp, main] => do
      let q ← conds? fp
      let m ← conds? main
      some (out c (mergeProfiles c q m.globals))
    | "mergetraces", [tu, fp, main] => do
      let q ← conds? fp
      let m ← conds? main
      some (out c (mergeTraces c (← ofHex tu) q m.globals))
    | "selectseries", [tu, avg, step, gb, fp, main] => do
      let q ← conds? fp
      let m ← conds? main
      let labels := getLabels c (← bytesList? gb) q m.globals
      some (out c (selectSeries c (← ofHex tu) (avg = "1") (← step.toInt?) labels m.globals))
    | "series", [labels, sl] => do
      let ls ← bytesList? labels
      if sl = "NOSEL" then some (out c (planSeries c ls none))
      else do
        let q ← conds? sl
        some (out c (planSeries c ls (some q)))
    | "labelsunion", [col, label, scripts] => do
      let l : Option Bytes ← if label = "NONE" then some none else (ofHex label).map some
      let ps ← (scripts.splitOn "|").mapM conds?
      let u := labelsUnion c (← Driver.C07.str? col) l ps
      some s!"{hexOut u.render} {unionConfined lokiCfg (winProf c) u} {profOk c}"
    | "seriesunion", [labels, scripts] => do
      let ps ← (scripts.splitOn "|").mapM conds?
      let u := seriesUnion c (← bytesList? labels) ps
      some s!"{hexOut u.render} {unionConfined lokiCfg (winProf c) u} {profOk c}"
    | "analyze", [sl] => do
      let q ← conds? sl
      some (out c (analyzeQuery c q))
    | "labelnames", [] => some (out c (labelsNoSel c "key" none))
    | "labelvalues", [l] => do some (out c (labelsNoSel c "val" (some (← ofHex l))))
    | _, _ => none
  | _ => none
end Driver.C13Prof
