import Qryn.Prof.Planners
import Qryn.Proofs.ConfineProf
import Qryn.Read.Tables
import Driver.C07
import Driver.C17
namespace Driver.C13Prof
open Qryn Qryn.Sql Qryn.Prof Qryn.Confine

def sels? (s : String) : Option (List (Selector × Bool)) :=
  Driver.C17.allSome ((Driver.C17.parseList s).map Driver.C17.parseSelector)

/-- the global and key/value conditions `getMatchers` makes of a selector list -/
def conds? (s : String) : Option (List PCond × List PCond) := do
  let ss ← sels? s
  let q ← Prof.plan (Driver.C17.greOf ss) "" [] [] (ss.map (·.1))
  some (q.globals, q.kvs)

def bytesList? (s : String) : Option (List Bytes) := (Driver.C17.parseList s).mapM ofHex

def ctx? : List String → Option (PCtx × List String)
  | fromNs :: toNs :: limit :: gin :: gind :: ser :: serd :: prof :: rest => do
    some (⟨← fromNs.toInt?, ← toNs.toInt?, ← limit.toInt?, ← Driver.C07.str? gin, ← Driver.C07.str? gind, ← Driver.C07.str? ser,
           ← Driver.C07.str? serd, ← Driver.C07.str? prof⟩, rest)
  | _ => none

/-- the hypotheses of the `prof_*_confined` theorems on the table classification, for `lokiCfg` -/
def profOk (c : PCtx) : Bool :=
  lokiCfg.kind c.ginTable == .index && lokiCfg.kind c.ginDistTable == .index && lokiCfg.kind c.seriesTable == .index &&
    lokiCfg.kind c.seriesDistTable == .index && lokiCfg.kind c.profilesDistTable == .data

def out (c : PCtx) (s : Sel) : String := s!"{hexOut (renderSel s)} {confined lokiCfg (winProf c) s} {profOk c}"

def handle : List String → Option String
  | "c13profplan" :: kind :: args => do
    let (c, rest) ← ctx? args
    match kind, rest with
    | "mergeprofiles", [fp, main] => do
      let (g, k) ← conds? fp
      let (mg, _) ← conds? main
      some (out c (mergeProfiles c g k mg))
    | "mergetraces", [tu, fp, main] => do
      let (g, k) ← conds? fp
      let (mg, _) ← conds? main
      some (out c (mergeTraces c (← ofHex tu) g k mg))
    | "selectseries", [tu, avg, step, gb, fp, main] => do
      let (g, k) ← conds? fp
      let (mg, _) ← conds? main
      let labels := getLabels c (← bytesList? gb) g k mg
      some (out c (selectSeries c (← ofHex tu) (avg = "1") (← step.toInt?) labels mg))
    | "series", [labels, sl] => do
      let ls ← bytesList? labels
      if sl = "NOSEL" then some (out c (planSeries c ls none))
      else do
        let (g, k) ← conds? sl
        some (out c (planSeries c ls (some (g, k))))
    | "labelsunion", [col, label, scripts] => do
      let l : Option Bytes ← if label = "NONE" then some none else (ofHex label).map some
      let ps ← (scripts.splitOn "|").mapM conds?
      let u := labelsUnion c (← Driver.C07.str? col) l ps
      some s!"{hexOut u.render} {unionConfined lokiCfg (winProf c) u} {profOk c}"
    | "seriesunion", [labels, scripts] => do
      let ps ← (scripts.splitOn "|").mapM conds?
      let u := seriesUnion c (← bytesList? labels) ps
      some s!"{hexOut u.render} {unionConfined lokiCfg (winProf c) u} {profOk c}"
    | "analyze", [sl] => do
      let (g, k) ← conds? sl
      some (out c (analyzeQuery c g k))
    | "labelnames", [] => some (out c (labelsNoSel c "key" none))
    | "labelvalues", [l] => do some (out c (labelsNoSel c "val" (some (← ofHex l))))
    | _, _ => none
  | _ => none
end Driver.C13Prof
