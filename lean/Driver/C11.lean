import Qryn.TraceQL.Portions
import Qryn.TraceQL.Grammar
namespace Driver.C11
open Qryn Qryn.Sql Qryn.TraceQL

def str? (h : String) : Option String := do String.fromUTF8? (ByteArray.mk (← ofHex h).toArray)

def digits? (s : String) : Option (List Nat) :=
  if s = "-" then some [] else s.toList.mapM (fun c => if c.isDigit then some (c.toNat - 48) else none)

def op? : String → Option Op
  | "eq" => some .eq | "neq" => some .neq | "lt" => some .lt | "le" => some .le | "gt" => some .gt
  | "ge" => some .ge | "re" => some .re | "nre" => some .nre | _ => none

def unit? : String → Option TUnit
  | "ns" => some .ns | "us" => some .us | "ms" => some .ms | "s" => some .s | "m" => some .m
  | "h" => some .h | "d" => some .d | _ => none

def bop? : String → Option BoolOp
  | "and" => some .and | "or" => some .or | "none" => some .none | _ => none

def sop? : String → Option ScriptOp
  | "and" => some .and | "or" => some .or | "none" => some .none | _ => none

def fn? : String → Option AggFn
  | "count" => some .count | "sum" => some .sum | "min" => some .min | "max" => some .max | "avg" => some .avg
  | _ => none

abbrev P (α : Type) := List String → Option (α × List String)

def num? : P Num
  | neg :: i :: dot :: f :: rest => do some (⟨neg = "1", ← digits? i, dot = "1", ← digits? f⟩, rest)
  | _ => none

def val? : P Value
  | "D" :: rest => do
    let (n, r) ← num? rest
    match r with | u :: r' => some (.dur n (← unit? u), r') | _ => none
  | "N" :: rest => do let (n, r) ← num? rest; some (.num n, r)
  | "S" :: raw :: unq :: rest => do
    some (.str (← ofHex raw) (← if unq = "!" then some none else (ofHex unq).map some), rest)
  | _ => none

def term? : P Term
  | l :: o :: rest => do let (v, r) ← val? rest; some (⟨← str? l, ← op? o, v⟩, r)
  | _ => none

def attrExp? : Nat → P AttrExp
  | 0, _ => none
  | fuel + 1, toks =>
    match toks with
    | "L" :: rest => do let (t, r) ← term? rest; some (.leaf t, r)
    | "P" :: rest => do let (e, r) ← attrExp? fuel rest; some (.paren e, r)
    | "LO" :: rest => do
      let (t, r) ← term? rest
      match r with
      | o :: r1 => do let (tl, r2) ← attrExp? fuel r1; some (.leafOp t (← bop? o) tl, r2)
      | _ => none
    | "PO" :: rest => do
      let (e, r) ← attrExp? fuel rest
      match r with
      | o :: r1 => do let (tl, r2) ← attrExp? fuel r1; some (.parenOp e (← bop? o) tl, r2)
      | _ => none
    | _ => none

def agg? : P (Option Agg)
  | "NOAGG" :: rest => some (none, rest)
  | "AGG" :: f :: attr :: cmp :: rest => do
    let (n, r) ← num? rest
    match r with
    | u :: r' => do
      let a ← if attr = "-" then some "" else str? attr
      let u ← if u = "-" then some none else (unit? u).map some
      some (some ⟨← fn? f, a, ← op? cmp, n, u⟩, r')
    | _ => none
  | _ => none

def selector? (fuel : Nat) : P (Selector × ScriptOp)
  | "SEL" :: rest => do
    let (attrs, r) ← match rest with
      | "NOATTR" :: r => some (none, r)
      | _ => (attrExp? fuel rest).map (fun (e, r) => (some e, r))
    let (ag, r) ← agg? r
    match r with | o :: r' => some ((⟨attrs, ag⟩, ← sop? o), r') | _ => none
  | _ => none

def script? : Nat → List String → Option Script
  | 0, _ => none
  | _, [] => some []
  | fuel + 1, toks => do
    let (s, r) ← selector? (toks.length + 1) toks
    let rest ← script? fuel r
    some (s :: rest)

def parseScript (s : String) : Option Script :=
  let toks := s.splitOn ","
  script? (toks.length + 1) toks

def ctx? : List String → Option (Ctx × List String)
  | fromNs :: toNs :: zone :: limit :: cl :: tAt :: tAtd :: tTr :: tTrd :: rmax :: ri :: cached :: rest => do
    let cs ← if cached = "-" then some [] else (cached.splitOn ",").mapM str?
    some (⟨← fromNs.toInt?, ← toNs.toInt?, ← zone.toInt?, ← limit.toInt?, cl = "1",
           ← str? tAt, ← str? tAtd, ← str? tTr, ← str? tTrd, ← rmax.toInt?, ← ri.toInt?, cs⟩, rest)
  | _ => none

def out (r : PlanM Sel) : String :=
  match r with
  | .ok s => hexOut (renderSel s)
  | .error _ => "ERR"

/-! ### executable oracles for `c11eval`: exact decimal arithmetic, substring "regex" -/
def parseDec (s : Bytes) : Option (Int × Nat) :=
  let (neg, r) := match s with | 45 :: r => (true, r) | _ => (false, s)
  let ip := r.takeWhile (fun c => 48 ≤ c ∧ c ≤ 57)
  let rest := r.dropWhile (fun c => 48 ≤ c ∧ c ≤ 57)
  let val : Bytes → Nat := fun ds => ds.foldl (fun (acc : Nat) c => acc * 10 + (c.toNat - 48)) 0
  if ip.isEmpty then none else
  match rest with
  | [] => some ((if neg then -((val ip : Nat) : Int) else ((val ip : Nat) : Int)), 1)
  | 46 :: fp =>
    if fp.all (fun c => 48 ≤ c ∧ c ≤ 57) then
      let n : Int := ((val ip * 10 ^ fp.length + val fp : Nat) : Int)
      some ((if neg then -n else n), 10 ^ fp.length)
    else none
  | _ => none

def ratCmp (f : String) (a b : Int × Nat) : Bool :=
  let x := a.1 * b.2; let y := b.1 * a.2
  match f with
  | "==" => x == y | "!=" => x != y | "<" => x < y | "<=" => x ≤ y | ">" => x > y | ">=" => x ≥ y | _ => false

def ratAdd (a b : Int × Nat) : Int × Nat := (a.1 * b.2 + b.1 * a.2, a.2 * b.2)
def ratLe (a b : Int × Nat) : Bool := a.1 * b.2 ≤ b.1 * a.2

def isInfix (p s : Bytes) : Bool := (List.range (s.length + 1)).any (fun i => p.isPrefixOf (s.drop i))

def orc : Oracles where
  reMatch := fun p s => isInfix p s
  jsonLabels := fun _ => []
  isNum := fun s => (parseDec s).isSome
  numCmp := fun f s l => match parseDec s, parseDec l.toUTF8.toList with
    | some a, some b => ratCmp f a b
    | _, _ => false
  lower := id

def aorc : AggOracles where
  aggCmp := fun agg texts f lit =>
    let xs := texts.filterMap parseDec
    match xs, parseDec lit.toUTF8.toList with
    | x :: rest, some l =>
      let v : Int × Nat :=
        if agg = "sumIf" then rest.foldl ratAdd x
        else if agg = "avgIf" then let s := rest.foldl ratAdd x; (s.1, s.2 * xs.length)
        else if agg = "minIf" then rest.foldl (fun m y => if ratLe y m then y else m) x
        else rest.foldl (fun m y => if ratLe m y then y else m) x
      ratCmp f v l
    | _, _ => false

def attrRow? (s : String) : Option AttrRow :=
  match s.splitOn ":" with
  | [d, k, v, t, sp, ts, du] => do some ⟨← ofHex d, ← ofHex k, ← ofHex v, ← ofHex t, ← ofHex sp, ← ts.toInt?, ← du.toInt?, []⟩
  | _ => none

def db? (s : String) : Option TraceDb :=
  if s = "-" then some { attrs := [] } else do some { attrs := ← (s.splitOn ";").mapM attrRow? }

def spanRow? (s : String) : Option SpanRow :=
  match s.splitOn ":" with
  | [t, sp, ts, du] => do some ⟨← ofHex t, ← ofHex sp, ← ts.toInt?, ← du.toInt?⟩
  | _ => none

def dbs? (attrs spans : String) : Option TraceDb := do
  let d ← db? attrs
  let sp ← if spans = "-" then some [] else (spans.splitOn ";").mapM spanRow?
  some { d with spansT := sp }

def bytesLe (a b : Bytes) : Bool := decide (a ≤ b)

def idsOut (ids : List Bytes) : String :=
  let l := sortBy bytesLe ids
  if l.isEmpty then "-" else ",".intercalate (l.map hexOut)

def traceIdsOf (t : Table) : List Bytes := t.filterMap (fun r => match r.get "trace_id" with | .str s => some s | _ => none)

/-- SQL reading (evalSelG of the model's root select, no limit) against the direct reading -/
def evalBoth (c : Ctx) (script : Script) (d : TraceDb) : String :=
  match rootSel c script with
  | .error _ => "ERR"
  | .ok sel =>
    let sql := traceIdsOf (evalSelG orc aorc (d.toDb c) true [] sel)
    let spec := matchingTraces orc aorc c d script
    let lim := traceIdsOf (evalSelG orc aorc (d.toDb c) true [] (indexLimit c sel))
    let okLim := if c.limit ≤ 0 then lim == sql else lim == sql.take c.limit.toNat
    (if sortBy bytesLe sql == sortBy bytesLe spec ∧ sql.length == (dedup sql).length ∧ okLim then "OK" else "DIFF") ++
      " sql:" ++ idsOut sql ++ " spec:" ++ idsOut spec

/-! ### the statement as the REAL planner built it: the Go object tree, serialised by the harness -/
abbrev PE (α : Type) := List String → Option (α × List String)

def nTimes {α} (f : PE α) : Nat → PE (List α)
  | 0, toks => some ([], toks)
  | k + 1, toks => do
    let (x, r) ← f toks
    let (xs, r') ← nTimes f k r
    some (x :: xs, r')

mutual
def pExpr : Nat → PE Expr
  | 0, _ => none
  | fuel + 1, toks =>
    match toks with
    | "r" :: h :: rest => do some (.raw (← str? h), rest)
    | "s" :: h :: rest => do some (.str (← ofHex h), rest)
    | "i" :: n :: rest => do some (.int (← n.toInt?), rest)
    | "n" :: h :: rest => do some (.numLit (← str? h), rest)
    | "w" :: h :: rest => do some (.withRef (.named (← str? h)), rest)
    | "ai" :: h :: rest => do some (.anyIfNum (← ofHex h), rest)
    | "c" :: h :: rest => do let (e, r) ← pExpr fuel rest; some (.col e (← str? h), r)
    | "d" :: rest => do let (e, r) ← pExpr fuel rest; some (.distinct e, r)
    | "o" :: dir :: rest => do let (e, r) ← pExpr fuel rest; some (.orderBy e (if dir = "asc" then .asc else .desc), r)
    | "aj" :: rest => do
      let (a, r) ← pExpr fuel rest
      let (b', r') ← pExpr fuel r
      some (.arrayJoin a b', r')
    | "in" :: rest => do
      let (l, r) ← pExpr fuel rest
      match r with
      | k :: r1 => do let (es, r2) ← pExprs fuel (← k.toNat?) r1; some (.isIn l es, r2)
      | _ => none
    | "l" :: h :: k :: rest => do let (es, r) ← pExprs fuel (← k.toNat?) rest; some (.logical (← str? h) es, r)
    | "t" :: h :: k :: rest => do let (es, r) ← pExprs fuel (← k.toNat?) rest; some (.callT (← str? h) es, r)
    | "f" :: h :: k :: rest => do let (es, r) ← pExprs fuel (← k.toNat?) rest; some (.call (← str? h) es, r)
    | "b" :: h :: k :: rest => do let (es, r) ← pExprs fuel (← k.toNat?) rest; some (.bitSet es (← str? h), r)
    | "u" :: h :: k :: rest => do let (ss, r) ← pSels fuel (← k.toNat?) rest; some (.setOp (← str? h) ss, r)
    | _ => none
def pExprs : Nat → Nat → PE (List Expr)
  | 0, _, _ => none
  | _, 0, toks => some ([], toks)
  | fuel + 1, k + 1, toks => do
    let (x, r) ← pExpr fuel toks
    let (xs, r') ← pExprs fuel k r
    some (x :: xs, r')
def pOpt : Nat → PE (Option Expr)
  | 0, _ => none
  | fuel + 1, toks =>
    match toks with
    | "0" :: rest => some (none, rest)
    | "1" :: rest => do let (e, r) ← pExpr fuel rest; some (some e, r)
    | _ => none
def pSel : Nat → PE Sel
  | 0, _ => none
  | fuel + 1, toks =>
    match toks with
    | "S" :: kw :: rest => do
      let (ws, r) ← pWiths fuel (← kw.toNat?) rest
      match r with
      | dist :: kc :: r1 => do
        let (cols, r2) ← pExprs fuel (← kc.toNat?) r1
        let (fr, r3) ← pOpt fuel r2
        match r3 with
        | kj :: r4 => do
          let (js, r5) ← pJoins fuel (← kj.toNat?) r4
          let (pre, r6) ← pOpt fuel r5
          let (wh, r7) ← pOpt fuel r6
          match r7 with
          | kg :: r8 => do
            let (gb, r9) ← pExprs fuel (← kg.toNat?) r8
            let (hv, r10) ← pOpt fuel r9
            match r10 with
            | ko :: r11 => do
              let (ob, r12) ← pExprs fuel (← ko.toNat?) r11
              let (lim, r13) ← pOpt fuel r12
              some (.mk ws (dist = "1") cols fr js pre wh gb hv ob lim, r13)
            | _ => none
          | _ => none
        | _ => none
      | _ => none
    | _ => none
def pSels : Nat → Nat → PE (List Sel)
  | 0, _, _ => none
  | _, 0, toks => some ([], toks)
  | fuel + 1, k + 1, toks => do
    let (x, r) ← pSel fuel toks
    let (xs, r') ← pSels fuel k r
    some (x :: xs, r')
def pWiths : Nat → Nat → PE (List (Alias × Sel))
  | 0, _, _ => none
  | _, 0, toks => some ([], toks)
  | fuel + 1, k + 1, toks =>
    match toks with
    | h :: rest => do
      let (x, r) ← pSel fuel rest
      let (xs, r') ← pWiths fuel k r
      some ((.named (← str? h), x) :: xs, r')
    | _ => none
def pJoins : Nat → Nat → PE (List (String × Alias × Expr))
  | 0, _, _ => none
  | _, 0, toks => some ([], toks)
  | fuel + 1, k + 1, toks =>
    match toks with
    | tp :: al :: rest => do
      let (on, r) ← pExpr fuel rest
      let (xs, r') ← pJoins fuel k r
      some ((← str? tp, .named (← str? al), on) :: xs, r')
    | _ => none
end

def selNoLimit : Sel → Sel
  | .mk ws d c f j p w g h o _ => .mk ws d c f j p w g h o none
def selLimitOf : Sel → Option Expr
  | .mk _ _ _ _ _ _ _ _ _ _ l => l

/-- the REAL `index_grouped` select (object tree of the Go planner): its rendering must be the real text;
    then its Sql.SemG reading is compared with the direct reading of the script -/
def evalReal (c : Ctx) (script : Script) (d : TraceDb) (ast : String) (text : Bytes) : String :=
  let toks := ast.splitOn ","
  match pSel (toks.length + 1) toks with
  | some (sel, []) =>
    if renderSel sel != text then "BADAST"
    else
      let sql := traceIdsOf (evalSelG orc aorc (d.toDb c) true [] (selNoLimit sel))
      let spec := matchingTraces orc aorc c d script
      let lim := traceIdsOf (evalSelG orc aorc (d.toDb c) true [] sel)
      let okLim : Bool := match selLimitOf sel with
        | some (Expr.int n) => lim == sql.take n.toNat
        | _ => lim == sql
      (if sortBy bytesLe sql == sortBy bytesLe spec ∧ sql.length == (dedup sql).length ∧ okLim then "OK" else "DIFF") ++
        " sql:" ++ idsOut sql ++ " spec:" ++ idsOut spec
  | _ => "BADAST"

/-! ### whole statements: `Sql.SemJ` against `TraceQL.SemWhole` -/
def isAllScript (script : Script) : Bool :=
  match script with
  | [(s, _)] => s.attrs.isNone
  | _ => false

def subsetB (a b : List Bytes) : Bool := a.all (fun x => b.contains x)

def hexList (l : List Bytes) : String := if l.isEmpty then "-" else ",".intercalate (l.map hexOut)

def outSer (t : TraceOut) : String :=
  hexOut t.traceId ++ ":" ++ hexList t.spanIds ++ ":" ++ ",".intercalate (t.durs.map toString) ++ ":" ++
    ",".intercalate (t.tss.map toString) ++ ":" ++ toString t.start

def outsSer (l : List TraceOut) : String := if l.isEmpty then "-" else ";".intercalate (l.map outSer)

/-- the specification of a search on `d` (window of `c`): matching traces, recency, selected span ids -/
structure Spec where
  M : List Bytes
  recOf : Bytes → Int
  U : Bytes → List Bytes
  perSel : Bytes → List (List Bytes)

def specOf (c : Ctx) (script : Script) (d : TraceDb) : Spec :=
  if isAllScript script then
    { M := dedup ((d.spansT.filter (spanInWindow c)).map (·.traceId)), recOf := allTraceRec c d, U := allTraceSpans c d,
      perSel := fun tr => [allTraceSpans c d tr] }
  else
    { M := matchingTraces orc aorc c d script, recOf := traceRec orc aorc c d script, U := traceSpans orc aorc c d script,
      perSel := fun tr => (matchedSels (fun s => selMatches orc aorc c d s tr) script).map (fun s => selSpans orc c d s tr) }

/-- `IsTopN` decided -/
def topNBad (sp : Spec) (n : Option Nat) (K : List Bytes) : Option String :=
  if K.length != (dedup K).length then some "trace-twice"
  else if !(subsetB K sp.M) then some "not-described"
  else if (match n with | some n => decide (n < K.length) | none => false) then some "more-than-limit"
  else
    let cut := sp.M.filter (fun m => !K.contains m)
    if !cut.isEmpty && (match n with | some n => K.length != n | none => true) then some "described-trace-missing"
    else if cut.any (fun m => K.any (fun k => decide (sp.recOf k < sp.recOf m))) then some "older-kept-newer-cut"
    else none

def sortedDesc (l : List Int) : Bool :=
  match l with
  | [] => true
  | x :: xs => (xs.all (fun y => decide (y ≤ x))) && sortedDesc xs

def spanSetBad (sp : Spec) (all : Bool) (t : Bytes) (vs : List Bytes) : Option String :=
  let U := sp.U t
  if vs.isEmpty then some "no-spans"
  else if !all && vs.length != (dedup vs).length then some "span-twice"     -- `{}` reads the span table: a span stored twice is there twice
  else if !(subsetB vs U) then some "span-not-selected"
  else if 100 < vs.length then some "more-than-100-spans"
  else if (sp.perSel t).all (fun l => decide (l.length ≤ 100)) && decide ((dedup U).length ≤ 100) && !(subsetB U vs) then some "selected-span-missing"
  else none

def limitOf (c : Ctx) : Option Nat := if c.limit = 0 then none else some c.limit.toNat

/-- the whole statement `sel` on `d`: `index_grouped` must be a choice of the `limit` most recent described traces
    with admissible span sets, and the rows of the statement must be `assemble` of it -/
def judgeWhole (c : Ctx) (script : Script) (d : TraceDb) (sel : Sel) : String :=
  let db := d.toDb c
  let env := evalWithsJ orc aorc db [] (selWiths sel)
  let ig := (env.lookup (.named "index_grouped")).getD []
  let K : List (Bytes × List Bytes) := ig.filterMap (fun r => match r.get "trace_id", r.get "span_id" with
    | .str t, .strs vs => some (t, vs) | _, _ => none)
  let rows := evalStmtJ orc aorc db sel
  let outs := rows.filterMap rowOut
  let sp := specOf c script d
  let ids := K.map (·.1)
  let detail := " kept:" ++ hexList ids ++ " described:" ++ hexList (sortBy bytesLe sp.M) ++ " rows:" ++ outsSer outs
  if K.length != ig.length then "DIFF index-grouped-row-shape" ++ detail
  else match topNBad sp (limitOf c) ids with
  | some w => "DIFF " ++ w ++ detail
  | none =>
    if !(isAllScript script) && !(sortedDesc (ids.map sp.recOf)) then "DIFF not-newest-first" ++ detail   -- `{}` orders index_grouped by the newest of the ≤ 100 kept spans
    else match K.findSome? (fun k => spanSetBad sp (isAllScript script) k.1 k.2) with
    | some w => "DIFF " ++ w ++ detail
    | none =>
      if rows.length != outs.length then "DIFF statement-row-shape" ++ detail
      else if outs != assemble K d.spansT (limitOf c) then "DIFF join" ++ detail ++ " expected:" ++ outsSer (assemble K d.spansT (limitOf c))
      else "OK kept:" ++ toString ids.length ++ " described:" ++ toString sp.M.length ++ " rows:" ++ toString outs.length

def evalWholeReal (c : Ctx) (script : Script) (d : TraceDb) (ast : String) (text : Bytes) : String :=
  let toks := ast.splitOn ","
  match pSel (toks.length + 1) toks with
  | some (sel, []) => if renderSel sel != text then "BADAST" else judgeWhole c script d sel
  | _ => "BADAST"

def evalWholeModel (c : Ctx) (script : Script) (d : TraceDb) : String :=
  match plan c script with
  | .error _ => "ERR"
  | .ok sel => judgeWhole c script d sel

/-! ### portions -/
def hashOf (seed : Nat) (tr : Bytes) : Nat := tr.foldl (fun h x => (h * 131 + x.toNat + 7) % 1000003) seed

def idText (t : Bytes) : String := toHex t

/-- the rows the database returns for the statement of the context (portion filter evaluated on the computed columns) -/
def stmtOf (c : Ctx) (script : Script) (d : TraceDb) (seed : Nat) : String :=
  let dv := if c.rndMax = 0 then d else d.withPortionCols (hashOf seed) idText c.rndMax.toNat
  match stmtRows orc aorc dv script c with
  | .error _ => "ERR"
  | .ok outs => "ROWS " ++ outsSer outs

/-- the same for the REAL statement (object tree of the Go planner, re-rendered to the bytes the loop sent) -/
def stmtOfReal (c : Ctx) (d : TraceDb) (seed : Nat) (ast : String) (text : Bytes) : String :=
  let toks := ast.splitOn ","
  match pSel (toks.length + 1) toks with
  | some (sel, []) =>
    if renderSel sel != text then "BADAST"
    else
      let dv := if c.rndMax = 0 then d else d.withPortionCols (hashOf seed) idText c.rndMax.toNat
      "ROWS " ++ outsSer ((evalStmtJ orc aorc (dv.toDb c) sel).filterMap rowOut)
  | _ => "BADAST"

/-- the result of a search as a set of traces judged against the specification on the whole database (every index
    span has its span-table row in the harness databases, so no trace is lost in the join) -/
def judgeResult (c : Ctx) (script : Script) (d : TraceDb) (outs : List TraceOut) : String :=
  let sp := specOf c script d
  let ids := outs.map (·.traceId)
  let detail := " got:" ++ outsSer outs ++ " described:" ++ hexList (sortBy bytesLe sp.M)
  match topNBad sp (limitOf c) ids with
  | some w => "DIFF " ++ w ++ detail
  | none =>
    let bad := outs.find? (fun t =>
      let exp := assemble [(t.traceId, dedup (sp.U t.traceId))] d.spansT none
      match exp with
      | [e] => !(sortBy bytesLe e.spanIds == sortBy bytesLe t.spanIds && e.start == t.start &&
                 sortBy (fun (a b : Int) => decide (a ≤ b)) e.tss == sortBy (fun (a b : Int) => decide (a ≤ b)) t.tss)
      | _ => true)
    match bad with
    | some t => "DIFF trace-spans " ++ hexOut t.traceId ++ detail
    | none => "OK " ++ outsSer outs

def loopOf (c : Ctx) (script : Script) (d : TraceDb) (seed complexity : Nat) : String :=
  let n := portionsOf complexity
  let dv := d.withPortionCols (hashOf seed) idText n
  let run := fun (cx : Ctx) => stmtRows orc aorc (if cx.rndMax = 0 then d else dv) script cx
  match searchProcess run idText c complexity with
  | .error _ => "ERR"
  | .ok outs => judgeResult c script d outs

/-! ### tag names / tag values -/
def strCol (t : Table) (col : String) : List Bytes := t.filterMap (fun r => match r.get col with | .str s => some s | _ => none)

def judgeTags (c : Ctx) (script : Script) (d : TraceDb) (sel : Sel) (key : Option Bytes) : String :=
  match script with
  | [(s, _)] =>
    (match s.attrs with
     | none => "SKIP"
     | some e =>
       let rows := evalStmtJ orc aorc (d.toDb c) sel
       let got := strCol rows (if key.isSome then "val" else "key")
       let exp := match key with | some k => tagValues orc c d e k | none => tagKeys orc c d e
       let ok := if c.limit > 0 then got == tagsResult c exp else sortBy bytesLe got == sortBy bytesLe exp
       (if ok && got.length == rows.length then "OK " else "DIFF ") ++ "sql:" ++ hexList got ++ " spec:" ++ hexList (tagsResult c exp))
  | _ => "SKIP"

def evalTagsReal (c : Ctx) (script : Script) (d : TraceDb) (ast : String) (text : Bytes) (key : Option Bytes) : String :=
  let toks := ast.splitOn ","
  match pSel (toks.length + 1) toks with
  | some (sel, []) => if renderSel sel != text then "BADAST" else judgeTags c script d sel key
  | _ => "BADAST"

/-! ### the grammar -/
def tok? (terms : Array Term) (s : String) : Option Tok :=
  if s = "(" then some .lp else if s = ")" then some .rp else if s = "and" then some .and else if s = "or" then some .or
  else do let i ← s.toNat?; some (.term (← terms[i]?))

def terms? (s : String) : Option (List Term) :=
  if s = "-" then some [] else (s.splitOn ";").mapM (fun t => do
    let (x, r) ← term? (t.splitOn ",")
    if r.isEmpty then some x else none)

def expSer : AttrExp → String
  | .leaf t => "L(" ++ String.ofList (t.key.map (fun b => Char.ofNat b.toNat)) ++ ")"
  | .paren e => "P[" ++ expSer e ++ "]"
  | .leafOp t op tl => "L(" ++ String.ofList (t.key.map (fun b => Char.ofNat b.toNat)) ++ ")" ++ (match op with | .and => "&&" | .or => "||" | .none => "~") ++ expSer tl
  | .parenOp e op tl => "P[" ++ expSer e ++ "]" ++ (match op with | .and => "&&" | .or => "||" | .none => "~") ++ expSer tl

/-- the model parser on the token list against the AST the real parser built (`-` when it built none) -/
def parseCmp (terms : List Term) (toksS : String) (astS : String) : Option String := do
  let arr := terms.toArray
  let ts ← if toksS = "-" then some [] else (toksS.splitOn ",").mapM (tok? arr)
  let model := match parseExp (ts.length + 2) ts with
    | some (e, []) => some e
    | _ => none
  let real ← if astS = "-" then some none else do
    let tk := astS.splitOn ","
    let (e, r) ← attrExp? (tk.length + 1) tk
    if r.isEmpty then some (some e) else none
  some ((if model == real then "OK " else "DIFF ") ++ (match model with | some e => expSer e | none => "none"))

def handle : List String → Option String
  | "c11evalreal" :: args => do
    let (c, rest) ← ctx? args
    match rest with
    | [sc, db, ast, text] => do some (evalReal c (← parseScript sc) (← db? db) ast (← ofHex text))
    | _ => none
  | "c11eval" :: args => do
    let (c, rest) ← ctx? args
    match rest with
    | [sc, db] => do some (evalBoth c (← parseScript sc) (← db? db))
    | _ => none
  | "c11tags" :: args => do
    let (c, rest) ← ctx? args
    match rest with
    | [kv, sc] => do some (out (planTags c (← str? kv) (← parseScript sc)))
    | _ => none
  | "c11whole" :: args => do
    let (c, rest) ← ctx? args
    match rest with
    | [sc, db, sp, ast, text] => do some (evalWholeReal c (← parseScript sc) (← dbs? db sp) ast (← ofHex text))
    | _ => none
  | "c11wholem" :: args => do
    let (c, rest) ← ctx? args
    match rest with
    | [sc, db, sp] => do some (evalWholeModel c (← parseScript sc) (← dbs? db sp))
    | _ => none
  | "c11stmt" :: args => do
    let (c, rest) ← ctx? args
    match rest with
    | [sc, db, sp, seed] => do some (stmtOf c (← parseScript sc) (← dbs? db sp) (← seed.toNat?))
    | _ => none
  | "c11stmtreal" :: args => do
    let (c, rest) ← ctx? args
    match rest with
    | [db, sp, seed, ast, text] => do some (stmtOfReal c (← dbs? db sp) (← seed.toNat?) ast (← ofHex text))
    | _ => none
  | "c11loop" :: args => do
    let (c, rest) ← ctx? args
    match rest with
    | [sc, db, sp, seed, cx] => do some (loopOf c (← parseScript sc) (← dbs? db sp) (← seed.toNat?) (← cx.toNat?))
    | _ => none
  | "c11judge" :: args => do
    let (c, rest) ← ctx? args
    match rest with
    | [sc, db, sp, outs] => do
      let os ← if outs = "-" then some [] else (outs.splitOn ";").mapM (fun o => match o.splitOn ":" with
        | [t, vs, ds, ts, st] => do
          let vs ← if vs = "-" then some [] else (vs.splitOn ",").mapM ofHex
          let ds ← if ds = "" then some [] else (ds.splitOn ",").mapM String.toInt?
          let ts ← if ts = "" then some [] else (ts.splitOn ",").mapM String.toInt?
          some (⟨← ofHex t, vs, ds, ts, ← st.toInt?⟩ : TraceOut)
        | _ => none)
      some (judgeResult c (← parseScript sc) (← dbs? db sp) os)
    | _ => none
  | "c11tagsem" :: args => do
    let (c, rest) ← ctx? args
    match rest with
    | [sc, db, ast, text, key] => do
      let k ← if key = "!" then some none else (ofHex key).map some
      some (evalTagsReal c (← parseScript sc) (← db? db) ast (← ofHex text) k)
    | _ => none
  | ["c11parse", terms, toks, ast] => do parseCmp (← terms? terms) toks ast
  | "c11values" :: args => do
    let (c, rest) ← ctx? args
    match rest with
    | [kv, key, sc] => do some (out (planValues c (← str? kv) (← ofHex key) (← parseScript sc)))
    | _ => none
  | "c11plan" :: args => do
    let (c, rest) ← ctx? args
    match rest with
    | [sc] => do some (out (plan c (← parseScript sc)))
    | _ => none
  | _ => none
end Driver.C11
