import Qryn.TraceQL.Sem
namespace Driver.C11
open Qryn Qryn.Sql Qryn.TraceQL

def str? (h : String) : Option String := do String.fromUTF8? (ByteArray.mk (← ofHex h).toArray)

def digits? (s : String) : Option (List Nat) :=
  if s = "-" then some [] else s.toList.mapM (fun c => if c.isDigit then some (c.toNat - 48) else none)

def op? : String → Option Op
  | "eq" => some .eq | "neq" => some .neq | "lt" => some .lt | "le" => some .le | "gt" => some .gt
  | "ge" => some .ge | "re" => some .re | "nre" => some .nre | _ => none

def unit? : String → Option TUnit
  | "ns" => some .ns | "us" => some .us | "ms" => some .ms | "s" => some .s | "m" => some .m
  | "h" => some .h | "d" => some .d | _ => none

def bop? : String → Option BoolOp
  | "and" => some .and | "or" => some .or | "none" => some .none | _ => none

def sop? : String → Option ScriptOp
  | "and" => some .and | "or" => some .or | "none" => some .none | _ => none

def fn? : String → Option AggFn
  | "count" => some .count | "sum" => some .sum | "min" => some .min | "max" => some .max | "avg" => some .avg
  | _ => none

abbrev P (α : Type) := List String → Option (α × List String)

def num? : P Num
  | neg :: i :: dot :: f :: rest => do some (⟨neg = "1", ← digits? i, dot = "1", ← digits? f⟩, rest)
  | _ => none

def val? : P Value
  | "D" :: rest => do
    let (n, r) ← num? rest
    match r with | u :: r' => some (.dur n (← unit? u), r') | _ => none
  | "N" :: rest => do let (n, r) ← num? rest; some (.num n, r)
  | "S" :: raw :: unq :: rest => do
    some (.str (← ofHex raw) (← if unq = "!" then some none else (ofHex unq).map some), rest)
  | _ => none

def term? : P Term
  | l :: o :: rest => do let (v, r) ← val? rest; some (⟨← str? l, ← op? o, v⟩, r)
  | _ => none

def attrExp? : Nat → P AttrExp
  | 0, _ => none
  | fuel + 1, toks =>
    match toks with
    | "L" :: rest => do let (t, r) ← term? rest; some (.leaf t, r)
    | "P" :: rest => do let (e, r) ← attrExp? fuel rest; some (.paren e, r)
    | "LO" :: rest => do
      let (t, r) ← term? rest
      match r with
      | o :: r1 => do let (tl, r2) ← attrExp? fuel r1; some (.leafOp t (← bop? o) tl, r2)
      | _ => none
    | "PO" :: rest => do
      let (e, r) ← attrExp? fuel rest
      match r with
      | o :: r1 => do let (tl, r2) ← attrExp? fuel r1; some (.parenOp e (← bop? o) tl, r2)
      | _ => none
    | _ => none

def agg? : P (Option Agg)
  | "NOAGG" :: rest => some (none, rest)
  | "AGG" :: f :: attr :: cmp :: rest => do
    let (n, r) ← num? rest
    match r with
    | u :: r' => do
      let a ← if attr = "-" then some "" else str? attr
      let u ← if u = "-" then some none else (unit? u).map some
      some (some ⟨← fn? f, a, ← op? cmp, n, u⟩, r')
    | _ => none
  | _ => none

def selector? (fuel : Nat) : P (Selector × ScriptOp)
  | "SEL" :: rest => do
    let (attrs, r) ← match rest with
      | "NOATTR" :: r => some (none, r)
      | _ => (attrExp? fuel rest).map (fun (e, r) => (some e, r))
    let (ag, r) ← agg? r
    match r with | o :: r' => some ((⟨attrs, ag⟩, ← sop? o), r') | _ => none
  | _ => none

def script? : Nat → List String → Option Script
  | 0, _ => none
  | _, [] => some []
  | fuel + 1, toks => do
    let (s, r) ← selector? (toks.length + 1) toks
    let rest ← script? fuel r
    some (s :: rest)

def parseScript (s : String) : Option Script :=
  let toks := s.splitOn ","
  script? (toks.length + 1) toks

def ctx? : List String → Option (Ctx × List String)
  | fromNs :: toNs :: zone :: limit :: cl :: tAt :: tAtd :: tTr :: tTrd :: rmax :: ri :: cached :: rest => do
    let cs ← if cached = "-" then some [] else (cached.splitOn ",").mapM str?
    some (⟨← fromNs.toInt?, ← toNs.toInt?, ← zone.toInt?, ← limit.toInt?, cl = "1",
           ← str? tAt, ← str? tAtd, ← str? tTr, ← str? tTrd, ← rmax.toInt?, ← ri.toInt?, cs⟩, rest)
  | _ => none

def out (r : PlanM Sel) : String :=
  match r with
  | .ok s => hexOut (renderSel s)
  | .error _ => "ERR"

/-! ### executable oracles for `c11eval`: exact decimal arithmetic, substring "regex" -/
def parseDec (s : Bytes) : Option (Int × Nat) :=
  let (neg, r) := match s with | 45 :: r => (true, r) | _ => (false, s)
  let ip := r.takeWhile (fun c => 48 ≤ c ∧ c ≤ 57)
  let rest := r.dropWhile (fun c => 48 ≤ c ∧ c ≤ 57)
  let val : Bytes → Nat := fun ds => ds.foldl (fun (acc : Nat) c => acc * 10 + (c.toNat - 48)) 0
  if ip.isEmpty then none else
  match rest with
  | [] => some ((if neg then -((val ip : Nat) : Int) else ((val ip : Nat) : Int)), 1)
  | 46 :: fp =>
    if fp.all (fun c => 48 ≤ c ∧ c ≤ 57) then
      let n : Int := ((val ip * 10 ^ fp.length + val fp : Nat) : Int)
      some ((if neg then -n else n), 10 ^ fp.length)
    else none
  | _ => none

def ratCmp (f : String) (a b : Int × Nat) : Bool :=
  let x := a.1 * b.2; let y := b.1 * a.2
  match f with
  | "==" => x == y | "!=" => x != y | "<" => x < y | "<=" => x ≤ y | ">" => x > y | ">=" => x ≥ y | _ => false

def ratAdd (a b : Int × Nat) : Int × Nat := (a.1 * b.2 + b.1 * a.2, a.2 * b.2)
def ratLe (a b : Int × Nat) : Bool := a.1 * b.2 ≤ b.1 * a.2

def isInfix (p s : Bytes) : Bool := (List.range (s.length + 1)).any (fun i => p.isPrefixOf (s.drop i))

def orc : Oracles where
  reMatch := fun p s => isInfix p s
  jsonLabels := fun _ => []
  isNum := fun s => (parseDec s).isSome
  numCmp := fun f s l => match parseDec s, parseDec l.toUTF8.toList with
    | some a, some b => ratCmp f a b
    | _, _ => false
  lower := id

def aorc : AggOracles where
  aggCmp := fun agg texts f lit =>
    let xs := texts.filterMap parseDec
    match xs, parseDec lit.toUTF8.toList with
    | x :: rest, some l =>
      let v : Int × Nat :=
        if agg = "sumIf" then rest.foldl ratAdd x
        else if agg = "avgIf" then let s := rest.foldl ratAdd x; (s.1, s.2 * xs.length)
        else if agg = "minIf" then rest.foldl (fun m y => if ratLe y m then y else m) x
        else rest.foldl (fun m y => if ratLe m y then y else m) x
      ratCmp f v l
    | _, _ => false

def attrRow? (s : String) : Option AttrRow :=
  match s.splitOn ":" with
  | [d, k, v, t, sp, ts, du] => do some ⟨← ofHex d, ← ofHex k, ← ofHex v, ← ofHex t, ← ofHex sp, ← ts.toInt?, ← du.toInt?⟩
  | _ => none

def db? (s : String) : Option TraceDb :=
  if s = "-" then some ⟨[]⟩ else do some ⟨← (s.splitOn ";").mapM attrRow?⟩

def bytesLe (a b : Bytes) : Bool := decide (a ≤ b)

def idsOut (ids : List Bytes) : String :=
  let l := sortBy bytesLe ids
  if l.isEmpty then "-" else ",".intercalate (l.map hexOut)

def traceIdsOf (t : Table) : List Bytes := t.filterMap (fun r => match r.get "trace_id" with | .str s => some s | _ => none)

/-- SQL reading (evalSelG of the model's root select, no limit) against the direct reading -/
def evalBoth (c : Ctx) (script : Script) (d : TraceDb) : String :=
  match rootSel c script with
  | .error _ => "ERR"
  | .ok sel =>
    let sql := traceIdsOf (evalSelG orc aorc (d.toDb c) true [] sel)
    let spec := matchingTraces orc aorc c d script
    let lim := traceIdsOf (evalSelG orc aorc (d.toDb c) true [] (indexLimit c sel))
    let okLim := if c.limit ≤ 0 then lim == sql else lim == sql.take c.limit.toNat
    (if sortBy bytesLe sql == sortBy bytesLe spec ∧ sql.length == (dedup sql).length ∧ okLim then "OK" else "DIFF") ++
      " sql:" ++ idsOut sql ++ " spec:" ++ idsOut spec

/-! ### the statement as the REAL planner built it: the Go object tree, serialised by the harness -/
abbrev PE (α : Type) := List String → Option (α × List String)

def nTimes {α} (f : PE α) : Nat → PE (List α)
  | 0, toks => some ([], toks)
  | k + 1, toks => do
    let (x, r) ← f toks
    let (xs, r') ← nTimes f k r
    some (x :: xs, r')

mutual
def pExpr : Nat → PE Expr
  | 0, _ => none
  | fuel + 1, toks =>
    match toks with
    | "r" :: h :: rest => do some (.raw (← str? h), rest)
    | "s" :: h :: rest => do some (.str (← ofHex h), rest)
    | "i" :: n :: rest => do some (.int (← n.toInt?), rest)
    | "n" :: h :: rest => do some (.numLit (← str? h), rest)
    | "w" :: h :: rest => do some (.withRef (.named (← str? h)), rest)
    | "ai" :: h :: rest => do some (.anyIfNum (← ofHex h), rest)
    | "c" :: h :: rest => do let (e, r) ← pExpr fuel rest; some (.col e (← str? h), r)
    | "d" :: rest => do let (e, r) ← pExpr fuel rest; some (.distinct e, r)
    | "o" :: dir :: rest => do let (e, r) ← pExpr fuel rest; some (.orderBy e (if dir = "asc" then .asc else .desc), r)
    | "aj" :: rest => do
      let (a, r) ← pExpr fuel rest
      let (b', r') ← pExpr fuel r
      some (.arrayJoin a b', r')
    | "in" :: rest => do
      let (l, r) ← pExpr fuel rest
      match r with
      | k :: r1 => do let (es, r2) ← pExprs fuel (← k.toNat?) r1; some (.isIn l es, r2)
      | _ => none
    | "l" :: h :: k :: rest => do let (es, r) ← pExprs fuel (← k.toNat?) rest; some (.logical (← str? h) es, r)
    | "t" :: h :: k :: rest => do let (es, r) ← pExprs fuel (← k.toNat?) rest; some (.callT (← str? h) es, r)
    | "f" :: h :: k :: rest => do let (es, r) ← pExprs fuel (← k.toNat?) rest; some (.call (← str? h) es, r)
    | "b" :: h :: k :: rest => do let (es, r) ← pExprs fuel (← k.toNat?) rest; some (.bitSet es (← str? h), r)
    | "u" :: h :: k :: rest => do let (ss, r) ← pSels fuel (← k.toNat?) rest; some (.setOp (← str? h) ss, r)
    | _ => none
def pExprs : Nat → Nat → PE (List Expr)
  | 0, _, _ => none
  | _, 0, toks => some ([], toks)
  | fuel + 1, k + 1, toks => do
    let (x, r) ← pExpr fuel toks
    let (xs, r') ← pExprs fuel k r
    some (x :: xs, r')
def pOpt : Nat → PE (Option Expr)
  | 0, _ => none
  | fuel + 1, toks =>
    match toks with
    | "0" :: rest => some (none, rest)
    | "1" :: rest => do let (e, r) ← pExpr fuel rest; some (some e, r)
    | _ => none
def pSel : Nat → PE Sel
  | 0, _ => none
  | fuel + 1, toks =>
    match toks with
    | "S" :: kw :: rest => do
      let (ws, r) ← pWiths fuel (← kw.toNat?) rest
      match r with
      | dist :: kc :: r1 => do
        let (cols, r2) ← pExprs fuel (← kc.toNat?) r1
        let (fr, r3) ← pOpt fuel r2
        match r3 with
        | kj :: r4 => do
          let (js, r5) ← pJoins fuel (← kj.toNat?) r4
          let (pre, r6) ← pOpt fuel r5
          let (wh, r7) ← pOpt fuel r6
          match r7 with
          | kg :: r8 => do
            let (gb, r9) ← pExprs fuel (← kg.toNat?) r8
            let (hv, r10) ← pOpt fuel r9
            match r10 with
            | ko :: r11 => do
              let (ob, r12) ← pExprs fuel (← ko.toNat?) r11
              let (lim, r13) ← pOpt fuel r12
              some (.mk ws (dist = "1") cols fr js pre wh gb hv ob lim, r13)
            | _ => none
          | _ => none
        | _ => none
      | _ => none
    | _ => none
def pSels : Nat → Nat → PE (List Sel)
  | 0, _, _ => none
  | _, 0, toks => some ([], toks)
  | fuel + 1, k + 1, toks => do
    let (x, r) ← pSel fuel toks
    let (xs, r') ← pSels fuel k r
    some (x :: xs, r')
def pWiths : Nat → Nat → PE (List (Alias × Sel))
  | 0, _, _ => none
  | _, 0, toks => some ([], toks)
  | fuel + 1, k + 1, toks =>
    match toks with
    | h :: rest => do
      let (x, r) ← pSel fuel rest
      let (xs, r') ← pWiths fuel k r
      some ((.named (← str? h), x) :: xs, r')
    | _ => none
def pJoins : Nat → Nat → PE (List (String × Alias × Expr))
  | 0, _, _ => none
  | _, 0, toks => some ([], toks)
  | fuel + 1, k + 1, toks =>
    match toks with
    | tp :: al :: rest => do
      let (on, r) ← pExpr fuel rest
      let (xs, r') ← pJoins fuel k r
      some ((← str? tp, .named (← str? al), on) :: xs, r')
    | _ => none
end

def selNoLimit : Sel → Sel
  | .mk ws d c f j p w g h o _ => .mk ws d c f j p w g h o none
def selLimitOf : Sel → Option Expr
  | .mk _ _ _ _ _ _ _ _ _ _ l => l

/-- the REAL `index_grouped` select (object tree of the Go planner): its rendering must be the real text;
    then its Sql.SemG reading is compared with the direct reading of the script -/
def evalReal (c : Ctx) (script : Script) (d : TraceDb) (ast : String) (text : Bytes) : String :=
  let toks := ast.splitOn ","
  match pSel (toks.length + 1) toks with
  | some (sel, []) =>
    if renderSel sel != text then "BADAST"
    else
      let sql := traceIdsOf (evalSelG orc aorc (d.toDb c) true [] (selNoLimit sel))
      let spec := matchingTraces orc aorc c d script
      let lim := traceIdsOf (evalSelG orc aorc (d.toDb c) true [] sel)
      let okLim : Bool := match selLimitOf sel with
        | some (Expr.int n) => lim == sql.take n.toNat
        | _ => lim == sql
      (if sortBy bytesLe sql == sortBy bytesLe spec ∧ sql.length == (dedup sql).length ∧ okLim then "OK" else "DIFF") ++
        " sql:" ++ idsOut sql ++ " spec:" ++ idsOut spec
  | _ => "BADAST"

def handle : List String → Option String
  | "c11evalreal" :: args => do
    let (c, rest) ← ctx? args
    match rest with
    | [sc, db, ast, text] => do some (evalReal c (← parseScript sc) (← db? db) ast (← ofHex text))
    | _ => none
  | "c11eval" :: args => do
    let (c, rest) ← ctx? args
    match rest with
    | [sc, db] => do some (evalBoth c (← parseScript sc) (← db? db))
    | _ => none
  | "c11tags" :: args => do
    let (c, rest) ← ctx? args
    match rest with
    | [sc] => do some (out (planTags c (← parseScript sc)))
    | _ => none
  | "c11values" :: args => do
    let (c, rest) ← ctx? args
    match rest with
    | [kv, key, sc] => do some (out (planValues c (← str? kv) (← ofHex key) (← parseScript sc)))
    | _ => none
  | "c11plan" :: args => do
    let (c, rest) ← ctx? args
    match rest with
    | [sc] => do some (out (plan c (← parseScript sc)))
    | _ => none
  | _ => none
end Driver.C11
