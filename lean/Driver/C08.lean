import Driver.C07
import Qryn.LogQL.PlannerMetric
import Qryn.LogQL.SemMetric
import Qryn.LogQL.PostMetric
import Qryn.LogQL.OpsText
import Qryn.LogQL.Supported
namespace Driver.C08
open Qryn Qryn.Sql Qryn.LogQL Driver.C07

def rangeFn? : String → Option RangeFn
  | "rate" => some .rate | "count_over_time" => some .countOverTime
  | "bytes_rate" => some .bytesRate | "bytes_over_time" => some .bytesOverTime | _ => none

def unwrapFn? : String → Option UnwrapFn
  | "rate" => some .rate | "sum_over_time" => some .sumOT | "avg_over_time" => some .avgOT
  | "max_over_time" => some .maxOT | "min_over_time" => some .minOT | "first_over_time" => some .firstOT
  | "last_over_time" => some .lastOT | "stdvar_over_time" => some .stdvarOT | "stddev_over_time" => some .stddevOT
  | _ => none

def aggFn? : String → Option AggFn
  | "sum" => some .sum | "min" => some .min | "max" => some .max | "avg" => some .avg
  | "stddev" => some .stddev | "stdvar" => some .stdvar | "count" => some .count | _ => none

/-- `-` | `by:<hex>,<hex>` | `without:<hex>,…` -/
def grouping? (s : String) : Option (Option Grouping) :=
  if s = "-" then some none
  else match s.splitOn ":" with
    | [kind, ls] => do
      let labels ← (ls.splitOn ",").mapM str?
      if kind = "by" then some (some ⟨true, labels⟩)
      else if kind = "without" then some (some ⟨false, labels⟩) else none
    | _ => none

/-- `-` | `<op>:<int>:<frac digits or ->` -/
def cmp? (s : String) : Option (Option Comparison) :=
  if s = "-" then some none
  else match s.splitOn ":" with
    | [op, i, f] => do some (some ⟨← cmpOp? op, ⟨← i.toNat?, ← digits? f⟩⟩)
    | _ => none

/-- `<L|U> <fn> <unwrap label hex|-> <durNs> <byPrefix> <bySuffix> <cmp> <matchers> <stages>` -/
def range? : List String → Option (RangeAgg × List String)
  | kind :: fn :: lbl :: dur :: bp :: bs :: cm :: ms :: st :: rest => do
    let k ← if kind = "L" then (rangeFn? fn).map RangeKind.lra
            else if kind = "U" then do some (RangeKind.unwrap (← unwrapFn? fn) (← str? lbl)) else none
    let q : LogQuery := ⟨← list? matcher? ms, ← list? stage? st⟩
    some (⟨k, q, ← dur.toNat?, ← grouping? bp, ← grouping? bs, ← cmp? cm⟩, rest)
  | _ => none

/-- `<fn> <byPrefix> <bySuffix> <cmp> <range…>` -/
def agg? : List String → Option (VecAgg × List String)
  | fn :: bp :: bs :: cm :: rest => do
    let (r, rest') ← range? rest
    some (⟨← aggFn? fn, ← grouping? bp, r, ← grouping? bs, ← cmp? cm⟩, rest')
  | _ => none

/-- `R <range>` | `A <agg>` | `T <isTop> <k> <cmp> (R <range> | A <agg>)` -/
def query? : List String → Option (MetricQuery × List String)
  | "R" :: rest => do let (r, t) ← range? rest; some (.range r, t)
  | "A" :: rest => do let (a, t) ← agg? rest; some (.agg a, t)
  | "T" :: top :: k :: cm :: "R" :: rest => do
    let (r, t) ← range? rest
    some (.topk ⟨top = "1", ← k.toNat?, .range r, ← cmp? cm⟩, t)
  | "T" :: top :: k :: cm :: "A" :: rest => do
    let (a, t) ← agg? rest
    some (.topk ⟨top = "1", ← k.toNat?, .agg a, ← cmp? cm⟩, t)
  | _ => none

/-- `<C07 ctx: 10 tokens> <stepNs> <metrics_15s table hex>` -/
def mctx? (args : List String) : Option (MCtx × List String) := do
  let (c, rest) ← ctx? args
  match rest with
  | step :: m15 :: rest' => do some (⟨c, ← step.toInt?, ← str? m15⟩, rest')
  | _ => none

def stepNames : Step → List String
  | .lra _ _ => ["lra"] | .shortcut _ _ => ["shortcut"]
  | .unwrapFn _ _ g => (if g.isSome then ["by"] else []) ++ ["unwrapFn"]
  | .agg _ g => (if g.isSome then ["by"] else []) ++ ["agg"]
  | .topk _ _ => ["topk"] | .cmp _ => ["cmp"]

/-! ### concrete oracles for the semantic search: any fixed functions do, both sides use the same ones -/
def isSub (needle hay : Bytes) : Bool := decide (needle <:+: hay)

def decRat? (s : Bytes) : Option Rat :=
  let cs := s.map (fun c => Char.ofNat c.toNat)
  if cs.isEmpty || !(cs.all (fun c => c.isDigit || c == '.')) || (cs.filter (· == '.')).length > 1 then none
  else
    let ip := cs.takeWhile (· != '.')
    let fp := (cs.dropWhile (· != '.')).drop 1
    if ip.isEmpty then none
    else some (((digitsVal ip * 10 ^ fp.length + digitsVal fp : Nat) : Int) / ((10 ^ fp.length : Nat) : Int))

/-- label document of the driver: `hex(k):hex(v),hex(k):hex(v)` in ASCII -/
def docLabels (doc : Bytes) : List (Bytes × Bytes) :=
  let s := String.ofList (doc.map (fun c => Char.ofNat c.toNat))
  if s.isEmpty then [] else
  (s.splitOn ",").filterMap (fun kv => match kv.splitOn ":" with
    | [k, v] => do some (← ofHex k, ← ofHex v)
    | _ => none)

/-- an injective stand-in for cityHash64 over label maps -/
def hashMap (m : List (Bytes × Bytes)) : Int :=
  let enc := fun (acc : Nat) (bs : Bytes) => bs.foldl (fun a c => a * 259 + (c.toNat + 3)) acc
  ((m.foldl (fun acc kv => (enc ((enc acc kv.1) * 259 + 1) kv.2) * 259 + 2) 1 : Nat) : Int)

/-- square root rounded down to three decimals (any function does: the SQL side and the direct reading share it) -/
def sqrtMilli (x : Rat) : Rat :=
  if x ≤ 0 then 0 else ((Nat.sqrt (x * 1000000).floor.toNat : Nat) : Int) / (1000 : Int)

def oracles : Oracles where
  reMatch := fun pat s => isSub pat s
  jsonLabels := docLabels
  isNum := fun s => (decRat? s).isSome
  numCmp := fun fn s lit => match decRat? s with | some x => ratCmp fn x (numLitRat lit) | none => false
  lower := fun s => s.map (fun c => if 65 ≤ c ∧ c ≤ 90 then c + 32 else c)
  toFloat := fun s => (decRat? s).getD 0
  cityHash := hashMap
  sqrt := sqrtMilli

def fields (s : String) : List String := s.splitOn ":"

def ginRow? (s : String) : Option GinRow :=
  match fields s with
  | [d, k, v, tp, fp] => do some ⟨← ofHex d, ← ofHex k, ← ofHex v, ← tp.toInt?, ← fp.toInt?⟩
  | _ => none
def tsRow? (s : String) : Option TsRow :=
  match fields s with
  | [d, fp, l, tp] => do some ⟨← ofHex d, ← fp.toInt?, ← ofHex l, ← tp.toInt?⟩
  | _ => none
def sample? (s : String) : Option Sample :=
  match fields s with
  | [fp, ts, str, tp] => do some ⟨← fp.toInt?, ← ts.toInt?, ← ofHex str, ← tp.toInt?⟩
  | _ => none

def db? : List String → Option LokiDb
  | [g, t, s] => do some ⟨← list? ginRow? g, ← list? tsRow? t, ← list? sample? s⟩
  | _ => none

def showTable (t : Table) : String := hexOut (toString (repr t)).toUTF8.toList

def mentry? (s : String) : Option MEntry :=
  match fields s with
  | [fp, l, ts, v] => do some ⟨← fp.toNat?, ← l.toNat?, ← ts.toInt?, ← v.toInt?⟩
  | _ => none
def showEntries (es : List MEntry) : String :=
  if es.isEmpty then "-" else ";".intercalate (es.map (fun e => s!"{e.fp}:{e.lbl}:{e.ts}:{e.value}"))

def handle : List String → Option String
  | "c08sem" :: args => do
    let (c, rest) ← mctx? args
    let (q, rest') ← query? rest
    let d ← db? rest'
    let plan := (evalSelA oracles (d.toDbM c) (planMetric c q)).map normRow
    let spec := evalMetric oracles c d q
    -- the label says whether `Qryn.C08.plan_metric_correct` applies to this very case (same predicates as the theorem)
    let cls := s!"{planClass oracles c d q} {stageCount c q}"
    -- unwrapped range aggregations: the theorem's right-hand side is the direct reading over the entries in timestamp order
    let specTs := evalMetric oracles c (sortedDb c.toCtx d) q
    if supportedU q && plan != specTs then some s!"diff {showTable plan} {showTable specTs} theorem-rhs-differs:{shapeName q} {stageCount c q}"
    else if plan == spec then some s!"ok {plan.length} {cls}"
    else some s!"diff {showTable plan} {showTable spec} {cls}"
  | "c08rows" :: args => do
    -- the rows the generated statement returns (reference interpreter `Sql.evalSelA` on the plan whose text is the real planner's)
    let (c, rest) ← mctx? args
    let (q, rest') ← query? rest
    let d ← db? rest'
    some (showTable ((evalSelA oracles (d.toDbM c) (planMetric c q)).map normRow))
  | "c08post" :: fromNs :: toNs :: step :: d :: es :: [] => do
    let es ← list? mentry? es
    let (f, t, st, dd) := (← fromNs.toInt?, ← toNs.toInt?, ← step.toInt?, ← d.toInt?)
    let w := fixWindow f t dd
    some s!"{w.1} {w.2} {showEntries (postProcess f t st dd es)}"
  | ["c08optext"] => some (if tablesRenderAsText then "ok" else "differ")
  | "c08plan" :: args => do
    let (c, rest) ← mctx? args
    let (q, rest') ← query? rest
    if rest'.isEmpty then some (hexOut (renderSel (planMetric c q))) else none
  | "c08order" :: args => do
    let (q, rest') ← query? args
    if rest'.isEmpty then
      some ((if takesShortcut q then "shortcut:" else "plain:") ++ ",".intercalate ((planSteps q).flatMap stepNames) ++
        s!";labels={(labelConds q.rangeAgg.sel).length};lines={if takesShortcut q then 0 else (lineFilters q.rangeAgg.sel).length}")
    else none
  | _ => none
end Driver.C08
