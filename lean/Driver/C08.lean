import Driver.C07
import Qryn.LogQL.PlannerMetric
namespace Driver.C08
open Qryn Qryn.Sql Qryn.LogQL Driver.C07

def rangeFn? : String → Option RangeFn
  | "rate" => some .rate | "count_over_time" => some .countOverTime
  | "bytes_rate" => some .bytesRate | "bytes_over_time" => some .bytesOverTime | _ => none

def unwrapFn? : String → Option UnwrapFn
  | "rate" => some .rate | "sum_over_time" => some .sumOT | "avg_over_time" => some .avgOT
  | "max_over_time" => some .maxOT | "min_over_time" => some .minOT | "first_over_time" => some .firstOT
  | "last_over_time" => some .lastOT | "stdvar_over_time" => some .stdvarOT | "stddev_over_time" => some .stddevOT
  | _ => none

def aggFn? : String → Option AggFn
  | "sum" => some .sum | "min" => some .min | "max" => some .max | "avg" => some .avg
  | "stddev" => some .stddev | "stdvar" => some .stdvar | "count" => some .count | _ => none

/-- `-` | `by:<hex>,<hex>` | `without:<hex>,…` -/
def grouping? (s : String) : Option (Option Grouping) :=
  if s = "-" then some none
  else match s.splitOn ":" with
    | [kind, ls] => do
      let labels ← (ls.splitOn ",").mapM str?
      if kind = "by" then some (some ⟨true, labels⟩)
      else if kind = "without" then some (some ⟨false, labels⟩) else none
    | _ => none

/-- `-` | `<op>:<int>:<frac digits or ->` -/
def cmp? (s : String) : Option (Option Comparison) :=
  if s = "-" then some none
  else match s.splitOn ":" with
    | [op, i, f] => do some (some ⟨← cmpOp? op, ⟨← i.toNat?, ← digits? f⟩⟩)
    | _ => none

/-- `<L|U> <fn> <unwrap label hex|-> <durNs> <byPrefix> <bySuffix> <cmp> <matchers> <stages>` -/
def range? : List String → Option (RangeAgg × List String)
  | kind :: fn :: lbl :: dur :: bp :: bs :: cm :: ms :: st :: rest => do
    let k ← if kind = "L" then (rangeFn? fn).map RangeKind.lra
            else if kind = "U" then do some (RangeKind.unwrap (← unwrapFn? fn) (← str? lbl)) else none
    let q : LogQuery := ⟨← list? matcher? ms, ← list? stage? st⟩
    some (⟨k, q, ← dur.toNat?, ← grouping? bp, ← grouping? bs, ← cmp? cm⟩, rest)
  | _ => none

/-- `<fn> <byPrefix> <bySuffix> <cmp> <range…>` -/
def agg? : List String → Option (VecAgg × List String)
  | fn :: bp :: bs :: cm :: rest => do
    let (r, rest') ← range? rest
    some (⟨← aggFn? fn, ← grouping? bp, r, ← grouping? bs, ← cmp? cm⟩, rest')
  | _ => none

/-- `R <range>` | `A <agg>` | `T <isTop> <k> <cmp> (R <range> | A <agg>)` -/
def query? : List String → Option (MetricQuery × List String)
  | "R" :: rest => do let (r, t) ← range? rest; some (.range r, t)
  | "A" :: rest => do let (a, t) ← agg? rest; some (.agg a, t)
  | "T" :: top :: k :: cm :: "R" :: rest => do
    let (r, t) ← range? rest
    some (.topk ⟨top = "1", ← k.toNat?, .range r, ← cmp? cm⟩, t)
  | "T" :: top :: k :: cm :: "A" :: rest => do
    let (a, t) ← agg? rest
    some (.topk ⟨top = "1", ← k.toNat?, .agg a, ← cmp? cm⟩, t)
  | _ => none

/-- `<C07 ctx: 10 tokens> <stepNs> <metrics_15s table hex>` -/
def mctx? (args : List String) : Option (MCtx × List String) := do
  let (c, rest) ← ctx? args
  match rest with
  | step :: m15 :: rest' => do some (⟨c, ← step.toInt?, ← str? m15⟩, rest')
  | _ => none

def stepName : Step → String
  | .lra _ _ => "lra" | .shortcut _ _ => "shortcut" | .unwrapFn _ _ _ => "unwrapFn" | .agg _ _ => "agg"
  | .topk _ _ => "topk" | .cmp _ => "cmp"

def handle : List String → Option String
  | "c08plan" :: args => do
    let (c, rest) ← mctx? args
    let (q, rest') ← query? rest
    if rest'.isEmpty then some (hexOut (renderSel (planMetric c q))) else none
  | "c08order" :: args => do
    let (q, rest') ← query? args
    if rest'.isEmpty then
      some ((if takesShortcut q then "shortcut:" else "plain:") ++ ",".intercalate ((planSteps q).map stepName))
    else none
  | _ => none
end Driver.C08
