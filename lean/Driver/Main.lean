import Driver.Handlers
/-! Line-protocol driver: one operation per input line, one answer line per operation.
    Runs the same definitions the theorems are about. Core-only (links as `lean_exe`). -/

def dispatch (line : String) : String :=
  let ws := (line.trimAscii.toString.splitOn " ").filter (· ≠ "")
  match handlers.findSome? (fun h => h ws) with
  | some out => out
  | none => "bad-op"

partial def loop (hin hout : IO.FS.Stream) : IO Unit := do
  let line ← hin.getLine
  if line.isEmpty then return ()
  hout.putStrLn (dispatch line)
  loop hin hout

def main : IO Unit := do
  let hin ← IO.getStdin
  let hout ← IO.getStdout
  loop hin hout
  hout.flush
