import Qryn.Read.Cursor
import Qryn.Read.Assembly
/-! Line protocol for C17.
    `c17cursor <samples> <ops>` — samples `ts:v,ts:v,…` (`-` = empty slice), ops `n` (Next), `a` (At),
    `s<t>` (Seek t) comma separated; answer: outputs in call order, `T`/`F`/`ts:v`/`!` (fault), comma separated.
    `c17cursorw …` — same over the code as it was written (pinned tree).
    `c17assemble <rows>` — rows `fp:val:ts,…` (`-` = none) in scan order; answer: the series in loop order,
    `fp=ts:v|ts:v;fp=…` (`-` = no series, `!` = fault). -/
namespace Driver.C17
open Qryn.Read.Cursor

def parseList (s : String) : List String :=
  if s = "-" then [] else s.splitOn ","

def allSome {α : Type} : List (Option α) → Option (List α)
  | [] => some []
  | none :: _ => none
  | some a :: rest => (allSome rest).map (a :: ·)

def parseSample (s : String) : Option Sample :=
  match s.splitOn ":" with
  | [a, b] => match a.toInt?, b.toInt? with
    | some t, some v => some ⟨t, v⟩
    | _, _ => none
  | _ => none

def parseOp (s : String) : Option Op :=
  if s = "n" then some .next
  else if s = "a" then some .at
  else match s.toList with
    | 's' :: rest => (String.ofList rest).toInt?.map Op.seek
    | _ => none

def showOut : Out → String
  | .bool true => "T"
  | .bool false => "F"
  | .sample s => toString s.ts ++ ":" ++ toString s.v
  | .fault => "!"

def cursor (runner : It → List Op → It × List Out) (ss ops : String) : Option String := do
  let samples ← allSome ((parseList ss).map parseSample)
  let ops ← allSome ((parseList ops).map parseOp)
  let outs := (runner (init samples) ops).2
  some (if outs.isEmpty then "-" else ",".intercalate (outs.map showOut))

def parseRow (s : String) : Option Qryn.Read.Assembly.Row :=
  match s.splitOn ":" with
  | [a, b, c] => match a.toNat?, b.toInt?, c.toInt? with
    | some fp, some v, some t => some ⟨fp, v, t⟩
    | _, _, _ => none
  | _ => none

def showSeries (s : Qryn.Read.Assembly.Series) : String :=
  toString s.fp ++ "=" ++ "|".intercalate (s.samples.map (fun x => toString x.ts ++ ":" ++ toString x.v))

def assembleOp (rows : String) : Option String := do
  let rs ← allSome ((parseList rows).map parseRow)
  match Qryn.Read.Assembly.assemble rs with
  | none => some "!"
  | some ss => some (if ss.isEmpty then "-" else ";".intercalate (ss.map showSeries))

def handle : List String → Option String
  | ["c17assemble", rows] => assembleOp rows
  | ["c17cursor", ss, ops] => cursor run ss ops
  | ["c17cursorw", ss, ops] => cursor runW ss ops
  | _ => none
end Driver.C17
