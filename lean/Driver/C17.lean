import Qryn.Read.Cursor
import Qryn.Read.Assembly
import Qryn.Prom.Select
import Qryn.Prof.Selector
import Qryn.Prom.Stepped
import Qryn.Prom.Downsample
import Qryn.Prom.Labels
import Qryn.Read.SeriesOrder
import Qryn.Prom.LabelsFetch
/-! Line protocol for C17.
    `c17cursor <samples> <ops>` — samples `ts:v,ts:v,…` (`-` = empty slice), ops `n` (Next), `a` (At),
    `s<t>` (Seek t) comma separated; answer: outputs in call order, `T`/`F`/`ts:v`/`!` (fault), comma separated.
    `c17cursorw …` — same over the code as it was written (pinned tree).
    `c17assemble <rows>` — rows `fp:val:ts,…` (`-` = none) in scan order; answer: the series in loop order,
    `fp=ts:v|ts:v;fp=…` (`-` = no series, `!` = fault).
    `c17select <rows> <keys>` — the same followed by `ReshuffleSeries`; keys `fp:k,fp:k,…` give every fingerprint
    the (numeric) identity of its label set.
    `c17fpsql <table> <hex fromDate> <type> <matchers>` — matchers `eq|ne|re|nre:<hex name>:<hex value>[:e]` comma
    separated (`-` = none), `:e` on a regular-expression matcher = the Go side's regular expression matches the empty
    string (the regular-expression engine stays outside the model); answer: hex of the text of the `fp_sel` sub-query,
    or `unsupported`.
    `c17fpeval <hex fromDate> <type> <matchers> <rows> <matches>` — meaning of the `fp_sel` sub-query (`Prom.FpQuery.eval`,
    64-bit shift) over `time_series_gin` rows `date~key~val~fp~type` (hex strings, decimal fp/type; `_` = no rows);
    `matches` = the `(pattern, value)` pairs `hexpat~hexval` on which ClickHouse `match` is true (`_` = none); answer:
    the selected fingerprints ascending, `-` = none.
    `c17lblsql names|values|series <table> <hex fromDate> <hex toDate> <type> <limit> <hex name|-> <selectors>` — the statement of
    `/api/v1/labels`, `/api/v1/label/<name>/values`, `/api/v1/series`; selectors = `match[]` entries separated by `;`, each a
    comma list of matchers as for `c17fpsql`; `-` = no `match[]`; answer: hex of the whole statement, or `unsupported`.
    `c17lbleval names|values|series <hex fromDate> <hex toDate> <type> <limit> <hex name|-> <selectors> <idx rows> <ts rows> <matches>` —
    the meaning of that statement (`Prom.Labels.*Eval` over `FpUnion.eval`, 64-bit shift): index rows as for `c17fpeval`,
    `time_series` rows `date~fp~labels~type` (hex date / labels); answer: the hex strings returned, in order, comma separated
    (`-` = none).
    `c17hints <qstart> <qend> <step> <lookback> <range> <off> <func|->` — `Stepped.engineHints`: `<start> <end> <step> <range> <func|->`.
    `c17route <start> <end> <step> <range> <func|->` — `Stepped.usesRaw`: `raw` or `down`; then the class of the function:
    `instant` / `range` / `other`.
    `c17order <label sets>` — label sets separated by `;`, each `hexname=hexvalue,…` in name order (`_` = no label); answer: the
    same sets in the order the final `sort.Slice` of `Select` gives them (`Read.SeriesOrder.sortSeries`).
    `c17lblfetchsql <dist 0|1> <startMs> <endMs> <fps>` — the labels request of `Select` (`Prom.LabelsFetch.fetch … .render`) for the
    window of the hints and the planned fingerprints (comma list in the order rendered, `-` = none); answer: hex of the statement.
    `c17lblfetcheval <startMs> <endMs> <fps> <rows>` — its meaning over `time_series` rows `day:fp` (day number of `date`; `_` = no
    rows); answer: `<lowerDay> <upperDay> <fingerprints of the returned rows in table order, - = none>`.
    `c17scan <fromNs> <toNs>` — hex of the two bounds of the raw-sample scan as rendered.
    `c17profsql <table> <hex fromDate> <hex toDate> <selectors>` — selectors `eq|ne|re|nre:<hex name>:<hex value>[:e]`
    (`:e` = Go's regexp finds the anchored pattern in the empty string);
    answer: hex of the text of the Pyroscope selector query, or `unsupported`.
    `c17step <start> <end> <step> <range> <func|-> <rows>` — rows of the raw scan (`fp:val:ts,…`, ordered by
    fingerprint and time); answer: what `Select` hands out after `processHints` and the row loop, `fp=ts:v|…;…`.
    `c17stepsql <start> <end> <step> <range> <func|->` — `<hex outer SELECT of the per-step aggregation or ->
    <hex range-filter condition or ->`.
    `c17down <start> <end> <step> <range> <func|-> <rows15>` — rows of `metrics_15s` of the selected series,
    `fp:b:lastV:lastTs:min:max:sum:count,…`; answer: the series after the row loop and `MapResult`,
    `fp=ts:num/den|…;…` (`unsupported` for a value column the model does not know).
    `c17downsql <start> <end> <step> <range> <func|->` — hex of the down-sampled sample query after `WITH fp_sel`.
    `c17profeval <hex fromDate> <hex toDate> <selectors> <rows> <matches>` — meaning of the Pyroscope selector query
    (`Prof.PQuery.eval`, 64-bit shift) over `profiles_series_gin` rows `date~key~val~type_id~service~stu~fp`
    (hex fields, `stu` = `hex+hex;…` or `_`), comma separated (`_` = no rows); `matches` lists the
    `(pattern, value)` pairs `hexpat~hexval` on which ClickHouse `match` is true (`_` = none) — the regular
    expression engine stays outside the model; answer: the selected fingerprints ascending, `-` = none. -/
namespace Driver.C17
open Qryn.Read.Cursor

def parseList (s : String) : List String :=
  if s = "-" then [] else s.splitOn ","

def allSome {α : Type} : List (Option α) → Option (List α)
  | [] => some []
  | none :: _ => none
  | some a :: rest => (allSome rest).map (a :: ·)

def parseSample (s : String) : Option Sample :=
  match s.splitOn ":" with
  | [a, b] => match a.toInt?, b.toInt? with
    | some t, some v => some ⟨t, v⟩
    | _, _ => none
  | _ => none

def parseOp (s : String) : Option Op :=
  if s = "n" then some .next
  else if s = "a" then some .at
  else match s.toList with
    | 's' :: rest => (String.ofList rest).toInt?.map Op.seek
    | _ => none

def showOut : Out → String
  | .bool true => "T"
  | .bool false => "F"
  | .sample s => toString s.ts ++ ":" ++ toString s.v
  | .fault => "!"

def cursor (runner : It → List Op → It × List Out) (ss ops : String) : Option String := do
  let samples ← allSome ((parseList ss).map parseSample)
  let ops ← allSome ((parseList ops).map parseOp)
  let outs := (runner (init samples) ops).2
  some (if outs.isEmpty then "-" else ",".intercalate (outs.map showOut))

def parseRow (s : String) : Option Qryn.Read.Assembly.Row :=
  match s.splitOn ":" with
  | [a, b, c] => match a.toNat?, b.toInt?, c.toInt? with
    | some fp, some v, some t => some ⟨fp, v, t⟩
    | _, _, _ => none
  | _ => none

def showSeries (s : Qryn.Read.Assembly.Series) : String :=
  toString s.fp ++ "=" ++ "|".intercalate (s.samples.map (fun x => toString x.ts ++ ":" ++ toString x.v))

def assembleOp (rows : String) : Option String := do
  let rs ← allSome ((parseList rows).map parseRow)
  match Qryn.Read.Assembly.assemble rs with
  | none => some "!"
  | some ss => some (if ss.isEmpty then "-" else ";".intercalate (ss.map showSeries))

/-- a matcher and whether its regular expression matches the empty string (`:e`) -/
def parseMatcher (s : String) : Option (Qryn.Prom.Matcher × Bool) :=
  let parts := s.splitOn ":"
  let (parts, e) := match parts with
    | [t, n, v, "e"] => ([t, n, v], true)
    | p => (p, false)
  match parts with
  | [t, n, v] =>
    let ty : Option Qryn.Prom.MatchType :=
      if t = "eq" then some .eq else if t = "ne" then some .ne else if t = "re" then some .re
      else if t = "nre" then some .nre else none
    match ty, Qryn.ofHex n, Qryn.ofHex v with
    | some ty, some n, some v => some (⟨n, ty, v⟩, e)
    | _, _, _ => none
  | _ => none

/-- the Go side's regular-expression engine as far as the planner consults it: "does the pattern match the empty string" -/
def fullOf (ms : List (Qryn.Prom.Matcher × Bool)) : Qryn.Bytes → Qryn.Bytes → Bool :=
  let pats := (ms.filter (·.2)).map (·.1.val)
  fun p s => s.isEmpty && pats.contains p

def fpsql (table date tp ms : String) : Option String := do
  let d ← Qryn.ofHex date
  let tp ← tp.toInt?
  let ms ← allSome ((parseList ms).map parseMatcher)
  match Qryn.Prom.fingerprintsQuery (fullOf ms) table d tp (ms.map (·.1)) with
  | none => some "unsupported"
  | some q => some (Qryn.hexOut q.render)

def splitList (sep : String) (s : String) : List String := if s = "_" then [] else s.splitOn sep

def parseIdxRow (s : String) : Option Qryn.Prom.IdxRow :=
  match s.splitOn "~" with
  | [d, k, v, fp, tp] => do
    let d ← Qryn.ofHex d
    let k ← Qryn.ofHex k
    let v ← Qryn.ofHex v
    let fp ← fp.toNat?
    let tp ← tp.toInt?
    some ⟨d, k, v, fp, tp⟩
  | _ => none

def parsePairs (tbl : String) : Option (List (Qryn.Bytes × Qryn.Bytes)) :=
  allSome ((splitList "," tbl).map (fun p => match p.splitOn "~" with
    | [a, b] => do
      let a ← Qryn.ofHex a
      let b ← Qryn.ofHex b
      some (a, b)
    | _ => none))

def fpEval (date tp ms rows tbl : String) : Option String := do
  let d ← Qryn.ofHex date
  let tp ← tp.toInt?
  let ms ← allSome ((parseList ms).map parseMatcher)
  let rows ← allSome ((splitList "," rows).map parseIdxRow)
  let tbl ← parsePairs tbl
  match Qryn.Prom.fingerprintsQuery (fullOf ms) "time_series_gin" d tp (ms.map (·.1)) with
  | none => some "unsupported"
  | some q =>
    let fps := (q.eval (fun pat v => tbl.contains (pat, v)) 64 rows).mergeSort (fun a b => decide (a ≤ b))
    some (if fps.isEmpty then "-" else ",".intercalate (fps.map toString))

/-! ### labels / label values / series -/
def parseSels (s : String) : Option (Option (List (List (Qryn.Prom.Matcher × Bool)))) :=
  if s = "-" then some none
  else (allSome ((s.splitOn ";").map (fun sel => allSome ((parseList sel).map parseMatcher)))).map some

def unionOf (table : String) (d : Qryn.Bytes) (tp : Int) (sels : Option (List (List (Qryn.Prom.Matcher × Bool)))) :
    Option (Option Qryn.Prom.Labels.FpUnion) :=
  match sels with
  | none => some none
  | some ss =>
    (Qryn.Prom.Labels.fpUnion (fullOf ss.flatten) table d tp (ss.map (·.map (·.1)))).map some

def lblSql (kind table d1 d2 tp limit name sels : String) : Option String := do
  let d1 ← Qryn.ofHex d1
  let d2 ← Qryn.ofHex d2
  let tp ← tp.toInt?
  let limit ← limit.toNat?
  let name ← if name = "-" then some [] else Qryn.ofHex name
  let sels ← parseSels sels
  let gin := "time_series_gin"
  let w : Qryn.Prom.Labels.Win := ⟨d1, d2, tp⟩
  match unionOf gin d1 tp sels with
  | none => some "unsupported"
  | some u =>
    if kind = "names" then some (Qryn.hexOut (Qryn.Prom.Labels.namesRender table w u))
    else if kind = "values" then some (Qryn.hexOut (Qryn.Prom.Labels.valuesRender table w limit name u))
    else if kind = "series" then
      match u with
      | some u => some (Qryn.hexOut (Qryn.Prom.Labels.seriesRender table w limit u))
      | none => some "unsupported"
    else none

def parseTsRow (s : String) : Option Qryn.Prom.Labels.TsRow :=
  match s.splitOn "~" with
  | [d, fp, l, tp] => do
    let d ← Qryn.ofHex d
    let fp ← fp.toNat?
    let l ← Qryn.ofHex l
    let tp ← tp.toInt?
    some ⟨d, fp, l, tp⟩
  | _ => none

def lblEval (kind d1 d2 tp limit name sels rows ts tbl : String) : Option String := do
  let d1 ← Qryn.ofHex d1
  let d2 ← Qryn.ofHex d2
  let tp ← tp.toInt?
  let limit ← limit.toNat?
  let name ← if name = "-" then some [] else Qryn.ofHex name
  let sels ← parseSels sels
  let rows ← allSome ((splitList "," rows).map parseIdxRow)
  let ts ← allSome ((splitList "," ts).map parseTsRow)
  let tbl ← parsePairs tbl
  let w : Qryn.Prom.Labels.Win := ⟨d1, d2, tp⟩
  match unionOf "time_series_gin" d1 tp sels with
  | none => some "unsupported"
  | some u =>
    let fps := u.map (fun u => u.eval (fun pat v => tbl.contains (pat, v)) 64 rows)
    let out ←
      if kind = "names" then some (Qryn.Prom.Labels.namesEval w fps rows)
      else if kind = "values" then some (Qryn.Prom.Labels.valuesEval w limit name fps rows)
      else if kind = "series" then fps.map (fun f => Qryn.Prom.Labels.seriesEval w limit f ts)
      else none
    some (if out.isEmpty then "-" else ",".intercalate (out.map Qryn.hexOut))

def parseSelector (s : String) : Option (Qryn.Prof.Selector × Bool) :=
  let parts := s.splitOn ":"
  let (parts, e) := match parts with
    | [t, n, v, "e"] => ([t, n, v], true)
    | p => (p, false)
  match parts with
  | [t, n, v] =>
    let op : Option Qryn.Prof.Op :=
      if t = "eq" then some .eq else if t = "ne" then some .ne else if t = "re" then some .re
      else if t = "nre" then some .nre else none
    match op, Qryn.ofHex n, Qryn.ofHex v with
    | some op, some n, some v => some (⟨n, op, v⟩, e)
    | _, _, _ => none
  | _ => none

/-- Go's `regexp` as far as `acceptsEmpty` consults it: "is the (anchored) pattern found in the empty string" -/
def greOf (sels : List (Qryn.Prof.Selector × Bool)) : Qryn.Bytes → Qryn.Bytes → Bool :=
  let pats := (sels.filter (·.2)).map (fun s => Qryn.Prof.selVal s.1)
  fun p s => s.isEmpty && pats.contains p

def profsql (table d1 d2 sels : String) : Option String := do
  let d1 ← Qryn.ofHex d1
  let d2 ← Qryn.ofHex d2
  let sels ← allSome ((parseList sels).map parseSelector)
  match Qryn.Prof.plan (greOf sels) table d1 d2 (sels.map (·.1)) with
  | none => some "unsupported"
  | some q => some (Qryn.hexOut q.render)

def parseKey (s : String) : Option (Nat × Nat) :=
  match s.splitOn ":" with
  | [a, b] => match a.toNat?, b.toNat? with
    | some a, some b => some (a, b)
    | _, _ => none
  | _ => none

def selectOp (rows keys : String) : Option String := do
  let rs ← allSome ((parseList rows).map parseRow)
  let ks ← allSome ((parseList keys).map parseKey)
  match Qryn.Read.Assembly.assemble rs with
  | none => some "!"
  | some ss =>
    let out := Qryn.Read.Assembly.reshuffle (fun fp => (ks.lookup fp).getD 0) ss
    some (if out.isEmpty then "-" else ";".intercalate (out.map showSeries))

def hintsOf (a b c d f : String) : Option Qryn.Prom.Stepped.Hints := do
  let a ← a.toInt?
  let b ← b.toInt?
  let c ← c.toInt?
  let d ← d.toInt?
  some ⟨a, b, c, d, if f = "-" then "" else f⟩

def stepOp (a b c d f rows : String) : Option String := do
  let h ← hintsOf a b c d f
  let rs ← allSome ((parseList rows).map parseRow)
  match Qryn.Read.Assembly.assemble (Qryn.Prom.Stepped.run h rs) with
  | none => some "!"
  | some ss => some (if ss.isEmpty then "-" else ";".intercalate (ss.map showSeries))

def stepSql (a b c d f : String) : Option String := do
  let h ← hintsOf a b c d f
  let sh := Qryn.Prom.Stepped.shape h
  some ((if sh.1 then Qryn.hexOut (Qryn.Prom.Stepped.renderBucket h.start h.step) else "-") ++ " " ++
        (if sh.2 then Qryn.hexOut (Qryn.Prom.Stepped.renderFilter h) else "-"))

def parseAgg (s : String) : Option Qryn.Prom.Downsample.Agg :=
  match (s.splitOn ":").map String.toInt? with
  | [some fp, some b, some lv, some lt, some mn, some mx, some sm, some ct] => some ⟨fp.toNat, b, lv, lt, mn, mx, sm, ct⟩
  | _ => none

def showDSeries (rows : List Qryn.Prom.Downsample.DRow) : String :=
  -- the row loop: a new series on every change of fingerprint (rows arrive ordered by fingerprint)
  let grp := rows.foldl (fun (acc : List (Nat × List Qryn.Prom.Downsample.DRow)) r =>
    match acc.getLast? with
    | some (fp, xs) => if fp = r.fp then acc.dropLast ++ [(fp, xs ++ [r])] else acc ++ [(r.fp, [r])]
    | none => [(r.fp, [r])]) []
  ";".intercalate (grp.map (fun g => toString g.1 ++ "=" ++
    "|".intercalate (g.2.map (fun r => toString r.ts ++ ":" ++ toString r.num ++ "/" ++ toString r.den))))

def downOp (a b c d f rows : String) : Option String := do
  let h ← hintsOf a b c d f
  let rs ← allSome ((parseList rows).map parseAgg)
  match Qryn.Prom.Downsample.down h rs with
  | none => some "unsupported"
  | some out =>
    -- MapResult runs per series after the row loop; it maps row by row, so mapping all rows first is the same
    let out := Qryn.Prom.Downsample.mapResult h.func out
    some (if out.isEmpty then "-" else showDSeries out)

def parsePRow (s : String) : Option Qryn.Prof.PRow :=
  match s.splitOn "~" with
  | [d, k, v, t, sv, stu, fp] => do
    let d ← Qryn.ofHex d
    let k ← Qryn.ofHex k
    let v ← Qryn.ofHex v
    let t ← Qryn.ofHex t
    let sv ← Qryn.ofHex sv
    let stu ← allSome ((splitList ";" stu).map (fun p => match p.splitOn "+" with
      | [a, b] => do
        let a ← Qryn.ofHex a
        let b ← Qryn.ofHex b
        some (a, b)
      | _ => none))
    let fp ← fp.toNat?
    some ⟨d, k, v, t, sv, stu, fp⟩
  | _ => none

def profEval (d1 d2 sels rows tbl : String) : Option String := do
  let d1 ← Qryn.ofHex d1
  let d2 ← Qryn.ofHex d2
  let sels ← allSome ((parseList sels).map parseSelector)
  let rows ← allSome ((splitList "," rows).map parsePRow)
  let tbl ← allSome ((splitList "," tbl).map (fun p => match p.splitOn "~" with
    | [a, b] => do
      let a ← Qryn.ofHex a
      let b ← Qryn.ofHex b
      some (a, b)
    | _ => none))
  match Qryn.Prof.plan (greOf sels) "profiles_series_gin" d1 d2 (sels.map (·.1)) with
  | none => some "unsupported"
  | some q =>
    let fps := (q.eval (fun pat v => tbl.contains (pat, v)) 64 rows).mergeSort (fun a b => decide (a ≤ b))
    some (if fps.isEmpty then "-" else ",".intercalate (fps.map toString))

def handle : List String → Option String
  | ["c17profeval", d1, d2, sels, rows, tbl] => profEval d1 d2 sels rows tbl
  | ["c17down", a, b, c, d, f, rows] => downOp a b c d f rows
  | ["c17downsql", a, b, c, d, f] => (hintsOf a b c d f).map (fun h =>
      Qryn.hexOut (Qryn.Prom.Downsample.renderDown "metrics_15s" 2 h))
  | ["c17step", a, b, c, d, f, rows] => stepOp a b c d f rows
  | ["c17stepsql", a, b, c, d, f] => stepSql a b c d f
  | ["c17select", rows, keys] => selectOp rows keys
  | ["c17profsql", table, d1, d2, sels] => profsql table d1 d2 sels
  | ["c17order", sets] => do
    let parseSet (x : String) : Option Qryn.Read.SeriesOrder.Labels :=
      if x = "_" then some [] else
      allSome ((x.splitOn ",").map (fun kv => match kv.splitOn "=" with
        | [a, b] => do
          let a ← Qryn.ofHex a
          let b ← Qryn.ofHex b
          some (a, b)
        | _ => none))
    let showSet (l : Qryn.Read.SeriesOrder.Labels) : String :=
      if l.isEmpty then "_" else ",".intercalate (l.map (fun kv => Qryn.hexOut kv.1 ++ "=" ++ Qryn.hexOut kv.2))
    let ls ← allSome ((sets.splitOn ";").map parseSet)
    some (";".intercalate ((Qryn.Read.SeriesOrder.sortSeries ls).map showSet))
  | ["c17lblfetchsql", dist, a, b, fps] => do
    let fps ← allSome ((parseList fps).map (·.toNat?))
    some (Qryn.hexOut (Qryn.Prom.LabelsFetch.fetch (dist = "1") (← a.toInt?) (← b.toInt?) fps).render)
  | ["c17lblfetcheval", a, b, fps, rows] => do
    let fps ← allSome ((parseList fps).map (·.toNat?))
    let rows ← allSome ((if rows = "_" then [] else rows.splitOn ",").map (fun x => match x.splitOn ":" with
      | [d, f] => do some (⟨← d.toInt?, ← f.toNat?, []⟩ : Qryn.Prom.LabelsFetch.TsRow)
      | _ => none))
    let q := Qryn.Prom.LabelsFetch.fetch false (← a.toInt?) (← b.toInt?) fps
    let out := (q.eval rows).map (fun r => toString r.fp)
    some s!"{q.lowerDay} {q.upperDay} {if out.isEmpty then "-" else ",".intercalate out}"
  | ["c17fpeval", date, tp, ms, rows, tbl] => fpEval date tp ms rows tbl
  | ["c17hints", a, b, c, lb, rg, off, f] => do
    let q : Qryn.Prom.Stepped.Query := ⟨← a.toInt?, ← b.toInt?, ← c.toInt?⟩
    let h := Qryn.Prom.Stepped.engineHints q (← lb.toInt?) (← rg.toInt?) (← off.toInt?) (if f = "-" then "" else f)
    some s!"{h.start} {h.stop} {h.step} {h.range} {if h.func = "" then "-" else h.func}"
  | ["c17route", a, b, c, d, f] => (hintsOf a b c d f).map (fun h =>
      (if Qryn.Prom.Stepped.usesRaw h then "raw" else "down") ++ " " ++
      (match Qryn.Prom.Stepped.classOf h.func with | .instant => "instant" | .range => "range" | .other => "other"))
  | ["c17lblsql", kind, table, d1, d2, tp, limit, name, sels] => lblSql kind table d1 d2 tp limit name sels
  | ["c17lbleval", kind, d1, d2, tp, limit, name, sels, rows, ts, tbl] => lblEval kind d1 d2 tp limit name sels rows ts tbl
  | ["c17fpsql", table, date, tp, ms] => fpsql table date tp ms
  | ["c17scan", a, b] => match a.toInt?, b.toInt? with
    | some a, some b => some (Qryn.hexOut (Qryn.Prom.renderScan a b))
    | _, _ => none
  | ["c17assemble", rows] => assembleOp rows
  | ["c17cursor", ss, ops] => cursor run ss ops
  | ["c17cursorw", ss, ops] => cursor runW ss ops
  | _ => none
end Driver.C17
