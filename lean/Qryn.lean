import Qryn.Base.Bytes
