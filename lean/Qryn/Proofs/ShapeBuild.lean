import Qryn.Proofs.Shape
import Qryn.Sql.Build
/-! `shapeS` commutes with the builder methods of `sql_select.Select` (`With`, `AndWhere`, `AndHaving`, `Select`, …): they look
    at aliases and at the and/or structure only, never into a string leaf. -/
namespace Qryn.Sql
open Qryn

theorem shapeEs_eq_map : ∀ es : List Expr, shapeEs es = es.map shapeE
  | [] => by simp [shapeEs]
  | e :: es => by simp [shapeEs, shapeEs_eq_map es]

theorem shapeWs_eq_map : ∀ ws : List (Alias × Sel), shapeWs ws = ws.map (fun w => (w.1, shapeS w.2))
  | [] => by simp [shapeWs]
  | (a, s) :: ws => by simp [shapeWs, shapeWs_eq_map ws]

theorem shapeEs_append (x y : List Expr) : shapeEs (x ++ y) = shapeEs x ++ shapeEs y := by
  simp [shapeEs_eq_map]

theorem shapeS_withs (s : Sel) : (shapeS s).withs = shapeWs s.withs := by
  cases s; simp [shapeS, Sel.withs]

theorem hasAlias_shapeWs (ws : List (Alias × Sel)) (a : Alias) : hasAlias (shapeWs ws) a = hasAlias ws a := by
  simp [hasAlias, shapeWs_eq_map, List.any_map, Function.comp_def]

theorem shapeWs_append (x y : List (Alias × Sel)) : shapeWs (x ++ y) = shapeWs x ++ shapeWs y := by
  simp [shapeWs_eq_map]

theorem shapeWs_hoist : ∀ (inner cur : List (Alias × Sel)),
    shapeWs (inner.foldl (fun acc w' => if hasAlias acc w'.1 then acc else acc ++ [w']) cur) =
      (shapeWs inner).foldl (fun acc w' => if hasAlias acc w'.1 then acc else acc ++ [w']) (shapeWs cur)
  | [], cur => by simp [shapeWs]
  | (a, s) :: inner, cur => by
    simp only [List.foldl_cons, shapeWs]
    by_cases h : hasAlias cur a = true
    · have h' : hasAlias (shapeWs cur) a = true := by rw [hasAlias_shapeWs]; exact h
      rw [if_pos h, if_pos h']
      exact shapeWs_hoist inner cur
    · have h' : ¬ hasAlias (shapeWs cur) a = true := by rw [hasAlias_shapeWs]; exact h
      rw [if_neg h, if_neg h']
      rw [shapeWs_hoist inner (cur ++ [(a, s)]), shapeWs_append]
      simp [shapeWs]

theorem shapeWs_addWith1 (cur : List (Alias × Sel)) (w : Alias × Sel) :
    shapeWs (addWith1 cur w) = addWith1 (shapeWs cur) (w.1, shapeS w.2) := by
  unfold addWith1
  by_cases h : hasAlias cur w.1 = true
  · have h' : hasAlias (shapeWs cur) w.1 = true := by rw [hasAlias_shapeWs]; exact h
    rw [if_pos h, if_pos h']
  · have h' : ¬ hasAlias (shapeWs cur) w.1 = true := by rw [hasAlias_shapeWs]; exact h
    rw [if_neg h, if_neg h']
    rw [shapeWs_append, shapeWs_hoist, shapeS_withs]
    obtain ⟨a, s⟩ := w
    simp [shapeWs]

theorem shapeWs_foldl_addWith1 : ∀ (ws cur : List (Alias × Sel)),
    shapeWs (ws.foldl addWith1 cur) = (shapeWs ws).foldl addWith1 (shapeWs cur)
  | [], cur => by simp [shapeWs]
  | (a, s) :: ws, cur => by
    simp only [List.foldl_cons, shapeWs]
    rw [shapeWs_foldl_addWith1 ws, shapeWs_addWith1]

theorem shapeS_setWiths (s : Sel) (ws : List (Alias × Sel)) : shapeS (s.setWiths ws) = (shapeS s).setWiths (shapeWs ws) := by
  cases s; simp [Sel.setWiths, shapeS]

/-- `Select.With` -/
theorem shapeS_with_ (s : Sel) (ws : List (Alias × Sel)) : shapeS (s.with_ ws) = (shapeS s).with_ (shapeWs ws) := by
  unfold Sel.with_
  rw [shapeS_setWiths, shapeWs_foldl_addWith1]
  simp [shapeWs]

theorem shapeE_andCond (cur : Option Expr) (cl : List Expr) : shapeE (andCond cur cl) = andCond (shapeO cur) (shapeEs cl) := by
  cases cur with
  | none => simp [andCond, and_, shapeE, shapeO]
  | some e =>
    cases e <;> simp [andCond, and_, shapeE, shapeO, shapeEs, shapeEs_append]
    rename_i fn cs
    by_cases h : fn = "and" <;> simp [h, shapeE, shapeEs, shapeEs_append]

theorem shapeS_andWhere (s : Sel) (cl : List Expr) : shapeS (s.andWhere cl) = (shapeS s).andWhere (shapeEs cl) := by
  cases s; simp [Sel.andWhere, shapeS, shapeO, shapeE_andCond]

theorem shapeS_andHaving (s : Sel) (cl : List Expr) : shapeS (s.andHaving cl) = (shapeS s).andHaving (shapeEs cl) := by
  cases s; simp [Sel.andHaving, shapeS, shapeO, shapeE_andCond]

theorem shapeS_setCols (s : Sel) (cs : List Expr) : shapeS (s.setCols cs) = (shapeS s).setCols (shapeEs cs) := by
  cases s; simp [Sel.setCols, shapeS]
theorem shapeS_setOrderBy (s : Sel) (ob : List Expr) : shapeS (s.setOrderBy ob) = (shapeS s).setOrderBy (shapeEs ob) := by
  cases s; simp [Sel.setOrderBy, shapeS]
theorem shapeS_cols (s : Sel) : (shapeS s).cols = shapeEs s.cols := by
  cases s; simp [Sel.cols, shapeS]

end Qryn.Sql
