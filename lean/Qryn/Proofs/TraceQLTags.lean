import Qryn.Proofs.TraceQLWhole
/-! C11: the tag-name and tag-value statements (`PlanTagsV2`, `PlanValuesV2` of a selector with conditions): the
    distinct keys / values of the index rows inside the window whose span id is the id of a span the conditions select. -/
namespace Qryn.TraceQL
open Qryn Qryn.Sql

/-- the outer select of both statements: `col` is `key` or `val`, `extraW` the added condition on the key -/
def tagSel (c : Ctx) (col : String) (extraW : List Expr) (ws : List (Alias × Sel)) : Sel :=
  let body : Sel := .mk ws false [simpleCol col col] (some (.col (.raw c.attrsDistTable) "traces_idx")) [] none
    (some (.logical "and" ([and_ [
      ge (.raw "date") (.str (dateFrom c)), le (.raw "date") (.str (dateTo c)),
      ge (.raw "traces_idx.timestamp_ns") (.int c.fromNs), lt (.raw "traces_idx.timestamp_ns") (.int c.toNs),
      .isIn (.raw "span_id") [.withRef (.named "pre_select_tags")]]] ++ extraW)))
    [.raw col] none [] none
  if c.limit > 0 then (body.setOrderBy [.orderBy (.raw col) .asc]).setLimit (some (.int c.limit)) else body

def preSel : Sel := .mk [] false [.raw "span_id"] (some (.withRef (.named "select_spans"))) [] none none [] none [] none

theorem planTags_eq (c : Ctx) (m : Sel) (hm : m.withs = []) :
    tagsOrder c "key" (selectTags c "key" m) = tagSel c "key" [] [(.named "select_spans", m), (.named "pre_select_tags", preSel)] := by
  unfold tagsOrder tagSel selectTags
  have wpre : (Sel.mk [] false [Expr.raw "span_id"] (some (Expr.withRef (Alias.named "select_spans"))) [] none none [] none [] none).withs = [] := rfl
  split <;> simp (config := { decide := true }) [Sel.with_, addWith1, hasAlias, hm, wpre, preSel, Sel.setWiths, Sel.setOrderBy,
    Sel.setLimit, dateFrom, dateTo, and_]

theorem planValues_eq (c : Ctx) (m : Sel) (hm : m.withs = []) (key : Bytes) :
    tagsOrder c "val" ((((tagsOrder c "key" (selectTags c "key" m)).setCols [simpleCol "val" "val"]).andWhere
        [eq (.raw "key") (.str key)]).setGroupBy [.raw "val"]) =
      tagSel c "val" [eq (.raw "key") (.str key)] [(.named "select_spans", m), (.named "pre_select_tags", preSel)] := by
  rw [planTags_eq c m hm]
  unfold tagsOrder tagSel
  split <;> simp [Sel.setCols, Sel.andWhere, Sel.setGroupBy, Sel.setOrderBy, Sel.setLimit, andCond, and_]

theorem source_idxDist (o : Oracles) (ao : AggOracles) (c : Ctx) (d : TraceDb) (env : Env) :
    sourceRowsG o ao (d.toDb c) env (.col (.raw c.attrsDistTable) "traces_idx") = d.attrs.map AttrRow.qrow := by
  simp [sourceRowsG, TraceDb.toDb, List.map_map, Function.comp_def, AttrRow.qrow]

/-- ids of the spans the conditions select -/
def selSids (o : Oracles) (c : Ctx) (d : TraceDb) (e : AttrExp) : List Bytes :=
  ((spans c d).filter (spanHolds o c d e)).map (·.2)

theorem contains_perm {α} [BEq α] [LawfulBEq α] (l l' : List α) (h : l.Perm l') (x : α) : l.contains x = l'.contains x := by
  rw [Bool.eq_iff_iff]; simp [h.mem_iff]

/-- the index rows the outer select keeps -/
def tagRows (o : Oracles) (c : Ctx) (d : TraceDb) (e : AttrExp) (φ : AttrRow → Bool) : List AttrRow :=
  d.attrs.filter (fun a => admissible c a && (selSids o c d e).contains a.spanId && φ a)

section
variable (o : Oracles) (ao : AggOracles) (c : Ctx) (d : TraceDb) (hr : c.rndMax = 0) (e : AttrExp) (es : List Expr)
  (hinj : KeyInj (termsOf e)) (hm : mapOk termSql (analyzeCond [] e).1 = .ok es) (h64 : (analyzeCond [] e).1.length ≤ 64)
  (aggAttr : String)
include hr hinj hm h64

/-- the scope of the outer select: the index scan of the selector and the ids of its spans -/
theorem tag_env :
    ∃ A : Table, evalWithsJ o ao (d.toDb c) [] [(.named "select_spans", idxSel c es (analyzeCond [] e).2 aggAttr), (.named "pre_select_tags", preSel)] =
        [(.named "pre_select_tags", A.map (fun r => [("span_id", r.get "span_id")])), (.named "select_spans", A)] ∧
      ∀ x : Bytes, (A.map (fun r => r.get "span_id")).contains (.str x) = (selSids o c d e).contains x := by
  have hu : usesJ (idxSel c es (analyzeCond [] e).2 aggAttr) = false := usesJ_idxSel c es _ aggAttr
  refine ⟨evalSelG o ao (d.toDb c) false [] (idxSel c es (analyzeCond [] e).2 aggAttr), ?_, ?_⟩
  · have hp : usesJ preSel = false := by decide
    simp only [evalWithsJ, evalCteJ, hu, hp, Bool.false_eq_true, if_false]
    congr 2
    simp only [preSel, evalSelG, sourceRowsG, List.lookup, beq_self_eq_true, Option.getD_some, Alias.text, List.foldl_nil, optB,
      Bool.and_true, List.isEmpty_nil, if_true, limitG, Bool.false_eq_true, if_false]
    rw [List.filter_eq_self.mpr (by intro r _; rfl), List.map_map]
    apply List.map_congr_left
    intro r _
    simp [project, colName, evalE, get_qualify_nodot _ _ _ sid_nodot]
  · intro x
    have hperm := stageA_perm o ao c d false [] e es aggAttr hinj hm h64
    rw [seen_noFilter d o c hr] at hperm
    have hne : ∀ k ∈ (spans c d).filter (spanHolds o c d e), grpA o [] c d (es ++ aggWhere aggAttr) k ≠ [] := by
      intro k hk
      obtain ⟨a, ha, hka, hok⟩ := spanHolds_rowOk o [] c d e es (es ++ aggWhere aggAttr) hinj hm
        (fun x hx => List.mem_append_left _ hx) k (List.mem_filter.mp hk).2
      exact grpA_ne_nil o [] c d _ k a ha hka hok
    have h1 := hperm.map (fun r => r.get "span_id")
    rw [List.map_map] at h1
    have h2 : ((spans c d).filter (spanHolds o c d e)).map ((fun r => r.get "span_id") ∘ rowA o [] c d (es ++ aggWhere aggAttr) aggAttr) =
        (selSids o c d e).map Val.str := by
      simp only [selSids, List.map_map]
      apply List.map_congr_left
      intro k hk
      exact rowA_span o [] c d _ aggAttr k (hne k hk)
    rw [h2] at h1
    rw [contains_perm _ _ h1, contains_map_str]
end

theorem evalAll_append' (o : Oracles) (env : Env) (r : Row) (l1 l2 : List Expr) :
    evalAll o env r (l1 ++ l2) = (evalAll o env r l1 && evalAll o env r l2) := by
  induction l1 with
  | nil => simp [evalAll_nil]
  | cons x xs ih => simp [evalAll_cons, ih, Bool.and_assoc]

theorem colStrs_map_str {α} (l : List α) (col : String) (f : α → Bytes) :
    colStrs (l.map (fun x => [(col, Val.str (f x))])) col = l.map f := by
  induction l with
  | nil => rfl
  | cons x xs ih =>
    have hx : Row.get [(col, Val.str (f x))] col = Val.str (f x) := by simp [Row.get, List.lookup]
    simp only [colStrs, List.map_cons, List.filterMap_cons, hx] at ih ⊢
    rw [ih]

section
variable (o : Oracles) (ao : AggOracles) (c : Ctx) (d : TraceDb) (hr : c.rndMax = 0) (e : AttrExp) (es : List Expr)
  (hinj : KeyInj (termsOf e)) (hm : mapOk termSql (analyzeCond [] e).1 = .ok es) (h64 : (analyzeCond [] e).1.length ≤ 64)
  (aggAttr : String)
include hr hinj hm h64

/-- **the outer select of the tag statements**: the distinct values of column `col` over the index rows inside the
    window whose span id is selected (and that pass the added condition); ascending and cut at a positive limit -/
theorem tagSel_eval (col : String) (pf : AttrRow → Bytes) (hpf : ∀ a : AttrRow, a.qrow.get col = .str (pf a))
    (extraW : List Expr) (φ : AttrRow → Bool) (hφ : ∀ (env : Env) (a : AttrRow), evalAll o env a.qrow extraW = φ a)
    (hnt : whereTuple (some (.logical "and" ([and_ [
      ge (.raw "date") (.str (dateFrom c)), le (.raw "date") (.str (dateTo c)),
      ge (.raw "traces_idx.timestamp_ns") (.int c.fromNs), lt (.raw "traces_idx.timestamp_ns") (.int c.toNs),
      .isIn (.raw "span_id") [.withRef (.named "pre_select_tags")]]] ++ extraW))) = false) :
    colStrs (evalStmtJ o ao (d.toDb c)
      (tagSel c col extraW [(.named "select_spans", idxSel c es (analyzeCond [] e).2 aggAttr), (.named "pre_select_tags", preSel)])) col =
      tagsResult c (dedup ((tagRows o c d e φ).map pf)) := by
  obtain ⟨A, henv, hA⟩ := tag_env o ao c d hr e es hinj hm h64 aggAttr
  generalize hWS : [(Alias.named "select_spans", idxSel c es (analyzeCond [] e).2 aggAttr), (Alias.named "pre_select_tags", preSel)] = WS at henv
  generalize henv' : ([(Alias.named "pre_select_tags", A.map (fun r => [("span_id", r.get "span_id")])), (Alias.named "select_spans", A)] : Env) = env at henv
  have hlook : env.lookup (.named "pre_select_tags") = some (A.map (fun r => [("span_id", r.get "span_id")])) := by rw [← henv']; rfl
  -- WHERE on an index row
  have hW : ∀ a : AttrRow, optB o env a.qrow (some (.logical "and" ([and_ [
      ge (.raw "date") (.str (dateFrom c)), le (.raw "date") (.str (dateTo c)),
      ge (.raw "traces_idx.timestamp_ns") (.int c.fromNs), lt (.raw "traces_idx.timestamp_ns") (.int c.toNs),
      .isIn (.raw "span_id") [.withRef (.named "pre_select_tags")]]] ++ extraW))) =
      (admissible c a && (selSids o c d e).contains a.spanId && φ a) := by
    intro a
    have h1 := evalB_and o env a.qrow ([and_ [
      ge (.raw "date") (.str (dateFrom c)), le (.raw "date") (.str (dateTo c)),
      ge (.raw "traces_idx.timestamp_ns") (.int c.fromNs), lt (.raw "traces_idx.timestamp_ns") (.int c.toNs),
      .isIn (.raw "span_id") [.withRef (.named "pre_select_tags")]]] ++ extraW)
    simp only [and_] at h1
    simp only [optB, and_]
    rw [h1, evalAll_append', hφ, evalAll_cons, evalAll_nil, Bool.and_true]
    have h2 := evalB_and o env a.qrow [ge (.raw "date") (.str (dateFrom c)), le (.raw "date") (.str (dateTo c)),
      ge (.raw "traces_idx.timestamp_ns") (.int c.fromNs), lt (.raw "traces_idx.timestamp_ns") (.int c.toNs),
      .isIn (.raw "span_id") [.withRef (.named "pre_select_tags")]]
    simp only [and_] at h2
    rw [h2]
    have hw := evalB_window o env c a
    simp only [windowE, evalB_and, evalAll_cons, evalAll_nil, Bool.and_true] at hw
    simp only [evalAll_cons, evalAll_nil, Bool.and_true]
    have hin : evalB o env a.qrow (.isIn (.raw "span_id") [.withRef (.named "pre_select_tags")]) = (selSids o c d e).contains a.spanId := by
      have hfc : firstCol (A.map (fun r => [("span_id", r.get "span_id")])) = A.map (fun r => r.get "span_id") := by
        simp [firstCol, List.filterMap_map, Function.comp_def]
      simp only [evalB, evalE, hlook, Option.getD_some, truthy_boolVal, hfc, qrow_span]
      exact hA a.spanId
    rw [hin, ← hw]
    simp only [Bool.and_assoc]
  -- the groups
  have hgroups : ∀ (ob : List Expr) (lim : Option Expr),
      evalSelG o ao (d.toDb c) false env (.mk WS false [simpleCol col col] (some (.col (.raw c.attrsDistTable) "traces_idx")) [] none
        (some (.logical "and" ([and_ [
          ge (.raw "date") (.str (dateFrom c)), le (.raw "date") (.str (dateTo c)),
          ge (.raw "traces_idx.timestamp_ns") (.int c.fromNs), lt (.raw "traces_idx.timestamp_ns") (.int c.toNs),
          .isIn (.raw "span_id") [.withRef (.named "pre_select_tags")]]] ++ extraW))) [.raw col] none ob lim) =
      (limitG lim (if ob.isEmpty then (dedup ((tagRows o c d e φ).map pf)).map (fun k => ((tagRows o c d e φ).filter (fun a => pf a == k)).map AttrRow.qrow)
        else sortBy (grpLe o env [simpleCol col col] ob)
          ((dedup ((tagRows o c d e φ).map pf)).map (fun k => ((tagRows o c d e φ).filter (fun a => pf a == k)).map AttrRow.qrow)))).map
        (projG o env [simpleCol col col]) := by
    intro ob lim
    rw [evalSelG_grouped]
    simp only [Bool.false_eq_true, if_false]
    congr 1
    unfold groupsG
    simp only [source_idxDist, havingG]
    have hf : (d.attrs.map AttrRow.qrow).filter (fun r => optB o env r (some (.logical "and" ([and_ [
          ge (.raw "date") (.str (dateFrom c)), le (.raw "date") (.str (dateTo c)),
          ge (.raw "traces_idx.timestamp_ns") (.int c.fromNs), lt (.raw "traces_idx.timestamp_ns") (.int c.toNs),
          .isIn (.raw "span_id") [.withRef (.named "pre_select_tags")]]] ++ extraW)))) = (tagRows o c d e φ).map AttrRow.qrow := by
      rw [List.filter_map]
      congr 1
      apply List.filter_congr
      intro a _
      exact hW a
    rw [hf]
    have hg := groups_of_records (tagRows o c d e φ) AttrRow.qrow pf (fun k => [Val.str k])
      (fun r => [Expr.raw col].map (fun k => evalE o env r k)) (by intro a; simp [evalE, hpf]) (by intro a b h; simpa using h)
    rw [hg, List.filter_eq_self.mpr (by intro g _; rfl)]
  -- the row of a group
  have hkey : ∀ k ∈ dedup ((tagRows o c d e φ).map pf),
      evalGrp o env (((tagRows o c d e φ).filter (fun a => pf a == k)).map AttrRow.qrow) (simpleCol col col) = Val.str k := by
    intro k hk
    obtain ⟨a, ha, hak⟩ := List.mem_map.mp ((mem_dedup _ _).mp hk)
    have hne : (tagRows o c d e φ).filter (fun a => pf a == k) ≠ [] := by
      intro h0
      have : a ∈ (tagRows o c d e φ).filter (fun a => pf a == k) := List.mem_filter.mpr ⟨ha, by simp [hak]⟩
      rw [h0] at this; simp at this
    obtain ⟨a1, rest, ha1⟩ := List.ne_nil_iff_exists_cons.mp hne
    have ha1k : pf a1 = k := by
      have : a1 ∈ (tagRows o c d e φ).filter (fun a => pf a == k) := by rw [ha1]; simp
      simpa using (List.mem_filter.mp this).2
    rw [ha1]
    simp [simpleCol, evalGrp, evalE, hpf, ha1k]
  have hproj : ∀ k ∈ dedup ((tagRows o c d e φ).map pf),
      projG o env [simpleCol col col] (((tagRows o c d e φ).filter (fun a => pf a == k)).map AttrRow.qrow) = [(col, Val.str k)] := by
    intro k hk
    simp only [projG, List.map_cons, List.map_nil, hkey k hk]
    simp [simpleCol, colName]
  have hus : usesJ (tagSel c col extraW WS) = false := by
    have hn : whereTuple none = false := rfl
    unfold tagSel
    split <;> simp only [usesJ, Sel.setOrderBy, Sel.setLimit, hnt, hn, List.isEmpty_nil, Bool.not_true, Bool.false_or, List.any_cons,
      List.any_nil, simpleCol, isJ, Bool.or_false]
  have hws : selWiths (tagSel c col extraW WS) = WS := by
    unfold tagSel; split <;> rfl
  unfold evalStmtJ
  rw [hws, henv, evalCteJ, hus]
  simp only [Bool.false_eq_true, if_false]
  unfold tagSel tagsResult
  generalize hkeys : dedup ((tagRows o c d e φ).map pf) = keys at hgroups hproj hkey
  split
  · -- a positive limit: ascending, the first `limit`
    rename_i hlim
    simp only [Sel.setOrderBy, Sel.setLimit]
    rw [hgroups]
    simp only [List.isEmpty_cons, Bool.false_eq_true, if_false, limitG]
    have hs : sortBy (grpLe o env [simpleCol col col] [.orderBy (.raw col) .asc])
        (keys.map (fun k => ((tagRows o c d e φ).filter (fun a => pf a == k)).map AttrRow.qrow)) =
        (sortBy (fun a b => grpLe o env [simpleCol col col] [.orderBy (.raw col) .asc]
          (((tagRows o c d e φ).filter (fun x => pf x == a)).map AttrRow.qrow) (((tagRows o c d e φ).filter (fun x => pf x == b)).map AttrRow.qrow)) keys).map
          (fun k => ((tagRows o c d e φ).filter (fun a => pf a == k)).map AttrRow.qrow) :=
      sortBy_map' _ _ _ (fun _ _ => rfl) keys
    rw [hs]
    have hle : ∀ a ∈ keys, ∀ b ∈ keys, grpLe o env [simpleCol col col] [.orderBy (.raw col) .asc]
          (((tagRows o c d e φ).filter (fun x => pf x == a)).map AttrRow.qrow) (((tagRows o c d e φ).filter (fun x => pf x == b)).map AttrRow.qrow) =
        bytesLeB a b := by
      intro a ha b hb
      have hov : ∀ g : List Row, orderValG o env [simpleCol col col] g (.raw col) = evalGrp o env g (simpleCol col col) := by
        intro g; simp [orderValG, simpleCol, colName]
      simp only [grpLe, hov, hkey a ha, hkey b hb, valLe, Val.cmpLe, bytesLeB]
      by_cases hab : a = b
      · subst hab; simp [List.le_refl]
      · have : (Val.str a == Val.str b) = false := by simp; exact hab
        simp [this]
    rw [sortBy_congr_on _ _ keys hle, ← List.map_take, List.map_map]
    have : ∀ k ∈ (sortBy bytesLeB keys).take c.limit.toNat,
        (projG o env [simpleCol col col] ∘ fun k => ((tagRows o c d e φ).filter (fun a => pf a == k)).map AttrRow.qrow) k = [(col, Val.str k)] := by
      intro k hk
      exact hproj k ((ListAux.mem_sortBy _ _ _).mp (List.mem_of_mem_take hk))
    rw [List.map_congr_left this, colStrs_map_str]
    simp
  · rw [hgroups]
    simp only [List.isEmpty_nil, if_true, limitG, List.map_map]
    have : ∀ k ∈ keys,
        (projG o env [simpleCol col col] ∘ fun k => ((tagRows o c d e φ).filter (fun a => pf a == k)).map AttrRow.qrow) k = [(col, Val.str k)] :=
      fun k hk => hproj k hk
    rw [List.map_congr_left this, colStrs_map_str]
    simp
end

theorem tagsMain_shape (c : Ctx) (s : Selector) (op : ScriptOp) (e : AttrExp) (he : s.attrs = some e) (om : Option Sel)
    (h : tagsMain c [(s, op)] = .ok om) :
    ∃ es aggAttr, mapOk termSql (analyzeCond [] e).1 = .ok es ∧ (analyzeCond [] e).1.length ≤ 64 ∧
      om = some (idxSel c es (analyzeCond [] e).2 aggAttr) := by
  simp only [tagsMain, bind, Except.bind] at h
  cases hc : check [(s, op)] with
  | error m => simp [hc] at h
  | ok u =>
    simp only [hc, he] at h
    have key : ∀ (agg : String) (m : Sel), attrCondition c (analyzeCond [] e).1 (analyzeCond [] e).2 agg = .ok m →
        ∃ es aggAttr, mapOk termSql (analyzeCond [] e).1 = .ok es ∧ (analyzeCond [] e).1.length ≤ 64 ∧
          some m = some (idxSel c es (analyzeCond [] e).2 aggAttr) := by
      intro agg m ha
      obtain ⟨es, hm, rfl, h64⟩ := attrCondition_shape c _ _ _ m ha
      exact ⟨es, _, hm, h64, rfl⟩
    cases hagg : s.agg with
    | none =>
      simp only [hagg] at h
      cases ha : attrCondition c (analyzeCond [] e).1 (analyzeCond [] e).2 "" with
      | error m => simp [ha] at h
      | ok m =>
        simp [ha, pure, Except.pure] at h
        rw [← h]; exact key _ m ha
    | some a =>
      simp only [hagg] at h
      cases ha : attrCondition c (analyzeCond [] e).1 (analyzeCond [] e).2 a.attr with
      | error m => simp [ha] at h
      | ok m =>
        simp [ha, pure, Except.pure] at h
        rw [← h]; exact key _ m ha

theorem idxSel_withs (c : Ctx) (es : List Expr) (cond : Cond) (aggAttr : String) : (idxSel c es cond aggAttr).withs = [] := rfl

section
variable (o : Oracles) (ao : AggOracles) (c : Ctx) (d : TraceDb) (hr : c.rndMax = 0)
include hr

/-- **plan_tags_correct** -/
theorem planTags_correct (kv : String) (s : Selector) (op : ScriptOp) (e : AttrExp) (he : s.attrs = some e)
    (hinj : KeyInj (termsOf e)) (S : Sel) (h : planTags c kv [(s, op)] = .ok S) :
    colStrs (evalStmtJ o ao (d.toDb c) S) "key" = tagsResult c (tagKeys o c d e) := by
  simp only [planTags, bind, Except.bind] at h
  cases hm : tagsMain c [(s, op)] with
  | error m => simp [hm] at h
  | ok om =>
    obtain ⟨es, aggAttr, hmap, h64, rfl⟩ := tagsMain_shape c s op e he om hm
    simp [hm, pure, Except.pure] at h
    subst h
    rw [planTags_eq c _ (idxSel_withs _ _ _ _)]
    have := tagSel_eval o ao c d hr e es hinj hmap h64 aggAttr "key" (fun a => a.key) qrow_key [] (fun _ => true)
      (fun _ _ => by simp [evalAll_nil])
      (by simp [whereTuple, clauseTuple, isTupleIn, and_, ge, le, lt])
    rw [this]
    congr 2
    simp only [tagRows, tagKeys, selSids, Bool.and_true]

/-- **plan_values_correct** -/
theorem planValues_correct (kv : String) (key : Bytes) (s : Selector) (op : ScriptOp) (e : AttrExp) (he : s.attrs = some e)
    (hinj : KeyInj (termsOf e)) (S : Sel) (h : planValues c kv key [(s, op)] = .ok S) :
    colStrs (evalStmtJ o ao (d.toDb c) S) "val" = tagsResult c (tagValues o c d e key) := by
  simp only [planValues, bind, Except.bind] at h
  cases hm : tagsMain c [(s, op)] with
  | error m => simp [hm] at h
  | ok om =>
    obtain ⟨es, aggAttr, hmap, h64, rfl⟩ := tagsMain_shape c s op e he om hm
    simp [hm, pure, Except.pure] at h
    subst h
    rw [planValues_eq c _ (idxSel_withs _ _ _ _)]
    have := tagSel_eval o ao c d hr e es hinj hmap h64 aggAttr "val" (fun a => a.val) qrow_val [eq (.raw "key") (.str key)]
      (fun a => a.key == key)
      (fun env a => by simp [evalAll_cons, evalAll_nil, evalB, eq, evalE, cmpOp, qrow_key, val_str_beq])
      (by simp [whereTuple, clauseTuple, isTupleIn, and_, ge, le, lt, eq])
    rw [this]
    congr 2
end

end Qryn.TraceQL
