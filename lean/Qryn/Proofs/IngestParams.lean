import Qryn.Ingest.IngestParams
/-! Lemmas for the header / query-parameter model of the ingest routes (C05). -/
namespace Qryn.IngestParams
open Qryn.Gen

theorem ttl_bits : IngestParams.ttlParse = ("strconv.ParseUint", 10, 16) := rfl

theorem parseUint_lt (bits : Nat) (s : String) (n : Nat) (h : parseUint bits s = some n) : n < 2 ^ bits := by
  unfold parseUint at h
  split at h
  · split at h
    · cases h; assumption
    · cases h
  · cases h

theorem ttlDays_lt (s : String) : ttlDays s < 65536 := by
  unfold ttlDays
  split
  · decide
  · cases h : parseUint IngestParams.ttlParse.2.2 s with
    | none => simp
    | some n =>
      have := parseUint_lt _ _ _ h
      simpa [ttl_bits] using this

theorem asyncMode_cases (s : String) : asyncMode s = 2 ∧ s = "0" ∨ asyncMode s = 3 ∧ s = "1" ∨ asyncMode s = 1 ∧ s ≠ "0" ∧ s ≠ "1" := by
  unfold asyncMode
  have hc : IngestParams.asyncCases = [("0", 2), ("1", 3)] := rfl
  have hd : IngestParams.asyncDefault = 1 := rfl
  rw [hc, hd]
  by_cases h0 : s = "0"
  · subst h0; left; exact ⟨rfl, rfl⟩
  · by_cases h1 : s = "1"
    · subst h1; right; left; exact ⟨rfl, rfl⟩
    · right; right
      have e0 : (s == "0") = false := by simp [h0]
      have e1 : (s == "1") = false := by simp [h1]
      refine ⟨?_, h0, h1⟩
      simp [List.lookup, e0, e1]

theorem precision_cases (s : String) :
    (precision s = .ok 1 ∧ (s = "" ∨ s = "ns")) ∨ (precision s = .ok 1000 ∧ s = "us") ∨
    (precision s = .ok 1000000 ∧ s = "ms") ∨ (precision s = .ok 1000000000 ∧ s = "s") ∨
    (precision s = .error 400 ∧ s ≠ "" ∧ s ≠ "ns" ∧ s ≠ "us" ∧ s ≠ "ms" ∧ s ≠ "s") := by
  unfold precision
  have hc : IngestParams.precisionCases = [("ns", 1), ("us", 1000), ("ms", 1000000), ("s", 1000000000)] := rfl
  have hd : IngestParams.precisionDefaultStatus = 400 := rfl
  have he : IngestParams.precisionEmpty = "ns" := rfl
  rw [hc, hd, he]
  by_cases h0 : s = ""
  · subst h0; left; exact ⟨rfl, Or.inl rfl⟩
  · simp only [h0, if_false]
    by_cases h1 : s = "ns"
    · subst h1; left; exact ⟨rfl, Or.inr rfl⟩
    · by_cases h2 : s = "us"
      · subst h2; right; left; exact ⟨rfl, rfl⟩
      · by_cases h3 : s = "ms"
        · subst h3; right; right; left; exact ⟨rfl, rfl⟩
        · by_cases h4 : s = "s"
          · subst h4; right; right; right; left; exact ⟨rfl, rfl⟩
          · right; right; right; right
            have e1 : (s == "ns") = false := by simp [h1]
            have e2 : (s == "us") = false := by simp [h2]
            have e3 : (s == "ms") = false := by simp [h3]
            have e4 : (s == "s") = false := by simp [h4]
            refine ⟨?_, h0, h1, h2, h3, h4⟩
            simp [List.lookup, e1, e2, e3, e4]

/-! ### the parser does not depend on the order in which the Go map is walked -/

theorem prefix_unique (keys : List String) (hf : prefixFree keys = true) (ct a b : String)
    (ha : a ∈ keys) (hb : b ∈ keys) (pa : hasPrefix ct a = true) (pb : hasPrefix ct b = true) : a = b := by
  unfold prefixFree at hf
  have hab := (List.all_eq_true.mp ((List.all_eq_true.mp hf) a ha)) b hb
  have hba := (List.all_eq_true.mp ((List.all_eq_true.mp hf) b hb)) a ha
  unfold hasPrefix at pa pb
  rw [List.isPrefixOf_iff_prefix] at pa pb
  rcases Nat.le_total a.toList.length b.toList.length with hl | hl
  · have : a.toList <+: b.toList := List.prefix_of_prefix_length_le pa pb hl
    have hp : a.toList.isPrefixOf b.toList = true := List.isPrefixOf_iff_prefix.mpr this
    simp only [hp, Bool.not_true, Bool.or_false, beq_iff_eq] at hab
    exact hab
  · have : b.toList <+: a.toList := List.prefix_of_prefix_length_le pb pa hl
    have hp : b.toList.isPrefixOf a.toList = true := List.isPrefixOf_iff_prefix.mpr this
    simp only [hp, Bool.not_true, Bool.or_false, beq_iff_eq] at hba
    exact hba.symm

theorem find_unique_perm {α} (p : α → Bool) (l l' : List α) (hp : l.Perm l')
    (hu : ∀ a ∈ l, ∀ b ∈ l, p a = true → p b = true → a = b) : l.find? p = l'.find? p := by
  cases h : l.find? p with
  | none =>
    have hn := List.find?_eq_none.mp h
    symm
    apply List.find?_eq_none.mpr
    intro x hx
    exact hn x (hp.mem_iff.mpr hx)
  | some a =>
    have ha : p a = true := List.find?_some h
    have hal : a ∈ l := List.mem_of_find?_eq_some h
    cases h' : l'.find? p with
    | none =>
      have := List.find?_eq_none.mp h' a (hp.mem_iff.mp hal)
      simp [ha] at this
    | some b =>
      have hb : p b = true := List.find?_some h'
      have hbl : b ∈ l := hp.mem_iff.mpr (List.mem_of_find?_eq_some h')
      rw [hu a hal b hbl ha hb]

theorem selectParser_perm (keys order : List String) (hf : prefixFree keys = true) (hp : keys.Perm order) (ct : String) :
    selectParser order ct = selectParser keys ct := by
  unfold selectParser
  have h1 : keys.find? (hasPrefix ct) = order.find? (hasPrefix ct) :=
    find_unique_perm _ keys order hp (fun a ha b hb pa pb => prefix_unique keys hf ct a b ha hb pa pb)
  have h2 : order.contains "*" = keys.contains "*" := by
    apply Bool.eq_iff_iff.mpr
    simp only [List.contains_iff_mem]
    exact hp.symm.mem_iff
  rw [← h1, h2]

theorem all_handlers_prefix_free : handlerNames.all (fun h => prefixFree (parserKeys h)) = true := by decide +kernel

end Qryn.IngestParams
