import Qryn.Ctrl.Migrate
/-! Statement level: the syntactic criteria `rerunnableB` / `preservesB` imply the semantic properties
    `Rerunnable` / `Preserves`, for every catalogue. -/
set_option linter.unusedSimpArgs false
namespace Qryn.Ctrl.Migrate

/-! ### ALTER command lists -/

def addCols : List AlterOp → List Name
  | [] => []
  | .addColumn c _ :: r => c :: addCols r
  | .modifyOrderBy _ :: r => addCols r

def lastOrd (o : Nat) : List AlterOp → Nat
  | [] => o
  | .addColumn _ _ :: r => lastOrd o r
  | .modifyOrderBy h :: r => lastOrd h r

theorem applyOps_grows (t : Name) : ∀ (ops : List AlterOp) (st st' : List Name × Nat),
    applyOps t st ops = .ok st' →
      (∀ c, c ∈ st.1 → c ∈ st'.1) ∧ (∀ c, c ∈ addCols ops → c ∈ st'.1) ∧ st'.2 = lastOrd st.2 ops := by
  intro ops
  induction ops with
  | nil => intro st st' h; simp [applyOps] at h; subst h; simp [addCols, lastOrd]
  | cons op r ih =>
    intro st st' h
    cases op with
    | addColumn col g =>
      simp only [applyOps, applyOp] at h
      by_cases hc : st.1.contains col = true
      · simp only [hc, if_true] at h
        cases g with
        | false => simp at h
        | true =>
          simp only [if_true] at h
          have ⟨h1, h2, h3⟩ := ih _ _ h
          refine ⟨h1, ?_, h3⟩
          intro c hcm
          simp only [addCols, List.mem_cons] at hcm
          rcases hcm with rfl | hcm
          · exact h1 _ (by simpa using hc)
          · exact h2 _ hcm
      · simp only [hc] at h
        have ⟨h1, h2, h3⟩ := ih _ _ h
        refine ⟨fun c hcm => h1 c (by simp [hcm]), ?_, h3⟩
        intro c hcm
        simp only [addCols, List.mem_cons] at hcm
        rcases hcm with rfl | hcm
        · exact h1 _ (by simp)
        · exact h2 _ hcm
    | modifyOrderBy hh =>
      simp only [applyOps, applyOp] at h
      have ⟨h1, h2, h3⟩ := ih _ _ h
      exact ⟨h1, h2, h3⟩

theorem applyOps_present (t : Name) : ∀ (ops : List AlterOp) (st : List Name × Nat),
    ops.all AlterOp.guardedB = true → (∀ c, c ∈ addCols ops → c ∈ st.1) →
      applyOps t st ops = .ok (st.1, lastOrd st.2 ops) := by
  intro ops
  induction ops with
  | nil => intro st _ _; simp [applyOps, lastOrd]
  | cons op r ih =>
    intro st hg hp
    simp only [List.all_cons, Bool.and_eq_true] at hg
    cases op with
    | addColumn col g =>
      have hc : st.1.contains col = true := by simpa using hp col (by simp [addCols])
      have hgt : g = true := by simpa [AlterOp.guardedB] using hg.1
      subst hgt
      simp only [applyOps, applyOp, hc, if_true, lastOrd]
      exact ih st hg.2 (fun c hcm => hp c (by simp [addCols, hcm]))
    | modifyOrderBy hh =>
      simp only [applyOps, applyOp, lastOrd]
      exact ih (st.1, hh) hg.2 (fun c hcm => hp c (by simpa [addCols] using hcm))

theorem lastOrd_idem : ∀ (ops : List AlterOp) (o : Nat), lastOrd (lastOrd o ops) ops = lastOrd o ops := by
  intro ops
  induction ops with
  | nil => intro o; rfl
  | cons op r ih =>
    intro o
    cases op with
    | addColumn c g => simpa [lastOrd] using ih o
    | modifyOrderBy h =>
      simp only [lastOrd]

/-- an ALTER whose ADD COLUMNs are all guarded can be applied again to its own result without change -/
theorem applyOps_idem (t : Name) (ops : List AlterOp) (st st' : List Name × Nat)
    (hg : ops.all AlterOp.guardedB = true) (h : applyOps t st ops = .ok st') :
    applyOps t st' ops = .ok st' := by
  have ⟨_, h2, h3⟩ := applyOps_grows t ops st st' h
  have := applyOps_present t ops st' hg h2
  rw [this, h3, lastOrd_idem, ← h3]

/-! ### catalogue look-ups -/

theorem any_false_of_filter (n : Name) (l : List Obj) :
    (l.filter (fun o => !hasName n o)).any (hasName n) = false := by
  induction l with
  | nil => rfl
  | cons o r ih =>
    by_cases h : hasName n o = true
    · simp [List.filter, h, ih]
    · simp only [Bool.not_eq_true] at h
      simp [List.filter, h, ih]

theorem any_rename_src (a b : Name) (hab : a ≠ b) (l : List Obj) :
    (l.map (renameObj a b)).any (hasName a) = false := by
  induction l with
  | nil => rfl
  | cons o r ih =>
    simp only [List.map_cons, List.any_cons, ih, Bool.or_false]
    by_cases h : hasName a o = true
    · unfold renameObj
      rw [if_pos h]
      simp only [hasName, beq_eq_false_iff_ne, ne_eq]
      exact fun e => hab e.symm
    · simp only [Bool.not_eq_true] at h
      simp [renameObj, h]

theorem find_setObj (n : Name) (o' : Obj) (hn : hasName n o' = true) : ∀ (l : List Obj) (o : Obj),
    l.find? (hasName n) = some o → (l.map (setObj n o')).find? (hasName n) = some o' := by
  intro l
  induction l with
  | nil => intro o h; simp at h
  | cons x r ih =>
    intro o h
    by_cases hx : hasName n x = true
    · simp [List.find?, setObj, hx, hn]
    · simp only [Bool.not_eq_true] at hx
      have hs : setObj n o' x = x := by simp [setObj, hx]
      rw [List.find?_cons, hx] at h
      rw [List.map_cons, List.find?_cons, hs, hx]
      exact ih o h

theorem map_setObj_idem (n : Name) (o' : Obj) (l : List Obj) :
    (l.map (setObj n o')).map (setObj n o') = l.map (setObj n o') := by
  simp only [List.map_map]
  apply List.map_congr_left
  intro x _
  simp only [Function.comp, setObj]
  by_cases hx : hasName n x = true
  · simp [hx]
  · simp only [Bool.not_eq_true] at hx
    simp [hx]

theorem find_name (n : Name) : ∀ (l : List Obj) (o : Obj), l.find? (hasName n) = some o → hasName n o = true := by
  intro l o h
  exact by simpa using List.find?_some h

/-! ### `rerunnableB ⇒ Rerunnable` -/

theorem rerunnable_of_criterion (s : Stmt) (h : s.rerunnableB = true) : Rerunnable s := by
  intro c c' he
  cases s with
  | createDatabase g =>
    simp only [Stmt.rerunnableB] at h; subst h
    by_cases hdb : c.db = true
    · simp only [exec, hdb, if_true, Except.ok.injEq] at he; subst he; simp [exec, hdb]
    · simp only [exec, hdb, Bool.false_eq_true, if_false, Except.ok.injEq] at he; subst he; simp [exec]
  | create k n g cols body needs =>
    simp only [Stmt.rerunnableB] at h; subst h
    by_cases hdb : c.db = true
    · by_cases hh : c.has n = true
      · simp only [exec, hdb, hh, Bool.not_true, Bool.false_eq_true, if_false, if_true, Except.ok.injEq] at he
        subst he; simp [exec, hdb, hh]
      · simp only [exec, hdb, hh, Bool.not_true, Bool.false_eq_true, if_false] at he
        split at he
        · simp at he
        · simp only [Except.ok.injEq] at he; subst he
          simp [exec, hdb, Cat.has, hasName]
    · simp [exec, hdb] at he
  | drop n g =>
    simp only [Stmt.rerunnableB] at h; subst h
    by_cases hdb : c.db = true
    · by_cases hh : c.has n = true
      · simp only [exec, hdb, hh, Bool.not_true, Bool.false_eq_true, if_false, if_true, Except.ok.injEq] at he
        subst he
        simp [exec, hdb, Cat.has, any_false_of_filter]
      · simp only [exec, hdb, hh, Bool.not_true, Bool.false_eq_true, if_false, if_true, Except.ok.injEq] at he
        subst he; simp [exec, hdb, hh]
    · simp [exec, hdb] at he
  | rename a b g =>
    simp only [Stmt.rerunnableB, Bool.and_eq_true, bne_iff_ne, ne_eq] at h
    obtain ⟨hg, hab⟩ := h; subst hg
    by_cases hdb : c.db = true
    · by_cases ha : c.has a = true
      · by_cases hb : c.has b = true
        · simp [exec, hdb, ha, hb] at he
        · simp only [exec, hdb, ha, hb, Bool.not_true, Bool.false_eq_true, if_false, Except.ok.injEq] at he
          subst he
          simp [exec, hdb, Cat.has, any_rename_src a b hab]
      · simp only [exec, hdb, ha, Bool.not_true, Bool.false_eq_true, if_false, Bool.not_false, if_true,
          Except.ok.injEq] at he
        subst he; simp [exec, hdb, ha]
    · simp [exec, hdb] at he
  | alter n ops =>
    simp only [Stmt.rerunnableB] at h
    by_cases hdb : c.db = true
    · simp only [exec, hdb, Bool.not_true, Bool.false_eq_true, if_false] at he
      cases hf : c.find n with
      | none => simp [hf] at he
      | some o =>
        simp only [hf] at he
        by_cases hk : (o.kind != Kind.table) = true
        · simp [hk] at he
        · simp only [hk, Bool.false_eq_true, if_false] at he
          cases ha : applyOps n (o.cols, o.order) ops with
          | error e => simp [ha] at he
          | ok st =>
            simp only [ha, Except.ok.injEq] at he
            subst he
            have hn : hasName n o = true := find_name n _ _ hf
            have hn' : hasName n { o with cols := st.1, order := st.2 } = true := by simpa [hasName] using hn
            have hf' := find_setObj n { o with cols := st.1, order := st.2 } hn' c.objs o hf
            have hid := applyOps_idem n ops _ _ h ha
            simp only [exec, hdb, Bool.not_true, Bool.false_eq_true, if_false, Cat.find, hf']
            simp only [hk, Bool.false_eq_true, if_false, hid, map_setObj_idem]
    · simp [exec, hdb] at he
  | insert n =>
    by_cases hdb : c.db = true
    · by_cases hh : c.has n = true
      · simp only [exec, hdb, hh, Bool.not_true, Bool.false_eq_true, if_false, if_true, Except.ok.injEq] at he
        subst he; simp [exec, hdb, hh]
      · simp [exec, hdb, hh] at he
    · simp [exec, hdb] at he

/-! ### `preservesB ⇒ Preserves` -/

theorem exec_keeps_db (s : Stmt) (c c' : Cat) (h : exec c s = .ok c') (hdb : c.db = true) : c'.db = true := by
  cases s with
  | createDatabase g =>
    simp only [exec, hdb, if_true] at h
    cases g <;> simp at h; subst h; first | exact hdb | rfl
  | create k n g cols body needs =>
    simp only [exec, hdb, Bool.not_true, Bool.false_eq_true, if_false] at h
    split at h
    · cases g <;> simp at h; subst h; first | exact hdb | rfl
    · split at h
      · simp at h
      · simp only [Except.ok.injEq] at h; subst h; first | exact hdb | rfl
  | drop n g =>
    simp only [exec, hdb, Bool.not_true, Bool.false_eq_true, if_false] at h
    split at h
    · simp only [Except.ok.injEq] at h; subst h; first | exact hdb | rfl
    · cases g <;> simp at h; subst h; first | exact hdb | rfl
  | rename a b g =>
    simp only [exec, hdb, Bool.not_true, Bool.false_eq_true, if_false] at h
    split at h
    · cases g <;> simp at h; subst h; first | exact hdb | rfl
    · split at h
      · simp at h
      · simp only [Except.ok.injEq] at h; subst h; first | exact hdb | rfl
  | alter n ops =>
    simp only [exec, hdb, Bool.not_true, Bool.false_eq_true, if_false] at h
    split at h
    · simp at h
    · split at h
      · simp at h
      · split at h
        · simp at h
        · simp only [Except.ok.injEq] at h; subst h; first | exact hdb | rfl
  | insert n =>
    simp only [exec, hdb, Bool.not_true, Bool.false_eq_true, if_false] at h
    split at h
    · simp only [Except.ok.injEq] at h; subst h; first | exact hdb | rfl
    · simp at h

theorem any_setObj (n m : Name) (o' : Obj) (hn : hasName n o' = true) (l : List Obj) :
    (l.map (setObj n o')).any (hasName m) = l.any (hasName m) := by
  induction l with
  | nil => rfl
  | cons x r ih =>
    simp only [List.map_cons, List.any_cons, ih]
    congr 1
    by_cases hx : hasName n x = true
    · simp only [setObj, hx, if_true]
      simp only [hasName, beq_iff_eq] at hx hn ⊢
      rw [hn, hx]
    · simp only [Bool.not_eq_true] at hx
      simp [setObj, hx]

/-- a statement that does not remove `m` keeps it in the catalogue -/
theorem exec_keeps_name (s : Stmt) (m : Name) (hr : s.removes.contains m = false) (c c' : Cat)
    (h : exec c s = .ok c') (hm : c.has m = true) : c'.has m = true := by
  cases s with
  | createDatabase g =>
    simp only [exec] at h
    split at h
    · cases g <;> simp at h; subst h; exact hm
    · simp only [Except.ok.injEq] at h; subst h; exact hm
  | create k n g cols body needs =>
    simp only [exec] at h
    split at h
    · simp at h
    · split at h
      · cases g <;> simp at h; subst h; exact hm
      · split at h
        · simp at h
        · simp only [Except.ok.injEq] at h; subst h
          simp only [Cat.has, List.any_append, Bool.or_eq_true]
          exact Or.inl hm
  | drop n g =>
    simp only [exec] at h
    have hne : m ≠ n := by simpa [Stmt.removes] using hr
    split at h
    · simp at h
    · split at h
      · simp only [Except.ok.injEq] at h; subst h
        simp only [Cat.has, List.any_filter] at hm ⊢
        rw [List.any_eq_true] at hm ⊢
        obtain ⟨o, ho, hom⟩ := hm
        refine ⟨o, ho, ?_⟩
        simp only [hasName, beq_iff_eq] at hom
        simp [hasName, hom, hne]
      · cases g <;> simp at h; subst h; exact hm
  | rename a b g =>
    simp only [exec] at h
    have hne : m ≠ a := by simpa [Stmt.removes] using hr
    split at h
    · simp at h
    · split at h
      · cases g <;> simp at h; subst h; exact hm
      · split at h
        · simp at h
        · simp only [Except.ok.injEq] at h; subst h
          simp only [Cat.has, List.any_map] at hm ⊢
          rw [List.any_eq_true] at hm ⊢
          obtain ⟨o, ho, hom⟩ := hm
          refine ⟨o, ho, ?_⟩
          simp only [hasName, beq_iff_eq] at hom
          simp [Function.comp, renameObj, hasName, hom, hne]
  | alter n ops =>
    simp only [exec] at h
    split at h
    · simp at h
    · split at h
      · simp at h
      · rename_i o hf
        split at h
        · simp at h
        · split at h
          · simp at h
          · rename_i st _
            simp only [Except.ok.injEq] at h; subst h
            have hn : hasName n o = true := find_name n _ _ hf
            have hn' : hasName n { o with cols := st.1, order := st.2 } = true := by simpa [hasName] using hn
            simp only [Cat.has]
            rw [any_setObj n m _ hn']
            exact hm
  | insert n =>
    simp only [exec] at h
    split at h
    · simp at h
    · split at h
      · simp only [Except.ok.injEq] at h; subst h; exact hm
      · simp at h

theorem append_ne_self {α : Type} (l : List α) (x : α) : l ++ [x] ≠ l := by
  intro h
  have := congrArg List.length h
  simp at this

theorem preserves_of_criterion (s b : Stmt) (h : preservesB s b = true) : Preserves s b := by
  intro c c' hb hs
  cases b with
  | createDatabase g =>
    cases g with
    | false => simp [preservesB, Stmt.bootTarget] at h
    | true =>
      have hdb : c.db = true := by
        by_cases hdb : c.db = true
        · exact hdb
        · simp only [exec, hdb, Bool.false_eq_true, if_false, Except.ok.injEq] at hb
          have := congrArg Cat.db hb
          simp at this; simp [this] at hdb
      have := exec_keeps_db s c c' hs hdb
      simp [exec, this]
  | create k n g cols body needs =>
    cases g with
    | false => simp [preservesB, Stmt.bootTarget] at h
    | true =>
      simp only [preservesB, Stmt.bootTarget, Bool.not_eq_true'] at h
      have hdb : c.db = true := by
        by_cases hdb : c.db = true
        · exact hdb
        · simp [exec, hdb] at hb
      have hh : c.has n = true := by
        by_cases hh : c.has n = true
        · exact hh
        · simp only [exec, hdb, hh, Bool.not_true, Bool.false_eq_true, if_false] at hb
          split at hb
          · simp at hb
          · simp only [Except.ok.injEq] at hb
            have := congrArg Cat.objs hb
            exact absurd this (append_ne_self _ _)
      have h1 := exec_keeps_db s c c' hs hdb
      have h2 := exec_keeps_name s n h c c' hs hh
      simp [exec, h1, h2]
  | drop n g => simp [preservesB, Stmt.bootTarget] at h
  | rename a b g => simp [preservesB, Stmt.bootTarget] at h
  | alter n ops => simp [preservesB, Stmt.bootTarget] at h
  | insert n => simp [preservesB, Stmt.bootTarget] at h

end Qryn.Ctrl.Migrate
