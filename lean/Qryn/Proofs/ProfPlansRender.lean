import Qryn.Proofs.ProfPlansClosed
/-! C10, the tie between the segment view of the Pyroscope statements (`Prof/PlannersSegs.lean`) and the `Sel` models of
    `Prof/Planners.lean` (C13): `renderSegs (…B …).segs = renderSel (Prof.… …)` when the byte strings the model routes through
    `utf8` (the rendered `arrayExists` closure, the quoted type id, the rendered `x.1 IN (…)` list) survive it (`Utf8OK`)
    and the operator / field texts of the conditions are ASCII (`PCond.okU`; `Prom.ascii` and `Sql.b` agree on them). -/
namespace Qryn.Prof
open Qryn Qryn.Sql Qryn.Lex Qryn.Prom

/-- the byte string is the UTF-8 text of a `String` (the model keeps closure texts as `String`s) -/
def Utf8OK (x : Bytes) : Prop := b (utf8 x) = x

/-- operator and field texts are ASCII; the text of an `arrayExists` closure survives `utf8` -/
def PCond.okU : PCond → Prop
  | .cmp fn field _ => ascii fn = b fn ∧ ascii field = b field
  | .cmpMatch fn field _ => ascii fn = b fn ∧ ascii field = b field
  | .arrayExists c => Utf8OK c.render
  | .and2 x y => x.okU ∧ y.okU

/-! ### lists -/
theorem renderExprs_eq_map : ∀ es : List Expr, renderExprs es = es.map renderExpr
  | [] => by simp [renderExprs]
  | e :: es => by simp [renderExprs, renderExprs_eq_map es]
theorem renderParens_eq_map : ∀ es : List Expr, renderParens es = es.map (fun e => b "(" ++ renderExpr e ++ b ")")
  | [] => by simp [renderParens]
  | e :: es => by simp [renderParens, renderParens_eq_map es]
theorem renderWiths_eq_map : ∀ ws : List (Alias × Sel),
    renderWiths ws = ws.map (fun w => b w.1.text ++ b " as (" ++ renderSelBody w.2 ++ b ")")
  | [] => by simp [renderWiths]
  | (a, s) :: ws => by simp [renderWiths, renderWiths_eq_map ws]

/-- segment lists that render to the texts of the expressions, position by position -/
def R (xs : List (List Seg)) (es : List Expr) : Prop := xs.map renderSegs = es.map renderExpr

theorem R_nil : R [] [] := rfl
theorem R_cons {x : List Seg} {e : Expr} {xs : List (List Seg)} {es : List Expr} (h : renderSegs x = renderExpr e) (hs : R xs es) :
    R (x :: xs) (e :: es) := by
  simp only [R, List.map_cons, h]
  exact congrArg _ hs
theorem R_append {xs ys : List (List Seg)} {es fs : List Expr} (h1 : R xs es) (h2 : R ys fs) : R (xs ++ ys) (es ++ fs) := by
  simp only [R, List.map_append]
  rw [h1, h2]
theorem R_exprs (es : List Expr) : R (es.map segsExpr) es := by
  simp only [R, List.map_map]
  exact List.map_congr_left (fun e _ => render_segsExpr e)
theorem R_ite {p : Prop} [Decidable p] {xs ys : List (List Seg)} {es fs : List Expr} (h1 : R xs es) (h2 : R ys fs) :
    R (if p then xs else ys) (if p then es else fs) := by
  split
  · exact h1
  · exact h2

theorem render_logicalB (fn : String) {xs : List (List Seg)} {es : List Expr} (h : R xs es) :
    renderSegs (logicalB fn xs) = renderExpr (.logical fn es) := by
  have hp : (xs.map parB).map renderSegs = (xs.map renderSegs).map (fun r => b "(" ++ r ++ b ")") := by
    simp only [List.map_map]
    exact List.map_congr_left (fun x _ => by simp [parB])
  simp only [logicalB, renderSegs_joinS, renderExpr, renderParens_eq_map, hp]
  rw [h, List.map_map]
  rfl

theorem render_shiftB : ∀ (i : Nat) (xs : List (List Seg)) (es : List Expr), R xs es → (shiftB i xs).map renderSegs = renderShift i es
  | _, [], [], _ => by simp [shiftB, renderShift]
  | _, [], _ :: _, h => by simp [R] at h
  | _, _ :: _, [], h => by simp [R] at h
  | i, x :: xs, e :: es, h => by
    simp only [R, List.map_cons, List.cons.injEq] at h
    simp [shiftB, renderShift, h.1, render_shiftB (i + 1) xs es h.2]

theorem render_bitSetAndB {xs : List (List Seg)} {es : List Expr} (h : R xs es) :
    renderSegs (bitSetAndB xs) = renderExpr (.bitSetAnd es) := by
  simp [bitSetAndB, renderSegs_joinS, renderExpr, render_shiftB 0 xs es h]

/-! ### conditions -/
theorem ascii_append (s t : String) : ascii (s ++ t) = ascii s ++ ascii t := by simp [ascii, String.toList_append]

theorem b_sp : ascii " " = b " " := by decide +kernel
theorem b_lp : b "(" = [40] := by decide +kernel
theorem b_rp : b ")" = [41] := by decide +kernel

/-- `logical` of the selector models = `Expr.logical` for an ASCII operator -/
theorem logical_eq (fn : String) (hfn : ascii fn = b fn) (es : List Expr) :
    logical fn (es.map renderExpr) = renderExpr (.logical fn es) := by
  simp only [logical, renderExpr, renderParens_eq_map, joinWith_eq_joinB, ascii_append, hfn, b_sp, List.map_map]
  congr 1
  apply List.map_congr_left
  intro e _
  simp [paren, b_lp, b_rp]

theorem fnEq_ascii : ascii (fnOf "Eq") = b (fnOf "Eq") := by decide +kernel
theorem and_ascii : ascii "and" = b "and" := by decide +kernel

theorem condExpr_render : ∀ c : PCond, c.okU → c.render = renderExpr (condExpr c)
  | .cmp fn field s, h => by
    have := logical_eq fn h.1 [.raw field, .str s]
    simpa [PCond.render, condExpr, renderExpr, h.2] using this
  | .cmpMatch fn field pat, h => by
    have := logical_eq fn h.1 [.call "match" [.raw field, .str pat], .raw "1"]
    have h1 : ascii "match(" = b "match" ++ b "(" := by decide +kernel
    have h2 : ascii ", " = b ", " := by decide +kernel
    have h3 : ascii ")" = b ")" := by decide +kernel
    have h4 : ascii "1" = b "1" := by decide +kernel
    simpa [PCond.render, condExpr, renderExpr, renderExprs, joinB, h.2, h1, h2, h3, h4, List.append_assoc] using this
  | .arrayExists c, h => by
    have := logical_eq (fnOf "Eq") fnEq_ascii
      [.call "arrayExists" [.raw ("x -> " ++ utf8 c.render), .raw "sample_types_units"], .int 1]
    have h1 : ascii "arrayExists(x -> " = b "arrayExists" ++ b "(" ++ b "x -> " := by decide +kernel
    have h2 : ascii ", sample_types_units)" = b ", " ++ b "sample_types_units" ++ b ")" := by decide +kernel
    have h4 : ascii "1" = intText 1 := by decide +kernel
    have hu : b (utf8 c.render) = c.render := h
    simpa [PCond.render, condExpr, renderExpr, renderExprs, joinB, b_append, hu, h1, h2, h4, List.append_assoc] using this
  | .and2 x y, h => by
    have := logical_eq "and" and_ascii [condExpr x, condExpr y]
    simpa [PCond.render, condExpr, condExpr_render x h.1, condExpr_render y h.2] using this

theorem R_conds (gs : List PCond) (h : ∀ g ∈ gs, g.okU) : R (condsB gs) (gs.map condExpr) := by
  simp only [R, condsB, List.map_map]
  apply List.map_congr_left
  intro g hg
  simp only [Function.comp]
  rw [PCond.render_segs, condExpr_render g (h g hg)]

/-! ### select bodies -/
theorem renderSelBody_setWiths (s : Sel) (ws : List (Alias × Sel)) : renderSelBody (s.setWiths ws) = renderSelBody s := by
  cases s
  simp only [Sel.setWiths]
  unfold renderSelBody
  rfl
theorem renderSelBody_with (s : Sel) (ws : List (Alias × Sel)) : renderSelBody (s.with_ ws) = renderSelBody s :=
  renderSelBody_setWiths _ _

theorem renderSel_eq (m : Sel) :
    renderSel m = (if m.withs.isEmpty then [] else b "WITH " ++ joinB (b ",") (renderWiths m.withs)) ++ renderSelBody m := by
  cases m; simp [renderSel, Sel.withs]

/-- `selBodyB` against the model's select: columns, FROM (with joins), WHERE, HAVING part by part; GROUP BY / ORDER BY / LIMIT
    are ordinary expressions -/
theorem render_selBodyB (ws : List (Alias × Sel)) (d : Bool) {cols : List (List Seg)} {cols' : List Expr} (hc : R cols cols')
    {fS : List Seg} {fe : Expr} {js : List (String × Alias × Expr)} (hf : renderSegs fS = renderExpr fe ++ renderJoins js)
    {wS : List Seg} {we : Expr} (hw : renderSegs wS = renderExpr we) (gb : List Expr)
    {hv : Option (List Seg)} {hv' : Option Expr} (hh : hv.map renderSegs = hv'.map renderExpr) (ob : List Expr) (lim : Option Expr) :
    renderSegs (selBodyB d cols (some fS) (some wS) (gb.map segsExpr) hv (ob.map segsExpr) (lim.map segsExpr)) =
      renderSelBody (.mk ws d cols' (some fe) js none (some we) gb hv' ob lim) := by
  have hcols : cols.map renderSegs = renderExprs cols' := by rw [renderExprs_eq_map]; exact hc
  have hgb : (gb.map segsExpr).map renderSegs = renderExprs gb := by rw [renderExprs_eq_map]; exact R_exprs gb
  have hob : (ob.map segsExpr).map renderSegs = renderExprs ob := by rw [renderExprs_eq_map]; exact R_exprs ob
  unfold selBodyB renderSelBody
  cases hv with
  | none =>
    cases hv' with
    | some _ => simp at hh
    | none =>
      cases lim <;> by_cases h1 : gb.isEmpty = true <;> by_cases h2 : ob.isEmpty = true <;>
        simp [renderSegs_joinS, hcols, hgb, hob, hf, hw, render_segsExpr, h1, h2]
  | some p =>
    cases hv' with
    | none => simp at hh
    | some p' =>
      have hp : renderSegs p = renderExpr p' := by simpa using hh
      cases lim <;> by_cases h1 : gb.isEmpty = true <;> by_cases h2 : ob.isEmpty = true <;>
        simp [renderSegs_joinS, hcols, hgb, hob, hf, hw, hp, render_segsExpr, h1, h2]

/-! ### statements -/
/-- the WITH entries and the body of a segment statement render to those of the model -/
def RSt (s : StB) (m : Sel) : Prop :=
  s.withs.map (fun w => b w.1 ++ b " as (" ++ renderSegs w.2 ++ b ")") =
      m.withs.map (fun w => b w.1.text ++ b " as (" ++ renderSelBody w.2 ++ b ")") ∧
    renderSegs s.body = renderSelBody m

theorem RSt.render {s : StB} {m : Sel} (h : RSt s m) : renderSegs s.segs = renderSel m := by
  have hw : (s.withs.map withB).map renderSegs = renderWiths m.withs := by
    rw [renderWiths_eq_map, ← h.1, List.map_map]
    exact List.map_congr_left (fun w _ => by simp [withB, List.append_assoc])
  have he : s.withs.isEmpty = m.withs.isEmpty := by
    have := congrArg List.length h.1
    simp only [List.length_map] at this
    cases hs : s.withs <;> cases hm : m.withs <;> simp_all
  rw [renderSel_eq, StB.segs, ← he]
  by_cases hemp : s.withs.isEmpty = true
  · simp [hemp, h.2]
  · simp [hemp, h.2, renderSegs_joinS, hw]

/-- a statement without WITH entries whose body is the segment view of the model's own select -/
theorem RSt_plain (m : Sel) (hm : m.withs = []) : RSt { body := segsSelBody m } m :=
  ⟨by simp [hm], render_segsSelBody m⟩

/-- `outer.With(alias, inner)` when no alias is dropped: the model's WITH list is the inner one and the new entry -/
theorem RSt_under {inner : StB} {mi mo : Sel} {alias : String} {body : List Seg} (hi : RSt inner mi)
    (hws : (mo.with_ [(.named alias, mi)]).withs = mi.withs ++ [(.named alias, mi)])
    (hb : renderSegs body = renderSelBody mo) : RSt (inner.under alias body) (mo.with_ [(.named alias, mi)]) := by
  refine ⟨?_, by rw [renderSelBody_with]; exact hb⟩
  rw [hws]
  simp only [StB.under, List.map_append, List.map_cons, List.map_nil, hi.1, hi.2, Alias.text]

theorem selectorSel_withs (c : PCtx) (q : PQuery) : (selectorSel c q).withs = [] := rfl

theorem limitObB_eq (c : PCtx) :
    limitObB c = (if c.limit != 0 then [Expr.orderBy (.raw "timestamp_ns") .desc] else []).map segsExpr := by
  unfold limitObB; split <;> rfl
theorem limitB_eq (c : PCtx) : limitB c = (if c.limit != 0 then some (Expr.int c.limit) else none).map segsExpr := by
  unfold limitB; split <;> rfl

theorem limited_mk (c : PCtx) (ws : List (Alias × Sel)) (d : Bool) (cols : List Expr) (f : Option Expr)
    (js : List (String × Alias × Expr)) (p w : Option Expr) (gb : List Expr) (h : Option Expr) :
    limited c (.mk ws d cols f js p w gb h [] none) =
      .mk ws d cols f js p w gb h (if c.limit != 0 then [Expr.orderBy (.raw "timestamp_ns") .desc] else [])
        (if c.limit != 0 then some (Expr.int c.limit) else none) := by
  unfold limited; split <;> simp_all [Sel.setOrderBy, Sel.setLimit]

/-- the request strings of a selector request survive `utf8` where the model needs it -/
def PQueryU (q : PQuery) : Prop := (∀ g ∈ q.globals, g.okU) ∧ (∀ g ∈ q.kvs, g.okU)

theorem render_selectorBody (c : PCtx) (q : PQuery) (hq : PQueryU q) :
    renderSegs (selectorBody c q) = renderSelBody (selectorSel c q) := by
  unfold selectorBody selectorSel
  refine render_selBodyB [] false (cols' := [.raw "fingerprint"]) (R_exprs [.raw "fingerprint"])
    (fe := .raw c.ginTable) (js := []) (by simp [render_segsExpr, renderJoins]) ?_ [.raw "fingerprint"] ?_ [] none
  · exact render_logicalB "and" (R_append (R_append (R_exprs _)
      (R_ite R_nil (R_cons (render_logicalB "and" (R_conds _ hq.1)) R_nil)))
      (R_ite R_nil (R_cons (render_logicalB "or" (R_conds _ hq.2)) R_nil)))
  · split
    · rfl
    · simp only [Option.map_some, Option.some.injEq]
      exact render_logicalB "and" (R_cons (render_logicalB "==" (R_cons (render_bitSetAndB (R_conds _ hq.2))
        (R_cons (render_segsExpr _) R_nil))) R_nil)

theorem selectorB_RSt (c : PCtx) (q : PQuery) (hq : PQueryU q) : RSt (selectorB c q) (selectorSel c q) :=
  ⟨by simp [selectorB, selectorSel_withs], render_selectorBody c q hq⟩

/-- **`selectorSel`** -/
theorem selectorSegs_render (c : PCtx) (q : PQuery) (hq : PQueryU q) :
    renderSegs (selectorSegs c q) = renderSel (selectorSel c q) := (selectorB_RSt c q hq).render

theorem with_fp_withs (mo : Sel) (c : PCtx) (q : PQuery) :
    (mo.with_ [(.named "fp", selectorSel c q)]).withs = (selectorSel c q).withs ++ [(.named "fp", selectorSel c q)] := by
  simp [Sel.with_, withs_setWiths, addWith1, hasAlias, selectorSel_withs]

/-- **`mergeProfiles`** -/
theorem mergeProfilesB_RSt (c : PCtx) (fp : PQuery) (globals : List PCond) (hq : PQueryU fp) (hg : ∀ g ∈ globals, g.okU) :
    RSt (mergeProfilesB c fp globals) (mergeProfiles c fp globals) := by
  unfold mergeProfilesB mergeProfiles
  rw [limited_mk]
  refine RSt_under (selectorB_RSt c fp hq) (with_fp_withs _ c fp) ?_
  rw [limitObB_eq, limitB_eq]
  refine render_selBodyB [] false (cols' := [.raw "payload"]) (R_exprs [.raw "payload"])
    (fe := .raw c.profilesDistTable) (js := []) (by simp [render_segsExpr, renderJoins]) ?_ [] (hv := none) (hv' := none) rfl _ _
  exact render_logicalB "and" (R_append (R_exprs _) (R_conds _ hg))

theorem mergeProfilesSegs_render (c : PCtx) (fp : PQuery) (globals : List PCond) (hq : PQueryU fp) (hg : ∀ g ∈ globals, g.okU) :
    renderSegs (mergeProfilesSegs c fp globals) = renderSel (mergeProfiles c fp globals) :=
  (mergeProfilesB_RSt c fp globals hq hg).render

/-- **`labelsNoSel` / `labelsSel` / `allTimeSeries`**: the model's own selects (their request strings are `.str` leaves) -/
theorem labelsNoSelSegs_render (c : PCtx) (col : String) (label : Option Bytes) :
    renderSegs (labelsNoSelSegs c col label) = renderSel (labelsNoSel c col label) := (RSt_plain _ rfl).render
theorem labelsSelSegs_render (c : PCtx) (col : String) (label : Option Bytes) (withFp : Bool) :
    renderSegs (labelsSelSegs c col label withFp) = renderSel (labelsSel c col label withFp) := (RSt_plain _ rfl).render
theorem allTimeSeriesSegs_render (c : PCtx) : renderSegs (allTimeSeriesSegs c) = renderSel (allTimeSeries c) :=
  (RSt_plain _ rfl).render

/-! ### the closure texts -/
theorem render_colB {x : List Seg} {e : Expr} (a : String) (ha : a.isEmpty = false) (h : renderSegs x = renderExpr e) :
    renderSegs (colB x a) = renderExpr (.col e a) := by
  simp [colB, renderExpr, ha, h]

/-- `arrayFilterIn`: the model keeps the rendered `x.1 IN (…)` as a `String` -/
theorem render_arrayFilterInB (names : List Bytes) (arr : String)
    (hu : Utf8OK (renderExpr (.isIn (.raw "x.1") (names.map .str)))) :
    renderSegs (arrayFilterInB names arr) = renderExpr (arrayFilterIn names arr) := by
  have hu' : b (utf8 (renderExpr (.isIn (.raw "x.1") (names.map .str)))) = renderExpr (.isIn (.raw "x.1") (names.map .str)) := hu
  simp only [arrayFilterInB, arrayFilterIn, renderSegs_append, renderSegs_cons_raw, renderSegs_nil, render_segsExpr,
    List.append_nil, List.append_assoc]
  rw [renderExpr]
  simp only [b_append, hu', List.append_assoc]

/-- the `tree` column of `mergeRaw`: the model keeps the quoted type id as a `String` -/
theorem render_rawTreeColB (typeUnit : Bytes) (hu : Utf8OK (quote typeUnit)) :
    renderSegs (rawTreeColB typeUnit) =
      renderExpr (.col (.raw ("arrayMap(x -> (x.1, x.2, x.3, (arrayFirst(y -> y.1 == " ++ utf8 (quote typeUnit) ++
        ", x.4) as af).2, af.3), tree)")) "tree") := by
  have hu' : b (utf8 (quote typeUnit)) = quote typeUnit := hu
  refine render_colB "tree" (by decide) ?_
  rw [renderExpr]
  simp [b_append, hu', List.append_assoc]

/-! ### further statements -/
/-- **`getLabels`** (`group_by` names: the rendered IN list survives `utf8`) -/
theorem getLabelsB_RSt (c : PCtx) (groupBy : List Bytes) (fp : PQuery) (globals : List PCond) (hq : PQueryU fp)
    (hg : ∀ g ∈ globals, g.okU) (hu : Utf8OK (renderExpr (.isIn (.raw "x.1") (groupBy.map .str)))) :
    RSt (getLabelsB c groupBy fp globals) (getLabels c groupBy fp globals) := by
  unfold getLabelsB getLabels
  refine RSt_under (selectorB_RSt c fp hq) (with_fp_withs _ c fp) ?_
  refine render_selBodyB [] true (R_cons (render_segsExpr _) (R_cons ?_ (R_cons ?_ R_nil)))
    (fe := .col (.raw c.seriesTable) "p") (js := []) (by simp [render_segsExpr, renderJoins]) ?_ [] (hv := none) (hv' := none) rfl
    [] none
  · split
    · exact render_segsExpr _
    · exact render_colB "tags" (by decide) (render_arrayFilterInB groupBy "p.tags" hu)
  · split <;> exact render_segsExpr _
  · exact render_logicalB "and" (R_append (R_append (R_exprs _) (R_exprs _)) (R_conds _ hg))

theorem getLabelsSegs_render (c : PCtx) (groupBy : List Bytes) (fp : PQuery) (globals : List PCond) (hq : PQueryU fp)
    (hg : ∀ g ∈ globals, g.okU) (hu : Utf8OK (renderExpr (.isIn (.raw "x.1") (groupBy.map .str)))) :
    renderSegs (getLabelsSegs c groupBy fp globals) = renderSel (getLabels c groupBy fp globals) :=
  (getLabelsB_RSt c groupBy fp globals hq hg hu).render

/-- **`mergeRaw`** (the quoted type id survives `utf8`) -/
theorem mergeRawB_RSt (c : PCtx) (typeUnit : Bytes) (fp : PQuery) (globals : List PCond) (hq : PQueryU fp)
    (hg : ∀ g ∈ globals, g.okU) (hu : Utf8OK (quote typeUnit)) :
    RSt (mergeRawB c typeUnit fp globals) (mergeRaw c typeUnit fp globals) := by
  unfold mergeRawB mergeRaw
  rw [limited_mk]
  refine RSt_under (selectorB_RSt c fp hq) (with_fp_withs _ c fp) ?_
  rw [limitObB_eq, limitB_eq]
  refine render_selBodyB [] false (R_cons (render_rawTreeColB typeUnit hu) (R_cons (render_segsExpr _) R_nil))
    (fe := .raw c.profilesDistTable) (js := []) (by simp [render_segsExpr, renderJoins]) ?_ [] (hv := none) (hv' := none) rfl _ _
  exact render_logicalB "and" (R_append (R_exprs _) (R_cons (render_logicalB "and" (R_conds _ hg)) R_nil))

theorem mergeRawSegs_render (c : PCtx) (typeUnit : Bytes) (fp : PQuery) (globals : List PCond) (hq : PQueryU fp)
    (hg : ∀ g ∈ globals, g.okU) (hu : Utf8OK (quote typeUnit)) :
    renderSegs (mergeRawSegs c typeUnit fp globals) = renderSel (mergeRaw c typeUnit fp globals) :=
  (mergeRawB_RSt c typeUnit fp globals hq hg hu).render

theorem render_timeSeriesBody (ws : List (Alias × Sel)) (c : PCtx) (globals : List PCond) (hg : ∀ g ∈ globals, g.okU) :
    renderSegs (timeSeriesBody c globals) = renderSelBody (Sel.mk ws true seriesCols (some (seriesFrom c)) [] none
      (some (and_ ([Expr.isIn (.raw "p.fingerprint") [.withRef (.named "fp")]] ++ dateConds c ++ globals.map condExpr)))
      [] none [] none) := by
  unfold timeSeriesBody
  refine render_selBodyB ws true (R_exprs seriesCols) (fe := seriesFrom c) (js := []) (by simp [render_segsExpr, renderJoins]) ?_ []
    (hv := none) (hv' := none) rfl [] none
  exact render_logicalB "and" (R_append (R_append (R_exprs _) (R_exprs _)) (R_conds _ hg))

/-- **`timeSeriesSelect`** -/
theorem timeSeriesSelectB_RSt (c : PCtx) (fp : PQuery) (globals : List PCond) (hq : PQueryU fp) (hg : ∀ g ∈ globals, g.okU) :
    RSt (timeSeriesSelectB c fp globals) (timeSeriesSelect c fp globals) :=
  RSt_under (selectorB_RSt c fp hq) (with_fp_withs _ c fp) (render_timeSeriesBody [] c globals hg)

theorem timeSeriesSelectSegs_render (c : PCtx) (fp : PQuery) (globals : List PCond) (hq : PQueryU fp) (hg : ∀ g ∈ globals, g.okU) :
    renderSegs (timeSeriesSelectSegs c fp globals) = renderSel (timeSeriesSelect c fp globals) :=
  (timeSeriesSelectB_RSt c fp globals hq hg).render

end Qryn.Prof
