import Qryn.Proofs.ProfC16
import Qryn.Prof.Wrap64
/-! `wrap : Int → BitVec 64` carries the `Int` model of the weight sums onto the `int64` computation. -/
namespace Qryn.Prof

theorem wrap_add (a b : Int) : wrap (a + b) = wrap a + wrap b := BitVec.ofInt_add a b

theorem wrap_zero : wrap 0 = 0 := rfl

theorem wrap_sum (l : List Int) : wrap l.sum = sum64 (l.map wrap) := by
  induction l with
  | nil => rfl
  | cons a l ih => simp only [List.sum_cons, wrap_add, ih, List.map_cons, sum64, List.foldr_cons]

/-- inside the `int64` range nothing wraps: the bit pattern reads back as the integer -/
theorem wrap_exact (x : Int) (h : -2 ^ 63 ≤ x) (h' : x < 2 ^ 63) : (wrap x).toInt = x :=
  BitVec.toInt_ofInt_eq_self (by decide) h h'

/-! ### a keyed upsert commutes with a map that respects keys and operations -/
section
variable {α β α' β' κ : Type} [DecidableEq κ]
variable {key : α → κ} {kb : β → κ} {mk : β → α} {comb : α → β → α}
variable {key' : α' → κ} {kb' : β' → κ} {mk' : β' → α'} {comb' : α' → β' → α'}
variable {φ : α → α'} {ψ : β → β'}

theorem upsertBy_map (hk : ∀ a, key' (φ a) = key a) (hkb : ∀ b, kb' (ψ b) = kb b)
    (hmk : ∀ b, φ (mk b) = mk' (ψ b)) (hcomb : ∀ a b, φ (comb a b) = comb' (φ a) (ψ b)) (m : List α) (b : β) :
    (upsertBy key kb mk comb m b).map φ = upsertBy key' kb' mk' comb' (m.map φ) (ψ b) := by
  unfold upsertBy
  have hany : (m.map φ).any (fun a => decide (key' a = kb' (ψ b))) = m.any (fun a => decide (key a = kb b)) := by
    rw [List.any_map]
    congr 1
    funext a
    simp [hk, hkb]
  rw [hany]
  split
  · rw [List.map_map, List.map_map]
    apply List.map_congr_left
    intro a _
    simp only [Function.comp, hk, hkb]
    split
    · exact hcomb a b
    · rfl
  · simp [hmk]

theorem foldUpsert_map (hk : ∀ a, key' (φ a) = key a) (hkb : ∀ b, kb' (ψ b) = kb b)
    (hmk : ∀ b, φ (mk b) = mk' (ψ b)) (hcomb : ∀ a b, φ (comb a b) = comb' (φ a) (ψ b)) (m : List α) (bs : List β) :
    (foldUpsert key kb mk comb m bs).map φ = foldUpsert key' kb' mk' comb' (m.map φ) (bs.map ψ) := by
  induction bs generalizing m with
  | nil => rfl
  | cons b bs ih =>
    simp only [foldUpsert, List.foldl_cons, List.map_cons] at ih ⊢
    rw [ih, upsertBy_map hk hkb hmk hcomb]
end

/-! ### the tree builder -/

theorem getD_map_wrap (vals : List Int) (j : Nat) : (vals.map wrap).getD j 0 = wrap (vals.getD j 0) := by
  simp only [List.getD_eq_getElem?_getD, List.getElem?_map]
  cases vals[j]? <;> rfl

theorem getD_map_wrap2 (vals : List (Int × Int)) (j : Nat) :
    (vals.map (fun st => (wrap st.1, wrap st.2))).getD j (0, 0) = (wrap (vals.getD j (0, 0)).1, wrap (vals.getD j (0, 0)).2) := by
  simp only [List.getD_eq_getElem?_getD, List.getElem?_map]
  cases vals[j]? <;> rfl

theorem addVisit_wrap (nt : Nat) (v : Visit) (vals : List (Int × Int)) :
    (addVisit nt v vals).map (fun st => (wrap st.1, wrap st.2))
      = addVisit64 nt v.wrap (vals.map (fun st => (wrap st.1, wrap st.2))) := by
  unfold addVisit addVisit64
  rw [List.map_map]
  apply List.map_congr_left
  intro j _
  simp only [Function.comp, Visit.wrap, getD_map_wrap, getD_map_wrap2, wrap_add]
  cases v.leaf <;> simp [wrap_zero]

theorem treeMap_wrap (nt : Nat) (V : List Visit) :
    (treeMap nt V).map Node.wrap = treeMap64 nt (V.map Visit.wrap) := by
  unfold treeMap treeMap64
  have := foldUpsert_map (φ := Node.wrap) (ψ := Visit.wrap)
    (key := fun n : Node => n.node) (kb := fun v : Visit => v.node) (mk := newNode nt) (comb := bumpNode nt)
    (key' := fun n : Node64 => n.node) (kb' := fun v : Visit64 => v.node) (mk' := newNode64 nt) (comb' := bumpNode64 nt)
    (fun _ => rfl) (fun _ => rfl)
    (fun v => by
      simp only [newNode, newNode64, Node.wrap]
      have := addVisit_wrap nt v []
      simp only [List.map_nil] at this
      rw [this]; rfl)
    (fun n v => by
      simp only [bumpNode, bumpNode64, Node.wrap]
      rw [addVisit_wrap])
    [] V
  simpa using this

theorem typeRow_wrap (j : Nat) (n : Node) : (typeRow j n).wrap = typeRow64 j n.wrap := by
  simp only [typeRow, typeRow64, Row.wrap, Node.wrap, getD_map_wrap2]

/-! ### the reader -/

theorem mergeTrie_wrap (T R : List Row) : (mergeTrie T R).map Row.wrap = mergeTrie64 (T.map Row.wrap) (R.map Row.wrap) := by
  unfold mergeTrie mergeTrie64
  exact foldUpsert_map (φ := Row.wrap) (ψ := Row.wrap)
    (key := fun a : Row => (a.parent, a.node)) (kb := fun r : Row => (r.parent, r.node)) (mk := id) (comb := addRow)
    (key' := fun a : Row64 => (a.parent, a.node)) (kb' := fun r : Row64 => (r.parent, r.node)) (mk' := id) (comb' := addRow64)
    (fun _ => rfl) (fun _ => rfl) (fun _ => rfl)
    (fun a b => by simp [addRow, addRow64, Row.wrap, wrap_add]) T R

theorem sqlGroup_wrap (R : List Row) : (sqlGroup R).map Row.wrap = sqlGroup64 (R.map Row.wrap) := by
  unfold sqlGroup sqlGroup64
  have := foldUpsert_map (φ := Row.wrap) (ψ := Row.wrap)
    (key := fun a : Row => (a.parent, a.fn, a.node)) (kb := fun r : Row => (r.parent, r.fn, r.node)) (mk := id) (comb := addRow)
    (key' := fun a : Row64 => (a.parent, a.fn, a.node)) (kb' := fun r : Row64 => (r.parent, r.fn, r.node)) (mk' := id) (comb' := addRow64)
    (fun _ => rfl) (fun _ => rfl) (fun _ => rfl)
    (fun a b => by simp [addRow, addRow64, Row.wrap, wrap_add]) [] R
  simpa using this

theorem children_wrap (T : List Row) (p : Nat) : (children T p).map Row.wrap = children64 (T.map Row.wrap) p := by
  unfold children children64
  rw [List.filter_map]
  rfl

theorem sumTotals_wrap (rs : List Row) : wrap (sumTotals rs) = sumTotals64 (rs.map Row.wrap) := by
  unfold sumTotals sumTotals64
  rw [wrap_sum, List.map_map, List.map_map]
  rfl

theorem rootTotal_wrap (T : List Row) : wrap (rootTotal T) = rootTotal64 (T.map Row.wrap) := by
  unfold rootTotal rootTotal64
  rw [sumTotals_wrap, children_wrap]

theorem valueSum_wrap (P : Profile) (j : Nat) :
    wrap (valueSum P j) = valueSum64 (P.samples.map (fun s => s.vals.map wrap)) j := by
  unfold valueSum valueSum64
  rw [wrap_sum, List.map_map, List.map_map]
  congr 1
  apply List.map_congr_left
  intro s _
  simp only [Function.comp, getD_map_wrap]

end Qryn.Prof
