import Qryn.ReadSide.Census
/-! The kernel evaluation of the census comparison (kept apart from `Props/C12.lean` so that a change of the regenerated
    census is reported under its own name even when another regenerated fact of C12 fails to generate). -/
namespace Qryn.ReadSide.Census
open Qryn.Gen

/-- the regenerated fault sites of the un-recovered goroutines are exactly the reviewed ones, and every cited guard is there -/
theorem census_checked : censusMatches unrecovered reviewed = true := by decide +kernel

/-- the library calls on un-recovered stacks are exactly the reviewed ones -/
theorem externs_checked : ReadGoroutines.externsUnion = reviewedExterns.map (·.1) := by decide +kernel

/-- no send of any goroutine under reader/ is an alternative of a `select` that also waits for a `Done` channel -/
theorem no_send_selects_done : ∀ g ∈ ReadGoroutines.goroutines, (sendProfile g).2.2 = 0 := by decide +kernel

end Qryn.ReadSide.Census
