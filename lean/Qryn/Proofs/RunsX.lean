import Qryn.Proofs.PlanRowsX
/-! Every run of stages after the join is one SELECT; its `Sql.SemX` value is the run applied to the entries. -/
namespace Qryn.LogQL
open Qryn Qryn.Sql

/-- a run of label-rewriting stages on one entry: the labels after the last stage, the fingerprint of that set -/
def runCh (o : Oracles) (cs : List Changer) (e : EntryX) : EntryX :=
  { e with labels := cs.foldl (applyChanger o e.line) e.labels,
           fp := o.cityHash (sortPairs (cs.foldl (applyChanger o e.line) e.labels)) }

def applyRun (o : Oracles) (r : Run) (es : List EntryX) : List EntryX :=
  match r with
  | .ch cs => es.map (runCh o cs)
  | .fl fs => es.filter (fun e => fs.all (stageHolds o e))

def applyRuns (o : Oracles) : List Run → List EntryX → List EntryX
  | [], es => es
  | r :: rs, es => applyRuns o rs (applyRun o r es)

@[simp] theorem applyRuns_nil (o : Oracles) (es : List EntryX) : applyRuns o [] es = es := rfl
@[simp] theorem applyRuns_cons (o : Oracles) (r : Run) (rs : List Run) (es : List EntryX) :
    applyRuns o (r :: rs) es = applyRuns o rs (applyRun o r es) := rfl
@[simp] theorem applyRun_ch (o : Oracles) (cs : List Changer) (es : List EntryX) :
    applyRun o (.ch cs) es = es.map (runCh o cs) := rfl
@[simp] theorem applyRun_fl (o : Oracles) (fs : List Stage) (es : List EntryX) :
    applyRun o (.fl fs) es = es.filter (fun e => fs.all (stageHolds o e)) := rfl

/-- output row of the SELECT on the join (`LabelsJoinPlanner` column order) and of a renewed SELECT (`MainRenewPlanner`) -/
def rowJ (e : EntryX) : Row :=
  [("fingerprint", .int e.fp), ("timestamp_ns", .int e.ts), ("labels", .map e.labels), ("string", .str e.line), ("value", .null)]
def rowR (e : EntryX) : Row :=
  [("timestamp_ns", .int e.ts), ("fingerprint", .int e.fp), ("labels", .map e.labels), ("string", .str e.line), ("value", .null)]
def rowS (j : Bool) (e : EntryX) : Row := if j then rowJ e else rowR e

/-! ### the labels expression -/
section
variable (o : Oracles) (env : Env) (ρ : Row) (line : Bytes)

theorem chExpr_map (hs : ρ.get "string" = .str line) : ∀ (cs : List Changer) (rid : Nat) (base : Expr) (L : Labels),
    evalE o env ρ base = .map L → evalE o env ρ (chExpr rid base cs).1 = .map (cs.foldl (applyChanger o line) L) := by
  intro cs
  induction cs with
  | nil => intro rid base L h; simpa [chExpr] using h
  | cons ch rest ih =>
    intro rid base L h
    cases ch with
    | json ps =>
      simp only [chExpr, List.foldl_cons]
      exact ih _ _ _ (by rw [evalE_mapUpdate_map o env ρ _ _ L _ h (evalE_jsonMap o env ρ ps line hs)]; rfl)
    | regexp names re =>
      simp only [chExpr, List.foldl_cons]
      exact ih _ _ _ (by rw [evalE_mapUpdate_map o env ρ _ _ L _ h (evalE_regexMap o env ρ names re rid line hs)]; rfl)
    | drop ps =>
      simp only [chExpr, List.foldl_cons]
      exact ih _ _ _ (by rw [evalE_mapDrop, h]; rfl)

/-- the labels column of a run: a Map value, or the default (empty map) of an unmatched join row -/
theorem chExpr_eval (hs : ρ.get "string" = .str line) (cs : List Changer) (hcs : cs ≠ []) (rid : Nat) (base : Expr) (L : Labels)
    (hb : evalE o env ρ base = .map L ∨ (evalE o env ρ base = .null ∧ L = [])) :
    evalE o env ρ (chExpr rid base cs).1 = .map (cs.foldl (applyChanger o line) L) := by
  rcases hb with h | ⟨h, rfl⟩
  · exact chExpr_map o env ρ line hs cs rid base L h
  · cases cs with
    | nil => exact absurd rfl hcs
    | cons ch rest =>
      cases ch with
      | json ps =>
        simp only [chExpr, List.foldl_cons]
        exact chExpr_map o env ρ line hs rest _ _ _ (by
          rw [evalE_mapUpdate_null o env ρ _ _ _ h (evalE_jsonMap o env ρ ps line hs)]; simp [applyChanger, mapUpdate])
      | regexp names re =>
        simp only [chExpr, List.foldl_cons]
        exact chExpr_map o env ρ line hs rest _ _ _ (by
          rw [evalE_mapUpdate_null o env ρ _ _ _ h (evalE_regexMap o env ρ names re rid line hs)]; simp [applyChanger, mapUpdate])
      | drop ps =>
        simp only [chExpr, List.foldl_cons]
        exact chExpr_map o env ρ line hs rest _ _ _ (by rw [evalE_mapDrop, h]; simp [applyChanger, asMap])
end

end Qryn.LogQL

namespace Qryn.LogQL
open Qryn Qryn.Sql

/-! ### column lists of `runSel` -/
def colsJ (lbl : Expr) : List Expr :=
  [.col .labelsFp "fingerprint", simpleCol "main.timestamp_ns" "timestamp_ns", .col lbl "labels",
   simpleCol "main.string" "string", simpleCol "main.value" "value"]
def colsRch (lbl : Expr) : List Expr :=
  [simpleCol "samples.timestamp_ns" "timestamp_ns", .col .labelsFp "fingerprint", .col lbl "labels",
   simpleCol "samples.string" "string", simpleCol "samples.value" "value"]
def colsRfl : List Expr :=
  [simpleCol "samples.timestamp_ns" "timestamp_ns", simpleCol "samples.fingerprint" "fingerprint",
   simpleCol "samples.labels" "labels", simpleCol "samples.string" "string", simpleCol "samples.value" "value"]

section
variable (o : Oracles) (env : Env)

/-- the SELECT on the join, one row: second-level evaluation sees the rewritten `labels` alias -/
theorem project_chJ (r : Row) (fp ts : Int) (line : Bytes) (L : Labels) (cs : List Changer) (hcs : cs ≠ []) (rid : Nat)
    (h1 : r.get "main.timestamp_ns" = .int ts) (h2 : r.get "main.string" = .str line) (h3 : r.get "string" = .str line)
    (h4 : r.get "main.value" = .null)
    (hb : r.get "_time_series.labels" = .map L ∨ (r.get "_time_series.labels" = .null ∧ L = [])) :
    project o env (colsJ (chExpr rid (.raw "_time_series.labels") cs).1)
        (aliasRow o env (colsJ (chExpr rid (.raw "_time_series.labels") cs).1) r) =
      rowJ (runCh o cs ⟨fp, ts, L, line⟩) := by
  have hl1 := chExpr_eval o env r line h3 cs hcs rid (.raw "_time_series.labels") L (by simpa using hb)
  have hP1 : project o env (colsJ (chExpr rid (.raw "_time_series.labels") cs).1) r =
      [("fingerprint", evalE o env r .labelsFp), ("timestamp_ns", .int ts),
       ("labels", .map (cs.foldl (applyChanger o line) L)), ("string", .str line), ("value", .null)] := by
    simp [project, colsJ, colName, simpleCol, hl1, h1, h2, h4]
  rw [aliasRow, hP1]
  generalize evalE o env r .labelsFp = x
  have g1 : Row.get ([("fingerprint", x), ("timestamp_ns", Val.int ts), ("labels", Val.map (cs.foldl (applyChanger o line) L)),
      ("string", Val.str line), ("value", Val.null)] ++ r) "string" = .str line := by simp [Row.get_cons]
  have g2 : Row.get ([("fingerprint", x), ("timestamp_ns", Val.int ts), ("labels", Val.map (cs.foldl (applyChanger o line) L)),
      ("string", Val.str line), ("value", Val.null)] ++ r) "labels" = .map (cs.foldl (applyChanger o line) L) := by simp [Row.get_cons]
  have g3 : ∀ n : String, n ≠ "fingerprint" → n ≠ "timestamp_ns" → n ≠ "labels" → n ≠ "string" → n ≠ "value" →
      Row.get ([("fingerprint", x), ("timestamp_ns", Val.int ts), ("labels", Val.map (cs.foldl (applyChanger o line) L)),
      ("string", Val.str line), ("value", Val.null)] ++ r) n = r.get n := by
    intro n a b c d e; simp [Row.get_cons, a, b, c, d, e]
  have hl2 := chExpr_eval o env _ line g1 cs hcs rid (.raw "_time_series.labels") L
    (by rw [evalE_raw, g3 _ (by decide) (by decide) (by decide) (by decide) (by decide)]; exact hb)
  simp only [project, colsJ, List.map_cons, List.map_nil, colName, simpleCol, evalE_col, evalE_raw, hl2,
    evalE_labelsFp o env _ _ g2, g3 "main.timestamp_ns" (by decide) (by decide) (by decide) (by decide) (by decide),
    g3 "main.string" (by decide) (by decide) (by decide) (by decide) (by decide),
    g3 "main.value" (by decide) (by decide) (by decide) (by decide) (by decide), h1, h2, h4, rowJ, runCh]

/-- what a renewed SELECT reads for an entry of the previous one -/
structure IsSrc (r : Row) (e : EntryX) : Prop where
  ts : r.get "samples.timestamp_ns" = .int e.ts
  fp : r.get "samples.fingerprint" = .int e.fp
  labels : r.get "samples.labels" = .map e.labels
  line : r.get "samples.string" = .str e.line
  value : r.get "samples.value" = .null
  line' : r.get "string" = .str e.line

theorem isSrc_qualify (j : Bool) (e : EntryX) : IsSrc (qualify "samples" (rowS j e)) e := by
  cases j <;> constructor <;> simp [rowS, rowJ, rowR, qualify, Row.get, List.lookup]

theorem project_chR (r : Row) (e : EntryX) (hr : IsSrc r e) (cs : List Changer) (hcs : cs ≠ []) (rid : Nat) :
    project o env (colsRch (chExpr rid (.raw "samples.labels") cs).1)
        (aliasRow o env (colsRch (chExpr rid (.raw "samples.labels") cs).1) r) = rowR (runCh o cs e) := by
  have hl1 := chExpr_eval o env r e.line hr.line' cs hcs rid (.raw "samples.labels") e.labels (Or.inl (by simp [hr.labels]))
  have hP1 : project o env (colsRch (chExpr rid (.raw "samples.labels") cs).1) r =
      [("timestamp_ns", .int e.ts), ("fingerprint", evalE o env r .labelsFp),
       ("labels", .map (cs.foldl (applyChanger o e.line) e.labels)), ("string", .str e.line), ("value", .null)] := by
    simp [project, colsRch, colName, simpleCol, hl1, hr.ts, hr.line, hr.value]
  rw [aliasRow, hP1]
  generalize evalE o env r .labelsFp = x
  have g1 : Row.get ([("timestamp_ns", Val.int e.ts), ("fingerprint", x), ("labels", Val.map (cs.foldl (applyChanger o e.line) e.labels)),
      ("string", Val.str e.line), ("value", Val.null)] ++ r) "string" = .str e.line := by simp [Row.get_cons]
  have g2 : Row.get ([("timestamp_ns", Val.int e.ts), ("fingerprint", x), ("labels", Val.map (cs.foldl (applyChanger o e.line) e.labels)),
      ("string", Val.str e.line), ("value", Val.null)] ++ r) "labels" = .map (cs.foldl (applyChanger o e.line) e.labels) := by
    simp [Row.get_cons]
  have g3 : ∀ n : String, n ≠ "fingerprint" → n ≠ "timestamp_ns" → n ≠ "labels" → n ≠ "string" → n ≠ "value" →
      Row.get ([("timestamp_ns", Val.int e.ts), ("fingerprint", x), ("labels", Val.map (cs.foldl (applyChanger o e.line) e.labels)),
      ("string", Val.str e.line), ("value", Val.null)] ++ r) n = r.get n := by
    intro n a b c d e'; simp [Row.get_cons, a, b, c, d, e']
  have hl2 := chExpr_eval o env _ e.line g1 cs hcs rid (.raw "samples.labels") e.labels
    (Or.inl (by rw [evalE_raw, g3 _ (by decide) (by decide) (by decide) (by decide) (by decide)]; exact hr.labels))
  simp only [project, colsRch, List.map_cons, List.map_nil, colName, simpleCol, evalE_col, evalE_raw, hl2,
    evalE_labelsFp o env _ _ g2, g3 "samples.timestamp_ns" (by decide) (by decide) (by decide) (by decide) (by decide),
    g3 "samples.string" (by decide) (by decide) (by decide) (by decide) (by decide),
    g3 "samples.value" (by decide) (by decide) (by decide) (by decide) (by decide), hr.ts, hr.line, hr.value, rowR, runCh]

theorem stageClause_row (ρ : Row) (e : EntryX) (h1 : ρ.get "samples.string" = .str e.line) (h2 : ρ.get "string" = .str e.line)
    (h3 : ρ.get "labels" = .map e.labels) (s : Stage) : evalB o env ρ (stageClause s) = stageHolds o e s := by
  cases s with
  | line f => exact lineClause_row o env ρ f e.line h1 h2
  | label lc => exact labelCondMap_row o env ρ e.labels h3 lc

theorem aliasRow_flR (r : Row) (e : EntryX) (hr : IsSrc r e) : aliasRow o env colsRfl r = rowR e ++ r := by
  simp [aliasRow, project, colsRfl, colName, simpleCol, rowR, hr.ts, hr.fp, hr.labels, hr.line, hr.value]

theorem where_flR (r : Row) (e : EntryX) (hr : IsSrc r e) (fs : List Stage) :
    optB o env (rowR e ++ r) (some (and_ (fs.map stageClause))) = fs.all (stageHolds o e) := by
  have h1 : Row.get (rowR e ++ r) "samples.string" = .str e.line := by simp [rowR, Row.get_cons, hr.line]
  have h2 : Row.get (rowR e ++ r) "string" = .str e.line := by simp [rowR, Row.get_cons]
  have h3 : Row.get (rowR e ++ r) "labels" = .map e.labels := by simp [rowR, Row.get_cons]
  simp only [optB, evalB_and, evalAll_map, stageClause_row o env _ e h1 h2 h3]

theorem project_flR (r : Row) (e : EntryX) (hr : IsSrc r e) : project o env colsRfl (rowR e ++ r) = rowR e := by
  simp [project, colsRfl, colName, simpleCol, rowR, Row.get_cons, hr.ts, hr.fp, hr.labels, hr.line, hr.value]
end

end Qryn.LogQL

namespace Qryn.LogQL
open Qryn Qryn.Sql

/-- the entry a sample becomes at the join -/
def joinEntry (o : Oracles) (c : Ctx) (d : LokiDb) (q : LogQuery) (s : Sample) : EntryX :=
  ⟨s.fp, s.ts, asMap (labelsOf o c d q s.fp), s.str⟩

theorem runChJ_eval (o : Oracles) (c : Ctx) (d : LokiDb) (q : LogQuery) (env : Env) (L0 : List Sample)
    (cs : List Changer) (hcs : cs ≠ []) (rid : Nat) (ob : List Expr) (lim : Option Expr)
    (hM : env.lookup (.named "main") = some (L0.map mainRow))
    (hTS : env.lookup (.named "_time_series") = some ((d.ts.filter (tsOk o c d q)).map (tsOut o))) :
    evalBodyX o (d.toDb c) env (runSel c none rid (.ch cs) ob lim).1 =
      finish ob lim ((L0.map (fun s => runCh o cs (joinEntry o c d q s))).map rowJ) := by
  simp only [runSel]
  rw [evalBodyX_flat]
  congr 1
  simp only [List.foldl_cons, List.foldl_nil, joinSpec, optB, Bool.and_self, filter_true, anyLeftJoin_eq, sourceRowsX,
    sourceRows, hM, hTS, Option.getD_some, List.map_map]
  apply List.map_congr_left
  intro s _
  have hfind : List.find? (fun rr => evalB o env (qualify (Alias.named "main").text (mainRow s) ++ rr)
        (eq (.raw "main.fingerprint") (.raw "_time_series.fingerprint")))
      (List.map (prefixRow (Alias.named "_time_series").text ∘ tsOut o) (List.filter (tsOk o c d q) d.ts)) =
      (d.ts.find? (fun t => decide (fromDate c ≤ t.date) && typeOk c t.tp && fpSelected o c d q t.fp && t.fp == s.fp)).map (tsJoin o) := by
    simp only [Function.comp_def, prefix_tsOut, List.find?_map, List.find?_filter]
    refine congrArg (fun p => Option.map (tsJoin o) (List.find? p d.ts)) ?_
    funext t
    have := joinOn_eval o env s t
    simp only [Alias.text, this, tsOk]
    simp
    congr 1
  simp only [Function.comp_apply]
  rw [hfind]
  unfold joinEntry labelsOf
  cases hf : List.find? (fun t => decide (fromDate c ≤ t.date) && typeOk c t.tp && fpSelected o c d q t.fp && t.fp == s.fp) d.ts with
  | none =>
    exact project_chJ o env _ s.fp s.ts s.str [] cs hcs rid
      (by simp [qualify, mainRow, Row.get, List.lookup, Alias.text]) (by simp [qualify, mainRow, Row.get, List.lookup, Alias.text])
      (by simp [qualify, mainRow, Row.get, List.lookup, Alias.text]) (by simp [qualify, mainRow, Row.get, List.lookup, Alias.text])
      (Or.inr ⟨by simp [qualify, mainRow, Row.get, List.lookup, Alias.text], rfl⟩)
  | some t =>
    exact project_chJ o env _ s.fp s.ts s.str (o.jsonLabels t.labels) cs hcs rid
      (by simp [qualify, mainRow, tsJoin, Row.get, List.lookup, Alias.text])
      (by simp [qualify, mainRow, tsJoin, Row.get, List.lookup, Alias.text])
      (by simp [qualify, mainRow, tsJoin, Row.get, List.lookup, Alias.text])
      (by simp [qualify, mainRow, tsJoin, Row.get, List.lookup, Alias.text])
      (Or.inl (by simp [qualify, mainRow, tsJoin, Row.get, List.lookup, Alias.text]))

theorem runChR_eval (o : Oracles) (c : Ctx) (db : Db) (env : Env) (k : Nat) (j : Bool) (E : List EntryX)
    (cs : List Changer) (hcs : cs ≠ []) (rid : Nat) (ob : List Expr) (lim : Option Expr)
    (hE : env.lookup (.sub k) = some (E.map (rowS j))) :
    evalBodyX o db env (runSel c (some k) rid (.ch cs) ob lim).1 = finish ob lim ((E.map (runCh o cs)).map rowR) := by
  simp only [runSel]
  rw [evalBodyX_flat]
  congr 1
  simp only [List.foldl_nil, optB, Bool.and_self, filter_true, sourceRowsX, hE, Option.getD_some, List.map_map]
  apply List.map_congr_left
  intro e _
  exact project_chR o env _ e (isSrc_qualify j e) cs hcs rid

theorem runFlR_eval (o : Oracles) (c : Ctx) (db : Db) (env : Env) (k : Nat) (j : Bool) (E : List EntryX)
    (fs : List Stage) (rid : Nat) (ob : List Expr) (lim : Option Expr)
    (hE : env.lookup (.sub k) = some (E.map (rowS j))) :
    evalBodyX o db env (runSel c (some k) rid (.fl fs) ob lim).1 =
      finish ob lim ((E.filter (fun e => fs.all (stageHolds o e))).map rowR) := by
  simp only [runSel]
  rw [evalBodyX_flat]
  congr 1
  have hcols : [simpleCol "samples.timestamp_ns" "timestamp_ns", simpleCol "samples.fingerprint" "fingerprint",
       simpleCol "samples.labels" "labels", simpleCol "samples.string" "string", simpleCol "samples.value" "value"] = colsRfl := rfl
  simp only [List.foldl_nil, sourceRowsX, hE, Option.getD_some, hcols, List.filter_map, List.map_map, Function.comp_def,
    optB, Bool.true_and]
  have h1 : ∀ e : EntryX, aliasRow o env colsRfl (qualify "samples" (rowS j e)) = rowR e ++ qualify "samples" (rowS j e) :=
    fun e => aliasRow_flR o env _ e (isSrc_qualify j e)
  simp only [h1, project_flR o env _ _ (isSrc_qualify j _)]
  congr 1
  apply List.filter_congr
  intro e _
  have := where_flR o env _ e (isSrc_qualify j e) fs
  simpa [optB] using this

end Qryn.LogQL
