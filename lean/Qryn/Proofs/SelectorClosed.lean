import Qryn.Prom.SelectSegs
import Qryn.Proofs.RawAtoms
/-! C10 for the renderers that produce bytes directly: the Prometheus matcher selection (`FpQuery.render`,
    `renderScan`) and the Pyroscope label selector (`PQuery.render`). The text is a segment list
    (`render = renderSegs segs`), and the raw parts — operators and field expressions taken from the regenerated
    tables `Gen.PromSelect` / `Gen.ProfSelect`, the numbers, the keywords — are closed, so every label name, value
    and regular expression of the request sits in a string leaf. -/
namespace Qryn.Sql
open Qryn

/-! ### `ascii` (the byte view the selector models use) agrees with `b` on ASCII text -/
theorem b_asciiChars : ∀ cs : List Char, (∀ c ∈ cs, c.val ≤ 127) →
    cs.flatMap String.utf8EncodeChar = cs.map (fun c => UInt8.ofNat c.toNat)
  | [], _ => rfl
  | c :: cs, h => by
    have h1 : c.utf8Size = 1 := Char.utf8Size_eq_one_iff.mpr (h c (by simp))
    rw [List.flatMap_cons, String.utf8EncodeChar_eq_singleton h1, List.map_cons,
      b_asciiChars cs (fun x hx => h x (by simp [hx]))]
    rfl

theorem ascii_eq_b (s : String) (h : ∀ c ∈ s.toList, c.val ≤ 127) : Prom.ascii s = b s := by
  have : b s = b (String.ofList s.toList) := by rw [String.ofList_toList]
  rw [this, b_ofList, b_asciiChars _ h]
  rfl

theorem digit_le_127 (c : Char) (h : c.isDigit = true) : c.val ≤ 127 := by
  have hv : c.val ≥ 48 ∧ c.val ≤ 57 := by simpa [Char.isDigit] using h
  exact UInt32.le_iff_toNat_le.mpr (Nat.le_trans (UInt32.le_iff_toNat_le.mp hv.2) (by decide))

theorem natRepr_ascii (n : Nat) : ∀ c ∈ (Nat.repr n).toList, c.val ≤ 127 := by
  intro c hc
  simp only [Nat.repr, String.toList_ofList] at hc
  exact digit_le_127 c (Nat.isDigit_of_mem_toDigits (by decide) (by decide) hc)

theorem ascii_toStringNat (n : Nat) : Prom.ascii (toString n) = natDigits n :=
  ascii_eq_b _ (natRepr_ascii n)

theorem ascii_toStringInt (i : Int) : Prom.ascii (toString i) = intText i := by
  refine ascii_eq_b _ ?_
  show ∀ c ∈ (Int.repr i).toList, c.val ≤ 127
  cases i with
  | ofNat m => exact natRepr_ascii m
  | negSucc m =>
    intro c hc
    simp only [Int.repr, String.toList_append, List.mem_append] at hc
    rcases hc with hc | hc
    · have : "-".toList = ['-'] := by decide
      rw [this] at hc
      simp at hc; subst hc; decide
    · exact natRepr_ascii _ c hc

end Qryn.Sql

namespace Qryn.Prom
open Qryn Qryn.Sql Qryn.Lex

/-! ### rendering = segments -/
theorem joinWith_eq_joinB (sep : Bytes) : ∀ xs : List Bytes, joinWith sep xs = joinB sep xs
  | [] => rfl
  | [x] => rfl
  | x :: y :: xs => by simp [joinWith, joinB, joinWith_eq_joinB sep (y :: xs)]

theorem render_parenS (x : List Seg) : renderSegs (parenS x) = paren (renderSegs x) := by
  simp [parenS, paren]

theorem render_logicalS (fn : String) (parts : List (List Seg)) :
    renderSegs (logicalS fn parts) = logical fn (parts.map renderSegs) := by
  simp only [logicalS, logical, renderSegs_joinS, joinWith_eq_joinB, List.map_map]
  congr 1
  apply List.map_congr_left
  intro x _
  exact render_parenS x

theorem Cond.render_segs : ∀ c : Cond, renderSegs c.segs = c.render
  | .cmpStr fn col s => by simp [Cond.segs, Cond.render, render_logicalS]
  | .cmpMatch fn col pat k => by simp [Cond.segs, Cond.render, render_logicalS]
  | .and2 a b => by simp [Cond.segs, Cond.render, render_logicalS, Cond.render_segs a, Cond.render_segs b]

theorem indexed_map {α β} (f : α → β) (l : List α) : indexed (l.map f) = (indexed l).map (fun p => (p.1, f p.2)) := by
  simp only [indexed, List.length_map]
  rw [List.zip_map_right]
  rfl

/-- the bit set over any condition type with a segment view -/
theorem render_bitSetS {α} (segs : α → List Seg) (render : α → Bytes) (h : ∀ c, renderSegs (segs c) = render c) (cs : List α) :
    renderSegs (bitSetS (cs.map segs)) =
      ascii "groupBitOr(" ++ joinWith (ascii " + ") ((indexed cs).map (fun p =>
        ascii "bitShiftLeft(" ++ (if Gen.PromSelect.shiftCast = "" then render p.2
          else ascii (Gen.PromSelect.shiftCast ++ "(") ++ render p.2 ++ ascii ")")
        ++ ascii ", " ++ ascii (toString p.1) ++ ascii ")")) ++ ascii ")" := by
  simp only [bitSetS, renderSegs_append, renderSegs_cons_raw, renderSegs_nil, List.append_nil, renderSegs_joinS,
    joinWith_eq_joinB, indexed_map, List.map_map]
  congr 2
  congr 1
  apply List.map_congr_left
  intro p _
  by_cases hc : Gen.PromSelect.shiftCast = "" <;> simp [hc, h, List.append_assoc]

theorem FpQuery.render_segs (q : FpQuery) : renderSegs q.segs = q.render := by
  have hb := render_bitSetS Cond.segs Cond.render Cond.render_segs q.conds
  by_cases hu : q.useOr = true <;> by_cases he : q.conds.isEmpty = true <;>
    simp [FpQuery.segs, FpQuery.render, renderBitSet, render_logicalS, hb, Cond.render_segs, Function.comp_def,
      List.append_assoc, hu, he]

theorem render_scanSegs (f t : Int) : renderSegs (scanSegs f t) = renderScan f t := by
  simp [scanSegs, renderScan, render_logicalS]

/-! ### closedness -/
/-- a comparison / connective operator written between two parenthesised operands -/
def kwOK (fn : String) : Bool := rawC (ascii (" " ++ fn ++ " "))

theorem kw_lp : rawC [40] = true := by decide +kernel
theorem kw_rp : rawC [41] = true := by decide +kernel

theorem PC_parenS {x : List Seg} (h : PE x) : PC (parenS x) := PC.wrap (PC_raw kw_lp) h (PC_raw kw_rp)

theorem PE_logicalS {fn : String} (hf : kwOK fn = true) {parts : List (List Seg)} (h : ∀ x ∈ parts, PE x) :
    PE (logicalS fn parts) :=
  PE_joinS (PC_raw hf) _ (PE_of_mem_map (fun x hx => (PC_parenS (h x hx)).toPE))

theorem PE2 {P : List Seg → Prop} {x y : List Seg} (hx : P x) (hy : P y) : ∀ z ∈ [x, y], P z := by
  intro z hz
  simp at hz
  rcases hz with rfl | rfl <;> assumption

theorem kw_matchOpen : rawC (ascii "match(") = true := by decide +kernel
theorem kw_commaSpA : rawC (ascii ", ") = true := by decide +kernel
theorem kw_closeA : rawC (ascii ")") = true := by decide +kernel

/-- `match(<field>, '<pattern>')` -/
theorem PE_matchCall {field : String} (hfield : rawE (ascii field) = true) (pat : Bytes) :
    PE [.raw (ascii "match(" ++ ascii field ++ ascii ", "), .str pat, .raw (ascii ")")] := by
  have h1 : PC [Seg.raw (ascii "match(" ++ ascii field ++ ascii ", ")] := PC_raw (rawC_wrap kw_matchOpen hfield kw_commaSpA)
  exact (PC.wrap h1 (PE_str pat) (PC_raw kw_closeA)).toPE

def Cond.wf : Cond → Bool
  | .cmpStr fn col _ => kwOK fn && rawE (ascii col)
  | .cmpMatch fn col _ _ => kwOK fn && rawE (ascii col)
  | .and2 a b => a.wf && b.wf

theorem kwOK_and : kwOK "and" = true := by decide +kernel
theorem kwOK_or : kwOK "or" = true := by decide +kernel

theorem Cond.closed : ∀ c : Cond, c.wf = true → PE c.segs
  | .cmpStr fn col s, h => by
    simp only [Cond.wf, Bool.and_eq_true] at h
    exact PE_logicalS h.1 (PE2 (PE_raw h.2) (PE_str s))
  | .cmpMatch fn col pat k, h => by
    simp only [Cond.wf, Bool.and_eq_true] at h
    refine PE_logicalS h.1 (PE2 (PE_matchCall h.2 pat) (PE_raw ?_))
    rw [ascii_toStringInt]; exact rawE_intText k
  | .and2 a b, h => by
    simp only [Cond.wf, Bool.and_eq_true] at h
    exact PE_logicalS kwOK_and (PE2 (Cond.closed a h.1) (Cond.closed b h.2))

theorem kw_gboA : rawC (ascii "groupBitOr(") = true := by decide +kernel
theorem kw_plusA : rawC (ascii " + ") = true := by decide +kernel
theorem kw_shiftOpen : rawC (ascii "bitShiftLeft(" ++ (if Gen.PromSelect.shiftCast = "" then [] else ascii (Gen.PromSelect.shiftCast ++ "("))) = true := by
  decide +kernel
theorem kw_shiftMid : rawC ((if Gen.PromSelect.shiftCast = "" then [] else ascii ")") ++ ascii ", ") = true := by decide +kernel

theorem PE_bitSetS (cs : List (List Seg)) (h : ∀ x ∈ cs, PE x) : PE (bitSetS cs) := by
  unfold bitSetS
  simp only
  refine (PC.wrap (PC_raw kw_gboA) (PE_joinS (PC_raw kw_plusA) _ (PE_of_mem_map ?_)) (PC_raw kw_closeA)).toPE
  intro p hp
  have hx : PE p.2 := h _ (List.of_mem_zip hp).2
  have hclose : rawC ((if Gen.PromSelect.shiftCast = "" then [] else ascii ")") ++ ascii ", " ++ ascii (toString p.1) ++ ascii ")") = true := by
    rw [ascii_toStringNat]
    exact rawC_wrap kw_shiftMid (rawE_natDigits p.1) kw_closeA
  exact (PC.wrap (PC_raw kw_shiftOpen) hx (PC_raw hclose)).toPE

theorem kwOK_ge : kwOK (fnOf "Ge") = true := by decide +kernel
theorem kwOK_le : kwOK (fnOf "Le") = true := by decide +kernel
theorem kwOK_eq : kwOK (fnOf "Eq") = true := by decide +kernel
theorem kw_selectFp : rawC (ascii "SELECT fingerprint FROM ") = true := by decide +kernel
theorem kw_whereA : rawC (ascii " WHERE ") = true := by decide +kernel
theorem kw_typeIn : rawC (ascii "type IN (") = true := by decide +kernel
theorem kw_typeInEnd : rawC (ascii ",0)") = true := by decide +kernel
theorem kw_groupByFp : rawC (ascii " GROUP BY fingerprint") = true := by decide +kernel
theorem kw_havingFp : rawC (ascii " HAVING ") = true := by decide +kernel
theorem rawE_date : rawE (ascii "date") = true := by decide +kernel

theorem PE_of_mem_map' {α} {f : α → List Seg} {l : List α} (h : ∀ a ∈ l, PE (f a)) : ∀ x ∈ l.map f, PE x :=
  PE_of_mem_map h

/-- every `FpQuery` whose table name is closed text and whose conditions carry closed operators / columns -/
theorem FpQuery.closed (q : FpQuery) (ht : rawE (ascii q.table) = true) (hc : ∀ c ∈ q.conds, c.wf = true) :
    PX q.segs := by
  have hconds : ∀ x ∈ q.conds.map Cond.segs, PE x := PE_of_mem_map (fun c hcm => Cond.closed c (hc c hcm))
  have h1 : PC [Seg.raw (ascii "SELECT fingerprint FROM " ++ ascii q.table ++ ascii " WHERE ")] :=
    PC_raw (rawC_wrap kw_selectFp ht kw_whereA)
  have hdate : PE (logicalS (fnOf "Ge") [[Seg.raw (ascii "date")], [Seg.str q.fromDate]]) :=
    PE_logicalS kwOK_ge (PE2 (PE_raw rawE_date) (PE_str _))
  have htype : PE [Seg.raw (ascii "type IN (" ++ ascii (toString q.tp) ++ ascii ",0)")] := by
    rw [ascii_toStringInt]
    exact (PC_raw (rawC_wrap kw_typeIn (rawE_intText q.tp) kw_typeInEnd)).toPE
  have hor : PE (logicalS "or" (q.conds.map Cond.segs)) := PE_logicalS kwOK_or hconds
  have hwhere : PE (logicalS "and" ([logicalS (fnOf "Ge") [[Seg.raw (ascii "date")], [Seg.str q.fromDate]],
      [Seg.raw (ascii "type IN (" ++ ascii (toString q.tp) ++ ascii ",0)")]] ++
      (if q.useOr then [logicalS "or" (q.conds.map Cond.segs)] else []))) := by
    refine PE_logicalS kwOK_and ?_
    intro z hz
    simp only [List.mem_append, List.mem_cons, List.not_mem_nil, or_false] at hz
    rcases hz with (rfl | rfl) | hz
    · exact hdate
    · exact htype
    · split at hz
      · simp at hz; subst hz; exact hor
      · simp at hz
  have hconst : PE [Seg.raw (ascii (toString (Bits.requiredConst q.required)))] := by
    rw [ascii_toStringInt]; exact PE_raw (rawE_intText _)
  unfold FpQuery.segs
  by_cases hke : q.conds.isEmpty = true
  · simp only [hke, if_true, List.append_nil]
    have := PC.wrap h1 hwhere (PC_raw kw_groupByFp)
    simpa [List.append_assoc] using this.toPX
  · simp only [hke]
    have hhaving : PE (logicalS "and" [logicalS (fnOf "Eq") [bitSetS (q.conds.map Cond.segs),
        [Seg.raw (ascii (toString (Bits.requiredConst q.required)))]]]) := by
      refine PE_logicalS kwOK_and ?_
      intro z hz
      simp at hz
      subst hz
      exact PE_logicalS kwOK_eq (PE2 (PE_bitSetS _ hconds) hconst)
    have := PX.append (PC.wrap h1 hwhere (PC_raw kw_groupByFp)).toPX (PC.appendPE (PC_raw kw_havingFp) hhaving)
    simpa [List.append_assoc] using this

/-! the conditions `fingerprintsQuery` builds: operators from the regenerated tables -/
theorem lookup_mem {β} (k : String) : ∀ (l : List (String × β)) (v : β), l.lookup k = some v → (k, v) ∈ l
  | [], _, h => by simp [List.lookup] at h
  | (k', v') :: l, v, h => by
    simp only [List.lookup] at h
    by_cases hk : (k == k') = true
    · simp only [hk] at h
      have : k = k' := by simpa using hk
      simp at h; subst h; subst this; simp
    · have hk' : (k == k') = false := by simpa using hk
      simp only [hk'] at h
      exact List.mem_cons_of_mem _ (lookup_mem k l v h)

theorem opClauses_closed : Gen.PromSelect.opClauses.all (fun e => kwOK e.2.1) = true := by decide +kernel
theorem rawE_key : rawE (ascii "key") = true := by decide +kernel
theorem rawE_val : rawE (ascii "val") = true := by decide +kernel

theorem condOf_wf (m : Matcher) (c : Cond) (h : condOf m = some c) : c.wf = true := by
  unfold condOf at h
  cases hl : Gen.PromSelect.opClauses.lookup (getOp m.type) with
  | none => simp [hl] at h
  | some e =>
    obtain ⟨fn, isMatch, k⟩ := e
    simp only [hl, Option.some.injEq] at h
    have hmem : (getOp m.type, (fn, isMatch, k)) ∈ Gen.PromSelect.opClauses := lookup_mem _ _ _ hl
    have hall : ∀ e ∈ Gen.PromSelect.opClauses, kwOK e.2.1 = true := List.all_eq_true.mp opClauses_closed
    have hfn : kwOK fn = true := by
      have h3 := hall _ hmem
      simp only at h3
      exact h3
    subst h
    cases isMatch <;> simp [Cond.wf, kwOK_eq, hfn, rawE_key, rawE_val]

theorem condsOf_wf : ∀ (ms : List Matcher) (cs : List Cond), condsOf ms = some cs → ∀ c ∈ cs, c.wf = true
  | [], cs, h => by simp [condsOf] at h; subst h; simp
  | m :: ms, cs, h => by
    simp only [condsOf] at h
    cases h1 : condOf m with
    | none => simp [h1] at h
    | some c =>
      cases h2 : condsOf ms with
      | none => simp [h1, h2] at h
      | some cs' =>
        simp [h1, h2] at h
        subst h
        intro x hx
        simp at hx
        rcases hx with rfl | hx
        · exact condOf_wf m _ h1
        · exact condsOf_wf ms cs' h2 x hx

theorem scan_closed (f t : Int) : PE (scanSegs f t) := by
  have hl : kwOK Gen.PromSelect.scanLower = true := by decide +kernel
  have hu : kwOK Gen.PromSelect.scanUpper = true := by decide +kernel
  have hts : rawE (ascii "samples.timestamp_ns") = true := by decide +kernel
  have hi : ∀ i : Int, PE [Seg.raw (ascii (toString i))] := fun i => by rw [ascii_toStringInt]; exact PE_raw (rawE_intText i)
  exact PE_logicalS kwOK_and (PE2 (PE_logicalS hl (PE2 (PE_raw hts) (hi f))) (PE_logicalS hu (PE2 (PE_raw hts) (hi t))))

end Qryn.Prom

namespace Qryn.Prof
open Qryn Qryn.Sql Qryn.Lex Qryn.Prom

theorem PCond.render_segs : ∀ c : PCond, renderSegs c.segs = c.render
  | .cmp fn field s => by simp [PCond.segs, PCond.render, render_logicalS]
  | .cmpMatch fn field pat => by simp [PCond.segs, PCond.render, render_logicalS]
  | .arrayExists c => by simp [PCond.segs, PCond.render, render_logicalS, PCond.render_segs c]
  | .and2 a b => by simp [PCond.segs, PCond.render, render_logicalS, PCond.render_segs a, PCond.render_segs b]

theorem PQuery.render_segs (q : PQuery) : renderSegs q.segs = q.render := by
  have hb := render_bitSetS PCond.segs PCond.render PCond.render_segs q.kvs
  by_cases hg : q.globals.isEmpty = true <;> by_cases hk : q.kvs.isEmpty = true <;> by_cases hu : q.useOr = true <;>
    simp [PQuery.segs, PQuery.render, renderBitSetP, render_logicalS, hb, PCond.render_segs, Function.comp_def,
      List.append_assoc, hg, hk, hu]

def PCond.wf : PCond → Bool
  | .cmp fn field _ => kwOK fn && rawE (ascii field)
  | .cmpMatch fn field _ => kwOK fn && rawE (ascii field)
  | .arrayExists c => c.wf
  | .and2 a b => a.wf && b.wf

theorem kw_arrayExists : rawC (ascii "arrayExists(x -> ") = true := by decide +kernel
theorem kw_stu : rawC (ascii ", sample_types_units)") = true := by decide +kernel
theorem rawE_one : rawE (ascii "1") = true := by decide +kernel

theorem PCond.closed : ∀ c : PCond, c.wf = true → PE c.segs
  | .cmp fn field s, h => by
    simp only [PCond.wf, Bool.and_eq_true] at h
    exact PE_logicalS h.1 (PE2 (PE_raw h.2) (PE_str s))
  | .cmpMatch fn field pat, h => by
    simp only [PCond.wf, Bool.and_eq_true] at h
    exact PE_logicalS h.1 (PE2 (PE_matchCall h.2 pat) (PE_raw rawE_one))
  | .arrayExists c, h => by
    simp only [PCond.wf] at h
    exact PE_logicalS kwOK_eq (PE2 (PC.wrap (PC_raw kw_arrayExists) (PCond.closed c h) (PC_raw kw_stu)).toPE (PE_raw rawE_one))
  | .and2 a b, h => by
    simp only [PCond.wf, Bool.and_eq_true] at h
    exact PE_logicalS kwOK_and (PE2 (PCond.closed a h.1) (PCond.closed b h.2))

theorem PQuery.closed (q : PQuery) (ht : rawE (ascii q.table) = true) (hg : ∀ c ∈ q.globals, c.wf = true)
    (hk : ∀ c ∈ q.kvs, c.wf = true) : PX q.segs := by
  have hglob : ∀ x ∈ q.globals.map PCond.segs, PE x := PE_of_mem_map (fun c hc => PCond.closed c (hg c hc))
  have hkvs : ∀ x ∈ q.kvs.map PCond.segs, PE x := PE_of_mem_map (fun c hc => PCond.closed c (hk c hc))
  have h1 : PC [Seg.raw (ascii "SELECT fingerprint FROM " ++ ascii q.table ++ ascii " WHERE ")] :=
    PC_raw (rawC_wrap kw_selectFp ht kw_whereA)
  have hfrom : PE (logicalS (fnOf "Ge") [[Seg.raw (ascii "date")], [Seg.str q.fromDate]]) :=
    PE_logicalS kwOK_ge (PE2 (PE_raw rawE_date) (PE_str _))
  have hto : PE (logicalS (fnOf "Le") [[Seg.raw (ascii "date")], [Seg.str q.toDate]]) :=
    PE_logicalS kwOK_le (PE2 (PE_raw rawE_date) (PE_str _))
  have hwhere : PE (logicalS "and" ([logicalS (fnOf "Ge") [[Seg.raw (ascii "date")], [Seg.str q.fromDate]],
      logicalS (fnOf "Le") [[Seg.raw (ascii "date")], [Seg.str q.toDate]]] ++
      (if q.globals.isEmpty then [] else [logicalS "and" (q.globals.map PCond.segs)]) ++
      (if q.kvs.isEmpty || !q.useOr then [] else [logicalS "or" (q.kvs.map PCond.segs)]))) := by
    refine PE_logicalS kwOK_and ?_
    intro z hz
    simp only [List.mem_append, List.mem_cons, List.not_mem_nil, or_false] at hz
    rcases hz with ((rfl | rfl) | hz) | hz
    · exact hfrom
    · exact hto
    · split at hz
      · simp at hz
      · simp at hz; subst hz; exact PE_logicalS kwOK_and hglob
    · split at hz
      · simp at hz
      · simp at hz; subst hz; exact PE_logicalS kwOK_or hkvs
  have hconst : PE [Seg.raw (ascii (toString (Bits.requiredConst q.kvRequired)))] := by
    rw [ascii_toStringInt]; exact PE_raw (rawE_intText _)
  unfold PQuery.segs
  by_cases hke : q.kvs.isEmpty = true
  · simp only [hke, if_true, List.append_nil, Bool.true_or] at hwhere ⊢
    have := PC.wrap h1 hwhere (PC_raw kw_groupByFp)
    simpa [List.append_assoc] using this.toPX
  · simp only [hke] at hwhere ⊢
    have hhaving : PE (logicalS "and" [logicalS (fnOf "Eq") [bitSetS (q.kvs.map PCond.segs),
        [Seg.raw (ascii (toString (Bits.requiredConst q.kvRequired)))]]]) := by
      refine PE_logicalS kwOK_and ?_
      intro z hz
      simp at hz
      subst hz
      exact PE_logicalS kwOK_eq (PE2 (PE_bitSetS _ hkvs) hconst)
    have := PX.append (PC.wrap h1 hwhere (PC_raw kw_groupByFp)).toPX (PC.appendPE (PC_raw kw_havingFp) hhaving)
    simpa [List.append_assoc] using this

/-! the clauses `getMatchers` builds: operators and field expressions from the regenerated tables -/
theorem opClausesP_closed : Gen.ProfSelect.opClauses.all (fun e => kwOK e.2.1) = true := by decide +kernel
theorem pseudoFields_closed : Gen.ProfSelect.pseudoLabels.all (fun e => rawE (ascii e.2.1)) = true := by decide +kernel

theorem matcherClause_wf (field : String) (hf : rawE (ascii field) = true) (op : Op) (val : Bytes) (c : PCond)
    (h : matcherClause field op val = some c) : c.wf = true := by
  unfold matcherClause at h
  cases hl : Gen.ProfSelect.opClauses.lookup op.str with
  | none => simp [hl] at h
  | some e =>
    obtain ⟨fn, isMatch⟩ := e
    simp only [hl, Option.some.injEq] at h
    have hmem : (op.str, (fn, isMatch)) ∈ Gen.ProfSelect.opClauses := lookup_mem _ _ _ hl
    have hall : ∀ e ∈ Gen.ProfSelect.opClauses, kwOK e.2.1 = true := List.all_eq_true.mp opClausesP_closed
    have hfn : kwOK fn = true := by
      have h3 := hall _ hmem
      simp only at h3
      exact h3
    subst h
    cases isMatch <;> simp [PCond.wf, hfn, hf]

theorem clauseOf_wf (gre : Bytes → Bytes → Bool) (s : Selector) (r : PCond ⊕ (PCond × Bool)) (h : clauseOf gre s = some r) :
    (match r with | .inl c => c.wf | .inr c => c.1.wf) = true := by
  unfold clauseOf at h
  cases hp : pseudoOf s.name with
  | some e =>
    obtain ⟨field, inArr⟩ := e
    simp only [hp] at h
    have hf : rawE (ascii field) = true := by
      unfold pseudoOf at hp
      have hmem : (nameStr s.name, (field, inArr)) ∈ Gen.ProfSelect.pseudoLabels := lookup_mem _ _ _ hp
      have hall : ∀ e ∈ Gen.ProfSelect.pseudoLabels, rawE (ascii e.2.1) = true := List.all_eq_true.mp pseudoFields_closed
      have h3 := hall _ hmem
      simp only at h3
      exact h3
    cases hm : matcherClause field s.op (selVal s) with
    | none => simp [hm] at h
    | some c =>
      simp [hm] at h
      subst h
      have := matcherClause_wf field hf s.op (selVal s) c hm
      cases inArr <;> simpa [PCond.wf] using this
  | none =>
    simp only [hp] at h
    cases ho : (if acceptsEmptyP gre s = true then invOp s.op else some s.op) with
    | none => simp [ho] at h
    | some op =>
      cases hm : matcherClause "val" op (selVal s) with
      | none => simp [ho, hm] at h
      | some c =>
        simp [ho, hm] at h
        subst h
        have := matcherClause_wf "val" rawE_val op (selVal s) c hm
        simp [PCond.wf, kwOK_eq, rawE_key, this]

theorem plan_wf (gre : Bytes → Bytes → Bool) (table : String) (fromDate toDate : Bytes) : ∀ (ss : List Selector) (q : PQuery),
    plan gre table fromDate toDate ss = some q →
      q.table = table ∧ (∀ c ∈ q.globals, c.wf = true) ∧ (∀ c ∈ q.kvs, c.wf = true)
  | [], q, h => by simp [plan] at h; subst h; simp
  | s :: ss, q, h => by
    simp only [plan] at h
    cases hc : clauseOf gre s with
    | none => simp [hc] at h
    | some r =>
      cases hp : plan gre table fromDate toDate ss with
      | none => cases r <;> simp [hc, hp] at h
      | some q' =>
        have ih := plan_wf gre table fromDate toDate ss q' hp
        have hw := clauseOf_wf gre s r hc
        cases r with
        | inl g =>
          simp [hc, hp] at h
          subst h
          refine ⟨ih.1, ?_, ih.2.2⟩
          intro c hcm
          simp at hcm
          rcases hcm with rfl | hcm
          · exact hw
          · exact ih.2.1 c hcm
        | inr k =>
          simp [hc, hp] at h
          subst h
          refine ⟨ih.1, ih.2.1, ?_⟩
          intro c hcm
          simp at hcm
          rcases hcm with rfl | hcm
          · exact hw
          · exact ih.2.2 c hcm

end Qryn.Prof

/-! ### two requests of the same shape -/
namespace Qryn.Prom
open Qryn Qryn.Sql Qryn.Lex

theorem shape_joinS (sep : Bytes) : ∀ xs : List (List Seg),
    (joinS sep xs).map Seg.shape = joinS sep (xs.map (List.map Seg.shape))
  | [] => rfl
  | [x] => rfl
  | x :: y :: xs => by
    have ih := shape_joinS sep (y :: xs)
    simp only [List.map_cons] at ih ⊢
    simp only [joinS, List.map_append, List.map_cons, List.map_nil, Seg.shape, ih]

theorem shape_logicalS (fn : String) (parts : List (List Seg)) :
    (logicalS fn parts).map Seg.shape = logicalS fn (parts.map (List.map Seg.shape)) := by
  simp only [logicalS, shape_joinS, List.map_map]
  congr 1
  apply List.map_congr_left
  intro x _
  simp [parenS, Seg.shape]

theorem shape_bitSetS (cs : List (List Seg)) : (bitSetS cs).map Seg.shape = bitSetS (cs.map (List.map Seg.shape)) := by
  simp only [bitSetS, List.map_append, List.map_cons, List.map_nil, Seg.shape, shape_joinS, indexed_map, List.map_map]
  congr 2
  congr 1
  apply List.map_congr_left
  intro p _
  simp [Seg.shape]

/-- the shape of a condition: the operator, the column, whether it is a match — not the strings -/
def Cond.skel : Cond → Cond
  | .cmpStr fn col _ => .cmpStr fn col []
  | .cmpMatch fn col _ k => .cmpMatch fn col [] k
  | .and2 a b => .and2 a.skel b.skel

theorem Cond.shape_segs : ∀ c : Cond, c.segs.map Seg.shape = c.skel.segs
  | .cmpStr fn col s => by simp [Cond.segs, Cond.skel, shape_logicalS, Seg.shape]
  | .cmpMatch fn col pat k => by simp [Cond.segs, Cond.skel, shape_logicalS, Seg.shape]
  | .and2 a b => by simp [Cond.segs, Cond.skel, shape_logicalS, Cond.shape_segs a, Cond.shape_segs b]

/-- the skeleton of the condition built for a matcher depends on its match type only -/
theorem condOf_skel (m1 m2 : Matcher) (ht : m1.type = m2.type) :
    (condOf m1).map Cond.skel = (condOf m2).map Cond.skel := by
  unfold condOf
  rw [ht]
  cases Gen.PromSelect.opClauses.lookup (getOp m2.type) with
  | none => rfl
  | some e =>
    obtain ⟨fn, isMatch, k⟩ := e
    cases isMatch <;> simp [Cond.skel]

theorem condsOf_skel : ∀ (ms1 ms2 : List Matcher), ms1.map (·.type) = ms2.map (·.type) →
    (condsOf ms1).map (List.map Cond.skel) = (condsOf ms2).map (List.map Cond.skel)
  | [], [], _ => rfl
  | [], _ :: _, h => by simp at h
  | _ :: _, [], h => by simp at h
  | m1 :: ms1, m2 :: ms2, h => by
    simp only [List.map_cons, List.cons.injEq] at h
    have h1 := condOf_skel m1 m2 h.1
    have h2 := condsOf_skel ms1 ms2 h.2
    simp only [condsOf]
    cases c1 : condOf m1 <;> cases c2 : condOf m2 <;> cases d1 : condsOf ms1 <;> cases d2 : condsOf ms2 <;>
      simp_all

theorem FpQuery.shape_segs (q : FpQuery) :
    q.segs.map Seg.shape = ({ q with fromDate := [], conds := q.conds.map Cond.skel } : FpQuery).segs := by
  have hc : (q.conds.map Cond.segs).map (List.map Seg.shape) = (q.conds.map Cond.skel).map Cond.segs := by
    simp only [List.map_map]
    apply List.map_congr_left
    intro c _
    exact Cond.shape_segs c
  have hu' : ({ q with fromDate := [], conds := q.conds.map Cond.skel } : FpQuery).useOr = q.useOr := rfl
  have he' : (q.conds.map Cond.skel).isEmpty = q.conds.isEmpty := by simp
  simp only [FpQuery.segs, hu', he']
  cases q.useOr <;> cases q.conds.isEmpty <;>
    simp only [if_true, if_false, Bool.false_eq_true, List.map_append, List.map_cons, List.map_nil, Seg.shape, shape_logicalS,
      shape_bitSetS, hc, List.append_nil, List.length_map]

theorem asked_types (f1 f2 : Bytes → Bytes → Bool) : ∀ (ms1 ms2 : List Matcher), ms1.map (·.type) = ms2.map (·.type) →
    ms1.map (acceptsEmpty f1) = ms2.map (acceptsEmpty f2) →
    (ms1.map (asked f1)).map (·.type) = (ms2.map (asked f2)).map (·.type)
  | [], [], _, _ => rfl
  | [], _ :: _, h, _ => by simp at h
  | _ :: _, [], h, _ => by simp at h
  | m1 :: ms1, m2 :: ms2, h, ha => by
    simp only [List.map_cons, List.cons.injEq] at h ha
    have ih := asked_types f1 f2 ms1 ms2 h.2 ha.2
    simp only [List.map_cons, List.cons.injEq]
    refine ⟨?_, ih⟩
    simp only [asked, ha.1]
    split <;> simp [h.1]

/-- **two matcher lists with the same match types and the same matchers accepting the empty value, in the same context,
    give texts of the same shape** -/
theorem fpQuery_same_shape (f1 f2 : Bytes → Bytes → Bool) (table : String) (d1 d2 : Bytes) (tp : Int) (ms1 ms2 : List Matcher)
    (q1 q2 : FpQuery) (ht : ms1.map (·.type) = ms2.map (·.type))
    (ha : ms1.map (acceptsEmpty f1) = ms2.map (acceptsEmpty f2))
    (h1 : fingerprintsQuery f1 table d1 tp ms1 = some q1) (h2 : fingerprintsQuery f2 table d2 tp ms2 = some q2) :
    q1.segs.map Seg.shape = q2.segs.map Seg.shape := by
  have hs := condsOf_skel _ _ (asked_types f1 f2 ms1 ms2 ht ha)
  have hreq : ms1.map (fun m => !acceptsEmpty f1 m) = ms2.map (fun m => !acceptsEmpty f2 m) := by
    have := congrArg (List.map (fun b => !b)) ha
    simpa [List.map_map, Function.comp_def] using this
  unfold fingerprintsQuery at h1 h2
  cases c1 : condsOf (ms1.map (asked f1)) with
  | none => simp [c1] at h1
  | some cs1 =>
    cases c2 : condsOf (ms2.map (asked f2)) with
    | none => simp [c2] at h2
    | some cs2 =>
      simp [c1] at h1
      simp [c2] at h2
      subst h1; subst h2
      rw [c1, c2] at hs
      simp only [Option.map_some, Option.some.injEq] at hs
      rw [FpQuery.shape_segs, FpQuery.shape_segs]
      simp only [hs, hreq]

end Qryn.Prom

namespace Qryn.Prof
open Qryn Qryn.Sql Qryn.Lex Qryn.Prom

def PCond.skel : PCond → PCond
  | .cmp fn field _ => .cmp fn field []
  | .cmpMatch fn field _ => .cmpMatch fn field []
  | .arrayExists c => .arrayExists c.skel
  | .and2 a b => .and2 a.skel b.skel

theorem PCond.shape_segs : ∀ c : PCond, c.segs.map Seg.shape = c.skel.segs
  | .cmp fn field s => by simp [PCond.segs, PCond.skel, shape_logicalS, Seg.shape]
  | .cmpMatch fn field pat => by simp [PCond.segs, PCond.skel, shape_logicalS, Seg.shape]
  | .arrayExists c => by simp [PCond.segs, PCond.skel, shape_logicalS, Seg.shape, PCond.shape_segs c]
  | .and2 a b => by simp [PCond.segs, PCond.skel, shape_logicalS, PCond.shape_segs a, PCond.shape_segs b]

def skelSum : PCond ⊕ (PCond × Bool) → PCond ⊕ (PCond × Bool)
  | .inl c => .inl c.skel
  | .inr c => .inr (c.1.skel, c.2)

theorem matcherClause_skel (field : String) (op : Op) (v1 v2 : Bytes) :
    (matcherClause field op v1).map PCond.skel = (matcherClause field op v2).map PCond.skel := by
  unfold matcherClause
  cases Gen.ProfSelect.opClauses.lookup op.str with
  | none => rfl
  | some e => obtain ⟨fn, isMatch⟩ := e; cases isMatch <;> simp [PCond.skel]

/-- two selectors of the same class: the same pseudo-label entry (or both ordinary labels), the same operator, and both
    or neither accept the empty value -/
def SameClass (g1 g2 : Bytes → Bytes → Bool) (s1 s2 : Selector) : Prop :=
  pseudoOf s1.name = pseudoOf s2.name ∧ s1.op = s2.op ∧ acceptsEmptyP g1 s1 = acceptsEmptyP g2 s2

theorem clauseOf_skel (g1 g2 : Bytes → Bytes → Bool) (s1 s2 : Selector) (h : SameClass g1 g2 s1 s2) :
    (clauseOf g1 s1).map skelSum = (clauseOf g2 s2).map skelSum := by
  unfold clauseOf
  rw [h.1, h.2.1, h.2.2]
  cases pseudoOf s2.name with
  | some e =>
    obtain ⟨field, inArr⟩ := e
    have hm := matcherClause_skel field s2.op (selVal s1) (selVal s2)
    cases m1 : matcherClause field s2.op (selVal s1) <;> cases m2 : matcherClause field s2.op (selVal s2) <;>
      simp_all [skelSum] <;> cases inArr <;> simp_all [PCond.skel]
  | none =>
    simp only
    cases (if acceptsEmptyP g2 s2 = true then invOp s2.op else some s2.op) with
    | none => rfl
    | some op =>
      have hm := matcherClause_skel "val" op (selVal s1) (selVal s2)
      cases m1 : matcherClause "val" op (selVal s1) <;> cases m2 : matcherClause "val" op (selVal s2) <;>
        simp_all [skelSum, PCond.skel]

def PQuery.skel (q : PQuery) : PQuery := { q with fromDate := [], toDate := [], globals := q.globals.map PCond.skel, kvs := q.kvs.map PCond.skel }

/-- selector lists that agree position by position in class -/
def SameClasses (g1 g2 : Bytes → Bytes → Bool) : List Selector → List Selector → Prop
  | [], [] => True
  | s1 :: r1, s2 :: r2 => SameClass g1 g2 s1 s2 ∧ SameClasses g1 g2 r1 r2
  | _, _ => False

theorem plan_skel (g1 g2 : Bytes → Bytes → Bool) (table : String) (f1 t1 f2 t2 : Bytes) :
    ∀ (ss1 ss2 : List Selector), SameClasses g1 g2 ss1 ss2 →
    (plan g1 table f1 t1 ss1).map PQuery.skel = (plan g2 table f2 t2 ss2).map PQuery.skel
  | [], [], _ => by simp [plan, PQuery.skel]
  | [], _ :: _, h => by simp [SameClasses] at h
  | _ :: _, [], h => by simp [SameClasses] at h
  | s1 :: ss1, s2 :: ss2, h => by
    simp only [SameClasses] at h
    obtain ⟨hs, hrest⟩ := h
    · have h1 := clauseOf_skel g1 g2 s1 s2 hs
      have h2 := plan_skel g1 g2 table f1 t1 f2 t2 ss1 ss2 hrest
      simp only [plan]
      cases c1 : clauseOf g1 s1 <;> cases c2 : clauseOf g2 s2 <;> cases p1 : plan g1 table f1 t1 ss1 <;>
        cases p2 : plan g2 table f2 t2 ss2 <;>
        simp_all [skelSum] <;>
        (rename_i r1 r2 _ _; cases r1 <;> cases r2 <;> simp_all [skelSum, PQuery.skel])

theorem PQuery.shape_segs (q : PQuery) : q.segs.map Seg.shape = q.skel.segs := by
  have hg : (q.globals.map PCond.segs).map (List.map Seg.shape) = (q.globals.map PCond.skel).map PCond.segs := by
    simp only [List.map_map]; apply List.map_congr_left; intro c _; exact PCond.shape_segs c
  have hk : (q.kvs.map PCond.segs).map (List.map Seg.shape) = (q.kvs.map PCond.skel).map PCond.segs := by
    simp only [List.map_map]; apply List.map_congr_left; intro c _; exact PCond.shape_segs c
  have hu' : q.skel.useOr = q.useOr := rfl
  have hg' : (q.globals.map PCond.skel).isEmpty = q.globals.isEmpty := by simp
  have hk' : (q.kvs.map PCond.skel).isEmpty = q.kvs.isEmpty := by simp
  have hr' : q.skel.kvRequired = q.kvRequired := rfl
  simp only [PQuery.segs, hu', hr']
  simp only [PQuery.skel, hg', hk']
  cases q.useOr <;> cases q.kvs.isEmpty <;> cases q.globals.isEmpty <;>
    simp only [if_true, if_false, Bool.false_eq_true, Bool.or_true, Bool.or_false, Bool.not_true, Bool.not_false, Bool.true_or,
      List.map_append, List.map_cons, List.map_nil, Seg.shape, shape_logicalS, shape_bitSetS, hg, hk, List.append_nil,
      List.length_map]

/-- **two selector lists of the same classes, in the same context, give texts of the same shape** -/
theorem pquery_same_shape (g1 g2 : Bytes → Bytes → Bool) (table : String) (f1 t1 f2 t2 : Bytes) (ss1 ss2 : List Selector)
    (q1 q2 : PQuery) (hc : SameClasses g1 g2 ss1 ss2)
    (h1 : plan g1 table f1 t1 ss1 = some q1) (h2 : plan g2 table f2 t2 ss2 = some q2) :
    q1.segs.map Seg.shape = q2.segs.map Seg.shape := by
  have hs := plan_skel g1 g2 table f1 t1 f2 t2 ss1 ss2 hc
  rw [h1, h2] at hs
  simp only [Option.map_some, Option.some.injEq] at hs
  rw [PQuery.shape_segs, PQuery.shape_segs, hs]

end Qryn.Prof
