import Qryn.Proofs.AnalyzeX
/-! `planLogX` written with the specification's split (`splitPre`) instead of the planner's analysis (`analyze`): the two
    agree by `analyze_eq_splitPre`. Proofs about the statement's structure (C10: atoms, shapes) unfold this form. -/
namespace Qryn.LogQL
open Qryn Qryn.Sql

/-- the plan in terms of `splitPre` (the form the planner model had before `analyzeScript` moved inside it) -/
def planLogXSplit (c : Ctx) (fin : Bool) (q : LogQueryX) : Sel :=
  let pre := (splitPre q.stages).1
  let post := (splitPre q.stages).2
  let q0 : LogQuery := ⟨q.matchers, pre⟩
  let chain := fpChain c (streamSelect c q.matchers) 0 (labelConds q0)
  match post with
  | [] =>
    .mk (chain ++ [(.named "main", mainSel (limCtx c fin) q0), (.named "_time_series", timeSeriesSel c),
                   (.named "prefinal", joinedSel c)])
      false finalCols (some (.withRef (.named "prefinal"))) [] none none [] none (finalOrder c fin) none
  | _ :: _ =>
    .mk (chain ++ [(.named "main", mainSel { c with limit := 0 } q0), (.named "_time_series", timeSeriesSel c)] ++
          planRuns c [.orderBy (.raw "timestamp_ns") (dirOf c)]
            (if (limCtx c fin).limit = 0 then none else some (.int (limCtx c fin).limit))
            none ((labelConds q0).length + 1) 1 (groupRuns post))
      false finalCols (some (.withRef (.named "prefinal"))) [] none none [] none (finalOrder c fin) none

theorem planLogX_eq_split (c : Ctx) (fin : Bool) (q : LogQueryX) : planLogX c fin q = planLogXSplit c fin q := by
  unfold planLogX planLogXSplit
  rw [analyze_eq_splitPre]
  rfl

end Qryn.LogQL
