import Qryn.Sql.Sem
/-! `like s ('%' ++ likeEscape v ++ '%')` holds exactly when `v` occurs in `s`. -/
namespace Qryn.Sql

def lits (v : Bytes) : List PTok := v.map .lit

theorem parse_escape_append (v rest : Bytes) :
    parseLikeGo false (likeEscape v ++ rest) = lits v ++ parseLikeGo false rest := by
  induction v with
  | nil => simp [likeEscape, lits]
  | cons c v ih =>
    have hcons : likeEscape (c :: v) = (if c = 92 ∨ c = 37 ∨ c = 95 then [92, c] else [c]) ++ likeEscape v := by
      simp [likeEscape]
    rw [hcons]
    by_cases h : c = 92 ∨ c = 37 ∨ c = 95
    · have h' : c = 37 ∨ c = 95 ∨ c = 92 := by rcases h with h | h | h <;> simp [h]
      simp [h, parseLikeGo, h', ih, lits]
    · have h92 : c ≠ 92 := fun e => h (Or.inl e)
      have h37 : c ≠ 37 := fun e => h (Or.inr (Or.inl e))
      have h95 : c ≠ 95 := fun e => h (Or.inr (Or.inr e))
      simp [parseLikeGo, h92, h37, h95, ih, lits]

theorem anySuffix_iff (f : Bytes → Bool) (s : Bytes) :
    anySuffix f s = true ↔ ∃ t, t <:+ s ∧ f t = true := by
  induction s with
  | nil => simp [anySuffix]
  | cons x s ih =>
    simp only [anySuffix, Bool.or_eq_true, ih]
    constructor
    · rintro (h | ⟨t, ht, hm⟩)
      · exact ⟨x :: s, List.suffix_refl _, h⟩
      · exact ⟨t, List.IsSuffix.trans ht (List.suffix_cons x s), hm⟩
    · rintro ⟨t, ht, hm⟩
      rcases List.suffix_cons_iff.mp ht with rfl | h
      · exact Or.inl hm
      · exact Or.inr ⟨t, h, hm⟩

theorem match_lits_any (v s : Bytes) : matchToks (lits v ++ [.any]) s = true ↔ v <+: s := by
  induction v generalizing s with
  | nil =>
    simp only [lits, List.map_nil, List.nil_append, List.nil_prefix, iff_true, matchToks, anySuffix_iff]
    exact ⟨[], List.nil_suffix, by simp⟩
  | cons c v ih =>
    cases s with
    | nil => simp [lits, matchToks]
    | cons x s =>
      simp only [lits, List.map_cons, List.cons_append, matchToks, Bool.and_eq_true, beq_iff_eq]
      rw [show List.map PTok.lit v ++ [PTok.any] = lits v ++ [.any] from rfl, ih s]
      constructor
      · rintro ⟨rfl, h⟩; exact List.cons_prefix_cons.mpr ⟨rfl, h⟩
      · intro h; have := List.cons_prefix_cons.mp h; exact ⟨this.1.symm, this.2⟩

theorem like_contains' (s v : Bytes) : like s (37 :: likeEscape v ++ [37]) = true ↔ v <:+: s := by
  unfold like
  have : parseLikeGo false (37 :: likeEscape v ++ [37]) = .any :: (lits v ++ [.any]) := by
    have h := parse_escape_append v [37]
    simp [parseLikeGo, h]
  rw [this, matchToks, anySuffix_iff]
  constructor
  · rintro ⟨t, ht, hm⟩
    have hp := (match_lits_any v t).mp hm
    obtain ⟨a, rfl⟩ := ht
    obtain ⟨b, rfl⟩ := hp
    exact ⟨a, b, by simp⟩
  · rintro ⟨a, b, rfl⟩
    exact ⟨v ++ b, ⟨a, by simp⟩, (match_lits_any v (v ++ b)).mpr ⟨b, rfl⟩⟩

end Qryn.Sql
