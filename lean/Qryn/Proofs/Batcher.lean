import Qryn.Ingest.BatcherSpec
/-! Lemmas for C01/C02 about `Ingest.Batcher`: column bookkeeping, the trace monitor `Sound` and the
    invariant behind `ack_sound`, lifted to the multi-service machine. -/
namespace Qryn.Ingest.Batcher

/-! ### columns -/

theorem names_appendCol (cs : Columns) (c : String) (xs : List Cell) : names (appendCol cs c xs) = names cs := by
  induction cs with
  | nil => rfl
  | cons h t ih =>
    obtain ⟨n, d⟩ := h
    simp only [appendCol]
    split
    · simp [names]
    · simp only [names, List.map_cons] at ih ⊢; rw [ih]

theorem colData_appendCol_ne (cs : Columns) {c name : String} (h : c ≠ name) (xs : List Cell) :
    colData (appendCol cs c xs) name = colData cs name := by
  induction cs with
  | nil => rfl
  | cons hd t ih =>
    obtain ⟨n, d⟩ := hd
    simp only [appendCol]
    by_cases hn : n = c
    · subst hn; simp [colData, h]
    · simp only [hn, if_false, colData]; rw [ih]

theorem colData_appendCol_self (cs : Columns) (c : String) (xs : List Cell) (h : c ∈ names cs) :
    colData (appendCol cs c xs) c = colData cs c ++ xs := by
  induction cs with
  | nil => simp [names] at h
  | cons hd t ih =>
    obtain ⟨n, d⟩ := hd
    simp only [appendCol]
    by_cases hn : n = c
    · subst hn; simp [colData]
    · simp only [hn, if_false, colData]
      apply ih
      simp only [names, List.map_cons, List.mem_cons] at h
      rcases h with h | h
      · exact absurd h.symm hn
      · exact h

theorem names_applySteps (r : Req) (steps : List PStep) (cs : Columns) :
    names (applySteps r steps cs) = names cs := by
  induction steps generalizing cs with
  | nil => rfl
  | cons st rest ih =>
    simp only [applySteps, List.foldl_cons] at ih ⊢
    rw [ih, names_appendCol]

theorem colData_applySteps (r : Req) (steps : List PStep) (cs : Columns) (name : String) (h : name ∈ names cs) :
    colData (applySteps r steps cs) name
      = colData cs name ++ (steps.filter (fun st => st.col = name)).flatMap (cellsOf r) := by
  induction steps generalizing cs with
  | nil => simp [applySteps]
  | cons st rest ih =>
    simp only [applySteps, List.foldl_cons] at ih ⊢
    rw [ih _ (by rw [names_appendCol]; exact h)]
    by_cases hc : st.col = name
    · subst hc
      rw [colData_appendCol_self _ _ _ h]
      simp [List.append_assoc]
    · rw [colData_appendCol_ne _ hc]
      simp [hc]

theorem colData_applySteps_contrib (p : Plan) (r : Req) (cs : Columns) (name : String) (h : name ∈ names cs) :
    colData (applySteps r p.steps cs) name = colData cs name ++ contrib p r name :=
  colData_applySteps r p.steps cs name h

theorem names_acquire (p : Plan) : names (acquire p) = p.acquired := by
  simp [names, acquire, List.map_map, Function.comp_def]

theorem colData_acquire (p : Plan) (name : String) : colData (acquire p) name = [] := by
  unfold acquire
  induction p.acquired with
  | nil => rfl
  | cons a t ih => simp only [List.map_cons, colData]; split <;> simp [ih]

/-! ### facts read off `planOK` -/

theorem planOK_count {p : Plan} (h : planOK p = true) : p.countCol ∈ p.acquired := by
  simp only [planOK, Bool.and_eq_true] at h
  simpa using h.2

theorem planOK_insert {p : Plan} (h : planOK p = true) : p.insertCols = p.acquired := by
  simp only [planOK, Bool.and_eq_true] at h
  simpa using h.1.1.1

theorem planOK_unique {p : Plan} (h : planOK p = true) {name : String} (hn : name ∈ p.acquired) :
    ∃ st, st ∈ p.steps ∧ st.col = name ∧ p.steps.filter (fun st => st.col = name) = [st] := by
  simp only [planOK, Bool.and_eq_true] at h
  have h1 := h.1.1.2
  simp only [List.all_eq_true] at h1
  have h2 := h1 name hn
  simp only [beq_iff_eq] at h2
  obtain ⟨st, hst⟩ := List.length_eq_one_iff.mp h2
  have : st ∈ p.steps.filter (fun st => st.col = name) := by rw [hst]; simp
  rw [List.mem_filter] at this
  exact ⟨st, this.1, by simpa using this.2, hst⟩

theorem contrib_of_unique {p : Plan} {r : Req} {name : String} {st : PStep}
    (h : p.steps.filter (fun st => st.col = name) = [st]) : contrib p r name = cellsOf r st := by
  simp [contrib, h]

/-! ### the trace monitor -/

/-- every `resolved id ok` is covered by an ok block seen *before* it (`bs` = ok blocks so far) -/
def Sound (p : Plan) (R : ReqId → Req) : List Columns → List Event → Prop
  | _, [] => True
  | bs, .insert b _ .ok :: t => Sound p R (b :: bs) t
  | bs, .insert _ _ .err :: t => Sound p R bs t
  | bs, .resolved id .ok :: t => (NoRows p (R id) ∨ ∃ b ∈ bs, Covers p b (R id)) ∧ Sound p R bs t
  | bs, .resolved _ .err :: t => Sound p R bs t
  | bs, .crash :: t => Sound p R bs t

def okBlocks : List Event → List Columns
  | [] => []
  | .insert b _ .ok :: t => b :: okBlocks t
  | _ :: t => okBlocks t

theorem Sound.mono {p R} {bs bs' : List Columns} (h : ∀ b ∈ bs, b ∈ bs') :
    ∀ evs, Sound p R bs evs → Sound p R bs' evs := by
  intro evs
  induction evs generalizing bs bs' with
  | nil => intro _; trivial
  | cons e t ih =>
    cases e with
    | insert b w o =>
      cases o with
      | ok => intro hs; exact ih (bs := b :: bs) (bs' := b :: bs') (by
                intro x hx; simp at hx ⊢; rcases hx with rfl | hx; exact Or.inl rfl; exact Or.inr (h x hx)) hs
      | err => intro hs; exact ih h hs
    | resolved id o =>
      cases o with
      | ok =>
        intro hs
        refine ⟨?_, ih h hs.2⟩
        rcases hs.1 with h0 | ⟨b, hb, hx⟩
        · exact Or.inl h0
        · exact Or.inr ⟨b, h b hb, hx⟩
      | err => intro hs; exact ih h hs
    | crash => intro hs; exact ih h hs

theorem Sound.append {p R} (e1 e2 : List Event) (bs : List Columns) :
    Sound p R bs e1 → Sound p R ((okBlocks e1).reverse ++ bs) e2 → Sound p R bs (e1 ++ e2) := by
  induction e1 generalizing bs with
  | nil => intro _ h; simpa [okBlocks] using h
  | cons e t ih =>
    cases e with
    | insert b w o =>
      cases o with
      | ok =>
        intro h1 h2
        simp only [List.cons_append, Sound] at h1 ⊢
        apply ih (b :: bs) h1
        simpa [okBlocks, List.append_assoc] using h2
      | err =>
        intro h1 h2
        simp only [List.cons_append, Sound] at h1 ⊢
        exact ih bs h1 (by simpa [okBlocks] using h2)
    | resolved id o =>
      cases o with
      | ok =>
        intro h1 h2
        simp only [List.cons_append, Sound] at h1 ⊢
        exact ⟨h1.1, ih bs h1.2 (by simpa [okBlocks] using h2)⟩
      | err =>
        intro h1 h2
        simp only [List.cons_append, Sound] at h1 ⊢
        exact ih bs h1 (by simpa [okBlocks] using h2)
    | crash =>
      intro h1 h2
      simp only [List.cons_append, Sound] at h1 ⊢
      exact ih bs h1 (by simpa [okBlocks] using h2)

/-- the monitor implies the pre/post statement -/
theorem Sound.ack {p R} (evs : List Event) (bs : List Columns) (h : Sound p R bs evs)
    (pre post : List Event) (id : ReqId) (he : evs = pre ++ Event.resolved id .ok :: post) :
    NoRows p (R id) ∨ (∃ b ∈ bs, Covers p b (R id)) ∨ ∃ b w, Event.insert b w .ok ∈ pre ∧ Covers p b (R id) := by
  induction pre generalizing evs bs with
  | nil =>
    subst he
    simp only [List.nil_append, Sound] at h
    rcases h.1 with h0 | h1
    · exact Or.inl h0
    · exact Or.inr (Or.inl h1)
  | cons e pre ih =>
    subst he
    have key : ∀ bs', Sound p R bs' (pre ++ Event.resolved id .ok :: post) → (∀ b ∈ bs', b ∈ bs ∨ ∃ w, e = Event.insert b w .ok) →
        NoRows p (R id) ∨ (∃ b ∈ bs, Covers p b (R id)) ∨ ∃ b w, Event.insert b w .ok ∈ e :: pre ∧ Covers p b (R id) := by
      intro bs' hs hsub
      rcases ih _ bs' hs rfl with h0 | ⟨b, hb, hc⟩ | ⟨b, w, hm, hc⟩
      · exact Or.inl h0
      · rcases hsub b hb with hb' | ⟨w, rfl⟩
        · exact Or.inr (Or.inl ⟨b, hb', hc⟩)
        · exact Or.inr (Or.inr ⟨b, w, by simp, hc⟩)
      · exact Or.inr (Or.inr ⟨b, w, by simp [hm], hc⟩)
    cases e with
    | insert b w o =>
      cases o with
      | ok =>
        simp only [List.cons_append, Sound] at h
        exact key (b :: bs) h (by intro x hx; simp at hx; rcases hx with rfl | hx; exact Or.inr ⟨w, rfl⟩; exact Or.inl hx)
      | err =>
        simp only [List.cons_append, Sound] at h
        exact key bs h (fun x hx => Or.inl hx)
    | resolved i o =>
      cases o with
      | ok => simp only [List.cons_append, Sound] at h; exact key bs h.2 (fun x hx => Or.inl hx)
      | err => simp only [List.cons_append, Sound] at h; exact key bs h (fun x hx => Or.inl hx)
    | crash => simp only [List.cons_append, Sound] at h; exact key bs h (fun x hx => Or.inl hx)

theorem Sound.ackSound {p R} (evs : List Event) (h : Sound p R [] evs) : AckSound p R evs := by
  intro pre post id he
  rcases Sound.ack evs [] h pre post id he with h0 | ⟨b, hb, _⟩ | h2
  · exact Or.inl h0
  · simp at hb
  · exact Or.inr h2

/-! ### the bookkeeping invariant of one sub-service -/

def Inv (p : Plan) (R : ReqId → Req) (s : Svc) : Prop :=
  s.plan = p ∧
  (∀ cs, s.cols = some cs → names cs = p.acquired ∧ ∀ id ∈ s.pending, Covers p cs (R id)) ∧
  (∀ q, s.inflight = some q → ∀ id ∈ q.waiting, Covers p q.cols (R id))

theorem resolved_map_sound {p R} (ids : List ReqId) (o : Outcome) (bs : List Columns)
    (h : o = .ok → ∀ id ∈ ids, ∃ b ∈ bs, Covers p b (R id)) :
    Sound p R bs (ids.map (fun id => Event.resolved id o)) := by
  induction ids with
  | nil => trivial
  | cons id t ih =>
    cases o with
    | ok =>
      simp only [List.map_cons, Sound]
      exact ⟨Or.inr (h rfl id (by simp)), ih (fun e i hi => h e i (by simp [hi]))⟩
    | err => simp only [List.map_cons, Sound]; exact ih (fun e => by cases e)

theorem init_inv {p R} (mq : Nat) : Inv p R (Svc.init p mq) := by
  refine ⟨rfl, ?_, ?_⟩
  · intro cs hcs
    simp only [Svc.init, Option.some.injEq] at hcs
    subst hcs
    exact ⟨names_acquire p, by intro id hid; simp [Svc.init] at hid⟩
  · intro q hq; simp [Svc.init] at hq

/-! ### `step` unfolded per constructor -/

theorem step_crashed (s : Svc) (op : Op) (h : s.crashed = true) : step s op = (s, []) := by
  simp [step, h]
theorem step_request (s : Svc) (r : Req) (h : s.crashed = false) : step s (.request r) = stepRequest s r := by
  simp [step, h]
theorem step_trigger (s : Svc) (k : Trigger) (h : s.crashed = false) :
    step s (.trigger k) = ({ s with flushPlanned := true }, []) := by simp [step, h]
theorem step_connect (s : Svc) (ok : Bool) (h : s.crashed = false) : step s (.connect ok) = stepConnect s ok := by
  simp [step, h]
theorem step_swap (s : Svc) (h : s.crashed = false) : step s .swap = stepSwap s := by simp [step, h]
theorem step_doResult (s : Svc) (o : Outcome) (h : s.crashed = false) : step s (.doResult o) = stepDoResult s o := by
  simp [step, h]
theorem step_ping (s : Svc) (ok : Bool) (h : s.crashed = false) : step s (.ping ok) = stepPing s ok := by
  simp [step, h]
theorem step_stop (s : Svc) (h : s.crashed = false) : step s .stop = stepStop s := by simp [step, h]

/-! ### case analysis of `processRequest` and `stepRequest` in a form the proofs can consume -/

theorem processRequest_cases (p : Plan) (r : Req) (cols : Option Columns) :
    (r.ptype ≠ p.ptype ∧ processRequest p r cols = .ok ⟨0, none, true⟩) ∨
    (r.ptype = p.ptype ∧ cols = none ∧ processRequest p r cols = .error .indexOutOfRange) ∨
    (r.ptype = p.ptype ∧ ∃ cs, cols = some cs ∧ p.steps.any (stepFaults r) = true ∧
        processRequest p r cols = .error .indexOutOfRange) ∨
    (r.ptype = p.ptype ∧ ∃ cs, cols = some cs ∧ p.steps.any (stepFaults r) = false ∧
        processRequest p r cols = .ok ⟨(colData (applySteps r p.steps cs) p.countCol).length - (colData cs p.countCol).length,
                                       some (applySteps r p.steps cs), false⟩) := by
  unfold processRequest
  by_cases hty : r.ptype = p.ptype
  · cases cols with
    | none => right; left; exact ⟨hty, rfl, by simp [hty]⟩
    | some cs =>
      cases hf : p.steps.any (stepFaults r) with
      | true => right; right; left; exact ⟨hty, cs, rfl, rfl, by simp [hty]⟩
      | false => right; right; right; exact ⟨hty, cs, rfl, rfl, by simp [hty]⟩
  · left; exact ⟨hty, by simp [hty]⟩

theorem stepRequest_cases (s : Svc) (r : Req) :
    (s.running = false ∧ stepRequest s r = (s, [.resolved r.id .err])) ∨
    (s.running = true ∧ ∃ f, processRequest s.plan r s.cols = .error f ∧
        stepRequest s r = ({ s with crashed := true }, [.crash])) ∨
    (s.running = true ∧ ∃ res, processRequest s.plan r s.cols = .ok res ∧ (res.err || res.inserted == 0) = true ∧
        stepRequest s r = ({ s with cols := res.cols }, [.resolved r.id (if res.err then .err else .ok)])) ∨
    (s.running = true ∧ ∃ res, processRequest s.plan r s.cols = .ok res ∧ (res.err || res.inserted == 0) = false ∧
        stepRequest s r = ({ s with cols := res.cols, size := s.size + r.size, pending := s.pending ++ [r.id],
                                    flushPlanned := s.flushPlanned ||
                                      (decide (s.maxQueue > 0) && decide (s.size + r.size > s.maxQueue)) }, [])) := by
  unfold stepRequest
  cases hrun : s.running with
  | false => left; exact ⟨rfl, by simp⟩
  | true =>
    right
    cases hp : processRequest s.plan r s.cols with
    | error f => left; exact ⟨rfl, f, rfl, by simp⟩
    | ok res =>
      right
      cases hz : (res.err || res.inserted == 0) with
      | true => left; exact ⟨rfl, res, rfl, hz, by simp [hz]⟩
      | false => right; exact ⟨rfl, res, rfl, hz, by simp [hz]⟩

theorem stepRequest_sound {p R} (hp : planOK p = true) (s : Svc) (r : Req) (hI : Inv p R s) (hW : r = R r.id)
    (bs : List Columns) : Inv p R (stepRequest s r).1 ∧ Sound p R bs (stepRequest s r).2 := by
  obtain ⟨hplan, hcols, hinf⟩ := hI
  rcases stepRequest_cases s r with ⟨_, he⟩ | ⟨_, f, _, he⟩ | ⟨_, res, hres, hz, he⟩ | ⟨_, res, hres, hz, he⟩
  · rw [he]; exact ⟨⟨hplan, hcols, hinf⟩, by simp [Sound]⟩
  · rw [he]; exact ⟨⟨hplan, hcols, hinf⟩, trivial⟩
  all_goals
    rw [he]
    rw [hplan] at hres
    rcases processRequest_cases p r s.cols with ⟨hty, hpr⟩ | ⟨hty, hnone, hpr⟩ | ⟨hty, cs, hc, hf, hpr⟩ | ⟨hty, cs, hc, hf, hpr⟩
  -- immediate resolution
  · rw [hpr] at hres; cases hres
    exact ⟨⟨hplan, by intro cs hcs; simp at hcs, hinf⟩, by simp [Sound]⟩
  · rw [hpr] at hres; cases hres
  · rw [hpr] at hres; cases hres
  · rw [hpr] at hres; cases hres
    obtain ⟨hnames, hpend⟩ := hcols cs hc
    have hcnt : p.countCol ∈ names cs := hnames ▸ planOK_count hp
    have hnames' : names (applySteps r p.steps cs) = p.acquired := by rw [names_applySteps]; exact hnames
    have hold : ∀ id ∈ s.pending, Covers p (applySteps r p.steps cs) (R id) := by
      intro id hid name hname
      rw [colData_applySteps_contrib p r cs name (hnames ▸ hname)]
      exact (hpend id hid name hname).trans (List.prefix_append _ _).isInfix
    refine ⟨⟨hplan, ?_, hinf⟩, ?_⟩
    · intro cs' hcs'
      simp only [Option.some.injEq] at hcs'
      subst hcs'
      exact ⟨hnames', hold⟩
    · simp only [Bool.false_or, beq_iff_eq] at hz
      rw [colData_applySteps_contrib p r cs _ hcnt] at hz
      simp only [List.length_append, Nat.add_sub_cancel_left] at hz
      simp only [Bool.false_eq_true, if_false, Sound, and_true]
      left
      show contrib p (R r.id) p.countCol = []
      rw [← hW]
      exact List.eq_nil_of_length_eq_zero hz
  -- accepted
  · rw [hpr] at hres; cases hres; simp at hz
  · rw [hpr] at hres; cases hres
  · rw [hpr] at hres; cases hres
  · rw [hpr] at hres; cases hres
    obtain ⟨hnames, hpend⟩ := hcols cs hc
    have hnames' : names (applySteps r p.steps cs) = p.acquired := by rw [names_applySteps]; exact hnames
    have hold : ∀ id ∈ s.pending, Covers p (applySteps r p.steps cs) (R id) := by
      intro id hid name hname
      rw [colData_applySteps_contrib p r cs name (hnames ▸ hname)]
      exact (hpend id hid name hname).trans (List.prefix_append _ _).isInfix
    have hnew : Covers p (applySteps r p.steps cs) (R r.id) := by
      intro name hname
      rw [← hW, colData_applySteps_contrib p r cs name (hnames ▸ hname)]
      exact (List.suffix_append _ _).isInfix
    refine ⟨⟨hplan, ?_, hinf⟩, trivial⟩
    intro cs' hcs'
    simp only [Option.some.injEq] at hcs'
    subst hcs'
    refine ⟨hnames', ?_⟩
    intro id hid
    rcases List.mem_append.mp hid with hid | hid
    · exact hold id hid
    · simp only [List.mem_singleton] at hid; subst hid; exact hnew

theorem stepSwap_inv {p R} (s : Svc) (hI : Inv p R s) : Inv p R (stepSwap s).1 ∧ ∀ bs, Sound p R bs (stepSwap s).2 := by
  obtain ⟨hplan, hcols, hinf⟩ := hI
  unfold stepSwap
  split
  · split
    · exact ⟨⟨hplan, hcols, hinf⟩, fun _ => trivial⟩
    · cases hc : s.cols with
      | none => exact ⟨⟨hplan, by simpa [hc] using hcols, hinf⟩, fun _ => trivial⟩
      | some cs =>
        obtain ⟨hnames, hpend⟩ := hcols cs hc
        refine ⟨⟨hplan, ?_, ?_⟩, fun _ => trivial⟩
        · intro cs' hcs'
          simp only [Option.some.injEq] at hcs'
          subst hcs'
          rw [hplan]
          exact ⟨names_acquire p, by intro id hid; simp at hid⟩
        · intro q hq id hid
          simp only [Option.some.injEq] at hq
          subst hq
          exact hpend id hid
  · exact ⟨⟨hplan, hcols, hinf⟩, fun _ => trivial⟩

theorem stepDoResult_sound {p R} (s : Svc) (o : Outcome) (hI : Inv p R s) (bs : List Columns) :
    Inv p R (stepDoResult s o).1 ∧ Sound p R bs (stepDoResult s o).2 := by
  obtain ⟨hplan, hcols, hinf⟩ := hI
  unfold stepDoResult
  cases hq : s.inflight with
  | none => exact ⟨⟨hplan, hcols, by simpa [hq] using hinf⟩, trivial⟩
  | some q =>
    refine ⟨⟨hplan, hcols, by intro q' hq'; simp at hq'⟩, ?_⟩
    cases o with
    | ok =>
      simp only [Sound]
      apply resolved_map_sound
      intro _ id hid
      exact ⟨q.cols, by simp, hinf q hq id hid⟩
    | err =>
      simp only [Sound]
      exact resolved_map_sound _ _ _ (fun e => by cases e)

theorem Inv.of_same {p R} {s s' : Svc} (h1 : s'.plan = s.plan) (h2 : s'.cols = s.cols) (h3 : s'.pending = s.pending)
    (h4 : s'.inflight = s.inflight) (hI : Inv p R s) : Inv p R s' := by
  obtain ⟨hplan, hcols, hinf⟩ := hI
  exact ⟨h1 ▸ hplan, by rw [h2, h3]; exact hcols, by rw [h4]; exact hinf⟩

theorem step_sound {p R} (hp : planOK p = true) (s : Svc) (op : Op) (hI : Inv p R s) (hW : WellFormed R op)
    (bs : List Columns) : Inv p R (step s op).1 ∧ Sound p R bs (step s op).2 := by
  unfold step
  by_cases hcr : s.crashed = true
  · simp only [hcr, if_true]; exact ⟨hI, trivial⟩
  simp only [hcr, if_false]
  cases op with
  | request r => exact stepRequest_sound hp s r hI hW bs
  | trigger k => exact ⟨Inv.of_same rfl rfl rfl rfl hI, trivial⟩
  | connect ok =>
    show Inv p R (stepConnect s ok).1 ∧ Sound p R bs (stepConnect s ok).2
    unfold stepConnect
    by_cases h : (s.running && s.flushPlanned && !s.client && s.inflight.isNone) = true
    · simp only [h, if_true]; exact ⟨Inv.of_same rfl rfl rfl rfl hI, trivial⟩
    · simp only [h]; exact ⟨hI, trivial⟩
  | swap => exact ⟨(stepSwap_inv s hI).1, (stepSwap_inv s hI).2 bs⟩
  | doResult o => exact stepDoResult_sound s o hI bs
  | ping ok =>
    show Inv p R (stepPing s ok).1 ∧ Sound p R bs (stepPing s ok).2
    unfold stepPing
    by_cases h : (s.running && s.client && s.inflight.isNone && !ok) = true
    · simp only [h, if_true]; exact ⟨Inv.of_same rfl rfl rfl rfl hI, trivial⟩
    · simp only [h]; exact ⟨hI, trivial⟩
  | stop =>
    show Inv p R (stepStop s).1 ∧ Sound p R bs (stepStop s).2
    unfold stepStop
    by_cases h : s.inflight.isNone = true
    · simp only [h, if_true]; exact ⟨Inv.of_same rfl rfl rfl rfl hI, trivial⟩
    · simp only [h]; exact ⟨hI, trivial⟩

theorem run_sound {p R} (hp : planOK p = true) (ops : List Op) (s : Svc) (hI : Inv p R s)
    (hW : ∀ op ∈ ops, WellFormed R op) (bs : List Columns) :
    Inv p R (run s ops).1 ∧ Sound p R bs (run s ops).2 := by
  induction ops generalizing s bs with
  | nil => exact ⟨hI, trivial⟩
  | cons op ops ih =>
    simp only [run]
    have hs := step_sound hp s op hI (hW op (by simp)) bs
    have hr := ih _ hs.1 (fun o ho => hW o (by simp [ho])) ((okBlocks (step s op).2).reverse ++ bs)
    exact ⟨hr.1, Sound.append _ _ _ hs.2 hr.2⟩

/-! ### the multi-service machine -/

def MInv (p : Plan) (R : ReqId → Req) (m : Multi) : Prop := ∀ s ∈ m.subs, Inv p R s

theorem multi_init_inv {p R} (mq n : Nat) : MInv p R (Multi.init p mq n) := by
  intro s hs
  simp only [Multi.init, List.mem_replicate] at hs
  rw [hs.2]; exact init_inv mq

theorem stepAt_sound {p R} (hp : planOK p = true) (subs : List Svc) (i : Nat) (op : Op)
    (hI : ∀ s ∈ subs, Inv p R s) (hW : WellFormed R op) (bs : List Columns) :
    (∀ s ∈ (stepAt subs i op).1, Inv p R s) ∧ Sound p R bs (stepAt subs i op).2 := by
  unfold stepAt
  cases hs : subs[i]? with
  | none => exact ⟨hI, trivial⟩
  | some s =>
    have hmem : s ∈ subs := List.mem_of_getElem? hs
    have h := step_sound hp s op (hI s hmem) hW bs
    refine ⟨?_, h.2⟩
    intro s' hs'
    rcases List.mem_or_eq_of_mem_set hs' with h1 | h1
    · exact hI s' h1
    · rw [h1]; exact h.1

theorem multi_step_sound {p R} (hp : planOK p = true) (m : Multi) (op : SysOp) (hI : MInv p R m)
    (hW : SysWellFormed R op) (bs : List Columns) :
    MInv p R (m.step op).1 ∧ Sound p R bs (m.step op).2 := by
  cases op with
  | request mode pick r =>
    simp only [Multi.step]
    cases (candidates m.subs (m.range mode).1 (m.range mode).2)[pick]? with
    | none => exact ⟨hI, trivial⟩
    | some i => exact stepAt_sound hp m.subs i (.request r) hI hW bs
  | sub i op =>
    cases op with
    | request r => exact ⟨hI, trivial⟩
    | trigger k => exact stepAt_sound hp m.subs i (.trigger k) hI trivial bs
    | connect ok => exact stepAt_sound hp m.subs i (.connect ok) hI trivial bs
    | swap => exact stepAt_sound hp m.subs i .swap hI trivial bs
    | doResult o => exact stepAt_sound hp m.subs i (.doResult o) hI trivial bs
    | ping ok => exact stepAt_sound hp m.subs i (.ping ok) hI trivial bs
    | stop => exact stepAt_sound hp m.subs i .stop hI trivial bs
  | planFlush =>
    simp only [Multi.step]
    refine ⟨?_, trivial⟩
    intro s hs
    simp only [List.mem_map] at hs
    obtain ⟨s0, hs0, rfl⟩ := hs
    exact (step_sound hp s0 (.trigger .forced) (hI s0 hs0) trivial []).1

theorem multi_run_sound {p R} (hp : planOK p = true) (ops : List SysOp) (m : Multi) (hI : MInv p R m)
    (hW : ∀ op ∈ ops, SysWellFormed R op) (bs : List Columns) :
    MInv p R (m.run ops).1 ∧ Sound p R bs (m.run ops).2 := by
  induction ops generalizing m bs with
  | nil => exact ⟨hI, trivial⟩
  | cons op ops ih =>
    simp only [Multi.run]
    have hs := multi_step_sound hp m op hI (hW op (by simp)) bs
    have hr := ih _ hs.1 (fun o ho => hW o (by simp [ho])) ((okBlocks (m.step op).2).reverse ++ bs)
    exact ⟨hr.1, Sound.append _ _ _ hs.2 hr.2⟩

end Qryn.Ingest.Batcher
