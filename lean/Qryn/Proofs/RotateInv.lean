import Qryn.Proofs.Rotate
/-! The invariant "a recorded value is carried by every table of its group", the frame of a run, convergence. -/
namespace Qryn.Ctrl.Rotate
open Qryn

/-- well-formed group list: no group twice, one settings row per group, groups of the same kind own disjoint tables -/
def WF (defs : List GroupDef) : Prop :=
  defs.Nodup ∧
  (∀ g ∈ defs, ∀ g' ∈ defs, g.fp = g'.fp → g = g') ∧
  (∀ g ∈ defs, ∀ g' ∈ defs, g ≠ g' → g.kind = g'.kind → ∀ t ∈ g.tables, t ∉ g'.tables)

instance (defs : List GroupDef) : Decidable (WF defs) := by unfold WF; exact inferInstance

/-- a recorded (non-empty) value of a group is the TTL / storage policy of every table of the group -/
def Inv (defs : List GroupDef) (s : St) : Prop :=
  ∀ g ∈ defs, s.marker g.fp ≠ [] → ∀ t ∈ g.tables, attr g.kind s t = s.marker g.fp

/-- every acting group has its desired value recorded -/
def Converged (defs : List GroupDef) (c : Cfg) (s : St) : Prop :=
  ∀ g ∈ defs, active c g = true → s.marker g.fp = desired c g

/-- between the dropped record and the final write of group `g` (started from `s0`) -/
structure Mid (g : GroupDef) (s0 s : St) : Prop where
  marker_g : s.marker g.fp = []
  marker_other : ∀ fp, fp ≠ g.fp → s.marker fp = s0.marker fp
  attr_other : ∀ k t, (k ≠ g.kind ∨ t ∉ g.tables) → attr k s t = attr k s0 t

/-- after the final write of group `g` -/
structure Done (c : Cfg) (g : GroupDef) (s0 s : St) : Prop where
  marker_g : s.marker g.fp = desired c g
  marker_other : ∀ fp, fp ≠ g.fp → s.marker fp = s0.marker fp
  attr_g : ∀ t ∈ g.tables, attr g.kind s t = desired c g
  attr_other : ∀ k t, (k ≠ g.kind ∨ t ∉ g.tables) → attr k s t = attr k s0 t

theorem attr_apply_put (k : Kind) (fp : Nat) (tp nm v : Bytes) (s : St) (t : Bytes) :
    attr k (apply (.put fp tp nm v) s) t = attr k s t := by
  cases k <;> rfl

theorem mid_putEmpty (g : GroupDef) (s : St) : Mid g s (apply (putEmpty g) s) := by
  refine ⟨?_, ?_, ?_⟩
  · simp [putEmpty, apply]
  · intro fp h; simp [putEmpty, apply, h]
  · intro k t _; exact attr_apply_put ..

theorem mem_alters {c : Cfg} {g : GroupDef} {x : Stmt} (h : x ∈ alters c g) :
    ∃ t ∈ g.tables, x ∈ alterOne c g t := by
  simpa [alters, List.mem_flatMap] using h

theorem alters_isAlter {c : Cfg} {g : GroupDef} {x : Stmt} (h : x ∈ alters c g) : x.isAlter = true := by
  obtain ⟨t, _, hx⟩ := mem_alters h
  unfold alterOne at hx
  cases hk : g.kind <;> simp only [hk] at hx <;> simp at hx
  · subst hx; rfl
  · rcases hx with hx | hx <;> subst hx <;> rfl

/-- an ALTER of group `g` changes nothing but the `g.kind` attribute of one table of `g` -/
theorem alter_frame {c : Cfg} {g : GroupDef} {x : Stmt} (h : x ∈ alters c g) (s : St) :
    (apply x s).marker = s.marker ∧ ∀ k t, (k ≠ g.kind ∨ t ∉ g.tables) → attr k (apply x s) t = attr k s t := by
  obtain ⟨t0, ht0, hx⟩ := mem_alters h
  unfold alterOne at hx
  cases hk : g.kind <;> simp only [hk] at hx <;> simp at hx
  · subst hx
    refine ⟨rfl, ?_⟩
    intro k t hkt
    cases k
    · have : t ≠ t0 := by
        rcases hkt with hkt | hkt
        · exact absurd rfl hkt
        · intro e; subst e; exact hkt ht0
      simp [apply, attr, this]
    · rfl
  · rcases hx with hx | hx <;> subst hx
    · exact ⟨rfl, fun _ _ _ => rfl⟩
    · refine ⟨rfl, ?_⟩
      intro k t hkt
      cases k
      · rfl
      · have : t ≠ t0 := by
          rcases hkt with hkt | hkt
          · exact absurd rfl hkt
          · intro e; subst e; exact hkt ht0
        simp [apply, attr, this]

theorem mid_alter {c : Cfg} {g : GroupDef} {s0 : St} {x : Stmt} (h : x ∈ alters c g) (s : St) (hm : Mid g s0 s) :
    Mid g s0 (apply x s) := by
  obtain ⟨hmk, hfr⟩ := alter_frame h s
  refine ⟨?_, ?_, ?_⟩
  · rw [hmk]; exact hm.marker_g
  · intro fp hfp; rw [hmk]; exact hm.marker_other fp hfp
  · intro k t hkt; rw [hfr k t hkt]; exact hm.attr_other k t hkt

/-- the `g.kind` attribute of table `t` is the desired value: kept by every ALTER of the group -/
theorem alter_keeps_desired {c : Cfg} {g : GroupDef} {x : Stmt} (h : x ∈ alters c g) (t : Bytes) (s : St)
    (hs : attr g.kind s t = desired c g) : attr g.kind (apply x s) t = desired c g := by
  obtain ⟨t0, _, hx⟩ := mem_alters h
  unfold alterOne at hx
  cases hk : g.kind <;> simp only [hk] at hx hs ⊢ <;> simp at hx
  · subst hx
    by_cases e : t = t0
    · simp [apply, attr, e]
    · simpa [apply, attr, e] using hs
  · rcases hx with hx | hx <;> subst hx
    · exact hs
    · by_cases e : t = t0
      · simp [apply, attr, e]
      · simpa [apply, attr, e] using hs

theorem alterOne_sets (c : Cfg) (g : GroupDef) (t : Bytes) (s : St) :
    attr g.kind (applyAll (alterOne c g t) s) t = desired c g := by
  unfold alterOne
  cases hk : g.kind <;> simp [applyAll, apply, attr]

theorem alterOne_sub {c : Cfg} {g : GroupDef} {t : Bytes} (ht : t ∈ g.tables) : ∀ x ∈ alterOne c g t, x ∈ alters c g := by
  intro x hx
  simp only [alters, List.mem_flatMap]
  exact ⟨t, ht, hx⟩

/-- after all ALTERs of a group every one of its tables carries the desired value -/
theorem alters_set_all (c : Cfg) (g : GroupDef) (s : St) :
    ∀ t ∈ g.tables, attr g.kind (applyAll (alters c g) s) t = desired c g := by
  -- generalise over a sublist of the tables
  suffices H : ∀ (ts : List Bytes), (∀ t ∈ ts, t ∈ g.tables) → ∀ s, ∀ t ∈ ts,
      attr g.kind (applyAll (ts.flatMap (alterOne c g)) s) t = desired c g from
    fun t ht => H g.tables (fun _ h => h) s t ht
  intro ts
  induction ts with
  | nil => intro _ _ t ht; cases ht
  | cons t0 ts ih =>
    intro hsub s t ht
    rw [List.flatMap_cons, applyAll_append]
    have hsub' : ∀ t ∈ ts, t ∈ g.tables := fun t h => hsub t (List.mem_cons_of_mem _ h)
    rcases List.mem_cons.mp ht with e | hmem
    · subst e
      refine applyAll_preserves (fun s => attr g.kind s t = desired c g) _ ?_ _ (alterOne_sets c g t s)
      intro x hx s' hs'
      have : x ∈ alters c g := by
        simp only [List.mem_flatMap] at hx
        obtain ⟨t1, ht1, hx1⟩ := hx
        exact alterOne_sub (hsub' t1 ht1) x hx1
      exact alter_keeps_desired this t s' hs'
    · exact ih hsub' _ t hmem

/-! ## one group -/

/-- what a run of one group can leave behind -/
inductive GroupResult (c : Cfg) (g : GroupDef) (s0 : St) : St → Bool → Prop
  | untouched (ok : Bool) (hskip : ok = true → active c g = false ∨ s0.marker g.fp = desired c g) :
      GroupResult c g s0 s0 ok
  | mid (s : St) (hact : active c g = true) (hm : Mid g s0 s) : GroupResult c g s0 s false
  | done (s : St) (ok : Bool) (hact : active c g = true) (hd : Done c g s0 s) : GroupResult c g s0 s ok

theorem read_st (f : Option Fault) (c : Cfg) (g : GroupDef) (x : Ctx) : (issue f (readStmt c g) x).1.st = x.st := by
  rcases issue_st f (readStmt c g) x with e | e
  · exact e
  · rw [e]; rfl

theorem runGroup_result (f : Option Fault) (c : Cfg) (g : GroupDef) (x : Ctx) :
    GroupResult c g x.st (runGroup f c g x).1.st (runGroup f c g x).2 := by
  unfold runGroup
  have hrd := read_st f c g x
  rcases h1 : issue f (readStmt c g) x with ⟨x1, ok1⟩
  rw [h1] at hrd; simp only at hrd
  cases ok1 with
  | false => simp only []; rw [hrd]; exact .untouched false (by simp)
  | true =>
    simp only []
    split
    · rename_i hskip
      simp only []; rw [hrd]; exact .untouched true (fun _ => hskip)
    · rename_i hact
      have hact' : active c g = true := by
        cases ha : active c g
        · exact absurd (Or.inl ha) hact
        · rfl
      -- the plan: drop the record, alter, record
      unfold plan
      rw [execPlan_cons]
      have hpe := issue_st f (putEmpty g) x1
      by_cases hok2 : (issue f (putEmpty g) x1).2 = true
      · simp only [hok2, if_true]
        have hst2 : (issue f (putEmpty g) x1).1.st = apply (putEmpty g) x.st := by rw [issue_ok hok2, hrd]
        have hmid2 : Mid g x.st (issue f (putEmpty g) x1).1.st := by rw [hst2]; exact mid_putEmpty g x.st
        rw [execPlan_append]
        have hmid3 : Mid g x.st (execPlan f (alters c g) (issue f (putEmpty g) x1).1).1.st :=
          execPlan_preserves (Mid g x.st) f (alters c g) (fun y hy s hs => mid_alter hy s hs) _ hmid2
        by_cases hok3 : (execPlan f (alters c g) (issue f (putEmpty g) x1).1).2 = true
        · simp only [hok3, if_true]
          have hst3 := (execPlan_ok hok3).1
          have hall : ∀ t ∈ g.tables, attr g.kind (execPlan f (alters c g) (issue f (putEmpty g) x1).1).1.st t = desired c g := by
            rw [hst3]; exact alters_set_all c g _
          generalize (execPlan f (alters c g) (issue f (putEmpty g) x1).1).1 = x3 at hmid3 hall ⊢
          rw [execPlan_cons, execPlan_nil]
          have hdone : Done c g x.st (apply (putWant c g) x3.st) := by
            refine ⟨?_, ?_, ?_, ?_⟩
            · simp [putWant, apply]
            · intro fp hfp; simp only [putWant, apply, hfp, if_false]; exact hmid3.marker_other fp hfp
            · intro t ht; rw [putWant, attr_apply_put]; exact hall t ht
            · intro k t hkt; rw [putWant, attr_apply_put]; exact hmid3.attr_other k t hkt
          by_cases hok4 : (issue f (putWant c g) x3).2 = true
          · simp only [hok4, if_true]
            rw [issue_ok hok4]; exact .done _ true hact' hdone
          · simp only [hok4, Bool.false_eq_true, if_false]
            rcases issue_st f (putWant c g) x3 with e | e
            · rw [e]; exact .mid _ hact' hmid3
            · rw [e]; exact .done _ false hact' hdone
        · simp only [hok3, Bool.false_eq_true, if_false]
          exact .mid _ hact' hmid3
      · simp only [hok2, Bool.false_eq_true, if_false]
        rcases hpe with e | e
        · rw [e, hrd]; exact .untouched false (by simp)
        · rw [e, hrd]; exact .mid _ hact' (mid_putEmpty g x.st)

/-- without a fault no statement reports an error -/
theorem runGroup_none_ok (c : Cfg) (g : GroupDef) (x : Ctx) : (runGroup none c g x).2 = true := by
  unfold runGroup
  rw [issue_none]
  simp only []
  split
  · rfl
  · rw [execPlan_none]

/-! ## consequences for one group -/

theorem GroupResult.frame {c : Cfg} {g : GroupDef} {s0 s : St} {ok : Bool} (h : GroupResult c g s0 s ok) :
    (∀ fp, fp ≠ g.fp → s.marker fp = s0.marker fp) ∧
    (∀ k t, (k ≠ g.kind ∨ t ∉ g.tables) → attr k s t = attr k s0 t) ∧
    (active c g = false → s = s0) := by
  cases h with
  | untouched ok _ => exact ⟨fun _ _ => rfl, fun _ _ _ => rfl, fun _ => rfl⟩
  | mid _ hact hm => exact ⟨hm.marker_other, hm.attr_other, fun h => by rw [hact] at h; cases h⟩
  | done _ _ hact hd => exact ⟨hd.marker_other, hd.attr_other, fun h => by rw [hact] at h; cases h⟩

theorem GroupResult.inv {defs : List GroupDef} (hwf : WF defs) {c : Cfg} {g : GroupDef} (hg : g ∈ defs)
    {s0 s : St} {ok : Bool} (h : GroupResult c g s0 s ok) (hinv : Inv defs s0) : Inv defs s := by
  obtain ⟨_, hfp, hdisj⟩ := hwf
  -- groups other than g keep their record and their tables
  have other : ∀ g' ∈ defs, g'.fp ≠ g.fp → s.marker g'.fp = s0.marker g'.fp →
      (∀ k t, (k ≠ g.kind ∨ t ∉ g.tables) → attr k s t = attr k s0 t) →
      s.marker g'.fp ≠ [] → ∀ t ∈ g'.tables, attr g'.kind s t = s.marker g'.fp := by
    intro g' hg' hne hmk hat hne0 t ht
    have hgg : g' ≠ g := fun e => hne (by rw [e])
    rw [hmk] at hne0 ⊢
    have : g'.kind ≠ g.kind ∨ t ∉ g.tables := by
      by_cases hk : g'.kind = g.kind
      · right; exact hdisj g' hg' g hg hgg hk t ht
      · left; exact hk
    rw [hat _ _ this]
    exact hinv g' hg' hne0 t ht
  cases h with
  | untouched ok _ => exact hinv
  | mid _ hact hm =>
    intro g' hg' hne0 t ht
    by_cases hfe : g'.fp = g.fp
    · rw [hfe, hm.marker_g] at hne0; exact absurd rfl hne0
    · exact other g' hg' hfe (hm.marker_other _ hfe) hm.attr_other hne0 t ht
  | done _ _ hact hd =>
    intro g' hg' hne0 t ht
    by_cases hfe : g'.fp = g.fp
    · have : g' = g := hfp g' hg' g hg hfe
      subst this
      rw [hd.marker_g]; exact hd.attr_g t ht
    · exact other g' hg' hfe (hd.marker_other _ hfe) hd.attr_other hne0 t ht

/-- a group that reported success while acting has its value recorded and on all its tables -/
theorem GroupResult.converged {defs : List GroupDef} {c : Cfg} {g : GroupDef} (hg : g ∈ defs)
    {s0 s : St} (h : GroupResult c g s0 s true) (hinv : Inv defs s0) (hact : active c g = true) :
    s.marker g.fp = desired c g ∧ ∀ t ∈ g.tables, attr g.kind s t = desired c g := by
  cases h with
  | untouched _ hskip =>
    rcases hskip rfl with h | h
    · rw [hact] at h; cases h
    · refine ⟨h, ?_⟩
      intro t ht
      have := hinv g hg (by rw [h]; exact desired_ne_nil hact) t ht
      rw [this, h]
  | done _ _ _ hd => exact ⟨hd.marker_g, hd.attr_g⟩

end Qryn.Ctrl.Rotate
