import Qryn.Read.SepEnc
import Qryn.Proofs.Json
/-! Refinement of the guarded-separator state machine (`Qryn.SepEnc`) to the reference rendering
`intercalate "," items`, for every input batching and every flush policy. Core-only. -/
namespace Qryn.SepEnc
open Qryn Qryn.Json

/-- what a guarded-separator loop whose counter stands at `i` appends for `items`: a comma before every item
    except the one with global index 0 -/
def seps : Nat → List Bytes → Bytes
  | _, [] => []
  | i, t :: r => (if i ≠ 0 then [44] else []) ++ t ++ seps (i + 1) r

theorem seps_append (i : Nat) (a b : List Bytes) : seps i (a ++ b) = seps i a ++ seps (i + a.length) b := by
  induction a generalizing i with
  | nil => simp [seps]
  | cons t r ih =>
    simp only [List.cons_append, seps, ih, List.length_cons, List.append_assoc]
    rw [show i + 1 + r.length = i + (r.length + 1) by omega]

theorem seps_pos (i : Nat) (h : i ≠ 0) (items : List Bytes) : seps i items = items.flatMap (fun t => 44 :: t) := by
  induction items generalizing i with
  | nil => rfl
  | cons t r ih => simp [seps, h, ih (i + 1) (by omega)]

/-- with the counter at 0 the loop writes the reference rendering -/
theorem seps_zero (items : List Bytes) : seps 0 items = joinTexts items := by
  cases items with
  | nil => rfl
  | cons t r =>
    simp only [seps, ne_eq, not_true_eq_false, if_false, List.nil_append]
    rw [seps_pos 1 (by omega)]
    induction r generalizing t with
    | nil => simp [joinTexts_single]
    | cons u r ih => rw [joinTexts_cons2, ← ih u]; simp

/-- the reference rendering of a JSON array -/
def refArr (items : List Bytes) : Bytes := 91 :: joinTexts items ++ [93]

/-! ### one step, one batch, all batches -/
theorem step_spec (pol : Policy) (st : St) (t : Bytes) :
    (step pol st t).2.flatten ++ (step pol st t).1.buf = st.buf ++ seps st.idx [t] ∧
    (step pol st t).1.idx = st.idx + 1 := by
  unfold step
  cases pol (st.idx + 1) (st.fill + 1) <;> simp [seps]

theorem runBatch_spec (pol : Policy) (st : St) (b : List Bytes) :
    (runBatch pol st b).2.flatten ++ (runBatch pol st b).1.buf = st.buf ++ seps st.idx b ∧
    (runBatch pol st b).1.idx = st.idx + b.length := by
  induction b generalizing st with
  | nil => simp [runBatch, seps]
  | cons t r ih =>
    have hs := step_spec pol st t
    have hr := ih (step pol st t).1
    simp only [runBatch, List.flatten_append, List.append_assoc]
    refine ⟨?_, ?_⟩
    · rw [hr.1, ← List.append_assoc, hs.1, hs.2, List.append_assoc]
      rw [show (t :: r) = [t] ++ r from rfl, seps_append]
      simp
    · rw [hr.2, hs.2]; simp; omega

theorem finish_flatten (st : St) : (finish st).flatten = st.buf := by
  unfold finish
  split <;> simp [*]

theorem runBatches_flatten (pol : Policy) (st : St) (bs : List (List Bytes)) :
    (runBatches pol st bs).flatten = st.buf ++ seps st.idx bs.flatten := by
  induction bs generalizing st with
  | nil => simp [runBatches, finish_flatten, seps]
  | cons b r ih =>
    have hb := runBatch_spec pol st b
    simp only [runBatches, List.flatten_append, List.flatten_cons]
    rw [ih, ← List.append_assoc, hb.1, hb.2, seps_append, List.append_assoc]

/-- **THE generic lemma.** A guarded-separator encoder whose guard reads the global item counter — over any item
    list, delivered in any input batching, sent through a chunk buffer flushed by ANY policy (which may read both
    counters) — writes, in concatenation, the opening piece, `intercalate "," items`, the closing piece. -/
theorem encode_flatten (pre post : Bytes) (pol : Policy) (batches : List (List Bytes)) :
    (encode pre post pol batches).flatten = pre ++ joinTexts batches.flatten ++ post := by
  simp [encode, runBatches_flatten, St.init, seps_zero]

/-- with `[` and `]` as the pieces: the reference rendering of the array -/
theorem encode_refArr (pol : Policy) (batches : List (List Bytes)) :
    (encode [91] [93] pol batches).flatten = refArr batches.flatten := by
  simp [encode_flatten, refArr]

/-- **The separator decision depends only on the global index**: two runs that agree on `idx` and on the buffered
    bytes produce the same concatenation whatever their fill counters and flush policies are. -/
theorem fill_irrelevant (pol pol' : Policy) (st st' : St) (hi : st.idx = st'.idx) (hb : st.buf = st'.buf)
    (bs : List (List Bytes)) : (runBatches pol st bs).flatten = (runBatches pol' st' bs).flatten := by
  rw [runBatches_flatten, runBatches_flatten, hi, hb]

/-- input batching is irrelevant: any two batchings of the same items give the same concatenation -/
theorem batching_irrelevant (pre post : Bytes) (pol pol' : Policy) (bs bs' : List (List Bytes))
    (h : bs.flatten = bs'.flatten) : (encode pre post pol bs).flatten = (encode pre post pol' bs').flatten := by
  rw [encode_flatten, encode_flatten, h]

/-- every chunk a size-`n` policy sends before the end holds exactly `n` items' worth of fill: the flush decision
    reads `fill`, which restarts at 0, while `idx` keeps counting (stated on the state: after a flush `fill = 0` and
    `idx` is unchanged by the flush) -/
theorem step_flush_keeps_idx (pol : Policy) (st : St) (t : Bytes) (h : pol (st.idx + 1) (st.fill + 1) = true) :
    (step pol st t).1 = ⟨st.idx + 1, 0, []⟩ := by
  simp [step, h]

/-! ### the shared-counter variant -/
theorem sharedRun_cons (size i : Nat) (buf t : Bytes) (r : List Bytes) :
    sharedRun size i buf (t :: r) =
      if i + 1 ≥ size then (buf ++ (if i ≠ 0 then [44] else []) ++ t) :: sharedRun size 0 [] r
      else sharedRun size (i + 1) (buf ++ (if i ≠ 0 then [44] else []) ++ t) r := by
  simp [sharedRun]

theorem sharedRun_upto (size : Nat) (i : Nat) (buf : Bytes) (items : List Bytes) (h : i + items.length ≤ size) :
    (sharedRun size i buf items).flatten = buf ++ seps i items := by
  induction items generalizing i buf with
  | nil => unfold sharedRun; split <;> simp [seps, *]
  | cons t r ih =>
    simp only [List.length_cons] at h
    rw [sharedRun_cons]
    split
    · -- flush: then nothing is left
      have hr : r = [] := by
        cases r with
        | nil => rfl
        | cons _ _ => simp at h; omega
      subst hr
      simp [sharedRun, seps]
    · rw [ih (i + 1) _ (by omega)]
      simp [seps]

/-- the shared-counter writer is right as long as the list fits into ONE chunk … -/
theorem shared_ok_upto (pre post : Bytes) (size : Nat) (items : List Bytes) (h : items.length ≤ size) :
    (sharedEncode pre post size items).flatten = pre ++ joinTexts items ++ post := by
  simp [sharedEncode, sharedRun_upto size 0 [] items (by omega), seps_zero]

/-- … which is why it takes MORE than `size` rows to see the defect: after the first flush the counter is 0 again and
    the next item is taken for the first of the list -/
theorem shared_second_chunk_no_comma (size : Nat) (hs : 0 < size) (a : List Bytes) (ha : a.length = size) (t : Bytes)
    (r : List Bytes) : ∃ c cs, sharedRun size 0 [] (a ++ t :: r) = c :: cs ∧ c = joinTexts a ∧
      cs = sharedRun size 0 [] (t :: r) := by
  -- generalise over the position inside the first chunk
  have key : ∀ (a : List Bytes) (i : Nat) (buf : Bytes), i + a.length = size → 0 < a.length →
      sharedRun size i buf (a ++ t :: r) = (buf ++ seps i a) :: sharedRun size 0 [] (t :: r) := by
    intro a
    induction a with
    | nil => intro i buf _ h0; simp at h0
    | cons x a ih =>
      intro i buf hi _
      simp only [List.length_cons] at hi
      rw [List.cons_append, sharedRun_cons]
      cases a with
      | nil =>
        simp only [List.length_nil] at hi
        simp only [List.nil_append, seps, List.append_nil, List.append_assoc]
        rw [if_pos (by omega)]
      | cons y a' =>
        simp only [List.length_cons] at hi
        rw [if_neg (by omega), ih (i + 1) _ (by simp; omega) (by simp)]
        simp [seps]
  refine ⟨_, _, key a 0 [] (by omega) (by omega), ?_, rfl⟩
  simp [seps_zero]

end Qryn.SepEnc
