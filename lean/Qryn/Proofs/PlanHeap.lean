import Qryn.Sql.PlanHeap
/-! C14: frame and simulation for the heap of column lists (`Sql/PlanHeap.lean`).

    A disciplined translation run in a heap that earlier translations have filled (`st`, fresh cells from `b` on) and the
    same translation run in the pristine heap (`st'`, fresh cells from `b'` on) stay related: package-level cells
    (addresses `< n0`) hold what they held at process start on both sides, fresh cells correspond one to one by the
    relocation `reloc`, registers and plan objects hold corresponding slices, the outputs are equal. -/
namespace Qryn.PlanHeap
variable {α : Type}

/-- address in the pristine run of an address of the run-in-sequence: package-level addresses stay, fresh ones shift -/
def reloc (b b' a : Nat) : Nat := if a < b then a else a - b + b'
def relocS (b b' : Nat) (s : Slice) : Slice := ⟨reloc b b' s.ref, s.len⟩

structure Rel (n0 b b' : Nat) (C : Nat → Cell α) (t : Reg → Bool) (st st' : St α) : Prop where
  hb : n0 ≤ b
  hb' : n0 ≤ b'
  hnext : b ≤ st.heap.next
  hnext' : st'.heap.next + b = st.heap.next + b'
  old : ∀ a, a < n0 → st.heap.cell a = C a
  cells : ∀ a, (a < n0 ∨ b ≤ a) → a < st.heap.next → st'.heap.cell (reloc b b' a) = st.heap.cell a
  regs : ∀ r, st'.regs r = (st.regs r).map (relocS b b')
  regsOk : ∀ r s, st.regs r = some s → (t r = true → s.ref < n0) ∧ (t r = false → b ≤ s.ref ∧ s.ref < st.heap.next)
  plans : ∀ p, st'.plans p = (st.plans p).map (relocS b b')
  plansOk : ∀ p s, st.plans p = some s → b ≤ s.ref ∧ s.ref < st.heap.next
  out : st'.out = st.out

namespace Rel
variable {n0 b b' : Nat} {C : Nat → Cell α} {t : Reg → Bool} {st st' : St α}

/-- the slice in a register points at a cell both runs agree on -/
theorem regValid (R : Rel n0 b b' C t st st') {r : Reg} {s : Slice} (h : st.regs r = some s) :
    (s.ref < n0 ∨ b ≤ s.ref) ∧ s.ref < st.heap.next := by
  have h1 := R.hb; have h2 := R.hnext
  obtain ⟨ht, hf⟩ := R.regsOk r s h
  cases htr : t r with
  | true => have := ht htr; exact ⟨Or.inl this, by omega⟩
  | false => have := hf htr; exact ⟨Or.inr this.1, this.2⟩

theorem regCell (R : Rel n0 b b' C t st st') {r : Reg} {s : Slice} (h : st.regs r = some s) :
    st'.heap.cell (reloc b b' s.ref) = st.heap.cell s.ref :=
  R.cells _ (R.regValid h).1 (R.regValid h).2

theorem planCell (R : Rel n0 b b' C t st st') {p : PlanId} {s : Slice} (h : st.plans p = some s) :
    st'.heap.cell (reloc b b' s.ref) = st.heap.cell s.ref :=
  R.cells _ (Or.inr (R.plansOk p s h).1) (R.plansOk p s h).2

theorem relocNext (R : Rel n0 b b' C t st st') : reloc b b' st.heap.next = st'.heap.next := by
  have h1 := R.hnext; have h2 := R.hnext'
  unfold reloc
  split <;> omega

/-- a new array at the allocation pointer of both runs -/
theorem withAlloc (R : Rel n0 b b' C t st st') (c : Cell α) :
    Rel n0 b b' C t { st with heap := st.heap.alloc c } { st' with heap := st'.heap.alloc c } where
  hb := R.hb
  hb' := R.hb'
  hnext := by have := R.hnext; simp only [Heap.alloc]; omega
  hnext' := by have := R.hnext'; simp only [Heap.alloc]; omega
  old := by
    intro a ha
    have h1 := R.hb; have h2 := R.hnext
    simp only [Heap.alloc]
    rw [upd_other _ _ _ _ (by omega)]
    exact R.old a ha
  cells := by
    intro a hv ha
    have h1 := R.hb; have h2 := R.hnext; have h3 := R.hnext'; have h4 := R.hb'
    simp only [Heap.alloc] at ha ⊢
    by_cases hEq : a = st.heap.next
    · subst hEq
      rw [R.relocNext, upd_same, upd_same]
    · have hlt : a < st.heap.next := by omega
      have hne : reloc b b' a ≠ st'.heap.next := by
        unfold reloc
        split <;> omega
      rw [upd_other _ _ _ _ hne, upd_other _ _ _ _ hEq]
      exact R.cells a hv hlt
  regs := R.regs
  regsOk := by
    intro r s h
    obtain ⟨ht, hf⟩ := R.regsOk r s h
    refine ⟨ht, fun h' => ?_⟩
    have := hf h'
    simp only [Heap.alloc]
    omega
  plans := R.plans
  plansOk := by
    intro p s h
    have := R.plansOk p s h
    simp only [Heap.alloc]
    omega
  out := R.out

/-- overwrite a FRESH array (allocated by the running translation) in both runs -/
theorem withPut (R : Rel n0 b b' C t st st') (a : Nat) (ha : b ≤ a ∧ a < st.heap.next) (c : Cell α) :
    Rel n0 b b' C t { st with heap := st.heap.put a c } { st' with heap := st'.heap.put (reloc b b' a) c } where
  hb := R.hb
  hb' := R.hb'
  hnext := R.hnext
  hnext' := R.hnext'
  old := by
    intro x hx
    have h1 := R.hb
    simp only [Heap.put]
    rw [upd_other _ _ _ _ (by omega)]
    exact R.old x hx
  cells := by
    intro x hv hx
    have h1 := R.hb; have h4 := R.hb'
    simp only [Heap.put] at hx ⊢
    by_cases hEq : x = a
    · subst hEq
      rw [upd_same, upd_same]
    · have hne : reloc b b' x ≠ reloc b b' a := by
        unfold reloc
        split <;> split <;> omega
      rw [upd_other _ _ _ _ hne, upd_other _ _ _ _ hEq]
      exact R.cells x hv hx
  regs := R.regs
  regsOk := R.regsOk
  plans := R.plans
  plansOk := R.plansOk
  out := R.out

/-- bind a register in both runs -/
theorem withReg (R : Rel n0 b b' C t st st') (dst : Reg) (o : Option Slice) (tv : Bool)
    (ho : ∀ s, o = some s → (tv = true → s.ref < n0) ∧ (tv = false → b ≤ s.ref ∧ s.ref < st.heap.next)) :
    Rel n0 b b' C (upd t dst tv) { st with regs := upd st.regs dst o } { st' with regs := upd st'.regs dst (o.map (relocS b b')) } where
  hb := R.hb
  hb' := R.hb'
  hnext := R.hnext
  hnext' := R.hnext'
  old := R.old
  cells := R.cells
  regs := by
    intro r
    by_cases h : r = dst
    · subst h; simp
    · simp only [upd_other _ _ _ _ h]; exact R.regs r
  regsOk := by
    intro r s h
    by_cases hr : r = dst
    · subst hr
      simp only [upd_same] at h ⊢
      exact ho s h
    · simp only [upd_other _ _ _ _ hr] at h ⊢
      exact R.regsOk r s h
  plans := R.plans
  plansOk := R.plansOk
  out := R.out

/-- `p.Select(s...)` with a list of the running translation (or nil) -/
theorem withPlan (R : Rel n0 b b' C t st st') (p : PlanId) (o : Option Slice)
    (ho : ∀ s, o = some s → b ≤ s.ref ∧ s.ref < st.heap.next) :
    Rel n0 b b' C t { st with plans := upd st.plans p o } { st' with plans := upd st'.plans p (o.map (relocS b b')) } where
  hb := R.hb
  hb' := R.hb'
  hnext := R.hnext
  hnext' := R.hnext'
  old := R.old
  cells := R.cells
  regs := R.regs
  regsOk := R.regsOk
  plans := by
    intro q
    by_cases h : q = p
    · subst h; simp
    · simp only [upd_other _ _ _ _ h]; exact R.plans q
  plansOk := by
    intro q s' h
    by_cases hq : q = p
    · subst hq
      simp only [upd_same] at h
      exact ho s' h
    · simp only [upd_other _ _ _ _ hq] at h
      exact R.plansOk q s' h
  out := R.out

theorem withOut (R : Rel n0 b b' C t st st') (x : List α) :
    Rel n0 b b' C t { st with out := st.out ++ [x] } { st' with out := st'.out ++ [x] } where
  hb := R.hb
  hb' := R.hb'
  hnext := R.hnext
  hnext' := R.hnext'
  old := R.old
  cells := R.cells
  regs := R.regs
  regsOk := R.regsOk
  plans := R.plans
  plansOk := R.plansOk
  out := by simp [R.out]

end Rel

/-- one instruction the discipline admits keeps the two runs related -/
theorem exec_rel (G : List Slice) {n0 b b' : Nat} {C : Nat → Cell α} {t : Reg → Bool} {st st' : St α}
    (hG : ∀ s ∈ G, s.ref < n0) (R : Rel n0 b b' C t st st') (i : Instr α) (hok : (i.ok t).1 = true) :
    Rel n0 b b' C (i.ok t).2 (exec G st i) (exec G st' i) := by
  have hb := R.hb
  cases i with
  | lit dst xs spare =>
    have R1 := R.withAlloc ⟨xs, xs.length + spare⟩
    have R2 := R1.withReg dst (some ⟨st.heap.next, xs.length⟩) false (by
      intro s hs; cases hs
      refine ⟨fun h => Bool.noConfusion h, fun _ => ?_⟩
      have := R.hnext
      simp only [Heap.alloc]; omega)
    simpa [exec, Instr.ok, relocS, R.relocNext] using R2
  | pkg dst g =>
    have hmap : (G[g]?).map (relocS b b') = G[g]? := by
      cases hg : G[g]? with
      | none => rfl
      | some s =>
        have : s.ref < n0 := hG s (List.mem_of_getElem? hg)
        simp only [Option.map_some, relocS, reloc]
        rw [if_pos (by omega)]
    have R2 := R.withReg dst G[g]? true (by
      intro s hs
      exact ⟨fun _ => hG s (List.mem_of_getElem? hs), fun h => Bool.noConfusion h⟩)
    rw [hmap] at R2
    simpa [exec, Instr.ok] using R2
  | store p src =>
    simp only [Instr.ok, Bool.not_eq_eq_eq_not, Bool.not_true] at hok
    have hr := R.regs src
    have R2 := R.withPlan p (st.regs src) (fun s hs => (R.regsOk src s hs).2 hok)
    rw [← hr] at R2
    simpa [exec, Instr.ok] using R2
  | load dst p =>
    have hp := R.plans p
    have R2 := R.withReg dst (st.plans p) false (by
      intro s hs
      exact ⟨fun h => Bool.noConfusion h, fun _ => R.plansOk p s hs⟩)
    rw [← hp] at R2
    simpa [exec, Instr.ok] using R2
  | setAt r i v =>
    simp only [Instr.ok, Bool.not_eq_eq_eq_not, Bool.not_true] at hok
    have hr := R.regs r
    cases hs : st.regs r with
    | none =>
      rw [hs] at hr
      simpa [exec, Instr.ok, hs, hr] using R
    | some s =>
      rw [hs] at hr
      have hc := R.regCell hs
      by_cases hi : i < s.len
      · have := R.withPut s.ref ((R.regsOk r s hs).2 hok) ⟨(st.heap.cell s.ref).data.set i v, (st.heap.cell s.ref).cap⟩
        simpa [exec, Instr.ok, hs, hr, hi, relocS, hc] using this
      · simpa [exec, Instr.ok, hs, hr, hi, relocS] using R
  | mapAt r f =>
    simp only [Instr.ok, Bool.not_eq_eq_eq_not, Bool.not_true] at hok
    have hr := R.regs r
    cases hs : st.regs r with
    | none =>
      rw [hs] at hr
      simpa [exec, Instr.ok, hs, hr] using R
    | some s =>
      rw [hs] at hr
      have hc := R.regCell hs
      have := R.withPut s.ref ((R.regsOk r s hs).2 hok) ⟨mapPrefix f s.len (st.heap.cell s.ref).data, (st.heap.cell s.ref).cap⟩
      simpa [exec, Instr.ok, hs, hr, relocS, hc] using this
  | append dst src v spare =>
    simp only [Instr.ok, Bool.not_eq_eq_eq_not, Bool.not_true] at hok
    have hr := R.regs src
    cases hs : st.regs src with
    | none =>
      rw [hs] at hr
      have R1 := R.withAlloc ⟨[v], 1 + spare⟩
      have R2 := R1.withReg dst (some ⟨st.heap.next, 1⟩) false (by
        intro s' hs'; cases hs'
        refine ⟨fun h => Bool.noConfusion h, fun _ => ?_⟩
        have := R.hnext
        simp only [Heap.alloc]; omega)
      simpa [exec, Instr.ok, hs, hr, relocS, R.relocNext] using R2
    | some s =>
      rw [hs] at hr
      have hc := R.regCell hs
      have hfresh := (R.regsOk src s hs).2 hok
      by_cases hcap : s.len < (st.heap.cell s.ref).cap
      · have R1 := R.withPut s.ref hfresh ⟨setOrPush (st.heap.cell s.ref).data s.len v, (st.heap.cell s.ref).cap⟩
        have R2 := R1.withReg dst (some ⟨s.ref, s.len + 1⟩) false (by
          intro s' hs'; cases hs'
          exact ⟨fun h => Bool.noConfusion h, fun _ => hfresh⟩)
        simpa [exec, Instr.ok, hs, hr, hcap, relocS, hc] using R2
      · have R1 := R.withAlloc ⟨st.heap.view s ++ [v], s.len + 1 + spare⟩
        have R2 := R1.withReg dst (some ⟨st.heap.next, s.len + 1⟩) false (by
          intro s' hs'; cases hs'
          refine ⟨fun h => Bool.noConfusion h, fun _ => ?_⟩
          have := R.hnext
          simp only [Heap.alloc]; omega)
        have hv : st'.heap.view (relocS b b' s) = st.heap.view s := by simp [Heap.view, relocS, hc]
        simpa [exec, Instr.ok, hs, hr, hcap, relocS, hc, R.relocNext, hv, Heap.view] using R2
  | copy dst src =>
    have hr := R.regs src
    cases hs : st.regs src with
    | none =>
      rw [hs] at hr
      have R2 := R.withReg dst none false (by intro s h; cases h)
      simpa [exec, Instr.ok, hs, hr] using R2
    | some s =>
      rw [hs] at hr
      have hc := R.regCell hs
      have R1 := R.withAlloc ⟨st.heap.view s, s.len⟩
      have R2 := R1.withReg dst (some ⟨st.heap.next, s.len⟩) false (by
        intro s' hs'; cases hs'
        refine ⟨fun h => Bool.noConfusion h, fun _ => ?_⟩
        have := R.hnext
        simp only [Heap.alloc]; omega)
      have hv : st'.heap.view (relocS b b' s) = st.heap.view s := by simp [Heap.view, relocS, hc]
      simpa [exec, Instr.ok, hs, hr, relocS, hc, R.relocNext, hv, Heap.view] using R2
  | emit p =>
    have hp := R.plans p
    cases hs : st.plans p with
    | none =>
      rw [hs] at hp
      have := R.withOut []
      simpa [exec, Instr.ok, hs, hp] using this
    | some s =>
      rw [hs] at hp
      have hc := R.planCell hs
      have hv : st'.heap.view (relocS b b' s) = st.heap.view s := by simp [Heap.view, relocS, hc]
      have := R.withOut (st.heap.view s)
      simpa [exec, Instr.ok, hs, hp, hv] using this

/-- a whole disciplined translation keeps the two runs related -/
theorem run_rel (G : List Slice) {n0 b b' : Nat} {C : Nat → Cell α} (hG : ∀ s ∈ G, s.ref < n0) :
    ∀ (p : Prog α) {t : Reg → Bool} {st st' : St α}, Rel n0 b b' C t st st' → p.disciplinedFrom t = true →
      ∃ t', Rel n0 b b' C t' (run G p st) (run G p st')
  | .done, t, _, _, R, _ => ⟨t, R⟩
  | .step i k, t, st, st', R, h => by
    simp only [Prog.disciplinedFrom, Bool.and_eq_true] at h
    exact run_rel G hG k (exec_rel G hG R i h.1) h.2
  | .branch r c a e, t, st, st', R, h => by
    simp only [Prog.disciplinedFrom, Bool.and_eq_true] at h
    have hr := R.regs r
    cases hs : st.regs r with
    | none =>
      rw [hs] at hr
      simp only [run, hs, hr, Option.map_none]
      exact run_rel G hG e R h.2
    | some s =>
      rw [hs] at hr
      have hc := R.regCell hs
      have hv : st'.heap.view (relocS b b' s) = st.heap.view s := by simp [Heap.view, relocS, hc]
      simp only [run, hs, hr, Option.map_some, hv]
      by_cases hcnd : c (st.heap.view s) = true
      · simp only [hcnd, if_true]
        exact run_rel G hG a R h.1
      · simp only [hcnd]
        exact run_rel G hG e R h.2

/-- **one translation.** In a heap `H` that extends the pristine heap `h0` with whatever earlier translations
    allocated, and in which the package-level arrays hold what they hold in `h0`, a disciplined translation renders
    exactly what it renders in `h0`, and leaves the package-level arrays as they are. -/
theorem translate_frame (G : List Slice) (h0 H : Heap α) (hG : ∀ s ∈ G, s.ref < h0.next) (hH : h0.next ≤ H.next)
    (hold : ∀ a, a < h0.next → H.cell a = h0.cell a) (p : Prog α) (hd : p.Disciplined) :
    (translate G H p).2 = (translate G h0 p).2 ∧ h0.next ≤ (translate G H p).1.next ∧
      ∀ a, a < h0.next → (translate G H p).1.cell a = h0.cell a := by
  have R0 : Rel h0.next H.next h0.next h0.cell (fun _ => false)
      (⟨H, fun _ => none, fun _ => none, []⟩ : St α) ⟨h0, fun _ => none, fun _ => none, []⟩ :=
    { hb := hH, hb' := Nat.le_refl _, hnext := Nat.le_refl _, hnext' := by simp only []; omega,
      old := hold,
      cells := by
        intro a hv ha
        simp only [] at ha
        have : a < h0.next := by omega
        simp only [reloc, if_pos ha]
        exact (hold a this).symm,
      regs := fun _ => rfl, regsOk := (by intro r s h; exact nomatch h),
      plans := fun _ => rfl, plansOk := (by intro r s h; exact nomatch h), out := rfl }
  obtain ⟨t', R⟩ := run_rel G hG p R0 hd
  refine ⟨R.out.symm, ?_, R.old⟩
  have := R.hnext
  simp only [translate]
  omega

/-- **every sequence of translations.** -/
theorem runSeq_frame (G : List Slice) (h0 : Heap α) (hG : ∀ s ∈ G, s.ref < h0.next) :
    ∀ (ps : List (Prog α)) (H : Heap α), h0.next ≤ H.next → (∀ a, a < h0.next → H.cell a = h0.cell a) →
      (∀ p ∈ ps, p.Disciplined) →
      runSeq G H ps = ps.map (fun p => (translate G h0 p).2) ∧
        ∀ a, a < h0.next → (heapAfter G H ps).cell a = h0.cell a
  | [], H, _, hold, _ => ⟨rfl, hold⟩
  | p :: ps, H, hH, hold, hd => by
    obtain ⟨ho, hn, hc⟩ := translate_frame G h0 H hG hH hold p (hd p (List.mem_cons_self ..))
    obtain ⟨ih1, ih2⟩ := runSeq_frame G h0 hG ps (translate G H p).1 hn hc (fun q hq => hd q (List.mem_cons_of_mem _ hq))
    exact ⟨by simp only [runSeq, List.map_cons, ho, ih1], ih2⟩

end Qryn.PlanHeap
