import Qryn.Sql.Ast
/-! C10: the bytes of the texts the planners print with `toString` / `Sprintf("%d")` / `Sprintf("%f")`.
    Bridge from `String` (`toUTF8.toList`) to byte lists: concatenation, `String.ofList` of ASCII characters,
    and the decimal digits of naturals and integers. -/
namespace Qryn.Sql
open Qryn

private theorem bsize (bs : ByteArray) : bs.data.toList.length = bs.size := by
  cases bs; rfl

private theorem loop_eq (bs : ByteArray) : ∀ (n i : Nat) (r : List UInt8), bs.size - i = n →
    ByteArray.toList.loop bs i r = r.reverse ++ bs.data.toList.drop i := by
  intro n
  induction n with
  | zero =>
    intro i r h
    rw [ByteArray.toList.loop]
    have : ¬ i < bs.size := by omega
    simp only [this, if_false]
    have : bs.data.toList.drop i = [] := by
      apply List.drop_eq_nil_of_le
      rw [bsize]; omega
    rw [this]; simp
  | succ n ih =>
    intro i r h
    rw [ByteArray.toList.loop]
    have hi : i < bs.size := by omega
    simp only [hi, if_true]
    rw [ih (i+1) _ (by omega)]
    have hlen : i < bs.data.toList.length := by rw [bsize]; exact hi
    rw [List.drop_eq_getElem_cons hlen]
    have : bs.get! i = bs.data.toList[i] := by
      cases bs with
      | mk d =>
        simp only [ByteArray.get!]
        have : i < d.size := by simpa using hlen
        simp [getElem!_pos, this]
    rw [this]; simp

/-- `ByteArray.toList` (a loop) is the list of the underlying array -/
theorem byteArray_toList (bs : ByteArray) : bs.toList = bs.data.toList := by
  simp [ByteArray.toList, loop_eq bs _ 0 [] rfl]

theorem b_append (s t : String) : b (s ++ t) = b s ++ b t := by
  simp [b, String.toUTF8, byteArray_toList, String.toByteArray_append, ByteArray.data_append]

theorem b_ofList (cs : List Char) : b (String.ofList cs) = cs.flatMap String.utf8EncodeChar := by
  simp [b, String.toUTF8, byteArray_toList, String.toByteArray_ofList, List.utf8Encode, List.data_toByteArray]

theorem b_empty : b "" = [] := by decide +kernel

/-- a decimal digit -/
def isDigitB (c : UInt8) : Bool := 48 ≤ c && c ≤ 57

theorem encode_digit (c : Char) (h : c.isDigit = true) : ∃ d : UInt8, String.utf8EncodeChar c = [d] ∧ isDigitB d = true := by
  have hv : c.val ≥ 48 ∧ c.val ≤ 57 := by simpa [Char.isDigit] using h
  have h1 : c.utf8Size = 1 := by
    rw [Char.utf8Size_eq_one_iff]
    have := hv.2
    exact Nat.le_trans (UInt32.le_iff_toNat_le.mp this) (by decide)
  refine ⟨c.val.toUInt8, String.utf8EncodeChar_eq_singleton h1, ?_⟩
  have h48 : (48 : UInt32).toNat ≤ c.val.toNat := UInt32.le_iff_toNat_le.mp hv.1
  have h57 : c.val.toNat ≤ (57 : UInt32).toNat := UInt32.le_iff_toNat_le.mp hv.2
  simp only [isDigitB, Bool.and_eq_true, decide_eq_true_eq]
  constructor
  · rw [UInt8.le_iff_toNat_le, UInt32.toNat_toUInt8]
    have : (48 : UInt32).toNat = 48 := rfl
    have : (48 : UInt8).toNat = 48 := rfl
    have : (57 : UInt32).toNat = 57 := rfl
    omega
  · rw [UInt8.le_iff_toNat_le, UInt32.toNat_toUInt8]
    have : (48 : UInt32).toNat = 48 := rfl
    have : (57 : UInt8).toNat = 57 := rfl
    have : (57 : UInt32).toNat = 57 := rfl
    omega

theorem flatMap_digits : ∀ cs : List Char, (∀ c ∈ cs, c.isDigit = true) →
    ∀ d ∈ cs.flatMap String.utf8EncodeChar, isDigitB d = true
  | [], _ => by simp
  | c :: cs, h => by
    obtain ⟨d0, he, hd0⟩ := encode_digit c (h c (by simp))
    intro d hd
    simp only [List.flatMap_cons, he, List.mem_append, List.mem_singleton] at hd
    rcases hd with rfl | hd
    · exact hd0
    · exact flatMap_digits cs (fun x hx => h x (by simp [hx])) d hd

/-- **the decimal text of a natural number consists of digits** -/
theorem natDigits_digits (n : Nat) : ∀ d ∈ natDigits n, isDigitB d = true := by
  have : natDigits n = (Nat.toDigits 10 n).flatMap String.utf8EncodeChar := by
    show b (toString n) = _
    show b (Nat.repr n) = _
    simp [Nat.repr, b_ofList]
  rw [this]
  exact flatMap_digits _ (fun c hc => Nat.isDigit_of_mem_toDigits (by decide) (by decide) hc)

theorem natDigits_ne_nil (n : Nat) : natDigits n ≠ [] := by
  have : natDigits n = (Nat.toDigits 10 n).flatMap String.utf8EncodeChar := by
    show b (Nat.repr n) = _
    simp [Nat.repr, b_ofList]
  rw [this]
  have hne : Nat.toDigits 10 n ≠ [] := by
    intro h
    have := congrArg List.length h
    have hpos := Nat.length_toDigits_pos (b := 10) (n := n)
    rw [this] at hpos
    simp at hpos
  cases hd : Nat.toDigits 10 n with
  | nil => exact absurd hd hne
  | cons c cs =>
    obtain ⟨d0, he, _⟩ := encode_digit c (Nat.isDigit_of_mem_toDigits (b := 10) (n := n) (by decide) (by decide) (by rw [hd]; simp))
    simp [he]

/-- the text of an integer: the digits of its absolute value, after `-` when negative -/
theorem intText_eq (i : Int) : intText i = if i < 0 then 45 :: natDigits i.natAbs else natDigits i.natAbs := by
  cases i with
  | ofNat m =>
    have : ¬ (Int.ofNat m < 0) := by simp
    simp only [this, if_false]
    rfl
  | negSucc m =>
    have : Int.negSucc m < 0 := Int.negSucc_lt_zero m
    simp only [this, if_true]
    show b (Int.repr (Int.negSucc m)) = _
    simp only [Int.repr, b_append]
    have : b "-" = [45] := by decide +kernel
    rw [this]
    rfl

end Qryn.Sql
