import Qryn.Proofs.PprofValues
/-! Every reference of a merged pprof profile resolves: location ids of samples, mapping ids and function ids of
    locations, every string index — for ALL lists of payloads `Merge` accepts. -/
namespace Qryn.Prof.Pprof
open Qryn.Prof

def StrOK (n : Nat) (i : Int) : Prop := 0 ≤ i ∧ i < (n : Int)
def IdOK (n : Nat) (x : Nat) : Prop := 1 ≤ x ∧ x ≤ n

theorem StrOK.mono {n n' : Nat} {i : Int} (h : StrOK n i) (hn : n ≤ n') : StrOK n' i := ⟨h.1, by have := h.2; omega⟩
theorem IdOK.mono {n n' x : Nat} (h : IdOK n x) (hn : n ≤ n') : IdOK n' x := ⟨h.1, by have := h.2; omega⟩

/-! ### `RewriteTableV2.Get` -/

section Intern
variable {α κ : Type} [DecidableEq κ] (key : α → κ) (mk : α → Nat → α)

theorem intern_spec (tab : List α) (x : α) :
    (∃ ext, (intern key mk tab x).1 = tab ++ ext ∧ ∀ e ∈ ext, ∃ n, e = mk x n)
      ∧ 1 ≤ (intern key mk tab x).2 ∧ (intern key mk tab x).2 ≤ (intern key mk tab x).1.length := by
  unfold intern
  cases h : tab.findIdx? (fun a => decide (key a = key x)) with
  | some i =>
    have := (List.findIdx?_eq_some_iff_getElem.mp h).1
    exact ⟨⟨[], by simp, by simp⟩, by simp, by simp; omega⟩
  | none =>
    exact ⟨⟨[mk x (tab.length + 1)], rfl, by intro e he; simp at he; exact ⟨_, he⟩⟩, by simp, by simp⟩

theorem internAll_spec : ∀ (xs tab : List α),
    (∃ ext, (internAll key mk tab xs).1 = tab ++ ext ∧ ∀ e ∈ ext, ∃ x ∈ xs, ∃ n, e = mk x n)
      ∧ (internAll key mk tab xs).2.length = xs.length
      ∧ ∀ i ∈ (internAll key mk tab xs).2, 1 ≤ i ∧ i ≤ (internAll key mk tab xs).1.length := by
  intro xs
  induction xs with
  | nil => intro tab; exact ⟨⟨[], by simp [internAll], by simp⟩, rfl, by simp [internAll]⟩
  | cons x xs ih =>
    intro tab
    obtain ⟨⟨e1, h1, g1⟩, a1, b1⟩ := intern_spec key mk tab x
    obtain ⟨⟨e2, h2, g2⟩, a2, b2⟩ := ih (intern key mk tab x).1
    simp only [internAll]
    refine ⟨⟨e1 ++ e2, by rw [h2, h1, List.append_assoc], ?_⟩, by simp [a2], ?_⟩
    · intro e he
      rcases List.mem_append.mp he with he | he
      · obtain ⟨n, hn⟩ := g1 e he; exact ⟨x, by simp, n, hn⟩
      · obtain ⟨y, hy, n, hn⟩ := g2 e he; exact ⟨y, by simp [hy], n, hn⟩
    · intro i hi
      rcases List.mem_cons.mp hi with rfl | hi
      · refine ⟨a1, ?_⟩
        rw [h2, List.length_append]
        omega
      · exact b2 i hi
end Intern

theorem ix_ok (idxs : List Nat) (n : Nat) (hn : 1 ≤ n) (h : ∀ i ∈ idxs, 1 ≤ i ∧ i ≤ n) (x : Int) :
    StrOK n (ix (idxs.map (· - 1)) x) := by
  unfold ix StrOK
  simp only [List.getD_eq_getElem?_getD, List.getElem?_map]
  cases hk : idxs[x.toNat]? with
  | none => simp; omega
  | some i =>
    have := h i (List.mem_of_getElem? hk)
    simp only [Option.map_some, Option.getD_some]
    omega

theorem idAt_ok (idx : List Nat) (n : Nat) (h : ∀ i ∈ idx, IdOK n i) (id : Nat) (hid : IdOK idx.length id) :
    IdOK n (idAt idx id) := by
  unfold idAt
  have h1 := hid.1
  have h2 := hid.2
  rw [if_neg (by omega)]
  have hlt : id - 1 < idx.length := by omega
  rw [List.getD_eq_getElem?_getD, List.getElem?_eq_getElem hlt]
  exact h _ (List.getElem_mem hlt)

/-! ### `sanitizeProfile` leaves only references that resolve -/

section Renumber
variable {α : Type} (getId : α → Nat) (setId : α → Nat → α)

theorem renumber_spec : ∀ (xs : List α) (j : Nat) (t : IdMap),
    (renumber getId setId xs j t).1.length = xs.length
      ∧ (∀ y ∈ (renumber getId setId xs j t).1, ∃ x ∈ xs, ∃ j', y = setId x j')
      ∧ (∀ k, (renumber getId setId xs j t).2.get k = t.get k
            ∨ (j ≤ (renumber getId setId xs j t).2.get k ∧ (renumber getId setId xs j t).2.get k < j + xs.length)) := by
  intro xs
  induction xs with
  | nil => intro j t; simp [renumber]
  | cons x xs ih =>
    intro j t
    obtain ⟨i1, i2, i3⟩ := ih (j + 1) (t.set (getId x) j)
    simp only [renumber]
    refine ⟨by simp [i1], ?_, ?_⟩
    · intro y hy
      rcases List.mem_cons.mp hy with rfl | hy
      · exact ⟨x, by simp, j, rfl⟩
      · obtain ⟨x', hx', j', e⟩ := i2 y hy
        exact ⟨x', by simp [hx'], j', e⟩
    · intro k
      rcases i3 k with h | h
      · rw [h]
        unfold IdMap.set IdMap.get
        simp only [List.find?_cons]
        by_cases e : getId x = k
        · have hb : (getId x == k) = true := by simpa using e
          simp only [hb]
          right; simp only [List.length_cons]; omega
        · have hb : (getId x == k) = false := by simpa using e
          simp only [hb]
          left; trivial
      · right; simp only [List.length_cons]; omega
end Renumber

theorem locPass1_spec (t : IdMap) (synth : Nat) : ∀ (ls : List PLocation),
    ∀ y ∈ (locPass1 t synth ls).1, ∃ x ∈ ls, y.lines = x.lines
      ∧ ((y.mapping = synth ∧ (locPass1 t synth ls).2 = true) ∨ (y.mapping = t.get x.mapping ∧ t.get x.mapping ≠ 0)) := by
  intro ls
  induction ls with
  | nil => intro y hy; simp [locPass1] at hy
  | cons x ls ih =>
    intro y hy
    simp only [locPass1] at hy ⊢
    split at hy
    · rcases List.mem_cons.mp hy with rfl | hy
      · exact ⟨x, by simp, rfl, Or.inl ⟨rfl, by simp [*]⟩⟩
      · obtain ⟨x', hx', hl, hor⟩ := ih y hy
        refine ⟨x', by simp [hx'], hl, ?_⟩
        rcases hor with h | h
        · exact Or.inl ⟨h.1, by simp [*]⟩
        · exact Or.inr h
    · split at hy
      · obtain ⟨x', hx', hl, hor⟩ := ih y hy
        refine ⟨x', by simp [hx'], hl, ?_⟩
        rcases hor with h | h
        · exact Or.inl ⟨h.1, by simp [*]⟩
        · exact Or.inr h
      · rename_i h0 hne
        rcases List.mem_cons.mp hy with rfl | hy
        · exact ⟨x, by simp, rfl, Or.inr ⟨rfl, hne⟩⟩
        · obtain ⟨x', hx', hl, hor⟩ := ih y hy
          refine ⟨x', by simp [hx'], hl, ?_⟩
          rcases hor with h | h
          · exact Or.inl ⟨h.1, by simp [*]⟩
          · exact Or.inr h

theorem locPass2_spec (t : IdMap) (ls : List PLocation) :
    ∀ y ∈ locPass2 t ls, ∃ x ∈ ls, y.mapping = x.mapping ∧ ∀ ln ∈ y.lines, ∃ l0 ∈ x.lines, ln.fn = t.get l0.fn ∧ t.get l0.fn ≠ 0 := by
  intro y hy
  unfold locPass2 at hy
  obtain ⟨x, hx, e⟩ := List.mem_filterMap.mp hy
  split at e
  · cases e
  · rename_i hany
    cases e
    refine ⟨x, hx, rfl, ?_⟩
    intro ln hln
    simp only [List.mem_map] at hln
    obtain ⟨l0, hl0, rfl⟩ := hln
    refine ⟨l0, hl0, rfl, ?_⟩
    intro e0
    apply hany
    simp only [List.any_eq_true, beq_iff_eq]
    exact ⟨l0, hl0, e0⟩

theorem sanStrings_length (p : PProfile) : 1 ≤ (sanStrings p).length := by
  unfold sanStrings swap0
  simp only [List.length_set]
  unfold sanStrings0
  split
  · rename_i h
    cases hf : p.strings.findIdx? (· == "") with
    | none => rw [hf] at h; simp at h
    | some i =>
      have := (List.findIdx?_eq_some_iff_getElem.mp hf).1
      omega
  · simp

theorem get_renumber_ok {α : Type} (getId : α → Nat) (setId : α → Nat → α) (xs : List α) (k : Nat)
    (h : (renumber getId setId xs 1 []).2.get k ≠ 0) : IdOK xs.length ((renumber getId setId xs 1 []).2.get k) := by
  rcases (renumber_spec getId setId xs 1 []).2.2 k with h' | h'
  · rw [h'] at h; exact absurd rfl h
  · exact ⟨h'.1, by omega⟩

/-- S1: after `sanitizeProfile` every location names a mapping and functions of the profile -/
theorem sanitize_locations_ok (p : PProfile) :
    ∀ l ∈ (sanitize p).locations, IdOK (sanitize p).mappings.length l.mapping
      ∧ ∀ ln ∈ l.lines, IdOK (sanitize p).functions.length ln.fn := by
  intro l hl
  have hl' : l ∈ (sanLoc p).1 := hl
  unfold sanLoc at hl'
  obtain ⟨y, hy, j', rfl⟩ := (renumber_spec _ _ _ 1 []).2.1 l hl'
  obtain ⟨x, hx, hmap, hlines⟩ := locPass2_spec _ _ y hy
  obtain ⟨x0, _, _, hor⟩ := locPass1_spec _ _ _ x hx
  have hmlen : (sanMap p).1.length = p.mappings.length := by
    unfold sanMap; rw [(renumber_spec _ _ _ 1 []).1]; simp
  have hflen : (sanFun p).1.length = p.functions.length := by
    unfold sanFun; rw [(renumber_spec _ _ _ 1 []).1]; simp
  constructor
  · show IdOK (sanMappings p).length y.mapping
    rw [hmap]
    unfold sanMappings
    rcases hor with ⟨h1, h2⟩ | ⟨h1, h2⟩
    · have h2' : (sanLoc1 p).2 = true := h2
      rw [if_pos h2', h1]
      simp [IdOK]
    · rw [h1]
      have := get_renumber_ok _ _ _ x0.mapping (by unfold sanMap at h2; exact h2)
      have hh : IdOK (sanMap p).1.length ((sanMap p).2.get x0.mapping) := by
        rw [hmlen]; unfold sanMap; simpa using this
      split
      · exact hh.mono (by simp)
      · exact hh
  · intro ln hln
    show IdOK (sanFun p).1.length ln.fn
    obtain ⟨l0, _, e, hne⟩ := hlines ln hln
    rw [e, hflen]
    have := get_renumber_ok _ _ _ l0.fn (by unfold sanFun at hne; exact hne)
    unfold sanFun; simpa using this

/-- S2: … and every sample names locations of the profile -/
theorem sanitize_samples_ok (p : PProfile) :
    ∀ s ∈ (sanitize p).samples, ∀ x ∈ s.locs, IdOK (sanitize p).locations.length x := by
  intro s hs x hx
  have hs' : s ∈ sanSamples p := hs
  unfold sanSamples at hs'
  obtain ⟨s0, _, e⟩ := List.mem_filterMap.mp hs'
  unfold sanSample at e
  split at e
  · cases e
  · split at e
    · cases e
    · rename_i hany
      cases e
      simp only [List.mem_map] at hx
      obtain ⟨x0, hx0, rfl⟩ := hx
      have hne : (sanLoc p).2.get x0 ≠ 0 := by
        intro e0
        apply hany
        simp only [List.any_eq_true, beq_iff_eq]
        exact ⟨x0, hx0, e0⟩
      show IdOK (sanLoc p).1.length _
      have hlen : (sanLoc p).1.length = (locPass2 (sanFun p).2 (sanLoc1 p).1).length := by
        unfold sanLoc; exact (renumber_spec _ _ _ 1 []).1
      rw [hlen]
      exact get_renumber_ok _ _ _ x0 (by unfold sanLoc at hne; exact hne)

/-! ### the merged state -/

def VTOK (n : Nat) (v : VT) : Prop := StrOK n v.type ∧ StrOK n v.unit

structure RefsOK (st : MState) : Prop where
  fns : ∀ f ∈ st.functions, StrOK st.strings.length f.name ∧ StrOK st.strings.length f.sysName ∧ StrOK st.strings.length f.filename
  maps : ∀ m ∈ st.mappings, StrOK st.strings.length m.filename ∧ StrOK st.strings.length m.buildId
  locs : ∀ l ∈ st.locations, IdOK st.mappings.length l.mapping ∧ ∀ ln ∈ l.lines, IdOK st.functions.length ln.fn
  samples : ∀ s ∈ st.samples, (∀ x ∈ s.locs, IdOK st.locations.length x)
      ∧ ∀ lb ∈ s.labels, StrOK st.strings.length lb.key ∧ StrOK st.strings.length lb.str ∧ StrOK st.strings.length lb.numUnit
  header : ∀ h, st.header = some h → VTOK st.strings.length h.periodType ∧ (∀ v ∈ h.sampleTypes, VTOK st.strings.length v)
      ∧ StrOK st.strings.length h.dropFrames ∧ StrOK st.strings.length h.keepFrames ∧ StrOK st.strings.length h.defaultSampleType

theorem strOK_ite {n : Nat} {c : Prop} [Decidable c] {a b : Int} (ha : StrOK n a) (hb : StrOK n b) :
    StrOK n (if c then a else b) := by
  split <;> assumption

theorem refsOK_empty : RefsOK MState.empty := by
  refine ⟨?_, ?_, ?_, ?_, ?_⟩ <;> simp [MState.empty]

/-- entries of the sample table keep the stack and the labels they were created with -/
theorem foldl_upsertSample_mem : ∀ (ss tab : List PSample), ∀ a ∈ ss.foldl upsertSample tab,
    (∃ a0 ∈ tab, a.locs = a0.locs ∧ a.labels = a0.labels) ∨ (∃ s ∈ ss, a.locs = s.locs ∧ a.labels = s.labels) := by
  intro ss
  induction ss with
  | nil => intro tab a ha; exact Or.inl ⟨a, ha, rfl, rfl⟩
  | cons s ss ih =>
    intro tab a ha
    simp only [List.foldl_cons] at ha
    rcases ih (upsertSample tab s) a ha with ⟨a0, ha0, h1, h2⟩ | ⟨s', hs', h⟩
    · rw [upsertSample_def] at ha0
      unfold upsertBy at ha0
      split at ha0
      · obtain ⟨b, hb, rfl⟩ := List.mem_map.mp ha0
        refine Or.inl ⟨b, hb, ?_, ?_⟩
        · rw [h1]; split <;> rfl
        · rw [h2]; split <;> rfl
      · rcases List.mem_append.mp ha0 with hb | hb
        · exact Or.inl ⟨a0, hb, h1, h2⟩
        · simp only [List.mem_singleton] at hb
          subst hb
          exact Or.inr ⟨s, by simp, h1, h2⟩
    · exact Or.inr ⟨s', by simp [hs'], h⟩

theorem mergeSanitized_refs (st st' : MState) (p : PProfile) (hinv : RefsOK st)
    (hstr : 1 ≤ p.strings.length)
    (hloc : ∀ l ∈ p.locations, IdOK p.mappings.length l.mapping ∧ ∀ ln ∈ l.lines, IdOK p.functions.length ln.fn)
    (hsam : ∀ s ∈ p.samples, ∀ x ∈ s.locs, IdOK p.locations.length x)
    (hok : mergeSanitized st p = .ok st') : RefsOK st' := by
  unfold mergeSanitized at hok
  simp only [] at hok
  split at hok
  · cases hok
  · rename_i pt0 _
    split at hok
    · cases hok
    · cases hok
      -- strings
      obtain ⟨⟨sext, hs1, _⟩, hs2, hs3⟩ := internAll_spec (fun (s : String) => s) (fun s _ => s) p.strings st.strings
      have hSlen : st.strings.length ≤ (stepStrings st.strings p).1.length := by
        show _ ≤ (internAll _ _ st.strings p.strings).1.length
        rw [hs1]; simp
      have hSpos : 1 ≤ (stepStrings st.strings p).1.length := by
        show 1 ≤ (internAll _ _ st.strings p.strings).1.length
        have hne : (internAll (fun (s : String) => s) (fun s _ => s) st.strings p.strings).2 ≠ [] := by
          intro e
          have h0 : (internAll (fun (s : String) => s) (fun s _ => s) st.strings p.strings).2.length = 0 := by rw [e]; rfl
          rw [hs2] at h0
          omega
        obtain ⟨g1, g2⟩ := hs3 _ (List.head_mem hne)
        exact Nat.le_trans g1 g2
      have sxok : ∀ x, StrOK (stepStrings st.strings p).1.length ((stepStrings st.strings p).2 x) := by
        intro x
        exact ix_ok _ _ hSpos hs3 x
      -- functions
      obtain ⟨⟨fext, hf1, hf1'⟩, hf2, hf3⟩ := internAll_spec funKey (fun (f : PFunction) i => { f with id := i })
        (p.functions.map (rewriteFunction (stepStrings st.strings p).2)) st.functions
      have hFlen : st.functions.length ≤ (stepFunctions (stepStrings st.strings p).2 st.functions p).1.length := by
        show _ ≤ (internAll _ _ _ _).1.length
        rw [hf1]; simp
      -- mappings
      obtain ⟨⟨mext, hm1, hm1'⟩, hm2, hm3⟩ := internAll_spec mapKey (fun (m : PMapping) i => { m with id := i })
        (p.mappings.map (rewriteMapping (stepStrings st.strings p).2)) st.mappings
      have hMlen : st.mappings.length ≤ (stepMappings (stepStrings st.strings p).2 st.mappings p).1.length := by
        show _ ≤ (internAll _ _ _ _).1.length
        rw [hm1]; simp
      -- locations
      obtain ⟨⟨lext, hl1, hl1'⟩, hl2, hl3⟩ := internAll_spec locKey (fun (l : PLocation) i => { l with id := i })
        (p.locations.map (rewriteLocation (stepFunctions (stepStrings st.strings p).2 st.functions p).2
          (stepMappings (stepStrings st.strings p).2 st.mappings p).2)) st.locations
      have hLlen : st.locations.length ≤ (stepLocations (stepFunctions (stepStrings st.strings p).2 st.functions p).2
          (stepMappings (stepStrings st.strings p).2 st.mappings p).2 st.locations p).1.length := by
        show _ ≤ (internAll _ _ _ _).1.length
        rw [hl1]; simp
      refine ⟨?_, ?_, ?_, ?_, ?_⟩
      · -- functions' strings
        intro f hf
        have hf' : f ∈ st.functions ++ fext := by rw [← hf1]; exact hf
        rcases List.mem_append.mp hf' with h | h
        · have := hinv.fns f h
          exact ⟨this.1.mono hSlen, this.2.1.mono hSlen, this.2.2.mono hSlen⟩
        · obtain ⟨x, hx, n, rfl⟩ := hf1' f h
          obtain ⟨f0, _, rfl⟩ := List.mem_map.mp hx
          exact ⟨sxok _, sxok _, sxok _⟩
      · intro m hm
        have hm' : m ∈ st.mappings ++ mext := by rw [← hm1]; exact hm
        rcases List.mem_append.mp hm' with h | h
        · have := hinv.maps m h
          exact ⟨this.1.mono hSlen, this.2.mono hSlen⟩
        · obtain ⟨x, hx, n, rfl⟩ := hm1' m h
          obtain ⟨m0, _, rfl⟩ := List.mem_map.mp hx
          exact ⟨sxok _, sxok _⟩
      · intro l hl
        have hl' : l ∈ st.locations ++ lext := by rw [← hl1]; exact hl
        rcases List.mem_append.mp hl' with h | h
        · have := hinv.locs l h
          exact ⟨this.1.mono hMlen, fun ln hln => (this.2 ln hln).mono hFlen⟩
        · obtain ⟨x, hx, n, rfl⟩ := hl1' l h
          obtain ⟨l0, hl0, rfl⟩ := List.mem_map.mp hx
          have h0 := hloc l0 hl0
          constructor
          · show IdOK _ (idAt _ l0.mapping)
            apply idAt_ok _ _ (fun i hi => hm3 i hi)
            show IdOK (internAll _ _ _ _).2.length _
            rw [hm2, List.length_map]; exact h0.1
          · intro ln hln
            simp only [rewriteLocation, List.mem_map] at hln
            obtain ⟨ln0, hln0, rfl⟩ := hln
            show IdOK _ (idAt _ ln0.fn)
            apply idAt_ok _ _ (fun i hi => hf3 i hi)
            show IdOK (internAll _ _ _ _).2.length _
            rw [hf2, List.length_map]; exact h0.2 ln0 hln0
      · intro s hs
        have hs' := foldl_upsertSample_mem _ _ s hs
        rcases hs' with ⟨a0, ha0, e1, e2⟩ | ⟨s1, hs1', e1, e2⟩
        · have := hinv.samples a0 ha0
          rw [e1, e2]
          exact ⟨fun x hx => (this.1 x hx).mono hLlen,
            fun lb hlb => ⟨(this.2 lb hlb).1.mono hSlen, (this.2 lb hlb).2.1.mono hSlen, (this.2 lb hlb).2.2.mono hSlen⟩⟩
        · obtain ⟨s0, hs0, rfl⟩ := List.mem_map.mp hs1'
          rw [e1, e2]
          constructor
          · intro x hx
            simp only [rewriteSample, List.mem_map] at hx
            obtain ⟨x0, hx0, rfl⟩ := hx
            apply idAt_ok _ _ (fun i hi => hl3 i hi)
            show IdOK (internAll _ _ _ _).2.length _
            rw [hl2, List.length_map]; exact hsam s0 hs0 x0 hx0
          · intro lb hlb
            simp only [rewriteSample, List.mem_map] at hlb
            obtain ⟨lb0, _, rfl⟩ := hlb
            exact ⟨sxok _, sxok _, sxok _⟩
      · intro h hh
        simp only [Option.some.injEq] at hh
        subst hh
        simp only [combineHeaders]
        cases hhd : st.header with
        | none =>
          refine ⟨⟨sxok _, sxok _⟩, ?_, sxok _, sxok _, strOK_ite (sxok _) (sxok _)⟩
          intro v hv
          obtain ⟨v0, _, rfl⟩ := List.mem_map.mp hv
          exact ⟨sxok _, sxok _⟩
        | some h0 =>
          have := hinv.header h0 hhd
          exact ⟨⟨this.1.1.mono hSlen, this.1.2.mono hSlen⟩, fun v hv => ⟨(this.2.1 v hv).1.mono hSlen, (this.2.1 v hv).2.mono hSlen⟩,
            this.2.2.1.mono hSlen, this.2.2.2.1.mono hSlen, strOK_ite (sxok _) (this.2.2.2.2.mono hSlen)⟩

theorem mergeOne_refs (st st' : MState) (p : PProfile) (hinv : RefsOK st) (hok : mergeOne st p = .ok st') : RefsOK st' := by
  unfold mergeOne at hok
  split at hok
  · cases hok; exact hinv
  · exact mergeSanitized_refs st st' (sanitize p) hinv (sanStrings_length p) (sanitize_locations_ok p) (sanitize_samples_ok p) hok

theorem mergeAll_refs : ∀ (Ps : List PProfile) (st st' : MState), RefsOK st → mergeAll st Ps = .ok st' → RefsOK st' := by
  intro Ps
  induction Ps with
  | nil => intro st st' h hok; simp only [mergeAll] at hok; cases hok; exact h
  | cons p Ps ih =>
    intro st st' h hok
    simp only [mergeAll] at hok
    split at hok
    · rename_i st1 h1
      exact ih st1 st' (mergeOne_refs st st1 p h h1) hok
    · cases hok

/-! ### `Profile()`: the references resolve to entries carrying those ids -/

theorem zipIdx_id_mem {α : Type} (l : List α) (setId : α → Nat → α) (getId : α → Nat)
    (hget : ∀ a n, getId (setId a n) = n) (x : Nat) (hx : IdOK l.length x) :
    ∃ e ∈ l.zipIdx.map (fun ai => setId ai.1 (ai.2 + 1)), getId e = x := by
  have h1 := hx.1
  have h2 := hx.2
  have hlt : x - 1 < l.length := by omega
  refine ⟨setId l[x - 1] x, ?_, hget _ _⟩
  apply List.mem_map.mpr
  refine ⟨(l[x - 1], x - 1), ?_, by simp; congr 1; omega⟩
  rw [List.mem_zipIdx_iff_getElem?]
  simp [List.getElem?_eq_getElem hlt]

/-- what a pprof consumer needs of a profile: every id and string index it contains points at something -/
structure Resolves (p : PProfile) : Prop where
  sample_locs : ∀ s ∈ p.samples, ∀ x ∈ s.locs, ∃ l ∈ p.locations, l.id = x
  sample_labels : ∀ s ∈ p.samples, ∀ lb ∈ s.labels,
      StrOK p.strings.length lb.key ∧ StrOK p.strings.length lb.str ∧ StrOK p.strings.length lb.numUnit
  loc_mapping : ∀ l ∈ p.locations, ∃ m ∈ p.mappings, m.id = l.mapping
  loc_functions : ∀ l ∈ p.locations, ∀ ln ∈ l.lines, ∃ f ∈ p.functions, f.id = ln.fn
  fn_strings : ∀ f ∈ p.functions, StrOK p.strings.length f.name ∧ StrOK p.strings.length f.sysName ∧ StrOK p.strings.length f.filename
  map_strings : ∀ m ∈ p.mappings, StrOK p.strings.length m.filename ∧ StrOK p.strings.length m.buildId
  header : ∀ pt, p.periodType = some pt → VTOK p.strings.length pt ∧ (∀ v ∈ p.sampleTypes, VTOK p.strings.length v)
      ∧ StrOK p.strings.length p.dropFrames ∧ StrOK p.strings.length p.keepFrames ∧ StrOK p.strings.length p.defaultSampleType

theorem result_resolves (st : MState) (h : RefsOK st) :
    Resolves (result st) := by
  unfold result
  cases hh : st.header with
  | none =>
    refine ⟨?_, ?_, ?_, ?_, ?_, ?_, ?_⟩ <;> simp
  | some hd =>
    simp only []
    have hH := h.header hd hh
    refine ⟨?_, ?_, ?_, ?_, ?_, ?_, ?_⟩
    · intro s hs x hx
      exact zipIdx_id_mem st.locations (fun (l : PLocation) n => { l with id := n }) (·.id) (fun _ _ => rfl) x ((h.samples s hs).1 x hx)
    · intro s hs lb hlb; exact (h.samples s hs).2 lb hlb
    · intro l hl
      obtain ⟨li, hli, rfl⟩ := List.mem_map.mp hl
      have hmem : li.1 ∈ st.locations := (List.mem_zipIdx_iff_getElem?.mp (by simpa using hli)) |> fun e => List.mem_of_getElem? e
      exact zipIdx_id_mem st.mappings (fun (m : PMapping) n => { m with id := n }) (·.id) (fun _ _ => rfl) _ (h.locs li.1 hmem).1
    · intro l hl ln hln
      obtain ⟨li, hli, rfl⟩ := List.mem_map.mp hl
      have hmem : li.1 ∈ st.locations := (List.mem_zipIdx_iff_getElem?.mp (by simpa using hli)) |> fun e => List.mem_of_getElem? e
      exact zipIdx_id_mem st.functions (fun (f : PFunction) n => { f with id := n }) (·.id) (fun _ _ => rfl) _ ((h.locs li.1 hmem).2 ln hln)
    · intro f hf
      obtain ⟨fi, hfi, rfl⟩ := List.mem_map.mp hf
      have hmem : fi.1 ∈ st.functions := (List.mem_zipIdx_iff_getElem?.mp (by simpa using hfi)) |> fun e => List.mem_of_getElem? e
      exact h.fns fi.1 hmem
    · intro m hm
      obtain ⟨mi, hmi, rfl⟩ := List.mem_map.mp hm
      have hmem : mi.1 ∈ st.mappings := (List.mem_zipIdx_iff_getElem?.mp (by simpa using hmi)) |> fun e => List.mem_of_getElem? e
      exact h.maps mi.1 hmem
    · intro pt hpt
      simp only [Option.some.injEq] at hpt
      subst hpt
      exact hH

end Qryn.Prof.Pprof
