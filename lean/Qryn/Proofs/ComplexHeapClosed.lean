import Qryn.TraceQL.ComplexHeap
/-! # `planComplex`: the pointer algorithm builds the closed-form tree, for every script

`ComplexHeap.planComplexH` mutates a heap of planner nodes through `root` / `current`; `TraceQL.planTree`
(`groupsS` / `andNest` / `orFold`) is the closed form. The proof goes through an intermediate, heap-free description of the
loop (`specH`): after the selectors seen so far the heap holds a tree WITH ONE HOLE — a chain of *frames* from the root down
to `current`, every frame a complex node that has its first operand (a finished tree) and waits for its second:

* at most one `||` frame at the top (prefix, everything planned before the last `||`), followed by
* the `&&` frames of the group being read (prefix, the selector's `simpleExpressionPlanner`).

`(s, &&)` pushes a frame below `current`; `(s, ||)` plugs the leaf into the hole, which finishes the whole tree, and makes that
tree the first operand of a new single `||` frame (`root.setOps`); a selector without operator plugs the leaf and stops.

* `specH_closed`  — the loop invariant read as a function is the closed form (`groupsS` / `andNest` / `orFold`), errors included;
* `heap_spec`     — the heap algorithm refines it: `HReads` is the loop invariant on the heap (frame lemmas `Reads_append`,
                    `Reads_modify`: a finished tree never contains a node with a single operand, so `addOp(current, …)`
                    cannot change it);
* `planShape_eq_closedShape` — both together, for EVERY script. -/
namespace Qryn.TraceQL.ComplexHeap
open Qryn.TraceQL

/-! ## the loop without the heap -/

/-- a complex node that has its first operand and waits for the second: `isAnd`, prefix, the finished first operand -/
abbrev Frame := Bool × Nat × XTree

/-- plug a tree into the hole below a chain of frames (outermost first) -/
def fill : List Frame → XTree → XTree
  | [], t => t
  | (a, p, l) :: fs, t => .complex a p l (fill fs t)

theorem fill_append (fs : List Frame) (a : Bool) (p : Nat) (l t : XTree) :
    fill (fs ++ [(a, p, l)]) t = fill fs (.complex a p l t) := by
  induction fs with
  | nil => rfl
  | cons g fs ih => obtain ⟨a', p', l'⟩ := g; simp [fill, ih]

/-- the loop of `planComplex` on (next prefix, frames): what the finished tree will be -/
def specH (k : Nat) (frames : List Frame) : Script → Option XTree
  | [] => none
  | (s, .none) :: rest => some (fill frames (.simple ((s, .none) :: rest) (k + 1)))
  | (s, .and) :: rest => specH (k + 2) (frames ++ [(true, k + 1, .simple ((s, .and) :: rest) (k + 2))]) rest
  | (s, .or) :: rest => specH (k + 2) [(false, k + 2, fill frames (.simple ((s, .or) :: rest) (k + 1)))] rest

/-- `orFold` with the pending frames of the first group made explicit -/
def orFoldF (k : Nat) (F : XTree → XTree) : List (List Script) → XTree
  | [] => .simple [] 0
  | g :: gs =>
    match gs with
    | [] => F (andNest k g).1
    | _ => orFold ((andNest k g).2 + 1) (some ((andNest k g).2 + 1, F (andNest k g).1)) gs

theorem orFold_eq_orFoldF (k : Nat) (left : Option (Nat × XTree)) (gs : List (List Script)) :
    orFold k left gs = orFoldF k (match left with | none => fun t => t | some (p, l) => fun t => .complex false p l t) gs := by
  cases gs with
  | nil => simp [orFold, orFoldF]
  | cons g gs =>
    cases gs <;> cases left <;> simp [orFold, orFoldF]

theorem orFoldF_or (k : Nat) (F : XTree → XTree) (sc : Script) (X : List Script) (gs' : List (List Script)) :
    orFoldF k F ([sc] :: X :: gs') = orFoldF (k + 2) (fill [(false, k + 2, F (.simple sc (k + 1)))]) (X :: gs') := by
  have hf : fill [(false, k + 2, F (.simple sc (k + 1)))] = fun t => .complex false (k + 2) (F (.simple sc (k + 1))) t :=
    funext fun _ => rfl
  show orFold (k + 1 + 1) (some (k + 1 + 1, F (.simple sc (k + 1)))) (X :: gs') = _
  rw [orFold_eq_orFoldF, hf]

/-- an accepted script has at least one group and its first group is not empty -/
theorem groupsS_shape (sc : Script) : ∀ gs, groupsS sc = .ok gs → ∃ g g' gs', gs = (g :: g') :: gs' := by
  induction sc with
  | nil => intro gs h; simp [groupsS, throw, throwThe, MonadExceptOf.throw] at h
  | cons x rest ih =>
    obtain ⟨s, op⟩ := x
    intro gs h
    cases op with
    | none =>
      simp [groupsS, pure, Except.pure] at h
      exact ⟨_, _, _, h.symm⟩
    | or =>
      simp only [groupsS, bind, Except.bind] at h
      cases hr : groupsS rest with
      | error e => rw [hr] at h; cases h
      | ok gs0 =>
        rw [hr] at h
        simp [pure, Except.pure] at h
        exact ⟨_, _, _, h.symm⟩
    | and =>
      simp only [groupsS, bind, Except.bind] at h
      cases hr : groupsS rest with
      | error e => rw [hr] at h; cases h
      | ok gs0 =>
        rw [hr] at h
        obtain ⟨g, g', gs', rfl⟩ := ih gs0 hr
        simp [pure, Except.pure] at h
        exact ⟨_, _, _, h.symm⟩

/-- **the loop invariant, read as a function, is the closed form** (for every prefix counter and every chain of frames) -/
theorem specH_closed (sc : Script) : ∀ (k : Nat) (frames : List Frame),
    specH k frames sc = match groupsS sc with
      | .ok gs => some (orFoldF k (fill frames) gs)
      | .error _ => none := by
  induction sc with
  | nil => intro k frames; simp [specH, groupsS, throw, throwThe, MonadExceptOf.throw]
  | cons x rest ih =>
    obtain ⟨s, op⟩ := x
    intro k frames
    cases op with
    | none => simp [specH, groupsS, pure, Except.pure, orFoldF, andNest]
    | or =>
      simp only [specH, groupsS, bind, Except.bind]
      rw [ih]
      cases hr : groupsS rest with
      | error e => simp
      | ok gs0 =>
        obtain ⟨g, g', gs', rfl⟩ := groupsS_shape rest gs0 hr
        simp only [pure, Except.pure]
        rw [orFoldF_or]
    | and =>
      simp only [specH, groupsS, bind, Except.bind]
      rw [ih]
      cases hr : groupsS rest with
      | error e => simp
      | ok gs0 =>
        obtain ⟨g, g', gs', rfl⟩ := groupsS_shape rest gs0 hr
        have hf : fill (frames ++ [(true, k + 1, XTree.simple ((s, ScriptOp.and) :: rest) (k + 2))]) =
            fun t => fill frames (.complex true (k + 1) (.simple ((s, .and) :: rest) (k + 2)) t) :=
          funext fun t => fill_append _ _ _ _ _
        cases gs' <;> simp [pure, Except.pure, orFoldF, andNest, hf]

/-! ## the heap -/

/-- node `id` of the heap is the root of the finished tree `t` -/
inductive Reads (nodes : List Node) : Nat → XTree → Prop
  | simple {id sc p} : nodes[id]? = some (.simple sc p) → Reads nodes id (.simple sc p)
  | complex {id a p l r tl tr} : nodes[id]? = some (.complex a p [l, r]) → Reads nodes l tl → Reads nodes r tr →
      Reads nodes id (.complex a p tl tr)

def tsize : XTree → Nat
  | .simple _ _ => 1
  | .complex _ _ l r => 1 + tsize l + tsize r

/-- what `Reads` says is what `readTree` returns, with any fuel ≥ the size of the tree -/
theorem Reads.read {nodes : List Node} {id : Nat} {t : XTree} (h : Reads nodes id t) :
    ∀ fuel, tsize t ≤ fuel → readTree nodes fuel id = some t := by
  induction h with
  | simple hn =>
    intro fuel hf
    cases fuel with
    | zero => simp [tsize] at hf
    | succ f => simp [readTree, hn]
  | complex hn _ _ ihl ihr =>
    intro fuel hf
    cases fuel with
    | zero => simp only [tsize] at hf; omega
    | succ f =>
      simp only [tsize] at hf
      simp [readTree, hn, ihl f (by omega), ihr f (by omega)]

theorem lt_of_get {α} {l : List α} {i : Nat} {x : α} (h : l[i]? = some x) : i < l.length := by
  rcases Nat.lt_or_ge i l.length with h' | h'
  · exact h'
  · rw [List.getElem?_eq_none h'] at h; cases h

theorem get_append {α} {l ex : List α} {i : Nat} {x : α} (h : l[i]? = some x) : (l ++ ex)[i]? = some x := by
  rw [List.getElem?_append_left (lt_of_get h)]; exact h

theorem get_modify_ne {α} {l : List α} {i c : Nat} {x : α} (f : α → α) (h : l[i]? = some x) (hne : c ≠ i) :
    (l.modify c f)[i]? = some x := by
  rw [List.getElem?_modify, h]; simp [hne]

theorem get_modify_eq {α} {l : List α} {c : Nat} {x : α} (f : α → α) (h : l[c]? = some x) :
    (l.modify c f)[c]? = some (f x) := by
  rw [List.getElem?_modify, h]; simp

/-- frame rule 1: allocation does not change a finished tree -/
theorem Reads.append {nodes : List Node} {id : Nat} {t : XTree} (h : Reads nodes id t) (ex : List Node) :
    Reads (nodes ++ ex) id t := by
  induction h with
  | simple hn => exact .simple (get_append hn)
  | complex hn _ _ ihl ihr => exact .complex (get_append hn) ihl ihr

/-- node `c` is a complex node that has exactly one operand -/
def Inc (nodes : List Node) (c : Nat) : Prop := ∃ a p x, nodes[c]? = some (.complex a p [x])

/-- frame rule 2: a finished tree contains no node with a single operand, so updating such a node does not change it -/
theorem Reads.modify {nodes : List Node} {id : Nat} {t : XTree} (h : Reads nodes id t) {c : Nat} (hc : Inc nodes c)
    (f : Node → Node) : Reads (nodes.modify c f) id t := by
  obtain ⟨a0, p0, x0, hc⟩ := hc
  induction h with
  | @simple id sc p hn =>
    have hne : c ≠ id := by intro e; subst e; rw [hc] at hn; cases hn
    exact .simple (get_modify_ne f hn hne)
  | @complex id a p l r tl tr hn _ _ ihl ihr =>
    have hne : c ≠ id := by intro e; subst e; rw [hc] at hn; cases hn
    exact .complex (get_modify_ne f hn hne) ihl ihr

/-- `addOp` on a node -/
def appOp (child : Nat) : Node → Node := fun n => match n with | .complex a p ops => .complex a p (ops ++ [child]) | n => n

theorem addOp_some (st : St) (i child : Nat) : addOp st (some i) child = { st with nodes := st.nodes.modify i (appOp child) } := rfl
theorem addOp_none (st : St) (child : Nat) : addOp st none child = { st with root := some child } := rfl

/-- **the loop invariant on the heap**: below `top` hangs the chain of frames, every frame node has its finished first operand,
    all but the last have the next frame as second operand, the last one is `c` (= `current`) and has one operand only -/
inductive HReads (nodes : List Node) (c : Nat) : Nat → List Frame → Prop
  | last {a p lid l} : nodes[c]? = some (.complex a p [lid]) → Reads nodes lid l → HReads nodes c c [(a, p, l)]
  | cons {id a p lid nxt l f more} : nodes[id]? = some (.complex a p [lid, nxt]) → Reads nodes lid l →
      HReads nodes c nxt (f :: more) → HReads nodes c id ((a, p, l) :: f :: more)

theorem HReads.inc {nodes : List Node} {c top : Nat} {fs : List Frame} (h : HReads nodes c top fs) : Inc nodes c := by
  induction h with
  | last hn _ => exact ⟨_, _, _, hn⟩
  | cons _ _ _ ih => exact ih

theorem HReads.append {nodes : List Node} {c top : Nat} {fs : List Frame} (h : HReads nodes c top fs) (ex : List Node) :
    HReads (nodes ++ ex) c top fs := by
  induction h with
  | last hn hl => exact .last (get_append hn) (hl.append ex)
  | cons hn hl _ ih => exact .cons (get_append hn) (hl.append ex) ih

/-- plugging a finished tree into the hole (`current.addOp(child)`) finishes the tree below `top` -/
theorem HReads.fill {nodes : List Node} {c top : Nat} {fs : List Frame} (h : HReads nodes c top fs)
    {child : Nat} {t : XTree} (ht : Reads nodes child t) :
    Reads (nodes.modify c (appOp child)) top (fill fs t) := by
  have hinc := h.inc
  induction h with
  | last hn hl =>
    exact .complex (get_modify_eq (appOp child) hn) (hl.modify hinc _) (ht.modify hinc _)
  | @cons id a p lid nxt l f more hn hl _ ih =>
    obtain ⟨a0, p0, x0, hc⟩ := hinc
    have hne : c ≠ id := by intro e; subst e; rw [hc] at hn; cases hn
    exact .complex (get_modify_ne _ hn hne) (hl.modify ⟨a0, p0, x0, hc⟩ _) ih

/-- `&&`: a new frame (the `&&` node holding the selector's planner) is hung into the hole and becomes `current` -/
theorem HReads.push {nodes : List Node} {c top : Nat} {fs : List Frame} (h : HReads nodes c top fs)
    (sc : Script) (q p : Nat) :
    HReads ((nodes ++ [Node.simple sc q, Node.complex true p [nodes.length]]).modify c (appOp (nodes.length + 1)))
      (nodes.length + 1) top (fs ++ [(true, p, .simple sc q)]) := by
  have hinc := h.inc
  obtain ⟨a0, p0, x0, hc⟩ := hinc
  have hclt : c < nodes.length := lt_of_get hc
  have hinc1 : Inc (nodes ++ [Node.simple sc q, Node.complex true p [nodes.length]]) c := ⟨a0, p0, x0, get_append hc⟩
  have hS : (nodes ++ [Node.simple sc q, .complex true p [nodes.length]])[nodes.length]? = some (.simple sc q) := by
    rw [List.getElem?_append_right (Nat.le_refl _)]; simp
  have hA : (nodes ++ [Node.simple sc q, .complex true p [nodes.length]])[nodes.length + 1]? =
      some (.complex true p [nodes.length]) := by
    rw [List.getElem?_append_right (Nat.le_succ _)]; simp
  have hlast : HReads ((nodes ++ [Node.simple sc q, Node.complex true p [nodes.length]]).modify c (appOp (nodes.length + 1)))
      (nodes.length + 1) (nodes.length + 1) [(true, p, .simple sc q)] :=
    .last (get_modify_ne _ hA (Nat.ne_of_lt (Nat.lt_succ_of_lt hclt))) (.simple (get_modify_ne _ hS (Nat.ne_of_lt hclt)))
  induction h with
  | last hn hl =>
    exact .cons (get_modify_eq (appOp (nodes.length + 1)) (get_append hn)) ((hl.append _).modify hinc1 _) hlast
  | @cons id a p' lid nxt l f more hn hl _ ih =>
    have hne : c ≠ id := by intro e; subst e; rw [hc] at hn; cases hn
    exact .cons (get_modify_ne _ (get_append hn) hne) ((hl.append _).modify hinc1 _) ih

/-! ## the heap algorithm refines the loop -/

def fsize : List Frame → Nat
  | [] => 0
  | (_, _, l) :: fs => 1 + tsize l + fsize fs

theorem tsize_fill (fs : List Frame) (t : XTree) : tsize (fill fs t) = fsize fs + tsize t := by
  induction fs with
  | nil => simp [fill, fsize]
  | cons g fs ih => obtain ⟨a, p, l⟩ := g; simp [fill, fsize, tsize, ih]; omega

theorem fsize_append (fs : List Frame) (a : Bool) (p : Nat) (l : XTree) : fsize (fs ++ [(a, p, l)]) = fsize fs + 1 + tsize l := by
  induction fs with
  | nil => simp [fsize]
  | cons g fs ih => obtain ⟨a', p', l'⟩ := g; simp [fsize, ih]; omega

/-- state of the walk: `current` is the root planner and nothing has been built, or the heap holds the frames below `root` and
    `current` is the innermost frame -/
def Inv (st : St) (cur : Option Nat) (frames : List Frame) : Prop :=
  fsize frames ≤ st.nodes.length ∧
  match cur with
  | none => st.root = none ∧ frames = []
  | some c => ∃ r, st.root = some r ∧ HReads st.nodes c r frames

/-- allocate the selector's `simpleExpressionPlanner` and `current.addOp` it: the tree is finished -/
theorem leaf_step {st : St} {cur : Option Nat} {frames : List Frame} (h : Inv st cur frames) (sc : Script) (p k' : Nat) :
    ∃ r, (addOp { st with nodes := st.nodes ++ [.simple sc p], k := k' } cur st.nodes.length).root = some r ∧
      Reads (addOp { st with nodes := st.nodes ++ [.simple sc p], k := k' } cur st.nodes.length).nodes r
        (fill frames (.simple sc p)) ∧
      (addOp { st with nodes := st.nodes ++ [.simple sc p], k := k' } cur st.nodes.length).nodes.length = st.nodes.length + 1 ∧
      (addOp { st with nodes := st.nodes ++ [.simple sc p], k := k' } cur st.nodes.length).k = k' := by
  have hS : (st.nodes ++ [Node.simple sc p])[st.nodes.length]? = some (.simple sc p) := by simp
  cases cur with
  | none =>
    obtain ⟨_, _, hf⟩ := h
    subst hf
    exact ⟨st.nodes.length, rfl, .simple hS, by simp [addOp_none], rfl⟩
  | some c =>
    obtain ⟨_, r, hr, hh⟩ := h
    refine ⟨r, hr, ?_, by simp [addOp_some], rfl⟩
    exact (hh.append [.simple sc p]).fill (.simple hS)

/-- **the heap algorithm refines the loop**: from any state that satisfies the invariant, `planComplexH` fails exactly when the
    loop fails, and otherwise leaves the finished tree below `root` (and the heap is large enough for `readTree`'s fuel) -/
theorem heap_spec (sc : Script) : ∀ (st : St) (cur : Option Nat) (frames : List Frame), Inv st cur frames →
    match specH st.k frames sc with
    | some t => ∃ st', planComplexH st cur sc = .ok st' ∧ ∃ r, st'.root = some r ∧ Reads st'.nodes r t ∧ tsize t ≤ st'.nodes.length
    | none => ∃ e, planComplexH st cur sc = .error e := by
  induction sc with
  | nil => intro st cur frames _; exact ⟨_, rfl⟩
  | cons x rest ih =>
    obtain ⟨s, op⟩ := x
    intro st cur frames h
    cases op with
    | none =>
      obtain ⟨r, hr, hread, hlen, _⟩ := leaf_step h ((s, .none) :: rest) (st.k + 1) (st.k + 1)
      simp only [specH, planComplexH]
      refine ⟨_, rfl, r, hr, hread, ?_⟩
      rw [hlen, tsize_fill]; simp [tsize]; exact h.1
    | or =>
      obtain ⟨r, hr, hread, hlen, hk⟩ := leaf_step h ((s, .or) :: rest) (st.k + 1) (st.k + 1)
      simp only [specH, planComplexH]
      generalize addOp _ cur st.nodes.length = st2 at hr hread hlen hk ⊢
      rw [hr]
      have inv : Inv { nodes := st2.nodes ++ [Node.complex false (st2.k + 1) [r]], root := some st2.nodes.length, k := st2.k + 1 }
          (some st2.nodes.length) [(false, st2.k + 1, fill frames (.simple ((s, .or) :: rest) (st.k + 1)))] := by
        refine ⟨?_, _, rfl, .last (by simp) (hread.append _)⟩
        simp only [fsize, tsize_fill, tsize, List.length_append, List.length_cons, List.length_nil, hlen]
        have := h.1
        omega
      have := ih _ _ _ inv
      simp only [hk] at this ⊢
      exact this
    | and =>
      cases cur with
      | none =>
        obtain ⟨hsz, _, hf⟩ := h
        subst hf
        simp only [specH, planComplexH, addOp_none]
        have inv : Inv { nodes := st.nodes ++ [Node.simple ((s, .and) :: rest) (st.k + 2), Node.complex true (st.k + 1) [st.nodes.length]], root := some (st.nodes.length + 1), k := st.k + 2 }
            (some (st.nodes.length + 1)) ([] ++ [(true, st.k + 1, .simple ((s, .and) :: rest) (st.k + 2))]) := by
          refine ⟨?_, _, rfl, .last (a := true) (lid := st.nodes.length) ?_ (.simple (sc := (s, .and) :: rest) (p := st.k + 2) ?_)⟩
          · simp [fsize, tsize]
          · show (st.nodes ++ _)[st.nodes.length + 1]? = _
            rw [List.getElem?_append_right (Nat.le_succ _)]; simp
          · show (st.nodes ++ _)[st.nodes.length]? = _
            rw [List.getElem?_append_right (Nat.le_refl _)]; simp
        exact ih _ _ _ inv
      | some c =>
        obtain ⟨hsz, r, hr, hh⟩ := h
        simp only [specH, planComplexH, addOp_some]
        have inv : Inv { nodes := (st.nodes ++ [Node.simple ((s, .and) :: rest) (st.k + 2), Node.complex true (st.k + 1) [st.nodes.length]]).modify c (appOp (st.nodes.length + 1)), root := st.root, k := st.k + 2 }
            (some (st.nodes.length + 1)) (frames ++ [(true, st.k + 1, .simple ((s, .and) :: rest) (st.k + 2))]) := by
          refine ⟨?_, r, hr, hh.push _ _ _⟩
          simp only [List.length_modify, List.length_append, List.length_cons, List.length_nil, fsize_append, tsize]
          omega
        exact ih _ _ _ inv

/-- **`planComplex` as written builds the closed-form tree — for every script.** -/
theorem planShape_eq_closedShape (script : Script) : planShape script = closedShape script := by
  have h := heap_spec script ⟨[], none, 0⟩ none [] ⟨Nat.le_refl _, rfl, rfl⟩
  have hc := specH_closed script 0 []
  simp only [planShape, closedShape, planTree, bind, Except.bind]
  simp only [] at h
  rw [hc] at h
  cases hg : groupsS script with
  | error e =>
    rw [hg] at h
    obtain ⟨e', he⟩ := h
    simp [he]
  | ok gs =>
    rw [hg] at h
    obtain ⟨st', hst, r, hr, hread, hsz⟩ := h
    have hfill : fill [] = fun t => t := funext fun _ => rfl
    simp only [hst, hr, Option.bind, pure, Except.pure]
    rw [hread.read _ (by omega), orFold_eq_orFoldF, hfill]

end Qryn.TraceQL.ComplexHeap
