import Qryn.Proofs.RawAtoms
import Qryn.Sql.Build
/-! C10: the builder methods of `sql_select.Select` (`With`/`AddWith` hoisting, `AndWhere`, `AndHaving`, column
    patches) preserve well-formedness of the raw atoms (`wfSel`). Used by the planner models that build their
    statement step by step (LogQL metric planner, TraceQL planner). -/
namespace Qryn.Sql
open Qryn Qryn.Lex

/-- one entry of a WITH list -/
def wfWith (w : Alias × Sel) : Bool := rawC (b w.1.text ++ b " as (") && wfSelBody w.2

theorem wfWiths_eq_all : ∀ ws : List (Alias × Sel), wfWiths ws = ws.all wfWith
  | [] => by simp [wfWiths]
  | (a, s) :: ws => by simp [wfWiths, wfWith, wfWiths_eq_all ws]

theorem wfSelBody_setWiths (s : Sel) (ws : List (Alias × Sel)) : wfSelBody (s.setWiths ws) = wfSelBody s := by
  cases s; simp only [Sel.setWiths]; unfold wfSelBody; rfl

theorem wfSel_eq (s : Sel) : wfSel s = (wfWiths s.withs && wfSelBody s) := by
  cases s; simp only [wfSel, Sel.withs]

theorem withs_setWiths (s : Sel) (ws : List (Alias × Sel)) : (s.setWiths ws).withs = ws := by
  cases s; rfl

theorem wfSel_setWiths (s : Sel) (ws : List (Alias × Sel)) (hs : wfSelBody s = true) (hw : wfWiths ws = true) :
    wfSel (s.setWiths ws) = true := by
  rw [wfSel_eq, withs_setWiths, wfSelBody_setWiths, hs, hw]; rfl

theorem wfSel_body {s : Sel} (h : wfSel s = true) : wfSelBody s = true := by
  rw [wfSel_eq] at h; simp at h; exact h.2

theorem wfSel_withs {s : Sel} (h : wfSel s = true) : wfWiths s.withs = true := by
  rw [wfSel_eq] at h; simp at h; exact h.1

/-- what `With(…)` needs of an added sub-query: a closed alias and a well-formed select (its own WITH list is hoisted) -/
def withOK (w : Alias × Sel) : Prop := rawC (b w.1.text ++ b " as (") = true ∧ wfSel w.2 = true

theorem all_foldl_hoist (ws : List (Alias × Sel)) (h : ws.all wfWith = true) :
    ∀ acc : List (Alias × Sel), acc.all wfWith = true →
      (ws.foldl (fun acc w' => if hasAlias acc w'.1 then acc else acc ++ [w']) acc).all wfWith = true := by
  induction ws with
  | nil => intro acc ha; simpa using ha
  | cons w ws ih =>
    intro acc ha
    simp only [List.all_cons, Bool.and_eq_true] at h
    simp only [List.foldl_cons]
    apply ih h.2
    by_cases hh : hasAlias acc w.1 = true
    · simp only [hh, if_true]; exact ha
    · simp only [hh]; simp [ha, h.1]

theorem all_addWith1 (cur : List (Alias × Sel)) (w : Alias × Sel) (hc : cur.all wfWith = true) (hw : withOK w) :
    (addWith1 cur w).all wfWith = true := by
  unfold addWith1
  by_cases hh : hasAlias cur w.1 = true
  · simp only [hh, if_true]; exact hc
  · simp only [hh]
    have h1 := all_foldl_hoist w.2.withs (by rw [← wfWiths_eq_all]; exact wfSel_withs hw.2) cur hc
    have h2 : wfWith w = true := by simp [wfWith, hw.1, wfSel_body hw.2]
    simp [h1, h2]

theorem all_foldl_addWith1 : ∀ (ws cur : List (Alias × Sel)), cur.all wfWith = true → (∀ w ∈ ws, withOK w) →
    (ws.foldl addWith1 cur).all wfWith = true
  | [], cur, hc, _ => by simpa using hc
  | w :: ws, cur, hc, h => by
    simp only [List.foldl_cons]
    exact all_foldl_addWith1 ws _ (all_addWith1 cur w hc (h w (by simp))) (fun x hx => h x (by simp [hx]))

/-- **`s.With(ws…)`** keeps the statement well formed -/
theorem wfSel_with_ (s : Sel) (ws : List (Alias × Sel)) (hs : wfSelBody s = true) (hw : ∀ w ∈ ws, withOK w) :
    wfSel (s.with_ ws) = true := by
  unfold Sel.with_
  exact wfSel_setWiths s _ hs (by rw [wfWiths_eq_all]; exact all_foldl_addWith1 ws [] rfl hw)

theorem wfExprs_eq_all : ∀ es : List Expr, wfExprs es = es.all wfExpr
  | [] => by simp [wfExprs]
  | e :: es => by simp [wfExprs, wfExprs_eq_all es]

theorem wfExprs_append (x y : List Expr) : wfExprs (x ++ y) = (wfExprs x && wfExprs y) := by
  simp [wfExprs_eq_all]

theorem kw_and : rawC (b " " ++ b "and" ++ b " ") = true := by decide +kernel
theorem kw_or : rawC (b " " ++ b "or" ++ b " ") = true := by decide +kernel

theorem wfExpr_and (cs : List Expr) : wfExpr (and_ cs) = wfExprs cs := by
  have := kw_and
  simp only [List.append_assoc] at this
  simp [and_, wfExpr, this]
theorem wfExpr_or (cs : List Expr) : wfExpr (or_ cs) = wfExprs cs := by
  have := kw_or
  simp only [List.append_assoc] at this
  simp [or_, wfExpr, this]

/-- `AndWhere` / `AndHaving`: start, extend or wrap a conjunction -/
theorem wfExpr_andCond (cur : Option Expr) (cl : List Expr) (hc : ∀ e, cur = some e → wfExpr e = true)
    (hl : wfExprs cl = true) : wfExpr (andCond cur cl) = true := by
  cases cur with
  | none => simp [andCond, wfExpr_and, hl]
  | some e =>
    have he := hc e rfl
    cases e with
    | logical fn cs =>
      simp only [andCond]
      by_cases hf : fn = "and"
      · simp only [hf, if_true]
        subst hf
        simp only [wfExpr, Bool.and_eq_true] at he ⊢
        exact ⟨he.1, by rw [wfExprs_append, he.2, hl]; rfl⟩
      · simp only [hf, if_false, wfExpr_and, wfExprs, he, hl]; rfl
    | _ => simp only [andCond, wfExpr_and, wfExprs, he, hl]; rfl

theorem wfSelBody_andWhere (s : Sel) (cl : List Expr) (hs : wfSelBody s = true) (hl : wfExprs cl = true) :
    wfSelBody (s.andWhere cl) = true := by
  cases s with
  | mk ws d c f j p w g h o l =>
    simp only [Sel.andWhere]; unfold wfSelBody at hs ⊢; simp only [Bool.and_eq_true] at hs ⊢
    obtain ⟨⟨⟨⟨⟨⟨⟨h1, h2⟩, h3⟩, h4⟩, h5⟩, h6⟩, h7⟩, h8⟩ := hs
    refine ⟨⟨⟨⟨⟨⟨⟨h1, h2⟩, h3⟩, ?_⟩, h5⟩, h6⟩, h7⟩, h8⟩
    exact wfExpr_andCond w cl (fun e he => by subst he; exact h4) hl

theorem wfSelBody_andHaving (s : Sel) (cl : List Expr) (hs : wfSelBody s = true) (hl : wfExprs cl = true) :
    wfSelBody (s.andHaving cl) = true := by
  cases s with
  | mk ws d c f j p w g h o l =>
    simp only [Sel.andHaving]; unfold wfSelBody at hs ⊢; simp only [Bool.and_eq_true] at hs ⊢
    obtain ⟨⟨⟨⟨⟨⟨⟨h1, h2⟩, h3⟩, h4⟩, h5⟩, h6⟩, h7⟩, h8⟩ := hs
    refine ⟨⟨⟨⟨⟨⟨⟨h1, h2⟩, h3⟩, h4⟩, h5⟩, ?_⟩, h7⟩, h8⟩
    exact wfExpr_andCond h cl (fun e he => by subst he; exact h6) hl

theorem withs_andWhere (s : Sel) (cl : List Expr) : (s.andWhere cl).withs = s.withs := by cases s; rfl
theorem withs_andHaving (s : Sel) (cl : List Expr) : (s.andHaving cl).withs = s.withs := by cases s; rfl
theorem withs_setCols (s : Sel) (c : List Expr) : (s.setCols c).withs = s.withs := by cases s; rfl
theorem withs_addCols (s : Sel) (c : List Expr) : (s.addCols c).withs = s.withs := by cases s; rfl
theorem withs_setOrderBy (s : Sel) (c : List Expr) : (s.setOrderBy c).withs = s.withs := by cases s; rfl
theorem withs_setLimit (s : Sel) (l : Option Expr) : (s.setLimit l).withs = s.withs := by cases s; rfl

theorem wfSel_andWhere (s : Sel) (cl : List Expr) (hs : wfSel s = true) (hl : wfExprs cl = true) :
    wfSel (s.andWhere cl) = true := by
  rw [wfSel_eq, withs_andWhere, wfSel_withs hs, wfSelBody_andWhere s cl (wfSel_body hs) hl]; rfl

theorem wfSel_andHaving (s : Sel) (cl : List Expr) (hs : wfSel s = true) (hl : wfExprs cl = true) :
    wfSel (s.andHaving cl) = true := by
  rw [wfSel_eq, withs_andHaving, wfSel_withs hs, wfSelBody_andHaving s cl (wfSel_body hs) hl]; rfl

theorem wfExprs_cols {s : Sel} (h : wfSelBody s = true) : wfExprs s.cols = true := by
  cases s
  unfold wfSelBody at h
  simp only [Bool.and_eq_true] at h
  exact h.1.1.1.1.1.1.1

theorem wfSelBody_setCols (s : Sel) (cs : List Expr) (hs : wfSelBody s = true) (hc : wfExprs cs = true) :
    wfSelBody (s.setCols cs) = true := by
  cases s
  simp only [Sel.setCols]; unfold wfSelBody at hs ⊢; simp only [Bool.and_eq_true] at hs ⊢
  obtain ⟨⟨⟨⟨⟨⟨⟨_, h2⟩, h3⟩, h4⟩, h5⟩, h6⟩, h7⟩, h8⟩ := hs
  exact ⟨⟨⟨⟨⟨⟨⟨hc, h2⟩, h3⟩, h4⟩, h5⟩, h6⟩, h7⟩, h8⟩

theorem wfSel_setCols (s : Sel) (cs : List Expr) (hs : wfSel s = true) (hc : wfExprs cs = true) :
    wfSel (s.setCols cs) = true := by
  rw [wfSel_eq, withs_setCols, wfSel_withs hs, wfSelBody_setCols s cs (wfSel_body hs) hc]; rfl

theorem wfSel_addCols (s : Sel) (cs : List Expr) (hs : wfSel s = true) (hc : wfExprs cs = true) :
    wfSel (s.addCols cs) = true := by
  have : s.addCols cs = s.setCols (s.cols ++ cs) := by cases s; rfl
  rw [this]
  exact wfSel_setCols s _ hs (by rw [wfExprs_append, wfExprs_cols (wfSel_body hs), hc]; rfl)

theorem wfSel_setOrderBy (s : Sel) (ob : List Expr) (hs : wfSel s = true) (ho : wfExprs ob = true) :
    wfSel (s.setOrderBy ob) = true := by
  cases s
  simp only [Sel.setOrderBy, wfSel] at hs ⊢; unfold wfSelBody at hs ⊢; simp only [Bool.and_eq_true] at hs ⊢
  obtain ⟨hw, ⟨⟨⟨⟨⟨⟨⟨h1, h2⟩, h3⟩, h4⟩, h5⟩, h6⟩, _⟩, h8⟩⟩ := hs
  exact ⟨hw, ⟨⟨⟨⟨⟨⟨⟨h1, h2⟩, h3⟩, h4⟩, h5⟩, h6⟩, ho⟩, h8⟩⟩

theorem wfSel_setLimit (s : Sel) (l : Expr) (hs : wfSel s = true) (hl : wfExpr l = true) :
    wfSel (s.setLimit (some l)) = true := by
  cases s
  simp only [Sel.setLimit, wfSel] at hs ⊢; unfold wfSelBody at hs ⊢; simp only [Bool.and_eq_true] at hs ⊢
  obtain ⟨hw, ⟨⟨⟨⟨⟨⟨⟨h1, h2⟩, h3⟩, h4⟩, h5⟩, h6⟩, h7⟩, _⟩⟩ := hs
  exact ⟨hw, ⟨⟨⟨⟨⟨⟨⟨h1, h2⟩, h3⟩, h4⟩, h5⟩, h6⟩, h7⟩, hl⟩⟩

/-- `.col e a` with a closed alias -/
theorem wfExpr_col (e : Expr) (a : String) (he : wfExpr e = true) (ha : rawC (b " as " ++ b a) = true) :
    wfExpr (.col e a) = true := by
  simp [wfExpr, he, ha]

theorem wfExpr_col_inner {e : Expr} {a : String} (h : wfExpr (.col e a) = true) : wfExpr e = true := by
  simp [wfExpr] at h; exact h.1

/-! ### names: non-empty barewords -/
/-- a non-empty bareword -/
def WordS (s : String) : Prop := allWord (b s) = true ∧ b s ≠ []

theorem WordS.app {s t : String} (hs : WordS s) (ht : allWord (b t) = true) : WordS (s ++ t) := by
  refine ⟨by rw [b_append]; exact allWord_append hs.1 ht, ?_⟩
  rw [b_append]
  intro h
  exact hs.2 (List.append_eq_nil_iff.mp h).1

theorem WordS.nat {s : String} (hs : WordS s) (n : Nat) : WordS (s ++ toString n) := hs.app (allWord_natDigits n)

theorem WordS.isRawE {s : String} (h : WordS s) : rawE (b s) = true := rawE_word h.1
theorem WordS.isRawC {s : String} (h : WordS s) : rawC (b s) = true := rawC_word h.1 h.2
theorem kw_as : rawC (b " as ") = true := by decide +kernel
theorem WordS.asAlias {s : String} (h : WordS s) : rawC (b " as " ++ b s) = true := rawC_append kw_as h.isRawC
theorem WordS.withAlias {s : String} (h : WordS s) : rawC (b (Alias.named s).text ++ b " as (") = true :=
  rawC_append h.isRawC kw_asOpen

theorem wfExpr_raw_word {s : String} (h : WordS s) : wfExpr (.raw s) = true := by
  simp only [wfExpr]; exact h.isRawE
theorem wfExpr_simpleCol {n a : String} (hn : WordS n) (ha : WordS a) : wfExpr (simpleCol n a) = true :=
  wfExpr_col _ _ (wfExpr_raw_word hn) ha.asAlias
theorem wfExpr_withRef_word {s : String} (h : WordS s) : wfExpr (.withRef (.named s)) = true := by
  simp only [wfExpr, Alias.text]; exact h.isRawE


end Qryn.Sql
