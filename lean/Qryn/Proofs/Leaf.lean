import Qryn.Proofs.Closed
/-! C10: in a statement whose template is well formed for its leaves, EVERY string leaf is read by the lexer as
    exactly one string literal that decodes to the leaf's bytes: after the events of the text before it, the lexer
    opens a literal, emits exactly the leaf's bytes, and closes the literal. -/
namespace Qryn.Sql
open Qryn Qryn.Lex

theorem runSegs_append (q : St) (x y : List Seg) :
    runSegs q (x ++ y) = ((runSegs (runSegs q x).1 y).1, (runSegs q x).2 ++ (runSegs (runSegs q x).1 y).2) := by
  simp only [runSegs_eq_run, renderSegs_append, run_append]

/-- what follows a leaf closes its literal at once -/
theorem after_leaf_closes : ∀ post : List Seg, safeSegs .strQ post = true →
    ∃ rest, (runSegs .strQ post).2 ++ flush (runSegs .strQ post).1 = .sClose :: rest
  | [], _ => ⟨[], by simp [runSegs, flush]⟩
  | .str _ :: _, h => by simp [safeSegs, St.safe] at h
  | .raw [] :: post, h => by
    simp only [safeSegs, run, Bool.and_eq_true] at h
    obtain ⟨rest, hr⟩ := after_leaf_closes post h.2
    exact ⟨rest, by simpa [runSegs, Seg.render, run] using hr⟩
  | .raw (c :: bs) :: post, h => by
    simp only [safeSegs, Bool.and_eq_true, List.head?_cons] at h
    have hc : c ≠ 39 := by
      intro h0; subst h0; simp at h
    have hstep : step .strQ c = ((stepNormal c).1, .sClose :: (stepNormal c).2) := by simp [step, hc]
    refine ⟨(stepNormal c).2 ++ (run (stepNormal c).1 bs).2 ++ (runSegs (run .strQ (c :: bs)).1 post).2 ++
      flush (runSegs (run .strQ (c :: bs)).1 post).1, ?_⟩
    simp [runSegs, Seg.render, run, hstep, List.append_assoc]

/-- **every leaf is one literal decoding to its bytes** -/
theorem leaf_events (pre post : List Seg) (s : Bytes) (h : safeSegs .normal (pre ++ .str s :: post) = true) :
    ∃ rest, lexEv (renderSegs (pre ++ .str s :: post)) =
      (runSegs .normal pre).2 ++ openEv (runSegs .normal pre).1 ++ s.map .sByte ++ .sClose :: rest := by
  rw [safeSegs_append] at h
  simp only [Bool.and_eq_true, safeSegs] at h
  obtain ⟨_, hq, hpost⟩ := h
  obtain ⟨rest, hr⟩ := after_leaf_closes post hpost
  refine ⟨rest, ?_⟩
  have hcons : pre ++ Seg.str s :: post = pre ++ ([Seg.str s] ++ post) := by simp
  simp only [lexEv, ← runSegs_eq_run]
  rw [hcons, runSegs_append, runSegs_append]
  have hleaf : runSegs (runSegs .normal pre).1 [Seg.str s] = (.strQ, openEv (runSegs .normal pre).1 ++ s.map .sByte) := by
    simp [runSegs, Seg.render, run_quote _ hq s]
  simp only [hleaf, List.append_assoc]
  rw [hr]

end Qryn.Sql
