import Qryn.Prom.LabelsFetch
/-! Lemmas about the labels request of `CLokiQuerier.Select` (`Qryn.Prom.LabelsFetch`). -/
namespace Qryn.Prom.LabelsFetch
open Qryn Qryn.Prom

/-- the code reads from the day of `hints.Start − 30 min` on (`Gen.PromLabelsFetch.lowerOf`, regenerated) -/
theorem lowerOf_from : Gen.PromLabelsFetch.lowerOf = "from" := by decide

/-- day arithmetic: a millisecond inside `[start, end]` falls on a day inside the fetched date range -/
theorem day_in_range (startMs endMs t : Int) (h1 : startMs ≤ t) (h2 : t ≤ endMs) :
    (fetchWith "from" false startMs endMs []).lowerDay ≤ dayOfMs t ∧
      dayOfMs t ≤ (fetchWith "from" false startMs endMs []).upperDay := by
  simp only [Fetch.lowerDay, Fetch.upperDay, fetchWith, lowerSec, lowerInstant, secOfMs, dayOfMs,
    Gen.PromLabelsFetch.marginSec, if_true]
  omega

theorem lowerDay_fps (lowerOf : String) (dist : Bool) (a b : Int) (fps : List Nat) :
    (fetchWith lowerOf dist a b fps).lowerDay = (fetchWith lowerOf false a b []).lowerDay := rfl

theorem upperDay_fps (lowerOf : String) (dist : Bool) (a b : Int) (fps : List Nat) :
    (fetchWith lowerOf dist a b fps).upperDay = (fetchWith lowerOf false a b []).upperDay := rfl

theorem mem_eval {q : Fetch} {ts : List TsRow} {r : TsRow} :
    r ∈ q.eval ts ↔ r ∈ ts ∧ r.fp ∈ q.fps ∧ q.lowerDay ≤ r.day ∧ r.day ≤ q.upperDay := by
  simp [Fetch.eval, Fetch.holds, List.mem_filter, and_assoc]

/-- the map after the row loop: the last row of a fingerprint decides; when all its rows agree, any does -/
theorem foldl_loop (norm : Labels → Labels) (f : Nat) (L : Labels) :
    ∀ (rows : List TsRow) (m : Nat → Option Labels), (∀ r ∈ rows, r.fp = f → r.labels = L) →
      (rows.foldl (fun m r => fun k => if k = r.fp then some (norm r.labels) else m k) m) f =
        if rows.any (fun r => r.fp == f) then some (norm L) else m f := by
  intro rows
  induction rows with
  | nil => intro m _; simp
  | cons r rs ih =>
    intro m h
    rw [List.foldl_cons, ih _ (fun x hx => h x (List.mem_cons_of_mem _ hx))]
    by_cases hany : rs.any (fun r => r.fp == f) = true
    · simp [hany]
    · by_cases hr : r.fp = f
      · have hl := h r (List.mem_cons_self) hr
        simp [hr, hl]
      · have hr' : ¬ f = r.fp := fun e => hr e.symm
        simp [hany, hr, hr']

theorem fetchLoop_some (norm : Labels → Labels) (rows : List TsRow) (f : Nat) (L : Labels)
    (hex : ∃ r ∈ rows, r.fp = f) (hall : ∀ r ∈ rows, r.fp = f → r.labels = L) :
    fetchLoop norm rows f = some (norm L) := by
  unfold fetchLoop
  rw [foldl_loop norm f L rows _ hall]
  obtain ⟨r, hr, hf⟩ := hex
  have : rows.any (fun r => r.fp == f) = true := List.any_eq_true.mpr ⟨r, hr, by simp [hf]⟩
  simp [this]

theorem fetchLoop_none (norm : Labels → Labels) (rows : List TsRow) (f : Nat) (hno : ∀ r ∈ rows, r.fp ≠ f) :
    fetchLoop norm rows f = none := by
  unfold fetchLoop
  rw [foldl_loop norm f [] rows _ (fun r hr hf => absurd hf (hno r hr))]
  have : rows.any (fun r => r.fp == f) = false := by
    rw [List.any_eq_false]; intro r hr; simpa using hno r hr
  simp [this]

end Qryn.Prom.LabelsFetch
