import Qryn.Proofs.SpanOtlp
/-! Flattening of OTLP attribute trees, defined once as "the scalar leaves with their paths", and the proof that the
    writer's recursive walk (`flattenVal` / `flattenArr` / `flattenKvs` = `writeAttrValue` / `initAttributesMap`) produces
    exactly that, for every nesting depth (structural induction on `AnyValue`). -/
namespace Qryn.Span

/-- one step of a path into an attribute tree: a key of a kv-list or an index of an array -/
inductive Seg where
  | key (k : Str)
  | idx (i : Nat)
  deriving Repr, DecidableEq

def Seg.text : Seg → Str
  | .key k => k
  | .idx i => natDigits i

/-- a scalar that gets a tag row -/
inductive Leaf where
  | str (s : Str)
  | bool (b : Bool)
  | int (i : Int)
  | dbl (bits : Nat)
  deriving Repr

/-- the text of a leaf in the tag index: the string itself, `%v` of a bool, `%d` of an int, `%f` of a double -/
def Leaf.text : Leaf → Str
  | .str s => s
  | .bool b => if b then ascii "true" else ascii "false"
  | .int i => intDigits i
  | .dbl bits => fmtF bits

/-- the path of a leaf below the attribute it belongs to, every step preceded by a dot -/
def dotted : List Seg → Str
  | [] => []
  | s :: p => 46 :: (s.text ++ dotted p)

/-- a non-empty path as a tag key: the steps joined by dots -/
def pathKey : List Seg → Str
  | [] => []
  | s :: p => s.text ++ dotted p

mutual
/-- **flattening, defined once**: the scalar leaves of a value with their paths, in document order; bytes and
    unset values have none -/
def leavesVal : AnyValue → List (List Seg × Leaf)
  | .str s => [([], .str s)]
  | .bool b => [([], .bool b)]
  | .int i => [([], .int i)]
  | .dbl bits => [([], .dbl bits)]
  | .arr vs => leavesArr 0 vs
  | .kvl kvs => leavesKvs kvs
  | .bytes _ => []
  | .unset => []
  | .nilp => []
def leavesArr (i : Nat) : List AnyValue → List (List Seg × Leaf)
  | [] => []
  | v :: vs => (leavesVal v).map (fun pl => (Seg.idx i :: pl.1, pl.2)) ++ leavesArr (i + 1) vs
def leavesKvs : List (Str × AnyValue) → List (List Seg × Leaf)
  | [] => []
  | (k, v) :: rest => (leavesVal v).map (fun pl => (Seg.key k :: pl.1, pl.2)) ++ leavesKvs rest
end

theorem dotted_cons (s : Seg) (p : List Seg) : dotted (s :: p) = [46] ++ pathKey (s :: p) := rfl

theorem leavesArr_ne (i : Nat) (vs : List AnyValue) : ∀ pl ∈ leavesArr i vs, 46 :: pathKey pl.1 = dotted pl.1 := by
  induction vs generalizing i with
  | nil => intro pl h; simp [leavesArr] at h
  | cons v vs ih =>
    intro pl h
    simp only [leavesArr, List.mem_append, List.mem_map] at h
    rcases h with ⟨q, _, rfl⟩ | h
    · rfl
    · exact ih (i + 1) pl h

theorem leavesKvs_ne (kvs : List (Str × AnyValue)) : ∀ pl ∈ leavesKvs kvs, 46 :: pathKey pl.1 = dotted pl.1 := by
  induction kvs with
  | nil => intro pl h; simp [leavesKvs] at h
  | cons kv rest ih =>
    obtain ⟨k, v⟩ := kv
    intro pl h
    simp only [leavesKvs, List.mem_append, List.mem_map] at h
    rcases h with ⟨q, _, rfl⟩ | h
    · rfl
    · exact ih pl h

mutual
theorem flattenVal_leaves (key : Str) : ∀ v : AnyValue,
    flattenVal key v = (leavesVal v).map (fun pl => (key ++ dotted pl.1, pl.2.text))
  | .str s => by simp [flattenVal, leavesVal, dotted, Leaf.text]
  | .bool b => by simp [flattenVal, leavesVal, dotted, Leaf.text]
  | .int i => by simp [flattenVal, leavesVal, dotted, Leaf.text]
  | .dbl bits => by simp [flattenVal, leavesVal, dotted, Leaf.text]
  | .bytes _ => by simp [flattenVal, leavesVal]
  | .unset => by simp [flattenVal, leavesVal]
  | .nilp => by simp [flattenVal, leavesVal]
  | .arr vs => by
    simp only [flattenVal, leavesVal]
    rw [flattenArr_leaves (key ++ [46]) 0 vs]
    apply List.map_congr_left
    intro pl hpl
    simp [leavesArr_ne 0 vs pl hpl]
  | .kvl kvs => by
    simp only [flattenVal, leavesVal]
    rw [flattenKvs_leaves (key ++ [46]) kvs]
    apply List.map_congr_left
    intro pl hpl
    simp [leavesKvs_ne kvs pl hpl]
theorem flattenArr_leaves (pfx : Str) (i : Nat) : ∀ vs : List AnyValue,
    flattenArr pfx i vs = (leavesArr i vs).map (fun pl => (pfx ++ pathKey pl.1, pl.2.text))
  | [] => by simp [flattenArr, leavesArr]
  | v :: vs => by
    simp only [flattenArr, leavesArr, List.map_append, List.map_map]
    rw [flattenVal_leaves (pfx ++ natDigits i) v, flattenArr_leaves pfx (i + 1) vs]
    congr 1
    apply List.map_congr_left
    intro pl _
    simp [pathKey, Seg.text, List.append_assoc]
theorem flattenKvs_leaves (pfx : Str) : ∀ kvs : List (Str × AnyValue),
    flattenKvs pfx kvs = (leavesKvs kvs).map (fun pl => (pfx ++ pathKey pl.1, pl.2.text))
  | [] => by simp [flattenKvs, leavesKvs]
  | (k, v) :: rest => by
    simp only [flattenKvs, leavesKvs, List.map_append, List.map_map]
    rw [flattenVal_leaves (pfx ++ k) v, flattenKvs_leaves pfx rest]
    congr 1
    apply List.map_congr_left
    intro pl _
    simp [pathKey, Seg.text, List.append_assoc]
end

/-- the tag writes of a whole attribute list: one per leaf, key = dotted path, in document order -/
theorem flatten_top (attrs : List KV) :
    flattenKvs [] attrs = (leavesKvs attrs).map (fun pl => (pathKey pl.1, pl.2.text)) := by
  rw [flattenKvs_leaves]
  apply List.map_congr_left
  intro pl _
  simp

/-! ### a map with one entry per key is determined by its look-ups -/

theorem assocGet_of_mem {α} : ∀ (m : List (Str × α)), (m.map (·.1)).Nodup → ∀ kv ∈ m, assocGet m kv.1 = some kv.2
  | [], _, kv, h => by cases h
  | e :: rest, hn, kv, h => by
    simp only [List.map_cons, List.nodup_cons] at hn
    rcases List.mem_cons.mp h with rfl | h'
    · simp [assocGet]
    · have hne : (e.1 == kv.1) = false := by
        apply Bool.eq_false_iff.mpr
        intro he
        have : e.1 = kv.1 := by simpa using he
        exact hn.1 (this ▸ List.mem_map.mpr ⟨kv, h', rfl⟩)
      have ih := assocGet_of_mem rest hn.2 kv h'
      simp only [assocGet, List.find?_cons, hne] at ih ⊢
      exact ih

theorem mem_of_assocGet {α} : ∀ (m : List (Str × α)) (k : Str) (v : α), assocGet m k = some v → (k, v) ∈ m
  | [], k, v, h => by simp [assocGet] at h
  | e :: rest, k, v, h => by
    simp only [assocGet, List.find?_cons] at h
    by_cases he : (e.1 == k) = true
    · simp only [he, Option.map_some, Option.some.injEq] at h
      have : e.1 = k := by simpa using he
      apply List.mem_cons.mpr; left
      rw [← this, ← h]
    · have he' : (e.1 == k) = false := by simpa using he
      simp only [he'] at h
      exact List.mem_cons_of_mem _ (mem_of_assocGet rest k v h)

/-- **the entries of a duplicate-free map are exactly the graph of its look-up** -/
theorem mem_iff_assocGet {α} (m : List (Str × α)) (hn : (m.map (·.1)).Nodup) (kv : Str × α) :
    kv ∈ m ↔ assocGet m kv.1 = some kv.2 :=
  ⟨assocGet_of_mem m hn kv, mem_of_assocGet m kv.1 kv.2⟩

theorem assocGet_isSome_of_mem {α} : ∀ (m : List (Str × α)) (kv : Str × α), kv ∈ m → (assocGet m kv.1).isSome = true
  | [], _, hm => by cases hm
  | e :: rest, kv, hm => by
    simp only [assocGet, List.find?_cons]
    by_cases he : (e.1 == kv.1) = true
    · simp [he]
    · have he' : (e.1 == kv.1) = false := by simpa using he
      simp only [he']
      rcases List.mem_cons.mp hm with rfl | h'
      · simp at he
      · exact assocGet_isSome_of_mem rest kv h'

theorem assocGet_isSome_iff {α} (m : List (Str × α)) (k : Str) : (assocGet m k).isSome ↔ k ∈ m.map (·.1) := by
  constructor
  · intro h
    obtain ⟨v, hv⟩ := Option.isSome_iff_exists.mp h
    exact List.mem_map.mpr ⟨(k, v), mem_of_assocGet m k v hv, rfl⟩
  · intro h
    obtain ⟨kv, hm, rfl⟩ := List.mem_map.mp h
    exact assocGet_isSome_of_mem m kv hm

theorem lastWrite_isSome_iff {α} (ws : List (Str × α)) (k : Str) : (lastWrite ws k).isSome ↔ k ∈ ws.map (·.1) := by
  unfold lastWrite
  rw [Option.isSome_map]
  constructor
  · intro h
    obtain ⟨e, he⟩ := Option.isSome_iff_exists.mp h
    have hm := List.mem_of_find?_eq_some he
    have hk := List.find?_some he
    exact List.mem_map.mpr ⟨e, List.mem_reverse.mp hm, by simpa using hk⟩
  · intro h
    obtain ⟨e, hm, rfl⟩ := List.mem_map.mp h
    rw [List.find?_isSome]
    exact ⟨e, List.mem_reverse.mpr hm, by simp⟩

end Qryn.Span
