import Qryn.Sql.SegsOf
/-! The segment list of a SELECT body as a concatenation of its clause parts (optional clauses as functions of the option). -/
namespace Qryn.Sql
open Qryn

def optPart (kw : String) : Option Expr → List Seg
  | some p => [.raw (b kw)] ++ segsExpr p
  | none => []
def fromPart (f : Option Expr) (joins : List (String × Alias × Expr)) : List Seg :=
  match f with
  | some f => [.raw (b " FROM ")] ++ segsExpr f ++ segsJoins joins
  | none => []
def listPart (kw : String) (es : List Expr) : List Seg :=
  if es.isEmpty then [] else [.raw (b kw)] ++ joinS (b ", ") (segsExprs es)

theorem segsSelBody_parts (ws : List (Alias × Sel)) (d : Bool) (cols : List Expr) (f : Option Expr)
    (j : List (String × Alias × Expr)) (p w : Option Expr) (g : List Expr) (h : Option Expr) (o : List Expr) (l : Option Expr) :
    segsSelBody (.mk ws d cols f j p w g h o l) =
      [.raw (b " SELECT " ++ (if d then b " DISTINCT " else []))] ++ joinS (b ", ") (segsExprs cols) ++ fromPart f j ++
        optPart " PREWHERE " p ++ optPart " WHERE " w ++ listPart " GROUP BY " g ++ optPart " HAVING " h ++
        listPart " ORDER BY " o ++ optPart " LIMIT " l := by
  rw [segsSelBody.eq_def]
  cases f <;> cases p <;> cases w <;> cases h <;> cases l <;> rfl

end Qryn.Sql
