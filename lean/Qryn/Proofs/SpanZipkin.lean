import Qryn.Proofs.SpanRun
/-! Zipkin writer: hex ids, and the walk over the members characterised by member name. -/
namespace Qryn.Span

theorem hexDecode_length : ∀ (s r : Bytes), hexDecode s = some r → 2 * r.length = s.length
  | [], r, h => by simp only [hexDecode, Option.some.injEq] at h; subst h; rfl
  | [_], r, h => by simp [hexDecode] at h
  | a :: b :: rest, r, h => by
    simp only [hexDecode] at h
    split at h
    · rename_i x y r' hx hy hr
      simp only [Option.some.injEq] at h; subst h
      have := hexDecode_length rest r' hr
      simp only [List.length_cons]; omega
    · cases h

/-- an id that `decodeHexStr` returns has exactly `leng/2` bytes -/
theorem decodeHexStr_length {h : Bytes} {leng : Nat} {r : Bytes} (hd : decodeHexStr h leng = .ok r) :
    2 * r.length = leng := by
  unfold decodeHexStr at hd
  split at hd
  · cases hd
  · rename_i hne
    simp only at hd
    split at hd
    · rename_i r' hr
      injection hd with hd; subst hd
      have := hexDecode_length _ _ hr
      rw [this, List.length_take]
      split
      · simp only [List.length_append, List.length_replicate]; omega
      · omega
    · cases hd

/-- the reader's `decodeParentId` decodes a parentId exactly as the writer's `decodeHexStr(.., 16)` did -/
theorem decodeParentId_eq {h r : Bytes} (hd : decodeHexStr h 16 = .ok r) : decodeParentId h = some r := by
  unfold decodeHexStr at hd
  unfold decodeParentId
  split at hd
  · cases hd
  · rename_i hne
    simp only [hne, if_false]
    simp only at hd
    split at hd
    · rename_i r' hr; injection hd with hd; subst hd; exact hr
    · cases hd

/-! ### the members of a span by name -/

theorem zFind_cons {α} (f : ZField) (fs : List ZField) (g : ZField → Option α) :
    zFind (f :: fs) g = match g f with | some v => some v | none => zFind fs g := by
  simp only [zFind, List.findSome?_cons]
  cases g f <;> rfl

theorem zFind_nil {α} (g : ZField → Option α) : zFind [] g = none := rfl

/-- no member of that name in the rest of the object -/
theorem zFind_none_of_slot {α} (g : ZField → Option α) (k : Nat) (hg : ∀ x v, g x = some v → x.slot = some k)
    (fs : List ZField) (hk : k ∉ fs.filterMap ZField.slot) : zFind fs g = none := by
  simp only [zFind, List.findSome?_eq_none_iff]
  intro x hx
  cases hgx : g x with
  | none => rfl
  | some v =>
    exfalso; apply hk
    exact List.mem_filterMap.mpr ⟨x, hx, hg x v hgx⟩

theorem fTraceId_slot : ∀ x v, fTraceId x = some v → x.slot = some 0 := by intro x v h; cases x <;> simp_all [fTraceId, ZField.slot]
theorem fId_slot : ∀ x v, fId x = some v → x.slot = some 1 := by intro x v h; cases x <;> simp_all [fId, ZField.slot]
theorem fParentId_slot : ∀ x v, fParentId x = some v → x.slot = some 2 := by intro x v h; cases x <;> simp_all [fParentId, ZField.slot]
theorem fTimestamp_slot : ∀ x v, fTimestamp x = some v → x.slot = some 3 := by intro x v h; cases x <;> simp_all [fTimestamp, ZField.slot]
theorem fDuration_slot : ∀ x v, fDuration x = some v → x.slot = some 4 := by intro x v h; cases x <;> simp_all [fDuration, ZField.slot]
theorem fName_slot : ∀ x v, fName x = some v → x.slot = some 5 := by intro x v h; cases x <;> simp_all [fName, ZField.slot]
theorem fLocal_slot : ∀ x v, fLocal x = some v → x.slot = some 6 := by intro x v h; cases x <;> simp_all [fLocal, ZField.slot]
theorem fRemote_slot : ∀ x v, fRemote x = some v → x.slot = some 7 := by intro x v h; cases x <;> simp_all [fRemote, ZField.slot]
theorem fTags_slot : ∀ x v, fTags x = some v → x.slot = some 8 := by intro x v h; cases x <;> simp_all [fTags, ZField.slot]
theorem fKind_slot : ∀ x v, fKind x = some v → x.slot = some 9 := by intro x v h; cases x <;> simp_all [fKind, ZField.slot]
theorem fAnnotations_slot : ∀ x v, fAnnotations x = some v → x.slot = some 10 := by intro x v h; cases x <;> simp_all [fAnnotations, ZField.slot]

/-! ### what one member does: accepted or not (independent of the state), and the update it makes -/

def hexOk (h : JStr) (w : Nat) : Bool :=
  match h with
  | none => false
  | some h => match decodeHexStr h w with | .ok _ => true | .error _ => false

def hexVal (h : JStr) (w : Nat) : Bytes :=
  match h with
  | none => []
  | some h => match decodeHexStr h w with | .ok r => r | .error _ => []

def timeOk (v : ZTime) : Bool := match zTime v with | .ok _ => true | .error _ => false
def timeVal (v : ZTime) : Int := match zTime v with | .ok t => t | .error _ => 0

/-- the service name a list of `serviceName` members leaves: the last string, `dflt` when there is none -/
def lastSvc (dflt : Str) : List (Option Str) → Str
  | [] => dflt
  | o :: r => lastSvc (o.getD dflt) r

def epOk (e : Option Endpoint) : Bool :=
  match e with
  | none => false
  | some e => e.svcs.all Option.isSome

def epSvc (e : Option Endpoint) : Str :=
  match e with
  | some e => lastSvc [] e.svcs
  | none => []

def epKv (pfx : String) (e : Option Endpoint) : List (Str × Str) :=
  match e with
  | some e => e.svcs.filterMap (fun o => o.map (fun s => (epKey pfx, s)))
  | none => []

def tagsKv (t : Option (List (Str × Option Str))) : List (Str × Str) :=
  match t with
  | some ts => ts.filterMap (fun t => t.2.map (fun v => (t.1, v)))
  | none => []

/-- the member is one the writer accepts -/
def fieldOk (c : Cfg) : ZField → Bool
  | .traceId h => hexOk h c.traceHex
  | .id h => hexOk h c.spanHex
  | .parentId h => hexOk h c.parentHex
  | .timestamp v => timeOk v
  | .duration v => timeOk v
  | .name v => v.isSome
  | .localEndpoint e => epOk e
  | .remoteEndpoint e => epOk e
  | .tags t => t.isSome
  | .kind _ => true
  | .annotations _ => true
  | .other => true

/-- the tag rows a member contributes, in document order -/
def fieldKv : ZField → List (Str × Str)
  | .name (some s) => [(kName, s)]
  | .localEndpoint e => epKv "local_endpoint_" e
  | .remoteEndpoint e => epKv "remote_endpoint_" e
  | .tags t => tagsKv t
  | _ => []

theorem epFold_eq (pfx : String) : ∀ (svcs : List (Option Str)) (st : Str × List (Str × Str)),
    svcs.foldlM (epStep pfx) st =
      if svcs.all Option.isSome then
        .ok (lastSvc st.1 svcs, st.2 ++ svcs.filterMap (fun o => o.map (fun s => (epKey pfx, s))))
      else .error .reject := by
  intro svcs
  induction svcs with
  | nil => intro st; simp [lastSvc]; rfl
  | cons o r ih =>
    intro st
    cases o with
    | none => simp [List.foldlM_cons, epStep]; rfl
    | some s =>
      rw [List.foldlM_cons]
      show (r.foldlM (epStep pfx) (s, st.2 ++ [(epKey pfx, s)])) = _
      rw [ih]
      simp [lastSvc, List.append_assoc]

theorem parseEndpoint_eq (pfx : String) (e : Option Endpoint) :
    parseEndpoint pfx e = if epOk e then .ok (epSvc e, epKv pfx e) else .error .reject := by
  cases e with
  | none => rfl
  | some e =>
    simp only [parseEndpoint, epFold_eq, epOk, epSvc, epKv, List.nil_append]
    rfl

theorem parseTags_eq (t : Option (List (Str × Option Str))) :
    parseTags t = if t.isSome then .ok (tagsKv t) else .error .reject := by
  cases t <;> rfl

theorem zStep_error (c : Cfg) (l : ZLoop) (f : ZField) (h : fieldOk c f = false) : zStep c l f = .error .reject := by
  cases f with
  | traceId v =>
    cases v with
    | none => rfl
    | some x =>
      simp only [fieldOk, hexOk] at h
      simp only [zStep]
      cases hd : decodeHexStr x c.traceHex with
      | ok r => simp [hd] at h
      | error e => cases e; rfl
  | id v =>
    cases v with
    | none => rfl
    | some x =>
      simp only [fieldOk, hexOk] at h
      simp only [zStep]
      cases hd : decodeHexStr x c.spanHex with
      | ok r => simp [hd] at h
      | error e => cases e; rfl
  | parentId v =>
    cases v with
    | none => rfl
    | some x =>
      simp only [fieldOk, hexOk] at h
      simp only [zStep]
      cases hd : decodeHexStr x c.parentHex with
      | ok r => simp [hd] at h
      | error e => cases e; rfl
  | timestamp v =>
    simp only [fieldOk, timeOk] at h
    simp only [zStep]
    cases hd : zTime v with
    | ok r => simp [hd] at h
    | error e => cases e; rfl
  | duration v =>
    simp only [fieldOk, timeOk] at h
    simp only [zStep]
    cases hd : zTime v with
    | ok r => simp [hd] at h
    | error e => cases e; rfl
  | name v => cases v with
    | none => rfl
    | some x => simp [fieldOk] at h
  | localEndpoint e => simp only [fieldOk] at h; simp [zStep, parseEndpoint_eq, h]; rfl
  | remoteEndpoint e => simp only [fieldOk] at h; simp [zStep, parseEndpoint_eq, h]; rfl
  | tags t => simp only [fieldOk] at h; simp [zStep, parseTags_eq, h]; rfl
  | kind v => simp [fieldOk] at h
  | annotations a => simp [fieldOk] at h
  | other => simp [fieldOk] at h

/-- the update an accepted member makes to the loop state -/
def fieldUpd (c : Cfg) (l : ZLoop) : ZField → ZLoop
  | .traceId h => { l with d := { l.d with traceId := some (hexVal h c.traceHex) } }
  | .id h => { l with d := { l.d with spanId := some (hexVal h c.spanHex) } }
  | .parentId h => { l with d := { l.d with parentId := hexVal h c.parentHex } }
  | .timestamp v => { l with d := { l.d with ts := timeVal v } }
  | .duration v => { l with d := { l.d with dur := timeVal v } }
  | .name v => { l with d := { l.d with name := v.getD [], kv := l.d.kv ++ fieldKv (.name v) } }
  | .localEndpoint e => { l with localSvc := epSvc e, d := { l.d with kv := l.d.kv ++ epKv "local_endpoint_" e } }
  | .remoteEndpoint e => { l with remoteSvc := epSvc e, d := { l.d with kv := l.d.kv ++ epKv "remote_endpoint_" e } }
  | .tags t => { l with d := { l.d with kv := l.d.kv ++ tagsKv t } }
  | .kind _ => l
  | .annotations _ => l
  | .other => l

theorem zStep_ok (c : Cfg) (l : ZLoop) (f : ZField) (h : fieldOk c f = true) : zStep c l f = .ok (fieldUpd c l f) := by
  cases f with
  | traceId v =>
    cases v with
    | none => simp [fieldOk, hexOk] at h
    | some x =>
      simp only [fieldOk, hexOk] at h
      simp only [zStep, fieldUpd, hexVal]
      cases hd : decodeHexStr x c.traceHex with
      | ok r => rfl
      | error e => simp [hd] at h
  | id v =>
    cases v with
    | none => simp [fieldOk, hexOk] at h
    | some x =>
      simp only [fieldOk, hexOk] at h
      simp only [zStep, fieldUpd, hexVal]
      cases hd : decodeHexStr x c.spanHex with
      | ok r => rfl
      | error e => simp [hd] at h
  | parentId v =>
    cases v with
    | none => simp [fieldOk, hexOk] at h
    | some x =>
      simp only [fieldOk, hexOk] at h
      simp only [zStep, fieldUpd, hexVal]
      cases hd : decodeHexStr x c.parentHex with
      | ok r => rfl
      | error e => simp [hd] at h
  | timestamp v =>
    simp only [fieldOk, timeOk] at h
    simp only [zStep, fieldUpd, timeVal]
    cases hd : zTime v with
    | ok r => rfl
    | error e => simp [hd] at h
  | duration v =>
    simp only [fieldOk, timeOk] at h
    simp only [zStep, fieldUpd, timeVal]
    cases hd : zTime v with
    | ok r => rfl
    | error e => simp [hd] at h
  | name v => cases v with
    | none => simp [fieldOk] at h
    | some x => rfl
  | localEndpoint e => simp only [fieldOk] at h; simp [zStep, parseEndpoint_eq, h, fieldUpd]; rfl
  | remoteEndpoint e => simp only [fieldOk] at h; simp [zStep, parseEndpoint_eq, h, fieldUpd]; rfl
  | tags t => simp only [fieldOk] at h; simp [zStep, parseTags_eq, h, fieldUpd]; rfl
  | kind v => rfl
  | annotations a => rfl
  | other => rfl

end Qryn.Span

namespace Qryn.Span

/-- the loop state after the walk, member by member name -/
def zSpec (c : Cfg) (l : ZLoop) (fs : List ZField) : ZLoop :=
  { d :=
      { traceId := match zFind fs fTraceId with | some h => some (hexVal h c.traceHex) | none => l.d.traceId
        spanId := match zFind fs fId with | some h => some (hexVal h c.spanHex) | none => l.d.spanId
        ts := match zFind fs fTimestamp with | some v => timeVal v | none => l.d.ts
        dur := match zFind fs fDuration with | some v => timeVal v | none => l.d.dur
        parentId := match zFind fs fParentId with | some h => hexVal h c.parentHex | none => l.d.parentId
        name := match zFind fs fName with | some v => v.getD [] | none => l.d.name
        svc := l.d.svc
        payload := l.d.payload
        payloadLen := l.d.payloadLen
        kv := l.d.kv ++ fs.flatMap fieldKv }
    localSvc := match zFind fs fLocal with | some e => epSvc e | none => l.localSvc
    remoteSvc := match zFind fs fRemote with | some e => epSvc e | none => l.remoteSvc }

theorem zSpec_nil (c : Cfg) (l : ZLoop) : zSpec c l [] = l := by
  obtain ⟨⟨_, _, _, _, _, _, _, _, _, _⟩, _, _⟩ := l
  simp [zSpec, zFind_nil]

private theorem slot_notin {f : ZField} {fs : List ZField} {k : Nat} (hs : f.slot = some k)
    (hn : ((f :: fs).filterMap ZField.slot).Nodup) : k ∉ fs.filterMap ZField.slot := by
  simp only [List.filterMap_cons, hs] at hn
  exact (List.nodup_cons.mp hn).1

theorem zSpec_cons (c : Cfg) (l : ZLoop) (f : ZField) (fs : List ZField)
    (hn : ((f :: fs).filterMap ZField.slot).Nodup) :
    zSpec c (fieldUpd c l f) fs = zSpec c l (f :: fs) := by
  cases f with
  | traceId v =>
    have := zFind_none_of_slot fTraceId 0 fTraceId_slot fs (slot_notin rfl hn)
    simp [zSpec, fieldUpd, zFind_cons, fTraceId, fId, fParentId, fTimestamp, fDuration, fName, fLocal, fRemote, fieldKv, this]
  | id v =>
    have := zFind_none_of_slot fId 1 fId_slot fs (slot_notin rfl hn)
    simp [zSpec, fieldUpd, zFind_cons, fTraceId, fId, fParentId, fTimestamp, fDuration, fName, fLocal, fRemote, fieldKv, this]
  | parentId v =>
    have := zFind_none_of_slot fParentId 2 fParentId_slot fs (slot_notin rfl hn)
    simp [zSpec, fieldUpd, zFind_cons, fTraceId, fId, fParentId, fTimestamp, fDuration, fName, fLocal, fRemote, fieldKv, this]
  | timestamp v =>
    have := zFind_none_of_slot fTimestamp 3 fTimestamp_slot fs (slot_notin rfl hn)
    simp [zSpec, fieldUpd, zFind_cons, fTraceId, fId, fParentId, fTimestamp, fDuration, fName, fLocal, fRemote, fieldKv, this]
  | duration v =>
    have := zFind_none_of_slot fDuration 4 fDuration_slot fs (slot_notin rfl hn)
    simp [zSpec, fieldUpd, zFind_cons, fTraceId, fId, fParentId, fTimestamp, fDuration, fName, fLocal, fRemote, fieldKv, this]
  | name v =>
    have := zFind_none_of_slot fName 5 fName_slot fs (slot_notin rfl hn)
    simp [zSpec, fieldUpd, zFind_cons, fTraceId, fId, fParentId, fTimestamp, fDuration, fName, fLocal, fRemote, this]
  | localEndpoint e =>
    have := zFind_none_of_slot fLocal 6 fLocal_slot fs (slot_notin rfl hn)
    simp [zSpec, fieldUpd, zFind_cons, fTraceId, fId, fParentId, fTimestamp, fDuration, fName, fLocal, fRemote, fieldKv, this]
  | remoteEndpoint e =>
    have := zFind_none_of_slot fRemote 7 fRemote_slot fs (slot_notin rfl hn)
    simp [zSpec, fieldUpd, zFind_cons, fTraceId, fId, fParentId, fTimestamp, fDuration, fName, fLocal, fRemote, fieldKv, this]
  | tags t =>
    simp [zSpec, fieldUpd, zFind_cons, fTraceId, fId, fParentId, fTimestamp, fDuration, fName, fLocal, fRemote, fieldKv]
  | kind v =>
    simp [zSpec, fieldUpd, zFind_cons, fTraceId, fId, fParentId, fTimestamp, fDuration, fName, fLocal, fRemote, fieldKv]
  | annotations a =>
    simp [zSpec, fieldUpd, zFind_cons, fTraceId, fId, fParentId, fTimestamp, fDuration, fName, fLocal, fRemote, fieldKv]
  | other =>
    simp [zSpec, fieldUpd, zFind_cons, fTraceId, fId, fParentId, fTimestamp, fDuration, fName, fLocal, fRemote, fieldKv]

/-- the walk over the members of an object with unique member names: refused iff some member is refused,
    otherwise the state described member by member -/
theorem zfold_spec (c : Cfg) : ∀ (fs : List ZField) (l : ZLoop), (fs.filterMap ZField.slot).Nodup →
    fs.foldlM (zStep c) l = if fs.all (fieldOk c) then .ok (zSpec c l fs) else .error .reject := by
  intro fs
  induction fs with
  | nil => intro l _; simp [zSpec_nil]; rfl
  | cons f fs ih =>
    intro l hn
    have hn' : (fs.filterMap ZField.slot).Nodup := by
      cases hs : f.slot with
      | none => simpa [List.filterMap_cons, hs] using hn
      | some k => simp only [List.filterMap_cons, hs] at hn; exact (List.nodup_cons.mp hn).2
    rw [List.foldlM_cons]
    by_cases hf : fieldOk c f = true
    · rw [zStep_ok c l f hf]
      simp only [List.all_cons, hf, Bool.true_and]
      show (fs.foldlM (zStep c) (fieldUpd c l f)) = _
      rw [ih _ hn', zSpec_cons c l f fs hn]
    · have hf' : fieldOk c f = false := by simpa using hf
      rw [zStep_error c l f hf']
      simp only [List.all_cons, hf', Bool.false_and]
      rfl

/-- the `onSpan` arguments of a span whose members are all accepted -/
def specArgs (c : Cfg) (raw : ZSpan) : Args :=
  let l := zSpec c { d := { payload := .zipkin raw, payloadLen := raw.rawLen } } raw.fields
  let svc := if l.localSvc = [] then l.remoteSvc else l.localSvc
  ⟨l.d.traceId.getD [], l.d.spanId.getD [], l.d.ts, l.d.dur, l.d.parentId, l.d.name, svc, .zipkin raw, raw.rawLen,
   l.d.kv ++ [(kServiceName, svc)]⟩

/-- every member is accepted and nothing but white space follows the object -/
def ZSpan.ok (c : Cfg) (raw : ZSpan) : Bool := raw.fields.all (fieldOk c) && raw.tail.all isWs

theorem decodeSpan_spec (c : Cfg) (d : ZDec) (raw : ZSpan) (hu : raw.UniqueKeys) :
    (decodeSpan c d raw).map (·.2) = if raw.ok c then .ok (specArgs c raw) else .error .reject := by
  unfold decodeSpan ZSpan.ok
  simp only [bind, Except.bind, zfold_spec c raw.fields _ hu]
  by_cases h : raw.fields.all (fieldOk c) = true
  · simp only [h, if_true, Bool.true_and]
    by_cases ht : raw.tail.all isWs = true
    · simp only [ht]; rfl
    · have ht' : raw.tail.all isWs = false := by simpa using ht
      simp only [ht']; rfl
  · have h' : raw.fields.all (fieldOk c) = false := by simpa using h
    simp only [h', Bool.false_and]; rfl

end Qryn.Span

namespace Qryn.Span

/-- with unique member names, looking a member up by name finds it wherever it stands -/
theorem zFind_eq_some_iff {α} (g : ZField → Option α) (k : Nat) (hg : ∀ x v, g x = some v → x.slot = some k) :
    ∀ (fs : List ZField), (fs.filterMap ZField.slot).Nodup → ∀ v, zFind fs g = some v ↔ ∃ x ∈ fs, g x = some v := by
  intro fs
  induction fs with
  | nil => intro _ v; simp [zFind_nil]
  | cons f fs ih =>
    intro hn v
    rw [zFind_cons]
    cases hgf : g f with
    | none =>
      have hn' : (fs.filterMap ZField.slot).Nodup := by
        cases hs : f.slot with
        | none => simpa [List.filterMap_cons, hs] using hn
        | some k => simp only [List.filterMap_cons, hs] at hn; exact (List.nodup_cons.mp hn).2
      simp only [ih hn' v, List.mem_cons]
      constructor
      · rintro ⟨x, hx, hgx⟩; exact ⟨x, Or.inr hx, hgx⟩
      · rintro ⟨x, hx | hx, hgx⟩
        · subst hx; rw [hgf] at hgx; cases hgx
        · exact ⟨x, hx, hgx⟩
    | some w =>
      have hk := slot_notin (hg f w hgf) hn
      simp only [Option.some.injEq, List.mem_cons]
      constructor
      · rintro rfl; exact ⟨f, Or.inl rfl, hgf⟩
      · rintro ⟨x, hx | hx, hgx⟩
        · subst hx; rw [hgf] at hgx; exact Option.some.inj hgx
        · exfalso; apply hk
          exact List.mem_filterMap.mpr ⟨x, hx, hg x v hgx⟩

theorem zFind_perm {α} (g : ZField → Option α) (k : Nat) (hg : ∀ x v, g x = some v → x.slot = some k)
    {fs fs' : List ZField} (hp : fs.Perm fs') (hn : (fs.filterMap ZField.slot).Nodup) : zFind fs g = zFind fs' g := by
  have hn' : (fs'.filterMap ZField.slot).Nodup := (hp.filterMap _).nodup_iff.mp hn
  apply Option.ext
  intro v
  rw [zFind_eq_some_iff g k hg fs hn, zFind_eq_some_iff g k hg fs' hn']
  constructor
  · rintro ⟨x, hx, h⟩; exact ⟨x, hp.mem_iff.mp hx, h⟩
  · rintro ⟨x, hx, h⟩; exact ⟨x, hp.mem_iff.mpr hx, h⟩

end Qryn.Span


namespace Qryn.Span

/-! ### the walk over ANY member list (duplicate names allowed): the last occurrence of a name wins -/

/-- the last member of that name -/
def zLast {α} (fs : List ZField) (g : ZField → Option α) : Option α := zFind fs.reverse g

theorem zLast_nil {α} (g : ZField → Option α) : zLast [] g = none := rfl

theorem zLast_cons {α} (f : ZField) (fs : List ZField) (g : ZField → Option α) :
    zLast (f :: fs) g = (zLast fs g).or (g f) := by
  unfold zLast zFind
  rw [List.reverse_cons, List.findSome?_append]
  cases h : List.findSome? g fs.reverse with
  | some v => simp
  | none => simp [List.findSome?_cons]; cases g f <;> rfl

/-- the loop state after the walk over any member list: every scalar member by its LAST occurrence, the tag rows of
    all members in document order -/
def zSpecLast (c : Cfg) (l : ZLoop) (fs : List ZField) : ZLoop :=
  { d :=
      { traceId := ((zLast fs fTraceId).map (fun h => hexVal h c.traceHex)).or l.d.traceId
        spanId := ((zLast fs fId).map (fun h => hexVal h c.spanHex)).or l.d.spanId
        ts := ((zLast fs fTimestamp).map timeVal).getD l.d.ts
        dur := ((zLast fs fDuration).map timeVal).getD l.d.dur
        parentId := ((zLast fs fParentId).map (fun h => hexVal h c.parentHex)).getD l.d.parentId
        name := ((zLast fs fName).map (fun v => v.getD [])).getD l.d.name
        svc := l.d.svc
        payload := l.d.payload
        payloadLen := l.d.payloadLen
        kv := l.d.kv ++ fs.flatMap fieldKv }
    localSvc := ((zLast fs fLocal).map epSvc).getD l.localSvc
    remoteSvc := ((zLast fs fRemote).map epSvc).getD l.remoteSvc }

theorem zSpecLast_nil (c : Cfg) (l : ZLoop) : zSpecLast c l [] = l := by
  obtain ⟨⟨_, _, _, _, _, _, _, _, _, _⟩, _, _⟩ := l
  simp [zSpecLast, zLast_nil]

theorem zSpecLast_cons (c : Cfg) (l : ZLoop) (f : ZField) (fs : List ZField) :
    zSpecLast c (fieldUpd c l f) fs = zSpecLast c l (f :: fs) := by
  cases f with
  | traceId v =>
    simp [zSpecLast, fieldUpd, zLast_cons, fTraceId, fId, fParentId, fTimestamp, fDuration, fName, fLocal, fRemote, fieldKv]
  | id v =>
    simp [zSpecLast, fieldUpd, zLast_cons, fTraceId, fId, fParentId, fTimestamp, fDuration, fName, fLocal, fRemote, fieldKv]
  | parentId v =>
    simp [zSpecLast, fieldUpd, zLast_cons, fTraceId, fId, fParentId, fTimestamp, fDuration, fName, fLocal, fRemote, fieldKv]
  | timestamp v =>
    simp [zSpecLast, fieldUpd, zLast_cons, fTraceId, fId, fParentId, fTimestamp, fDuration, fName, fLocal, fRemote, fieldKv]
  | duration v =>
    simp [zSpecLast, fieldUpd, zLast_cons, fTraceId, fId, fParentId, fTimestamp, fDuration, fName, fLocal, fRemote, fieldKv]
  | name v =>
    simp [zSpecLast, fieldUpd, zLast_cons, fTraceId, fId, fParentId, fTimestamp, fDuration, fName, fLocal, fRemote]
  | localEndpoint e =>
    simp [zSpecLast, fieldUpd, zLast_cons, fTraceId, fId, fParentId, fTimestamp, fDuration, fName, fLocal, fRemote, fieldKv]
  | remoteEndpoint e =>
    simp [zSpecLast, fieldUpd, zLast_cons, fTraceId, fId, fParentId, fTimestamp, fDuration, fName, fLocal, fRemote, fieldKv]
  | tags t =>
    simp [zSpecLast, fieldUpd, zLast_cons, fTraceId, fId, fParentId, fTimestamp, fDuration, fName, fLocal, fRemote, fieldKv]
  | kind v =>
    simp [zSpecLast, fieldUpd, zLast_cons, fTraceId, fId, fParentId, fTimestamp, fDuration, fName, fLocal, fRemote, fieldKv]
  | annotations a =>
    simp [zSpecLast, fieldUpd, zLast_cons, fTraceId, fId, fParentId, fTimestamp, fDuration, fName, fLocal, fRemote, fieldKv]
  | other =>
    simp [zSpecLast, fieldUpd, zLast_cons, fTraceId, fId, fParentId, fTimestamp, fDuration, fName, fLocal, fRemote, fieldKv]

theorem zfold_last (c : Cfg) : ∀ (fs : List ZField) (l : ZLoop),
    fs.foldlM (zStep c) l = if fs.all (fieldOk c) then .ok (zSpecLast c l fs) else .error .reject := by
  intro fs
  induction fs with
  | nil => intro l; simp [zSpecLast_nil]; rfl
  | cons f fs ih =>
    intro l
    rw [List.foldlM_cons]
    by_cases hf : fieldOk c f = true
    · rw [zStep_ok c l f hf]
      simp only [List.all_cons, hf, Bool.true_and]
      show (fs.foldlM (zStep c) (fieldUpd c l f)) = _
      rw [ih, zSpecLast_cons c l f fs]
    · have hf' : fieldOk c f = false := by simpa using hf
      rw [zStep_error c l f hf']
      simp only [List.all_cons, hf', Bool.false_and]
      rfl

/-- the `onSpan` arguments of ANY span whose members are all accepted -/
def lastArgs (c : Cfg) (raw : ZSpan) : Args :=
  let l := zSpecLast c { d := { payload := .zipkin raw, payloadLen := raw.rawLen } } raw.fields
  let svc := if l.localSvc = [] then l.remoteSvc else l.localSvc
  ⟨l.d.traceId.getD [], l.d.spanId.getD [], l.d.ts, l.d.dur, l.d.parentId, l.d.name, svc, .zipkin raw, raw.rawLen,
   l.d.kv ++ [(kServiceName, svc)]⟩

theorem decodeSpan_last (c : Cfg) (d : ZDec) (raw : ZSpan) :
    (decodeSpan c d raw).map (·.2) = if raw.ok c then .ok (lastArgs c raw) else .error .reject := by
  unfold decodeSpan ZSpan.ok
  simp only [bind, Except.bind, zfold_last c raw.fields _]
  by_cases h : raw.fields.all (fieldOk c) = true
  · simp only [h, if_true, Bool.true_and]
    by_cases ht : raw.tail.all isWs = true
    · simp only [ht]; rfl
    · have ht' : raw.tail.all isWs = false := by simpa using ht
      simp only [ht']; rfl
  · have h' : raw.fields.all (fieldOk c) = false := by simpa using h
    simp only [h', Bool.false_and]; rfl

end Qryn.Span
