import Qryn.LogQL.Pushdown
import Qryn.Proofs.AnalyzeX
/-! `pushdown_sound` and its criterion: a label filter that reads no label an earlier stage may set or remove
    evaluates the same on the stored labels as on the labels at its position. -/
namespace Qryn.LogQL
open Qryn Qryn.Sql

theorem lookup_filter_keeps (n : Bytes) (p : Bytes × Bytes → Bool) (L : Labels) (h : ∀ v, p (n, v) = true) :
    (L.filter p).lookup n = L.lookup n := by
  induction L with
  | nil => rfl
  | cons kv t ih =>
    obtain ⟨k, v⟩ := kv
    by_cases hk : n == k
    · have : k = n := (eq_of_beq hk).symm
      subst this
      simp [h v, List.lookup]
    · by_cases hp : p (k, v) = true
      · simp [hp, List.lookup, hk, ih]
      · simp [hp, List.lookup, hk, ih]

theorem lookup_none_of_not_key (n : Bytes) (b : Labels) (h : n ∉ b.map (·.1)) : b.lookup n = none := by
  induction b with
  | nil => rfl
  | cons kv t ih =>
    obtain ⟨k, v⟩ := kv
    simp only [List.map_cons, List.mem_cons, not_or] at h
    have hk : (n == k) = false := by simpa using h.1
    simp [List.lookup, hk, ih h.2]

theorem any_key_false (n : Bytes) (b : Labels) (h : n ∉ b.map (·.1)) : b.any (fun q => q.1 == n) = false := by
  induction b with
  | nil => rfl
  | cons kv t ih =>
    simp only [List.map_cons, List.mem_cons, not_or] at h
    have hk : (kv.1 == n) = false := by
      have := h.1
      simp only [beq_eq_false_iff_ne, ne_eq]
      exact fun e => this e.symm
    simp [hk, ih h.2]

theorem lookup_mapUpdate (n : Bytes) (L b : Labels) (h : n ∉ b.map (·.1)) : (mapUpdate L b).lookup n = L.lookup n := by
  unfold mapUpdate
  rw [List.lookup_append, lookup_none_of_not_key n b h, lookup_filter_keeps n _ L (by intro v; simp [any_key_false n b h])]
  simp

theorem regexPairs_keys (names vals : List Bytes) (n : Bytes) (h : n ∈ (regexPairs names vals).map (·.1)) : n ∈ names := by
  unfold regexPairs at h
  obtain ⟨p, hp, rfl⟩ := List.mem_map.mp h
  exact (List.of_mem_zip (List.mem_filter.mp hp).1).1

theorem dropKeeps_other (ps : List (Bytes × Bytes)) (n v : Bytes) (h : n ∉ ps.map (·.1)) : dropKeeps ps (n, v) = true := by
  unfold dropKeeps
  rw [List.all_eq_true]
  intro p hp
  have hne : n ≠ p.1 := fun e => h (List.mem_map.mpr ⟨p, hp, e.symm⟩)
  by_cases he : p.2.isEmpty = true
  · simp [he, hne]
  · simp [he, hne]

/-- a stage leaves alone every label it does not name -/
theorem lookup_applyChanger (o : Oracles) (line : Bytes) (L : Labels) (c : Changer) (n : Bytes) (h : n ∉ c.writes) :
    (applyChanger o line L c).lookup n = L.lookup n := by
  cases c with
  | json ps =>
    simp only [applyChanger]
    apply lookup_mapUpdate
    simpa [Changer.writes, List.map_map, Function.comp_def] using h
  | regexp names re =>
    simp only [applyChanger]
    apply lookup_mapUpdate
    exact fun hm => h (regexPairs_keys names _ n hm)
  | drop ps =>
    simp only [applyChanger]
    exact lookup_filter_keeps n _ L (fun v => dropKeeps_other ps n v h)

/-- a filter sees a label set only through the labels it reads -/
theorem labelCondHolds_congr (o : Oracles) (L1 L2 : Labels) (lc : LabelCond)
    (h : ∀ n ∈ lc.reads, L1.lookup n = L2.lookup n) : labelCondHolds o L1 lc = labelCondHolds o L2 lc := by
  induction lc with
  | str l op v =>
    have := h l.toUTF8.toList (List.mem_singleton.mpr rfl)
    simp only [labelCondHolds, labelValue, this]
  | num l op v =>
    have := h l.toUTF8.toList (List.mem_singleton.mpr rfl)
    simp only [labelCondHolds, labelValue, this]
  | and a b iha ihb =>
    simp only [labelCondHolds, iha (fun n hn => h n (by simp [LabelCond.reads, hn])),
      ihb (fun n hn => h n (by simp [LabelCond.reads, hn]))]
  | or a b iha ihb =>
    simp only [labelCondHolds, iha (fun n hn => h n (by simp [LabelCond.reads, hn])),
      ihb (fun n hn => h n (by simp [LabelCond.reads, hn]))]

/-- **the criterion**: a filter that reads no label one of the stages may set or remove evaluates the same before and
    after them, whatever the line and the stored labels -/
theorem independent_sound (o : Oracles) (line : Bytes) (cs : List Changer) (lc : LabelCond) (stored : Labels)
    (h : independent cs lc = true) :
    labelCondHolds o (cs.foldl (applyChanger o line) stored) lc = labelCondHolds o stored lc := by
  induction cs generalizing stored with
  | nil => rfl
  | cons c rest ih =>
    simp only [independent, List.all_cons, Bool.and_eq_true] at h
    rw [List.foldl_cons, ih _ (by simpa [independent] using h.2)]
    apply labelCondHolds_congr
    intro n hn
    apply lookup_applyChanger
    intro hw
    have := (List.all_eq_true.mp h.1) n hw
    simp [hn] at this

/-- **pushdown_sound** (core): the stages the analysis marks see, at their position, exactly the stored labels -/
theorem labelsAt_simple (o : Oracles) (line : Bytes) (stored : Labels) (ss : List StageX) (i : Nat)
    (h : (simpleOps ss)[i]? = some true) : labelsAt o line stored ss i = stored := by
  have := ((simpleOps_spec ss i).mp h).2
  simp [labelsAt, this]

/-- the pinned rule is an instance of the criterion -/
theorem simple_independent (ss : List StageX) (i : Nat) (lc : LabelCond) (h : (simpleOps ss)[i]? = some true) :
    independent (changersOf (ss.take i)) lc = true := by
  have := ((simpleOps_spec ss i).mp h).2
  simp [this, independent]

/-- the UTF-8 bytes of the label name of the witnesses (`decide` cannot evaluate `String.toUTF8`; the kernel can) -/
theorem x_bytes : "x".toByteArray.toList = [120] := by decide +kernel

theorem erase_take_changers (ss : List PStage) (i : Nat) :
    changersOf ((ss.map PStage.erase).take i) = changersOf ((ss.take i).map PStage.erase) := by
  rw [List.map_take]

end Qryn.LogQL
