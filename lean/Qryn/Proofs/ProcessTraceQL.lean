import Qryn.TraceQL.Process
/-! Lemmas for C14 (TraceQL): the state machine of `TraceQL/Process.lean` refines the pure planner of C11. -/
namespace Qryn.TraceQL
open Qryn Qryn.Sql

theorem condSqlA_bsCond (terms : List Expr) (cond : Cond) (a : Bool) :
    condSqlA terms "bsCond" a cond = condSql terms a cond := by
  induction cond generalizing a with
  | leaf i => rfl
  | node op l r ihl ihr => cases op <;> simp [condSqlA, condSql, ihl, ihr]

/-- the three tails add exactly `randomFilter c` -/
theorem attrTail_sel (st : AttrState) (c : Ctx) (res : Sel) :
    (attrTail st c res).2 = (match randomFilter c with | [] => res | f => res.andWhere f) := by
  unfold attrTail portionOf randomFilter hashFilter
  by_cases h1 : c.rndMax ≠ 0 ∧ ¬ c.cached.isEmpty
  · simp [h1]
  · by_cases h2 : c.rndMax ≠ 0
    · by_cases h3 : c.cached = []
      · simp [h2, h3]
      · simp [h2, h3] at h1
    · simp [h2]

/-- every tail leaves the flag reset and touches nothing else -/
theorem attrTail_state (st : AttrState) (c : Ctx) (res : Sel) :
    (attrTail st c res).1 = { st with isAliased := false } := by
  unfold attrTail
  cases portionOf c <;> rfl

/-- **one `AttrConditionPlanner.Process`**: from any values of `sqlConds`, `where`, `alias` — and `isAliased`
    reset, as every return path leaves it — the result is the pure planner's -/
theorem processAttr_out (st : AttrState) (h : st.isAliased = false) (c : Ctx) (terms : List Term) (cond : Cond)
    (aggAttr : String) : (processAttr st c terms cond aggAttr).2 = attrCondition c terms cond aggAttr := by
  unfold processAttr processAttrWith whereNew createWhere attrCondition attrConditionCore
  split
  · rfl
  · cases hm : mapOk termSql terms with
    | error e => rfl
    | ok xs =>
      simp only [h, condSqlA_bsCond, attrTail_sel]
      rfl

/-- … and the flag is reset again afterwards (also when `Process` returned an error) -/
theorem processAttr_clean (st : AttrState) (h : st.isAliased = false) (c : Ctx) (terms : List Term) (cond : Cond)
    (aggAttr : String) : (processAttr st c terms cond aggAttr).1.isAliased = false := by
  unfold processAttr processAttrWith whereNew createWhere
  split
  · exact h
  · cases hm : mapOk termSql terms with
    | error e => simpa using h
    | ok xs => simp [attrTail_state]

/-- `AggregatorPlanner.Process` never reads what an earlier `Process` left in `fCmpVal` -/
theorem processAgg_out (st : AggState) (pfx : String) (a : Agg) (main : Sel) :
    (processAgg st pfx a main).2 = aggregator pfx a main := by
  unfold processAgg aggregator cmpValS
  cases hc : cmpSql a.cmp with
  | none => rfl
  | some fn =>
    cases hv : aggCmpText a with
    | error e => rfl
    | ok v => rfl

theorem processSimple_out (c : Ctx) (pfx : String) (script : Script) (ast : AttrState) (gst : AggState)
    (h : ast.isAliased = false) : (processSimple c pfx script ast gst).2.2 = simpleSel c pfx script := by
  unfold processSimple simpleSel
  cases hck : check script with
  | error e => rfl
  | ok u =>
    cases script with
    | nil => rfl
    | cons hd tl =>
      obtain ⟨s, op⟩ := hd
      cases hat : s.attrs with
      | none =>
        cases hag : s.agg with
        | none => simp [hat, hag]; rfl
        | some a => simp [hat, hag, processAgg_out]; rfl
      | some e =>
        cases hag : s.agg with
        | none =>
          simp only [hat, hag]
          have ho := processAttr_out ast h c (analyzeCond [] e).1 (analyzeCond [] e).2 ""
          cases hr : processAttr ast c (analyzeCond [] e).1 (analyzeCond [] e).2 "" with
          | mk ast' res =>
            rw [hr] at ho
            simp only at ho
            rw [← ho]
            cases res <;> rfl
        | some a =>
          simp only [hat, hag]
          have ho := processAttr_out ast h c (analyzeCond [] e).1 (analyzeCond [] e).2 a.attr
          cases hr : processAttr ast c (analyzeCond [] e).1 (analyzeCond [] e).2 a.attr with
          | mk ast' res =>
            rw [hr] at ho
            simp only at ho
            rw [← ho]
            cases res with
            | error er => rfl
            | ok sel => simp [processAgg_out]; rfl

theorem processSimple_clean (c : Ctx) (pfx : String) (script : Script) (ast : AttrState) (gst : AggState)
    (h : ast.isAliased = false) : (processSimple c pfx script ast gst).1.isAliased = false := by
  unfold processSimple
  cases hck : check script with
  | error e => exact h
  | ok u =>
    cases script with
    | nil => exact h
    | cons hd tl =>
      obtain ⟨s, op⟩ := hd
      cases hat : s.attrs with
      | none =>
        cases hag : s.agg with
        | none => simpa [hat, hag] using h
        | some a => simpa [hat, hag] using h
      | some e =>
        cases hag : s.agg with
        | none =>
          simp only [hat, hag]
          have hc := processAttr_clean ast h c (analyzeCond [] e).1 (analyzeCond [] e).2 ""
          cases hr : processAttr ast c (analyzeCond [] e).1 (analyzeCond [] e).2 "" with
          | mk ast' res =>
            rw [hr] at hc
            cases res <;> simpa using hc
        | some a =>
          simp only [hat, hag]
          have hc := processAttr_clean ast h c (analyzeCond [] e).1 (analyzeCond [] e).2 a.attr
          cases hr : processAttr ast c (analyzeCond [] e).1 (analyzeCond [] e).2 a.attr with
          | mk ast' res =>
            rw [hr] at hc
            cases res <;> simpa using hc

theorem processTree_out (c : Ctx) : ∀ p : PTree, p.clean → (processTree c p).2 = pureTree c p
  | .simple script pfx ast gst, h => by
    simp only [processTree, pureTree]
    exact processSimple_out c pfx script ast gst h
  | .complex isAnd k l r, h => by
    have hl := processTree_out c l h.1
    have hr := processTree_out c r h.2
    simp only [processTree, pureTree]
    cases hpl : processTree c l with
    | mk l' rl =>
      rw [hpl] at hl
      simp only at hl
      rw [← hl]
      cases rl with
      | error e => rfl
      | ok ls =>
        cases hpr : processTree c r with
        | mk r' rr =>
          rw [hpr] at hr
          simp only at hr
          rw [← hr]
          cases rr <;> rfl

theorem processTree_clean (c : Ctx) : ∀ p : PTree, p.clean → (processTree c p).1.clean
  | .simple script pfx ast gst, h => by
    simp only [processTree, PTree.clean]
    exact processSimple_clean c pfx script ast gst h
  | .complex isAnd k l r, h => by
    have hl := processTree_clean c l h.1
    have hr := processTree_clean c r h.2
    simp only [processTree]
    cases hpl : processTree c l with
    | mk l' rl =>
      rw [hpl] at hl
      cases rl with
      | error e => exact ⟨hl, h.2⟩
      | ok ls =>
        cases hpr : processTree c r with
        | mk r' rr =>
          rw [hpr] at hr
          cases rr <;> exact ⟨hl, hr⟩

/-- `Process` changes nothing of a plan but the listed fields -/
theorem processTree_shape (c : Ctx) : ∀ p : PTree, (processTree c p).1.shape = p.shape
  | .simple script pfx ast gst => rfl
  | .complex isAnd k l r => by
    have hl := processTree_shape c l
    have hr := processTree_shape c r
    simp only [processTree]
    cases hpl : processTree c l with
    | mk l' rl =>
      rw [hpl] at hl
      cases rl with
      | error e => simp [PTree.shape, hl]
      | ok ls =>
        cases hpr : processTree c r with
        | mk r' rr =>
          rw [hpr] at hr
          cases rr <;> simp [PTree.shape, hl, hr]

/-- the pure reading does not look at the fields -/
theorem pureTree_shape (c : Ctx) : ∀ p : PTree, pureTree c p.shape = pureTree c p
  | .simple _ _ _ _ => rfl
  | .complex isAnd k l r => by simp [PTree.shape, pureTree, pureTree_shape c l, pureTree_shape c r]

theorem runsT_eq (p : PTree) (hp : p.clean) (cs : List Ctx) :
    runsT p cs = cs.map (fun c => finishPlan c (pureTree c p.shape)) := by
  induction cs generalizing p with
  | nil => rfl
  | cons c cs ih =>
    simp only [runsT, processPlan, List.map_cons, List.cons.injEq]
    refine ⟨by rw [processTree_out c p hp, pureTree_shape], ?_⟩
    rw [ih _ (processTree_clean c p hp), processTree_shape]

theorem pureTree_ofX (c : Ctx) : ∀ t : XTree, pureTree c (.ofX t) = treeSel c t
  | .simple script k => rfl
  | .complex isAnd k l r => by simp [PTree.ofX, pureTree, treeSel, pureTree_ofX c l, pureTree_ofX c r]

theorem ofX_clean : ∀ t : XTree, (PTree.ofX t).clean
  | .simple _ _ => rfl
  | .complex _ _ l r => ⟨ofX_clean l, ofX_clean r⟩

theorem ofX_shape : ∀ t : XTree, (PTree.ofX t).shape = .ofX t
  | .simple _ _ => rfl
  | .complex _ _ l r => by simp [PTree.ofX, PTree.shape, ofX_shape l, ofX_shape r]

/-- a freshly planned tree is clean, is its own shape, and its pure reading is C11's `plan` -/
theorem prepare_spec (script : Script) (p : PTree) (h : prepare script = .ok p) (c : Ctx) :
    p.clean ∧ p.shape = p ∧ finishPlan c (pureTree c p) = plan c script := by
  unfold prepare at h
  match script, h with
  | [], h => cases h
  | [x], h =>
    cases h
    refine ⟨rfl, rfl, ?_⟩
    simp only [pureTree, finishPlan, plan, indexGrouped, rootSel]
    cases simpleSel c "" [x] <;> rfl
  | x :: y :: rest, h =>
    cases ht : planTree (x :: y :: rest) with
    | error e => simp [ht] at h; cases h
    | ok t =>
      simp [ht] at h
      have : p = .ofX t := by cases h; rfl
      subst this
      refine ⟨ofX_clean t, ofX_shape t, ?_⟩
      simp only [pureTree_ofX, finishPlan, plan, indexGrouped, rootSel, ht]
      show _ = (do let r ← (do let r ← treeSel c t; pure (indexLimit c r)); pure (indexLimit c (tracesData c r)))
      cases treeSel c t <;> rfl

theorem prepare_fails (script : Script) (e : String) (h : prepare script = .error e) (c : Ctx) :
    plan c script = .error e := by
  unfold prepare at h
  match script, h with
  | [], h => cases h; rfl
  | [x], h => cases h
  | x :: y :: rest, h =>
    cases ht : planTree (x :: y :: rest) with
    | error e' =>
      simp [ht] at h
      have : e' = e := by cases h; rfl
      subst this
      simp [plan, indexGrouped, rootSel, ht]; rfl
    | ok t => simp [ht] at h; cases h

end Qryn.TraceQL
